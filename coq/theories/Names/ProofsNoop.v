(** Names: a rejected operation leaves the state exactly as it was (C11, first clause).
    The statement holds for EVERY state, reachable or not. *)
From Coq Require Import List String Ascii Bool Arith ZArith Lia.
From MX Require Import C3.Model C3.Proofs Names.Model Names.ProofsBase.
Import ListNotations.

Ltac inv H := inversion H; subst; clear H.

(** split every [if] / [match] of the hypothesis; close the branches that return
    the state itself or that are not rejections *)
Ltac split_step H :=
  repeat match type of H with
         | context [if ?c then _ else _] => let E := fresh "E" in destruct c eqn:E
         | context [match ?x with _ => _ end] => let E := fresh "E" in destruct x eqn:E
         end;
  try (inv H; reflexivity); try discriminate.

Lemma del_space_noop st p r st' : step_del_space st p = (Rejected r, st') -> st' = st.
Proof. unfold step_del_space, reject. intros H. split_step H. Qed.

Lemma new_space_noop st parent name bases r st' :
  step_new_space st parent name bases = (Rejected r, st') -> st' = st.
Proof.
  unfold step_new_space, reject. intros H.
  destruct (negb match parent with [] => true | _ :: _ => has_space st parent end); [inv H; reflexivity|].
  destruct (negb (forallb (has_space st) bases)); [inv H; reflexivity|].
  destruct (negb (can_add_space st parent name)) eqn:C; [inv H; reflexivity|].
  destruct (negb (is_valid_name name)); [inv H; reflexivity|].
  destruct (negb (all_mro_ok _)); [inv H; reflexivity|].
  destruct (all_disjoint _); [discriminate|].
  inv H. apply rollback_space. apply can_add_space_fresh. apply negb_false_iff in C. exact C.
Qed.

Lemma auto_named_noop st s f r st' : auto_named_cells st s f = (Rejected r, st') -> st' = st.
Proof. unfold auto_named_cells, reject. intros H. split_step H. Qed.

Lemma unnamed_noop st s f r st' : unnamed_cells st s f = (Rejected r, st') -> st' = st.
Proof.
  unfold unnamed_cells, reject. intros H.
  destruct f as [|t|fn t|]; try (eapply auto_named_noop; eassumption).
  - destruct (is_valid_name fn); [|eapply auto_named_noop; eassumption]. split_step H.
  - inv H. reflexivity.
Qed.

Lemma new_cells_noop st s name f r st' :
  step_new_cells st s name f = (Rejected r, st') -> st' = st.
Proof.
  unfold step_new_cells, reject. intros H.
  destruct (negb (has_space st s)); [inv H; reflexivity|].
  destruct name as [n|]; [|simpl in H; eapply unnamed_noop; eassumption].
  destruct (negb (can_add_cells st s n)) eqn:C; [inv H; reflexivity|].
  destruct (is_valid_name n); [|eapply unnamed_noop; eassumption].
  destruct f; try discriminate.
  inv H. apply rollback_cells. apply can_add_cells_fresh. apply negb_false_iff in C. exact C.
Qed.

Lemma set_formula_noop st s n f r st' : step_set_formula st s n f = (Rejected r, st') -> st' = st.
Proof. unfold step_set_formula, reject. intros H. split_step H. Qed.

Lemma rename_cells_noop st s n new r st' : step_rename_cells st s n new = (Rejected r, st') -> st' = st.
Proof.
  unfold step_rename_cells, reject. intros H.
  destruct (negb (has_space st s)); [inv H; reflexivity|].
  destruct (negb (has_cells st s n)); [inv H; reflexivity|].
  destruct (negb (is_valid_name new)); [inv H; reflexivity|].
  destruct (negb (can_rename_cells st s new)); [inv H; reflexivity|].
  destruct (existsb _ _); [inv H; reflexivity|discriminate].
Qed.

Lemma rename_space_noop st p new r st' : step_rename_space st p new = (Rejected r, st') -> st' = st.
Proof.
  unfold step_rename_space, reject. intros H. destruct p as [|x t]; [inv H; reflexivity|].
  destruct (negb (has_space st (x :: t))); [inv H; reflexivity|].
  destruct (negb (is_valid_name new)); [inv H; reflexivity|].
  destruct (negb (can_add_space st _ new)); [inv H; reflexivity|discriminate].
Qed.

Lemma add_bases_noop st s bs r st' : step_add_bases st s bs = (Rejected r, st') -> st' = st.
Proof.
  unfold step_add_bases, reject. intros H.
  destruct (negb (has_space st s)); [inv H; reflexivity|].
  destruct (negb (forallb (has_space st) bs)); [inv H; reflexivity|].
  destruct (existsb _ bs); [inv H; reflexivity|].
  destruct (negb (all_mro_ok _)); [inv H; reflexivity|].
  destruct (negb (all_disjoint _)); [inv H; reflexivity|discriminate].
Qed.

Lemma remove_bases_noop st s bs r st' : step_remove_bases st s bs = (Rejected r, st') -> st' = st.
Proof.
  unfold step_remove_bases, reject. intros H.
  destruct (negb (has_space st s)); [inv H; reflexivity|].
  destruct (negb (forallb (has_space st) bs)); [inv H; reflexivity|].
  destruct (remove_bases_seq _ bs); [|inv H; reflexivity].
  destruct (negb (all_mro_ok _)); [inv H; reflexivity|discriminate].
Qed.

Lemma set_attr_noop st s n v r st' : step_set_attr st s n v = (Rejected r, st') -> st' = st.
Proof.
  unfold step_set_attr, reject. intros H. destruct s as [|x t].
  - destruct (has_child st [] n); [inv H; reflexivity|discriminate].
  - destruct (negb (has_space st (x :: t))); [inv H; reflexivity|].
    destruct (negb (is_valid_name n)); [inv H; reflexivity|].
    destruct (has_ref st (x :: t) n); [discriminate|].
    destruct (has_gref st n).
    { destruct (can_add_ref st (x :: t) n); [discriminate|inv H; reflexivity]. }
    destruct (has_cells st (x :: t) n).
    { destruct v; [discriminate|inv H; reflexivity]. }
    destruct (has_child st (x :: t) n); [inv H; reflexivity|].
    destruct (can_add_ref st (x :: t) n); [discriminate|inv H; reflexivity].
Qed.

Lemma del_attr_noop st s n r st' : step_del_attr st s n = (Rejected r, st') -> st' = st.
Proof.
  unfold step_del_attr, reject. intros H. destruct s as [|x t].
  - destruct (has_child st [] n); [eapply del_space_noop; eassumption|].
    destruct (has_key n (st_grefs st)); [discriminate|inv H; reflexivity].
  - destruct (negb (has_space st (x :: t))); [inv H; reflexivity|].
    destruct (has_cells st (x :: t) n).
    { destruct (def_cells st (x :: t) n); [discriminate|inv H; reflexivity]. }
    destruct (has_child st (x :: t) n); [eapply del_space_noop; eassumption|].
    destruct (has_ref st (x :: t) n).
    { destruct (def_ref st (x :: t) n); [discriminate|inv H; reflexivity]. }
    destruct (mem_str n sys_names || has_gref st n); inv H; reflexivity.
Qed.

Lemma set_params_noop st s ps r st' : step_set_params st s ps = (Rejected r, st') -> st' = st.
Proof. unfold step_set_params, reject. intros H. split_step H. Qed.

(** C11, first clause: whatever the state, an operation that is rejected - for
    whichever reason - returns the state it was applied to *)
Theorem rejected_noop : forall st o r st', step st o = (Rejected r, st') -> st' = st.
Proof.
  intros st o r st' H. destruct o; simpl in H.
  - eapply new_space_noop; eassumption.
  - eapply new_cells_noop; eassumption.
  - eapply set_formula_noop; eassumption.
  - eapply rename_cells_noop; eassumption.
  - eapply rename_space_noop; eassumption.
  - eapply add_bases_noop; eassumption.
  - eapply remove_bases_noop; eassumption.
  - eapply set_attr_noop; eassumption.
  - eapply del_attr_noop; eassumption.
  - eapply set_params_noop; eassumption.
Qed.

(** the two places where the model mutates first and fails afterwards are real:
    the intermediate states differ from the original one *)
Example new_cells_mutates_then_fails :
  let st := run [NewSpace [] "a" []] in
  insert_cells st ["a"] "b" FNull <> st
  /\ step st (NewCells ["a"] (Some "b") ABad) = (Rejected BadFormula, st).
Proof. split; [intros H; discriminate H|reflexivity]. Qed.

Example new_space_mutates_then_fails :
  let st := run [NewSpace [] "a" []; NewCells ["a"] (Some "x") (ALam 1);
                 NewSpace [] "c" []; SetAttr ["c"] "x" (Some 1%Z)] in
  step st (NewSpace [] "b" [["a"]; ["c"]]) = (Rejected NameConflict, st).
Proof. reflexivity. Qed.
