(** The C3 linearisation commutes with a re-labelling of the nodes that is
    injective on the nodes of the graph (used for [space.rename]). *)
From Coq Require Import List String Ascii Bool Arith Lia.
From MX Require Import C3.Model C3.Proofs.
Import ListNotations.

Definition fmap (f : path -> path) (g : graph) : graph :=
  map (fun e => (f (fst e), map f (snd e))) g.

Definition res_map {A B} (h : A -> B) (r : res A) : res B :=
  match r with Ok x => Ok (h x) | Inconsistent => Inconsistent | OutOfFuel => OutOfFuel end.

Definition inj_on (f : path -> path) (U : path -> Prop) : Prop :=
  forall a b, U a -> U b -> f a = f b -> a = b.

Lemma path_eqb_inj f U a b : inj_on f U -> U a -> U b -> path_eqb (f a) (f b) = path_eqb a b.
Proof.
  intros I Ha Hb. destruct (path_eqb a b) eqn:E.
  - apply path_eqb_eq in E. subst. apply path_eqb_refl.
  - apply path_eqb_neq. apply path_eqb_neq in E. intros H. apply E. apply I; auto.
Qed.

Lemma memb_map f U c l : inj_on f U -> U c -> Forall U l -> memb (f c) (map f l) = memb c l.
Proof.
  intros I Hc Hl. induction Hl as [|y t Hy Ht IH]; simpl; [reflexivity|].
  rewrite (path_eqb_inj f U) by auto. rewrite IH. reflexivity.
Qed.

Lemma bases_of_fmap f U g n : inj_on f U -> Forall U (nodes g) -> U n ->
  bases_of (fmap f g) (f n) = map f (bases_of g n).
Proof.
  intros I Hg Hn. induction g as [|[k bs] t IH]; simpl; [reflexivity|].
  inversion Hg as [|? ? Hk Ht]; subst. rewrite (path_eqb_inj f U) by auto.
  destruct (path_eqb k n); [reflexivity|apply IH, Ht].
Qed.

Lemma in_tail_map f U c s : inj_on f U -> U c -> Forall U s -> in_tail (f c) (map f s) = in_tail c s.
Proof.
  intros I Hc Hs. destruct s as [|h t]; simpl; [reflexivity|].
  inversion Hs; subst. eapply memb_map; eauto.
Qed.

Lemma good_head_map f U all c : inj_on f U -> U c -> Forall (Forall U) all ->
  good_head (map (map f) all) (f c) = good_head all c.
Proof.
  intros I Hc Ha. unfold good_head. f_equal.
  induction Ha as [|s t Hs Ht IH]; simpl; [reflexivity|].
  rewrite (in_tail_map f U) by auto. rewrite IH. reflexivity.
Qed.

Lemma find_cand_map f U ne all : inj_on f U -> Forall (Forall U) ne -> Forall (Forall U) all ->
  find_cand (map (map f) ne) (map (map f) all) = option_map f (find_cand ne all).
Proof.
  intros I Hn Ha. induction Hn as [|s t Hs Ht IH]; simpl; [reflexivity|].
  destruct s as [|c s']; simpl; [exact IH|].
  inversion Hs; subst. rewrite (good_head_map f U) by auto.
  destruct (good_head all c); [reflexivity|exact IH].
Qed.

Lemma drop_head_map f U c s : inj_on f U -> U c -> Forall U s ->
  drop_head (f c) (map f s) = map f (drop_head c s).
Proof.
  intros I Hc Hs. destruct s as [|h t]; simpl; [reflexivity|].
  inversion Hs; subst. rewrite (path_eqb_inj f U) by auto. destruct (path_eqb h c); reflexivity.
Qed.

Lemma filter_nonempty_map (f : path -> path) seqs :
  filter nonemptyb (map (map f) seqs) = map (map f) (filter nonemptyb seqs).
Proof.
  induction seqs as [|s t IH]; simpl; [reflexivity|]. destruct s; simpl; rewrite IH; reflexivity.
Qed.

Lemma Forall_filter {A} (P : A -> Prop) h l : Forall P l -> Forall P (filter h l).
Proof.
  intros H. induction H as [|x t Hx Ht IH]; simpl; [constructor|]. destruct (h x); auto.
Qed.

Lemma find_cand_U U ne all c : Forall (Forall U) ne -> find_cand ne all = Some c -> U c.
Proof.
  intros Hn. induction Hn as [|s t Hs Ht IH]; simpl; [discriminate|].
  destruct s as [|h s']; [exact IH|]. inversion Hs; subst.
  destruct (good_head all h); [intros E; inversion E; subst; assumption|exact IH].
Qed.

Lemma drop_head_U U c s : Forall U s -> Forall U (drop_head c s).
Proof.
  intros Hs. destruct s as [|h t]; simpl; [constructor|]. inversion Hs; subst.
  destruct (path_eqb h c); auto.
Qed.

Lemma merge_map f U : inj_on f U -> forall fuel seqs, Forall (Forall U) seqs ->
  merge fuel (map (map f) seqs) = res_map (map f) (merge fuel seqs).
Proof.
  intros I. induction fuel as [|fu IH]; intros seqs Hs; [reflexivity|].
  rewrite !merge_unfold. rewrite filter_nonempty_map.
  assert (Hne : Forall (Forall U) (filter nonemptyb seqs)) by (apply Forall_filter, Hs).
  destruct (filter nonemptyb seqs) as [|s0 t0] eqn:E; [reflexivity|].
  remember (s0 :: t0) as ne eqn:Ene.
  assert (X : forall (A B : res (list path)) (l : list (list path)), l <> [] ->
              match l with [] => A | _ :: _ => B end = B).
  { intros A B l Hl. destruct l; [congruence|reflexivity]. }
  rewrite X by (subst ne; discriminate).
  rewrite (find_cand_map f U) by auto.
  destruct (find_cand ne ne) as [c|] eqn:F; cbn [option_map res_map]; [|reflexivity].
  assert (Hc : U c) by (eapply find_cand_U; eauto).
  assert (D : map (drop_head (f c)) (map (map f) ne) = map (map f) (map (drop_head c) ne)).
  { rewrite !map_map. apply map_ext_in. intros s Is. rewrite Forall_forall in Hne.
    apply (drop_head_map f U); auto. }
  rewrite D. rewrite IH.
  - destruct (merge fu (map (drop_head c) ne)); reflexivity.
  - apply Forall_forall. intros s Is. apply in_map_iff in Is. destruct Is as (s1 & <- & I1).
    apply drop_head_U. rewrite Forall_forall in Hne. auto.
Qed.

Lemma total_len_map (f : path -> path) seqs : total_len (map (map f) seqs) = total_len seqs.
Proof. induction seqs as [|s t IH]; simpl; [reflexivity|]. rewrite map_length, IH. reflexivity. Qed.

Lemma mapM_res_map {A} (h1 h2 : A -> res (list path)) (f : path -> path) (k : A -> A) l :
  (forall x, In x l -> h2 (k x) = res_map (map f) (h1 x)) ->
  mapM_res h2 (map k l) = res_map (map (map f)) (mapM_res h1 l).
Proof.
  induction l as [|x t IH]; intros H; simpl; [reflexivity|].
  rewrite (H x (or_introl eq_refl)). destruct (h1 x); simpl; try reflexivity.
  rewrite IH by (intros y Iy; apply H; right; exact Iy).
  destruct (mapM_res h1 t); reflexivity.
Qed.

(** the set U contains the nodes and is closed under "declared base of" *)
Definition closed_under (g : graph) (U : path -> Prop) : Prop :=
  Forall U (nodes g) /\ (forall n, U n -> Forall U (bases_of g n)).

Lemma anc_U g U n x : closed_under g U -> U n -> anc g n x -> U x.
Proof.
  intros [_ C] Hn A. induction A as [n|n b x Hb A IH]; [exact Hn|].
  apply IH. specialize (C _ Hn). rewrite Forall_forall in C. auto.
Qed.

Lemma mro_U g U fuel n l : closed_under g U -> U n -> mro fuel g n = Ok l -> Forall U l.
Proof.
  intros C Hn M. apply Forall_forall. intros x I. eapply anc_U; eauto. eapply mro_In_anc; eauto.
Qed.

Lemma mapM_ok_U g U fuel bs seqs : closed_under g U -> Forall U bs ->
  mapM_res (mro fuel g) bs = Ok seqs -> Forall (Forall U) seqs.
Proof.
  intros C Hb. revert seqs. induction Hb as [|b t Hbb Ht IH]; simpl; intros seqs M; [inversion M; constructor|].
  destruct (mro fuel g b) as [l| |] eqn:E; try discriminate.
  destruct (mapM_res (mro fuel g) t) as [ls| |] eqn:E2; try discriminate.
  inversion M; subst. constructor; [eapply mro_U; eauto|apply IH; reflexivity].
Qed.

Theorem mro_fmap f U g : inj_on f U -> closed_under g U ->
  forall fuel n, U n -> mro fuel (fmap f g) (f n) = res_map (map f) (mro fuel g n).
Proof.
  intros I C. induction fuel as [|fu IH]; intros n Hn; [reflexivity|].
  rewrite !mro_unfold. destruct C as [C1 C2]. rewrite (bases_of_fmap f U) by auto.
  assert (Hb : Forall U (bases_of g n)) by auto.
  rewrite (mapM_res_map (mro fu g) (mro fu (fmap f g)) f f).
  2:{ intros b Ib. rewrite Forall_forall in Hb. apply IH. auto. }
  destruct (mapM_res (mro fu g) (bases_of g n)) as [seqs| |] eqn:E; cbn [res_map]; try reflexivity.
  assert (Hs : Forall (Forall U) seqs) by (eapply mapM_ok_U; eauto; split; auto).
  replace (map (map f) seqs ++ [map f (bases_of g n)])%list
    with (map (map f) (seqs ++ [bases_of g n])%list) by (rewrite map_app; reflexivity).
  rewrite total_len_map. rewrite (merge_map f U) by (auto; apply Forall_app; split; auto).
  destruct (merge _ (seqs ++ [bases_of g n])%list); reflexivity.
Qed.

Lemma fmap_length f g : List.length (fmap f g) = List.length g.
Proof. apply map_length. Qed.

Corollary mro_of_fmap f U g n : inj_on f U -> closed_under g U -> U n ->
  mro_of (fmap f g) (f n) = res_map (map f) (mro_of g n).
Proof. intros I C Hn. unfold mro_of. rewrite fmap_length. apply (mro_fmap f U); auto. Qed.

Corollary mro_list_fmap f U g n : inj_on f U -> closed_under g U -> U n ->
  mro_list (fmap f g) (f n) = map f (mro_list g n).
Proof.
  intros I C Hn. unfold mro_list. rewrite (mro_of_fmap f U) by auto. destruct (mro_of g n); reflexivity.
Qed.

Corollary all_mro_ok_fmap f U g : inj_on f U -> closed_under g U ->
  forallb (fun n => is_ok (mro_of g n)) (nodes g) = true ->
  forallb (fun n => is_ok (mro_of (fmap f g) n)) (nodes (fmap f g)) = true.
Proof.
  intros I C H. rewrite forallb_forall in *. intros n' In'. unfold nodes, fmap in In'. rewrite map_map in In'.
  simpl in In'. apply in_map_iff in In'. destruct In' as ([k bs] & <- & Ik). simpl.
  assert (Hk : In k (nodes g)) by (apply in_map_iff; exists (k, bs); auto).
  destruct C as [C1 C2]. assert (Uk : U k) by (rewrite Forall_forall in C1; auto).
  rewrite (mro_of_fmap f U) by (auto; split; auto). specialize (H _ Hk). destruct (mro_of g k); auto.
Qed.
