(** Names: only valid identifiers become names of spaces and cells (C11, last clause) *)
From Coq Require Import List String Ascii Bool Arith ZArith Lia DecimalString.
From MX Require Import C3.Model C3.Proofs Names.Model Names.ProofsBase Names.ProofsNoop.
Import ListNotations.

(** every component of every space path and every name of a defined cells is
    a valid name (derived cells carry the names of defined ones) *)
Definition names_ok (st : state) : Prop :=
  (forall p, In p (keys st) -> p <> [] /\ forallb is_valid_name p = true) /\
  (forall p sd n, In (p, sd) (st_spaces st) -> In n (map fst (s_cells sd)) -> is_valid_name n = true).

(** ---- the automatic names are valid ---- *)
Lemma digits_idrest (u : Decimal.uint) : all_idrest (NilEmpty.string_of_uint u) = true.
Proof. induction u; simpl; try reflexivity; exact IHu. Qed.

Lemma all_idrest_app a b : all_idrest (a ++ b) = all_idrest a && all_idrest b.
Proof. induction a as [|c t IH]; simpl; [reflexivity|]. rewrite IH, andb_assoc. reflexivity. Qed.

Lemma cname_valid k : is_valid_name (cname k) = true.
Proof.
  unfold cname, is_valid_name. simpl.
  rewrite digits_idrest. reflexivity.
Qed.

(** ---- helpers ---- *)
Lemma In_upd l s f p sd :
  In (p, sd) (upd_in l s f) ->
  In (p, sd) l \/ (p = s /\ exists sd0, In (s, sd0) l /\ sd = f sd0).
Proof.
  induction l as [|[k s0] t IH]; simpl; [tauto|].
  destruct (path_eqb k s) eqn:E; simpl.
  - apply path_eqb_eq in E. subst k. intros [H|H]; [|tauto].
    inversion H. subst. right. split; [reflexivity|]. exists s0. auto.
  - intros [H|H]; [tauto|]. destruct (IH H) as [H1|(H1 & sd0 & H2 & H3)]; [tauto|].
    right. split; [exact H1|]. exists sd0. auto.
Qed.

Lemma has_space_In st p : has_space st p = true <-> In p (keys st).
Proof. unfold has_space. apply memb_In. Qed.

Lemma def_cells_valid st b n : names_ok st -> def_cells st b n = true -> is_valid_name n = true.
Proof.
  intros [_ H] D. unfold def_cells, get_space in D.
  destruct (get_space_in (st_spaces st) b) as [sd|] eqn:G; [|discriminate].
  apply get_space_in_In in G. apply has_key_In in D. eapply H; eauto.
Qed.

Lemma has_cells_valid st s n : names_ok st -> has_cells st s n = true -> is_valid_name n = true.
Proof.
  intros N H. unfold has_cells in H. apply orb_true_iff in H. destruct H as [H|H].
  - eapply def_cells_valid; eauto.
  - apply existsb_exists in H. destruct H as (b & _ & H). eapply def_cells_valid; eauto.
Qed.

Lemma forallb_parent (f : string -> bool) p : forallb f p = true -> forallb f (parent_of p) = true.
Proof.
  induction p as [|x t IH]; simpl; [auto|]. intros H. apply andb_true_iff in H. destruct H as [H1 H2].
  destruct t as [|y t']; [reflexivity|]. simpl in *. rewrite H1. simpl. apply IH, H2.
Qed.

Lemma forallb_skipn {A} (f : A -> bool) k l : forallb f l = true -> forallb f (skipn k l) = true.
Proof.
  revert l; induction k as [|k IH]; intros l H; [exact H|]. destruct l as [|x t]; [reflexivity|].
  simpl in *. apply andb_true_iff in H. apply IH. tauto.
Qed.

Lemma names_ok_same_cells st l :
  names_ok st -> map fst l = keys st ->
  (forall p sd, In (p, sd) l -> exists sd0, In (p, sd0) (st_spaces st) /\ s_cells sd = s_cells sd0) ->
  forall g, names_ok (mkSt l g).
Proof.
  intros [K C] E H g. split; simpl.
  - unfold keys. simpl. rewrite E. exact K.
  - intros p sd n I J. destruct (H _ _ I) as (sd0 & I0 & Ec). rewrite Ec in J. eapply C; eauto.
Qed.

Lemma names_ok_upd st s f :
  names_ok st ->
  (forall sd n, In (s, sd) (st_spaces st) -> In n (map fst (s_cells (f sd))) ->
                In n (map fst (s_cells sd)) \/ is_valid_name n = true) ->
  names_ok (upd_space st s f).
Proof.
  intros [K C] H. split.
  - unfold keys, upd_space. simpl. rewrite keys_upd. exact K.
  - unfold upd_space. simpl. intros p sd n I J.
    apply In_upd in I. destruct I as [I|(-> & sd0 & I & ->)]; [eapply C; eauto|].
    destruct (H _ _ I J) as [J'|J']; [eapply C; eauto|exact J'].
Qed.

Lemma names_ok_grefs st g : names_ok st -> names_ok (mkSt (st_spaces st) g).
Proof. intros [K C]. split; [exact K|exact C]. Qed.

Lemma map_fst_app {A B} (a b : list (A * B)) : map fst (a ++ b) = (map fst a ++ map fst b)%list.
Proof. apply map_app. Qed.

Lemma insert_cells_ok st s n f : names_ok st -> is_valid_name n = true -> names_ok (insert_cells st s n f).
Proof.
  intros N V. apply names_ok_upd; [exact N|]. intros sd m _ J. simpl in J.
  rewrite map_app in J. apply in_app_or in J. destruct J as [J|[<-|[]]]; auto.
Qed.

Lemma del_space_ok st p : names_ok st -> names_ok (snd (step_del_space st p)).
Proof.
  intros N. unfold step_del_space, reject. destruct (negb (all_mro_ok _)); simpl; [exact N|].
  destruct N as [K C]. unfold del_tree. split; simpl.
  - unfold keys. simpl. intros q I. rewrite map_map in I. simpl in I.
    apply in_map_iff in I. destruct I as ([k v] & <- & I). apply filter_In in I. destruct I as [I _].
    apply K. apply in_map_iff. exists (k, v). auto.
  - intros q sd n I J. apply in_map_iff in I. destruct I as ([k v] & E & I). inversion E. subst. clear E.
    apply filter_In in I. destruct I as [I _]. simpl in J. eapply C; eauto.
Qed.

Lemma In_rename_key {A} n new m (l : list (string * A)) :
  In m (map fst (rename_key n new l)) -> m = new \/ In m (map fst l).
Proof.
  induction l as [|[k v] t IH]; simpl; [tauto|].
  destruct (String.eqb k n); simpl; intros [H|H]; auto; destruct (IH H); auto.
Qed.

Lemma reprefix_valid p new q :
  p <> [] -> forallb is_valid_name p = true -> is_valid_name new = true ->
  q <> [] -> forallb is_valid_name q = true ->
  reprefix p (parent_of p ++ [new])%list q <> [] /\ forallb is_valid_name (reprefix p (parent_of p ++ [new])%list q) = true.
Proof.
  intros Np Vp Vn Nq Vq. unfold reprefix. destruct (is_prefix p q); [|auto]. split.
  - intros H. apply app_eq_nil in H. destruct H as [H _]. apply app_eq_nil in H. destruct H; discriminate.
  - rewrite !forallb_app. simpl. rewrite Vn, (forallb_parent _ _ Vp), (forallb_skipn _ _ _ Vq). reflexivity.
Qed.

(** ---- preservation ---- *)
Lemma step_names_ok st o : names_ok st -> names_ok (snd (step st o)).
Proof.
  intros N. destruct o; simpl.
  - (* NewSpace *)
    unfold step_new_space, reject.
    destruct (negb match parent with [] => true | _ :: _ => has_space st parent end) eqn:P; [exact N|].
    destruct (negb (forallb (has_space st) bases)); [exact N|].
    destruct (negb (can_add_space st parent name)) eqn:C; [exact N|].
    destruct (negb (is_valid_name name)) eqn:V; [exact N|].
    destruct (negb (all_mro_ok _)); [exact N|].
    destruct (all_disjoint _); simpl.
    + destruct N as [K Cc]. apply negb_false_iff in V. split.
      * unfold keys, add_space. simpl. rewrite map_app. simpl. intros q I. apply in_app_or in I.
        destruct I as [I|[<-|[]]]; [apply K, I|]. split; [intros H; apply app_eq_nil in H; destruct H; discriminate|].
        rewrite forallb_app. simpl. rewrite V. rewrite andb_true_r.
        destruct parent as [|x t]; [reflexivity|]. apply negb_false_iff in P. apply has_space_In in P.
        apply K in P. tauto.
      * unfold add_space. simpl. intros q sd n I J. apply in_app_or in I.
        destruct I as [I|[E|[]]]; [eapply Cc; eauto|]. inversion E. subst. simpl in J. destruct J.
    + rewrite rollback_space; [exact N|]. apply can_add_space_fresh. apply negb_false_iff in C. exact C.
  - (* NewCells *)
    assert (A : forall f, names_ok (snd (auto_named_cells st s f))).
    { intros f0. unfold auto_named_cells, reject. destruct (next_free _ _ _) as [k|]; [|exact N].
      destruct (can_add_cells st s (cname k)); [|exact N]. simpl.
      apply names_ok_upd; [apply insert_cells_ok; [exact N|apply cname_valid]|]. intros sd n _ J. left. exact J. }
    assert (U : names_ok (snd (unnamed_cells st s f))).
    { unfold unnamed_cells, reject. destruct f as [|t|fn t|]; try apply A; [|exact N].
      destruct (is_valid_name fn) eqn:V; [|apply A].
      destruct (can_add_cells st s fn); [|exact N]. simpl. apply insert_cells_ok; assumption. }
    unfold step_new_cells, reject. destruct (negb (has_space st s)); [exact N|].
    destruct name as [n|]; [|simpl; exact U].
    destruct (negb (can_add_cells st s n)) eqn:C; [exact N|].
    destruct (is_valid_name n) eqn:V; [|exact U].
    destruct f; simpl;
      try (apply names_ok_upd; [apply insert_cells_ok; assumption|];
           intros sd m _ J; simpl in J; rewrite map_fst_set in J; left; exact J).
    rewrite rollback_cells; [exact N|]. apply can_add_cells_fresh. apply negb_false_iff in C. exact C.
  - (* SetFormula *)
    unfold step_set_formula, reject. destruct (negb (has_space st s)); [exact N|].
    destruct (negb (has_cells st s n)) eqn:H; [exact N|]. apply negb_false_iff in H.
    assert (V := has_cells_valid _ _ _ N H).
    destruct f; simpl; try exact N;
      (apply names_ok_upd; [exact N|]; intros sd m _ J; simpl in J; apply has_key_In in J;
       rewrite has_key_put in J; apply orb_true_iff in J; destruct J as [J|J];
       [left; apply has_key_In; exact J|right; apply String.eqb_eq in J; subst; exact V]).
  - (* RenameCells *)
    unfold step_rename_cells, reject. destruct (negb (has_space st s)); [exact N|].
    destruct (negb (has_cells st s n)); [exact N|].
    destruct (negb (is_valid_name new)) eqn:V; [exact N|]. apply negb_false_iff in V.
    destruct (negb (can_rename_cells st s new)); [exact N|].
    destruct (existsb _ _); [exact N|]. simpl. destruct N as [K C]. split.
    + unfold keys. simpl. rewrite map_map. intros q I. apply in_map_iff in I. destruct I as ([k v] & <- & I).
      apply K. apply in_map_iff. exists (k, v). split; [|exact I].
      destruct (path_eqb (fst (k, v)) s || memb (fst (k, v)) (subs st s)); reflexivity.
    + simpl. intros q sd m I J. apply in_map_iff in I. destruct I as ([k v] & E & I).
      destruct (path_eqb (fst (k, v)) s || memb (fst (k, v)) (subs st s)); inversion E; subst; clear E.
      * simpl in J. apply In_rename_key in J. destruct J as [->|J]; [exact V|eapply C; eauto].
      * eapply C; eauto.
  - (* RenameSpace *)
    unfold step_rename_space, reject. destruct s as [|x t]; [exact N|].
    destruct (negb (has_space st (x :: t))) eqn:H; [exact N|]. apply negb_false_iff in H.
    destruct (negb (is_valid_name new)) eqn:V; [exact N|]. apply negb_false_iff in V.
    destruct (negb (can_add_space st _ new)); [exact N|].
    simpl.
    destruct N as [K C]. apply has_space_In in H. destruct (K _ H) as [Np Vp]. split.
    + unfold keys, relabel. simpl. rewrite map_map. simpl. intros q I.
      apply in_map_iff in I. destruct I as ([k v] & <- & I). simpl.
      assert (Kk : In k (keys st)) by (apply in_map_iff; exists (k, v); auto).
      destruct (K _ Kk). apply reprefix_valid; auto.
    + unfold relabel. simpl. intros q sd m I J. apply in_map_iff in I. destruct I as ([k v] & E & I).
      inversion E. subst. simpl in J. eapply C; eauto.
  - (* AddBases *)
    unfold step_add_bases, reject. destruct (negb (has_space st s)); [exact N|].
    destruct (negb (forallb (has_space st) bs)); [exact N|].
    destruct (existsb _ bs); [exact N|]. destruct (negb (all_mro_ok _)); [exact N|].
    destruct (negb (all_disjoint _)); [exact N|]. simpl.
    apply names_ok_upd; [exact N|]. intros sd m _ J. left. exact J.
  - (* RemoveBases *)
    unfold step_remove_bases, reject. destruct (negb (has_space st s)); [exact N|].
    destruct (negb (forallb (has_space st) bs)); [exact N|].
    destruct (remove_bases_seq _ bs); [|exact N]. destruct (negb (all_mro_ok _)); [exact N|]. simpl.
    apply names_ok_upd; [exact N|]. intros sd m _ J. left. exact J.
  - (* SetAttr *)
    unfold step_set_attr, reject, put_ref. destruct s as [|x t].
    + destruct (has_child st [] n); [exact N|]. simpl. apply names_ok_grefs, N.
    + destruct (negb (has_space st (x :: t))); [exact N|]. destruct (negb (is_valid_name n)); [exact N|].
      assert (P : names_ok (upd_space st (x :: t) (fun sd => with_refs (put_key n v (s_refs sd)) sd))).
      { apply names_ok_upd; [exact N|]. intros sd m _ J. left. exact J. }
      destruct (has_ref st (x :: t) n); [exact P|].
      destruct (has_gref st n); [destruct (can_add_ref st (x :: t) n); [exact P|exact N]|].
      destruct (has_cells st (x :: t) n); [destruct v; exact N|].
      destruct (has_child st (x :: t) n); [exact N|].
      destruct (can_add_ref st (x :: t) n); [exact P|exact N].
  - (* DelAttr *)
    unfold step_del_attr, reject. destruct s as [|x t].
    + destruct (has_child st [] n); [apply del_space_ok, N|].
      destruct (has_key n (st_grefs st)); [simpl; apply names_ok_grefs, N|exact N].
    + destruct (negb (has_space st (x :: t))); [exact N|].
      destruct (has_cells st (x :: t) n).
      { destruct (def_cells st (x :: t) n); [|exact N]. simpl. unfold delete_cells.
        apply names_ok_upd; [exact N|]. intros sd m _ J. left. simpl in J.
        apply has_key_In in J. rewrite has_key_remove in J. apply andb_true_iff in J. apply has_key_In. tauto. }
      destruct (has_child st (x :: t) n); [apply del_space_ok, N|].
      destruct (has_ref st (x :: t) n).
      { destruct (def_ref st (x :: t) n); [|exact N]. simpl.
        apply names_ok_upd; [exact N|]. intros sd m _ J. left. exact J. }
      destruct (mem_str n sys_names || has_gref st n); exact N.
  - (* SetParams *)
    unfold step_set_params, reject. destruct (negb (has_space st s)); [exact N|].
    destruct (negb _); [exact N|]. simpl. apply names_ok_upd; [exact N|]. intros sd m _ J. left. exact J.
Qed.

Lemma init_names_ok : names_ok init.
Proof. split; simpl; intros; contradiction. Qed.

Lemma run_from_names_ok h : forall st, names_ok st -> names_ok (run_from st h).
Proof.
  induction h as [|o t IH]; intros st N; [exact N|]. simpl. apply IH. apply step_names_ok, N.
Qed.

(** C11, last clause: in every reachable state every component of every space
    path and the name of every cells - defined or derived - is a valid name *)
Theorem reachable_names : forall h,
  let st := run h in
  (forall p, In p (keys st) -> p <> [] /\ forallb is_valid_name p = true) /\
  (forall p n, has_space st p = true -> has_cells st p n = true -> is_valid_name n = true).
Proof.
  intros h st. assert (N : names_ok st) by (apply run_from_names_ok, init_names_ok).
  split; [apply N|]. intros p n _ H. eapply has_cells_valid; eauto.
Qed.

(** what is_valid_name means *)
Theorem is_valid_name_spec s :
  is_valid_name s = true <->
  is_identifier s = true /\ ~ In s keywords /\ starts_underscore s = false.
Proof.
  unfold is_valid_name. rewrite !andb_true_iff, !negb_true_iff, mem_str_nIn. tauto.
Qed.

Example valid_examples :
  map is_valid_name ["a"; "Cells12"; "x_1"; ""; "1a"; "for"; "_x"; "a b"; "a.b"; "None"; "lambda"; "fo"]
  = [true; true; true; false; false; false; false; false; false; false; false; true].
Proof. reflexivity. Qed.
