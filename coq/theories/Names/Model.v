(** Names: the name-level view of a model - the tree of spaces (path-keyed),
    per space the DEFINED cells / own references / ordered direct bases, the
    model-level references - and the editing operations of the public API with
    their validation order and explicit rejection reasons
    ([modelx/core/model.py] SpaceManager / SpaceUpdater / ModelImpl,
    [space.py] UserSpaceImpl.set_attr / del_attr, [cells.py] CellsImpl.__init__,
    [util.py] is_valid_name).  Definitions only; lemmas in [Names/Proofs*.v].

    Derived members are a *view*: a space shows, besides its own members, one
    derived cells / reference for every name defined in a proper ancestor
    (= the tail of its C3 linearisation, [C3/Model.v]); child spaces are not
    inherited.  This is the IDEAL model (harness/README.md): where the pinned
    tree deviates (D3 D11 D12 D13 D23 D34 and the defects N1..N7 listed in
    findings.d/C11.txt, C12.txt) the model does what the code does in all the
    non-defective cases and the generator avoids the triggers.

    Out of the vocabulary: values of cells and inputs (Exec layer; [SetAttr]
    on a cells only decides accept / reject), which formula a derived cells
    shows (C03), ItemSpaces and parameters, reference modes (values are
    integers or None). *)
From Coq Require Import List String Ascii Bool Arith ZArith DecimalString.
From MX Require Import C3.Model.
Import ListNotations.
Open Scope string_scope.

(** ---- [util.is_valid_name] on ASCII strings ---------------------------------
    [word.isidentifier() and not keyword.iskeyword(word) and not re.match("^_.*", word)].
    For strings of 7-bit characters [str.isidentifier] is: non-empty, first
    character a letter or '_', the others letters, digits or '_'.  A string
    with a byte >= 128 is outside the modelled domain (the function answers
    [false]). *)
Definition is_alpha_ (c : ascii) : bool :=
  let n := nat_of_ascii c in
  (((65 <=? n) && (n <=? 90)) || ((97 <=? n) && (n <=? 122)) || (n =? 95))%nat.

Definition is_digit (c : ascii) : bool :=
  let n := nat_of_ascii c in ((48 <=? n) && (n <=? 57))%nat.

Fixpoint all_idrest (s : string) : bool :=
  match s with
  | EmptyString => true
  | String c t => (is_alpha_ c || is_digit c) && all_idrest t
  end.

Definition is_identifier (s : string) : bool :=
  match s with
  | EmptyString => false
  | String c t => is_alpha_ c && all_idrest t
  end.

(** [keyword.kwlist] of CPython 3.12 (soft keywords are not in it) *)
Definition keywords : list string :=
  ["False"; "None"; "True"; "and"; "as"; "assert"; "async"; "await"; "break";
   "class"; "continue"; "def"; "del"; "elif"; "else"; "except"; "finally";
   "for"; "from"; "global"; "if"; "import"; "in"; "is"; "lambda"; "nonlocal";
   "not"; "or"; "pass"; "raise"; "return"; "try"; "while"; "with"; "yield"].

Fixpoint mem_str (n : string) (l : list string) : bool :=
  match l with
  | [] => false
  | x :: t => String.eqb x n || mem_str n t
  end.

Definition starts_underscore (s : string) : bool :=
  match s with
  | EmptyString => false
  | String c _ => (nat_of_ascii c =? 95)%nat
  end.

Definition is_valid_name (s : string) : bool :=
  is_identifier s && negb (mem_str s keywords) && negb (starts_underscore s).

(** ---- state ----------------------------------------------------------------- *)

(** formula of a defined cells: none ([NullFormula]), a lambda, a [def]
    (whose function name always equals the cells name); the number stands for
    the body *)
Inductive fml : Type := FNull | FLam (t : Z) | FDef (t : Z).

(** formula argument of [new_cells] / [set_formula]: absent, lambda source,
    [def fname(): ...] source, malformed source *)
Inductive fml_arg : Type := ANone | ALam (t : Z) | ADef (fname : string) (t : Z) | ABad.

Definition fml_of (a : fml_arg) : fml :=
  match a with
  | ANone => FNull
  | ALam t => FLam t
  | ADef _ t => FDef t
  | ABad => FNull
  end.

(** value of a reference: an integer or Python's None *)
Definition rval := option Z.

Record spaceD : Type := mkS {
  s_cells : list (string * fml);      (* defined cells *)
  s_refs  : list (string * rval);     (* defined own references *)
  s_bases : list path;                (* direct bases, in order *)
  s_namer : nat;                      (* AutoNamer("Cells").__last_postfix *)
  s_params : option (list string)     (* parameters of the space formula (ItemSpaces), None = no formula *)
}.

Record state : Type := mkSt {
  st_spaces : list (path * spaceD);   (* every space of the tree, keyed by its path *)
  st_grefs  : list (string * rval)    (* model-level references (without __builtins__) *)
}.

Definition init : state := mkSt [] [].

(** ---- association lists ---- *)
Fixpoint has_key {A} (n : string) (l : list (string * A)) : bool :=
  match l with
  | [] => false
  | (k, _) :: t => String.eqb k n || has_key n t
  end.

Fixpoint lookup {A} (n : string) (l : list (string * A)) : option A :=
  match l with
  | [] => None
  | (k, v) :: t => if String.eqb k n then Some v else lookup n t
  end.

Definition remove_key {A} (n : string) (l : list (string * A)) : list (string * A) :=
  filter (fun e => negb (String.eqb (fst e) n)) l.

Definition set_key {A} (n : string) (v : A) (l : list (string * A)) : list (string * A) :=
  map (fun e => if String.eqb (fst e) n then (fst e, v) else e) l.

(** assignment: replace in place or append *)
Definition put_key {A} (n : string) (v : A) (l : list (string * A)) : list (string * A) :=
  if has_key n l then set_key n v l else (l ++ [(n, v)])%list.

Definition rename_key {A} (n new : string) (l : list (string * A)) : list (string * A) :=
  map (fun e => if String.eqb (fst e) n then (new, snd e) else e) l.

(** ---- spaces ---- *)
Fixpoint get_space_in (l : list (path * spaceD)) (p : path) : option spaceD :=
  match l with
  | [] => None
  | (k, s) :: t => if path_eqb k p then Some s else get_space_in t p
  end.

Definition get_space (st : state) (p : path) : option spaceD := get_space_in (st_spaces st) p.

Definition keys (st : state) : list path := map fst (st_spaces st).

Definition has_space (st : state) (p : path) : bool := memb p (keys st).

(** update of the entry found by [get_space] *)
Fixpoint upd_in (l : list (path * spaceD)) (p : path) (f : spaceD -> spaceD) : list (path * spaceD) :=
  match l with
  | [] => []
  | (k, s) :: t => if path_eqb k p then (k, f s) :: t else (k, s) :: upd_in t p f
  end.

Definition upd_space (st : state) (p : path) (f : spaceD -> spaceD) : state :=
  mkSt (upd_in (st_spaces st) p f) (st_grefs st).

Definition with_cells (c : list (string * fml)) (s : spaceD) : spaceD :=
  mkS c (s_refs s) (s_bases s) (s_namer s) (s_params s).
Definition with_refs (r : list (string * rval)) (s : spaceD) : spaceD :=
  mkS (s_cells s) r (s_bases s) (s_namer s) (s_params s).
Definition with_bases (b : list path) (s : spaceD) : spaceD :=
  mkS (s_cells s) (s_refs s) b (s_namer s) (s_params s).
Definition with_namer (k : nat) (s : spaceD) : spaceD :=
  mkS (s_cells s) (s_refs s) (s_bases s) k (s_params s).
Definition with_params (ps : option (list string)) (s : spaceD) : spaceD :=
  mkS (s_cells s) (s_refs s) (s_bases s) (s_namer s) ps.

(** ---- inheritance graph, ancestors, sub spaces ---- *)
Definition graph_of_spaces (l : list (path * spaceD)) : graph :=
  map (fun e => (fst e, s_bases (snd e))) l.

Definition graph_of (st : state) : graph := graph_of_spaces (st_spaces st).

(** [space.bases]: the C3 linearisation without the space itself *)
Definition ancs (st : state) (p : path) : list path := tl (mro_list (graph_of st) p).

(** [_get_subs(space, skip_self=True)] as a set: the spaces that have p among
    their proper ancestors *)
Definition subs (st : state) (p : path) : list path :=
  filter (fun q => memb p (ancs st q)) (keys st).

Definition all_mro_ok (g : graph) : bool :=
  forallb (fun n => is_ok (mro_of g n)) (nodes g).

(** ---- the containers of a space, as functions of the definitions ---- *)
Definition def_cells (st : state) (p : path) (n : string) : bool :=
  match get_space st p with Some s => has_key n (s_cells s) | None => false end.

Definition def_ref (st : state) (p : path) (n : string) : bool :=
  match get_space st p with Some s => has_key n (s_refs s) | None => false end.

(** [n in space.cells]: defined here or in a proper ancestor (derived) *)
Definition has_cells (st : state) (p : path) (n : string) : bool :=
  def_cells st p n || existsb (fun b => def_cells st b n) (ancs st p).

(** [n in space.own_refs] (defined or derived) *)
Definition has_ref (st : state) (p : path) (n : string) : bool :=
  def_ref st p n || existsb (fun b => def_ref st b n) (ancs st p).

(** [n in space.named_spaces]; for p = [] the spaces of the model *)
Definition has_child (st : state) (p : path) (n : string) : bool :=
  has_space st (p ++ [n])%list.

Definition sys_names : list string := ["_self"; "_space"; "_model"].

(** [n in model.global_refs] *)
Definition has_gref (st : state) (n : string) : bool :=
  has_key n (st_grefs st) || String.eqb n "__builtins__".

(** [n in space.refs]: own (defined, derived), then the special names, then the model's *)
Definition in_refs_chain (st : state) (p : path) (n : string) : bool :=
  has_ref st p n || mem_str n sys_names || has_gref st n.

(** [n in space.namespace] = ChainMap(cells, refs, spaces) *)
Definition in_namespace (st : state) (p : path) (n : string) : bool :=
  has_cells st p n || in_refs_chain st p n || has_child st p n.

(** [n in model.namespace] = ChainMap(spaces, global_refs) *)
Definition in_model_ns (st : state) (n : string) : bool :=
  has_child st [] n || has_gref st n.

(** what a name denotes in the namespace of a space: the chain order decides *)
Inductive kind : Type := KCells | KOwnRef | KSysRef | KGlobalRef | KSpace | KParam.

Definition ns_lookup (st : state) (p : path) (n : string) : option kind :=
  if has_cells st p n then Some KCells
  else if has_ref st p n then Some KOwnRef
  else if mem_str n sys_names then Some KSysRef
  else if has_gref st n then Some KGlobalRef
  else if has_child st p n then Some KSpace
  else None.

(** names, as lists (for [dir()] and for the conflict test) *)
Definition own_cells_names (st : state) (p : path) : list string :=
  match get_space st p with Some s => map fst (s_cells s) | None => [] end.
Definition own_refs_names (st : state) (p : path) : list string :=
  match get_space st p with Some s => map fst (s_refs s) | None => [] end.

Definition cells_names (st : state) (p : path) : list string :=
  (own_cells_names st p ++ flat_map (own_cells_names st) (ancs st p))%list.
Definition refs_names (st : state) (p : path) : list string :=
  (own_refs_names st p ++ flat_map (own_refs_names st) (ancs st p))%list.

Fixpoint last_of (p : path) : option string :=
  match p with
  | [] => None
  | [x] => Some x
  | _ :: t => last_of t
  end.

Fixpoint parent_of (p : path) : path :=
  match p with
  | [] => []
  | [x] => []
  | x :: t => x :: parent_of t
  end.

Definition child_names (st : state) (p : path) : list string :=
  flat_map (fun q => match q with
                     | [] => []
                     | _ => if path_eqb (parent_of q) p
                            then match last_of q with Some x => [x] | None => [] end
                            else []
                     end) (keys st).

(** [dir(space)] as a list (duplicates possible, the order is not observed) *)
Definition dir_names (st : state) (p : path) : list string :=
  (cells_names st p ++ refs_names st p ++ sys_names ++ map fst (st_grefs st) ++ ["__builtins__"]
   ++ child_names st p)%list.

(** ---- ItemSpaces: the namespace of [space[args]] ------------------------------
    [DynamicSpaceImpl._init_refs]: the references chain of an ItemSpace is
    arguments (the parameters of the space formula) > its own references
    (none) > the special names > the references of the base space (own,
    defined or derived) > the model's; its cells and child spaces mirror the
    base space's *)
Definition params_of (st : state) (p : path) : list string :=
  match get_space st p with
  | Some s => match s_params s with Some ps => ps | None => [] end
  | None => []
  end.

Definition item_dir_names (st : state) (p : path) : list string :=
  (cells_names st p ++ params_of st p ++ sys_names ++ refs_names st p ++ map fst (st_grefs st)
   ++ ["__builtins__"] ++ child_names st p)%list.

Definition item_in_namespace (st : state) (p : path) (n : string) : bool :=
  has_cells st p n || mem_str n (params_of st p) || in_refs_chain st p n || has_child st p n.

Definition item_lookup (st : state) (p : path) (n : string) : option kind :=
  if has_cells st p n then Some KCells
  else if mem_str n (params_of st p) then Some KParam
  else if mem_str n sys_names then Some KSysRef
  else if has_ref st p n then Some KOwnRef
  else if has_gref st n then Some KGlobalRef
  else if has_child st p n then Some KSpace
  else None.

(** the name-clash test over every space: no name is two kinds of thing *)
Definition disjoint_at (st : state) (p : path) : bool :=
  forallb (fun n => negb (has_ref st p n) && negb (has_child st p n)) (cells_names st p)
  && forallb (fun n => negb (has_child st p n)) (refs_names st p).

Definition all_disjoint (st : state) : bool := forallb (disjoint_at st) (keys st).

(** ---- operations ---------------------------------------------------------- *)
Inductive op : Type :=
| NewSpace (parent : path) (name : string) (bases : list path)   (* parent [] = the model *)
| NewCells (s : path) (name : option string) (f : fml_arg)
| SetFormula (s : path) (n : string) (f : fml_arg)
| RenameCells (s : path) (n new : string)
| RenameSpace (s : path) (new : string)
| AddBases (s : path) (bs : list path)
| RemoveBases (s : path) (bs : list path)
| SetAttr (s : path) (n : string) (v : rval)                     (* s = [] : model.n = v *)
| DelAttr (s : path) (n : string)                                (* s = [] : del model.n *)
| SetParams (s : path) (ps : list string).                       (* space.parameters = ps *)

Inductive reason : Type :=
| NoSuchSpace      (* the path does not denote a space (driver: lookup fails) *)
| NoSuchMember     (* KeyError: no such cells / attribute *)
| InvalidName      (* is_valid_name *)
| NameInUse        (* _can_add / new_ref clash *)
| Cyclic
| NoMro
| NameConflict     (* members of different kinds would meet in a space (ideal; D13) *)
| NotABase
| IsDerived        (* deleting a derived member *)
| HasBases         (* renaming a cells that has base cells *)
| BadFormula
| NoneValue        (* None assigned to a cells *)
| NotAllowed.      (* assignment to a child space name, deleting a special / model-level name in a space *)

Inductive outcome : Type :=
| Accepted
| Rejected (r : reason)
| Fuel.            (* the auto-namer search ran out of fuel (never happens, see Proofs) *)

Definition reject (st : state) (r : reason) : outcome * state := (Rejected r, st).

(** ---- [_can_add] ---------------------------------------------------------- *)

(** a cells named n may be created in / renamed to n in space s: n is not in
    the namespace of s and in no sub space it is a reference or a child space
    (a cells of that name in a sub space is overridden) *)
Definition can_add_cells (st : state) (s : path) (n : string) : bool :=
  negb (in_namespace st s n)
  && forallb (fun d => negb (has_ref st d n) && negb (has_child st d n)) (subs st s).

(** a child space named n may be created in / renamed to n in parent *)
Definition can_add_space (st : state) (parent : path) (n : string) : bool :=
  match parent with
  | [] => negb (in_model_ns st n)
  | _ => negb (in_namespace st parent n)
         && forallb (fun d => negb (has_cells st d n) && negb (has_ref st d n)) (subs st parent)
  end.

(** [SpaceManager.new_ref] for a name that is not an own reference of s: no
    other kind of thing in s, nothing of that name in any sub space *)
Definition can_add_ref (st : state) (s : path) (n : string) : bool :=
  negb (has_cells st s n) && negb (has_child st s n)
  && forallb (fun d => negb (has_cells st d n) && negb (has_ref st d n) && negb (has_child st d n))
             (subs st s).

(** renaming a cells onto n: nothing of that name in s or in any sub space *)
Definition can_rename_cells (st : state) (s : path) (n : string) : bool :=
  negb (in_namespace st s n)
  && forallb (fun d => negb (has_cells st d n) && negb (has_ref st d n) && negb (has_child st d n))
             (subs st s).

(** ---- graph edits ---- *)
Definition remove_path (b : path) (l : list path) : list path :=
  filter (fun x => negb (path_eqb x b)) l.

(** [add_edge(b, node, index=max_index+1)]: an existing edge moves to the end *)
Definition add_base (bs : list path) (b : path) : list path :=
  (remove_path b bs ++ [b])%list.

(** [remove_edge] one by one; [None] when one of them is not an edge (any more) *)
Fixpoint remove_bases_seq (cur : list path) (bs : list path) : option (list path) :=
  match bs with
  | [] => Some cur
  | b :: t => if memb b cur then remove_bases_seq (remove_path b cur) t else None
  end.

Fixpoint is_prefix (p q : path) : bool :=
  match p, q with
  | [], _ => true
  | x :: p', y :: q' => String.eqb x y && is_prefix p' q'
  | _ :: _, [] => false
  end.

(** replace the prefix p of q by p' (q unchanged when p is not a prefix) *)
Definition reprefix (p p' q : path) : path :=
  if is_prefix p q then (p' ++ skipn (List.length p) q)%list else q.

(** ---- the auto namer ([AutoNamer.get_next]) ---- *)
Definition cname (k : nat) : string := "Cells" ++ NilEmpty.string_of_uint (Nat.to_uint k).

Fixpoint next_free (fuel k : nat) (taken : string -> bool) : option nat :=
  match fuel with
  | O => None
  | S f => if taken (cname (S k)) then next_free f (S k) taken else Some (S k)
  end.

Definition ns_size (st : state) (s : path) : nat :=
  List.length (dir_names st s).

(** ---- steps ------------------------------------------------------------ *)

Definition add_space (st : state) (p : path) (s : spaceD) : state :=
  mkSt (st_spaces st ++ [(p, s)])%list (st_grefs st).

Definition drop_space (st : state) (p : path) : state :=
  mkSt (filter (fun e => negb (path_eqb (fst e) p)) (st_spaces st)) (st_grefs st).

Definition step_new_space (st : state) (parent : path) (name : string) (bases : list path)
  : outcome * state :=
  if negb (match parent with [] => true | _ => has_space st parent end) then reject st NoSuchSpace
  else if negb (forallb (has_space st) bases) then reject st NoSuchSpace
  else if negb (can_add_space st parent name) then reject st NameInUse
  else if negb (is_valid_name name) then reject st InvalidName
  else
    let p := (parent ++ [name])%list in
    let bs := fold_left add_base bases [] in
    (* the working copy of the graph: a new node cannot close a cycle; MRO test *)
    let st1 := add_space st p (mkS [] [] bs 0 None) in
    if negb (all_mro_ok (graph_of st1)) then reject st NoMro
    else
      (* the space now sits in its container; deriving its members fails on a
         clash (ideal; D13c) and the container is rolled back *)
      if all_disjoint st1 then (Accepted, st1)
      else (Rejected NameConflict, drop_space st1 p).

Definition insert_cells (st : state) (s : path) (n : string) (f : fml) : state :=
  upd_space st s (fun sd => with_cells (s_cells sd ++ [(n, f)])%list sd).

Definition delete_cells (st : state) (s : path) (n : string) : state :=
  upd_space st s (fun sd => with_cells (remove_key n (s_cells sd)) sd).

(** no usable name given: the name of a [def] formula if it is valid, otherwise
    the next free "CellsN".  The pinned tree does not test the name found this
    way against the name-clash rules (N1, N2); the ideal model does. *)
Definition auto_named_cells (st : state) (s : path) (f : fml) : outcome * state :=
  match next_free (S (ns_size st s))
          (match get_space st s with Some sd => s_namer sd | None => 0 end)
          (in_namespace st s) with
  | None => (Fuel, st)
  | Some k =>
      if can_add_cells st s (cname k)
      then (Accepted, upd_space (insert_cells st s (cname k) f) s (with_namer k))
      else reject st NameInUse                                     (* ideal; N2 *)
  end.

Definition unnamed_cells (st : state) (s : path) (f : fml_arg) : outcome * state :=
  match f with
  | ABad => reject st BadFormula            (* Formula(formula) raises before anything is touched *)
  | ADef fn t =>
      if is_valid_name fn then
        if can_add_cells st s fn then (Accepted, insert_cells st s fn (FDef t))
        else reject st NameInUse                                   (* ideal; N1 *)
      else auto_named_cells st s (FDef t)
  | _ => auto_named_cells st s (fml_of f)
  end.

Definition step_new_cells (st : state) (s : path) (name : option string) (f : fml_arg)
  : outcome * state :=
  if negb (has_space st s) then reject st NoSuchSpace
  else if match name with Some n => negb (can_add_cells st s n) | None => false end
  then reject st NameInUse
  else
    match name with
    | Some n =>
        if is_valid_name n then
          (* the cells is put into the space first, the formula is parsed afterwards *)
          let st1 := insert_cells st s n FNull in
          match f with
          | ABad => (Rejected BadFormula, delete_cells st1 s n)      (* ideal: rolled back; D11 *)
          | _ => (Accepted, upd_space st1 s (fun sd => with_cells (set_key n (fml_of f) (s_cells sd)) sd))
          end
        else unnamed_cells st s f      (* an invalid name is treated like no name *)
    | None => unnamed_cells st s f
    end.

Definition step_set_formula (st : state) (s : path) (n : string) (f : fml_arg) : outcome * state :=
  if negb (has_space st s) then reject st NoSuchSpace
  else if negb (has_cells st s n) then reject st NoSuchMember
  else
    match f with
    | ABad => reject st BadFormula                                   (* D12 when the cells is derived *)
    | _ =>
        (* a derived cells becomes a defined one (override) *)
        (Accepted, upd_space st s (fun sd => with_cells (put_key n (fml_of f) (s_cells sd)) sd))
    end.

Definition step_rename_cells (st : state) (s : path) (n new : string) : outcome * state :=
  if negb (has_space st s) then reject st NoSuchSpace
  else if negb (has_cells st s n) then reject st NoSuchMember
  else if negb (is_valid_name new) then reject st InvalidName
  else if negb (can_rename_cells st s new) then reject st NameInUse   (* ideal; D23 *)
  else if existsb (fun b => def_cells st b n) (ancs st s) then reject st HasBases
  else
    (* the cells and the cells of that name in every sub space are renamed *)
    let ds := subs st s in
    (Accepted,
     mkSt (map (fun e => if path_eqb (fst e) s || memb (fst e) ds
                         then (fst e, with_cells (rename_key n new (s_cells (snd e))) (snd e))
                         else e) (st_spaces st))
          (st_grefs st)).

Definition relabel (st : state) (p p' : path) : state :=
  mkSt (map (fun e => (reprefix p p' (fst e),
                       with_bases (map (reprefix p p') (s_bases (snd e))) (snd e)))
            (st_spaces st))
       (st_grefs st).

Definition step_rename_space (st : state) (p : path) (new : string) : outcome * state :=
  match p with
  | [] => reject st NoSuchSpace
  | _ =>
      if negb (has_space st p) then reject st NoSuchSpace
      else if negb (is_valid_name new) then reject st InvalidName     (* N4, repaired in /repo f003354: tested first *)
      else if negb (can_add_space st (parent_of p) new) then reject st NameInUse
      else (Accepted, relabel st p (parent_of p ++ [new])%list)
  end.

Definition set_bases (st : state) (s : path) (bs : list path) : state :=
  upd_space st s (with_bases bs).

Definition bases_at (st : state) (s : path) : list path :=
  match get_space st s with Some sd => s_bases sd | None => [] end.

Definition step_add_bases (st : state) (s : path) (bs : list path) : outcome * state :=
  if negb (has_space st s) then reject st NoSuchSpace
  else if negb (forallb (has_space st) bs) then reject st NoSuchSpace
  else
    let st1 := set_bases st s (fold_left add_base bs (bases_at st s)) in
    if existsb (fun b => path_eqb b s || memb s (ancs st b)) bs then reject st Cyclic
    else if negb (all_mro_ok (graph_of st1)) then reject st NoMro
    else if negb (all_disjoint st1) then reject st NameConflict        (* ideal; D13 *)
    else (Accepted, st1).

Definition step_remove_bases (st : state) (s : path) (bs : list path) : outcome * state :=
  if negb (has_space st s) then reject st NoSuchSpace
  else if negb (forallb (has_space st) bs) then reject st NoSuchSpace
  else
    match remove_bases_seq (bases_at st s) bs with
    | None => reject st NotABase
    | Some bs1 =>
        let st1 := set_bases st s bs1 in
        if negb (all_mro_ok (graph_of st1)) then reject st NoMro         (* ideal; D34 *)
        else (Accepted, st1)
    end.

(** [del_defined_space]: the space and its child tree leave the tree and the graph *)
Definition del_tree (st : state) (p : path) : state :=
  mkSt (map (fun e => (fst e, with_bases (filter (fun b => negb (is_prefix p b)) (s_bases (snd e))) (snd e)))
            (filter (fun e => negb (is_prefix p (fst e))) (st_spaces st)))
       (st_grefs st).

Definition step_del_space (st : state) (p : path) : outcome * state :=
  let st1 := del_tree st p in
  if negb (all_mro_ok (graph_of st1)) then reject st NoMro               (* ideal; D34 *)
  else (Accepted, st1).

Definition put_ref (st : state) (s : path) (n : string) (v : rval) : state :=
  upd_space st s (fun sd => with_refs (put_key n v (s_refs sd)) sd).

Definition step_set_attr (st : state) (s : path) (n : string) (v : rval) : outcome * state :=
  match s with
  | [] =>
      (* ModelImpl.set_attr: no name validation *)
      if has_child st [] n then reject st NotAllowed
      else (Accepted, mkSt (st_spaces st) (put_key n v (st_grefs st)))
  | _ =>
      if negb (has_space st s) then reject st NoSuchSpace
      else if negb (is_valid_name n) then reject st InvalidName
      else if has_ref st s n then (Accepted, put_ref st s n v)           (* change_ref; derived -> defined *)
      else if has_gref st n then
        (* shadowing a model-level reference *)
        if can_add_ref st s n then (Accepted, put_ref st s n v) else reject st NameInUse
      else if has_cells st s n then
        match v with
        | None => reject st NoneValue
        | Some _ => (Accepted, st)                                       (* an input; not part of this model *)
        end
      else if has_child st s n then reject st NotAllowed
      else if can_add_ref st s n then (Accepted, put_ref st s n v) else reject st NameInUse
  end.

Definition step_del_attr (st : state) (s : path) (n : string) : outcome * state :=
  match s with
  | [] =>
      if has_child st [] n then step_del_space st [n]
      else if has_key n (st_grefs st) then (Accepted, mkSt (st_spaces st) (remove_key n (st_grefs st)))
      else reject st NoSuchMember
  | _ =>
      if negb (has_space st s) then reject st NoSuchSpace
      else if has_cells st s n then
        if def_cells st s n then (Accepted, delete_cells st s n) else reject st IsDerived
      else if has_child st s n then step_del_space st (s ++ [n])%list
      else if has_ref st s n then
        if def_ref st s n
        then (Accepted, upd_space st s (fun sd => with_refs (remove_key n (s_refs sd)) sd))
        else reject st IsDerived
      else if mem_str n sys_names || has_gref st n then reject st NotAllowed
      else reject st NoSuchMember
  end.

(** [space.parameters = (...)]: the source "lambda p1, p2: None" must parse -
    every name an identifier that is no keyword, no name twice.  (The pinned
    tree deletes the old formula before it parses the new one: N11.) *)
Definition is_param_name (s : string) : bool := is_identifier s && negb (mem_str s keywords).

Fixpoint nodup_str (l : list string) : bool :=
  match l with
  | [] => true
  | x :: t => negb (mem_str x t) && nodup_str t
  end.

Definition step_set_params (st : state) (s : path) (ps : list string) : outcome * state :=
  if negb (has_space st s) then reject st NoSuchSpace
  else if negb (forallb is_param_name ps && nodup_str ps) then reject st BadFormula
  else (Accepted, upd_space st s (with_params (Some ps))).

Definition step (st : state) (o : op) : outcome * state :=
  match o with
  | NewSpace parent name bases => step_new_space st parent name bases
  | NewCells s name f => step_new_cells st s name f
  | SetFormula s n f => step_set_formula st s n f
  | RenameCells s n new => step_rename_cells st s n new
  | RenameSpace s new => step_rename_space st s new
  | AddBases s bs => step_add_bases st s bs
  | RemoveBases s bs => step_remove_bases st s bs
  | SetAttr s n v => step_set_attr st s n v
  | DelAttr s n => step_del_attr st s n
  | SetParams s ps => step_set_params st s ps
  end.

Definition run_from (st : state) (h : list op) : state :=
  fold_left (fun st o => snd (step st o)) h st.

Definition run (h : list op) : state := run_from init h.

Definition reachable (st : state) : Prop := exists h, st = run h.
