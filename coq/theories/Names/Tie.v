(** Names: comparison functions evaluated by the correspondence check
    (harness/props/C11.py, C12.py) on generated histories: the Gallina [step]
    is run on the same operations and must give, after EVERY operation, the
    same accept / reject (reason class) and the same name maps as the
    implementation showed through its public API. *)
From Coq Require Import List String Ascii Bool Arith ZArith.
From MX Require Import C3.Model Names.Model.
Import ListNotations.

Definition code_of (o : outcome) : nat :=
  match o with
  | Accepted => 0
  | Rejected NoSuchSpace => 1
  | Rejected NoSuchMember => 2
  | Rejected InvalidName => 3
  | Rejected NameInUse => 4
  | Rejected Cyclic => 5
  | Rejected NoMro => 6
  | Rejected NameConflict => 7
  | Rejected NotABase => 8
  | Rejected IsDerived => 9
  | Rejected HasBases => 10
  | Rejected BadFormula => 11
  | Rejected NoneValue => 12
  | Rejected NotAllowed => 13
  | Fuel => 50
  end.

Definition fml_eqb (a b : fml) : bool :=
  match a, b with
  | FNull, FNull => true
  | FLam x, FLam y => Z.eqb x y
  | FDef x, FDef y => Z.eqb x y
  | _, _ => false
  end.

Definition rval_eqb (a b : rval) : bool :=
  match a, b with
  | None, None => true
  | Some x, Some y => Z.eqb x y
  | _, _ => false
  end.

Definition incl_str (a b : list string) : bool := forallb (fun x => mem_str x b) a.
Definition same_set_str (a b : list string) : bool := incl_str a b && incl_str b a.

Fixpoint list_eqb_str (a b : list string) : bool :=
  match a, b with
  | [], [] => true
  | x :: a', y :: b' => String.eqb x y && list_eqb_str a' b'
  | _, _ => false
  end.

Fixpoint paths_eqb (a b : list path) : bool :=
  match a, b with
  | [], [] => true
  | x :: a', y :: b' => path_eqb x y && paths_eqb a' b'
  | _, _ => false
  end.

(** what the driver saw of one space: path, cells (name, derived, formula of a
    defined one when understood), own references (name, derived, value of a
    defined one), child spaces, direct bases (ordered), bases (ordered), dir() *)
Definition obs_space : Type :=
  path * list (string * bool * option fml) * list (string * bool * option rval)
  * list string * list path * list path * list string
  * option (list string) * option (list string).   (* parameters; dir(space[0,...]) when there are some *)

Definition obs : Type := list obs_space * list (string * rval).

Definition cells_fml (st : state) (p : path) (n : string) : option fml :=
  match get_space st p with Some s => lookup n (s_cells s) | None => None end.

Definition ref_val (st : state) (p : path) (n : string) : option rval :=
  match get_space st p with Some s => lookup n (s_refs s) | None => None end.

Definition check_cells (st : state) (p : path) (l : list (string * bool * option fml)) : bool :=
  forallb (fun e => match e with
                    | (n, d, f) =>
                        has_cells st p n && Bool.eqb d (negb (def_cells st p n))
                        && match f with
                           | Some x => match cells_fml st p n with Some y => fml_eqb x y | None => false end
                           | None => true
                           end
                    end) l
  && incl_str (cells_names st p) (map (fun e => fst (fst e)) l).

Definition check_refs (st : state) (p : path) (l : list (string * bool * option rval)) : bool :=
  forallb (fun e => match e with
                    | (n, d, v) =>
                        has_ref st p n && Bool.eqb d (negb (def_ref st p n))
                        && match v with
                           | Some x => match ref_val st p n with Some y => rval_eqb x y | None => false end
                           | None => true
                           end
                    end) l
  && incl_str (refs_names st p) (map (fun e => fst (fst e)) l).

Definition check_space (st : state) (o : obs_space) : bool :=
  match o with
  | (p, cells, refs, children, direct, bases, dir, params, idir) =>
      has_space st p
      && match get_space st p with
         | Some s => match s_params s, params with
                     | Some a, Some b => list_eqb_str a b
                     | None, None => true
                     | _, _ => false
                     end
         | None => false
         end
      && match idir with Some d => same_set_str d (item_dir_names st p) | None => true end
      && check_cells st p cells && check_refs st p refs
      && same_set_str children (child_names st p)
      && paths_eqb direct (bases_at st p)
      && paths_eqb bases (ancs st p)
      && same_set_str dir (dir_names st p)
  end.

Definition check_obs (st : state) (o : obs) : bool :=
  forallb (check_space st) (fst o)
  && Nat.eqb (List.length (fst o)) (List.length (keys st))
  && forallb (fun e => match lookup (fst e) (st_grefs st) with
                       | Some v => rval_eqb v (snd e)
                       | None => false
                       end) (snd o)
  && incl_str (map fst (st_grefs st)) (map fst (snd o)).

(** one history: operation, the implementation's outcome code, what it showed afterwards *)
Definition tie_case : Type := list (op * nat * obs).

Fixpoint tie_run (st : state) (h : tie_case) : bool :=
  match h with
  | [] => true
  | (o, code, ob) :: t =>
      let r := step st o in
      Nat.eqb (code_of (fst r)) code && check_obs (snd r) ob && tie_run (snd r) t
  end.

Definition tie_check (h : tie_case) : bool := tie_run init h.

(** diagnostics: index of the first disagreeing step and the model's code there *)
Fixpoint tie_first (st : state) (h : tie_case) (i : nat) : option (nat * nat * bool) :=
  match h with
  | [] => None
  | (o, code, ob) :: t =>
      let r := step st o in
      if Nat.eqb (code_of (fst r)) code && check_obs (snd r) ob then tie_first (snd r) t (S i)
      else Some (i, code_of (fst r), check_obs (snd r) ob)
  end.

Definition tie_show (h : tie_case) := tie_first init h 0.

(** [util.is_valid_name] on a batch of strings *)
Definition valid_check (c : string * bool) : bool := Bool.eqb (is_valid_name (fst c)) (snd c).

(** the invariants of C11 / C12 evaluated on the model state reached by a
    history (used by the Examples and by the harness as a cross-check of the
    model against its own theorems) *)
Definition inv_check (h : list op) : bool :=
  let st := run h in
  all_mro_ok (graph_of st) && all_disjoint st.
