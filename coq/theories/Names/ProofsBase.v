(** Names: basic lemmas (association lists, the space table, views) *)
From Coq Require Import List String Ascii Bool Arith ZArith Lia.
From MX Require Import C3.Model C3.Proofs Names.Model.
Import ListNotations.

(** ---- strings / association lists ---- *)
Lemma mem_str_In n l : mem_str n l = true <-> In n l.
Proof.
  induction l as [|x t IH]; simpl; [split; [discriminate|tauto]|].
  rewrite orb_true_iff, IH, String.eqb_eq. tauto.
Qed.

Lemma mem_str_nIn n l : mem_str n l = false <-> ~ In n l.
Proof. rewrite <- mem_str_In. destruct (mem_str n l); split; congruence. Qed.

Lemma has_key_In {A} n (l : list (string * A)) : has_key n l = true <-> In n (map fst l).
Proof.
  induction l as [|[k v] t IH]; simpl; [split; [discriminate|tauto]|].
  rewrite orb_true_iff, IH, String.eqb_eq. tauto.
Qed.

Lemma has_key_nIn {A} n (l : list (string * A)) : has_key n l = false <-> ~ In n (map fst l).
Proof. rewrite <- has_key_In. destruct (has_key n l); split; congruence. Qed.

Lemma has_key_app {A} n (a b : list (string * A)) : has_key n (a ++ b) = has_key n a || has_key n b.
Proof.
  induction a as [|[k v] t IH]; simpl; [reflexivity|]. rewrite IH, orb_assoc. reflexivity.
Qed.

Lemma remove_key_notin {A} n (l : list (string * A)) : has_key n l = false -> remove_key n l = l.
Proof.
  induction l as [|[k v] t IH]; simpl; intros H; [reflexivity|].
  apply orb_false_iff in H. destruct H as [H1 H2]. unfold remove_key in *. simpl.
  rewrite H1. simpl. f_equal. apply IH, H2.
Qed.

Lemma remove_key_app {A} n (a b : list (string * A)) :
  remove_key n (a ++ b) = (remove_key n a ++ remove_key n b)%list.
Proof. unfold remove_key. apply filter_app. Qed.

Lemma has_key_remove {A} n m (l : list (string * A)) :
  has_key m (remove_key n l) = has_key m l && negb (String.eqb n m).
Proof.
  induction l as [|[k v] t IH]; simpl; [reflexivity|]. unfold remove_key in *. simpl.
  destruct (String.eqb k n) eqn:E; simpl.
  - apply String.eqb_eq in E. subst k. rewrite IH.
    destruct (String.eqb n m); simpl; [rewrite andb_false_r; reflexivity|rewrite andb_true_r; reflexivity].
  - rewrite IH. destruct (String.eqb k m) eqn:E2; simpl; [|reflexivity].
    apply String.eqb_eq in E2. subst m. rewrite String.eqb_sym, E. reflexivity.
Qed.

Lemma has_key_set {A} n m (v : A) l : has_key m (set_key n v l) = has_key m l.
Proof.
  induction l as [|[k w] t IH]; simpl; [reflexivity|].
  destruct (String.eqb k n); simpl; rewrite IH; reflexivity.
Qed.

Lemma has_key_put {A} n m (v : A) l : has_key m (put_key n v l) = has_key m l || String.eqb n m.
Proof.
  unfold put_key. destruct (has_key n l) eqn:E.
  - rewrite has_key_set. destruct (String.eqb n m) eqn:E2; [|rewrite orb_false_r; reflexivity].
    apply String.eqb_eq in E2. subst. rewrite E. reflexivity.
  - rewrite has_key_app. simpl. rewrite orb_false_r. reflexivity.
Qed.

Lemma map_fst_set {A} n (v : A) l : map fst (set_key n v l) = map fst l.
Proof.
  induction l as [|[k w] t IH]; simpl; [reflexivity|].
  destruct (String.eqb k n); simpl; rewrite IH; reflexivity.
Qed.

Lemma has_key_rename {A} n new m (l : list (string * A)) :
  has_key m (rename_key n new l) = true ->
  (has_key m l = true /\ m <> n) \/ (m = new /\ has_key n l = true).
Proof.
  induction l as [|[k v] t IH]; simpl; [discriminate|].
  destruct (String.eqb k n) eqn:E; simpl; rewrite orb_true_iff; intros [H|H].
  - right. apply String.eqb_eq in H. split; [congruence|reflexivity].
  - destruct (IH H) as [[H1 H2]|[H1 H2]]; [left|right]; split; auto; rewrite ?H1, ?H2, ?orb_true_r; auto.
  - left. apply String.eqb_eq in H. subst m. rewrite String.eqb_refl. split; [reflexivity|].
    intros ->. rewrite String.eqb_refl in E. discriminate.
  - destruct (IH H) as [[H1 H2]|[H1 H2]]; [left|right]; split; auto; rewrite ?H1, ?H2, ?orb_true_r; auto.
Qed.

(** ---- the space table ---- *)
Lemma get_upd_same l p f : get_space_in (upd_in l p f) p = option_map f (get_space_in l p).
Proof.
  induction l as [|[k s] t IH]; simpl; [reflexivity|].
  destruct (path_eqb k p) eqn:E; simpl; rewrite E; [reflexivity|apply IH].
Qed.

Lemma get_upd_other l p q f : path_eqb p q = false -> get_space_in (upd_in l p f) q = get_space_in l q.
Proof.
  intros N. induction l as [|[k s] t IH]; simpl; [reflexivity|].
  destruct (path_eqb k p) eqn:E; simpl.
  - apply path_eqb_eq in E. subst k. rewrite N. reflexivity.
  - destruct (path_eqb k q); [reflexivity|apply IH].
Qed.

Lemma keys_upd l p f : map fst (upd_in l p f) = map fst l.
Proof.
  induction l as [|[k s] t IH]; simpl; [reflexivity|].
  destruct (path_eqb k p); simpl; [reflexivity|rewrite IH; reflexivity].
Qed.

Lemma upd_upd l p f g : upd_in (upd_in l p f) p g = upd_in l p (fun s => g (f s)).
Proof.
  induction l as [|[k s] t IH]; simpl; [reflexivity|].
  destruct (path_eqb k p) eqn:E; simpl; rewrite E; [reflexivity|rewrite IH; reflexivity].
Qed.

Lemma upd_id l p f : (forall s, get_space_in l p = Some s -> f s = s) -> upd_in l p f = l.
Proof.
  induction l as [|[k s] t IH]; simpl; intros H; [reflexivity|].
  destruct (path_eqb k p) eqn:E.
  - rewrite (H s eq_refl). reflexivity.
  - rewrite IH; auto.
Qed.

Lemma graph_upd l p f : (forall s, s_bases (f s) = s_bases s) ->
  graph_of_spaces (upd_in l p f) = graph_of_spaces l.
Proof.
  intros H. induction l as [|[k s] t IH]; simpl; [reflexivity|].
  destruct (path_eqb k p); simpl; [rewrite H; reflexivity|rewrite IH; reflexivity].
Qed.

Lemma get_space_in_In l p s : get_space_in l p = Some s -> In (p, s) l.
Proof.
  induction l as [|[k s0] t IH]; simpl; [discriminate|].
  destruct (path_eqb k p) eqn:E; intros H.
  - apply path_eqb_eq in E. inversion H. subst. left. reflexivity.
  - right. apply IH, H.
Qed.

Lemma get_space_in_some l p : memb p (map fst l) = true -> exists s, get_space_in l p = Some s.
Proof.
  induction l as [|[k s0] t IH]; simpl; [discriminate|].
  rewrite path_eqb_sym. destruct (path_eqb k p); simpl; eauto.
Qed.

Lemma get_space_in_none l p : memb p (map fst l) = false -> get_space_in l p = None.
Proof.
  induction l as [|[k s0] t IH]; simpl; [reflexivity|].
  rewrite path_eqb_sym. destruct (path_eqb k p); simpl; [discriminate|auto].
Qed.

Lemma spaceD_eta s : mkS (s_cells s) (s_refs s) (s_bases s) (s_namer s) (s_params s) = s.
Proof. destruct s; reflexivity. Qed.

Lemma state_eta st : mkSt (st_spaces st) (st_grefs st) = st.
Proof. destruct st; reflexivity. Qed.

Lemma filter_all {A} (f : A -> bool) l : (forall x, In x l -> f x = true) -> filter f l = l.
Proof.
  induction l as [|x t IH]; simpl; intros H; [reflexivity|].
  rewrite (H x (or_introl eq_refl)). f_equal. apply IH. intros y I. apply H. right. exact I.
Qed.

(** ---- the two roll-backs of the model ---- *)
Lemma rollback_cells st s n :
  def_cells st s n = false -> delete_cells (insert_cells st s n FNull) s n = st.
Proof.
  intros H. unfold delete_cells, insert_cells, upd_space. simpl. rewrite upd_upd.
  rewrite upd_id; [apply state_eta|].
  intros sd G. unfold def_cells, get_space in H. rewrite G in H.
  unfold with_cells. simpl. rewrite remove_key_app, (remove_key_notin _ _ H). simpl.
  unfold remove_key. simpl. rewrite String.eqb_refl. simpl. rewrite app_nil_r. apply spaceD_eta.
Qed.

Lemma rollback_space st p sd :
  has_space st p = false -> drop_space (add_space st p sd) p = st.
Proof.
  intros H. unfold drop_space, add_space. simpl. rewrite filter_app. simpl.
  rewrite path_eqb_refl. simpl. rewrite app_nil_r.
  rewrite filter_all; [apply state_eta|].
  unfold has_space, keys in H. intros [k v] I. simpl.
  destruct (path_eqb k p) eqn:E; [|reflexivity].
  apply path_eqb_eq in E. subst k.
  apply memb_nIn in H. exfalso. apply H. apply in_map_iff. exists (p, v). auto.
Qed.

Lemma can_add_space_fresh st parent n :
  can_add_space st parent n = true -> has_space st (parent ++ [n])%list = false.
Proof.
  unfold can_add_space. destruct parent as [|x t].
  - unfold in_model_ns, has_child. simpl. intros H. apply negb_true_iff in H.
    apply orb_false_iff in H. tauto.
  - intros H. apply andb_true_iff in H. destruct H as [H _]. apply negb_true_iff in H.
    unfold in_namespace in H. apply orb_false_iff in H. destruct H as [_ H]. exact H.
Qed.

Lemma can_add_cells_fresh st s n : can_add_cells st s n = true -> def_cells st s n = false.
Proof.
  unfold can_add_cells. intros H. apply andb_true_iff in H. destruct H as [H _].
  apply negb_true_iff in H. unfold in_namespace in H.
  apply orb_false_iff in H. destruct H as [H _]. apply orb_false_iff in H. destruct H as [H _].
  unfold has_cells in H. apply orb_false_iff in H. tauto.
Qed.
