(** Names: structural invariants of the space table - the paths form a tree,
    declared bases are spaces - and the algebra of [reprefix] *)
From Coq Require Import List String Ascii Bool Arith ZArith Lia.
From MX Require Import C3.Model C3.Proofs Names.Model Names.ProofsBase Names.ProofsNoop Names.ProofsNames
  Names.ProofsWf Names.ProofsViews.
Import ListNotations.
Local Open Scope list_scope.

Definition tree (st : state) : Prop :=
  forall q, In q (keys st) -> q <> [] /\ (parent_of q = [] \/ In (parent_of q) (keys st)).

Definition closed (st : state) : Prop :=
  forall p sd, In (p, sd) (st_spaces st) -> forall b, In b (s_bases sd) -> In b (keys st).

(** ---- paths ---- *)
Lemma is_prefix_app (p r : path) : is_prefix p (p ++ r) = true.
Proof. induction p as [|x t IH]; simpl; [reflexivity|]. rewrite String.eqb_refl. exact IH. Qed.

Lemma is_prefix_split (p : path) : forall q, is_prefix p q = true -> q = (p ++ skipn (List.length p) q)%list.
Proof.
  induction p as [|x t IH]; intros q H; [reflexivity|]. destruct q as [|y q']; [discriminate|].
  simpl in H. apply andb_true_iff in H. destruct H as [E H]. apply String.eqb_eq in E. subst y.
  simpl. f_equal. apply IH, H.
Qed.

Lemma parent_of_app (p r : path) : r <> [] -> parent_of (p ++ r) = (p ++ parent_of r)%list.
Proof.
  intros Hr. induction p as [|x t IH]; [reflexivity|]. simpl app.
  destruct (t ++ r)%list as [|z u] eqn:E; [destruct t; [simpl in E; congruence|discriminate]|].
  change (parent_of (x :: z :: u)) with (x :: parent_of (z :: u)). rewrite IH. reflexivity.
Qed.

Lemma parent_of_snoc (p : path) n : parent_of (p ++ [n]) = p.
Proof. rewrite parent_of_app by discriminate. simpl. apply app_nil_r. Qed.

Lemma path_snoc (q : path) : q <> [] -> exists n, q = (parent_of q ++ [n])%list.
Proof.
  induction q as [|y t IH]; [congruence|]. intros _. destruct t as [|z t'].
  - exists y. reflexivity.
  - destruct IH as (n & E); [discriminate|]. exists n.
    change (parent_of (y :: z :: t')) with (y :: parent_of (z :: t')). simpl app. f_equal. exact E.
Qed.

Lemma parent_shorter (q : path) : q <> [] -> List.length (parent_of q) < List.length q.
Proof.
  intros H. destruct (path_snoc q H) as (n & E). rewrite E at 2. rewrite app_length. simpl. lia.
Qed.

Lemma is_prefix_trans (a b c : path) : is_prefix a b = true -> is_prefix b c = true -> is_prefix a c = true.
Proof.
  intros H1 H2. rewrite (is_prefix_split _ _ H2). rewrite (is_prefix_split _ _ H1).
  rewrite <- app_assoc. apply is_prefix_app.
Qed.

Lemma parent_is_prefix (q : path) : is_prefix (parent_of q) q = true.
Proof.
  destruct q as [|y t]; [reflexivity|]. destruct (path_snoc (y :: t)) as (n & E); [discriminate|].
  rewrite E at 2. apply is_prefix_app.
Qed.

Lemma is_prefix_of_parent (p q : path) : is_prefix p (parent_of q) = true -> is_prefix p q = true.
Proof. intros H. eapply is_prefix_trans; [exact H|apply parent_is_prefix]. Qed.

Lemma is_prefix_parent (p q : path) : is_prefix p q = true -> q <> p -> is_prefix p (parent_of q) = true.
Proof.
  intros H N. rewrite (is_prefix_split _ _ H). set (r := skipn (List.length p) q).
  assert (Hr : r <> []).
  { intros E. apply N. rewrite (is_prefix_split _ _ H). fold r. rewrite E. apply app_nil_r. }
  rewrite parent_of_app by exact Hr. apply is_prefix_app.
Qed.

Lemma is_prefix_length (p q : path) : is_prefix p q = true -> List.length p <= List.length q.
Proof. intros H. rewrite (is_prefix_split _ _ H). rewrite app_length. lia. Qed.

Lemma is_prefix_nil_r (p : path) : is_prefix p [] = true -> p = [].
Proof. destruct p; [reflexivity|discriminate]. Qed.

(** ---- no space lives under a path that is not a space ---- *)
Lemma no_key_under st p' : tree st -> p' <> [] -> has_space st p' = false ->
  forall q, In q (keys st) -> is_prefix p' q = false.
Proof.
  intros T Np H. assert (X : forall k q, List.length q <= k -> In q (keys st) -> is_prefix p' q = false).
  { induction k as [|k IH]; intros q L I.
    - destruct q; [destruct (T _ I); congruence|simpl in L; lia].
    - destruct (is_prefix p' q) eqn:P; [|reflexivity]. exfalso.
      destruct (T _ I) as [Nq [E|Ip]].
      + assert (Q : q <> p') by (intros ->; apply memb_nIn in H; auto).
        apply (is_prefix_parent _ _ P) in Q. rewrite E in Q. apply is_prefix_nil_r in Q. congruence.
      + assert (Q : q <> p') by (intros ->; apply memb_nIn in H; auto).
        apply (is_prefix_parent _ _ P) in Q. pose proof (parent_shorter q Nq).
        rewrite IH in Q; [discriminate|lia|exact Ip]. }
  intros q I. eapply X; eauto.
Qed.

Lemma reprefix_inj st p p' : (forall q, In q (keys st) -> is_prefix p' q = false) ->
  forall a b, In a (keys st) -> In b (keys st) -> reprefix p p' a = reprefix p p' b -> a = b.
Proof.
  intros N a b Ia Ib. unfold reprefix.
  destruct (is_prefix p a) eqn:Pa, (is_prefix p b) eqn:Pb; intros E.
  - apply app_inv_head in E. rewrite (is_prefix_split _ _ Pa), (is_prefix_split _ _ Pb), E. reflexivity.
  - exfalso. rewrite <- E in Ib. specialize (N _ Ib). rewrite is_prefix_app in N. discriminate.
  - exfalso. rewrite E in Ia. specialize (N _ Ia). rewrite is_prefix_app in N. discriminate.
  - exact E.
Qed.

(** ---- the invariants are preserved ---- *)
Definition struct_ok (st : state) : Prop := tree st /\ closed st.

Lemma fold_add_base_incl bs : forall cur b, In b (fold_left add_base bs cur) -> In b cur \/ In b bs.
Proof.
  induction bs as [|x t IH]; simpl; intros cur b H; [auto|].
  destruct (IH _ _ H) as [H1|H1]; [|auto]. unfold add_base in H1. apply in_app_or in H1.
  destruct H1 as [H1|[<-|[]]]; [left; unfold remove_path in H1; apply filter_In in H1; tauto|auto].
Qed.

Lemma struct_upd st s g : (forall sd, s_bases (g sd) = s_bases sd) -> struct_ok st -> struct_ok (upd_space st s g).
Proof.
  intros Hb [T C]. split.
  - intros q. rewrite keys_upd_space. apply T.
  - intros p sd I b Ib. rewrite keys_upd_space. unfold upd_space in I. simpl in I. apply In_upd in I.
    destruct I as [I|(-> & sd0 & I & ->)]; [eapply C; eauto|]. rewrite Hb in Ib. eapply C; eauto.
Qed.

Lemma struct_set_bases st s bs : (forall b, In b bs -> In b (keys st)) -> struct_ok st -> struct_ok (set_bases st s bs).
Proof.
  intros Hb [T C]. unfold set_bases. split.
  - intros q. rewrite keys_upd_space. apply T.
  - intros p sd I b Ib. rewrite keys_upd_space. unfold upd_space in I. simpl in I. apply In_upd in I.
    destruct I as [I|(-> & sd0 & I & ->)]; [eapply C; eauto|]. simpl in Ib. auto.
Qed.

Lemma struct_grefs st g : struct_ok st -> struct_ok (mkSt (st_spaces st) g).
Proof. intros [T C]. split; [exact T|exact C]. Qed.

Lemma keys_del_tree st p q : In q (keys (del_tree st p)) <-> In q (keys st) /\ is_prefix p q = false.
Proof.
  unfold keys, del_tree. simpl. rewrite map_map. simpl. rewrite in_map_iff. split.
  - intros ([k v] & <- & I). apply filter_In in I. destruct I as [I P]. simpl in *.
    apply negb_true_iff in P. split; [apply in_map_iff; exists (k, v); auto|exact P].
  - intros [I P]. apply in_map_iff in I. destruct I as ([k v] & <- & I). exists (k, v). split; [reflexivity|].
    apply filter_In. split; [exact I|]. simpl in *. rewrite P. reflexivity.
Qed.

Lemma struct_del_tree st p : struct_ok st -> struct_ok (del_tree st p).
Proof.
  intros [T C]. split.
  - intros q I. apply keys_del_tree in I. destruct I as [I P]. destruct (T _ I) as [Nq [E|Ip]]; split; auto.
    right. apply keys_del_tree. split; [exact Ip|].
    destruct (is_prefix p (parent_of q)) eqn:E; [|reflexivity].
    apply is_prefix_of_parent in E. congruence.
  - intros q sd I b Ib. unfold del_tree in I. simpl in I. apply in_map_iff in I.
    destruct I as ([k v] & E & I). inversion E. subst. clear E. apply filter_In in I. destruct I as [I _].
    simpl in Ib. apply filter_In in Ib. destruct Ib as [Ib P]. apply negb_true_iff in P.
    apply keys_del_tree. split; [eapply C; eauto|exact P].
Qed.

Lemma keys_relabel st p p' : keys (relabel st p p') = map (reprefix p p') (keys st).
Proof. unfold keys, relabel. simpl. rewrite !map_map. reflexivity. Qed.

Lemma reprefix_id p p' q : is_prefix p q = false -> reprefix p p' q = q.
Proof. unfold reprefix. intros ->. reflexivity. Qed.

Lemma reprefix_parent (p : path) new q :
  p <> [] -> q <> [] -> parent_of q <> [] ->
  parent_of (reprefix p (parent_of p ++ [new]) q) = reprefix p (parent_of p ++ [new]) (parent_of q)
  \/ (q = p).
Proof.
  intros Np Nq Npq. unfold reprefix at 1. destruct (is_prefix p q) eqn:P.
  - destruct (list_eq_dec string_dec q p) as [->|N]; [auto|]. left.
    pose proof (is_prefix_parent _ _ P N) as P2. unfold reprefix. rewrite P2.
    rewrite (is_prefix_split _ _ P) at 1. set (r := skipn (List.length p) q).
    assert (Hr : r <> []).
    { intros E. apply N. rewrite (is_prefix_split _ _ P). fold r. rewrite E. apply app_nil_r. }
    rewrite skipn_app, skipn_all, Nat.sub_diag. simpl.
    rewrite parent_of_app by exact Hr. f_equal.
    (* skipn |p| (parent_of q) = parent_of r *)
    rewrite (is_prefix_split _ _ P). fold r. rewrite parent_of_app by exact Hr.
    rewrite skipn_app, skipn_all, Nat.sub_diag. reflexivity.
  - left. rewrite reprefix_id; [reflexivity|]. destruct (is_prefix p (parent_of q)) eqn:E; [|reflexivity].
    apply is_prefix_of_parent in E. congruence.
Qed.

Lemma struct_relabel st p new :
  In p (keys st) -> struct_ok st -> struct_ok (relabel st p (parent_of p ++ [new])).
Proof.
  intros Ip [T C]. set (p' := (parent_of p ++ [new])%list). destruct (T _ Ip) as [Np Pp]. split.
  - intros q' I. rewrite keys_relabel in I. apply in_map_iff in I. destruct I as (q & <- & I).
    destruct (T _ I) as [Nq Pq]. split.
    + unfold reprefix. destruct (is_prefix p q); [|exact Nq]. unfold p'. intros H.
      apply app_eq_nil in H. destruct H as [H _]. apply app_eq_nil in H. destruct H; discriminate.
    + rewrite keys_relabel.
      destruct (list_eq_dec string_dec q p) as [->|N].
      * (* the renamed space itself: its parent is unchanged *)
        assert (R : is_prefix p p = true).
        { pose proof (is_prefix_app p []) as R. rewrite app_nil_r in R. exact R. }
        assert (E : reprefix p p' p = p').
        { unfold reprefix. rewrite R, skipn_all. apply app_nil_r. }
        rewrite E. unfold p'. rewrite parent_of_snoc.
        destruct Pp as [Pp|Pp]; [left; exact Pp|]. right. apply in_map_iff. exists (parent_of p).
        split; [|exact Pp].
        apply reprefix_id. destruct (is_prefix p (parent_of p)) eqn:E2; [|reflexivity].
        apply is_prefix_length in E2. pose proof (parent_shorter p Np). lia.
      * destruct Pq as [Pq|Pq].
        { (* a top-level space other than p *)
          destruct (is_prefix p q) eqn:P.
          - exfalso. apply (is_prefix_parent _ _ P) in N. rewrite Pq in N. apply is_prefix_nil_r in N. congruence.
          - rewrite reprefix_id by exact P. auto. }
        assert (Npq : parent_of q <> []) by (destruct (T _ Pq); assumption).
        destruct (reprefix_parent p new q Np Nq Npq) as [E|E]; [|congruence].
        fold p' in E. rewrite E. right. apply in_map. exact Pq.
  - intros q' sd' I b' Ib. rewrite keys_relabel. unfold relabel in I. simpl in I. apply in_map_iff in I.
    destruct I as ([k v] & E & I). inversion E. subst. clear E. simpl in Ib. apply in_map_iff in Ib.
    destruct Ib as (b & <- & Ib). apply in_map. eapply C; eauto.
Qed.
