(** Names: [space.rename] - re-labelling the paths under the renamed space -
    changes neither the linearisations nor the members of any space *)
From Coq Require Import List String Ascii Bool Arith ZArith Lia.
From MX Require Import C3.Model C3.Proofs Names.Model Names.ProofsBase Names.ProofsNoop Names.ProofsNames
  Names.ProofsWf Names.ProofsViews Names.ProofsUnique Names.ProofsUnique2 Names.ProofsC3Map Names.ProofsTree.
Import ListNotations.
Local Open Scope list_scope.

Lemma graph_relabel st p p' : graph_of (relabel st p p') = fmap (reprefix p p') (graph_of st).
Proof.
  unfold graph_of, graph_of_spaces, relabel, fmap. simpl. rewrite !map_map. reflexivity.
Qed.

Lemma closed_under_graph st : closed st -> closed_under (graph_of st) (fun q => In q (keys st)).
Proof.
  intros C. split.
  - rewrite nodes_graph. apply Forall_forall. auto.
  - intros n _. unfold graph_of. rewrite bases_of_graph.
    destruct (get_space_in (st_spaces st) n) as [sd|] eqn:G; [|constructor].
    apply get_space_in_In in G. apply Forall_forall. intros b Ib. eapply C; eauto.
Qed.

Lemma relabel_inj st p new : struct_ok st -> In p (keys st) ->
  has_space st (parent_of p ++ [new]) = false ->
  inj_on (reprefix p (parent_of p ++ [new])) (fun q => In q (keys st)).
Proof.
  intros [T C] Ip H a b Ia Ib. apply (reprefix_inj st); auto.
  apply no_key_under; auto. intros E. apply app_eq_nil in E. destruct E; discriminate.
Qed.

Lemma relabel_wf st p new : struct_ok st -> wf st -> In p (keys st) ->
  has_space st (parent_of p ++ [new]) = false -> wf (relabel st p (parent_of p ++ [new])).
Proof.
  intros S W Ip H. unfold wf, all_mro_ok. rewrite graph_relabel.
  apply (all_mro_ok_fmap _ (fun q => In q (keys st))).
  - apply relabel_inj; auto.
  - apply closed_under_graph, S.
  - exact W.
Qed.

Lemma tl_map {A B} (f : A -> B) l : tl (map f l) = map f (tl l).
Proof. destruct l; reflexivity. Qed.

Lemma ancs_relabel st p new x : struct_ok st -> In p (keys st) ->
  has_space st (parent_of p ++ [new]) = false -> In x (keys st) ->
  ancs (relabel st p (parent_of p ++ [new])) (reprefix p (parent_of p ++ [new]) x)
  = map (reprefix p (parent_of p ++ [new])) (ancs st x).
Proof.
  intros S Ip H Ix. unfold ancs. rewrite graph_relabel.
  rewrite (mro_list_fmap _ (fun q => In q (keys st))); [apply tl_map| | |exact Ix].
  - apply relabel_inj; auto.
  - apply closed_under_graph, S.
Qed.

Lemma ancs_in_keys st x b : closed st -> In x (keys st) -> In b (ancs st x) -> In b (keys st).
Proof.
  intros C Ix Ib. unfold ancs, mro_list in Ib. destruct (mro_of (graph_of st) x) as [l| |] eqn:M; try (destruct Ib).
  assert (F : Forall (fun q => In q (keys st)) l).
  { eapply mro_U; [apply closed_under_graph, C|exact Ix|exact M]. }
  rewrite Forall_forall in F. apply F. destruct l; [destruct Ib|right; exact Ib].
Qed.

Lemma get_relabel_in (f : path -> path) (U : path -> Prop) l b :
  inj_on f U -> (forall k, In k (map fst l) -> U k) -> U b ->
  get_space_in (map (fun e => (f (fst e), with_bases (map f (s_bases (snd e))) (snd e))) l) (f b)
  = option_map (fun sd => with_bases (map f (s_bases sd)) sd) (get_space_in l b).
Proof.
  intros I Hl Hb. induction l as [|[k v] t IH]; simpl; [reflexivity|].
  rewrite (path_eqb_inj f U) by (auto; apply Hl; left; reflexivity).
  destruct (path_eqb k b); [reflexivity|]. apply IH. intros k0 I0. apply Hl. right. exact I0.
Qed.

Lemma get_relabel st p new b : struct_ok st -> In p (keys st) ->
  has_space st (parent_of p ++ [new]) = false -> In b (keys st) ->
  get_space (relabel st p (parent_of p ++ [new])) (reprefix p (parent_of p ++ [new]) b)
  = option_map (fun sd => with_bases (map (reprefix p (parent_of p ++ [new])) (s_bases sd)) sd) (get_space st b).
Proof.
  intros S Ip H Ib. unfold get_space, relabel. simpl.
  apply (get_relabel_in _ (fun q => In q (keys st))); auto. apply relabel_inj; auto.
Qed.

Lemma existsb_map {A B} (g : B -> bool) (f : A -> B) l : existsb g (map f l) = existsb (fun x => g (f x)) l.
Proof. induction l as [|x t IH]; simpl; [reflexivity|]. rewrite IH. reflexivity. Qed.

Lemma existsb_ext_in {A} (g h : A -> bool) l : (forall x, In x l -> g x = h x) -> existsb g l = existsb h l.
Proof.
  induction l as [|x t IH]; simpl; intros H; [reflexivity|]. rewrite (H x (or_introl eq_refl)), IH; auto.
Qed.

Lemma views_relabel st p new x n : struct_ok st -> In p (keys st) ->
  has_space st (parent_of p ++ [new]) = false -> In x (keys st) ->
  has_cells (relabel st p (parent_of p ++ [new])) (reprefix p (parent_of p ++ [new]) x) n = has_cells st x n
  /\ has_ref (relabel st p (parent_of p ++ [new])) (reprefix p (parent_of p ++ [new]) x) n = has_ref st x n.
Proof.
  intros S Ip H Ix.
  assert (DC : forall b, In b (keys st) ->
     def_cells (relabel st p (parent_of p ++ [new])) (reprefix p (parent_of p ++ [new]) b) n = def_cells st b n).
  { intros b Ib. unfold def_cells. rewrite get_relabel by auto. destruct (get_space st b); reflexivity. }
  assert (DR : forall b, In b (keys st) ->
     def_ref (relabel st p (parent_of p ++ [new])) (reprefix p (parent_of p ++ [new]) b) n = def_ref st b n).
  { intros b Ib. unfold def_ref. rewrite get_relabel by auto. destruct (get_space st b); reflexivity. }
  unfold has_cells, has_ref. rewrite ancs_relabel by auto. rewrite !existsb_map. rewrite DC, DR by exact Ix.
  split; f_equal; apply existsb_ext_in; intros b Ib; [apply DC|apply DR]; eapply ancs_in_keys; eauto; apply S.
Qed.

Lemma has_child_relabel st p new x n : struct_ok st -> In p (keys st) ->
  has_space st (parent_of p ++ [new]) = false -> In x (keys st) ->
  has_child (relabel st p (parent_of p ++ [new])) (reprefix p (parent_of p ++ [new]) x) n = true ->
  has_child st x n = true \/ (x = parent_of p /\ n = new).
Proof.
  intros S Ip H Ix Hc. pose proof S as [T C]. set (p' := parent_of p ++ [new]) in *.
  assert (Np' : p' <> []) by (unfold p'; intros E; apply app_eq_nil in E; destruct E; discriminate).
  assert (NK : forall q, In q (keys st) -> is_prefix p' q = false) by (apply no_key_under; auto).
  assert (INJ := relabel_inj st p new S Ip H). fold p' in INJ.
  destruct (T _ Ip) as [Np Pp]. destruct (T _ Ix) as [Nx Px].
  unfold has_child, has_space in Hc. rewrite keys_relabel in Hc. apply memb_In in Hc.
  apply in_map_iff in Hc. destruct Hc as (c & Ec & Ic). destruct (T _ Ic) as [Nc Pc].
  unfold has_child, has_space. rewrite memb_In.
  destruct (is_prefix p c) eqn:Pc'.
  - (* c lies under p *)
    destruct (list_eq_dec string_dec c p) as [->|N].
    + right. assert (E : reprefix p p' p = p').
      { unfold reprefix. rewrite Pc'. rewrite skipn_all. apply app_nil_r. }
      rewrite E in Ec. unfold p' in Ec. apply app_inj_tail in Ec. destruct Ec as [E1 E2]. split; [|auto].
      unfold reprefix in E1. destruct (is_prefix p x) eqn:Px'; [|auto].
      exfalso. apply is_prefix_length in Px'. assert (L : List.length (parent_of p) = List.length (p' ++ skipn (List.length p) x)) by (rewrite E1; reflexivity).
      rewrite app_length in L. unfold p' in L. rewrite app_length in L. simpl in L.
      pose proof (parent_shorter p Np). destruct (path_snoc p Np) as (z & Ez).
      assert (L2 : List.length p = List.length (parent_of p) + 1) by (rewrite Ez at 1; rewrite app_length; reflexivity).
      lia.
    + left. pose proof (is_prefix_parent _ _ Pc' N) as Ppc.
      assert (Npc : parent_of c <> []) by (intros E; rewrite E in Ppc; apply is_prefix_nil_r in Ppc; congruence).
      destruct Pc as [Pc|Pc]; [congruence|].
      destruct (reprefix_parent p new c Np Nc Npc) as [E|E]; [|congruence]. fold p' in E.
      rewrite Ec in E. rewrite parent_of_snoc in E.
      apply INJ in E; auto. subst x. destruct (path_snoc c Nc) as (z & Ez).
      assert (z = n).
      { (* last components agree *)
        unfold reprefix in Ec. rewrite Pc', Ppc in Ec.
        rewrite Ez in Ec at 1. rewrite skipn_app in Ec.
        assert (L : List.length p - List.length (parent_of c) = 0) by (apply is_prefix_length in Ppc; lia).
        rewrite L in Ec. simpl in Ec. rewrite !app_assoc in Ec. apply app_inj_tail in Ec. tauto. }
      subst z. rewrite <- Ez. exact Ic.
  - (* c is not under p: it is its own image *)
    left. rewrite reprefix_id in Ec by exact Pc'. subst c.
    destruct (is_prefix p x) eqn:Px'.
    + exfalso. destruct Pc as [Pc|Pc]; rewrite parent_of_snoc in Pc; unfold reprefix in Pc; rewrite Px' in Pc.
      * apply app_eq_nil in Pc. destruct Pc; congruence.
      * specialize (NK _ Pc). rewrite is_prefix_app in NK. discriminate.
    + rewrite reprefix_id in Ic by exact Px'. exact Ic.
Qed.

Lemma relabel_disj st p new : struct_ok st -> wf st -> disj st -> In p (keys st) ->
  can_add_space st (parent_of p) new = true -> disj (relabel st p (parent_of p ++ [new])).
Proof.
  intros S W (D1 & D2 & D3) Ip C. pose proof (can_add_space_fresh _ _ _ C) as H.
  pose proof S as [T _]. destruct (T _ Ip) as [Np _].
  assert (X : forall x n, In x (keys st) ->
     has_child (relabel st p (parent_of p ++ [new])) (reprefix p (parent_of p ++ [new]) x) n = true ->
     has_cells st x n = false /\ has_ref st x n = false).
  { intros x n Ix Hc. destruct (has_child_relabel _ _ _ _ _ S Ip H Ix Hc) as [Hc'|[-> ->]].
    - apply memb_In in Ix. split.
      + destruct (has_cells st x n) eqn:E; [|reflexivity]. destruct (D1 _ _ Ix E). congruence.
      + destruct (has_ref st x n) eqn:E; [|reflexivity]. rewrite (D2 _ _ Ix E) in Hc'. discriminate.
    - unfold can_add_space in C. destruct (parent_of p) as [|y t]; [destruct (T _ Ix); congruence|].
      apply andb_true_iff in C. destruct C as [C _]. apply negb_true_iff in C.
      apply in_namespace_false in C. tauto. }
  split; [|split].
  - intros q n Hq Hn. apply memb_In in Hq. rewrite keys_relabel in Hq. apply in_map_iff in Hq.
    destruct Hq as (x & <- & Ix). destruct (views_relabel _ _ _ _ n S Ip H Ix) as [Vc Vr].
    rewrite Vc in Hn. rewrite Vr. apply memb_In in Ix. destruct (D1 _ _ Ix Hn) as [R _]. split; [exact R|].
    apply memb_In in Ix.
    destruct (has_child (relabel st p (parent_of p ++ [new])) (reprefix p (parent_of p ++ [new]) x) n) eqn:E; [|reflexivity].
    destruct (X _ _ Ix E). congruence.
  - intros q n Hq Hn. apply memb_In in Hq. rewrite keys_relabel in Hq. apply in_map_iff in Hq.
    destruct Hq as (x & <- & Ix). destruct (views_relabel _ _ _ _ n S Ip H Ix) as [Vc Vr].
    rewrite Vr in Hn.
    destruct (has_child (relabel st p (parent_of p ++ [new])) (reprefix p (parent_of p ++ [new]) x) n) eqn:E; [|reflexivity].
    destruct (X _ _ Ix E). congruence.
  - intros m Hm. change (st_grefs (relabel st p (parent_of p ++ [new]))) with (st_grefs st).
    apply (relabel_top st p new m); auto.
Qed.
