(** Names: how the views (has_cells / has_ref / has_child, ancestors) react to
    the state changes of the operations *)
From Coq Require Import List String Ascii Bool Arith ZArith Lia.
From MX Require Import C3.Model C3.Proofs Names.Model Names.ProofsBase Names.ProofsNoop Names.ProofsNames Names.ProofsWf.
Import ListNotations.

Lemma anc_trans g a b c : anc g a b -> anc g b c -> anc g a c.
Proof. intros A. induction A as [n|n b0 x Hb A IH]; intros B; [exact B|]. eapply anc_step; eauto. Qed.

(** ancestors, as a relation *)
Lemma ancs_spec st x b : wf st -> has_space st x = true ->
  (In b (ancs st x) <-> anc (graph_of st) x b /\ b <> x).
Proof.
  intros W H. destruct (wf_mro _ _ W H) as (l & M). unfold ancs, mro_list. rewrite M.
  destruct (mro_head _ _ _ _ M) as (l' & ->). simpl.
  pose proof (mro_NoDup _ _ _ _ M) as ND. inversion ND as [|? ? Hn ND']. subst.
  pose proof (mro_members _ _ _ _ M) as MM. split.
  - intros I. split; [apply MM; right; exact I|]. intros ->. tauto.
  - intros [A N]. apply MM in A. destruct A as [A|A]; [congruence|exact A].
Qed.

(** the ancestors of an ancestor are ancestors: needs acyclicity *)
Lemma ancs_trans st s b x : wf st -> has_space st x = true -> has_space st b = true ->
  In b (ancs st x) -> In s (ancs st b) -> In s (ancs st x).
Proof.
  intros W Hx Hb I1 I2.
  apply (ancs_spec _ _ _ W Hx) in I1. apply (ancs_spec _ _ _ W Hb) in I2.
  destruct I1 as [A1 N1]. destruct I2 as [A2 N2].
  apply (ancs_spec _ _ _ W Hx). split; [eapply anc_trans; eauto|].
  intros ->.
  (* x -> b -> x with b <> x: a cycle *)
  inversion A1 as [|n b0 y Hb0 A0]; subst; [congruence|].
  destruct (wf_mro _ _ W Hx) as (l & M).
  eapply mro_acyclic; [exact M|exact Hb0|]. eapply anc_trans; eauto.
Qed.

Lemma subs_spec st s d : In d (subs st s) <-> In d (keys st) /\ In s (ancs st d).
Proof. unfold subs. rewrite filter_In, memb_In. tauto. Qed.

Lemma existsb_ext' {A} (f g : A -> bool) l : (forall x, f x = g x) -> existsb f l = existsb g l.
Proof. intros H. induction l as [|x t IH]; simpl; [reflexivity|]. rewrite H, IH. reflexivity. Qed.

(** ---- membership views ---- *)
Lemma has_cells_spec st x m :
  has_cells st x m = true <-> def_cells st x m = true \/ exists b, In b (ancs st x) /\ def_cells st b m = true.
Proof.
  unfold has_cells. rewrite orb_true_iff, existsb_exists. tauto.
Qed.

Lemma has_ref_spec st x m :
  has_ref st x m = true <-> def_ref st x m = true \/ exists b, In b (ancs st x) /\ def_ref st b m = true.
Proof.
  unfold has_ref. rewrite orb_true_iff, existsb_exists. tauto.
Qed.

Lemma def_has_space st b m : def_cells st b m = true -> has_space st b = true.
Proof.
  unfold def_cells, get_space, has_space, keys. intros H.
  destruct (memb b (map fst (st_spaces st))) eqn:E; [reflexivity|].
  rewrite (get_space_in_none _ _ E) in H. discriminate.
Qed.

Lemma defr_has_space st b m : def_ref st b m = true -> has_space st b = true.
Proof.
  unfold def_ref, get_space, has_space, keys. intros H.
  destruct (memb b (map fst (st_spaces st))) eqn:E; [reflexivity|].
  rewrite (get_space_in_none _ _ E) in H. discriminate.
Qed.

(** something that is not a space has no ancestors *)
Lemma ancs_nonempty_space st s b : In b (ancs st s) -> has_space st s = true.
Proof.
  intros Ib. unfold has_space. destruct (memb s (keys st)) eqn:E; [reflexivity|]. exfalso.
  unfold ancs, mro_list, mro_of in Ib.
  assert (B : bases_of (graph_of st) s = []).
  { unfold graph_of. rewrite bases_of_graph. unfold keys in E. rewrite (get_space_in_none _ _ E). reflexivity. }
  simpl in Ib. rewrite B in Ib. simpl in Ib. exact Ib.
Qed.

(** a name a space has as cells is a cells in all its sub spaces *)
Lemma has_cells_down st s x m : wf st -> has_space st x = true ->
  In s (ancs st x) -> has_cells st s m = true -> has_cells st x m = true.
Proof.
  intros W Hx I H. apply has_cells_spec. right. apply has_cells_spec in H. destruct H as [H|(b & Ib & H)].
  - exists s. auto.
  - exists b. split; [|exact H]. apply (ancs_trans st b s x W Hx); auto.
    eapply ancs_nonempty_space; eauto.
Qed.

Lemma has_ref_down st s x m : wf st -> has_space st x = true ->
  In s (ancs st x) -> has_ref st s m = true -> has_ref st x m = true.
Proof.
  intros W Hx I H. apply has_ref_spec. right. apply has_ref_spec in H. destruct H as [H|(b & Ib & H)].
  - exists s. auto.
  - exists b. split; [|exact H]. apply (ancs_trans st b s x W Hx); auto.
    eapply ancs_nonempty_space; eauto.
Qed.

(** ---- an update of one space that keeps its bases ---- *)
Lemma ancs_upd st s g x : (forall sd, s_bases (g sd) = s_bases sd) -> ancs (upd_space st s g) x = ancs st x.
Proof. intros H. unfold ancs. rewrite graph_upd_space; auto. Qed.

Lemma has_space_upd st s g x : has_space (upd_space st s g) x = has_space st x.
Proof. unfold has_space, keys, upd_space. simpl. rewrite keys_upd. reflexivity. Qed.

Lemma keys_upd_space st s g : keys (upd_space st s g) = keys st.
Proof. unfold keys, upd_space. simpl. apply keys_upd. Qed.

Lemma has_child_upd st s g x n : has_child (upd_space st s g) x n = has_child st x n.
Proof. unfold has_child. apply has_space_upd. Qed.

Lemma get_upd_space st s g b :
  get_space (upd_space st s g) b = if path_eqb s b then option_map g (get_space st s) else get_space st b.
Proof.
  unfold get_space, upd_space. simpl. destruct (path_eqb s b) eqn:E.
  - apply path_eqb_eq in E. subst. apply get_upd_same.
  - apply get_upd_other, E.
Qed.

Lemma def_cells_upd_refs st s g b m : (forall sd, s_cells (g sd) = s_cells sd) ->
  def_cells (upd_space st s g) b m = def_cells st b m.
Proof.
  intros H. unfold def_cells. rewrite get_upd_space. destruct (path_eqb s b) eqn:E; [|reflexivity].
  apply path_eqb_eq in E. subst. destruct (get_space st b); simpl; [rewrite H|]; reflexivity.
Qed.

Lemma def_ref_upd_cells st s g b m : (forall sd, s_refs (g sd) = s_refs sd) ->
  def_ref (upd_space st s g) b m = def_ref st b m.
Proof.
  intros H. unfold def_ref. rewrite get_upd_space. destruct (path_eqb s b) eqn:E; [|reflexivity].
  apply path_eqb_eq in E. subst. destruct (get_space st b); simpl; [rewrite H|]; reflexivity.
Qed.

Lemma has_cells_upd_refs st s g x m :
  (forall sd, s_cells (g sd) = s_cells sd) -> (forall sd, s_bases (g sd) = s_bases sd) ->
  has_cells (upd_space st s g) x m = has_cells st x m.
Proof.
  intros H1 H2. unfold has_cells. rewrite ancs_upd, def_cells_upd_refs; auto. f_equal.
  apply existsb_ext'. intros b. apply def_cells_upd_refs, H1.
Qed.

Lemma has_ref_upd_cells st s g x m :
  (forall sd, s_refs (g sd) = s_refs sd) -> (forall sd, s_bases (g sd) = s_bases sd) ->
  has_ref (upd_space st s g) x m = has_ref st x m.
Proof.
  intros H1 H2. unfold has_ref. rewrite ancs_upd, def_ref_upd_cells; auto. f_equal.
  apply existsb_ext'. intros b. apply def_ref_upd_cells, H1.
Qed.

(** new cells names appear at s only *)
Lemma def_cells_upd_grow st s g n b m :
  (forall sd k, has_key k (s_cells (g sd)) = true -> has_key k (s_cells sd) = true \/ k = n) ->
  def_cells (upd_space st s g) b m = true -> def_cells st b m = true \/ (m = n /\ b = s /\ has_space st s = true).
Proof.
  intros H. unfold def_cells. rewrite get_upd_space. destruct (path_eqb s b) eqn:E; [|auto].
  apply path_eqb_eq in E. subst b. destruct (get_space st s) as [sd|] eqn:G; simpl; [|discriminate].
  intros K. destruct (H _ _ K) as [K'|K']; [auto|]. right. repeat split; auto.
  unfold get_space in G. apply get_space_in_In in G. apply memb_In. apply in_map_iff. exists (s, sd). auto.
Qed.

Lemma def_ref_upd_grow st s g n b m :
  (forall sd k, has_key k (s_refs (g sd)) = true -> has_key k (s_refs sd) = true \/ k = n) ->
  def_ref (upd_space st s g) b m = true -> def_ref st b m = true \/ (m = n /\ b = s /\ has_space st s = true).
Proof.
  intros H. unfold def_ref. rewrite get_upd_space. destruct (path_eqb s b) eqn:E; [|auto].
  apply path_eqb_eq in E. subst b. destruct (get_space st s) as [sd|] eqn:G; simpl; [|discriminate].
  intros K. destruct (H _ _ K) as [K'|K']; [auto|]. right. repeat split; auto.
  unfold get_space in G. apply get_space_in_In in G. apply memb_In. apply in_map_iff. exists (s, sd). auto.
Qed.

Lemma has_cells_upd_grow st s g n x m :
  (forall sd, s_bases (g sd) = s_bases sd) ->
  (forall sd k, has_key k (s_cells (g sd)) = true -> has_key k (s_cells sd) = true \/ k = n) ->
  has_cells (upd_space st s g) x m = true ->
  has_cells st x m = true \/ (m = n /\ (x = s \/ In s (ancs st x))).
Proof.
  intros Hb H K. apply has_cells_spec in K. rewrite ancs_upd in K by exact Hb.
  destruct K as [K|(b & I & K)]; apply (def_cells_upd_grow _ _ _ n) in K; auto.
  - destruct K as [K|(-> & -> & _)]; [left; apply has_cells_spec; auto|auto].
  - destruct K as [K|(-> & -> & _)]; [left; apply has_cells_spec; eauto|auto].
Qed.

Lemma has_ref_upd_grow st s g n x m :
  (forall sd, s_bases (g sd) = s_bases sd) ->
  (forall sd k, has_key k (s_refs (g sd)) = true -> has_key k (s_refs sd) = true \/ k = n) ->
  has_ref (upd_space st s g) x m = true ->
  has_ref st x m = true \/ (m = n /\ (x = s \/ In s (ancs st x))).
Proof.
  intros Hb H K. apply has_ref_spec in K. rewrite ancs_upd in K by exact Hb.
  destruct K as [K|(b & I & K)]; apply (def_ref_upd_grow _ _ _ n) in K; auto.
  - destruct K as [K|(-> & -> & _)]; [left; apply has_ref_spec; auto|auto].
  - destruct K as [K|(-> & -> & _)]; [left; apply has_ref_spec; eauto|auto].
Qed.
