(** Names: the name-uniqueness invariant is preserved by every operation *)
From Coq Require Import List String Ascii Bool Arith ZArith Lia.
From MX Require Import C3.Model C3.Proofs Names.Model Names.ProofsBase Names.ProofsNoop Names.ProofsNames
  Names.ProofsWf Names.ProofsViews Names.ProofsUnique.
Import ListNotations.

Lemma memb_app x a b : memb x (a ++ b) = memb x a || memb x b.
Proof. induction a as [|y t IH]; simpl; [reflexivity|]. rewrite IH, orb_assoc. reflexivity. Qed.

Lemma has_space_add st p sd q : has_space (add_space st p sd) q = has_space st q || path_eqb q p.
Proof.
  unfold has_space, keys, add_space. simpl. rewrite map_app, memb_app. simpl. rewrite orb_false_r. reflexivity.
Qed.

(** ---- shrinking edits ---- *)
Lemma anc_mono g1 g a b :
  (forall n c, In c (bases_of g1 n) -> In c (bases_of g n)) -> anc g1 a b -> anc g a b.
Proof.
  intros H A. induction A as [n|n b0 x Hb A IH]; [constructor|]. eapply anc_step; eauto.
Qed.

Lemma ancs_shrink st st1 x :
  wf st -> wf st1 -> has_space st x = true -> has_space st1 x = true ->
  (forall n c, In c (bases_of (graph_of st1) n) -> In c (bases_of (graph_of st) n)) ->
  incl (ancs st1 x) (ancs st x).
Proof.
  intros W W1 H H1 Hb b I. apply (ancs_spec _ _ _ W1 H1) in I. destruct I as [A N].
  apply (ancs_spec _ _ _ W H). split; [eapply anc_mono; eauto|exact N].
Qed.

Lemma remove_path_incl b l : incl (remove_path b l) l.
Proof. intros x I. unfold remove_path in I. apply filter_In in I. tauto. Qed.

Lemma remove_bases_seq_incl bs : forall cur r, remove_bases_seq cur bs = Some r -> incl r cur.
Proof.
  induction bs as [|b t IH]; simpl; intros cur r H; [inversion H; apply incl_refl|].
  destruct (memb b cur); [|discriminate]. eapply incl_tran; [eapply IH; eauto|apply remove_path_incl].
Qed.

Lemma bases_of_set_bases st s bs n c :
  incl bs (bases_at st s) ->
  In c (bases_of (graph_of (set_bases st s bs)) n) -> In c (bases_of (graph_of st) n).
Proof.
  intros I. unfold graph_of, set_bases, upd_space. simpl. rewrite !bases_of_graph.
  destruct (path_eqb s n) eqn:E.
  - apply path_eqb_eq in E. subst n. rewrite get_upd_same. unfold bases_at, get_space in I.
    destruct (get_space_in (st_spaces st) s); simpl; [apply I|tauto].
  - rewrite get_upd_other by exact E. tauto.
Qed.

Lemma shrink_disj st st1 :
  wf st -> wf st1 -> disj st ->
  (forall p, has_space st1 p = true -> has_space st p = true) ->
  (forall b m, def_cells st1 b m = true -> def_cells st b m = true) ->
  (forall b m, def_ref st1 b m = true -> def_ref st b m = true) ->
  (forall n c, In c (bases_of (graph_of st1) n) -> In c (bases_of (graph_of st) n)) ->
  (forall n, has_key n (st_grefs st1) = true -> has_key n (st_grefs st) = true) ->
  disj st1.
Proof.
  intros W W1 D Hs Hc Hr Hb Hg. apply (disj_mono st); auto.
  - intros p n Hp H. apply has_cells_spec in H. apply has_cells_spec.
    destruct H as [H|(b & I & H)]; [auto|]. right. exists b. split; [|auto].
    eapply ancs_shrink; eauto.
  - intros p n Hp H. apply has_ref_spec in H. apply has_ref_spec.
    destruct H as [H|(b & I & H)]; [auto|]. right. exists b. split; [|auto].
    eapply ancs_shrink; eauto.
Qed.

(** the table after [del_tree] *)
Lemma get_del_tree l p b sd1 :
  get_space_in (map (fun e => (fst e, with_bases (filter (fun c => negb (is_prefix p c)) (s_bases (snd e))) (snd e)))
                    (filter (fun e => negb (is_prefix p (fst e))) l)) b = Some sd1 ->
  is_prefix p b = false /\
  exists sd, get_space_in l b = Some sd /\ s_cells sd1 = s_cells sd /\ s_refs sd1 = s_refs sd
             /\ incl (s_bases sd1) (s_bases sd).
Proof.
  induction l as [|[k0 s0] t IH]; simpl; [discriminate|].
  destruct (is_prefix p k0) eqn:P; simpl.
  - intros H. destruct (IH H) as (Pb & sd & G & R). split; [exact Pb|].
    destruct (path_eqb k0 b) eqn:E; [apply path_eqb_eq in E; congruence|]. eauto.
  - destruct (path_eqb k0 b) eqn:E.
    + intros H. inversion H. subst. clear H. apply path_eqb_eq in E. subst k0. split; [exact P|].
      exists s0. split; [reflexivity|]. split; [reflexivity|]. split; [reflexivity|].
      simpl. intros c I. apply filter_In in I. destruct I as [I _]. exact I.
    + exact IH.
Qed.

Lemma del_tree_disj st p : wf st -> wf (del_tree st p) -> disj st -> disj (del_tree st p).
Proof.
  intros W W1 D. apply (shrink_disj st); auto.
  - intros q H. unfold has_space, keys, del_tree in *. simpl in H. apply memb_In in H. apply memb_In.
    rewrite map_map in H. simpl in H. apply in_map_iff in H. destruct H as (e & <- & I).
    apply filter_In in I. apply in_map. tauto.
  - intros b m H. unfold def_cells, get_space, del_tree in *. simpl in H.
    destruct (get_space_in _ b) as [sd1|] eqn:G in H; [|discriminate].
    apply get_del_tree in G. destruct G as (_ & sd & G & Ec & _). rewrite G. rewrite <- Ec. exact H.
  - intros b m H. unfold def_ref, get_space, del_tree in *. simpl in H.
    destruct (get_space_in _ b) as [sd1|] eqn:G in H; [|discriminate].
    apply get_del_tree in G. destruct G as (_ & sd & G & _ & Er & _). rewrite G. rewrite <- Er. exact H.
  - intros n c. unfold graph_of, del_tree. simpl. rewrite !bases_of_graph.
    match goal with |- In c (match get_space_in ?L n with _ => _ end) -> _ =>
      destruct (get_space_in L n) as [sd1|] eqn:G end; [|intros []].
    apply get_del_tree in G. destruct G as (_ & sd & G & _ & _ & I). rewrite G. apply I.
Qed.

Lemma del_space_disj st p : wf st -> disj st -> disj (snd (step_del_space st p)).
Proof.
  intros W D. unfold step_del_space, reject. destruct (negb (all_mro_ok _)) eqn:E; simpl; [exact D|].
  apply negb_false_iff in E. apply del_tree_disj; auto.
Qed.

(** ---- renaming a cells ---- *)
Lemma get_map l (g : path * spaceD -> path * spaceD) b :
  (forall e, fst (g e) = fst e) ->
  get_space_in (map g l) b = option_map (fun sd => snd (g (b, sd))) (get_space_in l b).
Proof.
  intros H. induction l as [|[k0 s0] t IH]; simpl; [reflexivity|].
  destruct (g (k0, s0)) as [k1 s1] eqn:E. pose proof (H (k0, s0)) as F. rewrite E in F. simpl in F. subst k1.
  destruct (path_eqb k0 b) eqn:P; [|exact IH]. apply path_eqb_eq in P. subst k0. simpl. rewrite E. reflexivity.
Qed.

Lemma rename_cells_disj st s n new :
  wf st -> disj st -> has_space st s = true -> can_rename_cells st s new = true ->
  disj (mkSt (map (fun e => if path_eqb (fst e) s || memb (fst e) (subs st s)
                            then (fst e, with_cells (rename_key n new (s_cells (snd e))) (snd e))
                            else e) (st_spaces st))
             (st_grefs st)).
Proof.
  intros W D Hs C. set (g := fun e : path * spaceD => _). set (st' := mkSt _ _).
  assert (Gf : forall e, fst (g e) = fst e).
  { intros e. unfold g. destruct (path_eqb (fst e) s || memb (fst e) (subs st s)); reflexivity. }
  assert (Gb : forall e, fst (g e) = fst e /\ s_bases (snd (g e)) = s_bases (snd e)).
  { intros e. unfold g. destruct (path_eqb (fst e) s || memb (fst e) (subs st s)); simpl; auto. }
  assert (GR : graph_of st' = graph_of st) by (unfold graph_of, st'; simpl; apply graph_map, Gb).
  assert (A : forall x, ancs st' x = ancs st x) by (intros x; unfold ancs; rewrite GR; reflexivity).
  assert (K : forall x, has_space st' x = has_space st x).
  { intros x. unfold has_space, keys, st'. simpl. rewrite map_map. f_equal. apply map_ext, Gf. }
  assert (DR : forall b m, def_ref st' b m = def_ref st b m).
  { intros b m. unfold def_ref, get_space, st'. simpl. rewrite get_map by exact Gf.
    destruct (get_space_in (st_spaces st) b) as [sd|]; simpl; [|reflexivity].
    unfold g. simpl. destruct (path_eqb b s || memb b (subs st s)); reflexivity. }
  assert (DC : forall b m, def_cells st' b m = true ->
               def_cells st b m = true \/ (m = new /\ (b = s \/ In b (subs st s)))).
  { intros b m. unfold def_cells, get_space, st'. simpl. rewrite get_map by exact Gf.
    destruct (get_space_in (st_spaces st) b) as [sd|]; simpl; [|discriminate].
    unfold g. simpl. destruct (path_eqb b s || memb b (subs st s)) eqn:E; simpl; [|auto].
    intros H. apply has_key_rename in H. destruct H as [[H _]|[-> _]]; [auto|]. right. split; [reflexivity|].
    apply orb_true_iff in E. destruct E as [E|E]; [left; apply path_eqb_eq, E|right; apply memb_In, E]. }
  destruct (can_rename_cells_elim _ _ _ C) as [Hn Hsub].
  apply (disj_grow_cells st st' s new); auto.
  - intros x m. unfold has_ref. rewrite A, DR. f_equal. apply existsb_ext'. intros b. apply DR.
  - intros x m Hx H. apply has_cells_spec in H. rewrite A in H.
    assert (S : forall b, b = s \/ In b (subs st s) -> b = x \/ In b (ancs st x) -> x = s \/ In s (ancs st x)).
    { intros b [->|Ib] [->|Jb]; auto.
      - apply subs_spec in Ib. tauto.
      - apply subs_spec in Ib. destruct Ib as [Kb Ib]. right. apply (ancs_trans st s b x W Hx); auto.
        apply memb_In, Kb. }
    destruct H as [H|(b & I & H)]; apply DC in H.
    + destruct H as [H|(-> & B)]; [left; apply has_cells_spec; auto|]. right. split; [reflexivity|]. eapply S; eauto.
    + destruct H as [H|(-> & B)]; [left; apply has_cells_spec; eauto|]. right. split; [reflexivity|]. eapply S; eauto.
Qed.

(** ---- the model's spaces vs its references after a re-labelling ---- *)
Lemma has_space_relabel st p p' q : has_space (relabel st p p') q = true ->
  exists q0, has_space st q0 = true /\ q = reprefix p p' q0.
Proof.
  unfold has_space, keys, relabel. simpl. rewrite map_map. simpl. intros H. apply memb_In in H.
  apply in_map_iff in H. destruct H as ([k v] & <- & I). exists k. split; [|reflexivity].
  apply memb_In. apply in_map_iff. exists (k, v). auto.
Qed.

Lemma relabel_top st p new m :
  p <> [] -> can_add_space st (parent_of p) new = true ->
  (forall n, has_child st [] n = true -> has_key n (st_grefs st) = false) ->
  has_child (relabel st p (parent_of p ++ [new])%list) [] m = true -> has_key m (st_grefs st) = false.
Proof.
  intros Np C D3 H. unfold has_child in H. simpl in H. apply has_space_relabel in H.
  destruct H as (q0 & H0 & E). unfold reprefix in E. destruct (is_prefix p q0).
  - destruct (parent_of p) as [|y t] eqn:P.
    + simpl in E. inversion E. subst. unfold can_add_space in C. apply negb_true_iff in C.
      unfold in_model_ns in C. apply orb_false_iff in C. destruct C as [_ C]. unfold has_gref in C.
      apply orb_false_iff in C. tauto.
    + simpl in E. inversion E as [[E1 E2]]. destruct t; discriminate.
  - subst q0. apply D3. exact H0.
Qed.

(** ---- the step ---- *)
Lemma views_same_spaces st g :
  let st' := mkSt (st_spaces st) g in
  (forall p, has_space st' p = has_space st p) /\ (forall p n, has_cells st' p n = has_cells st p n)
  /\ (forall p n, has_ref st' p n = has_ref st p n).
Proof. simpl. repeat split; reflexivity. Qed.

Lemma step_disj st o : wf st -> disj st ->
  (forall p new, o = RenameSpace p new -> disj (snd (step st o))) -> disj (snd (step st o)).
Proof.
  intros W D RS. pose proof D as (D1 & D2 & D3). destruct o; simpl.
  - (* NewSpace *)
    unfold step_new_space, reject.
    destruct (negb match parent with [] => true | _ :: _ => has_space st parent end); [exact D|].
    destruct (negb (forallb (has_space st) bases)); [exact D|].
    destruct (negb (can_add_space st parent name)) eqn:C; [exact D|]. apply negb_false_iff in C.
    destruct (negb (is_valid_name name)); [exact D|].
    destruct (negb (all_mro_ok _)); [exact D|].
    destruct (all_disjoint _) eqn:A; simpl.
    + destruct (all_disjoint_sound _ A) as [A1 A2]. split; [exact A1|split; [exact A2|]].
      intros n H. unfold has_child in H. rewrite has_space_add in H. simpl.
      apply orb_true_iff in H. destruct H as [H|H]; [apply D3, H|].
      apply path_eqb_eq in H. destruct parent as [|x t].
      * simpl in H. inversion H. subst. unfold can_add_space in C. apply negb_true_iff in C.
        unfold in_model_ns, has_gref in C. apply orb_false_iff in C. destruct C as [_ C].
        apply orb_false_iff in C. tauto.
      * simpl in H. inversion H. destruct t; discriminate.
    + rewrite rollback_space; [exact D|]. apply can_add_space_fresh, C.
  - (* NewCells *)
    assert (INS : forall n f (G : spaceD -> spaceD),
               (forall sd, s_refs (G sd) = s_refs sd) -> (forall sd, s_bases (G sd) = s_bases sd) ->
               (forall sd, map fst (s_cells (G sd)) = map fst (s_cells sd)) ->
               can_add_cells st s n = true ->
               disj (upd_space (insert_cells st s n f) s G)).
    { intros n f0 G G1 G2 G3 C. unfold insert_cells. rewrite upd_space_twice.
      destruct (can_add_cells_elim _ _ _ C) as [Hn Hsub].
      apply (disj_upd_cells st s _ n); auto.
      - intros sd. rewrite G1. reflexivity.
      - intros sd. rewrite G2. reflexivity.
      - intros sd k H. apply has_key_In in H. rewrite G3 in H. simpl in H. rewrite map_app in H.
        apply in_app_or in H. destruct H as [H|[<-|[]]]; [left; apply has_key_In, H|auto]. }
    assert (INS0 : forall n f, can_add_cells st s n = true -> disj (insert_cells st s n f)).
    { intros n f0 C. specialize (INS n f0 (fun sd => sd)).
      assert (E : upd_space (insert_cells st s n f0) s (fun sd => sd) = insert_cells st s n f0).
      { unfold upd_space. rewrite upd_id; [apply state_eta|auto]. }
      rewrite <- E. apply INS; auto. }
    assert (A : forall f, disj (snd (auto_named_cells st s f))).
    { intros f0. unfold auto_named_cells, reject. destruct (next_free _ _ _) as [k|]; [|exact D].
      destruct (can_add_cells st s (cname k)) eqn:C; [|exact D]. simpl. apply INS; auto. }
    assert (U : disj (snd (unnamed_cells st s f))).
    { unfold unnamed_cells, reject. destruct f as [|t|fn t|]; try apply A; [|exact D].
      destruct (is_valid_name fn); [|apply A]. destruct (can_add_cells st s fn) eqn:C; [|exact D]. simpl.
      apply INS0, C. }
    unfold step_new_cells, reject. destruct (negb (has_space st s)); [exact D|].
    destruct name as [n|]; [|simpl; exact U].
    destruct (negb (can_add_cells st s n)) eqn:C; [exact D|]. apply negb_false_iff in C.
    destruct (is_valid_name n); [|exact U].
    destruct f; simpl; try (apply INS; auto; intros sd; simpl; apply map_fst_set).
    rewrite rollback_cells; [exact D|]. apply can_add_cells_fresh, C.
  - (* SetFormula *)
    unfold step_set_formula, reject. destruct (negb (has_space st s)) eqn:Hs; [exact D|].
    apply negb_false_iff in Hs.
    destruct (negb (has_cells st s n)) eqn:H; [exact D|]. apply negb_false_iff in H.
    destruct (has_cells_room _ _ _ W D Hs H) as [Hn Hsub].
    destruct f; simpl; try exact D;
      (apply (disj_upd_cells st s _ n); auto; intros sd k K; simpl in K; rewrite has_key_put in K;
       apply orb_true_iff in K; destruct K as [K|K]; [auto|right; apply String.eqb_eq in K; auto]).
  - (* RenameCells *)
    unfold step_rename_cells, reject. destruct (negb (has_space st s)) eqn:Hs; [exact D|].
    apply negb_false_iff in Hs.
    destruct (negb (has_cells st s n)); [exact D|]. destruct (negb (is_valid_name new)); [exact D|].
    destruct (negb (can_rename_cells st s new)) eqn:C; [exact D|]. apply negb_false_iff in C.
    destruct (existsb _ _); [exact D|]. simpl. apply rename_cells_disj; auto.
  - (* RenameSpace *)
    apply (RS s new eq_refl).
  - (* AddBases *)
    unfold step_add_bases, reject. destruct (negb (has_space st s)); [exact D|].
    destruct (negb (forallb (has_space st) bs)); [exact D|]. destruct (existsb _ bs); [exact D|].
    destruct (negb (all_mro_ok _)); [exact D|].
    destruct (negb (all_disjoint _)) eqn:A; [exact D|]. apply negb_false_iff in A. simpl.
    destruct (all_disjoint_sound _ A) as [A1 A2]. split; [exact A1|split; [exact A2|]].
    intros m H. unfold set_bases in *. rewrite has_child_upd in H. apply D3, H.
  - (* RemoveBases *)
    unfold step_remove_bases, reject. destruct (negb (has_space st s)); [exact D|].
    destruct (negb (forallb (has_space st) bs)); [exact D|].
    destruct (remove_bases_seq _ bs) as [bs1|] eqn:R; [|exact D].
    destruct (negb (all_mro_ok _)) eqn:M; [exact D|]. apply negb_false_iff in M. simpl.
    apply (shrink_disj st); auto.
    + intros p. unfold set_bases. rewrite has_space_upd. auto.
    + intros b m. unfold set_bases. rewrite def_cells_upd_refs; auto.
    + intros b m. unfold set_bases. rewrite def_ref_upd_cells; auto.
    + intros n c. apply bases_of_set_bases. eapply remove_bases_seq_incl; eauto.
  - (* SetAttr *)
    unfold step_set_attr, reject, put_ref. destruct s as [|x t].
    + destruct (has_child st [] n) eqn:Hc; [exact D|]. simpl. split; [exact D1|split; [exact D2|]].
      intros m H. simpl. rewrite has_key_put. change (has_child st [] m = true) in H.
      rewrite (D3 _ H). simpl. destruct (String.eqb n m) eqn:E; [|reflexivity].
      apply String.eqb_eq in E. subst. congruence.
    + destruct (negb (has_space st (x :: t))) eqn:Hs; [exact D|]. apply negb_false_iff in Hs.
      destruct (negb (is_valid_name n)); [exact D|].
      assert (P : forall (Hn : has_cells st (x :: t) n = false /\ has_child st (x :: t) n = false)
                         (Hsub : forall d, In d (subs st (x :: t)) -> has_cells st d n = false /\ has_child st d n = false),
                 disj (upd_space st (x :: t) (fun sd => with_refs (put_key n v (s_refs sd)) sd))).
      { intros Hn Hsub. apply (disj_upd_refs st _ _ n); auto. intros sd k K. simpl in K.
        rewrite has_key_put in K. apply orb_true_iff in K. destruct K as [K|K]; [auto|].
        right. apply String.eqb_eq in K. auto. }
      destruct (has_ref st (x :: t) n) eqn:R.
      { destruct (has_ref_room _ _ _ W D Hs R). apply P; auto. }
      destruct (has_gref st n).
      { destruct (can_add_ref st (x :: t) n) eqn:C; [|exact D]. destruct (can_add_ref_elim _ _ _ C). apply P; auto. }
      destruct (has_cells st (x :: t) n); [destruct v; exact D|].
      destruct (has_child st (x :: t) n); [exact D|].
      destruct (can_add_ref st (x :: t) n) eqn:C; [|exact D]. destruct (can_add_ref_elim _ _ _ C). apply P; auto.
  - (* DelAttr *)
    unfold step_del_attr, reject. destruct s as [|x t].
    + destruct (has_child st [] n); [apply del_space_disj; auto|].
      destruct (has_key n (st_grefs st)); [|exact D]. simpl. split; [exact D1|split; [exact D2|]].
      intros m H. simpl. rewrite has_key_remove. change (has_child st [] m = true) in H. rewrite (D3 _ H). reflexivity.
    + destruct (negb (has_space st (x :: t))) eqn:Hs; [exact D|]. apply negb_false_iff in Hs.
      destruct (has_cells st (x :: t) n) eqn:H.
      { destruct (def_cells st (x :: t) n); [|exact D]. simpl. unfold delete_cells.
        destruct (has_cells_room _ _ _ W D Hs H) as [Hn Hsub].
        apply (disj_upd_cells st _ _ n); auto. intros sd k K. simpl in K. rewrite has_key_remove in K.
        apply andb_true_iff in K. tauto. }
      destruct (has_child st (x :: t) n); [apply del_space_disj; auto|].
      destruct (has_ref st (x :: t) n) eqn:R.
      { destruct (def_ref st (x :: t) n); [|exact D]. simpl.
        destruct (has_ref_room _ _ _ W D Hs R) as [Hn Hsub].
        apply (disj_upd_refs st _ _ n); auto. intros sd k K. simpl in K. rewrite has_key_remove in K.
        apply andb_true_iff in K. tauto. }
      destruct (mem_str n sys_names || has_gref st n); exact D.
  - (* SetParams: no container changes *)
    unfold step_set_params, reject. destruct (negb (has_space st s)); [exact D|].
    destruct (negb _); [exact D|]. simpl. apply (disj_mono st); auto.
    + intros p. rewrite has_space_upd. auto.
    + intros p n _. rewrite has_cells_upd_refs; auto.
    + intros p n _. rewrite has_ref_upd_cells; auto.
Qed.

Lemma init_disj : disj init.
Proof. split; [|split]; intros; discriminate. Qed.

