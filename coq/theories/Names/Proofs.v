(** Names: lemmas (work in progress) *)
From Coq Require Import List String Ascii Bool Arith ZArith Lia.
From MX Require Import C3.Model Names.Model.
Import ListNotations.

Lemma init_ok : all_mro_ok (graph_of init) = true /\ all_disjoint init = true.
Proof. split; reflexivity. Qed.
