(** Names: the invariants together, by induction over all histories; the
    theorems of C11 (well-formedness) and C12 (uniqueness) *)
From Coq Require Import List String Ascii Bool Arith ZArith Lia.
From MX Require Import C3.Model C3.Proofs Names.Model Names.ProofsBase Names.ProofsNoop Names.ProofsNames
  Names.ProofsWf Names.ProofsViews Names.ProofsUnique Names.ProofsUnique2 Names.ProofsC3Map Names.ProofsTree
  Names.ProofsRelabel.
Import ListNotations.
Local Open Scope list_scope.

Lemma del_space_struct st p : struct_ok st -> struct_ok (snd (step_del_space st p)).
Proof.
  intros S. unfold step_del_space, reject. destruct (negb (all_mro_ok _)); simpl; [exact S|].
  apply struct_del_tree, S.
Qed.

Lemma forallb_has_space st bs b : forallb (has_space st) bs = true -> In b bs -> In b (keys st).
Proof. intros H I. rewrite forallb_forall in H. apply memb_In. apply H, I. Qed.

Lemma step_struct st o : struct_ok st -> struct_ok (snd (step st o)).
Proof.
  intros S. destruct o; simpl.
  - (* NewSpace *)
    unfold step_new_space, reject.
    destruct (negb match parent with [] => true | _ :: _ => has_space st parent end) eqn:P; [exact S|].
    destruct (negb (forallb (has_space st) bases)) eqn:B; [exact S|]. apply negb_false_iff in B.
    destruct (negb (can_add_space st parent name)) eqn:C; [exact S|].
    destruct (negb (is_valid_name name)); [exact S|].
    destruct (negb (all_mro_ok _)); [exact S|].
    destruct (all_disjoint _); simpl.
    + destruct S as [T C0]. split.
      * intros q I. unfold keys, add_space in *. simpl in *. rewrite map_app in *. simpl in *.
        apply in_app_or in I. destruct I as [I|[<-|[]]].
        -- destruct (T _ I) as [Nq [E|Ip]]; split; auto. right. apply in_or_app. auto.
        -- split; [intros E; apply app_eq_nil in E; destruct E; discriminate|].
           rewrite parent_of_snoc. destruct parent as [|x t]; [auto|]. right. apply in_or_app. left.
           apply negb_false_iff in P. apply memb_In in P. exact P.
      * intros q sd I b Ib. unfold keys, add_space in *. simpl in *. rewrite map_app. apply in_or_app. left.
        apply in_app_or in I. destruct I as [I|[E|[]]]; [eapply C0; eauto|]. inversion E. subst. simpl in Ib.
        apply fold_add_base_incl in Ib. destruct Ib as [[]|Ib]. eapply forallb_has_space; eauto.
    + rewrite rollback_space; [exact S|]. apply can_add_space_fresh. apply negb_false_iff in C. exact C.
  - (* NewCells *)
    assert (A : forall f, struct_ok (snd (auto_named_cells st s f))).
    { intros f0. unfold auto_named_cells, reject. destruct (next_free _ _ _) as [k|]; [|exact S].
      destruct (can_add_cells st s (cname k)); [|exact S]. simpl. unfold insert_cells.
      apply struct_upd; auto. apply struct_upd; auto. }
    assert (U : struct_ok (snd (unnamed_cells st s f))).
    { unfold unnamed_cells, reject. destruct f as [|t|fn t|]; try apply A; [|exact S].
      destruct (is_valid_name fn); [|apply A]. destruct (can_add_cells st s fn); [|exact S]. simpl.
      unfold insert_cells. apply struct_upd; auto. }
    unfold step_new_cells, reject. destruct (negb (has_space st s)); [exact S|].
    destruct name as [n|]; [|simpl; exact U].
    destruct (negb (can_add_cells st s n)) eqn:C; [exact S|].
    destruct (is_valid_name n); [|exact U].
    destruct f; simpl; unfold insert_cells, delete_cells; repeat (apply struct_upd; auto).
  - (* SetFormula *)
    unfold step_set_formula, reject. destruct (negb (has_space st s)); [exact S|].
    destruct (negb (has_cells st s n)); [exact S|].
    destruct f; simpl; try exact S; apply struct_upd; auto.
  - (* RenameCells *)
    unfold step_rename_cells, reject. destruct (negb (has_space st s)); [exact S|].
    destruct (negb (has_cells st s n)); [exact S|]. destruct (negb (is_valid_name new)); [exact S|].
    destruct (negb (can_rename_cells st s new)); [exact S|]. destruct (existsb _ _); [exact S|]. simpl.
    destruct S as [T C]. set (g := fun e : path * spaceD => _).
    assert (K : map fst (map g (st_spaces st)) = keys st).
    { unfold keys. rewrite map_map. apply map_ext. intros e. unfold g.
      destruct (path_eqb (fst e) s || memb (fst e) (subs st s)); reflexivity. }
    split.
    + intros q. unfold keys. simpl. rewrite K. apply T.
    + intros q sd I b Ib. unfold keys. simpl. rewrite K. simpl in I. apply in_map_iff in I.
      destruct I as ([k v] & E & I). unfold g in E.
      destruct (path_eqb (fst (k, v)) s || memb (fst (k, v)) (subs st s)); inversion E; subst; clear E;
        simpl in Ib; eapply C; eauto.
  - (* RenameSpace *)
    unfold step_rename_space, reject. destruct s as [|x t]; [exact S|].
    destruct (negb (has_space st (x :: t))) eqn:H; [exact S|]. apply negb_false_iff in H.
    destruct (negb (is_valid_name new)); [exact S|]. cbn [snd].
    destruct (negb (can_add_space st _ new)); [exact S|].
    apply struct_relabel; [apply memb_In, H|exact S].
  - (* AddBases *)
    unfold step_add_bases, reject. destruct (negb (has_space st s)); [exact S|].
    destruct (negb (forallb (has_space st) bs)) eqn:B; [exact S|]. apply negb_false_iff in B.
    destruct (existsb _ bs); [exact S|]. destruct (negb (all_mro_ok _)); [exact S|].
    destruct (negb (all_disjoint _)); [exact S|]. simpl. apply struct_set_bases; [|exact S].
    intros b Ib. apply fold_add_base_incl in Ib. destruct Ib as [Ib|Ib]; [|eapply forallb_has_space; eauto].
    unfold bases_at, get_space in Ib. destruct (get_space_in (st_spaces st) s) as [sd|] eqn:G; [|destruct Ib].
    apply get_space_in_In in G. destruct S as [_ C]. eapply C; eauto.
  - (* RemoveBases *)
    unfold step_remove_bases, reject. destruct (negb (has_space st s)); [exact S|].
    destruct (negb (forallb (has_space st) bs)); [exact S|].
    destruct (remove_bases_seq _ bs) as [bs1|] eqn:R; [|exact S].
    destruct (negb (all_mro_ok _)); [exact S|]. simpl. apply struct_set_bases; [|exact S].
    intros b Ib. apply (remove_bases_seq_incl _ _ _ R) in Ib.
    unfold bases_at, get_space in Ib. destruct (get_space_in (st_spaces st) s) as [sd|] eqn:G; [|destruct Ib].
    apply get_space_in_In in G. destruct S as [_ C]. eapply C; eauto.
  - (* SetAttr *)
    unfold step_set_attr, reject, put_ref. destruct s as [|x t].
    + destruct (has_child st [] n); [exact S|]. simpl. apply struct_grefs, S.
    + destruct (negb (has_space st (x :: t))); [exact S|]. destruct (negb (is_valid_name n)); [exact S|].
      assert (P : struct_ok (upd_space st (x :: t) (fun sd => with_refs (put_key n v (s_refs sd)) sd)))
        by (apply struct_upd; auto).
      destruct (has_ref st (x :: t) n); [exact P|].
      destruct (has_gref st n); [destruct (can_add_ref st (x :: t) n); [exact P|exact S]|].
      destruct (has_cells st (x :: t) n); [destruct v; exact S|].
      destruct (has_child st (x :: t) n); [exact S|].
      destruct (can_add_ref st (x :: t) n); [exact P|exact S].
  - (* DelAttr *)
    unfold step_del_attr, reject. destruct s as [|x t].
    + destruct (has_child st [] n); [apply del_space_struct, S|].
      destruct (has_key n (st_grefs st)); [simpl; apply struct_grefs, S|exact S].
    + destruct (negb (has_space st (x :: t))); [exact S|].
      destruct (has_cells st (x :: t) n).
      { destruct (def_cells st (x :: t) n); [|exact S]. simpl. unfold delete_cells. apply struct_upd; auto. }
      destruct (has_child st (x :: t) n); [apply del_space_struct, S|].
      destruct (has_ref st (x :: t) n).
      { destruct (def_ref st (x :: t) n); [|exact S]. simpl. apply struct_upd; auto. }
      destruct (mem_str n sys_names || has_gref st n); exact S.
  - (* SetParams *)
    unfold step_set_params, reject. destruct (negb (has_space st s)); [exact S|].
    destruct (negb _); [exact S|]. simpl. apply struct_upd; auto.
Qed.

Definition inv (st : state) : Prop := struct_ok st /\ wf st /\ disj st.

Lemma step_inv st o : inv st -> inv (snd (step st o)).
Proof.
  intros (S & W & D). split; [apply step_struct, S|]. split.
  - apply step_wf; [exact W|]. intros p new ->. simpl. unfold step_rename_space, reject.
    destruct p as [|x t]; [exact W|].
    destruct (negb (has_space st (x :: t))) eqn:H; [exact W|]. apply negb_false_iff in H.
    destruct (negb (is_valid_name new)); [exact W|]. cbn [snd].
    destruct (negb (can_add_space st _ new)) eqn:C; [exact W|]. apply negb_false_iff in C.
    apply relabel_wf; auto; [apply memb_In, H|apply can_add_space_fresh, C].
  - apply step_disj; auto. intros p new ->. simpl. unfold step_rename_space, reject.
    destruct p as [|x t]; [exact D|].
    destruct (negb (has_space st (x :: t))) eqn:H; [exact D|]. apply negb_false_iff in H.
    destruct (negb (is_valid_name new)); [exact D|]. cbn [snd].
    destruct (negb (can_add_space st _ new)) eqn:C; [exact D|]. apply negb_false_iff in C.
    apply relabel_disj; auto. apply memb_In, H.
Qed.

Lemma init_inv : inv init.
Proof.
  split; [split|split]; try reflexivity.
  - intros q [].
  - intros p sd [].
  - apply init_disj.
Qed.

Lemma run_from_inv h : forall st, inv st -> inv (run_from st h).
Proof. induction h as [|o t IH]; intros st I; [exact I|]. simpl. apply IH, step_inv, I. Qed.

Lemma run_inv h : inv (run h).
Proof. apply run_from_inv, init_inv. Qed.

(** C11, second clause: in every reachable state every space has a C3
    linearisation (it starts with the space, has no repetition and lists
    exactly the space and its ancestors), and no space is its own ancestor *)
Theorem reachable_wellformed : forall h,
  let st := run h in
  let g := graph_of st in
  (forall p, has_space st p = true ->
     exists l, mro_of g p = Ok (p :: l) /\ NoDup (p :: l) /\ (forall x, In x (p :: l) <-> anc g p x))
  /\ (forall p b, In b (bases_of g p) -> ~ anc g b p).
Proof.
  intros h st g. subst g. destruct (run_inv h) as (_ & W & _). fold st in W. split.
  - intros p H. destruct (wf_mro _ _ W H) as (l & M).
    destruct (mro_head _ _ _ _ M) as (l' & ->). exists l'. split; [exact M|]. split.
    + eapply mro_NoDup; eauto.
    + eapply mro_members; eauto.
  - intros p b Hb. unfold graph_of in Hb. rewrite bases_of_graph in Hb.
    destruct (get_space_in (st_spaces st) p) as [sd|] eqn:G; [|destruct Hb].
    assert (H : has_space st p = true).
    { apply memb_In. apply get_space_in_In in G. apply in_map_iff. exists (p, sd). auto. }
    destruct (wf_mro _ _ W H) as (l & M). eapply mro_acyclic; [exact M|].
    unfold graph_of. rewrite bases_of_graph, G. exact Hb.
Qed.

(** the structure behind it: the paths of the spaces form a tree and every
    declared base is a space of the model *)
Theorem reachable_structure : forall h,
  let st := run h in
  (forall q, has_space st q = true -> q <> [] /\ (parent_of q = [] \/ has_space st (parent_of q) = true))
  /\ (forall p b, has_space st p = true -> In b (bases_at st p) -> has_space st b = true).
Proof.
  intros h st. destruct (run_inv h) as ([T C] & _ & _). fold st in T, C. split.
  - intros q H. apply memb_In in H. destruct (T _ H) as [N [E|I]]; split; auto. right. apply memb_In, I.
  - intros p b H Ib. unfold bases_at, get_space in Ib.
    destruct (get_space_in (st_spaces st) p) as [sd|] eqn:G; [|destruct Ib].
    apply get_space_in_In in G. apply memb_In. eapply C; eauto.
Qed.

Example wellformed_rejects :
  let st := run [NewSpace [] "a" []; NewSpace [] "b" [["a"]]] in
  fst (step st (AddBases ["a"] [["b"]])) = Rejected Cyclic
  /\ fst (step st (NewSpace [] "y" [["a"]; ["b"]])) = Rejected NoMro
  /\ fst (step st (AddBases ["a"] [["a"]])) = Rejected Cyclic
  /\ st_spaces st <> [].
Proof. repeat split; try reflexivity. intros H; discriminate H. Qed.

(** C12, first clause: in every reachable state, in every space, a name is at
    most one of: a cells (defined or derived), an own reference (defined or
    derived), a child space; and at model level a space or a reference *)
Theorem reachable_unique : forall h,
  let st := run h in
  (forall p n, has_space st p = true ->
     (has_cells st p n = true -> has_ref st p n = false /\ has_child st p n = false)
     /\ (has_ref st p n = true -> has_child st p n = false))
  /\ (forall n, has_child st [] n = true -> has_key n (st_grefs st) = false).
Proof.
  intros h st. destruct (run_inv h) as (_ & _ & (D1 & D2 & D3)).
  split; [|exact D3]. intros p n Hp. split; [apply D1, Hp|apply D2, Hp].
Qed.

(** no edit of a base can make a name denote two kinds of thing in a sub
    space: whatever operation is applied to whatever space of a reachable
    state, every space has the property afterwards *)
Theorem base_edit_keeps_unique : forall h o,
  let st' := snd (step (run h) o) in
  forall d n, has_space st' d = true ->
    (has_cells st' d n = true -> has_ref st' d n = false /\ has_child st' d n = false)
    /\ (has_ref st' d n = true -> has_child st' d n = false).
Proof.
  intros h o st' d n Hd. destruct (step_inv _ o (run_inv h)) as (_ & _ & (D1 & D2 & _)).
  split; [apply D1, Hd|apply D2, Hd].
Qed.

(** the clash tests of the model ([all_disjoint], evaluated by add_bases and
    new_space) never reject after a [space.rename]: renaming changes no member *)
Example unique_rejects :
  let st := run [NewSpace [] "a" []; NewCells ["a"] (Some "x") (ALam 1%Z);
                 NewSpace [] "b" []; NewSpace ["b"] "x" []; NewSpace [] "c" [["a"]];
                 SetAttr [] "g" (Some 1%Z)] in
  fst (step st (AddBases ["b"] [["a"]])) = Rejected NameConflict
  /\ fst (step st (SetAttr ["a"] "x" None)) = Rejected NoneValue
  /\ fst (step st (NewSpace ["c"] "x" [])) = Rejected NameInUse
  /\ fst (step st (NewCells ["a"] (Some "g") ANone)) = Rejected NameInUse
  /\ fst (step st (SetAttr ["a"] "g" (Some 2%Z))) = Accepted
  /\ fst (step st (RenameSpace ["a"] "x")) = Accepted
  /\ fst (step st (RenameSpace ["b"; "x"] "b")) = Accepted
  /\ has_cells st ["c"] "x" = true.
Proof. repeat split; reflexivity. Qed.
