(** Names: in every reachable state a name denotes at most one kind of thing in
    a space (C12, first clause) *)
From Coq Require Import List String Ascii Bool Arith ZArith Lia.
From MX Require Import C3.Model C3.Proofs Names.Model Names.ProofsBase Names.ProofsNoop Names.ProofsNames
  Names.ProofsWf Names.ProofsViews.
Import ListNotations.

(** per space: cells (defined or derived), own references (defined or
    derived) and child spaces are pairwise disjoint; model: spaces and references *)
Definition disj (st : state) : Prop :=
  (forall p n, has_space st p = true -> has_cells st p n = true ->
               has_ref st p n = false /\ has_child st p n = false)
  /\ (forall p n, has_space st p = true -> has_ref st p n = true -> has_child st p n = false)
  /\ (forall n, has_child st [] n = true -> has_key n (st_grefs st) = false).

(** ---- the computed test is sound ---- *)
Lemma own_cells_names_def st p n : def_cells st p n = true -> In n (own_cells_names st p).
Proof.
  unfold def_cells, own_cells_names. destruct (get_space st p); [apply has_key_In|discriminate].
Qed.

Lemma own_refs_names_def st p n : def_ref st p n = true -> In n (own_refs_names st p).
Proof.
  unfold def_ref, own_refs_names. destruct (get_space st p); [apply has_key_In|discriminate].
Qed.

Lemma cells_names_has st p n : has_cells st p n = true -> In n (cells_names st p).
Proof.
  intros H. apply has_cells_spec in H. unfold cells_names. apply in_or_app.
  destruct H as [H|(b & I & H)]; [left; apply own_cells_names_def, H|].
  right. apply in_flat_map. exists b. split; [exact I|apply own_cells_names_def, H].
Qed.

Lemma refs_names_has st p n : has_ref st p n = true -> In n (refs_names st p).
Proof.
  intros H. apply has_ref_spec in H. unfold refs_names. apply in_or_app.
  destruct H as [H|(b & I & H)]; [left; apply own_refs_names_def, H|].
  right. apply in_flat_map. exists b. split; [exact I|apply own_refs_names_def, H].
Qed.

Lemma all_disjoint_sound st : all_disjoint st = true ->
  (forall p n, has_space st p = true -> has_cells st p n = true ->
               has_ref st p n = false /\ has_child st p n = false)
  /\ (forall p n, has_space st p = true -> has_ref st p n = true -> has_child st p n = false).
Proof.
  unfold all_disjoint. rewrite forallb_forall. intros A. split; intros p n Hp H.
  - apply memb_In in Hp. specialize (A _ Hp). unfold disjoint_at in A. apply andb_true_iff in A.
    destruct A as [A _]. rewrite forallb_forall in A. specialize (A _ (cells_names_has _ _ _ H)).
    apply andb_true_iff in A. rewrite !negb_true_iff in A. exact A.
  - apply memb_In in Hp. specialize (A _ Hp). unfold disjoint_at in A. apply andb_true_iff in A.
    destruct A as [_ A]. rewrite forallb_forall in A. specialize (A _ (refs_names_has _ _ _ H)).
    apply negb_true_iff in A. exact A.
Qed.

(** ---- generic preservation lemmas ---- *)
Lemma disj_mono st st' :
  (forall p, has_space st' p = true -> has_space st p = true) ->
  (forall p n, has_space st' p = true -> has_cells st' p n = true -> has_cells st p n = true) ->
  (forall p n, has_space st' p = true -> has_ref st' p n = true -> has_ref st p n = true) ->
  (forall n, has_key n (st_grefs st') = true -> has_key n (st_grefs st) = true) ->
  disj st -> disj st'.
Proof.
  intros Hs Hc Hr Hg (D1 & D2 & D3).
  assert (Hch : forall p n, has_child st' p n = true -> has_child st p n = true) by (intros p n; apply Hs).
  split; [|split].
  - intros p n Hp H. destruct (D1 p n (Hs _ Hp) (Hc _ _ Hp H)) as [R C]. split.
    + destruct (has_ref st' p n) eqn:E; [|reflexivity]. rewrite (Hr _ _ Hp E) in R. discriminate.
    + destruct (has_child st' p n) eqn:E; [|reflexivity]. rewrite (Hch _ _ E) in C. discriminate.
  - intros p n Hp H. pose proof (D2 p n (Hs _ Hp) (Hr _ _ Hp H)) as C.
    destruct (has_child st' p n) eqn:E; [|reflexivity]. rewrite (Hch _ _ E) in C. discriminate.
  - intros n H. pose proof (D3 n (Hch _ _ H)) as G.
    destruct (has_key n (st_grefs st')) eqn:E; [|reflexivity]. rewrite (Hg _ E) in G. discriminate.
Qed.

Lemma disj_grow_cells st st' s n :
  (forall x, has_space st' x = has_space st x) ->
  (forall x m, has_ref st' x m = has_ref st x m) ->
  st_grefs st' = st_grefs st ->
  (forall x m, has_space st x = true -> has_cells st' x m = true ->
               has_cells st x m = true \/ (m = n /\ (x = s \/ In s (ancs st x)))) ->
  (has_ref st s n = false /\ has_child st s n = false) ->
  (forall d, In d (subs st s) -> has_ref st d n = false /\ has_child st d n = false) ->
  disj st -> disj st'.
Proof.
  intros Hs Hr Hg Hc Hn Hsub (D1 & D2 & D3).
  assert (Hch : forall p m, has_child st' p m = has_child st p m) by (intros p m; apply Hs).
  split; [|split].
  - intros p m Hp H. rewrite Hs in Hp. rewrite Hr, Hch.
    destruct (Hc _ _ Hp H) as [H'|(-> & [->|I])]; [apply D1; auto|exact Hn|].
    apply Hsub. apply subs_spec. split; [apply memb_In, Hp|exact I].
  - intros p m Hp H. rewrite Hs in Hp. rewrite Hr in H. rewrite Hch. apply D2; auto.
  - intros m H. rewrite Hch in H. rewrite Hg. apply D3, H.
Qed.

Lemma disj_grow_refs st st' s n :
  (forall x, has_space st' x = has_space st x) ->
  (forall x m, has_cells st' x m = has_cells st x m) ->
  st_grefs st' = st_grefs st ->
  (forall x m, has_space st x = true -> has_ref st' x m = true ->
               has_ref st x m = true \/ (m = n /\ (x = s \/ In s (ancs st x)))) ->
  (has_cells st s n = false /\ has_child st s n = false) ->
  (forall d, In d (subs st s) -> has_cells st d n = false /\ has_child st d n = false) ->
  disj st -> disj st'.
Proof.
  intros Hs Hc Hg Hr Hn Hsub (D1 & D2 & D3).
  assert (Hch : forall p m, has_child st' p m = has_child st p m) by (intros p m; apply Hs).
  assert (X : forall p, has_space st p = true -> p = s \/ In s (ancs st p) ->
                        has_cells st p n = false /\ has_child st p n = false).
  { intros p Hp [->|I]; [exact Hn|]. apply Hsub. apply subs_spec. split; [apply memb_In, Hp|exact I]. }
  split; [|split].
  - intros p m Hp H. rewrite Hs in Hp. rewrite Hc in H. rewrite Hch. destruct (D1 _ _ Hp H) as [R C].
    split; [|exact C]. destruct (has_ref st' p m) eqn:E; [|reflexivity].
    destruct (Hr _ _ Hp E) as [E'|(-> & I)]; [congruence|]. destruct (X _ Hp I). congruence.
  - intros p m Hp H. rewrite Hs in Hp. rewrite Hch.
    destruct (Hr _ _ Hp H) as [H'|(-> & I)]; [apply D2; auto|]. apply (X _ Hp I).
  - intros m H. rewrite Hch in H. rewrite Hg. apply D3, H.
Qed.

(** ---- an update of the cells / references of one space ---- *)
Lemma disj_upd_cells st s G n :
  disj st ->
  (forall sd, s_refs (G sd) = s_refs sd) -> (forall sd, s_bases (G sd) = s_bases sd) ->
  (forall sd k, has_key k (s_cells (G sd)) = true -> has_key k (s_cells sd) = true \/ k = n) ->
  (has_ref st s n = false /\ has_child st s n = false) ->
  (forall d, In d (subs st s) -> has_ref st d n = false /\ has_child st d n = false) ->
  disj (upd_space st s G).
Proof.
  intros D Hr Hb Hk Hn Hsub. apply (disj_grow_cells st _ s n); auto.
  - intros x. apply has_space_upd.
  - intros x m. apply has_ref_upd_cells; auto.
  - intros x m _. apply has_cells_upd_grow; auto.
Qed.

Lemma disj_upd_refs st s G n :
  disj st ->
  (forall sd, s_cells (G sd) = s_cells sd) -> (forall sd, s_bases (G sd) = s_bases sd) ->
  (forall sd k, has_key k (s_refs (G sd)) = true -> has_key k (s_refs sd) = true \/ k = n) ->
  (has_cells st s n = false /\ has_child st s n = false) ->
  (forall d, In d (subs st s) -> has_cells st d n = false /\ has_child st d n = false) ->
  disj (upd_space st s G).
Proof.
  intros D Hc Hb Hk Hn Hsub. apply (disj_grow_refs st _ s n); auto.
  - intros x. apply has_space_upd.
  - intros x m. apply has_cells_upd_refs; auto.
  - intros x m _. apply has_ref_upd_grow; auto.
Qed.

Lemma upd_space_twice st s f g : upd_space (upd_space st s f) s g = upd_space st s (fun x => g (f x)).
Proof. unfold upd_space. simpl. rewrite upd_upd. reflexivity. Qed.

Lemma in_namespace_false st s n : in_namespace st s n = false ->
  has_cells st s n = false /\ has_ref st s n = false /\ has_child st s n = false /\ has_gref st n = false.
Proof.
  unfold in_namespace, in_refs_chain. intros H.
  apply orb_false_iff in H. destruct H as [H H3]. apply orb_false_iff in H. destruct H as [H1 H].
  apply orb_false_iff in H. destruct H as [H H4]. apply orb_false_iff in H. tauto.
Qed.

Lemma can_add_cells_elim st s n : can_add_cells st s n = true ->
  (has_ref st s n = false /\ has_child st s n = false)
  /\ (forall d, In d (subs st s) -> has_ref st d n = false /\ has_child st d n = false).
Proof.
  unfold can_add_cells. intros H. apply andb_true_iff in H. destruct H as [H1 H2]. split.
  - apply negb_true_iff in H1. apply in_namespace_false in H1. tauto.
  - rewrite forallb_forall in H2. intros d I. specialize (H2 _ I). apply andb_true_iff in H2.
    rewrite !negb_true_iff in H2. exact H2.
Qed.

Lemma can_add_ref_elim st s n : can_add_ref st s n = true ->
  (has_cells st s n = false /\ has_child st s n = false)
  /\ (forall d, In d (subs st s) -> has_cells st d n = false /\ has_child st d n = false).
Proof.
  unfold can_add_ref. intros H. apply andb_true_iff in H. destruct H as [H1 H2].
  apply andb_true_iff in H1. rewrite !negb_true_iff in H1. split; [exact H1|].
  rewrite forallb_forall in H2. intros d I. specialize (H2 _ I).
  apply andb_true_iff in H2. destruct H2 as [H2 H3]. apply andb_true_iff in H2.
  rewrite !negb_true_iff in *. tauto.
Qed.

Lemma can_rename_cells_elim st s n : can_rename_cells st s n = true ->
  (has_ref st s n = false /\ has_child st s n = false)
  /\ (forall d, In d (subs st s) -> has_ref st d n = false /\ has_child st d n = false).
Proof.
  unfold can_rename_cells. intros H. apply andb_true_iff in H. destruct H as [H1 H2]. split.
  - apply negb_true_iff in H1. apply in_namespace_false in H1. tauto.
  - rewrite forallb_forall in H2. intros d I. specialize (H2 _ I).
    apply andb_true_iff in H2. destruct H2 as [H2 H3]. apply andb_true_iff in H2.
    rewrite !negb_true_iff in *. tauto.
Qed.

(** a space that has the name as a cells: the name is no reference / child
    space there nor in any sub space *)
Lemma has_cells_room st s n : wf st -> disj st -> has_space st s = true -> has_cells st s n = true ->
  (has_ref st s n = false /\ has_child st s n = false)
  /\ (forall d, In d (subs st s) -> has_ref st d n = false /\ has_child st d n = false).
Proof.
  intros W (D1 & _) Hs H. split; [apply D1; auto|]. intros d I. apply subs_spec in I. destruct I as [K I].
  apply memb_In in K. apply D1; [exact K|]. eapply has_cells_down; eauto.
Qed.

Lemma has_ref_room st s n : wf st -> disj st -> has_space st s = true -> has_ref st s n = true ->
  (has_cells st s n = false /\ has_child st s n = false)
  /\ (forall d, In d (subs st s) -> has_cells st d n = false /\ has_child st d n = false).
Proof.
  intros W (D1 & D2 & _) Hs H.
  assert (X : forall x, has_space st x = true -> has_ref st x n = true ->
                        has_cells st x n = false /\ has_child st x n = false).
  { intros x Hx Hr. split; [|apply D2; auto]. destruct (has_cells st x n) eqn:E; [|reflexivity].
    destruct (D1 _ _ Hx E). congruence. }
  split; [apply X; auto|]. intros d I. apply subs_spec in I. destruct I as [K I].
  apply memb_In in K. apply X; [exact K|]. eapply has_ref_down; eauto.
Qed.
