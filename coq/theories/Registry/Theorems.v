(** Registry layer — the operation-level lemmas and the statements used by Props/C19.v *)
From Coq Require Import List String Ascii Bool Arith Lia.
From MX Require Import Registry.Model Registry.ProofsBase Registry.Proofs.
Import ListNotations.
Open Scope string_scope.

Arguments valid_name : simpl never.

(** ** consequences of the case lemmas *)
Lemma new_model_case_good x s name s' o :
  Inv s -> new_model_case x s name (s', o) -> Inv s' /\ keeps s s'.
Proof.
  intros HI H. inversion H; subst; clear H.
  - split.
    + apply inv_added; [now apply inv_cnt_model|apply valid_auto|assumption].
    + eapply keeps_trans; [apply (keeps_same_reg s (set_cnt_model c' s)); reflexivity|].
      now apply keeps_added.
  - split; [assumption|apply keeps_refl].
  - split; [now apply inv_added|now apply keeps_added].
  - assert (Hv : valid_name n = true) by (eapply (inv_valid s HI); eauto).
    match goal with Hb : has_key (nm n "_BAK" c') (reg s) = false |- _ => pose proof Hb as Hbf end.
    assert (Hne : nm n "_BAK" c' <> n).
    { intros Heq. rewrite Heq in Hbf. apply has_key_false in Hbf. congruence. }
    assert (HI1 : Inv (renamed (set_cnt_bak c' s) n (nm n "_BAK" c') m)).
    { apply inv_renamed; [now apply inv_cnt_bak|assumption|now apply valid_bak|assumption]. }
    assert (Hf : has_key n (reg (renamed (set_cnt_bak c' s) n (nm n "_BAK" c') m)) = false).
    { apply has_key_renamed_old; assumption. }
    split.
    + now apply inv_added.
    + eapply keeps_trans; [apply (keeps_same_reg s (set_cnt_bak c' s)); reflexivity|].
      eapply keeps_trans; [apply keeps_renamed; eassumption|]. now apply keeps_added.
Qed.

Lemma rename_case_good x s new old ro h s' o :
  Inv s -> lookup old (reg s) = Some h -> rename_case x s new old ro h (s', o) ->
  Inv s' /\ keeps s s'.
Proof.
  intros HI Hold H. inversion H; subst; clear H.
  - split; [assumption|apply keeps_refl].
  - split; [assumption|apply keeps_refl].
  - split; [now apply inv_renamed|now apply keeps_renamed].
  - split; [assumption|apply keeps_refl].
  - assert (Hv : valid_name new = true) by (eapply (inv_valid s HI); eauto).
    match goal with Hb : has_key (nm new "_BAK" c') (reg s) = false |- _ => pose proof Hb as Hbf end.
    assert (Hne : nm new "_BAK" c' <> new).
    { intros Heq. rewrite Heq in Hbf. apply has_key_false in Hbf. congruence. }
    assert (Hbo : nm new "_BAK" c' <> old).
    { intros Heq. rewrite Heq in Hbf. apply has_key_false in Hbf. congruence. }
    assert (HI1 : Inv (renamed (set_cnt_bak c' s) new (nm new "_BAK" c') m)).
    { apply inv_renamed; [now apply inv_cnt_bak|assumption|now apply valid_bak|assumption]. }
    assert (Hf : has_key new (reg (renamed (set_cnt_bak c' s) new (nm new "_BAK" c') m)) = false).
    { apply has_key_renamed_old; assumption. }
    assert (Ho : lookup old (reg (renamed (set_cnt_bak c' s) new (nm new "_BAK" c') m)) = Some h).
    { rewrite lookup_renamed by assumption.
      assert (E1 : String.eqb old (nm new "_BAK" c') = false) by (apply eqb_false_neq; congruence).
      assert (E2 : String.eqb old new = false) by (apply eqb_false_neq; congruence).
      rewrite E1, E2. exact Hold. }
    split.
    + now apply inv_renamed.
    + eapply keeps_trans; [apply (keeps_same_reg s (set_cnt_bak c' s)); reflexivity|].
      eapply keeps_trans; [apply keeps_renamed; eassumption|]. now apply keeps_renamed.
Qed.

Lemma new_model_case_out x s name s' o : new_model_case x s name (s', o) -> o <> OutOfFuel.
Proof. intros H. inversion H; subst; discriminate. Qed.

Lemma rename_case_out x s new old ro h s' o : rename_case x s new old ro h (s', o) -> o <> OutOfFuel.
Proof. intros H. inversion H; subst; discriminate. Qed.

(** ** read_model *)
Definition read_target (saved : string) (name : option string) : string :=
  match name with
  | Some n => if String.eqb n "" then saved else n
  | None => saved
  end.

Lemma op_read_spec x s slot name saved :
  Inv s -> 1 <= x -> nlookup slot (files s) = Some saved ->
  exists c', cnt_model s < c' /\ has_key (nm "" "Model" c') (reg s) = false /\
    let tmp := nm "" "Model" c' in
    let s1 := added (set_cnt_model c' s) tmp in
    let target := read_target saved name in
    (exists s2, rename_case x s1 target tmp true (next s) (s2, Done) /\
                op_read x s slot name = (s2, Done))
    \/ (valid_name target = false /\
        op_read x s slot name = (set_cur None (set_cnt_model c' s), Raised EInvalid)).
Proof.
  intros HI Hx Hf.
  destruct (new_model_auto x s None HI Hx (or_introl eq_refl)) as [c' [Hc [Hfree Hnew]]].
  exists c'. split; [exact Hc|]. split; [exact Hfree|]. intros tmp s1 target.
  assert (HI1 : Inv s1).
  { apply inv_added; [now apply inv_cnt_model|apply valid_auto|exact Hfree]. }
  assert (Hl1 : lookup tmp (reg s1) = Some (next s)).
  { unfold s1. rewrite lookup_added, String.eqb_refl. reflexivity. }
  assert (Hn1 : nlookup (next s) (names s1) = Some tmp).
  { unfold s1, added. simpl. apply nlookup_nset_eq. }
  pose proof (rename_model_spec x s1 target tmp true (next s) HI1 Hx Hl1) as Hr.
  unfold op_read. rewrite Hf, Hnew. unfold bind. fold tmp. fold s1. rewrite Hn1.
  fold (read_target saved name). fold target.
  destruct (rename_model x s1 target tmp true) as [s2 o] eqn:Er.
  inversion Hr; subst.
  - left. exists s1. split; [rewrite H0 at 1; now apply RN_same|reflexivity].
  - right. split; [assumption|].
    rewrite (close_model_open s1 (next s) tmp Hn1 Hl1). simpl.
    unfold set_next, set_names, set_cur, set_cnt_model. simpl.
    rewrite remove_aset_fresh by exact Hfree.
    rewrite nremove_nset_fresh.
    + rewrite Nat.eqb_refl. reflexivity.
    + destruct (nlookup (next s) (names s)) eqn:E; [|reflexivity].
      apply (inv_bound s HI) in E. lia.
  - left. eexists. split; [|reflexivity]. now apply RN_free.
  - discriminate.
  - left. eexists. split; [|reflexivity]. eapply RN_clash; eauto.
Qed.

(** ** every step *)
Definition good (s s' : state) : Prop := Inv s' /\ keeps s s'.

Lemma good_refl s : Inv s -> good s s.
Proof. intros H. split; [exact H|apply keeps_refl]. Qed.

Lemma step_good_nonclose x s o :
  Inv s -> 1 <= x -> (forall h, o <> Close h) ->
  good s (fst (step_x x s o)) /\ snd (step_x x s o) <> OutOfFuel.
Proof.
  intros HI Hx Hnc. destruct o as [name|h new ro|h|h slot|slot name|name| |h sc]; simpl.
  - pose proof (new_model_spec x s name HI Hx) as H.
    destruct (new_model x s name) as [s' o]. split.
    + eapply new_model_case_good; eauto.
    + eapply new_model_case_out; eauto.
  - unfold op_rename. destruct (nlookup h (names s)) as [old|] eqn:En; simpl.
    2:{ split; [now apply good_refl|discriminate]. }
    destruct (String.eqb new old); simpl.
    { split; [now apply good_refl|discriminate]. }
    destruct (is_open s h) eqn:Eo; simpl.
    2:{ split; [now apply good_refl|discriminate]. }
    apply is_open_name in Eo. destruct Eo as [k [Hk Hl]].
    assert (k = old) by congruence. subst k.
    pose proof (rename_model_spec x s new old ro h HI Hx Hl) as H.
    destruct (rename_model x s new old ro) as [s' o]. split.
    + eapply rename_case_good; eauto.
    + eapply rename_case_out; eauto.
  - exfalso. eapply Hnc. reflexivity.
  - unfold op_write. destruct (nlookup h (names s)); simpl.
    2:{ split; [now apply good_refl|discriminate]. }
    destruct (is_open s h); simpl.
    + split; [|discriminate]. split; [now apply inv_files|apply keeps_same_reg; reflexivity].
    + split; [now apply good_refl|discriminate].
  - destruct (nlookup slot (files s)) as [saved|] eqn:Ef.
    2:{ unfold op_read. rewrite Ef. simpl. split; [now apply good_refl|discriminate]. }
    destruct (op_read_spec x s slot name saved HI Hx Ef) as [c' [Hc [Hfree H]]].
    cbv zeta in H.
    assert (HI1 : Inv (added (set_cnt_model c' s) (nm "" "Model" c'))).
    { apply inv_added; [now apply inv_cnt_model|apply valid_auto|exact Hfree]. }
    assert (Hk1 : keeps s (added (set_cnt_model c' s) (nm "" "Model" c'))).
    { eapply keeps_trans; [apply (keeps_same_reg s (set_cnt_model c' s)); reflexivity|].
      now apply keeps_added. }
    destruct H as [[s2 [Hr ->]]|[Hv ->]]; simpl.
    + split; [|discriminate].
      assert (Hl1 : lookup (nm "" "Model" c') (reg (added (set_cnt_model c' s) (nm "" "Model" c'))) = Some (next s)).
      { rewrite lookup_added, String.eqb_refl. reflexivity. }
      destruct (rename_case_good _ _ _ _ _ _ _ _ HI1 Hl1 Hr) as [HI2 Hk2].
      split; [exact HI2|eapply keeps_trans; eauto].
    + split; [|discriminate]. split.
      * destruct HI as [H1 H2 H3 H4 H5]. constructor; try assumption. simpl. discriminate.
      * apply keeps_same_reg. reflexivity.
  - unfold op_setcur. destruct (lookup name (reg s)) as [m|] eqn:El; simpl.
    + split; [|discriminate]. split; [|apply keeps_same_reg; reflexivity].
      destruct HI as [H1 H2 H3 H4 H5]. constructor; try assumption.
      simpl. intros c Hc. injection Hc as <-.
      unfold is_open. simpl. rewrite (H2 _ _ El), El. apply Nat.eqb_refl.
    + split; [now apply good_refl|discriminate].
  - destruct (cur s); simpl.
    + split; [now apply good_refl|discriminate].
    + pose proof (new_model_spec x s None HI Hx) as H.
      destruct (new_model x s None) as [s' o]. split.
      * eapply new_model_case_good; eauto.
      * eapply new_model_case_out; eauto.
  - destruct (sc && is_open s h) eqn:E; simpl.
    + split; [|discriminate]. split; [|apply keeps_same_reg; reflexivity].
      apply andb_true_iff in E. destruct E as [_ E].
      destruct HI as [H1 H2 H3 H4 H5]. constructor; try assumption.
      simpl. intros c Hc. injection Hc as <-. exact E.
    + split; [now apply good_refl|discriminate].
Qed.

(** close: the three outcomes *)
Lemma close_cases s h :
  Inv s ->
  (is_open s h = true /\ exists k, nlookup h (names s) = Some k /\ lookup k (reg s) = Some h /\
     close_model s h = (closed s k h, Done))
  \/ (is_open s h = false /\ exists o, close_model s h = (s, o) /\ o <> OutOfFuel).
Proof.
  intros HI. destruct (is_open s h) eqn:Eo.
  - left. split; [reflexivity|]. apply is_open_name in Eo. destruct Eo as [k [Hn Hl]].
    exists k. repeat split; try assumption. now apply close_model_open.
  - right. split; [reflexivity|]. unfold is_open in Eo. unfold close_model.
    destruct (nlookup h (names s)) as [k|]; [|eexists; split; [reflexivity|discriminate]].
    destruct (lookup k (reg s)) as [m|]; [|eexists; split; [reflexivity|discriminate]].
    rewrite Eo. eexists; split; [reflexivity|discriminate].
Qed.

Lemma step_inv x s o : Inv s -> 1 <= x -> Inv (fst (step_x x s o)).
Proof.
  intros HI Hx. destruct o as [name|h new ro|h|h slot|slot name|name| |h sc];
    try (apply step_good_nonclose; [assumption|assumption|intros h0; discriminate]).
  simpl. destruct (close_cases s h HI) as [[_ [k [Hn [Hl ->]]]]|[_ [e [-> _]]]]; simpl.
  - now apply inv_closed.
  - assumption.
Qed.

Lemma step_no_fuel_out x s o : Inv s -> 1 <= x -> snd (step_x x s o) <> OutOfFuel.
Proof.
  intros HI Hx. destruct o as [name|h new ro|h|h slot|slot name|name| |h sc];
    try (apply step_good_nonclose; [assumption|assumption|intros h0; discriminate]).
  simpl. destruct (close_cases s h HI) as [[_ [k [Hn [Hl ->]]]]|[_ [e [-> Hne]]]]; simpl; [discriminate|exact Hne].
Qed.

Lemma run_inv s ops : Inv s -> Inv (run s ops).
Proof.
  revert s. induction ops as [|o t IH]; intros s HI; simpl; [exact HI|].
  apply IH. apply step_inv; [exact HI|lia].
Qed.

(** ** registered models, in list form *)
Definition registered (s : state) (m : mid) : Prop := In m (map snd (reg s)).

Lemma lookup_in {V} k (v : V) l : lookup k l = Some v -> In (k, v) l.
Proof.
  induction l as [|[k' v'] t IH]; simpl; [discriminate|].
  destruct (String.eqb k k') eqn:E.
  - apply String.eqb_eq in E. intros H. injection H as <-. subst. now left.
  - intros H. right. auto.
Qed.

Lemma in_lookup {V} k (v : V) l : NoDup (map fst l) -> In (k, v) l -> lookup k l = Some v.
Proof.
  induction l as [|[k' v'] t IH]; simpl; intros Hnd Hin; [tauto|].
  inversion Hnd as [|a t' Ha Ht]; subst.
  destruct Hin as [Heq|Hin].
  - injection Heq as -> ->. now rewrite String.eqb_refl.
  - destruct (String.eqb k k') eqn:E.
    + apply String.eqb_eq in E. subst. exfalso. apply Ha.
      apply in_map_iff. exists (k', v). split; [reflexivity|exact Hin].
    + auto.
Qed.

Lemma open_registered s m : open s m -> registered s m.
Proof.
  intros [k Hk]. apply lookup_in in Hk. unfold registered.
  apply in_map_iff. exists (k, m). split; [reflexivity|exact Hk].
Qed.

Lemma registered_open s m : Inv s -> registered s m -> open s m.
Proof.
  intros HI Hr. unfold registered in Hr. apply in_map_iff in Hr.
  destruct Hr as [[k m'] [Heq Hin]]. simpl in Heq. subst m'.
  exists k. apply in_lookup; [apply (inv_nodup s HI)|exact Hin].
Qed.

Lemma NoDup_vals {V} (l : list (string * V)) :
  NoDup (map fst l) ->
  (forall k1 k2 m, lookup k1 l = Some m -> lookup k2 l = Some m -> k1 = k2) ->
  NoDup (map snd l).
Proof.
  induction l as [|[k v] t IH]; simpl; intros Hnd Hinj; [constructor|].
  inversion Hnd as [|a t' Ha Ht]; subst. constructor.
  - intros Hin. apply in_map_iff in Hin. destruct Hin as [[k' v'] [Heq Hin]]. simpl in Heq. subst v'.
    assert (Hk : k' <> k).
    { intros ->. apply Ha. apply in_map_iff. exists (k, v). split; [reflexivity|exact Hin]. }
    assert (E : k' = k).
    { apply (Hinj k' k v).
      - apply eqb_false_neq in Hk. rewrite Hk. now apply in_lookup.
      - now rewrite String.eqb_refl. }
    contradiction.
  - apply IH; [exact Ht|]. intros k1 k2 m H1 H2.
    assert (N1 : k1 <> k).
    { intros ->. apply Ha. apply lookup_in in H1. apply in_map_iff. exists (k, m). split; [reflexivity|exact H1]. }
    assert (N2 : k2 <> k).
    { intros ->. apply Ha. apply lookup_in in H2. apply in_map_iff. exists (k, m). split; [reflexivity|exact H2]. }
    apply (Hinj k1 k2 m).
    + apply eqb_false_neq in N1. now rewrite N1.
    + apply eqb_false_neq in N2. now rewrite N2.
Qed.

(** ** statements for Props/C19.v *)
Definition reachable (s : state) : Prop := exists cm cb ops, s = run (init cm cb) ops.

Lemma reachable_inv s : reachable s -> Inv s.
Proof. intros [cm [cb [ops ->]]]. apply run_inv, inv_init. Qed.

(** registry invariant, for every operation sequence *)
Lemma reg_inv_all cm cb ops :
  let s := run (init cm cb) ops in
  NoDup (map fst (reg s)) /\ NoDup (map snd (reg s))
  /\ (forall k m, In (k, m) (reg s) -> nlookup m (names s) = Some k /\ valid_name k = true /\ m < next s)
  /\ (forall c, cur s = Some c -> registered s c).
Proof.
  intros s. assert (HI : Inv s) by (apply run_inv, inv_init).
  split; [apply (inv_nodup s HI)|]. split.
  - apply NoDup_vals; [apply (inv_nodup s HI)|]. intros k1 k2 m H1 H2. eapply open_inj; eauto.
  - split.
    + intros k m Hin. apply in_lookup in Hin; [|apply (inv_nodup s HI)].
      pose proof (inv_name s HI _ _ Hin) as Hn. repeat split.
      * exact Hn.
      * eapply (inv_valid s HI); eauto.
      * eapply (inv_bound s HI); eauto.
    + intros c Hc. apply open_registered, is_open_open, (inv_cur s HI). exact Hc.
Qed.

(** no model is dropped *)
Lemma no_drop_all cm cb ops o m :
  let s := run (init cm cb) ops in
  registered s m -> o <> Close m -> registered (fst (step s o)) m.
Proof.
  intros s Hr Hne. assert (HI : Inv s) by (apply run_inv, inv_init).
  apply registered_open in Hr; [|exact HI]. apply open_registered.
  destruct o as [name|h new ro|h|h slot|slot name|name| |h0 sc];
    try (apply (step_good_nonclose 1 s); [assumption|lia|intros h1; discriminate|assumption]).
  unfold step. simpl.
  destruct (close_cases s h HI) as [[_ [k [Hn [Hl ->]]]]|[_ [e [-> _]]]]; simpl; [|exact Hr].
  destruct Hr as [k' Hk']. exists k'. rewrite lookup_closed.
  assert (k' <> k).
  { intros ->. assert (m = h) by congruence. subst. now apply Hne. }
  apply eqb_false_neq in H. now rewrite H.
Qed.

(** close removes exactly that model *)
Lemma close_exact_all cm cb ops h :
  let s := run (init cm cb) ops in
  registered s h ->
  exists s', step s (Close h) = (s', Done)
    /\ (forall m, registered s' m <-> registered s m /\ m <> h)
    /\ (forall k m, m <> h -> (lookup k (reg s') = Some m <-> lookup k (reg s) = Some m))
    /\ names s' = names s /\ next s' = next s.
Proof.
  intros s Hr. assert (HI : Inv s) by (apply run_inv, inv_init).
  apply registered_open in Hr; [|exact HI]. apply open_is_open in Hr; [|exact HI].
  unfold step. simpl.
  destruct (close_cases s h HI) as [[_ [k [Hn [Hl Hc]]]]|[Hcontra _]]; [|congruence].
  exists (closed s k h). split; [exact Hc|].
  assert (HI' : Inv (closed s k h)) by now apply inv_closed.
  assert (Hlk : forall k0 m, m <> h -> lookup k0 (reg (closed s k h)) = Some m <-> lookup k0 (reg s) = Some m).
  { intros k0 m Hm. rewrite lookup_closed. destruct (String.eqb k0 k) eqn:E.
    - apply String.eqb_eq in E. subst. split; [discriminate|]. intros H. congruence.
    - tauto. }
  split; [|split; [exact Hlk|split; reflexivity]].
  intros m. split.
  - intros Hm. apply registered_open in Hm; [|exact HI']. destruct Hm as [k0 Hk0].
    rewrite lookup_closed in Hk0. destruct (String.eqb k0 k) eqn:E; [discriminate|].
    split; [apply open_registered; now exists k0|].
    intros Heq. subst m. apply eqb_false_neq in E. apply E. exact (open_inj s k0 k h HI Hk0 Hl).
  - intros [Hm Hne]. apply registered_open in Hm; [|exact HI]. destruct Hm as [k0 Hk0].
    apply open_registered. exists k0. now apply Hlk.
Qed.

(** the name an operation wants to give to a (new or renamed) model *)
Definition claims (s : state) (o : op) : option string :=
  match o with
  | NewModel (Some n) => Some n
  | Rename h n true =>
      if is_open s h && negb (String.eqb n (name_of s h)) then Some n else None
  | Read slot name =>
      match nlookup slot (files s) with
      | Some saved => Some (read_target saved name)
      | None => None
      end
  | _ => None
  end.

Definition bak (n : string) (c : nat) : string := n ++ "_BAK" ++ dec c.

Lemma rename_case_clash_inv x s new old h s' m :
  rename_case x s new old true h (s', Done) -> new <> old -> lookup new (reg s) = Some m ->
  exists c, cnt_bak s < c /\ has_key (nm new "_BAK" c) (reg s) = false
    /\ s' = renamed (renamed (set_cnt_bak c s) new (nm new "_BAK" c) m) old new h.
Proof.
  intros H Hne Hl. inversion H; subst; try contradiction; try discriminate.
  - exfalso. match goal with Hf : has_key new (reg s) = false |- _ => apply has_key_false in Hf; congruence end.
  - match goal with Hm : lookup new (reg s) = Some ?mm |- _ => assert (mm = m) by congruence; subst mm end.
    eexists. split; [eassumption|]. split; [eassumption|reflexivity].
Qed.

Lemma new_model_case_clash_inv x s n s' m :
  new_model_case x s (Some n) (s', Done) -> Inv s -> lookup n (reg s) = Some m ->
  exists c, cnt_bak s < c /\ has_key (nm n "_BAK" c) (reg s) = false
    /\ s' = added (renamed (set_cnt_bak c s) n (nm n "_BAK" c) m) n.
Proof.
  intros H HI Hl. inversion H; subst.
  - exfalso. match goal with Hd : _ \/ _ |- _ => destruct Hd as [Hd|Hd]; [discriminate|injection Hd as Hd] end.
    subst n. apply (inv_valid s HI) in Hl. discriminate.
  - exfalso. match goal with Hs : Some n = Some _ |- _ => injection Hs as Hs; subst end.
    match goal with Hf : has_key _ (reg s) = false |- _ => apply has_key_false in Hf; congruence end.
  - match goal with Hs : Some n = Some _ |- _ => injection Hs as Hs; subst end.
    match goal with Hm : lookup _ (reg s) = Some ?mm |- _ => assert (mm = m) by congruence; subst mm end.
    eexists. split; [eassumption|]. split; [eassumption|reflexivity].
Qed.

Lemma clash_after_added s1 n bn m :
  lookup bn (reg s1) = Some m -> nlookup m (names s1) = Some bn -> bn <> n -> m < next s1 ->
  lookup bn (reg (added s1 n)) = Some m /\ name_of (added s1 n) m = bn
  /\ lookup n (reg (added s1 n)) = Some (next s1) /\ next s1 <> m.
Proof.
  intros Hl Hn Hne Hb. rewrite !lookup_added, String.eqb_refl.
  apply eqb_false_neq in Hne. rewrite Hne. repeat split; try assumption; try lia.
  unfold name_of, added. simpl. rewrite nlookup_nset_neq by lia. now rewrite Hn.
Qed.

Lemma renamed_bak_facts s n c m :
  Inv s -> lookup n (reg s) = Some m -> has_key (nm n "_BAK" c) (reg s) = false ->
  let s1 := renamed (set_cnt_bak c s) n (nm n "_BAK" c) m in
  Inv s1 /\ lookup (nm n "_BAK" c) (reg s1) = Some m /\ nlookup m (names s1) = Some (nm n "_BAK" c)
  /\ nm n "_BAK" c <> n /\ has_key n (reg s1) = false.
Proof.
  intros HI Hl Hfree s1.
  assert (Hne : nm n "_BAK" c <> n).
  { intros Heq. rewrite Heq in Hfree. apply has_key_false in Hfree. congruence. }
  assert (HI1 : Inv s1).
  { apply inv_renamed; [now apply inv_cnt_bak|assumption| |assumption].
    apply valid_bak. eapply (inv_valid s HI); eauto. }
  assert (Hlb : lookup (nm n "_BAK" c) (reg s1) = Some m).
  { unfold s1. rewrite lookup_renamed by assumption. now rewrite String.eqb_refl. }
  split; [exact HI1|]. split; [exact Hlb|]. split; [apply (inv_name s1 HI1); exact Hlb|].
  split; [exact Hne|]. apply has_key_renamed_old; assumption.
Qed.

(** a clashing model keeps its identity under a _BAKn name *)
Lemma clash_backup_all cm cb ops o n m s' :
  let s := run (init cm cb) ops in
  claims s o = Some n -> lookup n (reg s) = Some m -> step s o = (s', Done) ->
  exists c m', cnt_bak s < c /\ cnt_bak s' = c
    /\ lookup (bak n c) (reg s') = Some m /\ name_of s' m = bak n c
    /\ lookup n (reg s') = Some m' /\ m' <> m.
Proof.
  intros s Hcl Hl Hst. assert (HI : Inv s) by (apply run_inv, inv_init).
  assert (Hx : 1 <= 1) by lia. unfold step in Hst.
  destruct o as [[name|]|h new ro|h|h slot|slot name|name| |h0 sc]; simpl in Hcl; try discriminate.
  - (* new_model(n) *)
    injection Hcl as ->. simpl in Hst.
    pose proof (new_model_spec 1 s (Some n) HI Hx) as H. rewrite Hst in H.
    destruct (new_model_case_clash_inv _ _ _ _ _ H HI Hl) as [c [Hc [Hbf ->]]].
    destruct (renamed_bak_facts s n c m HI Hl Hbf) as [HI1 [Hlb [Hnb [Hne Hf]]]].
    pose proof (inv_bound _ HI1 _ _ Hnb) as Hb.
    destruct (clash_after_added _ n _ m Hlb Hnb Hne Hb) as [A [B [C D]]].
    exists c, (next s). repeat split; try assumption; try reflexivity.
  - (* rename(n, rename_old=True) *)
    destruct ro; [|discriminate].
    destruct (is_open s h) eqn:Eo; [|discriminate]. simpl in Hcl.
    destruct (String.eqb new (name_of s h)) eqn:En; [discriminate|]. injection Hcl as ->.
    apply is_open_name in Eo. destruct Eo as [old [Hno Hlo]].
    unfold name_of in En. rewrite Hno in En.
    simpl in Hst. unfold op_rename in Hst. rewrite Hno, En in Hst.
    assert (Eo : is_open s h = true) by (apply open_is_open; [exact HI|now exists old]).
    rewrite Eo in Hst.
    pose proof (rename_model_spec 1 s n old true h HI Hx Hlo) as H. rewrite Hst in H.
    apply eqb_false_neq in En.
    destruct (rename_case_clash_inv _ _ _ _ _ _ _ H En Hl) as [c [Hc [Hbf ->]]].
    destruct (renamed_bak_facts s n c m HI Hl Hbf) as [HI1 [Hlb [Hnb [Hne Hf]]]].
    assert (Hbo : nm n "_BAK" c <> old).
    { intros Heq. rewrite Heq in Hbf. apply has_key_false in Hbf. congruence. }
    assert (Hmh : h <> m).
    { intros ->. apply En. eapply (open_inj s); eauto. }
    assert (Hno' : n <> old) by exact En.
    exists c, h. split; [exact Hc|]. split; [reflexivity|]. split; [|split; [|split; [|exact Hmh]]].
    + rewrite lookup_renamed by assumption.
      assert (E1 : String.eqb (nm n "_BAK" c) n = false) by (apply eqb_false_neq; exact Hne).
      assert (E2 : String.eqb (nm n "_BAK" c) old = false) by (apply eqb_false_neq; exact Hbo).
      unfold bak. fold (nm n "_BAK" c). rewrite E1, E2. exact Hlb.
    + unfold name_of.
      change (names (renamed (renamed (set_cnt_bak c s) n (nm n "_BAK" c) m) old n h))
        with (nset h n (names (renamed (set_cnt_bak c s) n (nm n "_BAK" c) m))).
      rewrite nlookup_nset_neq by congruence. rewrite Hnb. reflexivity.
    + rewrite lookup_renamed by assumption. now rewrite String.eqb_refl.
  - (* read_model *)
    destruct (nlookup slot (files s)) as [saved|] eqn:Ef; [|discriminate]. injection Hcl as <-.
    simpl in Hst.
    destruct (op_read_spec 1 s slot name saved HI Hx Ef) as [c1 [Hc1 [Hfree1 H]]]. cbv zeta in H.
    set (tmp := nm "" "Model" c1) in *. set (s1 := added (set_cnt_model c1 s) tmp) in *.
    set (n := read_target saved name) in *.
    destruct H as [[s2 [Hr Heq]]|[_ Heq]]; rewrite Heq in Hst; [|discriminate].
    injection Hst as <-.
    assert (HI1 : Inv s1).
    { apply inv_added; [now apply inv_cnt_model|apply valid_auto|exact Hfree1]. }
    assert (Hnt : n <> tmp).
    { intros Heq2. rewrite Heq2 in Hl. apply has_key_false in Hfree1. fold tmp in Hfree1. congruence. }
    assert (Hl1 : lookup n (reg s1) = Some m).
    { unfold s1. rewrite lookup_added. apply eqb_false_neq in Hnt. now rewrite Hnt. }
    assert (Hlt : lookup tmp (reg s1) = Some (next s)).
    { unfold s1. rewrite lookup_added, String.eqb_refl. reflexivity. }
    destruct (rename_case_clash_inv _ _ _ _ _ _ _ Hr Hnt Hl1) as [c [Hc [Hbf ->]]].
    destruct (renamed_bak_facts s1 n c m HI1 Hl1 Hbf) as [HI2 [Hlb [Hnb [Hne Hf]]]].
    assert (Hbo : nm n "_BAK" c <> tmp).
    { intros Heq2. rewrite Heq2 in Hbf. apply has_key_false in Hbf. congruence. }
    assert (Hmh : next s <> m).
    { intros Heq2. rewrite <- Heq2 in Hl1. apply Hnt. eapply (open_inj s1); eauto. }
    exists c, (next s). split; [exact Hc|]. split; [reflexivity|]. split; [|split; [|split; [|exact Hmh]]].
    + rewrite lookup_renamed by assumption.
      assert (E1 : String.eqb (nm n "_BAK" c) n = false) by (apply eqb_false_neq; exact Hne).
      assert (E2 : String.eqb (nm n "_BAK" c) tmp = false) by (apply eqb_false_neq; exact Hbo).
      unfold bak. fold (nm n "_BAK" c). rewrite E1, E2. exact Hlb.
    + unfold name_of.
      change (names (renamed (renamed (set_cnt_bak c s1) n (nm n "_BAK" c) m) tmp n (next s)))
        with (nset (next s) n (names (renamed (set_cnt_bak c s1) n (nm n "_BAK" c) m))).
      rewrite nlookup_nset_neq by congruence. rewrite Hnb. reflexivity.
    + rewrite lookup_renamed by assumption. now rewrite String.eqb_refl.
Qed.

(** rejected operations change nothing (a failing read_model still consumes an
    automatic name and resets the current model — that is what the code does) *)
Lemma rejected_unchanged_all cm cb ops o e s' :
  let s := run (init cm cb) ops in
  step s o = (s', Raised e) ->
  reg s' = reg s /\ names s' = names s /\ next s' = next s /\ files s' = files s
  /\ cnt_bak s' = cnt_bak s /\ ((forall slot name, o <> Read slot name) -> s' = s).
Proof.
  intros s Hst. assert (HI : Inv s) by (apply run_inv, inv_init).
  assert (Hx : 1 <= 1) by lia. unfold step in Hst.
  assert (Same : s' = s -> reg s' = reg s /\ names s' = names s /\ next s' = next s /\ files s' = files s
     /\ cnt_bak s' = cnt_bak s /\ ((forall slot name, o <> Read slot name) -> s' = s)).
  { intros ->. repeat split; reflexivity || auto. }
  destruct o as [name|h new ro|h|h slot|slot name|name| |h0 sc]; simpl in Hst.
  - pose proof (new_model_spec 1 s name HI Hx) as H. rewrite Hst in H.
    inversion H; subst. now apply Same.
  - unfold op_rename in Hst. destruct (nlookup h (names s)) as [old|] eqn:En.
    2:{ injection Hst as <- _. now apply Same. }
    destruct (String.eqb new old); [discriminate|].
    destruct (is_open s h) eqn:Eo.
    2:{ injection Hst as <- _. now apply Same. }
    apply is_open_name in Eo. destruct Eo as [k [Hk Hl]]. assert (k = old) by congruence. subst k.
    pose proof (rename_model_spec 1 s new old ro h HI Hx Hl) as H. rewrite Hst in H.
    inversion H; subst. now apply Same.
  - destruct (close_cases s h HI) as [[_ [k [Hn [Hl Hc]]]]|[_ [e' [Hc _]]]]; rewrite Hc in Hst.
    + discriminate.
    + injection Hst as <- _. now apply Same.
  - unfold op_write in Hst. destruct (nlookup h (names s)).
    2:{ injection Hst as <- _. now apply Same. }
    destruct (is_open s h); [discriminate|]. injection Hst as <- _. now apply Same.
  - destruct (nlookup slot (files s)) as [saved|] eqn:Ef.
    2:{ unfold op_read in Hst. rewrite Ef in Hst. injection Hst as <- _. now apply Same. }
    destruct (op_read_spec 1 s slot name saved HI Hx Ef) as [c1 [Hc1 [Hfree1 H]]]. cbv zeta in H.
    destruct H as [[s2 [Hr Heq]]|[_ Heq]]; rewrite Heq in Hst; [discriminate|].
    injection Hst as <- _. repeat split; try reflexivity.
    intros Hno. exfalso. eapply Hno. reflexivity.
  - unfold op_setcur in Hst. destruct (lookup name (reg s)); [discriminate|].
    injection Hst as <- _. now apply Same.
  - destruct (cur s); [discriminate|].
    pose proof (new_model_spec 1 s None HI Hx) as H. rewrite Hst in H.
    inversion H; subst; discriminate.
  - destruct (sc && is_open s h0); discriminate.
Qed.

(** renaming onto a taken name without rename_old is refused silently: nothing changes *)
Lemma rename_taken_noop_all cm cb ops h new m :
  let s := run (init cm cb) ops in
  lookup new (reg s) = Some m -> step s (Rename h new false) = (s, Done) \/
  exists e, step s (Rename h new false) = (s, Raised e).
Proof.
  intros s Hl. assert (HI : Inv s) by (apply run_inv, inv_init).
  assert (Hx : 1 <= 1) by lia. unfold step. simpl. unfold op_rename.
  destruct (nlookup h (names s)) as [old|] eqn:En; [|right; eauto].
  destruct (String.eqb new old) eqn:E; [now left|].
  destruct (is_open s h) eqn:Eo; [|right; eauto].
  apply is_open_name in Eo. destruct Eo as [k [Hk Hlo]]. assert (k = old) by congruence. subst k.
  pose proof (rename_model_spec 1 s new old false h HI Hx Hlo) as H.
  destruct (rename_model 1 s new old false) as [s2 o2].
  apply eqb_false_neq in E.
  inversion H; subst; try contradiction; try discriminate.
  - apply (inv_valid s HI) in Hl. congruence.
  - exfalso. match goal with Hf : has_key new (reg s) = false |- _ => apply has_key_false in Hf; congruence end.
  - now left.
Qed.

(** a handle whose model is no longer registered cannot change the registry *)
Lemma stale_handle_all cm cb ops h o :
  let s := run (init cm cb) ops in
  ~ registered s h -> (o = Close h \/ exists new ro, o = Rename h new ro) \/ (exists slot, o = Write h slot) ->
  fst (step s o) = s.
Proof.
  intros s Hnr Ho. assert (HI : Inv s) by (apply run_inv, inv_init).
  assert (Eo : is_open s h = false).
  { destruct (is_open s h) eqn:E; [|reflexivity]. exfalso. apply Hnr, open_registered, is_open_open, E. }
  unfold step. destruct Ho as [[->|[new [ro ->]]]|[slot ->]]; simpl.
  - destruct (close_cases s h HI) as [[Hc _]|[_ [e [-> _]]]]; [congruence|reflexivity].
  - unfold op_rename. destruct (nlookup h (names s)); [|reflexivity].
    destruct (String.eqb new s0); [reflexivity|]. now rewrite Eo.
  - unfold op_write. destruct (nlookup h (names s)); [|reflexivity]. now rewrite Eo.
Qed.

(** fuel: |existing| + 1 suffices, more changes nothing *)
Lemma get_next_indep x p b c ex :
  1 <= x -> get_next (x + List.length ex) p b c ex = get_next (1 + List.length ex) p b c ex.
Proof.
  intros Hx. destruct (get_next (1 + List.length ex) p b c ex) as [r|] eqn:G.
  - eapply get_next_mono; [exact G|lia].
  - exfalso. revert G. apply get_next_fuel. lia.
Qed.

Lemma rename_samename_indep x s name : 1 <= x -> rename_samename x s name = rename_samename 1 s name.
Proof. intros Hx. unfold rename_samename. now rewrite get_next_indep. Qed.

Lemma rename_model_indep x s new old ro : 1 <= x -> rename_model x s new old ro = rename_model 1 s new old ro.
Proof. intros Hx. unfold rename_model. now rewrite rename_samename_indep. Qed.

Lemma new_model_indep x s name : 1 <= x -> new_model x s name = new_model 1 s name.
Proof.
  intros Hx. unfold new_model. rewrite rename_samename_indep by exact Hx.
  destruct (if has_key _ (reg s) then _ else _) as [s1 o1]. unfold bind.
  destruct o1; try reflexivity. now rewrite get_next_indep.
Qed.

Lemma step_fuel_indep x s o : 1 <= x -> step_x x s o = step s o.
Proof.
  intros Hx. unfold step. destruct o; simpl; try reflexivity.
  - now apply new_model_indep.
  - unfold op_rename. destruct (nlookup h (names s)); [|reflexivity].
    destruct (String.eqb new s0); [reflexivity|]. destruct (is_open s h); [|reflexivity].
    now apply rename_model_indep.
  - unfold op_read. destruct (nlookup slot (files s)); [|reflexivity].
    rewrite new_model_indep by exact Hx. destruct (new_model 1 s None) as [s1 o1]. unfold bind.
    destruct o1; try reflexivity. destruct (nlookup (next s) (names s1)); [|reflexivity].
    now rewrite rename_model_indep.
  - destruct (cur s); [reflexivity|]. now apply new_model_indep.
Qed.

Lemma fuel_suffices_all cm cb ops o x :
  let s := run (init cm cb) ops in
  1 <= x -> step_x x s o = step s o /\ snd (step s o) <> OutOfFuel.
Proof.
  intros s Hx. split; [now apply step_fuel_indep|].
  apply step_no_fuel_out; [apply run_inv, inv_init|lia].
Qed.

(** isolation, registry part: an edit inside a model is not a registry operation *)
Lemma edit_registry_unchanged s h sc :
  let s' := fst (step s (Edit h sc)) in
  snd (step s (Edit h sc)) = Done /\ reg s' = reg s /\ names s' = names s /\ next s' = next s
  /\ cnt_model s' = cnt_model s /\ cnt_bak s' = cnt_bak s /\ files s' = files s
  /\ (cur s' = cur s \/ (sc = true /\ is_open s h = true /\ cur s' = Some h)).
Proof.
  unfold step. simpl. destruct (sc && is_open s h) eqn:E; simpl.
  - apply andb_true_iff in E. destruct E as [E1 E2]. repeat split; try reflexivity. right. auto.
  - repeat split; try reflexivity. now left.
Qed.

(** ** the hypotheses are satisfiable on a non-trivial state *)
Definition ex_ops : list op :=
  [NewModel (Some "A"); NewModel (Some "A"); NewModel (Some "A_BAK1"); NewModel None;
   Write 1 0; Rename 3 "A" true; Read 0 None; Close 0; Read 0 (Some "A_BAK2")].

Example ex_run_reg :
  map fst (reg (run (init 0 0) ex_ops)) =
  ["A_BAK1"; "A_BAK3"; "A_BAK4"; "A"; "A_BAK2"].
Proof. vm_compute. reflexivity. Qed.

Example ex_clash :
  let s := run (init 0 0) [NewModel (Some "A"); NewModel (Some "A_BAK1")] in
  claims s (NewModel (Some "A")) = Some "A" /\ lookup "A" (reg s) = Some 0
  /\ lookup (bak "A" 2) (reg (fst (step s (NewModel (Some "A"))))) = Some 0.
Proof. vm_compute. repeat split. Qed.

Example ex_rejected :
  let s := run (init 0 0) [NewModel (Some "A")] in
  step s (Rename 0 "class" true) = (s, Raised EInvalid).
Proof. vm_compute. reflexivity. Qed.

Example ex_stale :
  let s := run (init 0 0) [NewModel (Some "A"); Close 0; NewModel (Some "A")] in
  ~ registered s 0 /\ step s (Close 0) = (s, Done).
Proof. vm_compute. split; [intros [H|[]]; discriminate|reflexivity]. Qed.

(** close on a state with three registered models, one of them a backup *)
Example ex_close :
  let s := run (init 0 0) [NewModel (Some "A"); NewModel (Some "A"); NewModel None] in
  registered s 0 /\ map fst (reg (fst (step s (Close 0)))) = ["A"; "Model1"]
  /\ snd (step s (Close 0)) = Done.
Proof. vm_compute. repeat split. left. reflexivity. Qed.

(** get_next has to skip two taken names: fuel 3+1 is used *)
Example ex_fuel_skip :
  let s := run (init 0 1) [NewModel (Some "A"); NewModel (Some "A_BAK2"); NewModel (Some "A_BAK3")] in
  map fst (reg (fst (step s (NewModel (Some "A"))))) = ["A_BAK2"; "A_BAK3"; "A_BAK4"; "A"]
  /\ get_next 2 "A" "_BAK" 1 (reg s) = None
  /\ get_next 3 "A" "_BAK" 1 (reg s) = Some ("A_BAK4", 4).
Proof. vm_compute. repeat split. Qed.

(** a failing read_model consumes an automatic name and resets the current model only *)
Example ex_read_rejected :
  let s := run (init 0 0) [NewModel (Some "A"); Write 0 0] in
  step s (Read 0 (Some "1x")) = (set_cur None (set_cnt_model 1 s), Raised EInvalid).
Proof. vm_compute. reflexivity. Qed.
