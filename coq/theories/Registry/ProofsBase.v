(** Registry layer — lemmas on association lists, names and [get_next]. *)
From Coq Require Import List String Ascii Bool Arith Lia Decimal DecimalNat DecimalString.
From MX Require Import Registry.Model.
Import ListNotations.
Open Scope string_scope.

Arguments valid_name : simpl never.

(** ** string-keyed association lists *)
Lemma eqb_false_neq a b : String.eqb a b = false <-> a <> b.
Proof. apply String.eqb_neq. Qed.

Lemma lookup_aset_eq {V} k (v : V) l : lookup k (aset k v l) = Some v.
Proof.
  induction l as [|[k' v'] t IH]; simpl.
  - now rewrite String.eqb_refl.
  - destruct (String.eqb k k') eqn:E; simpl; rewrite ?String.eqb_refl; try reflexivity.
    now rewrite E.
Qed.

Lemma lookup_aset_neq {V} k k' (v : V) l : k' <> k -> lookup k' (aset k v l) = lookup k' l.
Proof.
  intros Hne. induction l as [|[k2 v2] t IH]; simpl.
  - apply eqb_false_neq in Hne. now rewrite Hne.
  - destruct (String.eqb k k2) eqn:E; simpl.
    + apply String.eqb_eq in E; subst k2.
      apply eqb_false_neq in Hne. now rewrite Hne.
    + destruct (String.eqb k' k2); [reflexivity|apply IH].
Qed.

Lemma lookup_remove_eq {V} k (l : list (string * V)) : lookup k (remove_key k l) = None.
Proof.
  induction l as [|[k' v'] t IH]; simpl; [reflexivity|].
  destruct (String.eqb k k') eqn:E; [exact IH|]. simpl. now rewrite E.
Qed.

Lemma lookup_remove_neq {V} k k' (l : list (string * V)) :
  k' <> k -> lookup k' (remove_key k l) = lookup k' l.
Proof.
  intros Hne. induction l as [|[k2 v2] t IH]; simpl; [reflexivity|].
  destruct (String.eqb k k2) eqn:E.
  - apply String.eqb_eq in E; subst k2. apply eqb_false_neq in Hne. now rewrite Hne.
  - simpl. destruct (String.eqb k' k2); [reflexivity|exact IH].
Qed.

Lemma has_key_true {V} k (l : list (string * V)) : has_key k l = true <-> exists v, lookup k l = Some v.
Proof.
  unfold has_key. destruct (lookup k l); split; intros H; eauto; try discriminate.
  destruct H as [v H]; discriminate.
Qed.

Lemma has_key_false {V} k (l : list (string * V)) : has_key k l = false <-> lookup k l = None.
Proof. unfold has_key. destruct (lookup k l); split; intros H; congruence. Qed.

Lemma in_keys_has {V} k (l : list (string * V)) : In k (map fst l) <-> has_key k l = true.
Proof.
  unfold has_key. induction l as [|[k' v'] t IH]; simpl.
  - split; [tauto|discriminate].
  - destruct (String.eqb k k') eqn:E.
    + apply String.eqb_eq in E. subst. split; auto.
    + apply eqb_false_neq in E. rewrite <- IH. split; [intros [H|H]; congruence|auto].
Qed.

Lemma keys_aset {V} k (v : V) l :
  map fst (aset k v l) = if has_key k l then map fst l else (map fst l ++ [k])%list.
Proof.
  unfold has_key. induction l as [|[k' v'] t IH]; simpl; [reflexivity|].
  destruct (String.eqb k k') eqn:E; simpl.
  - apply String.eqb_eq in E. now subst.
  - rewrite IH. now destruct (lookup k t).
Qed.

Lemma NoDup_snoc {A} (x : A) l : NoDup l -> ~ In x l -> NoDup (l ++ [x])%list.
Proof.
  induction l as [|a t IH]; simpl; intros Hnd Hni.
  - constructor; [tauto|constructor].
  - inversion Hnd as [|a' t' Ha Ht]; subst. constructor.
    + rewrite in_app_iff. simpl. intros [H|[H|[]]]; [tauto|]. subst. tauto.
    + apply IH; tauto.
Qed.

Lemma NoDup_aset {V} k (v : V) l : NoDup (map fst l) -> NoDup (map fst (aset k v l)).
Proof.
  intros H. rewrite keys_aset. destruct (has_key k l) eqn:E; [exact H|].
  apply NoDup_snoc; [exact H|]. rewrite in_keys_has. congruence.
Qed.

Lemma in_keys_remove {V} k x (l : list (string * V)) :
  In x (map fst (remove_key k l)) -> In x (map fst l).
Proof.
  induction l as [|[k' v'] t IH]; simpl; [tauto|].
  destruct (String.eqb k k'); simpl; tauto.
Qed.

Lemma NoDup_remove {V} k (l : list (string * V)) :
  NoDup (map fst l) -> NoDup (map fst (remove_key k l)).
Proof.
  induction l as [|[k' v'] t IH]; simpl; intros H; [constructor|].
  inversion H as [|a t' Ha Ht]; subst.
  destruct (String.eqb k k'); simpl; [tauto|].
  constructor; [|tauto]. intros Hin. apply Ha. eapply in_keys_remove; eauto.
Qed.

Lemma remove_fresh {V} k (l : list (string * V)) : has_key k l = false -> remove_key k l = l.
Proof.
  unfold has_key. induction l as [|[k' v'] t IH]; simpl; [reflexivity|].
  destruct (String.eqb k k') eqn:E; [discriminate|]. intros H. now rewrite IH.
Qed.

Lemma remove_aset_fresh {V} k (v : V) l :
  has_key k l = false -> remove_key k (aset k v l) = l.
Proof.
  unfold has_key. induction l as [|[k' v'] t IH]; simpl.
  - now rewrite String.eqb_refl.
  - destruct (String.eqb k k') eqn:E; [discriminate|]. intros H. simpl. rewrite E. now rewrite IH.
Qed.

Lemma length_aset_fresh {V} k (v : V) l :
  has_key k l = false -> List.length (aset k v l) = S (List.length l).
Proof.
  unfold has_key. induction l as [|[k' v'] t IH]; simpl; [reflexivity|].
  destruct (String.eqb k k') eqn:E; [discriminate|]. intros H. simpl. now rewrite IH.
Qed.

(** ** nat-keyed association lists *)
Lemma nlookup_nset_eq {V} k (v : V) l : nlookup k (nset k v l) = Some v.
Proof.
  induction l as [|[k' v'] t IH]; simpl.
  - now rewrite Nat.eqb_refl.
  - destruct (Nat.eqb k k') eqn:E; simpl; rewrite ?Nat.eqb_refl; try reflexivity. now rewrite E.
Qed.

Lemma nlookup_nset_neq {V} k k' (v : V) l : k' <> k -> nlookup k' (nset k v l) = nlookup k' l.
Proof.
  intros Hne. induction l as [|[k2 v2] t IH]; simpl.
  - apply Nat.eqb_neq in Hne. now rewrite Hne.
  - destruct (Nat.eqb k k2) eqn:E; simpl.
    + apply Nat.eqb_eq in E; subst k2. apply Nat.eqb_neq in Hne. now rewrite Hne.
    + destruct (Nat.eqb k' k2); [reflexivity|apply IH].
Qed.

Lemma nremove_nset_fresh {V} k (v : V) l : nlookup k l = None -> nremove k (nset k v l) = l.
Proof.
  induction l as [|[k' v'] t IH]; simpl.
  - now rewrite Nat.eqb_refl.
  - destruct (Nat.eqb k k') eqn:E; [discriminate|]. intros H. simpl. rewrite E. now rewrite IH.
Qed.

(** ** names *)
Lemma append_inj_l (p a b : string) : p ++ a = p ++ b -> a = b.
Proof. induction p as [|c p IH]; simpl; intros H; [exact H|]. injection H. exact IH. Qed.

Lemma dec_inj a b : dec a = dec b -> a = b.
Proof.
  unfold dec. intros H.
  assert (Hu : Nat.to_uint a = Nat.to_uint b).
  { apply (f_equal NilEmpty.uint_of_string) in H. rewrite !NilEmpty.usu in H. now injection H. }
  apply (f_equal Nat.of_uint) in Hu. now rewrite !DecimalNat.Unsigned.of_to in Hu.
Qed.

Definition nm (prefix base : string) (c : nat) : string := prefix ++ base ++ dec c.

Lemma nm_inj p b c1 c2 : nm p b c1 = nm p b c2 -> c1 = c2.
Proof. unfold nm. intros H. apply append_inj_l in H. apply append_inj_l in H. now apply dec_inj. Qed.

Lemma all_chars_app p a b : all_chars p (a ++ b) = all_chars p a && all_chars p b.
Proof. induction a as [|c a IH]; simpl; [reflexivity|]. now rewrite IH, andb_assoc. Qed.

Lemma uint_digits d : all_chars is_digit (NilEmpty.string_of_uint d) = true.
Proof. induction d; simpl; try reflexivity; exact IHd. Qed.

Lemma is_digit_id c : is_digit c = true -> id_char c = true.
Proof. unfold id_char. intros ->. now rewrite orb_true_r. Qed.

Lemma all_chars_impl (p q : ascii -> bool) s :
  (forall c, p c = true -> q c = true) -> all_chars p s = true -> all_chars q s = true.
Proof.
  intros Hpq. induction s as [|c s IH]; simpl; [reflexivity|].
  rewrite !andb_true_iff. intros [H1 H2]. auto.
Qed.

Lemma dec_id_chars n : all_chars id_char (dec n) = true.
Proof. unfold dec. eapply all_chars_impl; [exact is_digit_id|apply uint_digits]. Qed.

Lemma contains_us_app a b : contains_us (a ++ b) = contains_us a || contains_us b.
Proof. induction a as [|c a IH]; simpl; [reflexivity|]. now rewrite IH, orb_assoc. Qed.

Lemma keywords_no_us : forallb (fun k => negb (contains_us k)) keywords = true.
Proof. vm_compute. reflexivity. Qed.

Lemma us_not_keyword s : contains_us s = true -> is_keyword s = false.
Proof.
  intros Hs. unfold is_keyword.
  destruct (existsb (String.eqb s) keywords) eqn:E; [|reflexivity].
  apply existsb_exists in E. destruct E as [k [Hin Hk]]. apply String.eqb_eq in Hk. subst k.
  pose proof keywords_no_us as H. rewrite forallb_forall in H. apply H in Hin.
  rewrite Hs in Hin. discriminate.
Qed.

(** a valid name followed by identifier characters containing an underscore is valid *)
Lemma valid_suffix n suf :
  valid_name n = true -> all_chars id_char suf = true -> contains_us suf = true ->
  valid_name (n ++ suf) = true.
Proof.
  unfold valid_name. destruct n as [|c t]; [discriminate|].
  change ((String c t) ++ suf) with (String c (t ++ suf)).
  rewrite !andb_true_iff. intros [[Hc Ht] _] Hs Hu. repeat split; [exact Hc| |].
  - rewrite all_chars_app, Ht, Hs. reflexivity.
  - rewrite us_not_keyword; [reflexivity|].
    change (String c (t ++ suf)) with ((String c t) ++ suf). rewrite contains_us_app, Hu.
    apply orb_true_r.
Qed.

Lemma valid_bak n c : valid_name n = true -> valid_name (nm n "_BAK" c) = true.
Proof.
  intros H. unfold nm. apply valid_suffix; [exact H| |reflexivity].
  rewrite all_chars_app, dec_id_chars. reflexivity.
Qed.

Lemma valid_auto c : valid_name (nm "" "Model" c) = true.
Proof.
  unfold nm, valid_name. change ("" ++ "Model" ++ dec c) with (String "M" ("odel" ++ dec c)).
  cbv beta iota.
  assert (H1 : is_alpha "M" = true) by reflexivity.
  assert (H2 : all_chars id_char ("odel" ++ dec c) = true).
  { rewrite all_chars_app, dec_id_chars. reflexivity. }
  assert (H3 : is_keyword (String "M" ("odel" ++ dec c)) = false).
  { generalize ("odel" ++ dec c). intros t. vm_compute. reflexivity. }
  rewrite H1, H2, H3. reflexivity.
Qed.

(** ** AutoNamer.get_next *)
Lemma get_next_some fuel p b c ex r c' :
  get_next fuel p b c ex = Some (r, c') ->
  c < c' /\ r = nm p b c' /\ has_key r ex = false.
Proof.
  revert c. induction fuel as [|f IH]; intros c; simpl; [discriminate|].
  fold (nm p b (S c)). destruct (has_key (nm p b (S c)) ex) eqn:E.
  - intros H. apply IH in H. destruct H as [H1 H2]. split; [lia|exact H2].
  - intros H. injection H as <- <-. repeat split; [lia|exact E].
Qed.

Lemma get_next_search fuel p b c ex :
  (exists j, j < fuel /\ has_key (nm p b (S (c + j))) ex = false) ->
  get_next fuel p b c ex <> None.
Proof.
  revert c. induction fuel as [|f IH]; intros c [j [Hj Hfree]]; [lia|]. simpl.
  fold (nm p b (S c)). destruct (has_key (nm p b (S c)) ex) eqn:E; [|discriminate].
  apply IH. destruct j as [|j'].
  - rewrite Nat.add_0_r in Hfree. congruence.
  - exists j'. split; [lia|]. now replace (S (S c + j')) with (S (c + S j')) by lia.
Qed.

Lemma free_or_all (f : nat -> bool) F :
  (exists j, j < F /\ f j = false) \/ (forall j, j < F -> f j = true).
Proof.
  induction F as [|F [[j [Hj Hf]]|Hall]].
  - right. intros j Hj. lia.
  - left. exists j. split; [lia|exact Hf].
  - destruct (f F) eqn:E.
    + right. intros j Hj. destruct (Nat.eq_dec j F); [now subst|apply Hall; lia].
    + left. exists F. split; [lia|exact E].
Qed.

Lemma NoDup_map_inj {A B} (f : A -> B) l :
  (forall a b, f a = f b -> a = b) -> NoDup l -> NoDup (map f l).
Proof.
  intros Hinj. induction l as [|a t IH]; simpl; intros H; [constructor|].
  inversion H as [|a' t' Ha Ht]; subst. constructor; [|auto].
  rewrite in_map_iff. intros [y [Hy Hin]]. apply Hinj in Hy. now subst.
Qed.

(** pigeonhole: [F] consecutive candidate names cannot all be taken by fewer than [F] names *)
Lemma candidates_bound {V} p b c F (ex : list (string * V)) :
  (forall j, j < F -> has_key (nm p b (S (c + j))) ex = true) -> F <= List.length ex.
Proof.
  intros Hall.
  set (l := map (fun j => nm p b (S (c + j))) (seq 0 F)).
  assert (Hnd : NoDup l).
  { apply NoDup_map_inj; [|apply seq_NoDup]. intros a0 b0 H. apply nm_inj in H. lia. }
  assert (Hincl : incl l (map fst ex)).
  { intros x Hx. unfold l in Hx. apply in_map_iff in Hx. destruct Hx as [j [<- Hj]].
    apply in_seq in Hj. apply in_keys_has. apply Hall. lia. }
  pose proof (NoDup_incl_length Hnd Hincl) as Hlen.
  unfold l in Hlen. now rewrite !map_length, seq_length in Hlen.
Qed.

(** fuel |existing| + 1 suffices *)
Lemma get_next_fuel fuel p b c ex :
  List.length ex < fuel -> get_next fuel p b c ex <> None.
Proof.
  intros Hlt. apply get_next_search.
  destruct (free_or_all (fun j => has_key (nm p b (S (c + j))) ex) fuel) as [H|H]; [exact H|].
  apply candidates_bound in H. lia.
Qed.

(** the result does not depend on the amount of fuel once it is enough *)
Lemma get_next_mono f1 f2 p b c ex r :
  get_next f1 p b c ex = Some r -> f1 <= f2 -> get_next f2 p b c ex = Some r.
Proof.
  revert f2 c. induction f1 as [|f IH]; intros f2 c; simpl; [discriminate|].
  intros H Hle. destruct f2 as [|f2]; [lia|]. simpl.
  destruct (has_key (p ++ b ++ dec (S c)) ex); [apply IH; [exact H|lia]|exact H].
Qed.
