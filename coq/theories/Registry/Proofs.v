(** Registry layer — invariant, exact effect of every primitive, preservation. *)
From Coq Require Import List String Ascii Bool Arith Lia.
From MX Require Import Registry.Model Registry.ProofsBase.
Import ListNotations.
Open Scope string_scope.

Arguments valid_name : simpl never.

Record Inv (s : state) : Prop := {
  inv_nodup : NoDup (map fst (reg s));
  inv_name : forall k m, lookup k (reg s) = Some m -> nlookup m (names s) = Some k;
  inv_valid : forall k m, lookup k (reg s) = Some m -> valid_name k = true;
  inv_bound : forall m k, nlookup m (names s) = Some k -> m < next s;
  inv_cur : forall c, cur s = Some c -> is_open s c = true
}.

Lemma inv_init cm cb : Inv (init cm cb).
Proof. constructor; simpl; try discriminate. constructor. Qed.

(** ** open handles *)
Lemma is_open_open s h : is_open s h = true -> open s h.
Proof.
  unfold is_open, open. destruct (nlookup h (names s)) as [k|]; [|discriminate].
  destruct (lookup k (reg s)) as [m|] eqn:E; [|discriminate].
  intros H. apply Nat.eqb_eq in H. subst. eauto.
Qed.

Lemma open_is_open s h : Inv s -> open s h -> is_open s h = true.
Proof.
  intros HI [k Hk]. unfold is_open. rewrite (inv_name s HI _ _ Hk), Hk. apply Nat.eqb_refl.
Qed.

Lemma is_open_name s h :
  is_open s h = true -> exists k, nlookup h (names s) = Some k /\ lookup k (reg s) = Some h.
Proof.
  unfold is_open. destruct (nlookup h (names s)) as [k|]; [|discriminate].
  destruct (lookup k (reg s)) as [m|] eqn:E; [|discriminate].
  intros H. apply Nat.eqb_eq in H. subst. eauto.
Qed.

Lemma open_inj s k1 k2 m : Inv s -> lookup k1 (reg s) = Some m -> lookup k2 (reg s) = Some m -> k1 = k2.
Proof.
  intros HI H1 H2. apply (inv_name s HI) in H1. apply (inv_name s HI) in H2. congruence.
Qed.

(** ** state transformers *)
(** the model registered as [old] becomes [new] *)
Definition renamed (s : state) (old new : string) (m : mid) : state :=
  set_reg (aset new m (remove_key old (reg s))) (set_names (nset m new (names s)) s).

(** a new model named [n] is registered and made current *)
Definition added (s : state) (n : string) : state :=
  mk (aset n (next s) (reg s)) (nset (next s) n (names s)) (Some (next s)) (S (next s))
     (cnt_model s) (cnt_bak s) (files s).

Definition closed (s : state) (k : string) (h : mid) : state :=
  set_cur (match cur s with
           | Some c => if Nat.eqb c h then None else Some c
           | None => None end) (set_reg (remove_key k (reg s)) s).

Lemma lookup_renamed s old new m k :
  new <> old -> has_key new (reg s) = false ->
  lookup k (reg (renamed s old new m)) =
  if String.eqb k new then Some m else if String.eqb k old then None else lookup k (reg s).
Proof.
  intros Hne Hfree. unfold renamed. simpl.
  destruct (String.eqb k new) eqn:E1.
  - apply String.eqb_eq in E1. subst. apply lookup_aset_eq.
  - apply eqb_false_neq in E1. rewrite lookup_aset_neq by exact E1.
    destruct (String.eqb k old) eqn:E2.
    + apply String.eqb_eq in E2. subst. apply lookup_remove_eq.
    + apply eqb_false_neq in E2. now apply lookup_remove_neq.
Qed.

Lemma lookup_added s n k :
  lookup k (reg (added s n)) = if String.eqb k n then Some (next s) else lookup k (reg s).
Proof.
  unfold added. simpl. destruct (String.eqb k n) eqn:E.
  - apply String.eqb_eq in E. subst. apply lookup_aset_eq.
  - apply eqb_false_neq in E. now apply lookup_aset_neq.
Qed.

Lemma lookup_closed s k h k' :
  lookup k' (reg (closed s k h)) = if String.eqb k' k then None else lookup k' (reg s).
Proof.
  unfold closed. simpl. destruct (String.eqb k' k) eqn:E.
  - apply String.eqb_eq in E. subst. apply lookup_remove_eq.
  - apply eqb_false_neq in E. now apply lookup_remove_neq.
Qed.

Lemma inv_cnt_bak s c : Inv s -> Inv (set_cnt_bak c s).
Proof. intros [H1 H2 H3 H4 H5]. constructor; assumption. Qed.

Lemma inv_cnt_model s c : Inv s -> Inv (set_cnt_model c s).
Proof. intros [H1 H2 H3 H4 H5]. constructor; assumption. Qed.

Lemma inv_files s f : Inv s -> Inv (set_files f s).
Proof. intros [H1 H2 H3 H4 H5]. constructor; assumption. Qed.

Lemma inv_renamed s old new m :
  Inv s -> lookup old (reg s) = Some m -> valid_name new = true ->
  has_key new (reg s) = false -> Inv (renamed s old new m).
Proof.
  intros HI Hold Hval Hfree.
  assert (Hne : new <> old).
  { intros ->. apply has_key_false in Hfree. congruence. }
  assert (Hnm : nlookup m (names s) = Some old) by (apply (inv_name s HI); exact Hold).
  constructor.
  - unfold renamed. simpl. apply NoDup_aset, NoDup_remove, (inv_nodup s HI).
  - intros k m' Hk. rewrite lookup_renamed in Hk by assumption.
    change (names (renamed s old new m)) with (nset m new (names s)).
    destruct (String.eqb k new) eqn:E1.
    + apply String.eqb_eq in E1. injection Hk as <-. subst. apply nlookup_nset_eq.
    + destruct (String.eqb k old) eqn:E2; [discriminate|].
      apply eqb_false_neq in E2.
      assert (m' <> m).
      { intros ->. apply E2. eapply open_inj; eauto. }
      rewrite nlookup_nset_neq by assumption. apply (inv_name s HI). exact Hk.
  - intros k m' Hk. rewrite lookup_renamed in Hk by assumption.
    destruct (String.eqb k new) eqn:E1.
    + apply String.eqb_eq in E1. now subst.
    + destruct (String.eqb k old); [discriminate|]. eapply (inv_valid s HI); eauto.
  - intros m' k. change (names (renamed s old new m)) with (nset m new (names s)).
    change (next (renamed s old new m)) with (next s).
    destruct (Nat.eq_dec m' m) as [->|Hm].
    + intros _. eapply (inv_bound s HI); eauto.
    + rewrite nlookup_nset_neq by assumption. apply (inv_bound s HI).
  - intros c Hc. change (cur (renamed s old new m)) with (cur s) in Hc.
    apply (inv_cur s HI) in Hc. apply is_open_name in Hc. destruct Hc as [kc [Hn Hl]].
    unfold is_open. change (names (renamed s old new m)) with (nset m new (names s)).
    destruct (Nat.eq_dec c m) as [->|Hm].
    + rewrite nlookup_nset_eq, lookup_renamed by assumption.
      rewrite String.eqb_refl. apply Nat.eqb_refl.
    + rewrite nlookup_nset_neq by assumption. rewrite Hn, lookup_renamed by assumption.
      assert (kc <> new).
      { intros ->. apply has_key_false in Hfree. congruence. }
      assert (kc <> old).
      { intros ->. congruence. }
      apply eqb_false_neq in H, H0. rewrite H, H0, Hl. apply Nat.eqb_refl.
Qed.

Lemma inv_added s n :
  Inv s -> valid_name n = true -> has_key n (reg s) = false -> Inv (added s n).
Proof.
  intros HI Hval Hfree. constructor.
  - unfold added. simpl. apply NoDup_aset, (inv_nodup s HI).
  - intros k m Hk. rewrite lookup_added in Hk. unfold added. simpl.
    destruct (String.eqb k n) eqn:E.
    + apply String.eqb_eq in E. injection Hk as <-. subst. apply nlookup_nset_eq.
    + pose proof (inv_name s HI _ _ Hk) as Hn. pose proof (inv_bound s HI _ _ Hn) as Hb.
      rewrite nlookup_nset_neq by lia. exact Hn.
  - intros k m Hk. rewrite lookup_added in Hk. destruct (String.eqb k n) eqn:E.
    + apply String.eqb_eq in E. now subst.
    + eapply (inv_valid s HI); eauto.
  - intros m k. unfold added. simpl. destruct (Nat.eq_dec m (next s)) as [->|Hm]; [lia|].
    rewrite nlookup_nset_neq by assumption. intros H. apply (inv_bound s HI) in H. lia.
  - intros c Hc. unfold added in Hc. simpl in Hc. injection Hc as <-.
    unfold is_open. change (names (added s n)) with (nset (next s) n (names s)).
    rewrite nlookup_nset_eq, lookup_added.
    rewrite String.eqb_refl. apply Nat.eqb_refl.
Qed.

Lemma inv_closed s k h :
  Inv s -> nlookup h (names s) = Some k -> lookup k (reg s) = Some h -> Inv (closed s k h).
Proof.
  intros HI Hn Hl. constructor.
  - unfold closed. simpl. apply NoDup_remove, (inv_nodup s HI).
  - intros k' m Hk. rewrite lookup_closed in Hk. destruct (String.eqb k' k); [discriminate|].
    apply (inv_name s HI). exact Hk.
  - intros k' m Hk. rewrite lookup_closed in Hk. destruct (String.eqb k' k); [discriminate|].
    eapply (inv_valid s HI); eauto.
  - apply (inv_bound s HI).
  - intros c Hc. unfold closed in Hc. simpl in Hc.
    destruct (cur s) as [c0|] eqn:Ec; [|discriminate].
    destruct (Nat.eqb c0 h) eqn:Eh; [discriminate|]. injection Hc as <-.
    apply Nat.eqb_neq in Eh.
    pose proof (inv_cur s HI _ Ec) as Ho. apply is_open_name in Ho. destruct Ho as [kc [Hnc Hlc]].
    unfold is_open. change (names (closed s k h)) with (names s). rewrite Hnc, lookup_closed.
    assert (kc <> k) by (intros ->; congruence).
    apply eqb_false_neq in H. rewrite H, Hlc. apply Nat.eqb_refl.
Qed.

(** ** exact effect of the primitives on states satisfying the invariant *)
Lemma rename_plain_ok s new old m :
  lookup old (reg s) = Some m -> valid_name new = true -> has_key new (reg s) = false ->
  rename_plain s new old = (renamed s old new m, RTrue).
Proof.
  intros Hold Hval Hfree. unfold rename_plain.
  assert (Hne : String.eqb new old = false).
  { apply eqb_false_neq. intros ->. apply has_key_false in Hfree. congruence. }
  rewrite Hne, Hold, Hval, Hfree. reflexivity.
Qed.

Lemma samename_spec x s name m :
  Inv s -> 1 <= x -> lookup name (reg s) = Some m ->
  exists c', cnt_bak s < c' /\ has_key (nm name "_BAK" c') (reg s) = false /\
    rename_samename x s name = (renamed (set_cnt_bak c' s) name (nm name "_BAK" c') m, Done).
Proof.
  intros HI Hx Hl. unfold rename_samename.
  destruct (get_next (x + List.length (reg s)) name "_BAK" (cnt_bak s) (reg s)) as [[bn c']|] eqn:G.
  - apply get_next_some in G. destruct G as [Hc [-> Hfree]].
    exists c'. repeat split; [exact Hc|exact Hfree|].
    rewrite (rename_plain_ok (set_cnt_bak c' s) _ _ m); [reflexivity|exact Hl| |exact Hfree].
    apply valid_bak. eapply (inv_valid s HI); eauto.
  - exfalso. revert G. apply get_next_fuel. lia.
Qed.

(** what [new_model] does, by cases on the requested name *)
Inductive new_model_case (x : nat) (s : state) (name : option string) : state * out -> Prop :=
| NM_auto c' :
    (name = None \/ name = Some "") -> cnt_model s < c' ->
    has_key (nm "" "Model" c') (reg s) = false ->
    new_model_case x s name (added (set_cnt_model c' s) (nm "" "Model" c'), Done)
| NM_invalid n :
    name = Some n -> n <> "" -> valid_name n = false ->
    new_model_case x s name (s, Raised EInvalid)
| NM_free n :
    name = Some n -> n <> "" -> valid_name n = true -> has_key n (reg s) = false ->
    new_model_case x s name (added s n, Done)
| NM_clash n m c' :
    name = Some n -> n <> "" -> lookup n (reg s) = Some m -> cnt_bak s < c' ->
    has_key (nm n "_BAK" c') (reg s) = false ->
    new_model_case x s name
      (added (renamed (set_cnt_bak c' s) n (nm n "_BAK" c') m) n, Done).

Lemma new_model_auto x s name :
  Inv s -> 1 <= x -> (name = None \/ name = Some "") ->
  exists c', cnt_model s < c' /\ has_key (nm "" "Model" c') (reg s) = false /\
    new_model x s name = (added (set_cnt_model c' s) (nm "" "Model" c'), Done).
Proof.
  intros HI Hx Hname. unfold new_model.
  assert (Hnm : match name with Some n => n | None => "" end = "") by (destruct Hname; subst; reflexivity).
  rewrite Hnm.
  assert (Hk : has_key "" (reg s) = false).
  { destruct (has_key "" (reg s)) eqn:E; [|reflexivity].
    apply has_key_true in E. destruct E as [v Hv]. apply (inv_valid s HI) in Hv. discriminate. }
  rewrite Hk. unfold bind. rewrite String.eqb_refl.
  destruct (get_next (x + List.length (reg s)) "" "Model" (cnt_model s) (reg s)) as [[n c']|] eqn:G.
  - apply get_next_some in G. destruct G as [Hc [-> Hfree]]. exists c'. repeat split; assumption.
  - exfalso. revert G. apply get_next_fuel. lia.
Qed.

Lemma new_model_spec x s name :
  Inv s -> 1 <= x -> new_model_case x s name (new_model x s name).
Proof.
  intros HI Hx. destruct name as [n|].
  2:{ destruct (new_model_auto x s None HI Hx (or_introl eq_refl)) as [c' [H1 [H2 ->]]].
      apply NM_auto; auto. }
  destruct (String.eqb n "") eqn:En.
  { apply String.eqb_eq in En. subst n.
    destruct (new_model_auto x s (Some "") HI Hx (or_intror eq_refl)) as [c' [H1 [H2 ->]]].
    apply NM_auto; auto. }
  assert (Hne : n <> "") by (apply eqb_false_neq; exact En).
  unfold new_model. destruct (has_key n (reg s)) eqn:Hk.
  - apply has_key_true in Hk. destruct Hk as [m Hm].
    destruct (samename_spec x s n m HI Hx Hm) as [c' [Hc [Hfree ->]]].
    unfold bind. rewrite En.
    rewrite (inv_valid s HI _ _ Hm).
    eapply NM_clash; eauto.
  - unfold bind. rewrite En. destruct (valid_name n) eqn:Hv.
    + eapply NM_free; eauto.
    + eapply NM_invalid; eauto.
Qed.

(** what [rename_model] does for a registered [old] *)
Inductive rename_case (x : nat) (s : state) (new old : string) (ro : bool) (h : mid) : state * out -> Prop :=
| RN_same : new = old -> rename_case x s new old ro h (s, Done)
| RN_invalid : new <> old -> valid_name new = false -> rename_case x s new old ro h (s, Raised EInvalid)
| RN_free : new <> old -> valid_name new = true -> has_key new (reg s) = false ->
    rename_case x s new old ro h (renamed s old new h, Done)
| RN_refused m : new <> old -> ro = false -> lookup new (reg s) = Some m ->
    rename_case x s new old ro h (s, Done)
| RN_clash m c' : new <> old -> ro = true -> lookup new (reg s) = Some m -> cnt_bak s < c' ->
    has_key (nm new "_BAK" c') (reg s) = false ->
    rename_case x s new old ro h
      (renamed (renamed (set_cnt_bak c' s) new (nm new "_BAK" c') m) old new h, Done).

Lemma has_key_renamed_old s old new m :
  new <> old -> has_key new (reg s) = false -> has_key old (reg (renamed s old new m)) = false.
Proof.
  intros Hne Hfree. apply has_key_false. rewrite lookup_renamed by assumption.
  assert (E : String.eqb old new = false) by (apply eqb_false_neq; congruence).
  rewrite E, String.eqb_refl. reflexivity.
Qed.

Lemma rename_model_spec x s new old ro h :
  Inv s -> 1 <= x -> lookup old (reg s) = Some h ->
  rename_case x s new old ro h (rename_model x s new old ro).
Proof.
  intros HI Hx Hold. unfold rename_model.
  destruct (String.eqb new old) eqn:E.
  { apply String.eqb_eq in E. now apply RN_same. }
  assert (Hne : new <> old) by (apply eqb_false_neq; exact E).
  destruct (has_key new (reg s)) eqn:Hk.
  - apply has_key_true in Hk. destruct Hk as [m Hm].
    destruct ro; simpl.
    + destruct (samename_spec x s new m HI Hx Hm) as [c' [Hc [Hfree ->]]].
      unfold bind.
      assert (Hbn : nm new "_BAK" c' <> new).
      { intros Heq. rewrite Heq in Hfree. apply has_key_false in Hfree. congruence. }
      assert (Hbo : nm new "_BAK" c' <> old).
      { intros Heq. rewrite Heq in Hfree. apply has_key_false in Hfree. congruence. }
      erewrite rename_plain_ok.
      * eapply RN_clash; eauto.
      * rewrite lookup_renamed by assumption.
        assert (E1 : String.eqb old (nm new "_BAK" c') = false) by (apply eqb_false_neq; congruence).
        assert (E2 : String.eqb old new = false) by (apply eqb_false_neq; congruence).
        rewrite E1, E2. exact Hold.
      * eapply (inv_valid s HI); eauto.
      * apply has_key_renamed_old; assumption.
    + unfold bind, rename_plain. rewrite E, Hold, (inv_valid s HI _ _ Hm).
      simpl. unfold has_key. rewrite Hm. eapply RN_refused; eauto.
  - rewrite andb_false_r. unfold bind. destruct (valid_name new) eqn:Hv.
    + erewrite rename_plain_ok; eauto. now apply RN_free.
    + unfold rename_plain. rewrite E, Hold, Hv. simpl. now apply RN_invalid.
Qed.

Lemma close_model_open s h k :
  nlookup h (names s) = Some k -> lookup k (reg s) = Some h ->
  close_model s h = (closed s k h, Done).
Proof. intros Hn Hl. unfold close_model. rewrite Hn, Hl, Nat.eqb_refl. reflexivity. Qed.

(** ** "keeps": every registered model stays registered *)
Definition keeps (s s' : state) : Prop := forall m, open s m -> open s' m.

Lemma keeps_refl s : keeps s s.
Proof. intros m H. exact H. Qed.

Lemma keeps_trans a b c : keeps a b -> keeps b c -> keeps a c.
Proof. intros H1 H2 m H. auto. Qed.

Lemma keeps_same_reg s s' : reg s' = reg s -> keeps s s'.
Proof. intros E m [k H]. exists k. now rewrite E. Qed.

Lemma keeps_renamed s old new m :
  lookup old (reg s) = Some m -> has_key new (reg s) = false -> keeps s (renamed s old new m).
Proof.
  intros Hold Hfree m' [k Hk].
  assert (Hne : new <> old).
  { intros ->. apply has_key_false in Hfree. congruence. }
  destruct (String.eqb k old) eqn:E.
  - apply String.eqb_eq in E. subst k. assert (m' = m) by congruence. subst.
    exists new. rewrite lookup_renamed by assumption. now rewrite String.eqb_refl.
  - exists k. rewrite lookup_renamed by assumption. rewrite E.
    assert (E1 : String.eqb k new = false).
    { apply eqb_false_neq. intros ->. apply has_key_false in Hfree. congruence. }
    now rewrite E1.
Qed.

Lemma keeps_added s n : has_key n (reg s) = false -> keeps s (added s n).
Proof.
  intros Hfree m [k Hk]. exists k. rewrite lookup_added.
  assert (E1 : String.eqb k n = false).
  { apply eqb_false_neq. intros ->. apply has_key_false in Hfree. congruence. }
  now rewrite E1.
Qed.

Lemma has_key_renamed_other s old new m k :
  new <> old -> has_key new (reg s) = false -> k <> new ->
  has_key k (reg s) = false -> has_key k (reg (renamed s old new m)) = false.
Proof.
  intros Hne Hfree Hk Hf. apply has_key_false. rewrite lookup_renamed by assumption.
  assert (E : String.eqb k new = false) by (apply eqb_false_neq; exact Hk).
  rewrite E. destruct (String.eqb k old); [reflexivity|]. now apply has_key_false.
Qed.
