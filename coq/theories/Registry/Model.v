(** Registry layer — the session's model registry.
    Code modelled (read line by line; system.py line numbers drift with the
    fix: commits, the function names are the anchor):
      core/system.py  System.__init__   _modelnamer, _backupnamer, currentmodel, _models
      core/system.py  System.new_model / rename_model / _rename_samename / close_model
      core/model.py:324-327    Model.rename  (old_name = self.name)
      core/model.py:350-352    Model.close
      core/model.py:867-872    ModelImpl.__init__ (auto name / validity)
      core/model.py:892-901    ModelImpl.rename
      core/util.py:23-45       AutoNamer.get_next (recursion -> fuel)
      core/util.py:51-61       is_valid_name (ASCII part)
      core/api.py:90-121,317-335   new_model, new_space (implicit model), cur_model
      core/parent.py:128       new_space makes its model the current one
      serialize/__init__.py:89-104, serializer_6.py:896-901,1056-1082
                               read_model = mx.new_model() ; rename(_name | name=, rename_old=True);
                               a failing read closes the temporary model (serializer_6.py:865-868)
    Definitions only.  IDEAL model: an operation through the handle of a model
    that is no longer registered is rejected (the pinned tree looks the handle's
    *name* up instead, finding `stale_handle`). *)
From Coq Require Import List String Ascii Bool Arith Decimal DecimalString.
Import ListNotations.
Open Scope string_scope.

Definition mid := nat.

(** ** association lists (Python dict, insertion ordered) *)
Fixpoint lookup {V} (k : string) (l : list (string * V)) : option V :=
  match l with
  | [] => None
  | (k', v) :: t => if String.eqb k k' then Some v else lookup k t
  end.

Definition has_key {V} (k : string) (l : list (string * V)) : bool :=
  match lookup k l with Some _ => true | None => false end.

(** [del d[k]] / [d.pop(k)] *)
Fixpoint remove_key {V} (k : string) (l : list (string * V)) : list (string * V) :=
  match l with
  | [] => []
  | (k', v) :: t => if String.eqb k k' then remove_key k t else (k', v) :: remove_key k t
  end.

(** [d[k] = v] : in place when the key exists, appended otherwise *)
Fixpoint aset {V} (k : string) (v : V) (l : list (string * V)) : list (string * V) :=
  match l with
  | [] => [(k, v)]
  | (k', v') :: t => if String.eqb k k' then (k, v) :: t else (k', v') :: aset k v t
  end.

(** the same with [nat] keys (handle -> name, slot -> saved name) *)
Fixpoint nlookup {V} (k : nat) (l : list (nat * V)) : option V :=
  match l with
  | [] => None
  | (k', v) :: t => if Nat.eqb k k' then Some v else nlookup k t
  end.

Fixpoint nset {V} (k : nat) (v : V) (l : list (nat * V)) : list (nat * V) :=
  match l with
  | [] => [(k, v)]
  | (k', v') :: t => if Nat.eqb k k' then (k, v) :: t else (k', v') :: nset k v t
  end.

Fixpoint nremove {V} (k : nat) (l : list (nat * V)) : list (nat * V) :=
  match l with
  | [] => []
  | (k', v) :: t => if Nat.eqb k k' then nremove k t else (k', v) :: nremove k t
  end.

(** ** names *)
(** Python [str(n)] *)
Definition dec (n : nat) : string := NilEmpty.string_of_uint (Nat.to_uint n).

Definition is_alpha (c : ascii) : bool :=
  let n := nat_of_ascii c in
  (((65 <=? n) && (n <=? 90)) || ((97 <=? n) && (n <=? 122)))%nat.
Definition is_digit (c : ascii) : bool :=
  let n := nat_of_ascii c in ((48 <=? n) && (n <=? 57))%nat.
Definition is_us (c : ascii) : bool := Ascii.eqb c "_"%char.
Definition id_char (c : ascii) : bool := is_alpha c || is_digit c || is_us c.

Fixpoint all_chars (p : ascii -> bool) (s : string) : bool :=
  match s with
  | EmptyString => true
  | String c t => p c && all_chars p t
  end.

Fixpoint contains_us (s : string) : bool :=
  match s with
  | EmptyString => false
  | String c t => is_us c || contains_us t
  end.

(** [keyword.kwlist] of CPython 3.12 *)
Definition keywords : list string :=
  ["False"; "None"; "True"; "and"; "as"; "assert"; "async"; "await"; "break";
   "class"; "continue"; "def"; "del"; "elif"; "else"; "except"; "finally";
   "for"; "from"; "global"; "if"; "import"; "in"; "is"; "lambda"; "nonlocal";
   "not"; "or"; "pass"; "raise"; "return"; "try"; "while"; "with"; "yield"].

Definition is_keyword (s : string) : bool := existsb (String.eqb s) keywords.

(** [is_valid_name] on ASCII text: an identifier, not a keyword, not
    starting with an underscore *)
Definition valid_name (s : string) : bool :=
  match s with
  | EmptyString => false
  | String c t => is_alpha c && all_chars id_char t && negb (is_keyword s)
  end.

(** ** state *)
Inductive err := EInvalid | EMissing | EBadHandle | ENoFile.
Inductive out := Done | Raised (e : err) | OutOfFuel.

Record state := mk {
  reg : list (string * mid);      (* System._models *)
  names : list (mid * string);    (* ModelImpl.name of every model ever created (closed ones keep theirs) *)
  cur : option mid;               (* System.currentmodel *)
  next : mid;                     (* next identity token *)
  cnt_model : nat;                (* _modelnamer.__last_postfix *)
  cnt_bak : nat;                  (* _backupnamer.__last_postfix : ONE counter for all prefixes *)
  files : list (nat * string)     (* slot -> the `_name` written there *)
}.

Definition init (cm cb : nat) : state := mk [] [] None 0 cm cb [].

Definition set_reg r s := mk r (names s) (cur s) (next s) (cnt_model s) (cnt_bak s) (files s).
Definition set_names n s := mk (reg s) n (cur s) (next s) (cnt_model s) (cnt_bak s) (files s).
Definition set_cur c s := mk (reg s) (names s) c (next s) (cnt_model s) (cnt_bak s) (files s).
Definition set_next n s := mk (reg s) (names s) (cur s) n (cnt_model s) (cnt_bak s) (files s).
Definition set_cnt_model c s := mk (reg s) (names s) (cur s) (next s) c (cnt_bak s) (files s).
Definition set_cnt_bak c s := mk (reg s) (names s) (cur s) (next s) (cnt_model s) c (files s).
Definition set_files f s := mk (reg s) (names s) (cur s) (next s) (cnt_model s) (cnt_bak s) f.

(** the handle [h] is the registered model of its own name *)
Definition is_open (s : state) (h : mid) : bool :=
  match nlookup h (names s) with
  | Some k => match lookup k (reg s) with Some m => Nat.eqb m h | None => false end
  | None => false
  end.

(** ** AutoNamer.get_next : recursion until the name is free; fuel *)
Fixpoint get_next (fuel : nat) (prefix base : string) (c : nat)
  (existing : list (string * mid)) : option (string * nat) :=
  match fuel with
  | O => None
  | S f =>
      let c' := S c in
      let r := prefix ++ base ++ dec c' in
      if has_key r existing then get_next f prefix base c' existing
      else Some (r, c')
  end.

Definition bind (r : state * out) (f : state -> state * out) : state * out :=
  match r with
  | (s, Done) => f s
  | _ => r
  end.

(** ModelImpl.rename + the dict move of System.rename_model, [rename_old=False]
    (this is also the recursive call made by [_rename_samename]).
    Result: [Some true] renamed, [Some false] refused silently, [None] raised. *)
Inductive rres := RTrue | RFalse | RRaise (e : err).

Definition rename_plain (s : state) (new old : string) : state * rres :=
  if String.eqb new old then (s, RFalse)
  else match lookup old (reg s) with
       | None => (s, RRaise EMissing)                     (* self.models[old_name] *)
       | Some m =>
           if negb (valid_name new) then (s, RRaise EInvalid)
           else if has_key new (reg s) then (s, RFalse)
           else (set_reg (aset new m (remove_key old (reg s)))
                   (set_names (nset m new (names s)) s), RTrue)
       end.

(** System._rename_samename; [x] = fuel beyond the number of registered models *)
Definition rename_samename (x : nat) (s : state) (name : string) : state * out :=
  match get_next (x + List.length (reg s)) name "_BAK" (cnt_bak s) (reg s) with
  | None => (s, OutOfFuel)
  | Some (bn, c') =>
      let s1 := set_cnt_bak c' s in
      match rename_plain s1 bn name with
      | (s2, RTrue) => (s2, Done)
      | (s2, RFalse) => (s2, Raised EInvalid)     (* ValueError("Failed to create ...") *)
      | (s2, RRaise e) => (s2, Raised e)
      end
  end.

(** System.rename_model(new, old, rename_old) *)
Definition rename_model (x : nat) (s : state) (new old : string) (ro : bool) : state * out :=
  if String.eqb new old then (s, Done)
  else bind (if ro && has_key new (reg s) then rename_samename x s new else (s, Done))
         (fun s1 => match rename_plain s1 new old with
                    | (s2, RRaise e) => (s2, Raised e)
                    | (s2, _) => (s2, Done)
                    end).

(** System.new_model(name) incl. ModelImpl.__init__'s naming *)
Definition new_model (x : nat) (s : state) (name : option string) : state * out :=
  let nm := match name with Some n => n | None => "" end in
  bind (if has_key nm (reg s) then rename_samename x s nm else (s, Done))
    (fun s1 =>
       let named : option (string * state) * out :=
         if String.eqb nm "" then
           match get_next (x + List.length (reg s1)) "" "Model" (cnt_model s1) (reg s1) with
           | None => (None, OutOfFuel)
           | Some (n, c') => (Some (n, set_cnt_model c' s1), Done)
           end
         else if valid_name nm then (Some (nm, s1), Done)
         else (None, Raised EInvalid) in
       match named with
       | (Some (n, s2), _) =>
           let m := next s2 in
           (mk (aset n m (reg s2)) (nset m n (names s2)) (Some m) (S m)
               (cnt_model s2) (cnt_bak s2) (files s2), Done)
       | (None, o) => (s1, o)
       end).

(** Model.close -> System.close_model.  Closing a model that is no longer
    registered (already closed; another model may have taken its name) is a
    no-op (repaired in /repo, 4f69f1f; the pinned tree deleted the OTHER model:
    finding stale_handle). *)
Definition close_model (s : state) (h : mid) : state * out :=
  match nlookup h (names s) with
  | None => (s, Raised EBadHandle)
  | Some k =>
      match lookup k (reg s) with
      | None => (s, Done)
      | Some m =>
          if Nat.eqb m h then
            (set_cur (match cur s with
                      | Some c => if Nat.eqb c h then None else Some c
                      | None => None end)
               (set_reg (remove_key k (reg s)) s), Done)
          else (s, Done)
      end
  end.

(** ** operations *)
Inductive op :=
| NewModel (name : option string)              (* mx.new_model(name) *)
| Rename (h : mid) (new : string) (ro : bool)  (* handle.rename(new, rename_old=ro) *)
| Close (h : mid)                              (* handle.close() *)
| Write (h : mid) (slot : nat)                 (* mx.write_model / zip_model (handle, slot) *)
| Read (slot : nat) (name : option string)     (* mx.read_model(slot, name=) *)
| SetCur (name : string)                       (* mx.cur_model(name) *)
| ApiNewSpace                                  (* mx.new_space(): creates a model when there is no current one *)
| Edit (h : mid) (sc : bool).                  (* any edit / evaluation inside one model; [sc]: the edit created
                                                  a space (parent.py: system.currentmodel = space.model) *)

Definition op_rename (x : nat) (s : state) (h : mid) (new : string) (ro : bool) : state * out :=
  match nlookup h (names s) with
  | None => (s, Raised EBadHandle)
  | Some old =>
      if String.eqb new old then (s, Done)                (* rename_model returns False first *)
      else if is_open s h then rename_model x s new old ro
      else (s, Raised EMissing)                            (* ideal; pinned tree: see finding stale_handle *)
  end.

Definition op_write (s : state) (h : mid) (slot : nat) : state * out :=
  match nlookup h (names s) with
  | None => (s, Raised EBadHandle)
  | Some k => if is_open s h then (set_files (nset slot k (files s)) s, Done)
              else (s, Raised EMissing)
  end.

Definition op_read (x : nat) (s : state) (slot : nat) (name : option string) : state * out :=
  match nlookup slot (files s) with
  | None => (s, Raised ENoFile)
  | Some saved =>
      bind (new_model x s None)                            (* parse_dir: mx.new_model() *)
        (fun s1 =>
           let t := next s in
           match nlookup t (names s1) with
           | None => (s1, Raised EBadHandle)               (* unreachable *)
           | Some tmp =>
               let target := match name with
                             | Some n => if String.eqb n "" then saved else n
                             | None => saved end in
               match rename_model x s1 target tmp true with   (* RenameParser, AT_PARSE *)
               | (s2, Done) => (s2, Done)
               | (s2, o) =>
                   (* except: self.model.close(); raise — the temporary model was never
                      handed out, its identity token is given back *)
                   let s3 := fst (close_model s2 t) in
                   (set_next t (set_names (nremove t (names s3)) s3), o)
               end
           end)
  end.

Definition op_setcur (s : state) (name : string) : state * out :=
  match lookup name (reg s) with
  | Some m => (set_cur (Some m) s, Done)
  | None => (s, Raised EMissing)
  end.

Definition step_x (x : nat) (s : state) (o : op) : state * out :=
  match o with
  | NewModel name => new_model x s name
  | Rename h new ro => op_rename x s h new ro
  | Close h => close_model s h
  | Write h slot => op_write s h slot
  | Read slot name => op_read x s slot name
  | SetCur name => op_setcur s name
  | ApiNewSpace => match cur s with None => new_model x s None | Some _ => (s, Done) end
  | Edit h sc => if sc && is_open s h then (set_cur (Some h) s, Done) else (s, Done)
  end.

(** fuel |existing| + 1 at every [get_next] (proved sufficient: [Proofs.fuel_suffices]) *)
Definition step (s : state) (o : op) : state * out := step_x 1 s o.

Definition run (s : state) (ops : list op) : state :=
  fold_left (fun st o => fst (step st o)) ops s.

(** ** what the tie observes after every operation *)
Definition open (s : state) (m : mid) : Prop := exists k, lookup k (reg s) = Some m.

Definition name_of (s : state) (h : mid) : string :=
  match nlookup h (names s) with Some k => k | None => "" end.

Definition out_code (o : out) : nat :=
  match o with
  | Done => 0
  | Raised EInvalid => 1
  | Raised EMissing => 2
  | Raised EBadHandle => 3
  | Raised ENoFile => 4
  | OutOfFuel => 9
  end.

Definition obs := (nat * list (string * nat) * list string * option nat)%type.

Definition pair_in (p : string * nat) (l : list (string * nat)) : bool :=
  existsb (fun q => String.eqb (fst p) (fst q) && Nat.eqb (snd p) (snd q)) l.

Definition same_reg (a b : list (string * nat)) : bool :=
  Nat.eqb (List.length a) (List.length b) && forallb (fun p => pair_in p b) a
  && forallb (fun p => pair_in p a) b.

Fixpoint lstr_eq (a b : list string) : bool :=
  match a, b with
  | [], [] => true
  | x :: a', y :: b' => String.eqb x y && lstr_eq a' b'
  | _, _ => false
  end.

Definition onat_eq (a b : option nat) : bool :=
  match a, b with
  | None, None => true
  | Some x, Some y => Nat.eqb x y
  | _, _ => false
  end.

Definition obs_ok (s : state) (o : out) (ob : obs) : bool :=
  match ob with
  | (code, r, nms, c) =>
      Nat.eqb (out_code o) code && same_reg (reg s) r
      && lstr_eq (map (name_of s) (seq 0 (next s))) nms && onat_eq (cur s) c
  end.

Fixpoint check_run (s : state) (l : list (op * obs)) : bool :=
  match l with
  | [] => true
  | (o, ob) :: t => let (s', r) := step s o in obs_ok s' r ob && check_run s' t
  end.

(** a case of the tie: initial counters (probed through the public API),
    operations with the implementation's observation after each *)
Definition check_case (c : nat * nat * list (op * obs)) : bool :=
  match c with (cm, cb, l) => check_run (init cm cb) l end.

(** index of the first disagreeing operation (diagnostics) *)
Fixpoint first_bad (s : state) (l : list (op * obs)) (i : nat) : option (nat * obs) :=
  match l with
  | [] => None
  | (o, ob) :: t =>
      let (s', r) := step s o in
      if obs_ok s' r ob then first_bad s' t (S i)
      else Some (i, (out_code r, reg s', map (name_of s') (seq 0 (next s')), cur s'))
  end.
