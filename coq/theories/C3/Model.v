(** C3 linearisation as computed by [SpaceGraph.get_mro]
    ([modelx/core/model.py:1076-1119]).  Definitions only; the lemmas are in
    [C3/Proofs.v].

    The inheritance graph is an association list from a space to the ordered
    list of its direct bases ([SpaceGraph.ordered_preds]: in-edges sorted by
    the edge attribute [index]).  Nodes are paths (the code uses the dotted
    [idstr]; a path is its [split(".")]). *)
From Coq Require Import List String Bool Arith.
Import ListNotations.

Definition path := list string.

Fixpoint path_eqb (a b : path) : bool :=
  match a, b with
  | [], [] => true
  | x :: a', y :: b' => String.eqb x y && path_eqb a' b'
  | _, _ => false
  end.

Fixpoint memb (x : path) (l : list path) : bool :=
  match l with
  | [] => false
  | y :: t => path_eqb x y || memb x t
  end.

Definition graph := list (path * list path).

Definition nodes (g : graph) : list path := map fst g.

(** [ordered_preds]: the declared bases, [[]] for an unknown node *)
Fixpoint bases_of (g : graph) (n : path) : list path :=
  match g with
  | [] => []
  | (k, bs) :: t => if path_eqb k n then bs else bases_of t n
  end.

(** three-valued result: "no C3 order" is never confused with fuel exhaustion *)
Inductive res (A : Type) : Type :=
| Ok (x : A)
| Inconsistent
| OutOfFuel.
Arguments Ok {A} x.
Arguments Inconsistent {A}.
Arguments OutOfFuel {A}.

Definition is_ok {A} (r : res A) : bool :=
  match r with Ok _ => true | _ => false end.

Definition nonemptyb (s : list path) : bool :=
  match s with [] => false | _ => true end.

(** [candidate in s[1:]] *)
Definition in_tail (c : path) (s : list path) : bool :=
  match s with [] => false | _ :: t => memb c t end.

(** [not [s for s in non_empty if candidate in s[1:]]] *)
Definition good_head (all : list (list path)) (c : path) : bool :=
  negb (existsb (in_tail c) all).

(** the [for seq in non_empty: candidate = seq[0] ... break] loop: first head
    that is in no tail *)
Fixpoint find_cand (ne all : list (list path)) : option path :=
  match ne with
  | [] => None
  | s :: rest =>
      match s with
      | [] => find_cand rest all
      | c :: _ => if good_head all c then Some c else find_cand rest all
      end
  end.

(** [if seq[0] == candidate: del seq[0]] *)
Definition drop_head (c : path) (s : list path) : list path :=
  match s with
  | [] => []
  | h :: t => if path_eqb h c then t else s
  end.

(** the [while True] loop of [get_mro]; one unit of fuel per iteration *)
Fixpoint merge (fuel : nat) (seqs : list (list path)) : res (list path) :=
  match fuel with
  | O => OutOfFuel
  | S f =>
      let ne := filter nonemptyb seqs in
      match ne with
      | [] => Ok []
      | _ :: _ =>
          match find_cand ne ne with
          | None => Inconsistent
          | Some c =>
              match merge f (map (drop_head c) ne) with
              | Ok l => Ok (c :: l)
              | Inconsistent => Inconsistent
              | OutOfFuel => OutOfFuel
              end
          end
      end
  end.

(** list comprehension [[self.get_mro(base) for base in ...]]: left to right,
    the first failure propagates *)
Fixpoint mapM_res {A B} (f : A -> res B) (l : list A) : res (list B) :=
  match l with
  | [] => Ok []
  | x :: t =>
      match f x with
      | Ok y => match mapM_res f t with
                | Ok ys => Ok (y :: ys)
                | Inconsistent => Inconsistent
                | OutOfFuel => OutOfFuel
                end
      | Inconsistent => Inconsistent
      | OutOfFuel => OutOfFuel
      end
  end.

Fixpoint total_len (seqs : list (list path)) : nat :=
  match seqs with
  | [] => 0
  | s :: t => List.length s + total_len t
  end.

(** [get_mro]: fuel bounds the recursion depth (Python recursion is unbounded
    on a cyclic graph); the inner loop gets the fuel it provably needs
    ([merge_enough_fuel]) *)
Fixpoint mro (fuel : nat) (g : graph) (n : path) : res (list path) :=
  match fuel with
  | O => OutOfFuel
  | S f =>
      let bs := bases_of g n in
      match mapM_res (mro f g) bs with
      | Ok seqs =>
          let all := (seqs ++ [bs])%list in
          match merge (S (total_len all)) all with
          | Ok l => Ok (n :: l)
          | Inconsistent => Inconsistent
          | OutOfFuel => OutOfFuel
          end
      | Inconsistent => Inconsistent
      | OutOfFuel => OutOfFuel
      end
  end.

(** the fuel the other layers use: one more than the number of nodes
    (enough on every acyclic graph, [mro_fuel_sufficient]) *)
Definition mro_of (g : graph) (n : path) : res (list path) :=
  mro (S (List.length g)) g n.

Definition mro_list (g : graph) (n : path) : list path :=
  match mro_of g n with Ok l => l | _ => [] end.

(** ---- specification vocabulary ---- *)

(** [anc g n x]: x is n or an ancestor of n (reflexive-transitive closure of
    "is a declared base of") *)
Inductive anc (g : graph) : path -> path -> Prop :=
| anc_refl : forall n, anc g n n
| anc_step : forall n b x, In b (bases_of g n) -> anc g b x -> anc g n x.

(** [subseq a b]: a is obtained from b by deleting elements *)
Inductive subseq {A : Type} : list A -> list A -> Prop :=
| sub_nil : forall l, subseq [] l
| sub_cons : forall x a b, subseq a b -> subseq (x :: a) (x :: b)
| sub_skip : forall x a b, subseq a b -> subseq a (x :: b).
