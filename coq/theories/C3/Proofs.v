(** Lemmas about [C3/Model.v]: the laws of the C3 linearisation computed by
    [merge]/[mro] (fuel monotone; head; no duplicates; members = ancestors;
    local precedence; monotonicity; locality; fuel sufficiency). *)
From Coq Require Import List String Bool Arith Lia.
From MX Require Import C3.Model.
Import ListNotations.

(** ---- equality on paths ---- *)
Lemma path_eqb_eq a b : path_eqb a b = true <-> a = b.
Proof.
  revert b; induction a as [|x a IH]; destruct b as [|y b]; simpl; split; try easy.
  - rewrite andb_true_iff, String.eqb_eq, IH. intros [-> ->]; reflexivity.
  - intros H; inversion H; subst. rewrite andb_true_iff, String.eqb_eq, IH; auto.
Qed.

Lemma path_eqb_refl a : path_eqb a a = true.
Proof. apply path_eqb_eq; reflexivity. Qed.

Lemma path_eqb_neq a b : path_eqb a b = false <-> a <> b.
Proof.
  split.
  - intros H E. apply path_eqb_eq in E. congruence.
  - intros H. destruct (path_eqb a b) eqn:E; [|reflexivity].
    apply path_eqb_eq in E. contradiction.
Qed.

Lemma path_eqb_spec a b : reflect (a = b) (path_eqb a b).
Proof.
  destruct (path_eqb a b) eqn:E; constructor.
  - apply path_eqb_eq; assumption.
  - apply path_eqb_neq; assumption.
Qed.

Lemma path_eqb_sym a b : path_eqb a b = path_eqb b a.
Proof.
  destruct (path_eqb_spec a b) as [->|N].
  - symmetry; apply path_eqb_refl.
  - symmetry; apply path_eqb_neq; congruence.
Qed.

Lemma memb_In x l : memb x l = true <-> In x l.
Proof.
  induction l as [|y t IH]; simpl; [easy|].
  rewrite orb_true_iff, path_eqb_eq, IH. split; intros [H|H]; auto.
Qed.

Lemma memb_nIn x l : memb x l = false <-> ~ In x l.
Proof.
  rewrite <- memb_In. destruct (memb x l); split; congruence.
Qed.

(** ---- subsequences ---- *)
Lemma subseq_refl {A} (l : list A) : subseq l l.
Proof. induction l; constructor; assumption. Qed.

Lemma subseq_In {A} (a b : list A) x : subseq a b -> In x a -> In x b.
Proof.
  induction 1 as [l|y a b H IH|y a b H IH]; simpl; intros Hx.
  - contradiction.
  - destruct Hx; auto.
  - auto.
Qed.

Lemma subseq_trans {A} (a b c : list A) : subseq a b -> subseq b c -> subseq a c.
Proof.
  intros Hab Hbc; revert a Hab.
  induction Hbc as [l|y b c H IH|y b c H IH]; intros a0 Hab.
  - inversion Hab; constructor.
  - inversion Hab; subst.
    + constructor.
    + constructor; auto.
    + apply sub_skip; auto.
  - apply sub_skip; auto.
Qed.

Lemma subseq_length {A} (a b : list A) : subseq a b -> List.length a <= List.length b.
Proof. induction 1; simpl; lia. Qed.

Lemma subseq_tail {A} x (a b : list A) : subseq (x :: a) b -> subseq a b.
Proof.
  intros H. apply subseq_trans with (b := x :: a); [|assumption].
  apply sub_skip, subseq_refl.
Qed.

Lemma subseq_NoDup {A} (a b : list A) : subseq a b -> NoDup b -> NoDup a.
Proof.
  induction 1 as [l|y a b H IH|y a b H IH]; intros Hb.
  - constructor.
  - inversion Hb; subst. constructor; auto.
    intros Hy. eapply subseq_In in Hy; eauto.
  - inversion Hb; auto.
Qed.

(** ---- the merge loop ---- *)
Lemma find_cand_some ne all c : find_cand ne all = Some c ->
  (exists t, In (c :: t) ne) /\ good_head all c = true.
Proof.
  induction ne as [|s rest IH]; simpl; [discriminate|].
  destruct s as [|h t].
  - intros H; destruct (IH H) as [[t' Ht'] G]; split; eauto.
  - destruct (good_head all h) eqn:G.
    + intros E; inversion E; subst. split; eauto.
    + intros H; destruct (IH H) as [[t' Ht'] G']; split; eauto.
Qed.

Lemma good_head_spec all c : good_head all c = true ->
  forall s, In s all -> in_tail c s = false.
Proof.
  unfold good_head; rewrite negb_true_iff; intros H s Hs.
  destruct (in_tail c s) eqn:E; [|reflexivity].
  assert (X : existsb (in_tail c) all = true) by (apply existsb_exists; eauto).
  congruence.
Qed.

Lemma drop_head_incl c s x : In x (drop_head c s) -> In x s.
Proof.
  destruct s as [|h t]; simpl; [easy|].
  destruct (path_eqb h c); simpl; auto.
Qed.

Lemma drop_head_keep c s x : In x s -> x <> c -> In x (drop_head c s).
Proof.
  destruct s as [|h t]; simpl; [easy|].
  destruct (path_eqb_spec h c) as [->|N]; simpl; intros [H|H] Hx; auto.
  congruence.
Qed.

Lemma drop_head_not_in c s : in_tail c s = false -> ~ In c (drop_head c s).
Proof.
  destruct s as [|h t]; simpl; [easy|].
  intros H; apply memb_nIn in H.
  destruct (path_eqb_spec h c) as [->|N]; simpl; [assumption|].
  intros [E|E]; auto.
Qed.

Lemma in_filter_nonempty (seqs : list (list path)) s x :
  In s seqs -> In x s -> In s (filter nonemptyb seqs).
Proof.
  intros Hs Hx. apply filter_In; split; [assumption|].
  destruct s; [contradiction|reflexivity].
Qed.

Lemma merge_unfold f seqs :
  merge (S f) seqs =
  match filter nonemptyb seqs with
  | [] => Ok []
  | _ :: _ =>
      match find_cand (filter nonemptyb seqs) (filter nonemptyb seqs) with
      | None => Inconsistent
      | Some c =>
          match merge f (map (drop_head c) (filter nonemptyb seqs)) with
          | Ok l => Ok (c :: l)
          | Inconsistent => Inconsistent
          | OutOfFuel => OutOfFuel
          end
      end
  end.
Proof. reflexivity. Qed.

Lemma merge_ok_inv f seqs l : merge (S f) seqs = Ok l ->
  (filter nonemptyb seqs = [] /\ l = []) \/
  (exists c l',
      find_cand (filter nonemptyb seqs) (filter nonemptyb seqs) = Some c /\
      merge f (map (drop_head c) (filter nonemptyb seqs)) = Ok l' /\ l = c :: l').
Proof.
  rewrite merge_unfold.
  destruct (filter nonemptyb seqs) as [|s0 ne'] eqn:E.
  - intros H; inversion H; auto.
  - rewrite <- E.
    destruct (find_cand (filter nonemptyb seqs) (filter nonemptyb seqs)) as [c|]; [|discriminate].
    destruct (merge f (map (drop_head c) (filter nonemptyb seqs))) as [l'| |] eqn:M; try discriminate.
    intros H; inversion H; subst. right; exists c, l'; auto.
Qed.

(** the result contains exactly the elements of the input sequences *)
Lemma merge_In : forall f seqs l, merge f seqs = Ok l ->
  forall x, In x l <-> exists s, In s seqs /\ In x s.
Proof.
  induction f as [|f IH]; intros seqs l H x; [discriminate|].
  apply merge_ok_inv in H. destruct H as [[E ->]|(c & l' & Fc & M & ->)].
  - split; [contradiction|]. intros (s & Hs & Hx).
    pose proof (in_filter_nonempty _ _ _ Hs Hx) as X. rewrite E in X. contradiction.
  - specialize (IH _ _ M). split.
    + intros [<-|Hx].
      * apply find_cand_some in Fc. destruct Fc as [[t Ht] _].
        apply filter_In in Ht. exists (c :: t); split; [tauto|left; reflexivity].
      * apply IH in Hx. destruct Hx as (s' & Hs' & Hx).
        apply in_map_iff in Hs'. destruct Hs' as (s & <- & Hs).
        apply filter_In in Hs. exists s; split; [tauto|]. eapply drop_head_incl; eauto.
    + intros (s & Hs & Hx).
      destruct (path_eqb_spec c x) as [->|N]; [left; reflexivity|right].
      apply IH. exists (drop_head c s). split.
      * apply in_map. eapply in_filter_nonempty; eauto.
      * apply drop_head_keep; auto.
Qed.

(** every input sequence keeps its order in the result *)
Lemma merge_subseq : forall f seqs l, merge f seqs = Ok l ->
  forall s, In s seqs -> subseq s l.
Proof.
  induction f as [|f IH]; intros seqs l H s Hs; [discriminate|].
  apply merge_ok_inv in H. destruct H as [[E ->]|(c & l' & Fc & M & ->)].
  - destruct s as [|h t]; [constructor|].
    assert (X : In (h :: t) (filter nonemptyb seqs)) by (apply filter_In; auto).
    rewrite E in X; contradiction.
  - destruct s as [|h t]; [constructor|].
    assert (X : In (h :: t) (filter nonemptyb seqs)) by (apply filter_In; auto).
    pose proof (IH _ _ M (drop_head c (h :: t)) (in_map _ _ _ X)) as Y.
    simpl in Y. destruct (path_eqb_spec h c) as [->|N].
    + constructor; assumption.
    + apply sub_skip; assumption.
Qed.

(** the result never repeats an element (whatever the inputs) *)
Lemma merge_NoDup : forall f seqs l, merge f seqs = Ok l -> NoDup l.
Proof.
  induction f as [|f IH]; intros seqs l H; [discriminate|].
  apply merge_ok_inv in H. destruct H as [[E ->]|(c & l' & Fc & M & ->)].
  - constructor.
  - constructor; [|eauto].
    intros Hc. apply (merge_In _ _ _ M) in Hc. destruct Hc as (s' & Hs' & Hc).
    apply in_map_iff in Hs'. destruct Hs' as (s & <- & Hs).
    apply find_cand_some in Fc. destruct Fc as [_ G].
    pose proof (good_head_spec _ _ G _ Hs) as T.
    eapply drop_head_not_in; eauto.
Qed.

Lemma total_len_filter seqs : total_len (filter nonemptyb seqs) = total_len seqs.
Proof.
  induction seqs as [|s t IH]; simpl; [reflexivity|].
  destruct s; simpl; lia.
Qed.

Lemma drop_head_len c s : List.length (drop_head c s) <= List.length s.
Proof. destruct s as [|h t]; simpl; [lia|]. destruct (path_eqb h c); simpl; lia. Qed.

Lemma total_len_drop_le c ne : total_len (map (drop_head c) ne) <= total_len ne.
Proof.
  induction ne as [|s t IH]; simpl; [lia|].
  pose proof (drop_head_len c s). lia.
Qed.

Lemma total_len_drop_lt c ne t : In (c :: t) ne ->
  total_len (map (drop_head c) ne) < total_len ne.
Proof.
  induction ne as [|s r IH]; simpl; [easy|].
  intros [->|H].
  - simpl. rewrite path_eqb_refl. pose proof (total_len_drop_le c r). lia.
  - specialize (IH H). pose proof (drop_head_len c s). lia.
Qed.

(** one unit of fuel per element is enough for the loop *)
Lemma merge_enough_fuel : forall f seqs, total_len seqs < f -> merge f seqs <> OutOfFuel.
Proof.
  induction f as [|f IH]; intros seqs Hlt; [lia|].
  rewrite merge_unfold.
  destruct (filter nonemptyb seqs) as [|s0 ne'] eqn:E; [discriminate|].
  rewrite <- E.
  destruct (find_cand (filter nonemptyb seqs) (filter nonemptyb seqs)) as [c|] eqn:Fc; [|discriminate].
  apply find_cand_some in Fc. destruct Fc as [[t Ht] _].
  pose proof (total_len_drop_lt _ _ _ Ht) as L. rewrite total_len_filter in L.
  assert (L' : total_len (map (drop_head c) (filter nonemptyb seqs)) < f) by lia.
  specialize (IH _ L').
  destruct (merge f (map (drop_head c) (filter nonemptyb seqs))); congruence.
Qed.

(** ---- mapM ---- *)
Lemma mapM_ok {A B} (f : A -> res B) l : forall ys,
  mapM_res f l = Ok ys <-> Forall2 (fun x y => f x = Ok y) l ys.
Proof.
  induction l as [|x t IH]; simpl; intros ys.
  - split; intros H; inversion H; constructor.
  - destruct (f x) as [y| |] eqn:E.
    + destruct (mapM_res f t) as [ys'| |] eqn:E2.
      * split; intros H.
        -- inversion H; subst. constructor; [assumption|]. apply IH; reflexivity.
        -- inversion H; subst. assert (y0 = y) by congruence. subst.
           assert (X : Ok ys' = Ok l') by (apply IH; assumption). inversion X; reflexivity.
      * split; intros H; [discriminate|]. inversion H; subst.
        assert (X : @Inconsistent (list B) = Ok l') by (apply IH; assumption). discriminate.
      * split; intros H; [discriminate|]. inversion H; subst.
        assert (X : @OutOfFuel (list B) = Ok l') by (apply IH; assumption). discriminate.
    + split; intros H; [discriminate|]. inversion H; congruence.
    + split; intros H; [discriminate|]. inversion H; congruence.
Qed.

Lemma mapM_mono {A B} (f1 f2 : A -> res B) l :
  (forall x r, f1 x = r -> r <> OutOfFuel -> f2 x = r) ->
  forall r, mapM_res f1 l = r -> r <> OutOfFuel -> mapM_res f2 l = r.
Proof.
  intros H; induction l as [|x t IH]; simpl; intros r Hr Hne; [assumption|].
  destruct (f1 x) as [y| |] eqn:E1.
  - rewrite (H x _ E1) by discriminate.
    destruct (mapM_res f1 t) as [ys| |] eqn:E2.
    + rewrite (IH _ eq_refl) by discriminate. assumption.
    + rewrite (IH _ eq_refl) by discriminate. assumption.
    + subst r. congruence.
  - rewrite (H x _ E1) by discriminate. assumption.
  - subst; congruence.
Qed.

Lemma mapM_ext_in {A B} (f1 f2 : A -> res B) l :
  (forall x, In x l -> f1 x = f2 x) -> mapM_res f1 l = mapM_res f2 l.
Proof.
  induction l as [|x t IH]; simpl; intros H; [reflexivity|].
  rewrite (H x) by auto. rewrite IH by auto. reflexivity.
Qed.

Lemma Forall2_In_l {A B} (R : A -> B -> Prop) l l' x :
  Forall2 R l l' -> In x l -> exists y, In y l' /\ R x y.
Proof.
  induction 1 as [|a b l l' Hab H IH]; simpl; [easy|].
  intros [->|Hx]; [eauto|]. destruct (IH Hx) as (y & ? & ?); eauto.
Qed.

Lemma Forall2_In_r {A B} (R : A -> B -> Prop) l l' y :
  Forall2 R l l' -> In y l' -> exists x, In x l /\ R x y.
Proof.
  induction 1 as [|a b l l' Hab H IH]; simpl; [easy|].
  intros [->|Hy]; [eauto|]. destruct (IH Hy) as (x & ? & ?); eauto.
Qed.

(** ---- get_mro ---- *)
Lemma mro_unfold f g n :
  mro (S f) g n =
  match mapM_res (mro f g) (bases_of g n) with
  | Ok seqs =>
      match merge (S (total_len (seqs ++ [bases_of g n]))) (seqs ++ [bases_of g n]) with
      | Ok l => Ok (n :: l)
      | Inconsistent => Inconsistent
      | OutOfFuel => OutOfFuel
      end
  | Inconsistent => Inconsistent
  | OutOfFuel => OutOfFuel
  end.
Proof. reflexivity. Qed.

Lemma mro_ok_inv f g n l : mro f g n = Ok l ->
  exists f0 seqs l', f = S f0 /\
    Forall2 (fun b s => mro f0 g b = Ok s) (bases_of g n) seqs /\
    merge (S (total_len (seqs ++ [bases_of g n]))) (seqs ++ [bases_of g n]) = Ok l' /\
    l = n :: l'.
Proof.
  destruct f as [|f0]; [discriminate|]. rewrite mro_unfold.
  destruct (mapM_res (mro f0 g) (bases_of g n)) as [seqs| |] eqn:E; try discriminate.
  destruct (merge _ (seqs ++ [bases_of g n])) as [l'| |] eqn:M; try discriminate.
  intros H; inversion H; subst. exists f0, seqs, l'.
  repeat split; auto. apply mapM_ok; assumption.
Qed.

(** the inner loop never runs out of the fuel [mro] gives it *)
Lemma mro_oof_inv f g n : mro (S f) g n = OutOfFuel ->
  mapM_res (mro f g) (bases_of g n) = OutOfFuel.
Proof.
  rewrite mro_unfold.
  destruct (mapM_res (mro f g) (bases_of g n)) as [seqs| |]; try congruence.
  destruct (merge _ (seqs ++ [bases_of g n])) as [l'| |] eqn:M; try discriminate.
  exfalso. eapply merge_enough_fuel; [|exact M]. lia.
Qed.

Theorem mro_mono_S : forall f g n r, mro f g n = r -> r <> OutOfFuel -> mro (S f) g n = r.
Proof.
  induction f as [|f IH]; intros g n r Hr Hne.
  - simpl in Hr. congruence.
  - rewrite mro_unfold in Hr. rewrite mro_unfold.
    destruct (mapM_res (mro f g) (bases_of g n)) as [seqs| |] eqn:E.
    + rewrite (mapM_mono _ _ _ (IH g) _ E) by discriminate. exact Hr.
    + rewrite (mapM_mono _ _ _ (IH g) _ E) by discriminate. exact Hr.
    + congruence.
Qed.

(** fuel monotone: more fuel never changes a result other than OutOfFuel *)
Theorem mro_mono f f' g n r : f <= f' -> mro f g n = r -> r <> OutOfFuel -> mro f' g n = r.
Proof.
  induction 1 as [|f' Hle IH]; intros Hr Hne; [assumption|].
  apply mro_mono_S; auto.
Qed.

Lemma mro_det f f' g n l l' : mro f g n = Ok l -> mro f' g n = Ok l' -> l = l'.
Proof.
  intros H H'. destruct (Nat.le_ge_cases f f') as [L|L].
  - eapply mro_mono in H; eauto; [|discriminate]. congruence.
  - eapply mro_mono in H'; eauto; [|discriminate]. congruence.
Qed.

(** head *)
Theorem mro_head f g n l : mro f g n = Ok l -> exists l', l = n :: l'.
Proof. intros H. apply mro_ok_inv in H. destruct H as (f0 & seqs & l' & _ & _ & _ & ->). eauto. Qed.

(** members are n and its ancestors *)
Theorem mro_In_anc : forall f g n l, mro f g n = Ok l -> forall x, In x l -> anc g n x.
Proof.
  induction f as [|f IH]; intros g n l H x Hx; [discriminate|].
  apply mro_ok_inv in H. destruct H as (f0 & seqs & l' & E & F2 & M & ->).
  inversion E; subst f0; clear E.
  destruct Hx as [<-|Hx]; [constructor|].
  apply (merge_In _ _ _ M) in Hx. destruct Hx as (s & Hs & Hx).
  apply in_app_or in Hs. destruct Hs as [Hs|[<-|[]]].
  - destruct (Forall2_In_r _ _ _ _ F2 Hs) as (b & Hb & Hm).
    eapply anc_step; eauto.
  - eapply anc_step; eauto. constructor.
Qed.

Theorem mro_anc_In g n x : anc g n x -> forall f l, mro f g n = Ok l -> In x l.
Proof.
  induction 1 as [n|n b x Hb Hanc IH]; intros f l H.
  - apply mro_head in H. destruct H as [l' ->]. left; reflexivity.
  - apply mro_ok_inv in H. destruct H as (f0 & seqs & l' & -> & F2 & M & ->).
    destruct (Forall2_In_l _ _ _ _ F2 Hb) as (s & Hs & Hm).
    right. apply (merge_In _ _ _ M). exists s; split.
    + apply in_or_app; auto.
    + eapply IH; eauto.
Qed.

Theorem mro_members f g n l : mro f g n = Ok l -> forall x, In x l <-> anc g n x.
Proof.
  intros H x; split.
  - eapply mro_In_anc; eauto.
  - intros A. eapply mro_anc_In; eauto.
Qed.

(** every member of a linearisation has a linearisation itself (less fuel) *)
Lemma mro_members_ok : forall f g n l, mro f g n = Ok l ->
  (forall x, In x l -> exists lx, mro f g x = Ok lx) /\
  (forall x, In x (tl l) -> exists lx, mro (pred f) g x = Ok lx).
Proof.
  induction f as [|f IH]; intros g n l H; [discriminate|].
  pose proof H as H0.
  apply mro_ok_inv in H. destruct H as (f0 & seqs & l' & E & F2 & M & ->).
  inversion E; subst f0; clear E.
  assert (P2 : forall x, In x l' -> exists lx, mro f g x = Ok lx).
  { intros x Hx. apply (merge_In _ _ _ M) in Hx. destruct Hx as (s & Hs & Hx).
    apply in_app_or in Hs. destruct Hs as [Hs|[<-|[]]].
    - destruct (Forall2_In_r _ _ _ _ F2 Hs) as (b & Hb & Hm).
      destruct (IH _ _ _ Hm) as [P1 _]. auto.
    - destruct (Forall2_In_l _ _ _ _ F2 Hx) as (s & _ & Hm). eauto. }
  split.
  - intros x [<-|Hx]; [eauto|].
    destruct (P2 x Hx) as [lx Hlx]. exists lx. apply mro_mono_S; [assumption|discriminate].
  - simpl. exact P2.
Qed.

Lemma mro_self_not_in_tl : forall f g n l, mro f g n = Ok l -> ~ In n (tl l).
Proof.
  induction f as [|f IH]; intros g n l H Hin; [discriminate|].
  destruct (mro_members_ok _ _ _ _ H) as [_ P2].
  destruct (P2 n Hin) as [lx Hlx]. simpl in Hlx.
  assert (lx = l).
  { eapply mro_det; eauto. }
  subst lx. exact (IH _ _ _ Hlx Hin).
Qed.

(** no duplicates *)
Theorem mro_NoDup f g n l : mro f g n = Ok l -> NoDup l.
Proof.
  intros H. pose proof (mro_self_not_in_tl _ _ _ _ H) as Hn.
  apply mro_ok_inv in H. destruct H as (f0 & seqs & l' & -> & F2 & M & ->).
  constructor; [exact Hn|]. eapply merge_NoDup; eauto.
Qed.

(** a space with a linearisation is not its own proper ancestor *)
Theorem mro_acyclic f g n l b : mro f g n = Ok l -> In b (bases_of g n) -> ~ anc g b n.
Proof.
  intros H Hb A.
  apply (mro_self_not_in_tl _ _ _ _ H).
  pose proof H as H0.
  apply mro_ok_inv in H. destruct H as (f0 & seqs & l' & -> & F2 & M & ->). simpl.
  destruct (Forall2_In_l _ _ _ _ F2 Hb) as (s & Hs & Hm).
  apply (merge_In _ _ _ M). exists s; split; [apply in_or_app; auto|].
  eapply mro_anc_In; eauto.
Qed.

(** local precedence: every member is followed by its declared bases, in the
    declared order *)
Theorem mro_local_precedence : forall f g n l, mro f g n = Ok l ->
  forall x, In x l -> subseq (x :: bases_of g x) l.
Proof.
  induction f as [|f IH]; intros g n l H x Hx; [discriminate|].
  apply mro_ok_inv in H. destruct H as (f0 & seqs & l' & E & F2 & M & ->).
  inversion E; subst f0; clear E.
  destruct Hx as [<-|Hx].
  - constructor. eapply merge_subseq; eauto. apply in_or_app; right; left; reflexivity.
  - apply sub_skip.
    apply (merge_In _ _ _ M) in Hx. destruct Hx as (s & Hs & Hx).
    apply in_app_or in Hs. destruct Hs as [Hs|[<-|[]]].
    + destruct (Forall2_In_r _ _ _ _ F2 Hs) as (b & Hb & Hm).
      eapply subseq_trans; [eapply IH; eauto|].
      eapply merge_subseq; eauto. apply in_or_app; auto.
    + destruct (Forall2_In_l _ _ _ _ F2 Hx) as (s & Hs & Hm).
      destruct (mro_head _ _ _ _ Hm) as [s' ->].
      eapply subseq_trans; [eapply IH; eauto; left; reflexivity|].
      eapply merge_subseq; eauto. apply in_or_app; auto.
Qed.

(** monotonicity: the linearisation of every direct base is a subsequence *)
Theorem mro_monotone f g n l : mro f g n = Ok l ->
  forall b, In b (bases_of g n) -> forall f' lb, mro f' g b = Ok lb -> subseq lb l.
Proof.
  intros H b Hb f' lb Hlb.
  apply mro_ok_inv in H. destruct H as (f0 & seqs & l' & -> & F2 & M & ->).
  destruct (Forall2_In_l _ _ _ _ F2 Hb) as (s & Hs & Hm).
  assert (s = lb) by (eapply mro_det; eauto). subst s.
  apply sub_skip. eapply merge_subseq; eauto. apply in_or_app; auto.
Qed.

(** ... hence of every member *)
Theorem mro_monotone_anc g n x : anc g n x ->
  forall f l f' lx, mro f g n = Ok l -> mro f' g x = Ok lx -> subseq lx l.
Proof.
  induction 1 as [n|n b x Hb Hanc IH]; intros f l f' lx H Hx.
  - assert (lx = l) by (eapply mro_det; eauto). subst. apply subseq_refl.
  - pose proof H as H0.
    apply mro_ok_inv in H. destruct H as (f0 & seqs & l' & -> & F2 & M & ->).
    destruct (Forall2_In_l _ _ _ _ F2 Hb) as (s & Hs & Hm).
    eapply subseq_trans; [eapply IH; eauto|].
    eapply mro_monotone; eauto.
Qed.

(** locality: the result depends only on the declared bases of n and of its
    ancestors *)
Theorem mro_local : forall f g g' n,
  (forall x, anc g n x -> bases_of g x = bases_of g' x) ->
  mro f g n = mro f g' n.
Proof.
  induction f as [|f IH]; intros g g' n H; [reflexivity|].
  rewrite !mro_unfold. rewrite <- (H n (anc_refl _ _)).
  rewrite (mapM_ext_in (mro f g) (mro f g') (bases_of g n)); [reflexivity|].
  intros b Hb. apply IH. intros x A. apply H. eapply anc_step; eauto.
Qed.

(** fuel sufficiency: as much fuel as the result is long *)
Theorem mro_fuel_by_length : forall f g n l, mro f g n = Ok l -> mro (List.length l) g n = Ok l.
Proof.
  induction f as [|f IH]; intros g n l H; [discriminate|].
  apply mro_ok_inv in H. destruct H as (f0 & seqs & l' & E & F2 & M & ->).
  inversion E; subst f0; clear E.
  simpl List.length. rewrite mro_unfold.
  assert (X : mapM_res (mro (List.length l') g) (bases_of g n) = Ok seqs).
  { apply mapM_ok.
    assert (Hs : forall s, In s seqs -> subseq s l').
    { intros s Hs. eapply merge_subseq; eauto. apply in_or_app; auto. }
    clear M. induction F2 as [|b s bs ss Hbs F2 IH2]; constructor.
    - apply mro_mono with (f := List.length s); [|eauto|discriminate].
      apply subseq_length, Hs; left; reflexivity.
    - apply IH2. intros s' Hs'. apply Hs; right; assumption. }
  rewrite X, M. reflexivity.
Qed.

(** with the fuel of [mro_of] (number of nodes + 1) the result of any larger
    fuel is reproduced, as soon as the ancestors are nodes of the graph *)
Theorem mro_fuel_sufficient f g n l : mro f g n = Ok l -> incl l (nodes g) -> mro_of g n = Ok l.
Proof.
  intros H I. unfold mro_of.
  apply mro_mono with (f := List.length l); [|eapply mro_fuel_by_length; eauto|discriminate].
  pose proof (NoDup_incl_length (mro_NoDup _ _ _ _ H) I) as L.
  unfold nodes in L. rewrite map_length in L. lia.
Qed.

(** never OutOfFuel on an acyclic part of the graph: stated through a rank
    (a rank function exists exactly on acyclic graphs) *)
Theorem mro_no_oof_ranked (rank : path -> nat) g :
  (forall n b, In b (bases_of g n) -> rank b < rank n) ->
  forall f n, rank n < f -> mro f g n <> OutOfFuel.
Proof.
  intros R. induction f as [|f IH]; intros n Hlt; [lia|].
  intros H. apply mro_oof_inv in H.
  assert (X : forall bs, (forall b, In b bs -> rank b < f) -> mapM_res (mro f g) bs <> OutOfFuel).
  { induction bs as [|b t IHt]; simpl; intros Hb; [discriminate|].
    destruct (mro f g b) eqn:E; try discriminate.
    - destruct (mapM_res (mro f g) t) eqn:E2; try discriminate.
      exfalso. apply IHt; auto.
    - exfalso. eapply IH; [|exact E]. apply Hb; left; reflexivity. }
  apply (X (bases_of g n)); [|assumption].
  intros b Hb. specialize (R _ _ Hb). lia.
Qed.

(** all the laws in one statement (used by Props/C03.v) *)
Theorem mro_laws : forall f g n l, mro f g n = Ok l ->
  (exists l', l = n :: l') /\ NoDup l /\
  (forall x, In x l <-> anc g n x) /\
  (forall x, In x l -> subseq (x :: bases_of g x) l) /\
  (forall b, In b (bases_of g n) -> forall f' lb, mro f' g b = Ok lb -> subseq lb l) /\
  (forall f', f <= f' -> mro f' g n = Ok l).
Proof.
  intros f g n l H. repeat split.
  - eapply mro_head; eauto.
  - eapply mro_NoDup; eauto.
  - eapply mro_In_anc; eauto.
  - intros A; eapply mro_anc_In; eauto.
  - eapply mro_local_precedence; eauto.
  - eapply mro_monotone; eauto.
  - intros f' L. eapply mro_mono; eauto. discriminate.
Qed.

(** the hypotheses are satisfiable on a diamond with a crossing pair; a
    hierarchy without linearisation is [Inconsistent], a cycle [OutOfFuel] *)
Local Open Scope string_scope.
Definition ex_graph : graph :=
  [ (["O"], []); (["A"], [["O"]]); (["B"], [["O"]]);
    (["C"], [["A"]; ["B"]]); (["D"], [["B"]; ["A"]]); (["E"], [["C"]; ["D"]]) ].
Example ex_mro_ok : mro_of ex_graph ["C"] = Ok [["C"]; ["A"]; ["B"]; ["O"]].
Proof. vm_compute. reflexivity. Qed.
Example ex_mro_inconsistent : mro_of ex_graph ["E"] = Inconsistent.
Proof. vm_compute. reflexivity. Qed.
Example ex_mro_cycle : mro_of ((["Z"], [["Z"]]) :: ex_graph) ["Z"] = OutOfFuel.
Proof. vm_compute. reflexivity. Qed.
