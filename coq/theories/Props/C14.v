(** C14 — Saving never loses the last good save; failed saves and loads leave
    no residue.  Property theorems only (model: Backup/Model.v).

    [run_saves l] is the content of <path>, <path>_BAK1.._BAK3 after the saves
    [l] (each a new generation; each may fail at any operation index: renames of
    the backup chain, mkdir, every member write (entered / callback), pickling,
    archive step, final move, cleanup), started from empty paths, backups on.
    [BackupInv]: four paths, every complete copy is dominated by a complete copy
    at <path> or _BAK1, generations strictly decrease from <path> to _BAK3. *)
From Coq Require Import List.
From MX Require Import Backup.Model Backup.Proofs Backup.ProofsSave Backup.ProofsSession.
Import ListNotations.

(** ALL sequences of zip and directory saves, each successful or failed at any
    operation (rotation, mkdir, member writes, pickling, archive step, final move,
    cleanup).  Unconditional since the /repo fix for D17 (a failed directory save
    removes the tree it created); before it the statement needed "a failed directory
    save is not directly followed by another failed save" and was refuted without *)
Theorem C14_all : forall saves : list saveop, BackupInv (run_saves saves).
Proof. exact backup_all. Qed.
Print Assumptions C14_all.

(** no path ever holds a partly written copy - in particular not <path>, and a zip
    destination never holds a partially written archive *)
Theorem C14_no_partial : forall saves : list saveop,
  nopartial (run_saves saves) = true /\ is_partial (slot (run_saves saves) 0) = false.
Proof. exact backup_nopartial. Qed.
Print Assumptions C14_no_partial.

(** zip saves (corollary, statement kept from before the repair) *)
Theorem C14_zip_all : forall saves : list saveop,
  all_zip saves ->
  BackupInv (run_saves saves) /\ nopartial (run_saves saves) = true
  /\ is_partial (slot (run_saves saves) 0) = false.
Proof. exact backup_zip. Qed.
Print Assumptions C14_zip_all.

(** D17's history (two consecutive failing directory saves) on the repaired tree:
    the last good copy stays at _BAK1 *)
Theorem C14_d17_repaired :
  run_saves d17_saves = [Absent; Good 1 Dir 9; Absent; Absent].
Proof. exact d17_state. Qed.
Print Assumptions C14_d17_repaired.

(** a save that does not fail puts the new generation at <path> and shifts the
    earlier ones down in order ([rotate]: into the first hole, the last falls off),
    after ANY history of saves *)
Theorem C14_keeps_generations : forall (saves : list saveop) (f : fmt) (sh : list sop),
  let s := run (map to_op saves) in
  exists n t, rotate (s_fs s) = Absent :: t
    /\ s_fs (step s (OSave true f sh None)) = Good (S (s_gen s)) f n :: t
    /\ raised (run_op s (OSave true f sh None)) = false.
Proof. exact keeps_generations. Qed.
Print Assumptions C14_keeps_generations.

(** session: after ANY history of saves and loads (failed or not) and any further
    operation, the serializing flags are clear; if that operation raised, the
    registry is exactly what it was (no half-loaded model); loads never touch the files *)
Theorem C14_session : forall (ops : list op) (o : op),
  let s := run ops in
  s_flag (step s o) = false
  /\ (raised (run_op s o) = true -> s_reg (step s o) = s_reg s)
  /\ (match o with OSave _ _ _ _ => True | _ => s_fs (step s o) = s_fs s end).
Proof. exact session_all. Qed.
Print Assumptions C14_session.
