(** C13 - deletion is complete.  Property theorems only. *)
From Coq Require Import List String NArith.
From MX Require Import Alive.Model Alive.Proofs.
Import ListNotations.

Theorem C13_dead_handle_rejected : forall st o u,
  handle st (fst (op_handles o)) = Some u -> alive st u = false ->
  (exists bs, handles st (snd (op_handles o)) = Some bs) ->
  step st o = (st, ODeleted).
Proof. exact dead_handle_rejected. Qed.
Print Assumptions C13_dead_handle_rejected.
