(** C13 - deletion is complete: old handles raise, no value computed from it
    survives.  Property theorems only (model: Alive/Model.v; a handle is a uid;
    [run ft ops] = the state after the history [ops], any length, any
    operations; [ft] = the formula table of the case). *)
From Coq Require Import List String Bool ZArith NArith.
From MX Require Import Alive.Model Alive.ProofsRes Alive.ProofsStr Alive.ProofsDer Alive.ProofsStep Alive.ProofsTop Alive.ProofsInh Alive.ProofsAcyc Alive.ProofsNcc Alive.ProofsClos.
Import ListNotations.

(** C13_no_residue: after every history no container (cells / spaces /
    ItemSpaces name maps), no base list, no stored value, no dependency
    listing ([v_deps]: transitive, [v_reads]: direct precedents) mentions a
    dead uid, and every container belongs to a live object *)
Theorem C13_no_residue : forall ft ops, Res (run ft ops).
Proof. exact no_residue. Qed.
Print Assumptions C13_no_residue.

(** in every reachable state everything inside a dead object (parent links,
    any depth: descendant spaces, their cells, ItemSpaces, dynamic members) is dead *)
Theorem C13_dead_inside : forall ft ops x u,
  inside (run ft ops) x u -> alive (run ft ops) x = false -> alive (run ft ops) u = false.
Proof. exact dead_inside. Qed.
Print Assumptions C13_dead_inside.

(** C13_dead: an accepted [del u.name] (u a model or a space reached through a
    live handle, the name a cells or a child space) kills the named object and
    everything inside it, after any history *)
Theorem C13_dead : forall ft ops h name u x v,
  let st := run ft ops in
  let st' := run ft (ops ++ [DelAttr h name]) in
  handle st h = Some u -> alive st u = true -> deleted_target st u name = Some x ->
  snd (step st (DelAttr h name)) = ODone ->
  inside st' x v -> alive st' v = false.
Proof. exact delete_kills_inside. Qed.
Print Assumptions C13_dead.

(** derived copies: in every reachable state a live derived cells has a live
    definer - a defined cells of the same name in a proper ancestor ([anc]:
    transitive closure of the base lists) of its space ... *)
Theorem C13_derived_has_definer : forall ft ops d,
  alive (run ft ops) d = true -> is_derived (run ft ops) d = true ->
  exists T c, parent_of (run ft ops) d = Some T /\ definer (run ft ops) T (name_of (run ft ops) d) c.
Proof. exact derived_has_definer. Qed.
Print Assumptions C13_derived_has_definer.

(** ... hence a derived copy whose definers are all gone (its sole definer was
    deleted, the base relation was removed, the base space was deleted) is dead *)
Theorem C13_dead_derived : forall ft ops d T,
  is_derived (run ft ops) d = true -> parent_of (run ft ops) d = Some T ->
  (forall c, ~ definer (run ft ops) T (name_of (run ft ops) d) c) ->
  alive (run ft ops) d = false.
Proof. exact derived_without_definer_dead. Qed.
Print Assumptions C13_dead_derived.

(** C13_handles: an operation answers the deleted-object error exactly when one
    of the handles it goes through is dead, and then nothing changes *)
Theorem C13_handles : forall st o,
  snd (step st o) = ODeleted <->
  exists u bs, handle st (fst (op_handles o)) = Some u /\ handles st (snd (op_handles o)) = Some bs
               /\ (alive st u && forallb (alive st) bs) = false.
Proof. exact deleted_iff_dead_handle. Qed.
Print Assumptions C13_handles.

Theorem C13_dead_handle_changes_nothing : forall st o, snd (step st o) = ODeleted -> fst (step st o) = st.
Proof. exact deleted_changes_nothing. Qed.
Print Assumptions C13_dead_handle_changes_nothing.

(** the invariants: [Inv] (no residue, containment, base lists hold spaces,
    derived cells have definers) and [Inv2] = [Inv] and the inheritance graph is
    acyclic ([add_bases] rejects cycles) hold after every history *)
Theorem C13_invariant : forall ft ops, Inv (run ft ops).
Proof. exact inv_run. Qed.
Print Assumptions C13_invariant.

Theorem C13_invariant_acyclic : forall ft ops, Inv2 (run ft ops).
Proof. exact inv2_run. Qed.
Print Assumptions C13_invariant_acyclic.

(** [Inv3] = [Inv], acyclic, and nothing is ever inside a cells ([Ncc]: no
    containment chain passes through a cells) *)
Theorem C13_invariant_full : forall ft ops, Inv3 (run ft ops).
Proof. exact inv3_run. Qed.
Print Assumptions C13_invariant_full.

(** hence the fuelled ancestor computation of the model is exact (sound and
    COMPLETE) in every reachable state: [anc] = transitive closure of the base
    lists, [definer st T n c] = c is a live defined cells named n in a proper
    ancestor of T *)
Theorem C13_ancestors_exact : forall ft ops T A, In A (ancs_of (run ft ops) T) <-> anc (run ft ops) T A.
Proof. exact ancs_of_exact. Qed.
Print Assumptions C13_ancestors_exact.

Theorem C13_has_definer_exact : forall ft ops T n,
  has_definer (run ft ops) T n = true <-> exists c, definer (run ft ops) T n c.
Proof. exact has_definer_exact. Qed.
Print Assumptions C13_has_definer_exact.

(** C13_derived_survives_*: a live derived cells d of the space T, outside the
    deleted tree, is alive after the deletion IF AND ONLY IF a proper ancestor
    of T still defines its name - in the inheritance graph after the removal:
    [without st x] = x and everything inside x cut out of every container and
    base list, [cut_bases st s bs] = the edges s -> b (b in bs) removed.
    Specification level ([definer], [anc]); no fuel.  (A definer of the state
    before, reached through ancestors outside the deleted tree, is such a
    definer: [definer_left] in Alive/ProofsClos.v.) *)
Theorem C13_derived_survives_del_space : forall st p x st' o d T,
  Inv2 st -> step_del_space st p x = (st', o) ->
  alive st d = true -> is_derived st d = true -> parent_of st d = Some T ->
  ~ (d = x \/ In x (chain_of st d)) ->
  (alive st' d = true <-> exists c, definer (without st x) T (name_of st d) c).
Proof. exact del_space_derived_iff. Qed.
Print Assumptions C13_derived_survives_del_space.

Theorem C13_derived_survives_del_cells : forall st s c st' d T,
  Inv2 st -> step_del_cells st s c = (st', ODone) ->
  alive st d = true -> is_derived st d = true -> parent_of st d = Some T ->
  (alive st' d = true <-> exists c', definer (without st c) T (name_of st d) c').
Proof. exact del_cells_derived_iff. Qed.
Print Assumptions C13_derived_survives_del_cells.

Theorem C13_derived_survives_remove_bases : forall st s bs st' d T,
  Inv2 st -> step_remove_bases st s bs = (st', ODone) ->
  alive st d = true -> is_derived st d = true -> parent_of st d = Some T ->
  (alive st' d = true <-> exists c, definer (cut_bases st s bs) T (name_of st d) c).
Proof. exact remove_bases_derived_iff. Qed.
Print Assumptions C13_derived_survives_remove_bases.

(** C13_alive_untouched_*: an operation kills nothing outside its closure.
    Whatever object v (of any kind) was alive before and is dead afterwards
      (1) is the deleted object or is inside it, or
      (2) is a derived cells left without definer ([undefined_in G v T]: v is
          a live derived cells of T and no proper ancestor of T defines its
          name in the graph G after the removal), or
      (3) is, or is inside, an ItemSpace r that holds a dynamic copy of a space
          W ([dyn_roots st W], in the state before; [dyn_roots_spec]: r is the
          nearest ItemSpace around a live ItemSpace / dynamic space built from
          W) where W is the deleted space, a space the re-inheritance pass
          visits (the edited space and its sub spaces; the sub spaces of the
          spaces of the deleted tree), the parent that lost the member, or the
          space of a derived cells of (2).
    (3) is stated with the model's own sets [dyn_roots] / [subs_of]; the
    converse of (3) - these ItemSpaces do die - is C13_reinherit_* below, the
    converse of (2) is C13_derived_survives_*, of (1) C13_dead. *)
Theorem C13_alive_untouched_space : forall st p x st' o v,
  Inv3 st -> step_del_space st p x = (st', o) -> alive st v = true -> alive st' v = false ->
  (v = x \/ In x (chain_of st v))
  \/ (exists T, undefined_in (without st x) v T)
  \/ (exists r W, (r = v \/ In r (chain_of st v)) /\ In r (dyn_roots st W) /\
        (W = x
         \/ (exists y, In y (under_set st [x]) /\ is_kind st KSpace y = true /\ In W (subs_of st y))
         \/ (W = p /\ is_kind st KSpace p = true)
         \/ exists d, undefined_in (without st x) d W)).
Proof. exact del_space_closure_sharp. Qed.
Print Assumptions C13_alive_untouched_space.

Theorem C13_alive_untouched_cells : forall st s c st' v,
  Inv3 st -> step_del_cells st s c = (st', ODone) -> alive st v = true -> alive st' v = false ->
  v = c
  \/ (exists T, undefined_in (without st c) v T)
  \/ (exists r W, (r = v \/ In r (chain_of st v)) /\ In r (dyn_roots st W) /\
        (In W (s :: subs_of st s) \/ exists d, undefined_in (without st c) d W)).
Proof. exact del_cells_closure_sharp. Qed.
Print Assumptions C13_alive_untouched_cells.

Theorem C13_alive_untouched_remove_bases : forall st s bs st' v,
  Inv3 st -> step_remove_bases st s bs = (st', ODone) -> alive st v = true -> alive st' v = false ->
  (exists T, undefined_in (cut_bases st s bs) v T)
  \/ (exists r W, (r = v \/ In r (chain_of st v)) /\ In r (dyn_roots st W) /\
        (In W (s :: subs_of st s) \/ exists d, undefined_in (cut_bases st s bs) d W)).
Proof. exact remove_bases_closure_sharp. Qed.
Print Assumptions C13_alive_untouched_remove_bases.

(** what [dyn_roots st W] holds: r is the nearest ItemSpace around (or is) a
    live ItemSpace or dynamic space e built as a copy of W *)
Theorem C13_dyn_roots_spec : forall st W r, In r (dyn_roots st W) <-> holds_copy st r W.
Proof. exact dyn_roots_spec. Qed.
Print Assumptions C13_dyn_roots_spec.

(** the re-inheritance pass after [add_bases] (the sub spaces are taken in the
    graph with the new edges, [paste_bases]) kills ItemSpaces only *)
Theorem C13_alive_untouched_add_bases : forall st s bs st' v,
  Inv st -> step_add_bases st s bs = (st', ODone) -> alive st v = true -> alive st' v = false ->
  exists r W, (r = v \/ In r (chain_of st v)) /\ In r (dyn_roots st W)
              /\ In W (s :: subs_of (paste_bases st s bs) s).
Proof. exact add_bases_closure. Qed.
Print Assumptions C13_alive_untouched_add_bases.

(** in particular: a model / space / defined cells ([hard]) outside the deleted
    tree survives [del p.x], every one other than c survives [del s.c], all
    survive [remove_bases]; every static object (derived cells too) survives [add_bases] *)
Theorem C13_hard_untouched_space : forall st p x st' o v,
  Inv st -> step_del_space st p x = (st', o) -> hard st v ->
  ~ (v = x \/ In x (chain_of st v)) -> alive st' v = true.
Proof. exact del_space_untouched. Qed.
Print Assumptions C13_hard_untouched_space.

Theorem C13_hard_untouched_cells : forall st s c st' v,
  Inv st -> alive st s = true -> is_kind st KSpace s = true ->
  step_del_cells st s c = (st', ODone) -> hard st v -> v <> c -> alive st' v = true.
Proof. exact del_cells_untouched. Qed.
Print Assumptions C13_hard_untouched_cells.

Theorem C13_hard_untouched_remove_bases : forall st s bs st' v,
  Inv st -> step_remove_bases st s bs = (st', ODone) -> hard st v -> alive st' v = true.
Proof. exact remove_bases_untouched. Qed.
Print Assumptions C13_hard_untouched_remove_bases.

Theorem C13_static_untouched_add_bases : forall st s bs st' v,
  Inv st -> step_add_bases st s bs = (st', ODone) -> alive st v = true ->
  statick (kind_of st v) = true -> alive st' v = true.
Proof. exact add_bases_untouched. Qed.
Print Assumptions C13_static_untouched_add_bases.

(** C13_reinherit_*: indirect deletion through a re-inheritance pass.  Every space T
    the pass visits (the edited space s and its sub spaces; for [del p.x], x a
    space: x and the sub spaces of every space of the deleted tree) loses each
    ItemSpace r that is, or holds, an ItemSpace of T or a dynamic copy of T
    ([dyn_roots], taken before the operation): r and everything inside it - its
    dynamic spaces and cells, nested ItemSpaces - is dead afterwards, whether or
    not a member of T changed (the library's repair a66156d). *)
Theorem C13_reinherit_remove_bases : forall st s bs st' T r v,
  Inv st -> step_remove_bases st s bs = (st', ODone) ->
  In T (s :: subs_of st s) -> In r (dyn_roots st T) -> inside st' r v -> alive st' v = false.
Proof. exact remove_bases_discards. Qed.
Print Assumptions C13_reinherit_remove_bases.

Theorem C13_reinherit_add_bases : forall st s bs st' T r v,
  Inv st -> alive st s = true -> step_add_bases st s bs = (st', ODone) ->
  In T (s :: subs_of st s) -> In r (dyn_roots st T) -> inside st' r v -> alive st' v = false.
Proof. exact add_bases_discards. Qed.
Print Assumptions C13_reinherit_add_bases.

Theorem C13_reinherit_del_cells : forall st s c st' T r v,
  Inv st -> alive st s = true -> is_kind st KSpace s = true -> step_del_cells st s c = (st', ODone) ->
  In T (s :: subs_of st s) -> In r (dyn_roots st T) -> inside st' r v -> alive st' v = false.
Proof. exact del_cells_discards. Qed.
Print Assumptions C13_reinherit_del_cells.

Theorem C13_reinherit_del_space : forall st p x st' o T r v,
  Inv st -> step_del_space st p x = (st', o) ->
  (T = x \/ exists y, In y (under_set st [x]) /\ is_kind st KSpace y = true /\ In T (subs_of st y)) ->
  In r (dyn_roots st T) -> inside st' r v -> alive st' v = false.
Proof. exact del_space_discards. Qed.
Print Assumptions C13_reinherit_del_space.
