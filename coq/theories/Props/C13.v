(** C13 - deletion is complete: old handles raise, no value computed from it
    survives.  Property theorems only (model: Alive/Model.v; a handle is a uid;
    [run ft ops] = the state after the history [ops], any length, any
    operations; [ft] = the formula table of the case). *)
From Coq Require Import List String Bool ZArith NArith.
From MX Require Import Alive.Model Alive.ProofsRes Alive.ProofsStr Alive.ProofsDer Alive.ProofsStep Alive.ProofsTop Alive.ProofsInh.
Import ListNotations.

(** C13_no_residue: after every history no container (cells / spaces /
    ItemSpaces name maps), no base list, no stored value, no dependency
    listing ([v_deps]: transitive, [v_reads]: direct precedents) mentions a
    dead uid, and every container belongs to a live object *)
Theorem C13_no_residue : forall ft ops, Res (run ft ops).
Proof. exact no_residue. Qed.
Print Assumptions C13_no_residue.

(** in every reachable state everything inside a dead object (parent links,
    any depth: descendant spaces, their cells, ItemSpaces, dynamic members) is dead *)
Theorem C13_dead_inside : forall ft ops x u,
  inside (run ft ops) x u -> alive (run ft ops) x = false -> alive (run ft ops) u = false.
Proof. exact dead_inside. Qed.
Print Assumptions C13_dead_inside.

(** C13_dead: an accepted [del u.name] (u a model or a space reached through a
    live handle, the name a cells or a child space) kills the named object and
    everything inside it, after any history *)
Theorem C13_dead : forall ft ops h name u x v,
  let st := run ft ops in
  let st' := run ft (ops ++ [DelAttr h name]) in
  handle st h = Some u -> alive st u = true -> deleted_target st u name = Some x ->
  snd (step st (DelAttr h name)) = ODone ->
  inside st' x v -> alive st' v = false.
Proof. exact delete_kills_inside. Qed.
Print Assumptions C13_dead.

(** derived copies: in every reachable state a live derived cells has a live
    definer - a defined cells of the same name in a proper ancestor ([anc]:
    transitive closure of the base lists) of its space ... *)
Theorem C13_derived_has_definer : forall ft ops d,
  alive (run ft ops) d = true -> is_derived (run ft ops) d = true ->
  exists T c, parent_of (run ft ops) d = Some T /\ definer (run ft ops) T (name_of (run ft ops) d) c.
Proof. exact derived_has_definer. Qed.
Print Assumptions C13_derived_has_definer.

(** ... hence a derived copy whose definers are all gone (its sole definer was
    deleted, the base relation was removed, the base space was deleted) is dead *)
Theorem C13_dead_derived : forall ft ops d T,
  is_derived (run ft ops) d = true -> parent_of (run ft ops) d = Some T ->
  (forall c, ~ definer (run ft ops) T (name_of (run ft ops) d) c) ->
  alive (run ft ops) d = false.
Proof. exact derived_without_definer_dead. Qed.
Print Assumptions C13_dead_derived.

(** C13_handles: an operation answers the deleted-object error exactly when one
    of the handles it goes through is dead, and then nothing changes *)
Theorem C13_handles : forall st o,
  snd (step st o) = ODeleted <->
  exists u bs, handle st (fst (op_handles o)) = Some u /\ handles st (snd (op_handles o)) = Some bs
               /\ (alive st u && forallb (alive st) bs) = false.
Proof. exact deleted_iff_dead_handle. Qed.
Print Assumptions C13_handles.

Theorem C13_dead_handle_changes_nothing : forall st o, snd (step st o) = ODeleted -> fst (step st o) = st.
Proof. exact deleted_changes_nothing. Qed.
Print Assumptions C13_dead_handle_changes_nothing.

(** C13_alive_untouched, partial.  Full statement: deleting x kills nothing
    outside its closure (x, what is inside x, the derived copies left without
    definer, the ItemSpaces holding copies of what changed).  Proved: a model /
    space / defined cells ([hard]) outside the deleted tree survives [del p.x]
    (x a space), and every [hard] object other than c survives [del s.c] (c a
    cells).  Missing: (1) for derived cells "killed only if no definer is left"
    needs completeness of the fuelled ancestor computation ([ancs_of]; only
    its soundness is proved), (2) the same statements for remove_bases. *)
Theorem C13_alive_untouched_space_partial : forall st p x st' o v,
  Inv st -> step_del_space st p x = (st', o) -> hard st v ->
  ~ (v = x \/ In x (chain_of st v)) -> alive st' v = true.
Proof. exact del_space_untouched. Qed.
Print Assumptions C13_alive_untouched_space_partial.

Theorem C13_alive_untouched_cells_partial : forall st s c st' v,
  Inv st -> alive st s = true -> is_kind st KSpace s = true ->
  step_del_cells st s c = (st', ODone) -> hard st v -> v <> c -> alive st' v = true.
Proof. exact del_cells_untouched. Qed.
Print Assumptions C13_alive_untouched_cells_partial.

(** the invariant used above holds after every history *)
Theorem C13_invariant : forall ft ops, Inv (run ft ops).
Proof. exact inv_run. Qed.
Print Assumptions C13_invariant.

(** C13_reinherit_*: indirect deletion through a re-inheritance pass.  Every space T
    the pass visits (the edited space s and its sub spaces; for [del p.x], x a
    space: x and the sub spaces of every space of the deleted tree) loses each
    ItemSpace r that is, or holds, an ItemSpace of T or a dynamic copy of T
    ([dyn_roots], taken before the operation): r and everything inside it - its
    dynamic spaces and cells, nested ItemSpaces - is dead afterwards, whether or
    not a member of T changed (the library's repair a66156d). *)
Theorem C13_reinherit_remove_bases : forall st s bs st' T r v,
  Inv st -> step_remove_bases st s bs = (st', ODone) ->
  In T (s :: subs_of st s) -> In r (dyn_roots st T) -> inside st' r v -> alive st' v = false.
Proof. exact remove_bases_discards. Qed.
Print Assumptions C13_reinherit_remove_bases.

Theorem C13_reinherit_add_bases : forall st s bs st' T r v,
  Inv st -> alive st s = true -> step_add_bases st s bs = (st', ODone) ->
  In T (s :: subs_of st s) -> In r (dyn_roots st T) -> inside st' r v -> alive st' v = false.
Proof. exact add_bases_discards. Qed.
Print Assumptions C13_reinherit_add_bases.

Theorem C13_reinherit_del_cells : forall st s c st' T r v,
  Inv st -> alive st s = true -> is_kind st KSpace s = true -> step_del_cells st s c = (st', ODone) ->
  In T (s :: subs_of st s) -> In r (dyn_roots st T) -> inside st' r v -> alive st' v = false.
Proof. exact del_cells_discards. Qed.
Print Assumptions C13_reinherit_del_cells.

Theorem C13_reinherit_del_space : forall st p x st' o T r v,
  Inv st -> step_del_space st p x = (st', o) ->
  (T = x \/ exists y, In y (under_set st [x]) /\ is_kind st KSpace y = true /\ In T (subs_of st y)) ->
  In r (dyn_roots st T) -> inside st' r v -> alive st' v = false.
Proof. exact del_space_discards. Qed.
Print Assumptions C13_reinherit_del_space.
