(** C02 -- theorems under construction *)
From MX Require Import Exec.Model Exec.Spec Exec.Sim Exec.Top.
