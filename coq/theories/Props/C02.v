(** C02 — no stale value survives any edit.  Property theorems only. *)
From Coq Require Import List ZArith Bool.
From MX Require Import Exec.Model Exec.Spec Exec.Sim Exec.Cover Exec.Quiet Exec.Edits3 Exec.Edits4 Exec.Edits6 Exec.Results Exec.Top Exec.Rg Exec.Diff.
Import ListNotations.

(** For every model of the formula vocabulary — formulas may handle the
    failures of their callees: a value computed over a failure is returned but
    not kept (finding D20, repaired in /repo f19aef6; the model's [s_taint]) —
    whose formulas read by name
    only references visible in their space ([refn_ok], a static scoping
    condition), and every finite interleaving [ops] of evaluations with
    value assignments / overwrites, clear_at, clear, clear_all, formula
    changes, cached-flag changes, recalculation-option changes and changes of
    references (read by name or by attribute path, in the own space, another
    space or the model, directly or through uncached cells): in the state
    reached,
    - the dependency-coverage invariant [Quiet] holds,
    - every held value is user-assigned or equals the value of the uncached
      specification evaluator under the CURRENT definitions and inputs,
    - every further evaluation during which no failing clean-up of a
      try/finally replaced the depth-limit error ([s_masks] unchanged; see
      C01 and [Exec/FinMask.v]) returns that specification value (an error
      other than the depth limit is the specification's error).
    What was cached earlier therefore never changes a later answer.

    PARTIAL with respect to the property text: creating, deleting, renaming
    cells and spaces, base changes, creating / shadowing / deleting references
    are not operations of this executor model (they live in the Defs / Names /
    Alive layers, C03, C11-C13, and are covered here only through the
    "derived cells" realisation of the correspondence).  The differential
    form of the property text is [C02_live_equals_edits_only] below. *)
Theorem C02_answers_follow_current_definitions_partial :
  forall fuel cells refs maxd ops xs st,
  refn_ok (init cells refs maxd) -> ops_ok2 fuel (init cells refs maxd) ops ->
  run fuel (init cells refs maxd) ops = (xs, st) -> no_fuel_out xs -> s_reent st = false ->
  Quiet st /\
  (forall i v, lookup_data (s_data st) i = Some v ->
     mem_item i (s_inputs st) = true \/ exists f, spec_eval f st i = Val v) /\
  (forall i r st', eval_top fuel st i = (r, st') -> r <> OutOfFuel -> s_masks st' = s_masks st ->
     agrees r (fun g => spec_eval g st i)).
Proof. exact history_correct2. Qed.
Print Assumptions C02_answers_follow_current_definitions_partial.

(** one-step form: every operation preserves the invariant (one case per edit
    kind; inside, the locality lemma has one case per kind of read: cached
    element, uncached cells, reference by attribute, reference by name) *)
Theorem C02_step_preserves_invariant : forall fuel st o x st',
  step fuel st o = (x, st') -> x <> OFuel -> Quiet st -> refn_ok st -> s_reent st = false -> op_ok2 st o ->
  s_reent st' = true \/ (Quiet st' /\ refn_ok st').
Proof. exact step_quiet2. Qed.
Print Assumptions C02_step_preserves_invariant.

(** THE DIFFERENTIAL FORM (the property as worded).  [Diff.adefs] /
    [Diff.ainp_step] are the abstract model: what one edit does to the
    definitions and to the user-assigned values, evaluations doing nothing.
    In every state reached, definitions and assigned values are those of the
    abstract run over the history — i.e. of its edits alone. *)
Theorem C02_definitions_and_inputs_follow_the_edits : forall fuel ops st xs st',
  run fuel st ops = (xs, st') -> no_fuel_out xs -> Quiet st -> RgOK st -> refn_ok st -> s_reent st = false ->
  aops_ok (defs_of st) ops ->
  s_reent st' = true \/
  (Quiet st' /\ RgOK st' /\ refn_ok st' /\
   defs_of st' = arun_defs ops (defs_of st) /\
   forall i, ainp st' i = arun_inp ops (defs_of st) (ainp st) i).
Proof. exact run_abs. Qed.
Print Assumptions C02_definitions_and_inputs_follow_the_edits.

(** two histories whose edits coincide answer every request alike, whatever
    was evaluated, served from the cache, failed or recalculated in between *)
Theorem C02_same_edits_same_answers : forall fuel cells refs maxd ops1 ops2 xs1 xs2 st1 st2,
  refn_ok (init cells refs maxd) ->
  edits ops1 = edits ops2 -> aops_ok (cells, refs) ops1 ->
  run fuel (init cells refs maxd) ops1 = (xs1, st1) -> no_fuel_out xs1 -> s_reent st1 = false ->
  run fuel (init cells refs maxd) ops2 = (xs2, st2) -> no_fuel_out xs2 -> s_reent st2 = false ->
  forall i r1 r2 st1' st2',
    eval_top fuel st1 i = (r1, st1') -> eval_top fuel st2 i = (r2, st2') ->
    r1 <> OutOfFuel -> r2 <> OutOfFuel -> r1 <> Err KDeep -> r2 <> Err KDeep ->
    s_masks st1' = s_masks st1 -> s_masks st2' = s_masks st2 ->
    r1 = r2.
Proof. exact same_edits_same_answers. Qed.
Print Assumptions C02_same_edits_same_answers.

(** every value the model returns equals the value returned by a model to
    which only the edits were applied, with no evaluation in between *)
Theorem C02_live_equals_edits_only : forall fuel cells refs maxd ops xs xs' st st_e,
  refn_ok (init cells refs maxd) -> aops_ok (cells, refs) ops ->
  run fuel (init cells refs maxd) ops = (xs, st) -> no_fuel_out xs -> s_reent st = false ->
  run fuel (init cells refs maxd) (edits ops) = (xs', st_e) -> no_fuel_out xs' -> s_reent st_e = false ->
  forall i r r' st1 st2,
    eval_top fuel st i = (r, st1) -> eval_top fuel st_e i = (r', st2) ->
    r <> OutOfFuel -> r' <> OutOfFuel -> r <> Err KDeep -> r' <> Err KDeep ->
    s_masks st1 = s_masks st -> s_masks st2 = s_masks st_e ->
    r = r'.
Proof. exact live_equals_edits_only. Qed.
Print Assumptions C02_live_equals_edits_only.

(** the reference graph mentions only elements holding a computed value
    (false of the pinned code: finding D40, fixed) *)
Theorem C02_reference_graph_has_no_stale_reader : forall fuel st o x st',
  step fuel st o = (x, st') -> x <> OFuel -> Quiet st -> RgOK st -> RgOK st'.
Proof. exact step_RgOK. Qed.
Print Assumptions C02_reference_graph_has_no_stale_reader.

(** non-vacuity: an edit history over a model with a reference, an uncached
    cells and recursion; the stale candidate is recomputed *)
Definition ex2_cells : list (cid * cell) :=
  [ (0, mkCell [SAssign (EBin Add (ECall 1 [EPar 0]) (ERefA 0))] 1 [] true false 0);
    (1, mkCell [SAssign (EBin Mul (EPar 0) (EConst (VInt 2)))] 1 [] false false 1) ].
Example C02_example :
  let r := run 200 (init ex2_cells [(0, (Some 1, VInt 5))] 50)
             [OpEval (0, [VInt 3]); OpSetFormula 1 [SAssign (EBin Add (EPar 0) (EConst (VInt 1)))] 1 [];
              OpEval (0, [VInt 3]); OpSetValue (0, [VInt 4]) (VInt 7); OpEval (0, [VInt 4]);
              OpSetRef 0 (VInt 6); OpEval (0, [VInt 3])] in
  fst r = [OVal (VInt 11); OOk; OVal (VInt 9); OOk; OVal (VInt 7); OOk; OVal (VInt 10)] /\ s_reent (snd r) = false.
Proof. vm_compute. split; reflexivity. Qed.

(** the same history against its edits-only replay: hypotheses of
    [C02_live_equals_edits_only] hold and both models answer alike *)
Example C02_differential_example :
  let ops := [OpEval (0, [VInt 3]); OpSetFormula 1 [SAssign (EBin Add (EPar 0) (EConst (VInt 1)))] 1 [];
              OpEval (0, [VInt 3]); OpSetValue (0, [VInt 4]) (VInt 7); OpEval (0, [VInt 4]);
              OpSetRef 0 (VInt 6); OpEval (0, [VInt 3])] in
  let st0 := init ex2_cells [(0, (Some 1, VInt 5))] 50 in
  let live := run 200 st0 ops in
  let repl := run 200 st0 (edits ops) in
  List.length (edits ops) = 3
  /\ s_reent (snd live) = false /\ s_reent (snd repl) = false
  /\ fst (eval_top 200 (snd live) (0, [VInt 3])) = Val (VInt 10)
  /\ fst (eval_top 200 (snd repl) (0, [VInt 3])) = Val (VInt 10)
  /\ fst (eval_top 200 (snd live) (0, [VInt 4])) = fst (eval_top 200 (snd repl) (0, [VInt 4])).
Proof. vm_compute. repeat split; reflexivity. Qed.

(** a formula that handles the failure of a callee: its value is returned,
    not kept; once the cause is edited away the new value is computed and
    kept (finding D20, repaired) *)
Definition ex2c_cells : list (cid * cell) :=
  [ (0, mkCell [SAssign (EBin Add (ECall 1 [EPar 0]) (EConst (VInt 100)))] 1 [] true false 0);
    (1, mkCell [STry (ECall 2 [EPar 0]) (EConst (VInt (-1)))] 1 [] true false 0);
    (2, mkCell [SAssign (EBin FloorDiv (EConst (VInt 10)) (ECall 3 [EPar 0]))] 1 [] true false 0);
    (3, mkCell [SAssign (EConst (VInt 1))] 1 [] true false 0) ].
Example C02_caught_failure_example :
  let r := run 200 (init ex2c_cells [] 50)
             [OpSetValue (3, [VInt 1]) (VInt 0); OpEval (0, [VInt 1]); OpSetValue (3, [VInt 1]) (VInt 5); OpEval (0, [VInt 1])] in
  fst r = [OOk; OVal (VInt 99); OOk; OVal (VInt 102)]
  /\ map fst (s_data (snd (run 200 (init ex2c_cells [] 50) [OpSetValue (3, [VInt 1]) (VInt 0); OpEval (0, [VInt 1])])))
     = [(3, [VInt 1])]
  /\ map fst (s_data (snd r)) = [(3, [VInt 1]); (2, [VInt 1]); (1, [VInt 1]); (0, [VInt 1])]
  /\ s_taint (snd r) = 0 /\ s_reent (snd r) = false.
Proof. vm_compute. repeat split; reflexivity. Qed.
