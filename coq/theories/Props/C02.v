(** C02 — no stale value survives any edit.  Property theorems only. *)
From Coq Require Import List ZArith Bool.
From MX Require Import Exec.Model Exec.Spec Exec.Sim Exec.Cover Exec.Quiet Exec.Edits3 Exec.Edits4 Exec.Edits6 Exec.Results Exec.Top.
Import ListNotations.

(** For every model of the formula vocabulary whose formulas never handle the
    failure of a callee ([defs_ok]: recorded finding D20) and read by name
    only references visible in their space ([refn_ok], a static scoping
    condition), and every finite interleaving [ops] of evaluations with
    value assignments / overwrites, clear_at, clear, clear_all, formula
    changes, cached-flag changes, recalculation-option changes and changes of
    references (read by name or by attribute path, in the own space, another
    space or the model, directly or through uncached cells): in the state
    reached,
    - the dependency-coverage invariant [Quiet] holds,
    - every held value is user-assigned or equals the value of the uncached
      specification evaluator under the CURRENT definitions and inputs,
    - every further evaluation returns that specification value (an error
      other than the depth limit is the specification's error).
    What was cached earlier therefore never changes a later answer.

    PARTIAL with respect to the property text: (1) creating, deleting,
    renaming cells and spaces, base changes, creating / shadowing / deleting
    references are not operations of this executor model (they live in the
    Defs / Names / Alive layers, C03, C11-C13, and are covered here only
    through the "derived cells" realisation of the correspondence); (2) the
    statement is "answers = specification of the current definitions" rather
    than the differential "live model = replay of the edits only"; the latter
    follows once the definition/input part of the state is shown to evolve
    independently of the cache (not mechanised; the differential itself is run
    on the implementation by the check). *)
Theorem C02_answers_follow_current_definitions_partial :
  forall fuel cells refs maxd ops xs st,
  defs_ok cells -> refn_ok (init cells refs maxd) -> ops_ok2 fuel (init cells refs maxd) ops ->
  run fuel (init cells refs maxd) ops = (xs, st) -> no_fuel_out xs -> s_reent st = false ->
  Quiet st /\
  (forall i v, lookup_data (s_data st) i = Some v ->
     mem_item i (s_inputs st) = true \/ exists f, spec_eval f st i = Val v) /\
  (forall i r st', eval_top fuel st i = (r, st') -> r <> OutOfFuel ->
     agrees r (fun g => spec_eval g st i)).
Proof. exact history_correct2. Qed.
Print Assumptions C02_answers_follow_current_definitions_partial.

(** one-step form: every operation preserves the invariant (one case per edit
    kind; inside, the locality lemma has one case per kind of read: cached
    element, uncached cells, reference by attribute, reference by name) *)
Theorem C02_step_preserves_invariant : forall fuel st o x st',
  step fuel st o = (x, st') -> x <> OFuel -> Quiet st -> refn_ok st -> s_reent st = false -> op_ok2 st o ->
  s_reent st' = true \/ (Quiet st' /\ refn_ok st').
Proof. exact step_quiet2. Qed.
Print Assumptions C02_step_preserves_invariant.

(** non-vacuity: an edit history over a model with a reference, an uncached
    cells and recursion; the stale candidate is recomputed *)
Definition ex2_cells : list (cid * cell) :=
  [ (0, mkCell [SAssign (EBin Add (ECall 1 [EPar 0]) (ERefA 0))] 1 [] true false 0);
    (1, mkCell [SAssign (EBin Mul (EPar 0) (EConst (VInt 2)))] 1 [] false false 1) ].
Example C02_example :
  let r := run 200 (init ex2_cells [(0, (Some 1, VInt 5))] 50)
             [OpEval (0, [VInt 3]); OpSetFormula 1 [SAssign (EBin Add (EPar 0) (EConst (VInt 1)))] 1 [];
              OpEval (0, [VInt 3]); OpSetValue (0, [VInt 4]) (VInt 7); OpEval (0, [VInt 4]);
              OpSetRef 0 (VInt 6); OpEval (0, [VInt 3])] in
  fst r = [OVal (VInt 11); OOk; OVal (VInt 9); OOk; OVal (VInt 7); OOk; OVal (VInt 10)] /\ s_reent (snd r) = false.
Proof. vm_compute. split; reflexivity. Qed.
