(** C10 — object-valued references rebind relatively or stay absolute as their
    mode says.  Property theorems only (RelRef/Model.v: definitions,
    RelRef/Proofs.v, RelRef/ProofsState.v: lemmas and examples). *)
From Coq Require Import List String Bool.
From MX Require Import RelRef.Model RelRef.Proofs RelRef.ProofsState.
Import ListNotations.
Open Scope list_scope.

(** the roots used by [SpaceGraph.get_relative] are an aligned pair of ancestors
    (sub = sr ++ rest, bas = br ++ rest), [br] is in the C3 order of [sr], and no
    pair further out has that property *)
Theorem C10_roots : forall im sub bas sr br,
  roots im sub bas = Some (sr, br) ->
  exists rest, sub = sr ++ rest /\ bas = br ++ rest /\ im sr br = true /\
    (forall sr0 br0 rest0, sub = sr0 ++ rest0 -> bas = br0 ++ rest0 ->
       List.length sr0 < List.length sr -> im sr0 br0 = false).
Proof. exact roots_spec. Qed.
Print Assumptions C10_roots.

(** roots exist whenever the definer is in the C3 order of the deriver *)
Theorem C10_roots_total : forall im sub bas,
  im sub bas = true -> exists sr br, roots im sub bas = Some (sr, br).
Proof. exact roots_total. Qed.
Print Assumptions C10_roots_total.

(** [get_relative] returns [p] exactly when [value = basroot ++ s] and
    [p = subroot ++ s]; it returns None exactly when the value is outside the
    tree of [basroot]; it never fails *)
Theorem C10_get_relative_char : forall im sub bas sr br,
  roots im sub bas = Some (sr, br) -> br <> [] ->
  forall value,
    (forall p, get_relative im sub bas value = GSome p <-> exists s, value = br ++ s /\ p = sr ++ s) /\
    (get_relative im sub bas value = GNone <-> forall s, value <> br ++ s) /\
    get_relative im sub bas value <> GFail.
Proof. exact get_relative_char. Qed.
Print Assumptions C10_get_relative_char.

(** the only failure ("must not happen") is: no aligned pair is related *)
Theorem C10_get_relative_fail : forall im sub bas value,
  get_relative im sub bas value = GFail <-> (lcp bas value <> [] /\ roots im sub bas = None).
Proof. exact get_relative_fail. Qed.
Print Assumptions C10_get_relative_fail.

(** relative / auto mode, target = the defining space or anything inside its
    tree ([definer ++ s], any depth): every deriving space binds the
    corresponding object [deriver ++ s] — for every C3 relation, all nesting
    depths of definer and deriver, whichever roots are chosen *)
Theorem C10_static : forall im m deriver definer s,
  m <> Absolute -> definer <> [] -> im deriver definer = true ->
  on_inherit im m deriver definer (definer ++ s) = Der m (deriver ++ s) true.
Proof. exact static_inside. Qed.
Print Assumptions C10_static.

(** the same in terms of the rule of the property text *)
Theorem C10_static_rebind : forall im m deriver definer tg,
  m <> Absolute -> definer <> [] -> im deriver definer = true -> is_prefix definer tg = true ->
  on_inherit im m deriver definer tg = Der m (rebind m definer tg deriver) true.
Proof. exact static_rebind. Qed.
Print Assumptions C10_static_rebind.

(** deriving along a chain d0 <- d1 <- d2 = deriving d2 from d0 directly *)
Theorem C10_static_chain : forall im m d0 d1 d2 s,
  m <> Absolute -> d0 <> [] -> d1 <> [] ->
  im d1 d0 = true -> im d2 d1 = true -> im d2 d0 = true ->
  exists t1, on_inherit im m d1 d0 (d0 ++ s) = Der m t1 true /\
             on_inherit im m d2 d1 t1 = on_inherit im m d2 d0 (d0 ++ s).
Proof. exact static_chain. Qed.
Print Assumptions C10_static_chain.

Theorem C10_rebind_chain : forall m d0 d1 d2 tg,
  (is_prefix d0 tg = true \/ (is_prefix d0 tg = false /\ is_prefix d1 tg = false)) ->
  rebind m d1 (rebind m d0 tg d1) d2 = rebind m d0 tg d2.
Proof. exact rebind_chain. Qed.
Print Assumptions C10_rebind_chain.

(** absolute mode: the original object, always *)
Theorem C10_absolute : forall im deriver definer tg,
  on_inherit im Absolute deriver definer tg = Der Absolute tg false.
Proof. exact absolute_unchanged. Qed.
Print Assumptions C10_absolute.

(** target outside the tree (of the base root): auto keeps the original object,
    relative is rejected ("Relative reference out of scope") *)
Theorem C10_outside : forall im sub bas tg sr br,
  roots im sub bas = Some (sr, br) -> br <> [] -> is_prefix br tg = false ->
  on_inherit im Auto sub bas tg = Der Auto tg false /\
  on_inherit im Relative sub bas tg = ErrScope.
Proof. exact outside_roots. Qed.
Print Assumptions C10_outside.

(** complete description of [on_inherit] for every mode and target *)
Theorem C10_on_inherit_char : forall im m sub bas tg sr br,
  roots im sub bas = Some (sr, br) -> br <> [] ->
  on_inherit im m sub bas tg =
    match m with
    | Absolute => Der Absolute tg false
    | _ => match strip_prefix br tg with
           | Some s => Der m (sr ++ s) true
           | None => match m with Auto => Der Auto tg false | _ => ErrScope end
           end
    end.
Proof. exact on_inherit_roots. Qed.
Print Assumptions C10_on_inherit_char.

(** when no outer aligned ancestors are related (the roots are the spaces
    themselves) the code is the rule of the property text for all targets *)
Theorem C10_simple_is_rebind : forall im m deriver definer tg,
  roots im deriver definer = Some (deriver, definer) -> definer <> [] ->
  on_inherit im m deriver definer tg =
    match m with
    | Relative => if is_prefix definer tg then Der Relative (rebind Relative definer tg deriver) true
                  else ErrScope
    | _ => Der m (rebind m definer tg deriver) (negb (mode_eqb m Absolute) && is_prefix definer tg)
    end.
Proof. exact simple_is_rebind. Qed.
Print Assumptions C10_simple_is_rebind.

(** ItemSpaces (ideal component-wise prefix rule) *)
Theorem C10_dynamic : forall m root s tg,
  (m <> Absolute -> dyn_bind m root (root ++ s) = DDyn s) /\
  dyn_bind Absolute root tg = DStatic tg /\
  (is_prefix root tg = false ->
     dyn_bind Auto root tg = DStatic tg /\ dyn_bind Relative root tg = DErrScope).
Proof. exact dynamic_rule. Qed.
Print Assumptions C10_dynamic.

(** a reference that the static counterpart [root ++ q] of a dynamic space
    derives from [b] with a target inside [b]'s tree is bound, in the dynamic
    space, to the corresponding object of the dynamic tree *)
Theorem C10_dynamic_derived : forall t ds root q n b m s,
  find_def ds (root ++ q) n = None ->
  first_definer ds (mro_of t (root ++ q)) n = Some (b, m, b ++ s) ->
  m <> Absolute -> b <> [] -> In b (mro_of t (root ++ q)) ->
  dyn_binding t ds root q n = DDyn (q ++ s).
Proof. exact dyn_derived. Qed.
Print Assumptions C10_dynamic_derived.

(** for every edit history (graph edits, set / change / delete of references):
    what the spaces hold = the from-scratch derivation from (defined refs, C3 table) *)
Theorem C10_stable : forall ops sp n,
  lookup (run ops init) sp n =
  binding (s_tbl (run ops init)) (s_defs (run ops init)) sp n.
Proof. exact stable. Qed.
Print Assumptions C10_stable.

(** hence two histories ending in the same table and defined references (base
    changes undone, the model rebuilt by read_model) bind alike *)
Theorem C10_history_independent : forall ops1 ops2,
  s_tbl (run ops1 init) = s_tbl (run ops2 init) ->
  (forall sp n, find_def (s_defs (run ops1 init)) sp n = find_def (s_defs (run ops2 init)) sp n) ->
  forall sp n, lookup (run ops1 init) sp n = lookup (run ops2 init) sp n.
Proof. exact history_independent. Qed.
Print Assumptions C10_history_independent.

(** deriving again changes nothing *)
Theorem C10_idempotent : forall ops sp0 sp n,
  let st := run ops init in
  lookup (fst (step st (GraphOp sp0 (s_tbl st)))) sp n = lookup st sp n.
Proof. exact rederive_idempotent. Qed.
Print Assumptions C10_idempotent.
