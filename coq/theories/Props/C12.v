(** C12 - Names are unique per space and the visible namespace equals the
    containers.  Property theorems only (model: Names/Model.v). *)
From Coq Require Import List String Bool.
From MX Require Import C3.Model Names.Model Names.ProofsInv Names.ProofsVisible.
Import ListNotations.

(** after every history, in every space, a name is at most one of: a cells
    (defined or derived), an own reference (defined or derived), a child
    space; in the model a name is not both a space and a reference *)
Theorem C12_unique : forall h,
  let st := run h in
  (forall p n, has_space st p = true ->
     (has_cells st p n = true -> has_ref st p n = false /\ has_child st p n = false)
     /\ (has_ref st p n = true -> has_child st p n = false))
  /\ (forall n, has_child st [] n = true -> has_key n (st_grefs st) = false).
Proof. exact reachable_unique. Qed.
Print Assumptions C12_unique.

(** no edit - in particular no edit of a base space - can make a name denote
    two kinds of thing in any (sub) space: the state after ANY operation on a
    reachable state has the property in every space *)
Theorem C12_base_edit : forall h o,
  let st' := snd (step (run h) o) in
  forall d n, has_space st' d = true ->
    (has_cells st' d n = true -> has_ref st' d n = false /\ has_child st' d n = false)
    /\ (has_ref st' d n = true -> has_child st' d n = false).
Proof. exact base_edit_keeps_unique. Qed.
Print Assumptions C12_base_edit.

(** dir(space) lists exactly the names of the chained namespace: the cells,
    the references (own, special names, the model's) and the child spaces -
    in every state, as a function of the containers *)
Theorem C12_visible : forall st p n, In n (dir_names st p) <-> in_namespace st p n = true.
Proof. exact visible_names. Qed.
Print Assumptions C12_visible.

Theorem C12_lookup : forall st p n, ns_lookup st p n <> None <-> in_namespace st p n = true.
Proof. exact lookup_visible. Qed.
Print Assumptions C12_lookup.

(** what a visible name denotes: cells, then own references, then the special
    names, then the model's references, then child spaces *)
Theorem C12_lookup_kinds : forall st p n,
  (ns_lookup st p n = Some KCells <-> has_cells st p n = true)
  /\ (ns_lookup st p n = Some KOwnRef <-> has_cells st p n = false /\ has_ref st p n = true)
  /\ (ns_lookup st p n = Some KGlobalRef <->
      has_cells st p n = false /\ has_ref st p n = false /\ mem_str n sys_names = false /\ has_gref st n = true)
  /\ (ns_lookup st p n = Some KSpace <->
      has_cells st p n = false /\ has_ref st p n = false /\ mem_str n sys_names = false /\ has_gref st n = false
      /\ has_child st p n = true).
Proof. exact lookup_kinds. Qed.
Print Assumptions C12_lookup_kinds.

(** space-level references take precedence over model-level ones: in a
    reachable state an own reference (defined or derived) is what its name
    denotes, whatever the model defines *)
Theorem C12_own_ref_wins : forall h p n,
  let st := run h in
  has_space st p = true -> has_ref st p n = true -> ns_lookup st p n = Some KOwnRef.
Proof. exact own_ref_wins. Qed.
Print Assumptions C12_own_ref_wins.

(** the same for an ItemSpace space[args]: dir() lists exactly the cells, the
    parameters of the space, the special names, the references of the base
    space (own, derived), the model's references and the child spaces *)
Theorem C12_item_visible : forall st p n, In n (item_dir_names st p) <-> item_in_namespace st p n = true.
Proof. exact item_visible_names. Qed.
Print Assumptions C12_item_visible.

Theorem C12_item_lookup : forall st p n, item_lookup st p n <> None <-> item_in_namespace st p n = true.
Proof. exact item_lookup_visible. Qed.
Print Assumptions C12_item_lookup.

(** a parameter takes precedence over every reference of that name (only a cells hides it) *)
Theorem C12_item_param_wins : forall st p n,
  has_cells st p n = false -> mem_str n (params_of st p) = true -> item_lookup st p n = Some KParam.
Proof. exact item_param_wins. Qed.
Print Assumptions C12_item_param_wins.
