(** C12 - property theorems only. *)
From Coq Require Import List String.
From MX Require Import C3.Model Names.Model Names.Proofs.
Import ListNotations.

Theorem C12_init : all_mro_ok (graph_of init) = true /\ all_disjoint init = true.
Proof. exact init_ok. Qed.
Print Assumptions C12_init.
