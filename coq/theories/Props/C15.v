(** C15 — an exported package computes the same values as the model.
    Property theorems only.  Model: Export/Model.v (formula grammar with binders,
    [classify_global]/[transform] = transformer.py's scope rule, evaluator [eval] with
    fuel for calls, the modelx world [Wo] and the exported world [Wt], memo tables). *)
From Coq Require Import List String ZArith Bool.
From MX Require Import Export.Model Export.Proofs Export.Examples Export.Run Export.RunProofs.
Import ListNotations.

(** the symtable rule: a name occurrence is global iff no enclosing function /
    comprehension scope binds it *)
Theorem C15_classify_spec : forall sc x, classify_global sc x = true <-> ~ In x sc.
Proof. exact classify_spec. Qed.
Print Assumptions C15_classify_spec.

(** For every model satisfying [model_ok] (namespace values and built-ins are
    closure-free, no formula uses the name [self], the transformer knows every namespace
    name that shadows a built-in, its cells set names cells), every expression [e] of the
    grammar, every environment of enclosing scopes, every amount of fuel: whenever the
    formula evaluates to a value in the model (globals = namespace of its space, then
    built-ins), the transformed formula evaluated in the exported package (globals =
    built-ins, [self.<n>] = namespace entry n of the space object) evaluates to the same
    value, up to the translation [tv] of function objects created by the formula
    (identity on closure-free values).
    One-directional on purpose: where the model raises (e.g. subscribing a cells inside
    a formula: a bound method) the exported package may return a value. *)
Theorem C15_transform_sound : forall M, model_ok M -> forall n s e en v,
  env_ok en = true -> no_self e = true ->
  eval n (Wo M) s e en = Ok v ->
  eval n (Wt M) s (transform (m_cfg M s) (map fst en) e) (tenv M en ++ self_frame s) = Ok (tv M v).
Proof. exact transform_sound. Qed.
Print Assumptions C15_transform_sound.

(** whole-package form: a cells of any space (static, derived, ItemSpace instance:
    any [sid]) called from outside with closure-free arguments returns in the exported
    package the closure-free value it returns in the model *)
Theorem C15_exported_cells_same_value : forall M, model_ok M -> forall n s nm args v,
  forallb fo args = true -> fo v = true ->
  call_cells n (Wo M) s nm args = Ok v ->
  call_cells n (Wt M) s nm args = Ok v.
Proof. exact call_cells_same_value. Qed.
Print Assumptions C15_exported_cells_same_value.

(** the transformation never touches a binder *)
Theorem C15_transform_keeps_binders : forall c e sc, assigned (transform c sc e) = assigned e.
Proof. exact assigned_transform. Qed.
Print Assumptions C15_transform_keeps_binders.

(** the generated memoised method ([_v_x] / [_has_x] tables) answers, on any sequence of
    calls, clears and item deletions from any consistent table, what the uncached body
    answers *)
Theorem C15_memo_sound : forall (V : Type) (f : key -> V) ops t,
  memo_inv f t ->
  snd (mrun f t ops) = mspec f ops /\ memo_inv f (fst (mrun f t ops)).
Proof. exact @memo_sound. Qed.
Print Assumptions C15_memo_sound.

(** the hypotheses are satisfiable on a non-trivial model (two spaces, a reference
    shadowing a built-in, an object-valued reference, a lambda, a comprehension, a
    keyword call): Export/Examples.v *)
Theorem C15_hypotheses_satisfiable :
  model_ok M0 /\ call_cells 5 (Wo M0) 0 "foo" [VInt 2] = Ok (VInt 50)
              /\ call_cells 5 (Wt M0) 0 "foo" [VInt 2] = Ok (VInt 50).
Proof. exact (conj M0_ok (conj M0_foo_model M0_foo_exported)). Qed.
Print Assumptions C15_hypotheses_satisfiable.

(** bridge to the implementation: the correspondence check evaluates the decidable
    [model_okb] on the tables dumped from every real model (namespaces, formulas,
    ItemSpaces, and what the exporter hands to FormulaTransformer).  It implies the
    hypothesis [model_ok]; hence for such a model, for every cells, all closure-free
    arguments and any fuel, the exported world returns the value the model returns. *)
Theorem C15_checked_model_sound : forall tbl bi, model_okb tbl bi = true ->
  forall n s nm args v, forallb fo args = true -> fo v = true ->
  call_cells n (Wo (mk_model tbl bi)) s nm args = Ok v ->
  call_cells n (Wt (mk_model tbl bi)) s nm args = Ok v.
Proof. exact checked_model_sound. Qed.
Print Assumptions C15_checked_model_sound.
