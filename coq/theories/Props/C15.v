(** C15 — an exported package computes the same values as the model.  Property theorems only. *)
From Coq Require Import List String.
From MX Require Import Export.Model Export.Proofs.
Import ListNotations.

Theorem C15_classify_spec : forall sc x, classify_global sc x = true <-> ~ In x sc.
Proof. exact classify_spec. Qed.
Print Assumptions C15_classify_spec.
