(** C01 — memoisation is transparent.  Property theorems only. *)
From Coq Require Import List ZArith Bool.
From MX Require Import Exec.Model Exec.Spec Exec.Sim Exec.Top Exec.FinMask.
Import ListNotations.

(** Whatever elements were requested before and in whatever order (any list
    of evaluations [ops] from the initial state, whatever they returned), a
    call returns the value of the uncached specification evaluator, which
    interprets the formula as a pure function of the definitions; an error
    other than the recursion-depth limit is the specification's error.
    With try/finally ([SFin]) the failure of a clean-up replaces ANY pending
    failure, the depth-limit error included (the old exclusion [k = KDeep] no
    longer suffices: [Exec/FinMask.v] refutes the statement without the new
    hypothesis).  [s_masks] is a ghost counter of exactly these events;
    [s_masks st' = s_masks st] says that none happened during the request.
    It holds trivially for definitions without [SFin]. *)
Theorem C01_transparent : forall fuel cells refs maxd ops xs st i x st',
  forallb is_eval ops = true ->
  run fuel (init cells refs maxd) ops = (xs, st) -> no_fuel_out xs ->
  step fuel st (OpEval i) = (x, st') -> x <> OFuel -> s_masks st' = s_masks st ->
  match x with
  | OVal v => exists g, sp_node g (cells, refs) [] i = Val v
  | OErr k => k = KDeep \/ exists g, sp_node g (cells, refs) [] i = Err k
  | _ => False
  end.
Proof. exact transparent. Qed.
Print Assumptions C01_transparent.

(** the same from any state satisfying the cache invariant (every held
    computed value is the specification's value), which evaluation preserves *)
Theorem C01_transparent_inv : forall fuel st i r st',
  eval_top fuel st i = (r, st') -> r <> OutOfFuel -> Inv st ->
  Inv st' /\ frame st st' /\ (s_masks st' = s_masks st -> agrees r (fun g => spec_eval g st i)).
Proof. exact eval_top_sim. Qed.
Print Assumptions C01_transparent_inv.

(** while an element holds a value its formula is never run again *)
Theorem C01_computed_once : forall fuel st i r st' j,
  eval_top fuel st i = (r, st') -> r <> OutOfFuel -> Inv st -> held st j ->
  exists l, s_log st' = l ++ s_log st /\ ~ In j l.
Proof. exact computed_once. Qed.
Print Assumptions C01_computed_once.

(** calls that bind to the same arguments denote the same element: the bound
    key is complete and binds to itself *)
Theorem C01_bind_canonical : forall cl args k,
  bind_pos cl args = Some k -> List.length (cl_defaults cl) <= cl_nparams cl ->
  List.length k = cl_nparams cl /\ bind_pos cl k = Some k.
Proof. exact bind_pos_canonical. Qed.
Print Assumptions C01_bind_canonical.

(** non-vacuity: fib with an uncached helper and a reference; the second
    request is a cache hit and the values are the specification's *)
Definition ex_cells : list (cid * cell) :=
  [ (0, mkCell [SAssign (EIfPos (EBin Sub (EPar 0) (EConst (VInt 1)))
                          (EBin Add (ECall 0 [EBin Sub (EPar 0) (EConst (VInt 1))])
                                    (ECall 0 [EBin Sub (EPar 0) (EConst (VInt 2))]))
                          (ECall 1 []))] 1 [] true false 0);
    (1, mkCell [SAssign (ERefA 0)] 0 [] false false 0) ].
Definition ex_refs : list (rid * (option nat * val)) := [(0, (Some 0, VInt 1))].
Example C01_example :
  fst (run 400 (init ex_cells ex_refs 50) [OpEval (0, [VInt 10]); OpEval (0, [VInt 9])])
  = [OVal (VInt 89); OVal (VInt 55)]
  /\ sp_node 400 (ex_cells, ex_refs) [] (0, [VInt 10]) = Val (VInt 89).
Proof. split; vm_compute; reflexivity. Qed.
