(** C09 — the cached flag never changes any result. *)
From Coq Require Import List ZArith Bool.
From MX Require Import Exec.Model Exec.Spec Exec.Sim Exec.Cover Exec.Quiet Exec.Edits3 Exec.Edits4 Exec.Edits6 Exec.Results Exec.Top.
Import ListNotations.

(** PARTIAL.  Proved: (1) switching the flag of any cells at any point of a
    history keeps the invariant, so afterwards every answer is again the
    specification value of the current definitions — invalidation reaches
    every held value computed through an uncached cells (the coverage
    invariant records the uncached cells as a predecessor of the cached
    caller); (2) uncached cells hold no values.
    Not proved: that the specification value itself is independent of the
    flags (it is, except for the None check that only cached cells perform:
    recorded finding D33).  Reference changes, read by name or by attribute
    path inside uncached cells, are covered (third theorem). *)
Theorem C09_flag_change_keeps_invariant : forall fuel st c b x st',
  step fuel st (OpSetCached c b) = (x, st') -> x <> OFuel -> Quiet st -> s_reent st = false ->
  s_reent st' = true \/ Quiet st'.
Proof. intros. eapply step_quiet; eauto. exact I. Qed.
Print Assumptions C09_flag_change_keeps_invariant.

Theorem C09_uncached_hold_nothing : forall st i,
  Quiet st -> has st i -> is_cached st (fst i) = true.
Proof. intros st i Q. exact (proj2 (proj2 (proj2 (proj2 (graph_matches_cache st Q)))) i). Qed.
Print Assumptions C09_uncached_hold_nothing.

Theorem C09_histories_with_flag_changes : forall fuel cells refs maxd ops xs st,
  defs_ok cells -> refn_ok (init cells refs maxd) -> ops_ok2 fuel (init cells refs maxd) ops ->
  run fuel (init cells refs maxd) ops = (xs, st) -> no_fuel_out xs -> s_reent st = false ->
  Quiet st /\
  (forall i v, lookup_data (s_data st) i = Some v ->
     mem_item i (s_inputs st) = true \/ exists f, spec_eval f st i = Val v) /\
  (forall i r st', eval_top fuel st i = (r, st') -> r <> OutOfFuel ->
     agrees r (fun g => spec_eval g st i)).
Proof. exact history_correct2. Qed.
Print Assumptions C09_histories_with_flag_changes.
