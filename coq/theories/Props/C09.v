(** C09 — the cached flag never changes any result. *)
From Coq Require Import List ZArith Bool.
From MX Require Import Exec.Model Exec.Spec Exec.Sim Exec.Cover Exec.Quiet Exec.Edits3 Exec.Edits4 Exec.Edits6 Exec.Results Exec.Top Exec.Flags.
Import ListNotations.

(** (1) Switching the flag of any cells at any point of a history keeps the
    invariant, so afterwards every answer is again the specification value of
    the current definitions — invalidation reaches every held value computed
    through an uncached cells (the coverage invariant records the uncached
    cells as a predecessor of the cached caller); (2) uncached cells hold no
    values; (3) the specification value itself does not depend on the flags
    ([C09_spec_ignores_flags]; false of the pinned code, where only cached
    cells performed the None check: finding D33, repaired in /repo 008a3ab),
    hence (4) two reachable states whose definitions differ only in cached
    flags answer every request alike ([C09_flags_never_change_a_result]).
    Reference changes, read by name or by attribute path inside uncached
    cells, are covered (third theorem).  The depth-limit error is excluded
    from (4): the executor's stack bound is not part of the specification;
    so are the requests during which the failing clean-up of a try/finally
    replaced that error ([s_masks] unchanged; see C01, [Exec/FinMask.v]). *)
Theorem C09_flag_change_keeps_invariant : forall fuel st c b x st',
  step fuel st (OpSetCached c b) = (x, st') -> x <> OFuel -> Quiet st -> s_reent st = false ->
  s_reent st' = true \/ Quiet st'.
Proof. intros. eapply step_quiet; eauto. exact I. Qed.
Print Assumptions C09_flag_change_keeps_invariant.

Theorem C09_uncached_hold_nothing : forall st i,
  Quiet st -> has st i -> is_cached st (fst i) = true.
Proof. intros st i Q. exact (proj2 (proj2 (proj2 (proj2 (graph_matches_cache st Q)))) i). Qed.
Print Assumptions C09_uncached_hold_nothing.

Theorem C09_histories_with_flag_changes : forall fuel cells refs maxd ops xs st,
  refn_ok (init cells refs maxd) -> ops_ok2 fuel (init cells refs maxd) ops ->
  run fuel (init cells refs maxd) ops = (xs, st) -> no_fuel_out xs -> s_reent st = false ->
  Quiet st /\
  (forall i v, lookup_data (s_data st) i = Some v ->
     mem_item i (s_inputs st) = true \/ exists f, spec_eval f st i = Val v) /\
  (forall i r st', eval_top fuel st i = (r, st') -> r <> OutOfFuel -> s_masks st' = s_masks st ->
     agrees r (fun g => spec_eval g st i)).
Proof. exact history_correct2. Qed.
Print Assumptions C09_histories_with_flag_changes.

Theorem C09_spec_ignores_flags : forall c1 c2 refs inp,
  flags_only c1 c2 -> inputs_cached c1 inp -> inputs_cached c2 inp -> forall f,
  (forall args locs e, sp_expr f (c1, refs) inp args locs e = sp_expr f (c2, refs) inp args locs e) /\
  (forall args locs es, sp_args f (c1, refs) inp args locs es = sp_args f (c2, refs) inp args locs es) /\
  (forall i, sp_node f (c1, refs) inp i = sp_node f (c2, refs) inp i) /\
  (forall args locs rest, sp_body f (c1, refs) inp args locs rest = sp_body f (c2, refs) inp args locs rest).
Proof. exact flags_irrelevant. Qed.
Print Assumptions C09_spec_ignores_flags.

Theorem C09_flags_never_change_a_result : forall fuel st1 st2 i r1 r2 st1' st2',
  Quiet st1 -> Quiet st2 ->
  flags_only (s_cells st1) (s_cells st2) -> s_refs st1 = s_refs st2 ->
  (forall j, lookup_data (input_data st1) j = lookup_data (input_data st2) j) ->
  eval_top fuel st1 i = (r1, st1') -> eval_top fuel st2 i = (r2, st2') ->
  r1 <> OutOfFuel -> r2 <> OutOfFuel -> r1 <> Err KDeep -> r2 <> Err KDeep ->
  s_masks st1' = s_masks st1 -> s_masks st2' = s_masks st2 -> r1 = r2.
Proof. exact flags_never_change_a_result. Qed.
Print Assumptions C09_flags_never_change_a_result.

(** non-vacuity: the same history under two flag assignments, a callee that
    returns None (refused in both) and one that is allowed to *)
Definition ex9f_cells (b1 b2 : bool) : list (cid * cell) :=
  [ (0, mkCell [STry (ECall 1 [EPar 0]) (EConst (VInt 0)); SAssign (EBin Add (ELoc 0) (ECall 2 [EPar 0]))] 1 [] true false 0);
    (1, mkCell [SAssign (EIfPos (EPar 0) (EPar 0) (EConst VNone))] 1 [] b1 false 0);
    (2, mkCell [SAssign (EIfPos (ECall 3 [EPar 0]) (EConst (VInt 5)) (EConst (VInt 7)))] 1 [] b2 false 0);
    (3, mkCell [SAssign (EBin Sub (EPar 0) (EConst (VInt 1)))] 1 [] true true 0) ].
Example C09_flags_example :
  let run_with b1 b2 := fst (run 100 (init (ex9f_cells b1 b2) [] 50) [OpEval (0, [VInt 0]); OpEval (0, [VInt 3]); OpEval (1, [VInt 0])]) in
  run_with true true = [OErr KNone; OVal (VInt 8); OErr KNone]
  /\ run_with false false = run_with true true /\ run_with true false = run_with true true
  /\ flags_only (ex9f_cells true true) (ex9f_cells false false).
Proof.
  vm_compute. repeat split; try reflexivity.
  intros c. do 4 (destruct c as [|c]; [vm_compute; repeat split; reflexivity|]). vm_compute. exact I.
Qed.
