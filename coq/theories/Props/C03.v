(** C03 — derived members equal re-derivation from defined members along the
    C3 order.  Property theorems only (proofs: C3/Proofs.v, Defs/Proofs.v). *)
From Coq Require Import List String ZArith.
From MX Require Import C3.Model C3.Proofs Defs.Model Defs.Proofs.
Import ListNotations.

(** MAIN: after ANY sequence of operations (accepted or rejected) the members
    of every space are exactly [rederive] of the defined members and the
    graph - incremental maintenance equals derivation from scratch - and
    [bases] is the tail of the C3 linearisation, which exists *)
Theorem C03_ideal : forall h : list op,
  st_spaces (run h) = rederive (defined_part (st_spaces (run h))) (st_graph (run h)) /\
  (forall s, In s (keys (st_spaces (run h))) ->
     exists l, mro_of (st_graph (run h)) s = Ok l /\ bases_obs (run h) s = tl l).
Proof. exact run_rederive. Qed.
Print Assumptions C03_ideal.

(** what [rederive] means, name by name, for arbitrary defined parts and
    graphs: the own defined member, else ONE derived copy carrying the payload
    of the first definer along the linearisation, else nothing *)
Theorem C03_rederive_spec : forall k g sp p n,
  lookup n (mem_of k (rederive_space g sp p)) =
  match lookup n (defined_members (mem_of k (get sp p))) with
  | Some m => Some m
  | None => option_map as_derived (first_def k sp n (tl (mro_list g p)))
  end.
Proof. exact rederive_lookup. Qed.
Print Assumptions C03_rederive_spec.

(** the two together on reachable states *)
Theorem C03_member_spec : forall h k p n,
  In p (keys (st_spaces (run h))) ->
  lookup n (mem_of k (get (st_spaces (run h)) p)) =
  match lookup n (defined_members (mem_of k (get (st_spaces (run h)) p))) with
  | Some m => Some m
  | None => option_map as_derived (first_def k (st_spaces (run h)) n (bases_obs (run h) p))
  end.
Proof. exact run_member_spec. Qed.
Print Assumptions C03_member_spec.

(** ... and that copy is the only member of that name ("exactly one") *)
Theorem C03_names_unique : forall h p k,
  NoDup (map fst (mem_of k (get (st_spaces (run h)) p))).
Proof. exact names_unique_run. Qed.
Print Assumptions C03_names_unique.

(** the order in which sub spaces are re-derived (topological / DFS / BFS) does not matter *)
Theorem C03_visit_order_irrelevant : forall g sp V V',
  (forall q, In q V <-> In q V') ->
  forall q, get (update_subs g sp V) q = get (update_subs g sp V') q.
Proof. exact update_subs_order_irrelevant. Qed.
Print Assumptions C03_visit_order_irrelevant.

(** a derived cells has the formula of its first definer and is evaluated
    with names resolved in the sub space *)
Theorem C03_derived_eval : forall h p n m,
  In p (keys (st_spaces (run h))) ->
  lookup n (sp_cells (get (st_spaces (run h)) p)) = Some m -> m_derived m = true ->
  exists md, first_def KCells (st_spaces (run h)) n (bases_obs (run h) p) = Some md /\
             m_pay m = m_pay md /\
             eval_cells (get (st_spaces (run h)) p) n =
             eval_payload (sp_refs (get (st_spaces (run h)) p)) (m_pay md).
Proof. exact derived_eval. Qed.
Print Assumptions C03_derived_eval.

(** the laws of the linearisation that [bases] reports: head, no duplicates,
    members = the space and its ancestors, local precedence, monotonicity,
    fuel monotonicity *)
Theorem C03_mro_laws : forall f g n l, mro f g n = Ok l ->
  (exists l', l = n :: l') /\ NoDup l /\
  (forall x, In x l <-> anc g n x) /\
  (forall x, In x l -> subseq (x :: bases_of g x) l) /\
  (forall b, In b (bases_of g n) -> forall f' lb, mro f' g b = Ok lb -> subseq lb l) /\
  (forall f', f <= f' -> mro f' g n = Ok l).
Proof. exact mro_laws. Qed.
Print Assumptions C03_mro_laws.

(** the result depends only on the declared bases of the node and its ancestors *)
Theorem C03_mro_local : forall f g g' n,
  (forall x, anc g n x -> bases_of g x = bases_of g' x) -> mro f g n = mro f g' n.
Proof. exact mro_local. Qed.
Print Assumptions C03_mro_local.

(** fuel: |nodes|+1 reproduces every result; never OutOfFuel where a rank exists (acyclic) *)
Theorem C03_mro_fuel : forall f g n l, mro f g n = Ok l -> incl l (nodes g) -> mro_of g n = Ok l.
Proof. exact mro_fuel_sufficient. Qed.
Print Assumptions C03_mro_fuel.

Theorem C03_mro_no_oof : forall (rank : path -> nat) g,
  (forall n b, In b (bases_of g n) -> rank b < rank n) ->
  forall f n, rank n < f -> mro f g n <> OutOfFuel.
Proof. exact mro_no_oof_ranked. Qed.
Print Assumptions C03_mro_no_oof.

(** a rejected operation leaves the state unchanged *)
Theorem C03_rejected_unchanged : forall st o r,
  snd (step st o) = Rejected r -> fst (step st o) = st.
Proof. exact step_rejected_unchanged. Qed.
Print Assumptions C03_rejected_unchanged.
