(** C19 — Model registry: unique names, no model dropped, close exact.
    Property theorems only (statements over ALL operation sequences:
    [run (init cm cb) ops] for arbitrary namer counters and operation lists).
    Isolation between the contents of models is not a theorem of this layer:
    the registry model has no model contents, [C19_edit_registry_unchanged]
    holds by construction and the claim rests on the (P) oracle of
    harness/props/C19.py (stated as such in the evidence). *)
From Coq Require Import List String.
From MX Require Import Registry.Model Registry.ProofsBase Registry.Proofs Registry.Theorems.
Import ListNotations.

(** every key maps to a model whose current name is that key; keys and
    models are duplicate free; names are valid; the current model is registered *)
Theorem C19_reg_inv : forall cm cb ops,
  let s := run (init cm cb) ops in
  NoDup (map fst (reg s)) /\ NoDup (map snd (reg s))
  /\ (forall k m, In (k, m) (reg s) -> nlookup m (names s) = Some k /\ valid_name k = true /\ m < next s)
  /\ (forall c, cur s = Some c -> registered s c).
Proof. exact reg_inv_all. Qed.
Print Assumptions C19_reg_inv.

(** no operation other than closing [m] itself removes [m] from the registry *)
Theorem C19_no_drop : forall cm cb ops o m,
  let s := run (init cm cb) ops in
  registered s m -> o <> Close m -> registered (fst (step s o)) m.
Proof. exact no_drop_all. Qed.
Print Assumptions C19_no_drop.

(** new_model(n) / rename(n, rename_old=True) / read_model under a taken name [n]:
    the model that held [n] keeps its identity under n_BAKc (c a fresh value of
    the single backup counter) and [n] now designates another model *)
Theorem C19_clash_backup : forall cm cb ops o n m s',
  let s := run (init cm cb) ops in
  claims s o = Some n -> lookup n (reg s) = Some m -> step s o = (s', Done) ->
  exists c m', cnt_bak s < c /\ cnt_bak s' = c
    /\ lookup (bak n c) (reg s') = Some m /\ name_of s' m = bak n c
    /\ lookup n (reg s') = Some m' /\ m' <> m.
Proof. exact clash_backup_all. Qed.
Print Assumptions C19_clash_backup.

(** close removes exactly that model and touches no other entry or name *)
Theorem C19_close_exact : forall cm cb ops h,
  let s := run (init cm cb) ops in
  registered s h ->
  exists s', step s (Close h) = (s', Done)
    /\ (forall m, registered s' m <-> registered s m /\ m <> h)
    /\ (forall k m, m <> h -> (lookup k (reg s') = Some m <-> lookup k (reg s) = Some m))
    /\ names s' = names s /\ next s' = next s.
Proof. exact close_exact_all. Qed.
Print Assumptions C19_close_exact.

(** a rejected operation changes nothing (only a failing read_model consumes an
    automatic name and resets the current model) *)
Theorem C19_rejected_unchanged : forall cm cb ops o e s',
  let s := run (init cm cb) ops in
  step s o = (s', Raised e) ->
  reg s' = reg s /\ names s' = names s /\ next s' = next s /\ files s' = files s
  /\ cnt_bak s' = cnt_bak s /\ ((forall slot name, o <> Read slot name) -> s' = s).
Proof. exact rejected_unchanged_all. Qed.
Print Assumptions C19_rejected_unchanged.

(** renaming onto a taken name without rename_old changes nothing *)
Theorem C19_rename_taken_noop : forall cm cb ops h new m,
  let s := run (init cm cb) ops in
  lookup new (reg s) = Some m -> step s (Rename h new false) = (s, Done) \/
  exists e, step s (Rename h new false) = (s, Raised e).
Proof. exact rename_taken_noop_all. Qed.
Print Assumptions C19_rename_taken_noop.

(** a handle whose model is not registered any more cannot change anything
    (the pinned tree violated this — finding stale_handle — repaired in /repo 4f69f1f) *)
Theorem C19_stale_handle : forall cm cb ops h o,
  let s := run (init cm cb) ops in
  ~ registered s h -> (o = Close h \/ exists new ro, o = Rename h new ro) \/ (exists slot, o = Write h slot) ->
  fst (step s o) = s.
Proof. exact stale_handle_all. Qed.
Print Assumptions C19_stale_handle.

(** AutoNamer.get_next: fuel |existing|+1 suffices at every call, more fuel changes nothing *)
Theorem C19_fuel_suffices : forall cm cb ops o x,
  let s := run (init cm cb) ops in
  1 <= x -> step_x x s o = step s o /\ snd (step s o) <> OutOfFuel.
Proof. exact fuel_suffices_all. Qed.
Print Assumptions C19_fuel_suffices.

(** isolation, registry part (by construction of the model) *)
Theorem C19_edit_registry_unchanged : forall s h sc,
  let s' := fst (step s (Edit h sc)) in
  snd (step s (Edit h sc)) = Done /\ reg s' = reg s /\ names s' = names s /\ next s' = next s
  /\ cnt_model s' = cnt_model s /\ cnt_bak s' = cnt_bak s /\ files s' = files s
  /\ (cur s' = cur s \/ (sc = true /\ is_open s h = true /\ cur s' = Some h)).
Proof. exact edit_registry_unchanged. Qed.
Print Assumptions C19_edit_registry_unchanged.
