(** C11 - Rejected edits change nothing; the inheritance relation stays
    well-formed.  Property theorems only (model: Names/Model.v). *)
From Coq Require Import List String Bool.
From MX Require Import C3.Model Names.Model Names.ProofsNoop Names.ProofsNames Names.ProofsInv.
Import ListNotations.

(** for EVERY state (reachable or not) and every operation: a rejection - an
    invalid or clashing name, cyclic inheritance, bases without a consistent
    linearisation, a name conflict between members, deleting a derived member,
    renaming a cells that has base cells, a malformed formula, None assigned to
    a cells, ... - returns the state it was applied to.  The model keeps the
    code's order "put the cells / the space into its container, then fail" for
    new_cells and new_space, so this includes that the roll-back is exact. *)
Theorem C11_rejected_noop : forall st o r st', step st o = (Rejected r, st') -> st' = st.
Proof. exact rejected_noop. Qed.
Print Assumptions C11_rejected_noop.

(** after every history: every space has a C3 linearisation - it starts with
    the space, has no repetition and lists exactly the space and its ancestors
    - and no space is its own proper ancestor (the base relation is acyclic) *)
Theorem C11_wellformed : forall h,
  let st := run h in
  let g := graph_of st in
  (forall p, has_space st p = true ->
     exists l, mro_of g p = Ok (p :: l) /\ NoDup (p :: l) /\ (forall x, In x (p :: l) <-> anc g p x))
  /\ (forall p b, In b (bases_of g p) -> ~ anc g b p).
Proof. exact reachable_wellformed. Qed.
Print Assumptions C11_wellformed.

(** the structure behind it: the paths of the spaces form a tree (the parent of
    a space is a space) and every declared base is a space of the model *)
Theorem C11_structure : forall h,
  let st := run h in
  (forall q, has_space st q = true -> q <> [] /\ (parent_of q = [] \/ has_space st (parent_of q) = true))
  /\ (forall p b, has_space st p = true -> In b (bases_at st p) -> has_space st b = true).
Proof. exact reachable_structure. Qed.
Print Assumptions C11_structure.

(** after every history: every component of every space path and the name of
    every cells (defined or derived) satisfies is_valid_name *)
Theorem C11_names : forall h,
  let st := run h in
  (forall p, In p (keys st) -> p <> [] /\ forallb is_valid_name p = true) /\
  (forall p n, has_space st p = true -> has_cells st p n = true -> is_valid_name n = true).
Proof. exact reachable_names. Qed.
Print Assumptions C11_names.

(** is_valid_name = identifier, not a keyword, no leading underscore *)
Theorem C11_valid_name_spec : forall s,
  is_valid_name s = true <->
  is_identifier s = true /\ ~ In s keywords /\ starts_underscore s = false.
Proof. exact is_valid_name_spec. Qed.
Print Assumptions C11_valid_name_spec.
