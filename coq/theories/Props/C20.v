(** C20 - Formula capture is faithful and idempotent; rename and doc edits
    are inert.  Property theorems only (statements over the line / token
    algebra of Capture/Model.v; Python's tokenizer and compiler are outside:
    token positions are the ones a structured text has by construction, the
    harness compares them with asttokens on every generated text). *)
From Coq Require Import List String Ascii Bool.
From MX Require Import Capture.Model Capture.Texts Capture.Proofs Capture.ProofsDef Capture.ProofsDoc
     Capture.ProofsStored Capture.Main Capture.Examples.
Import ListNotations.
Open Scope list_scope.

(** what [Formula(text, name)] stores is the canonical text: indentation and
    decorator lines removed, blank-only lines emptied, one final line feed,
    the name token replaced - for every well-formed structured text *)
Theorem C20_normal_form : forall t nm,
  wf_ftext t = true -> normalize t nm = render (canon t nm).
Proof. exact normalize_render. Qed.
Print Assumptions C20_normal_form.

(** idempotence: feeding the stored text [s] to [Formula] again (with or
    without the name) gives [s] *)
Theorem C20_idem : forall t nm,
  wf_ftext t = true -> no_nl nm = true ->
  let s := normalize t (Some nm) in
  let pos := name_pos (canon t (Some nm)) in
  init_from_funcdef s (Some nm) None pos = s /\ init_from_funcdef s None None pos = s.
Proof. exact idem_main. Qed.
Print Assumptions C20_idem.

(** the stored definition is named [nm]; white space after "def", the
    parameters and the rest of the def line, every body line and every
    comment line outside the decorators are kept (minus the common indentation) *)
Theorem C20_name : forall t nm,
  wf_ftext t = true -> no_nl nm = true ->
  splitlines (normalize t (Some nm))
  = map dline (ft_lead t) ++ map dline (ft_mid t)
    ++ (def_kw ++ ft_defws t ++ nm ++ ft_sig t) :: map dline (ft_rest t).
Proof. exact name_main. Qed.
Print Assumptions C20_name.

Theorem C20_name_kept : forall t,
  wf_ftext t = true ->
  splitlines (normalize t None)
  = map dline (ft_lead t) ++ map dline (ft_mid t)
    ++ (def_kw ++ ft_defws t ++ ft_name t ++ ft_sig t) :: map dline (ft_rest t).
Proof. exact name_none_main. Qed.
Print Assumptions C20_name_kept.

(** renaming changes the name token and nothing else *)
Theorem C20_rename_inert : forall t nm nm',
  wf_ftext t = true -> no_nl nm = true ->
  rename_src (normalize t (Some nm)) nm' (name_pos (canon t (Some nm))) = normalize t (Some nm')
  /\ normalize t (Some nm) = text_before_name t ++ nm ++ text_after_name t
  /\ normalize t (Some nm') = text_before_name t ++ nm' ++ text_after_name t.
Proof. exact rename_main. Qed.
Print Assumptions C20_rename_inert.

(** [replace_docstring] splices the quoted documentation in place of the
    docstring statement (or in front of the first statement) and keeps
    everything else - for every view and every documentation string *)
Theorem C20_replace_docstring : forall t d,
  replace_docstring (drender t) (dpos_of t) d false = drender (set_doc_text t d)
  /\ d_front (set_doc_text t d) = d_front t /\ d_bind (set_doc_text t d) = d_bind t
  /\ (exists sep, d_tail (set_doc_text t d) = sep ++ d_tail t /\
                  (d_doc t <> None -> sep = []) /\
                  (d_doc t = None -> sep = if d_oneline t then oneline_sep else nl :: d_bind t))
  /\ (safe_doc d = true ->
      read_doc (skipn (dp_S (dpos_of t)) (drender (set_doc_text t d))) = Some d).
Proof. exact doc_main_partial. Qed.
Print Assumptions C20_replace_docstring.

(** [set_doc] (edit, then [Formula(edited, name)] again): the stored text
    changes in the docstring statement only, is a stored text again (a fixed
    point of [Formula]; name token unchanged), and the documentation read
    back is the one given - for every well-formed docstring view of a stored
    text and every [safe_doc] documentation string.
    (insert_indents=True is covered by the tie only.) *)
Theorem C20_doc_inert : forall t name npos d,
  wf_dtext t name npos -> safe_doc d = true ->
  let s' := set_doc_src (drender t) (dpos_of t) d false name npos in
  s' = drender (set_doc_text t d)
  /\ stored s' name npos
  /\ init_from_funcdef s' (Some name) None npos = s'
  /\ read_doc (skipn (dp_S (dpos_of t)) s') = Some d.
Proof. exact doc_main. Qed.
Print Assumptions C20_doc_inert.

(** the decidable test the tie evaluates on every generated view implies
    the hypothesis of C20_doc_inert *)
Theorem C20_doc_wf_check : forall t name npos,
  wf_dtextb t name npos = true -> wf_dtext t name npos.
Proof. exact doc_check_main. Qed.
Print Assumptions C20_doc_wf_check.

(** every stored text is a fixed point of [Formula(text, name)] *)
Theorem C20_stored_fixed : forall s name npos,
  stored s name npos -> init_from_funcdef s (Some name) None npos = s.
Proof. exact stored_main. Qed.
Print Assumptions C20_stored_fixed.

(** a lambda embedded in a longer statement is stored as the lambda
    expression itself, and storing that again changes nothing *)
Theorem C20_lambda : forall t,
  wf_ltext t = true ->
  normalize_lambda t = l_lam t
  /\ (forall c r, l_lam t = c :: r -> is_ws c = false ->
      init_lambda_from_source (l_lam t) 0 (List.length (l_lam t)) = l_lam t).
Proof. exact lambda_main. Qed.
Print Assumptions C20_lambda.

(** the decorator on an existing cells updates formula and flag (ideal; D10) *)
Theorem C20_defcells : forall st newsrc b,
  defcells_existing st newsrc (Some b) = (newsrc, b)
  /\ defcells_existing st newsrc None = (newsrc, snd st).
Proof. exact defcells_main. Qed.
Print Assumptions C20_defcells.
