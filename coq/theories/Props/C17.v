(** C17 — the error traceback. *)
From Coq Require Import List ZArith Bool.
From MX Require Import Exec.Model Exec.Spec Exec.Sim Exec.Results Exec.Top.
Import ListNotations.

(** PARTIAL.  Proved: after a failing top-level evaluation the recorded
    traceback is non-empty, starts (outermost first) with the requested
    element, the error kind is recorded, and nothing is left in the
    rolled-back list — whatever happened before (any [Inv] state: earlier
    failures, handled or not, leave no trace).  Together with C05 the error
    is the specification's error.
    Not proved: that the remaining entries are exactly the executing chain
    with the call-site lines (needs a specification-level chain; the
    reference-interpreter oracle and the correspondence check it on every
    run). *)
Theorem C17_traceback_outermost_partial : forall fuel st i k st' cl,
  eval_top fuel st i = (Err k, st') -> Inv st -> s_stack st = [] ->
  lookup_cell (s_cells st) (fst i) = Some cl ->
  exists ln rest, s_err st' = Some (k, (i, ln) :: rest) /\ s_rolled st' = [].
Proof. exact traceback_outermost. Qed.
Print Assumptions C17_traceback_outermost_partial.
