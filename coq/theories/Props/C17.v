(** C17 — the error traceback. *)
From Coq Require Import List ZArith Bool.
From MX Require Import Exec.Model Exec.Spec Exec.Sim Exec.Results Exec.Top Exec.Chain Exec.Sim3
  Exec.Cover Exec.Quiet Exec.Edits4 Exec.Edits6 Exec.FinMask.
Import ListNotations.

(** The specification of the traceback is [Chain.spec_chain]: the
    specification evaluator (a function of the current definitions and
    inputs only — no cache, no stack, no history) instrumented with the chain
    of elements whose formulas are executing when the error escapes, each with
    the line where the next call or the error occurred.

    [C17_traceback_exact]: in ANY state satisfying the executor invariant
    (hence after any history, see the two corollaries) a failing top-level
    evaluation records exactly the specification's error and exactly the
    specification's chain, and leaves nothing in the rolled-back list.
    Excluded: the recursion-depth error [KDeep] (it depends on the executor's
    stack limit, which the specification does not have) and, since a failing
    clean-up of a try/finally replaces ANY pending failure, the requests
    during which it replaced that error ([s_masks] unchanged: the ghost
    counter of these events; trivially so without [SFin]; [Exec/FinMask.v]
    refutes the statement without it). *)
Theorem C17_traceback_exact : forall fuel st i k st',
  eval_top fuel st i = (Err k, st') -> k <> KDeep -> s_masks st' = s_masks st -> Inv st ->
  lookup_cell (s_cells st) (fst i) <> None ->
  forall g rc cc, spec_chain g (defs_of st) (input_data st) i = (rc, cc) -> rc <> OutOfFuel ->
  rc = Err k /\ s_err st' = Some (k, cc) /\ s_rolled st' = [].
Proof. exact traceback_exact. Qed.
Print Assumptions C17_traceback_exact.

(** irrespective of earlier failures, escaped or handled by formulas: any
    sequence of earlier evaluations, no restriction on the formulas *)
Theorem C17_exact_after_any_evaluations : forall fuel cells refs maxd ops xs st i k st',
  forallb is_eval ops = true ->
  run fuel (init cells refs maxd) ops = (xs, st) -> no_fuel_out xs ->
  eval_top fuel st i = (Err k, st') -> k <> KDeep -> s_masks st' = s_masks st -> lookup_cell cells (fst i) <> None ->
  forall g rc cc, spec_chain g (cells, refs) [] i = (rc, cc) -> rc <> OutOfFuel ->
  rc = Err k /\ s_err st' = Some (k, cc) /\ s_rolled st' = [].
Proof. exact traceback_exact_after_evals. Qed.
Print Assumptions C17_exact_after_any_evaluations.

(** … and after histories that also edit values, formulas and references
    (under the hypotheses of C02) *)
Theorem C17_exact_after_any_history : forall fuel cells refs maxd ops xs st i k st',
  refn_ok (init cells refs maxd) -> ops_ok2 fuel (init cells refs maxd) ops ->
  run fuel (init cells refs maxd) ops = (xs, st) -> no_fuel_out xs -> s_reent st = false ->
  eval_top fuel st i = (Err k, st') -> k <> KDeep -> s_masks st' = s_masks st -> lookup_cell (s_cells st) (fst i) <> None ->
  forall g rc cc, spec_chain g (defs_of st) (input_data st) i = (rc, cc) -> rc <> OutOfFuel ->
  rc = Err k /\ s_err st' = Some (k, cc) /\ s_rolled st' = [].
Proof. exact traceback_exact_after_history. Qed.
Print Assumptions C17_exact_after_any_history.

(** a successful evaluation leaves no frames behind for the next failure *)
Theorem C17_success_leaves_nothing : forall fuel st i v st',
  eval_top fuel st i = (Val v, st') -> Inv st -> s_rolled st = [] -> s_rolled st' = [].
Proof. exact success_no_traceback. Qed.
Print Assumptions C17_success_leaves_nothing.

(** the weaker statement proved first (kept: it has no [KDeep] exclusion) *)
Theorem C17_traceback_outermost_partial : forall fuel st i k st' cl,
  eval_top fuel st i = (Err k, st') -> Inv st -> s_stack st = [] ->
  lookup_cell (s_cells st) (fst i) = Some cl ->
  exists ln rest, s_err st' = Some (k, (i, ln) :: rest) /\ s_rolled st' = [].
Proof. exact traceback_outermost. Qed.
Print Assumptions C17_traceback_outermost_partial.

(** Non-vacuity: an escaped failure (cell 3), then a failure that cell 4
    catches and handles itself around a call, then a failing request through
    an uncached cell; the recorded traceback is the specification chain of
    the last request only. *)
Definition ex17_cells : list (cid * cell) :=
  [ (0, mkCell [SAssign (ECall 1 [EPar 0]); SAssign (ECall 2 [EPar 0])] 1 [] true false 0);
    (1, mkCell [SAssign (EBin Add (EPar 0) (EConst (VInt 1)))] 1 [] true false 0);
    (2, mkCell [SAssign (ECall 3 [EPar 0])] 1 [] false false 0);
    (3, mkCell [SAssign (EBin FloorDiv (EConst (VInt 1)) (EConst (VInt 0)))] 1 [] true false 0);
    (4, mkCell [STry (ECall 3 [EPar 0]) (EConst (VInt 7))] 1 [] true false 0) ].
Example C17_example :
  let ops := [OpEval (3, [VInt 4]); OpEval (4, [VInt 4])] in
  let r := run 100 (init ex17_cells [] 50) ops in
  let e := eval_top 100 (snd r) (0, [VInt 4]) in
  forallb is_eval ops = true
  /\ fst r = [OErr KZero; OVal (VInt 7)]
  /\ fst e = Err KZero
  /\ s_err (snd e) = Some (KZero, [((0, [VInt 4]), 4); ((2, [VInt 4]), 3); ((3, [VInt 4]), 3)])
  /\ spec_chain 100 (ex17_cells, []) [] (0, [VInt 4])
     = (Err KZero, [((0, [VInt 4]), 4); ((2, [VInt 4]), 3); ((3, [VInt 4]), 3)]).
Proof. vm_compute. repeat split; reflexivity. Qed.
