(** C06 — a value edit discards exactly its dependents; inputs persist. *)
From Coq Require Import List ZArith Bool.
From MX Require Import Exec.Model Exec.Spec Exec.Sim Exec.Graph Exec.Cover Exec.Quiet Exec.Edits Exec.Edits3 Exec.Results Exec.Top Exec.Rg Exec.Diff Exec.Reads Exec.Exact Exec.Exact2.
Import ListNotations.

(** Clearing (the first half of assigning / overwriting) the value of element
    [i]: exactly the held elements reachable from [i] along dependency edges —
    which, by the coverage invariant, are the elements computed directly or
    transitively from [i] — lose their value; every other held value is
    untouched; no other input is lost; the invariant is kept. *)
Theorem C06_discards_exactly_descendants : forall st i,
  Quiet st -> has st i ->
  let st' := clear_value_at st i true in
  Quiet st' /\
  (forall m, lookup_data (s_data st') m =
             if mem_node (node_of m) (descs_with st (node_of i)) then None else lookup_data (s_data st) m) /\
  (forall m, In (node_of m) (descs_with st (node_of i)) <-> path (s_edges st) (node_of i) (node_of m)) /\
  (forall m, m <> i -> mem_item m (s_inputs st') = mem_item m (s_inputs st)).
Proof. exact clear_exact. Qed.
Print Assumptions C06_discards_exactly_descendants.

(** the dependency edges are complete: every element an element's formula
    read (directly or through uncached cells) has an edge to it, so an element
    NOT reachable from [i] never read [i] *)
Theorem C06_edges_cover_reads : forall st,
  Quiet st ->
  forall j v, lookup_data (s_data st) j = Some v -> mem_item j (s_inputs st) = false ->
  exists f ds, Reads.dr_own f (defs_of st) (input_data st) j = (Val v, ds) /\ Forall (cov_rd st j) ds.
Proof. intros st Q. exact (proj1 (proj2 (proj2 (proj2 (graph_matches_cache st Q))))). Qed.
Print Assumptions C06_edges_cover_reads.

(** the whole assignment, with both settings of the recalculation option:
    the invariant is kept, hence kept values are served from the cache
    (C01_computed_once) and recomputed ones equal the specification *)
Theorem C06_set_value_keeps_invariant : forall fuel st i v x st',
  step fuel st (OpSetValue i v) = (x, st') -> x <> OFuel -> Quiet st -> s_reent st = false ->
  s_reent st' = true \/ Quiet st'.
Proof. intros. eapply step_quiet; eauto. exact I. Qed.
Print Assumptions C06_set_value_keeps_invariant.

(** an assigned value is what the cells returns for those arguments, whatever
    its formula, and no formula runs *)
Theorem C06_input_returned : forall fuel st i v cl,
  lookup_cell (s_cells st) (fst i) = Some cl -> cl_cached cl = true ->
  lookup_data (s_data st) i = Some v -> eval_top fuel st i = (Val v, st).
Proof. exact input_returned. Qed.
Print Assumptions C06_input_returned.

(** clear() never loses a user-assigned value *)
Theorem C06_clear_keeps_inputs : forall st c m,
  Quiet st -> mem_item m (s_inputs st) = true ->
  let st' := clear_all_values st c false in
  mem_item m (s_inputs st') = true /\ lookup_data (s_data st') m = lookup_data (s_data st) m.
Proof. exact clear_keeps_inputs. Qed.
Print Assumptions C06_clear_keeps_inputs.

(** Values assigned by the user survive everything but an edit of their own
    element or a reset of their own cells: after ANY operation — evaluation,
    failed evaluation, assignment or clearing of another element, clear(),
    formula or flag change of another cells, change of any reference, with
    either setting of the recalculation option — the assigned values are
    exactly [ainp_step … o] of the assigned values before: [OpSetValue j v]
    (when accepted) sets j, [OpClearAt j] removes j, clear_all / a formula
    change / a flag change of cells c remove those of c, nothing else changes
    anything.  (False of the pinned code for reference changes: D40, fixed.) *)
Theorem C06_inputs_change_only_by_their_own_edits : forall fuel st o x st',
  step fuel st o = (x, st') -> x <> OFuel -> Quiet st -> RgOK st ->
  defs_of st' = adefs (defs_of st) o /\ forall i, ainp st' i = ainp_step (defs_of st) o (ainp st) i.
Proof. exact step_abs. Qed.
Print Assumptions C06_inputs_change_only_by_their_own_edits.

(** The dependency edges are EXACT: for an element [j] holding a computed
    value, there is an edge from [m] to [j] iff [j]'s own formula called [m]
    (directly or through uncached cells) when it was computed.  Hence the
    elements reachable from [i] in the graph ([C06_discards_exactly_descendants])
    are precisely those computed directly or transitively from [i] — not a
    superset.  [Exa] is kept by every operation (C08_step_keeps_exactness). *)
Theorem C06_edge_iff_read : forall st m j v,
  Quiet st -> Exa st -> lookup_data (s_data st) j = Some v -> mem_item j (s_inputs st) = false ->
  (In (node_of m, node_of j) (s_edges st) <->
   exists f ds, dr_own f (defs_of st) (input_data st) j = (Val v, ds) /\ In (RItem m) ds).
Proof. exact edge_iff_read. Qed.
Print Assumptions C06_edge_iff_read.

(** Non-vacuity: chain c0 <- c1 <- c2, overwrite c0. *)
Definition ex6_cells : list (cid * cell) :=
  [ (0, mkCell [SAssign (EConst (VInt 1))] 0 [] true false 0);
    (1, mkCell [SAssign (EBin Add (ECall 0 []) (EConst (VInt 1)))] 0 [] true false 0);
    (2, mkCell [SAssign (EBin Add (ECall 1 []) (EConst (VInt 1)))] 0 [] true false 0);
    (3, mkCell [SAssign (EConst (VInt 9))] 0 [] true false 0) ].
Example C06_example :
  let r := run 100 (init ex6_cells [] 50) [OpEval (2, []); OpEval (3, []); OpSetValue (0, []) (VInt 10); OpEval (2, [])] in
  fst r = [OVal (VInt 3); OVal (VInt 9); OOk; OVal (VInt 12)]
  /\ map fst (s_data (snd (run 100 (init ex6_cells [] 50) [OpEval (2, []); OpEval (3, []); OpSetValue (0, []) (VInt 10)])))
     = [(3, []); (0, [])].
Proof. vm_compute. split; reflexivity. Qed.
