(** C16 — Memory-optimised runs give the direct results and keep only the
    targets.  Property theorems only.

    Reading guide.  [g : dag] is any dependency graph with a rank function
    ([acyclic]); [st0] is the cache when generate_actions is called (inputs
    and unrelated calculated values allowed, [wf_state]); [targets] any list;
    [sz] the step size; [ordered] whatever order networkx returned, only
    constrained by [valid_order] (a topological permutation of the traced
    nodes; [check_order] decides it and is evaluated on every case of the
    tie).  [precondition] is the D25 precondition: nothing the targets depend
    on already holds a value.  Fuel: every statement is for any fuel with
    which the run finishes; [C16_terminates] shows such fuel exists. *)
From Coq Require Import List Arith PeanoNat.
From Coq Require Import ZArith.
From MX Require Import Plan.Model Plan.Spec Plan.Values Plan.ProofsPlan Plan.ProofsGen Plan.ProofsValues Plan.Examples.
Import ListNotations.

(** planner alone, any targets, any topological order, any step size: the calc
    steps concatenated are the order itself (each node in exactly one step) *)
Theorem C16_partition_plan : forall g targets ordered sz fuel p a,
  get_calcsteps fuel g targets ordered sz = Ok (p, a) ->
  concat (calc_blocks a) = ordered.
Proof. exact plan_partition. Qed.
Print Assumptions C16_partition_plan.

(** every element the targets depend on is in exactly one calc step, once,
    after all the elements it depends on; nothing else is calculated *)
Theorem C16_partition : forall g fuel st0 targets sz ordered r,
  acyclic g -> precondition g st0 targets ->
  generate g fuel st0 targets sz ordered = Ok r ->
  valid_order g (g_calculated r) ordered ->
  concat (calc_blocks (g_actions r)) = ordered /\
  NoDup (concat (calc_blocks (g_actions r))) /\
  (forall n, depends g st0 targets n <-> In n (concat (calc_blocks (g_actions r)))) /\
  (forall n, count_occ Nat.eq_dec (concat (calc_blocks (g_actions r))) n =
             if in_dec Nat.eq_dec n (concat (calc_blocks (g_actions r))) then 1 else 0) /\
  (forall n p, In n (concat (calc_blocks (g_actions r))) -> In p (preds g n) ->
               depends g st0 targets p -> calc_before (g_actions r) p n).
Proof. exact generate_partition. Qed.
Print Assumptions C16_partition.

(** the final [assert not pasted] of get_calcsteps holds, for every target
    list, every topological order and every step size *)
Theorem C16_pasted_empty : forall g targets ordered sz fuel p a,
  topological g ordered ->
  get_calcsteps fuel g targets ordered sz = Ok (p, a) -> p = [].
Proof. exact plan_pasted_empty. Qed.
Print Assumptions C16_pasted_empty.

(** while the actions run every formula is executed at most once: the
    execution log is the concatenation of the calc steps, without repetition
    (a precedent that had been cleared too early would be re-entered and
    appear twice).  Holds even without the D25 precondition. *)
Theorem C16_no_recompute : forall g fuel fuel' st0 targets sz ordered r x,
  acyclic g -> wf_state g st0 ->
  generate g fuel st0 targets sz ordered = Ok r ->
  valid_order g (g_calculated r) ordered ->
  execute g fuel' (g_actions r) (mkxs (g_state r) []) = Ok x ->
  log x = concat (calc_blocks (g_actions r)) /\ NoDup (log x) /\
  forall n, count_occ Nat.eq_dec (log x) n <= 1.
Proof. exact no_recompute. Qed.
Print Assumptions C16_no_recompute.

(** after the run every target holds an input value, every other element is
    as before generate_actions, and nothing else the targets depend on holds
    a value *)
Theorem C16_only_targets : forall g fuel fuel' st0 targets sz ordered r x,
  acyclic g -> wf_state g st0 -> precondition g st0 targets ->
  generate g fuel st0 targets sz ordered = Ok r ->
  valid_order g (g_calculated r) ordered ->
  execute g fuel' (g_actions r) (mkxs (g_state r) []) = Ok x ->
  (forall n, In n targets -> cache x n = Some Input) /\
  (forall n, ~ In n targets -> cache x n = st0 n) /\
  (forall n, ~ In n targets -> depends g st0 targets n -> cache x n = None).
Proof. exact only_targets. Qed.
Print Assumptions C16_only_targets.

(** values ([Plan/Values.v]: the same executor carrying a value next to every
    flag, formulas being arbitrary functions of the values of their calls):
    after the run every target holds, as an input, exactly the value that
    evaluating it directly in the start state returns *)
Theorem C16_values_direct : forall g fn fuel fuel' fuel'' st0 targets sz ordered r x V t xd vd,
  acyclic g -> wf_state g (erase st0) -> precondition g (erase st0) targets ->
  consistent g fn st0 V ->
  generate g fuel (erase st0) targets sz ordered = Ok r ->
  valid_order g (g_calculated r) ordered ->
  vexecute g fn fuel' (g_actions r) (mkvxs st0 []) = Ok x ->
  In t targets ->
  veval g fn fuel'' t (mkvxs st0 []) = Ok (xd, vd) ->
  vcache x t = Some (Input, vd) /\ vd = V t.
Proof. exact values_direct. Qed.
Print Assumptions C16_values_direct.

(** the flag part of a valued run is the run of the flag model *)
Theorem C16_values_erase : forall g fn fuel acts x x', vexecute g fn fuel acts x = Ok x' ->
  forall y, xeq y (erase_x x) -> exists y', execute g fuel acts y = Ok y' /\ xeq y' (erase_x x').
Proof. exact vexecute_sim. Qed.
Print Assumptions C16_values_erase.

(** a consistent valuation exists (no calculated value at the start) *)
Theorem C16_consistent_exists : forall g fn st0,
  acyclic g -> (forall n v, st0 n <> Some (Calc, v)) -> exists V, consistent g fn st0 V.
Proof. exact consistent_exists. Qed.
Print Assumptions C16_consistent_exists.

(** generate_actions leaves the cache as it found it *)
Theorem C16_generate_clean : forall g fuel st0 targets sz ordered r,
  acyclic g -> wf_state g st0 ->
  generate g fuel st0 targets sz ordered = Ok r ->
  forall n, g_state r n = st0 n.
Proof. exact generate_clean. Qed.
Print Assumptions C16_generate_clean.

(** the order check evaluated by the tie establishes the hypothesis on [ordered] *)
Theorem C16_check_order_sound : forall g calculated ordered,
  check_order g calculated ordered = true -> valid_order g calculated ordered.
Proof. exact check_order_sound. Qed.
Print Assumptions C16_check_order_sound.

(** enough fuel exists whenever step_size >= 1 *)
Theorem C16_terminates : forall g st0 targets sz ordered,
  acyclic g -> 1 <= sz ->
  exists fuel0, forall fuel, fuel0 <= fuel -> exists r, generate g fuel st0 targets sz ordered = Ok r.
Proof. exact generate_terminates. Qed.
Print Assumptions C16_terminates.

(** D25: the precondition cannot be dropped — a precedent of the target that
    already holds a calculated value is in no calc step and is still there
    after the run *)
Theorem C16_refuted_without_precondition :
  acyclic d25_g /\ wf_state d25_g d25_st0 /\ ~ precondition d25_g d25_st0 [2] /\
  exists r x,
    generate d25_g 5 d25_st0 [2] 1 [1; 2] = Ok r /\
    valid_order d25_g (g_calculated r) [1; 2] /\
    execute d25_g 5 (g_actions r) (mkxs (g_state r) []) = Ok x /\
    depends d25_g d25_st0 [2] 0 /\ ~ In 0 [2] /\
    ~ In 0 (concat (calc_blocks (g_actions r))) /\
    cache x 0 = Some Calc.
Proof. exact d25_refutation. Qed.
Print Assumptions C16_refuted_without_precondition.
