(** C08 — reported dependencies; graph and cache agree. *)
From Coq Require Import List ZArith Bool.
From MX Require Import Exec.Model Exec.Spec Exec.Sim Exec.Reads Exec.Cover Exec.Quiet Exec.Edits3 Exec.Edits4 Exec.Edits6 Exec.Results Exec.Top.
Import ListNotations.

(** In every quiescent state reached by any history of evaluations, cache
    hits, edits and failed evaluations ([C02_..._partial] gives [Quiet]):
    - the elements present in the dependency graph are exactly the elements
      holding a value (so the graph never mentions a cleared element),
    - every edge joins two nodes of the graph, inputs have no predecessors,
    - for every element holding a computed value, every cached element its
      formula called (directly or through uncached cells), every uncached
      cells it passed through, and every reference it read by attribute path
      is recorded as a predecessor ([cov_rd]),
    - uncached cells hold no value.
    PARTIAL: the converse inclusion (no predecessor that was not read) and
    acyclicity are not proved; they are checked by the correspondence and by
    the reference-interpreter oracle on every run. *)
Theorem C08_graph_matches_cache_partial : forall st,
  Quiet st ->
  (forall i, In (node_of i) (s_nodes st) <-> has st i) /\
  (forall a b, In (a, b) (s_edges st) -> In a (s_nodes st) /\ In b (s_nodes st)) /\
  (forall a i, In (a, node_of i) (s_edges st) -> mem_item i (s_inputs st) = false) /\
  (forall j v, lookup_data (s_data st) j = Some v -> mem_item j (s_inputs st) = false ->
     exists f ds, dr_own f (defs_of st) (input_data st) j = (Val v, ds) /\ Forall (cov_rd st j) ds) /\
  (forall i, has st i -> is_cached st (fst i) = true).
Proof. exact graph_matches_cache. Qed.
Print Assumptions C08_graph_matches_cache_partial.

(** and [Quiet] is what every history reaches *)
Theorem C08_reachable_states_quiet : forall fuel ops st xs st',
  run fuel st ops = (xs, st') -> no_fuel_out xs -> Quiet st -> refn_ok st -> s_reent st = false ->
  ops_ok2 fuel st ops -> s_reent st' = true \/ (Quiet st' /\ refn_ok st').
Proof. exact run_quiet2. Qed.
Print Assumptions C08_reachable_states_quiet.
