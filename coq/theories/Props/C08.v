(** C08 — reported dependencies; graph and cache agree. *)
From Coq Require Import List ZArith Bool.
From MX Require Import Exec.Model Exec.Spec Exec.Sim Exec.Reads Exec.Graph Exec.Cover Exec.Quiet Exec.Edits3 Exec.Edits4 Exec.Edits6 Exec.Results Exec.Top Exec.Exact Exec.Exact2 Exec.Acyclic.
Import ListNotations.

(** In every quiescent state reached by any history of evaluations, cache
    hits, edits and failed evaluations ([C02_..._partial] gives [Quiet]):
    - the elements present in the dependency graph are exactly the elements
      holding a value (so the graph never mentions a cleared element),
    - every edge joins two nodes of the graph, inputs have no predecessors,
    - for every element holding a computed value, every cached element its
      formula called (directly or through uncached cells), every uncached
      cells it passed through, and every reference it read by attribute path
      is recorded as a predecessor ([cov_rd]),
    - uncached cells hold no value.
    The converse inclusion (no predecessor that was not read) and acyclicity
    are the theorems [C08_preds_are_exactly_the_reads] and [C08_acyclic]
    below.  (The name [_partial] is kept for this first theorem only.) *)
Theorem C08_graph_matches_cache_partial : forall st,
  Quiet st ->
  (forall i, In (node_of i) (s_nodes st) <-> has st i) /\
  (forall a b, In (a, b) (s_edges st) -> In a (s_nodes st) /\ In b (s_nodes st)) /\
  (forall a i, In (a, node_of i) (s_edges st) -> mem_item i (s_inputs st) = false) /\
  (forall j v, lookup_data (s_data st) j = Some v -> mem_item j (s_inputs st) = false ->
     exists f ds, dr_own f (defs_of st) (input_data st) j = (Val v, ds) /\ Forall (cov_rd st j) ds) /\
  (forall i, has st i -> is_cached st (fst i) = true).
Proof. exact graph_matches_cache. Qed.
Print Assumptions C08_graph_matches_cache_partial.

(** and [Quiet] is what every history reaches *)
Theorem C08_reachable_states_quiet : forall fuel ops st xs st',
  run fuel st ops = (xs, st') -> no_fuel_out xs -> Quiet st -> refn_ok st -> s_reent st = false ->
  ops_ok2 fuel st ops -> s_reent st' = true \/ (Quiet st' /\ refn_ok st').
Proof. exact run_quiet2. Qed.
Print Assumptions C08_reachable_states_quiet.

(** EXACTNESS.  In every state reached by any history of evaluations, cache
    hits, failed evaluations and edits, for every element [j] holding a
    computed value [v] there is a terminating evaluation of its own formula by
    the reads-instrumented specification, with result [v] and reads [ds], such
    that every read is a recorded predecessor ([cov_rd]: cached element called
    directly or through uncached cells -> item edge; uncached cells passed
    through -> object-node edge; reference read by attribute -> reference-graph
    edge) AND every recorded predecessor of [j] is one of these reads
    ([rd_of_node]: an item node is a cached element called, an object node an
    uncached cells passed through).  preds() = the calls made; succs() is the
    same edge set read backwards. *)
Theorem C08_preds_are_exactly_the_reads : forall fuel cells refs maxd ops xs st,
  refn_ok (init cells refs maxd) -> ops_ok2 fuel (init cells refs maxd) ops ->
  run fuel (init cells refs maxd) ops = (xs, st) -> no_fuel_out xs -> s_reent st = false ->
  forall j v, lookup_data (s_data st) j = Some v -> mem_item j (s_inputs st) = false ->
  exists f ds, dr_own f (defs_of st) (input_data st) j = (Val v, ds) /\
    Forall (cov_rd st j) ds /\
    (forall a, In (a, node_of j) (s_edges st) -> In (rd_of_node a) ds).
Proof. exact preds_are_exactly_the_reads. Qed.
Print Assumptions C08_preds_are_exactly_the_reads.

(** one-step form of exactness *)
Theorem C08_step_keeps_exactness : forall fuel st o x st',
  step fuel st o = (x, st') -> x <> OFuel -> Quiet st -> refn_ok st -> s_reent st = false -> s_reent st' = false ->
  op_ok2 st o -> Exa st -> Exa st'.
Proof. exact step_Exa. Qed.
Print Assumptions C08_step_keeps_exactness.

(** ACYCLICITY: no edge closes a path back to its source.  (Every edge is a
    read, and what is read is evaluated by the specification with strictly
    less fuel than its reader: a cycle would be an infinite descent.) *)
Theorem C08_acyclic : forall fuel cells refs maxd ops xs st,
  refn_ok (init cells refs maxd) -> ops_ok2 fuel (init cells refs maxd) ops ->
  run fuel (init cells refs maxd) ops = (xs, st) -> no_fuel_out xs -> s_reent st = false ->
  forall a b, In (a, b) (s_edges st) -> ~ path (s_edges st) b a.
Proof. exact reachable_graph_acyclic. Qed.
Print Assumptions C08_acyclic.

(** non-vacuity: a cached cells calling a cached one through an uncached one and
    reading a reference by attribute; edges and reads coincide *)
Definition ex8x_cells : list (cid * cell) :=
  [ (0, mkCell [SAssign (EBin Add (ECall 1 [EPar 0]) (ERefA 0))] 1 [] true false 0);
    (1, mkCell [SAssign (ECall 2 [EPar 0])] 1 [] false false 0);
    (2, mkCell [SAssign (EBin Mul (EPar 0) (EConst (VInt 2)))] 1 [] true false 0) ].
Example C08_exact_example :
  let st := snd (run 100 (init ex8x_cells [(0, (None, VInt 5))] 50) [OpEval (0, [VInt 3])]) in
  s_edges st = [(NItem 2 [VInt 3], NItem 0 [VInt 3]); (NObj 1, NItem 0 [VInt 3])]
  /\ dr_own 50 (defs_of st) (input_data st) (0, [VInt 3]) = (Val (VInt 11), [RObj 1; RItem (2, [VInt 3]); RAttr 0])
  /\ s_redges st = [(0, (0, [VInt 3]))] /\ s_reent st = false.
Proof. vm_compute. repeat split; reflexivity. Qed.
