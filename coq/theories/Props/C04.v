(** C04 — write/read round trip.  Property theorems only. *)
From Coq Require Import List String.
From MX Require Import Base.Paths Base.PathsProofs.
Import ListNotations.

(** relative base names written by the serializer ([abs_to_rel]) are read
    back ([rel_to_abs]) as the same space, for every namespace and every
    target made of valid names — string form *)
Theorem C04_paths_string : forall (ns : string) (tgl : list string),
  tgl <> [] -> Forall (fun x => okname x = true) tgl ->
  rel_to_abs (abs_to_rel (join_dot tgl) ns) ns = join_dot tgl.
Proof. exact string_roundtrip. Qed.
Print Assumptions C04_paths_string.

(** tuple form, unconditional *)
Theorem C04_paths_tuple : forall tg ns : list string,
  rel_to_abs_tuple (abs_to_rel_tuple tg ns) ns = tg.
Proof. exact tuple_roundtrip. Qed.
Print Assumptions C04_paths_tuple.
