(** C04 — write/read round trip.  Property theorems only. *)
From Coq Require Import List String.
From MX Require Import Base.Paths Base.PathsProofs.
Import ListNotations.

(** relative base names written by the serializer ([abs_to_rel]) are read
    back ([rel_to_abs]) as the same space, for every namespace and every
    target made of valid names — string form *)
Theorem C04_paths_string : forall (ns : string) (tgl : list string),
  tgl <> [] -> Forall (fun x => okname x = true) tgl ->
  rel_to_abs (abs_to_rel (join_dot tgl) ns) ns = join_dot tgl.
Proof. exact string_roundtrip. Qed.
Print Assumptions C04_paths_string.

(** tuple form, unconditional *)
Theorem C04_paths_tuple : forall tg ns : list string,
  rel_to_abs_tuple (abs_to_rel_tuple tg ns) ns = tg.
Proof. exact tuple_roundtrip. Qed.
Print Assumptions C04_paths_tuple.

(** ---- directory vs zip archive (Serial/ZipFS.v, Serial/Layout.v) ---------- *)
From Coq Require Import NArith Bool.
From MX Require Import Serial.ZipFS Serial.ZipFSProofs Serial.Layout Serial.LayoutProofs.

(** for every sequence of writes to pairwise distinct paths: whenever the
    directory writer (last write wins, parents must be directories) succeeds,
    the archive writer (first write wins, ziputil.write_file) succeeds with the
    very same path -> content map, in the same order *)
Theorem C04_zip_eq_dir : forall (ws : list (path * content)) (d : fs),
  NoDup (map fst ws) -> run_dir ws = Some d -> run_zip ws = Some d.
Proof. exact zip_eq_dir. Qed.
Print Assumptions C04_zip_eq_dir.

(** distinct, prefix-free paths: both writers succeed and hold exactly the written files *)
Theorem C04_zip_dir_total : forall ws : list (path * content),
  NoDup (map fst ws) -> prefix_free (map fst ws) ->
  run_dir ws = Some ws /\ run_zip ws = Some ws.
Proof. exact zip_dir_total. Qed.
Print Assumptions C04_zip_dir_total.

(** when paths repeat the containers differ: the archive keeps the first
    content written to a path, the directory the last one *)
Theorem C04_zip_first_dir_last : forall ws z d p,
  run_zip ws = Some z -> run_dir ws = Some d ->
  lookup p z = first_write p ws /\ lookup p d = last_write p ws.
Proof. exact zip_first_dir_last. Qed.
Print Assumptions C04_zip_first_dir_last.

(** the write plan of ModelWriter for any space tree whose entry names are
    distinct per directory consists of pairwise distinct, prefix-free paths ... *)
Theorem C04_writer_plan_distinct : forall spaces pickled,
  wf_layout spaces pickled = true ->
  NoDup (write_plan spaces pickled) /\ prefix_free (write_plan spaces pickled).
Proof. exact plan_distinct_prefix_free. Qed.
Print Assumptions C04_writer_plan_distinct.

(** ... hence, whatever is written to the planned files, the zip archive and
    the directory hold the same files: exactly the planned ones *)
Theorem C04_writer_zip_eq_dir : forall spaces pickled (ws : list (path * content)),
  wf_layout spaces pickled = true ->
  map fst ws = write_plan spaces pickled ->
  run_dir ws = Some ws /\ run_zip ws = Some ws.
Proof. exact writer_zip_eq_dir. Qed.
Print Assumptions C04_writer_zip_eq_dir.

(** ---- statement-level codec (Serial/Codec.v) -------------------------------- *)
From MX Require Import Serial.Codec Serial.CodecProofs.

(** for every well-formed description (any space tree, bases anywhere in the
    model written relative to the parent, lambda/def cells with their flags and
    documentation, the four kinds of references with their modes), reading the
    statements the writer emits gives the description back *)
Theorem C04_codec_roundtrip : forall m : modelD, wf_model m = true -> decode (encode m) = Some m.
Proof. exact codec_roundtrip. Qed.
Print Assumptions C04_codec_roundtrip.

(** write - read - write chains: the second write emits the same files *)
Theorem C04_codec_chain : forall m : modelD, wf_model m = true ->
  match decode (encode m) with Some m' => encode m' = encode m | None => False end.
Proof. exact codec_chain. Qed.
Print Assumptions C04_codec_chain.

(** ---- documentation strings (Serial/Lexer.v) --------------------------------- *)
From MX Require Import Serial.Lexer Serial.LexerProofs.

(** a documentation string without backslash, carriage return or three
    consecutive double quotes and not ending in a double quote, written between
    triple double quotes, is read back unchanged *)
Theorem C04_doc_lex : forall d : string, safe_doc d = true -> lex_triple (q3 ++ d ++ q3) = LexOk d.
Proof. exact doc_lex. Qed.
Print Assumptions C04_doc_lex.
