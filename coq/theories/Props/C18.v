(** C18 — an IOSpec lives exactly as long as a reference to its value.  Property theorems only.
    All statements quantify over every operation list [ops] (new_pandas / new_module / assignment /
    deletion / update_pandas / update_module / add_bases / remove_bases / close / spec.sheet= / spec.path= /
    del_spec / del model.Space, plus space and cells creation) and every fuel of the C3 linearisation; [run fuel ops] is the state reached from the empty system.
    The clause "on saving every live spec's value is written to its file and read back equal" is
    pandas/openpyxl I/O and is NOT covered here (implementation-side oracle only, harness/props/C18.py). *)
From Coq Require Import List NArith.
From MX Require Import IOSpec.Model IOSpec.Proofs IOSpec.ProofsStep IOSpec.ProofsMain.
Import ListNotations.
Open Scope N_scope.

(** no orphan: every spec the IO manager holds belongs to an open model, and some reference of that
    model is bound to the spec's value *)
Theorem C18_live : forall fuel ops s,
  In s (st_specs (run fuel ops)) ->
  ~ In (s_grp s) (st_closed (run fuel ops)) /\
  exists r, In r (st_refs (run fuel ops)) /\ rmodel r = s_grp s /\ r_val r = s_val s.
Proof. exact live_spec_has_ref. Qed.
Print Assumptions C18_live.

(** no early death: in one step a spec (identified by its id) disappears only if its model is closed,
    or no reference of the model holds its value afterwards, or the step is Model.del_spec of that value;
    update_pandas/update_module and the sheet/path setters keep it *)
Theorem C18_live_persist : forall fuel ops o s,
  In s (st_specs (run fuel ops)) ->
  (exists s', In s' (st_specs (fst (step fuel (run fuel ops) o))) /\ s_id s' = s_id s /\ s_grp s' = s_grp s)
  \/ In (s_grp s) (st_closed (fst (step fuel (run fuel ops) o)))
  \/ ~ bound (fst (step fuel (run fuel ops) o)) (s_grp s) (s_val s)
  \/ o = DelSpec (s_grp s) (s_val s).
Proof. exact spec_persists. Qed.
Print Assumptions C18_live_persist.

(** Model.iospecs (found through the table id(value) -> references) is exactly what the manager holds *)
Theorem C18_live_api : forall fuel ops s,
  In s (api_specs (run fuel ops)) <-> In s (st_specs (run fuel ops)).
Proof. exact api_is_manager. Qed.
Print Assumptions C18_live_api.

(** the reference table is exactly the inverse of the reference store *)
Theorem C18_table_exact : forall fuel ops m v rid,
  In rid (lookup (m, v) (st_tab (run fuel ops))) <->
  exists r, In r (st_refs (run fuel ops)) /\ r_id r = rid /\ rmodel r = m /\ r_val r = v.
Proof. exact table_exact. Qed.
Print Assumptions C18_table_exact.

(** derived (inherited) references never hold a value that no defined reference holds *)
Theorem C18_derived_bound : forall fuel fuel' ops m s n v d,
  visible_ref fuel' (run fuel ops) m s n = Ok (Some (v, d)) -> bound (run fuel ops) m v.
Proof. exact visible_ref_is_bound. Qed.
Print Assumptions C18_derived_bound.

(** a successful new_pandas / new_module leaves a spec for the value and the reference bound to it *)
Theorem C18_created : forall fuel ops o ow n v,
  creation o = Some (ow, n, v) ->
  snd (step fuel (run fuel ops) o) = ROk ->
  (exists s, In s (st_specs (fst (step fuel (run fuel ops) o))) /\ s_grp s = fst ow /\ s_val s = v) /\
  (exists r, In r (st_refs (fst (step fuel (run fuel ops) o))) /\ r_own r = ow /\ r_name r = n /\ r_val r = v).
Proof. exact creation_leaves_both. Qed.
Print Assumptions C18_created.

(** a rejected creation leaves neither a spec nor a reference: nothing but the id counter changes *)
Theorem C18_rejected_clean : forall fuel ops o,
  creation o <> None ->
  snd (step fuel (run fuel ops) o) <> ROk ->
  same_but_next (run fuel ops) (fst (step fuel (run fuel ops) o)).
Proof. exact rejected_creation_clean. Qed.
Print Assumptions C18_rejected_clean.

(** deleting a space (del model.S) removes the space and exactly the references defined in it; by
    [C18_live] / [C18_live_persist] on the state after the step, the specs that go with it are those of
    values no other reference of the model holds *)
Theorem C18_delspace : forall fuel ops m s,
  is_space (run fuel ops) m s = true ->
  snd (step fuel (run fuel ops) (DelSpace m s)) = ROk ->
  is_space (fst (step fuel (run fuel ops) (DelSpace m s))) m s = false /\
  (forall r, In r (st_refs (fst (step fuel (run fuel ops) (DelSpace m s)))) <->
             In r (st_refs (run fuel ops)) /\ r_own r <> (m, Some s)).
Proof. exact delspace_forgets. Qed.
Print Assumptions C18_delspace.

(** two specs never claim the same file location; two specs in one file are in an excel file under
    distinct non-empty sheets *)
Theorem C18_no_shared_location : forall fuel ops s s',
  In s (st_specs (run fuel ops)) -> In s' (st_specs (run fuel ops)) -> s <> s' ->
  location s <> location s' /\
  (s_grp s = s_grp s' -> s_path s = s_path s' ->
   s_kind s = KExcel /\ s_kind s' = KExcel /\
   exists a b, s_sheet s = Some a /\ s_sheet s' = Some b /\ a <> b).
Proof. exact no_shared_location. Qed.
Print Assumptions C18_no_shared_location.

(** the modelled _check_sanity assertions hold in every reachable state *)
Theorem C18_sanity : forall fuel ops, check_sanity (run fuel ops) = true.
Proof. exact sanity_holds. Qed.
Print Assumptions C18_sanity.
