(** C07 — ItemSpaces are parametrised, isolated, identity-stable instances of
    their base.  Property theorems only (model: Dyn/Model.v).

    A handle is, in the model, the dynamic key of the instance: "an old handle
    raises DeletedObjectError or denotes the re-created instance" is true by
    construction there and rests on the correspondence check (harness/props/C07.py
    probes every kept handle after every operation). *)
From Coq Require Import List String ZArith NArith Bool.
From MX Require Import Dyn.Model Dyn.ProofsBase Dyn.ProofsBind Dyn.ProofsEval Dyn.ProofsInv Dyn.ProofsTop Dyn.Examples.
Import ListNotations.

(** whatever the history (requests, evaluations, edits of the definitions):
    what a cells of a live instance (or of a child space [cp] of it) answers is
    the value of its formula in the base the CURRENT parameter formulas choose
    for the key, with names looked up in  arguments (inner first) > references
    returned by the parameter formula > references of the base > references of
    the model; sibling calls
    are evaluated in the same context ([spec_value]: no cache, no copy).
    Failures agree as well; running out of fuel is excluded. *)
Theorem C07_instance_eq_base : forall fuel d0 ops k cp c args st' o,
  step fuel (run fuel (init d0) ops) (OEval (k, cp) c args) = (st', o) ->
  match o with
  | OVal v => exists f', spec_value f' (st_defs (run fuel (init d0) ops)) (st_glob (run fuel (init d0) ops)) k cp c args = Ok v
  | OFail => exists f', spec_value f' (st_defs (run fuel (init d0) ops)) (st_glob (run fuel (init d0) ops)) k cp c args = Fail
  | _ => True
  end.
Proof. exact instance_eq_base. Qed.
Print Assumptions C07_instance_eq_base.

(** and conversely: given the fuel the specification needs, a live instance answers exactly the
    specification value (or fails exactly when the specification fails) *)
Theorem C07_instance_eq_base_complete : forall fuel d0 ops k cp c args r res,
  find_inst k (st_live (run fuel (init d0) ops)) = Some r -> dmem cp (i_snap r) = true ->
  spec_value fuel (st_defs (run fuel (init d0) ops)) (st_glob (run fuel (init d0) ops)) k cp c args = res -> res <> OutOfFuel ->
  snd (step fuel (run fuel (init d0) ops) (OEval (k, cp) c args))
  = match res with Ok v => OVal v | _ => OFail end.
Proof. exact instance_eq_base_complete. Qed.
Print Assumptions C07_instance_eq_base_complete.

(** argument spellings that bind equally (positional, keyword, defaults) give
    the same instance: the second request returns the same key and changes nothing *)
Theorem C07_same_args_same_instance : forall fuel st par s pos1 kw1 pos2 kw2 key st1 o,
  parent_sig st par = Some s ->
  bind s pos1 kw1 = Some key -> bind s pos2 kw2 = Some key ->
  step fuel st (OGetItem par pos1 kw1) = (st1, o) -> o <> OFail ->
  o = OHandle key /\ step fuel st1 (OGetItem par pos2 kw2) = (st1, OHandle key).
Proof. exact same_args_same_instance. Qed.
Print Assumptions C07_same_args_same_instance.

(** the bound tuple is a spelling of itself: keys are canonical *)
Theorem C07_bind_canonical : forall s pos kw t, bind s pos kw = Some t -> bind s t [] = Some t.
Proof. exact bind_canonical. Qed.
Print Assumptions C07_bind_canonical.

(** the spellings the statement names do bind equally: the next parameter passed
    positionally or by keyword ... *)
Theorem C07_spelling_positional_keyword : forall s pos kw x d rest v,
  NoDup (map fst s) ->
  bind_pos s pos = Some (pos, (x, d) :: rest) ->
  amem x kw = false ->
  bind s (pos ++ [v]) kw = bind s pos ((x, v) :: kw).
Proof. exact bind_positional_keyword. Qed.
Print Assumptions C07_spelling_positional_keyword.

(** ... and a parameter with a default omitted or passed with that default *)
Theorem C07_spelling_default_omitted : forall s pos kw b rest x dv,
  NoDup (map fst s) ->
  bind_pos s pos = Some (b, rest) -> In (x, Some dv) rest -> alookup x kw = None ->
  bind s pos ((x, dv) :: kw) = bind s pos kw.
Proof. exact bind_default_omitted. Qed.
Print Assumptions C07_spelling_default_omitted.

(** an evaluation in one instance changes no other instance and no definition ... *)
Theorem C07_eval_isolated : forall fuel st k cp c args st' o k',
  step fuel st (OEval (k, cp) c args) = (st', o) -> k' <> k ->
  find_inst k' (st_live st') = find_inst k' (st_live st) /\ st_defs st' = st_defs st /\ st_glob st' = st_glob st.
Proof. exact eval_isolated. Qed.
Print Assumptions C07_eval_isolated.

(** ... hence the values of S[a] are unaffected by any evaluations in instances S[b], b <> a *)
Theorem C07_isolation : forall fuel evs st k' cp c args,
  Forall (eval_elsewhere k') evs ->
  snd (step fuel (run fuel st evs) (OEval (k', cp) c args)) = snd (step fuel st (OEval (k', cp) c args))
  /\ find_inst k' (st_live (run fuel st evs)) = find_inst k' (st_live st)
  /\ st_glob (run fuel st evs) = st_glob st.
Proof. exact isolation. Qed.
Print Assumptions C07_isolation.

(** after any history, no live instance holds anything computed from old
    definitions: its context is the one the current parameter formulas give,
    its copy of the base is the current base, and every cached value is the
    specification value under the current definitions (an edit deletes every
    instance that copied the edited space) *)
Theorem C07_fresh : forall fuel d0 ops r,
  In r (st_live (run fuel (init d0) ops)) ->
  let d := st_defs (run fuel (init d0) ops) in
  let g := st_glob (run fuel (init d0) ops) in
  instantiate d (i_key r) = Some (i_base r, i_args r, i_xrefs r)
  /\ i_snap r = subtree (i_base r) d
  /\ forall cp c vs v, clookup (cp, c, vs) (i_cache r) = Some v ->
       exists f, spec_value f d g (i_key r) cp c vs = Ok v.
Proof. exact fresh. Qed.
Print Assumptions C07_fresh.

(** the invariant behind it is preserved by every single operation from any state *)
Theorem C07_fresh_step : forall fuel st o, Inv st -> Inv (fst (step fuel st o)).
Proof. exact step_preserves_inv. Qed.
Print Assumptions C07_fresh_step.

(** an accepted edit of a space (formula, new / deleted cells, new / changed / deleted reference, new / deleted
    child space, parameter formula) leaves no live instance that contains a dynamic space built from it:
    the root ItemSpaces are discarded, not updated in place *)
Theorem C07_edit_discards : forall fuel st o p st' r,
  edited_space o = Some p -> step fuel st o = (st', ODone) -> In r (st_live st') -> has_dynsub p r = false.
Proof. exact edit_discards. Qed.
Print Assumptions C07_edit_discards.
