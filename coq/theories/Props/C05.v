(** C05 — a failed evaluation leaves a consistent, retryable state. *)
From Coq Require Import List ZArith Bool.
From MX Require Import Exec.Model Exec.Spec Exec.Sim Exec.Top Exec.Chain Exec.Sim3 Exec.Cover Exec.Quiet.
Import ListNotations.

(** For every failure position and error kind: the cache invariant still
    holds, the call stack is restored (nothing is left executing), every value
    held before is still held unchanged, definitions and inputs are untouched,
    the original error is recorded - all of this unconditionally - and, unless
    it is the depth limit or the failing clean-up of a try/finally replaced
    the depth-limit error during the request ([s_masks] changed: the ghost
    counter of these events, see C01 and [Exec/FinMask.v]), it is the error
    the specification evaluation raises. *)
Theorem C05_failed_eval_consistent : forall fuel st i k st',
  eval_top fuel st i = (Err k, st') -> Inv st -> lookup_cell (s_cells st) (fst i) <> None ->
  Inv st' /\
  s_stack st' = s_stack st /\
  (forall j v, lookup_data (s_data st) j = Some v -> lookup_data (s_data st') j = Some v) /\
  s_cells st' = s_cells st /\ s_refs st' = s_refs st /\ s_inputs st' = s_inputs st /\
  (exists chain, s_err st' = Some (k, chain)) /\ s_rolled st' = [] /\
  (s_masks st' = s_masks st -> k = KDeep \/ exists g, spec_eval g st i = Err k).
Proof. exact failed_eval_consistent. Qed.
Print Assumptions C05_failed_eval_consistent.

(** every later evaluation returns what it would have returned had the
    failure not happened (the specification value in the state before it) *)
Theorem C05_retry : forall fuel st i k st1 j r st2,
  eval_top fuel st i = (Err k, st1) -> Inv st -> lookup_cell (s_cells st) (fst i) <> None ->
  eval_top fuel st1 j = (r, st2) -> r <> OutOfFuel -> s_masks st2 = s_masks st1 ->
  agrees r (fun g => spec_eval g st j).
Proof. exact retry_after_failure. Qed.
Print Assumptions C05_retry.

(** No element on the failing chain acquires a value.  The failing chain is
    [Chain.spec_chain] (by C17 it is what get_traceback() lists).  From any
    invariant state: an element of the chain holds no *computed* value
    afterwards (if it holds one at all it is an input of an uncached cells,
    which reachable states exclude, next theorem). *)
Theorem C05_chain_holds_no_computed_value : forall fuel st i k st',
  eval_top fuel st i = (Err k, st') -> k <> KDeep -> Inv st -> lookup_cell (s_cells st) (fst i) <> None ->
  forall g rc cc, spec_chain g (defs_of st) (input_data st) i = (rc, cc) -> rc <> OutOfFuel ->
  forall j l v, In (j, l) cc -> lookup_data (s_data st') j = Some v ->
    is_cached st' (fst j) = false /\ mem_item j (s_inputs st') = true.
Proof. exact chain_holds_no_computed_value. Qed.
Print Assumptions C05_chain_holds_no_computed_value.

(** In the states histories reach ([Quiet], C02/C08): no value at all. *)
Theorem C05_chain_holds_no_value : forall fuel st i k st',
  eval_top fuel st i = (Err k, st') -> k <> KDeep -> Quiet st -> s_reent st = false -> s_reent st' = false ->
  lookup_cell (s_cells st) (fst i) <> None ->
  forall g rc cc, spec_chain g (defs_of st) (input_data st) i = (rc, cc) -> rc <> OutOfFuel ->
  forall j l, In (j, l) cc -> lookup_data (s_data st') j = None.
Proof. exact chain_holds_no_value. Qed.
Print Assumptions C05_chain_holds_no_value.

(** Excluded from the two theorems above: the recursion-depth error (its
    position depends on the executor's stack bound).
    Non-vacuity: a chain failing at depth 3 after a completed sibling. *)
Definition ex5_cells : list (cid * cell) :=
  [ (0, mkCell [SAssign (ECall 1 [EPar 0]); SAssign (ECall 2 [EPar 0])] 1 [] true false 0);
    (1, mkCell [SAssign (EBin Add (EPar 0) (EConst (VInt 1)))] 1 [] true false 0);
    (2, mkCell [SAssign (ECall 3 [EPar 0])] 1 [] true false 0);
    (3, mkCell [SAssign (EBin FloorDiv (EConst (VInt 1)) (EConst (VInt 0)))] 1 [] true false 0) ].
Example C05_example :
  let r := run 100 (init ex5_cells [] 50) [OpEval (0, [VInt 4]); OpEval (1, [VInt 4])] in
  fst r = [OErr KZero; OVal (VInt 5)]
  /\ s_data (snd r) = [((1, [VInt 4]), VInt 5)]
  /\ s_err (snd r) = Some (KZero, [((0, [VInt 4]), 4); ((2, [VInt 4]), 3); ((3, [VInt 4]), 3)])
  /\ s_stack (snd r) = [].
Proof. vm_compute. repeat split; reflexivity. Qed.
