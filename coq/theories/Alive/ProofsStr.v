(** Alive layer - the containment invariant: a live object has only live
    containers above it.  Hence: once an object is dead, everything contained
    in it (at any depth) is dead - for every history. *)
From Coq Require Import List String Bool Arith ZArith NArith Lia.
From MX Require Import Alive.Model Alive.ProofsBase.
Import ListNotations.

Definition Ifresh (st : state) : Prop :=
  forall u o, In (u, o) (st_objs st) ->
    (u < st_next st)%N /\ forall p, In p (o_chain o) -> (p < st_next st)%N.
Definition Iex (st : state) : Prop := forall u, alive st u = true -> get_obj st u <> None.
Definition Ichain (st : state) : Prop :=
  forall u p, In p (chain_of st u) -> incl (chain_of st p) (chain_of st u).
Definition Cont (st : state) : Prop :=
  forall u p, alive st u = true -> In p (chain_of st u) -> alive st p = true.

(** static objects (model, spaces, cells) are contained in static spaces / the model only *)
Definition statick (k : kind) : bool := match k with KModel | KSpace | KCells => true | _ => false end.
Definition contk (k : kind) : bool := match k with KModel | KSpace => true | _ => false end.
Definition Ikind (st : state) : Prop :=
  forall u p, statick (kind_of st u) = true -> In p (chain_of st u) -> contk (kind_of st p) = true.

Definition Str (st : state) : Prop := Ifresh st /\ Iex st /\ Ichain st /\ Cont st /\ Ikind st.

Lemma str_ext : forall st st',
  st_objs st' = st_objs st -> st_alive st' = st_alive st -> (st_next st <= st_next st')%N ->
  Str st -> Str st'.
Proof.
  intros st st' Ho Ha Hn [H1 [H2 [H3 [H4 H5]]]].
  unfold Str, Ifresh, Iex, Ichain, Cont, Ikind, alive, chain_of, kind_of, get_obj. rewrite Ho, Ha.
  repeat split; try assumption.
  - destruct (H1 _ _ H) as [Hu _]. lia.
  - intros p Hp. destruct (H1 _ _ H) as [_ Hc]. specialize (Hc _ Hp). lia.
Qed.

Lemma str_bump : forall st, Str st -> Str (bump st).
Proof. intros st H. apply (str_ext st); try reflexivity; [cbn; lia|exact H]. Qed.

Lemma alloc_dyn_next : forall st k o u st1, alloc_dyn st k o = (u, st1) -> (st_next st <= st_next st1)%N.
Proof.
  intros st k o u st1. unfold alloc_dyn.
  destruct (lookupD k (st_cache st)); [destruct (get_obj st u0); [destruct (obj_eqb o0 o && negb (alive st u0))|]|];
    intros H; inversion H; subst; cbn; lia.
Qed.

(** ---- purge of a containment-closed set ---- *)
Lemma str_purge_under : forall st seeds, Str st -> Str (purge (under_set st seeds) st).
Proof.
  intros st seeds [H1 [H2 [H3 [H4 H5]]]]. split; [exact H1|]. split; [|split; [exact H3|split; [|exact H5]]].
  - intros u Hu. rewrite alive_purge in Hu. apply andb_true_iff in Hu as [Hu _]. exact (H2 _ Hu).
  - intros u p Hu Hp. change (chain_of (purge (under_set st seeds) st) u) with (chain_of st u) in Hp.
    rewrite alive_purge in *. apply andb_true_iff in Hu as [Hu Hk].
    rewrite (H4 _ _ Hu Hp). simpl. apply negb_true_iff. apply negb_true_iff in Hk.
    apply memN_false. apply memN_false in Hk. intros Hin. apply Hk.
    apply under_set_spec in Hin as [_ [a [Ha Hs]]].
    apply under_set_spec. split; [exact Hu|]. exists a. split; [|exact Hs]. right.
    destruct Ha as [Ha|Ha]; [subst a; exact Hp|exact (H3 _ _ Hp _ Ha)].
Qed.

Lemma str_clear_vals : forall C st, Str st -> Str (clear_vals C st).
Proof. intros C st H; exact H. Qed.
Lemma str_set_vals : forall st v, Str st -> Str (set_vals st v).
Proof. intros st v H; exact H. Qed.
Lemma str_set_globals : forall st g, Str st -> Str (set_globals st g).
Proof. intros st g H; exact H. Qed.
Lemma str_push_handle : forall st u, Str st -> Str (push_handle st u).
Proof. intros st u H; exact H. Qed.
Lemma str_add_src : forall st d s, Str st -> Str (add_src st d s).
Proof. intros st d s H; exact H. Qed.
Lemma str_upd_cont : forall st u f, Str st -> Str (upd_cont st u f).
Proof. intros st u f H; exact H. Qed.
Lemma str_store : forall st v, Str st -> Str (store st v).
Proof. intros st v H; exact H. Qed.

Lemma str_discard_items : forall st l, Str st -> Str (discard_items st l).
Proof. intros; apply str_purge_under; assumption. Qed.
Lemma str_ns_change : forall st Ts l, Str st -> Str (ns_change st Ts l).
Proof. intros st Ts l H. unfold ns_change. apply str_discard_items, str_clear_vals, H. Qed.
Lemma str_settle : forall st Ts l, Str st -> Str (settle st Ts l).
Proof. intros st Ts l H. unfold settle. apply str_purge_under, str_clear_vals, H. Qed.
Lemma str_wipe : forall st, Str st -> Str (wipe st).
Proof. intros st H. unfold wipe. apply str_discard_items, str_set_vals, H. Qed.

(** ---- a new object below a live one ---- *)
Lemma list_neq_cons : forall {A} (x : A) l, l <> x :: l.
Proof. intros A x l H. apply (f_equal (@List.length A)) in H. simpl in H. lia. Qed.

Lemma str_add_obj : forall st u o k P,
  Str st ->
  (get_obj st u = None \/ get_obj st u = Some o) ->
  (u < st_next st)%N ->
  (get_obj st u = None -> forall v, ~ In u (chain_of st v)) ->
  o_chain o = P :: chain_of st P -> alive st P = true ->
  (statick (o_kind o) = true -> contk (kind_of st P) = true) ->
  Str (add_obj st u o k).
Proof.
  intros st u o k P [H1 [H2 [H3 [H4 H5]]]] Ha Hb Hnotin Hc HP Hk.
  pose proof (get_obj_add_obj_same st u o k Ha) as Hgu.
  assert (forall v, v <> u -> get_obj (add_obj st u o k) v = get_obj st v) as Hgo
    by (intros v Hv; apply get_obj_add_obj_other; exact Hv).
  assert (u <> P) as HuP.
  { intros He; subst P. destruct Ha as [Ha|Ha].
    - exact (H2 _ HP Ha).
    - unfold chain_of in Hc. rewrite Ha in Hc. exact (list_neq_cons _ _ Hc). }
  assert (chain_of (add_obj st u o k) u = P :: chain_of st P) as Hcu
    by (unfold chain_of at 1; rewrite Hgu; exact Hc).
  assert (forall v, v <> u -> chain_of (add_obj st u o k) v = chain_of st v) as Hco
    by (intros v Hv; unfold chain_of; rewrite (Hgo _ Hv); reflexivity).
  assert (exists oP, In (P, oP) (st_objs st) /\ o_chain oP = chain_of st P) as [oP [HinP HchP]].
  { destruct (get_obj st P) as [oP|] eqn:E; [|exfalso; exact (H2 _ HP E)].
    exists oP. split; [apply lookupN_In; exact E|]. unfold chain_of. rewrite E. reflexivity. }
  assert (forall v, v <> u -> kind_of (add_obj st u o k) v = kind_of st v) as Hko
    by (intros v Hv; unfold kind_of; rewrite (Hgo _ Hv); reflexivity).
  assert (kind_of (add_obj st u o k) u = o_kind o) as Hku by (unfold kind_of; rewrite Hgu; reflexivity).
  split; [|split; [|split; [|split]]].
  - (* Ifresh *)
    intros v ov Hin. cbn [add_obj st_objs st_next] in *.
    assert (In (v, ov) (st_objs st) \/ (v = u /\ ov = o)) as Hcase.
    { destruct (lookupN u (st_objs st)); [left; exact Hin|].
      apply in_app_iff in Hin as [Hin|[Hin|[]]]; [left; exact Hin|right; inversion Hin; auto]. }
    destruct Hcase as [Hold|[Hv Ho]]; [exact (H1 _ _ Hold)|subst v ov].
    split; [exact Hb|]. intros p Hp. rewrite Hc in Hp. destruct (H1 _ _ HinP) as [HPn HPc].
    destruct Hp as [Hp|Hp]; [subst p; exact HPn|]. apply HPc. rewrite HchP. exact Hp.
  - (* Iex *)
    intros v Hv. rewrite alive_add_obj in Hv. destruct (N.eqb v u) eqn:E.
    + apply N.eqb_eq in E; subst v. rewrite Hgu. discriminate.
    + simpl in Hv. destruct (get_obj st v) as [ov|] eqn:Eg; [|exfalso; exact (H2 _ Hv Eg)].
      rewrite (get_obj_add_obj_stable _ _ _ _ _ _ Eg). discriminate.
  - (* Ichain *)
    destruct Ha as [Ha|Ha].
    + specialize (Hnotin Ha).
      intros v p Hp. destruct (N.eq_dec v u) as [Hv|Hv].
      * subst v. rewrite Hcu in *. assert (p <> u) as Hpu.
        { intros He; subst p. destruct Hp as [Hp|Hp]; [exact (HuP (eq_sym Hp))|exact (Hnotin _ Hp)]. }
        rewrite (Hco _ Hpu). destruct Hp as [Hp|Hp].
        -- subst p. apply incl_tl, incl_refl.
        -- apply incl_tl. exact (H3 _ _ Hp).
      * rewrite (Hco _ Hv) in *. assert (p <> u) as Hpu by (intros He; subst p; exact (Hnotin _ Hp)).
        rewrite (Hco _ Hpu). exact (H3 _ _ Hp).
    + assert (forall v, chain_of (add_obj st u o k) v = chain_of st v) as Hall.
      { intros v. unfold chain_of.
        destruct (N.eq_dec v u) as [Hv|Hv]; [subst v; rewrite Hgu, Ha; reflexivity|rewrite (Hgo _ Hv); reflexivity]. }
      intros v p Hp. rewrite !Hall in *. exact (H3 _ _ Hp).
  - (* Cont *)
    intros v p Hv Hp. rewrite alive_add_obj in *. destruct (N.eqb v u) eqn:E.
    + apply N.eqb_eq in E; subst v. rewrite Hcu in Hp. destruct Hp as [Hp|Hp].
      * subst p. rewrite HP. apply orb_true_r.
      * rewrite (H4 _ _ HP Hp). apply orb_true_r.
    + simpl in Hv. apply N.eqb_neq in E. rewrite (Hco _ E) in Hp. rewrite (H4 _ _ Hv Hp). apply orb_true_r.
  - (* Ikind *)
    destruct Ha as [Ha|Ha].
    + specialize (Hnotin Ha).
      intros v p Hs Hp. destruct (N.eq_dec v u) as [Hv|Hv].
      * subst v. rewrite Hcu in Hp. rewrite Hku in Hs. specialize (Hk Hs).
        assert (p <> u) as Hpu.
        { intros He; subst p. destruct Hp as [Hp|Hp]; [exact (HuP (eq_sym Hp))|exact (Hnotin _ Hp)]. }
        rewrite (Hko _ Hpu). destruct Hp as [Hp|Hp]; [subst p; exact Hk|].
        apply (H5 P p); [|exact Hp]. destruct (kind_of st P); try discriminate; reflexivity.
      * rewrite (Hco _ Hv) in Hp. rewrite (Hko _ Hv) in Hs.
        assert (p <> u) as Hpu by (intros He; subst p; exact (Hnotin _ Hp)).
        rewrite (Hko _ Hpu). exact (H5 _ _ Hs Hp).
    + assert (forall v, get_obj (add_obj st u o k) v = get_obj st v) as Hall.
      { intros v. destruct (N.eq_dec v u) as [Hv|Hv]; [subst v; rewrite Hgu, Ha; reflexivity|exact (Hgo _ Hv)]. }
      intros v p. unfold kind_of, chain_of. rewrite !Hall. exact (H5 v p).
Qed.

Lemma fresh_not_in_objs : forall st, Ifresh st -> get_obj st (st_next st) = None.
Proof.
  intros st H. unfold get_obj. destruct (lookupN (st_next st) (st_objs st)) eqn:E; [|reflexivity].
  apply lookupN_In in E. destruct (H _ _ E) as [Hlt _]. lia.
Qed.

Lemma fresh_not_in_chains : forall st, Ifresh st -> forall v, ~ In (st_next st) (chain_of st v).
Proof.
  intros st H v Hin. unfold chain_of, get_obj in Hin. destruct (lookupN v (st_objs st)) eqn:E; [|exact Hin].
  apply lookupN_In in E. destruct (H _ _ E) as [_ Hc]. specialize (Hc _ Hin). lia.
Qed.

(** a fresh uid for a new object right below the live object P *)
Lemma str_add_fresh : forall st o k P,
  Str st -> o_chain o = P :: chain_of st P -> alive st P = true ->
  (statick (o_kind o) = true -> contk (kind_of st P) = true) ->
  Str (add_obj (bump st) (st_next st) o k).
Proof.
  intros st o k P H Hc HP Hk. pose proof H as [H1 _].
  apply (str_add_obj (bump st) (st_next st) o k P).
  - apply str_bump; exact H.
  - left. exact (fresh_not_in_objs _ H1).
  - cbn. lia.
  - intros _ v. exact (fresh_not_in_chains _ H1 v).
  - exact Hc.
  - exact HP.
  - exact Hk.
Qed.

Lemma kind_eqb_eq : forall a b, kind_eqb a b = true -> a = b.
Proof. intros [] []; simpl; intros H; try discriminate; reflexivity. Qed.

Lemma uids_eqb_eq : forall a b, uids_eqb a b = true -> a = b.
Proof.
  induction a as [|x a IH]; intros [|y b]; simpl; intros H; try discriminate; [reflexivity|].
  apply andb_true_iff in H as [H1 H2]. apply N.eqb_eq in H1. rewrite (IH _ H2), H1. reflexivity.
Qed.

Lemma obj_eqb_eq : forall a b, obj_eqb a b = true -> a = b.
Proof.
  intros [k1 c1 n1 z1 d1] [k2 c2 n2 z2 d2]. unfold obj_eqb; cbn.
  rewrite !andb_true_iff. intros [[[[H1 H2] H3] H4] H5].
  apply kind_eqb_eq in H1. apply uids_eqb_eq in H2. apply String.eqb_eq in H3.
  apply Z.eqb_eq in H4. apply Bool.eqb_prop in H5. subst. reflexivity.
Qed.

(** a dynamic space below the live object P: cached uid or fresh uid *)
Lemma str_add_alloc : forall st key o du st1 src k P,
  Str st -> alloc_dyn st key o = (du, st1) ->
  o_chain o = P :: chain_of st P -> alive st P = true ->
  (statick (o_kind o) = true -> contk (kind_of st P) = true) ->
  Str (add_obj (add_src st1 du src) du o k).
Proof.
  intros st key o du st1 src k P H Ha Hc HP Hk. pose proof H as [H1 _].
  assert (Str (add_obj (bump st) (st_next st) o k)) as Hfresh by exact (str_add_fresh _ _ _ _ H Hc HP Hk).
  unfold alloc_dyn in Ha.
  assert (forall c, Str (add_obj (add_src (mkState (st_objs st) (st_alive st) (st_conts st) (st_vals st) (st_globals st)
             c (st_src st) (N.succ (st_next st)) (st_handles st) (st_ftab st)) (st_next st) src) (st_next st) o k)) as Hf2.
  { intros c. revert Hfresh. apply str_ext; reflexivity || (cbn; lia). }
  destruct (lookupD key (st_cache st)) as [u|]; [|inversion Ha; subst; apply Hf2].
  destruct (get_obj st u) as [o'|] eqn:Eg; [|inversion Ha; subst; apply Hf2].
  destruct (obj_eqb o' o && negb (alive st u)) eqn:Eo; [|inversion Ha; subst; apply Hf2].
  inversion Ha; subst du st1; clear Ha. apply andb_true_iff in Eo as [Eo _]. apply obj_eqb_eq in Eo; subst o'.
  apply (str_add_obj (add_src st u src) u o k P).
  - apply str_add_src; exact H.
  - right. exact Eg.
  - apply lookupN_In in Eg. destruct (H1 _ _ Eg) as [Hlt _]. exact Hlt.
  - intros Hn. change (get_obj (add_src st u src) u) with (get_obj st u) in Hn. congruence.
  - exact Hc.
  - exact HP.
  - exact Hk.
Qed.


(** ---- static objects are never below an ItemSpace or a cells ---- *)
Lemma is_kind_true : forall st k u, is_kind st k u = true -> kind_of st u = k.
Proof. intros st k u H. unfold is_kind in H. apply kind_eqb_eq in H. exact H. Qed.

Lemma static_not_under : forall st seeds u,
  Str st -> contk (kind_of st u) = true ->
  (forall a, In a seeds -> contk (kind_of st a) = false) ->
  ~ In u (under_set st seeds).
Proof.
  intros st seeds u [_ [_ [_ [_ H5]]]] Hu Hs Hin.
  apply under_set_spec in Hin as [_ [a [Ha Hsa]]]. specialize (Hs _ Hsa).
  destruct Ha as [Ha|Ha].
  - subst a. rewrite Hu in Hs. discriminate.
  - assert (statick (kind_of st u) = true) as Hst by (destruct (kind_of st u); try discriminate; reflexivity).
    rewrite (H5 _ _ Hst Ha) in Hs. discriminate.
Qed.

Lemma item_seeds_kind : forall st l a, In a (filter (is_kind st KItem) l) -> contk (kind_of st a) = false.
Proof.
  intros st l a H. apply filter_In in H as [_ H]. apply is_kind_true in H. rewrite H. reflexivity.
Qed.

Lemma alive_discard_items : forall st l u,
  Str st -> contk (kind_of st u) = true -> alive (discard_items st l) u = alive st u.
Proof.
  intros st l u H Hu. unfold discard_items. rewrite alive_purge.
  assert (memN u (item_set st l) = false) as Hn.
  { apply memN_false. unfold item_set. apply static_not_under; [exact H|exact Hu|]. apply item_seeds_kind. }
  rewrite Hn. apply andb_true_r.
Qed.

Lemma alive_ns_change : forall st Ts l u,
  Str st -> contk (kind_of st u) = true -> alive (ns_change st Ts l) u = alive st u.
Proof.
  intros st Ts l u H Hu. unfold ns_change.
  rewrite (alive_discard_items (clear_vals (flat_map (cells_of st) Ts) st) l u); [reflexivity|exact H|exact Hu].
Qed.

Lemma orphan_kind : forall st a, In a (orphans st) -> contk (kind_of st a) = false.
Proof.
  intros st a H. unfold orphans in H. apply filter_In in H as [_ H]. apply andb_true_iff in H as [H _].
  unfold is_derived in H. unfold kind_of. destruct (get_obj st a) as [o|]; [|discriminate].
  apply andb_true_iff in H as [H _]. apply kind_eqb_eq in H. rewrite H. reflexivity.
Qed.

Lemma alive_settle : forall st Ts l u,
  Str st -> contk (kind_of st u) = true -> alive (settle st Ts l) u = alive st u.
Proof.
  intros st Ts l u H Hu. unfold settle. rewrite alive_purge.
  match goal with |- _ && negb (memN u ?K) = _ => assert (memN u K = false) as Hn end.
  { apply memN_false. apply static_not_under; [exact H|exact Hu|].
    intros a Ha. apply in_app_iff in Ha as [Ha|Ha]; [exact (orphan_kind _ _ Ha)|exact (item_seeds_kind _ _ _ Ha)]. }
  rewrite Hn. apply andb_true_r.
Qed.

Lemma alive_upd_cont : forall st u f x, alive (upd_cont st u f) x = alive st x.
Proof. reflexivity. Qed.

Lemma str_new_cells_obj : forall st T n d,
  Str st -> alive st T = true -> is_kind st KSpace T = true -> Str (new_cells_obj st T n d).
Proof.
  intros st T n d H HT HK. unfold new_cells_obj. apply str_upd_cont.
  apply (str_add_fresh st _ None T H); [reflexivity|exact HT|].
  intros _. apply is_kind_true in HK. rewrite HK. reflexivity.
Qed.

Lemma alive_new_cells_obj_mono : forall st T n d x, alive st x = true -> alive (new_cells_obj st T n d) x = true.
Proof.
  intros st T n d x H. unfold new_cells_obj. rewrite alive_upd_cont, alive_add_obj.
  change (alive (bump st) x) with (alive st x). rewrite H. apply orb_true_r.
Qed.

(** the kind of an existing object never changes *)
Lemma kind_add_obj_stable : forall st u o k v, get_obj st v <> None -> kind_of (add_obj st u o k) v = kind_of st v.
Proof.
  intros st u o k v H. unfold kind_of. destruct (get_obj st v) as [ov|] eqn:E; [|congruence].
  rewrite (get_obj_add_obj_stable _ _ _ _ _ _ E). reflexivity.
Qed.

Lemma is_kind_new_cells_obj : forall st T n d k x,
  Str st -> alive st x = true -> is_kind (new_cells_obj st T n d) k x = is_kind st k x.
Proof.
  intros st T n d k x [_ [H2 _]] Hx. unfold is_kind, new_cells_obj.
  change (kind_of (upd_cont ?s T ?f) x) with (kind_of s x).
  rewrite kind_add_obj_stable; [reflexivity|]. exact (H2 _ Hx).
Qed.

(** a list of live spaces stays a list of live spaces while cells are created *)
Definition live_space (st : state) (T : uid) : Prop := alive st T = true /\ is_kind st KSpace T = true.

Lemma live_space_new_cells_obj : forall st T n d x, Str st -> live_space st x -> live_space (new_cells_obj st T n d) x.
Proof.
  intros st T n d x H [Ha Hk]. split; [apply alive_new_cells_obj_mono; exact Ha|].
  rewrite is_kind_new_cells_obj; assumption.
Qed.

Lemma str_fold_new_cells_names : forall T d l st,
  Str st -> live_space st T ->
  Str (fold_left (fun s n => new_cells_obj s T n d) l st)
  /\ forall x, live_space st x -> live_space (fold_left (fun s n => new_cells_obj s T n d) l st) x.
Proof.
  intros T d l; induction l as [|n t IH]; simpl; intros st H HT; [split; [exact H|auto]|].
  destruct HT as [HTa HTk].
  destruct (IH (new_cells_obj st T n d) (str_new_cells_obj _ _ _ _ H HTa HTk)
               (live_space_new_cells_obj _ _ _ _ _ H (conj HTa HTk))) as [HS HM].
  split; [exact HS|]. intros x Hx. apply HM, live_space_new_cells_obj; assumption.
Qed.

Lemma str_derive_space : forall st T, Str st -> live_space st T ->
  Str (derive_space st T) /\ forall x, live_space st x -> live_space (derive_space st T) x.
Proof. intros st T H HT. unfold derive_space. apply str_fold_new_cells_names; assumption. Qed.

Lemma str_fold_derive : forall l st, Str st -> (forall T, In T l -> live_space st T) ->
  Str (fold_left derive_space l st).
Proof.
  induction l as [|T t IH]; simpl; intros st H Hl; [exact H|].
  destruct (str_derive_space st T H (Hl _ (or_introl eq_refl))) as [HS HM].
  apply IH; [exact HS|]. intros T' HT'. apply HM, Hl. right; exact HT'.
Qed.

Lemma str_fold_new_cells_spaces : forall n d l st, Str st -> (forall T, In T l -> live_space st T) ->
  Str (fold_left (fun a T => new_cells_obj a T n d) l st).
Proof.
  intros n d l; induction l as [|T t IH]; simpl; intros st H Hl; [exact H|].
  destruct (Hl T (or_introl eq_refl)) as [Ha Hk].
  apply IH; [apply str_new_cells_obj; assumption|].
  intros T' HT'. apply live_space_new_cells_obj; [exact H|]. apply Hl. right; exact HT'.
Qed.

Lemma subs_of_live : forall st S T, In T (subs_of st S) -> live_space st T.
Proof.
  intros st S T H. unfold subs_of, live_spaces in H. apply filter_In in H as [H _].
  apply filter_In in H as [H Hk]. split; [unfold alive; apply memN_In; exact H|exact Hk].
Qed.

Lemma str_create_derived : forall st l, Str st -> (forall T, In T l -> live_space st T) -> Str (create_derived st l).
Proof. intros st l H Hl. unfold create_derived. apply str_ns_change, str_fold_derive; assumption. Qed.

Lemma live_space_contk : forall st T, is_kind st KSpace T = true -> contk (kind_of st T) = true.
Proof. intros st T H. apply is_kind_true in H. rewrite H. reflexivity. Qed.

(** ---- the operations ---- *)
Lemma str_step_new_space : forall st p name bs params st' o,
  Str st -> alive st p = true -> step_new_space st p name bs params = (st', o) -> Str st'.
Proof.
  intros st p name bs params st' o H Hp. unfold step_new_space.
  destruct (is_kind st KModel p || is_kind st KSpace p) eqn:Ekp; cbn [negb]; [|intros E; inversion E; subst; exact H].
  destruct (negb (forallb (is_kind st KSpace) bs)); [intros E; inversion E; subst; exact H|].
  destruct (has_name st p name); [intros E; inversion E; subst; exact H|].
  intros E; inversion E; subst; clear E. apply str_push_handle.
  set (u := st_next st).
  set (st1 := add_obj (bump st) u (mkObj KSpace (p :: chain_of st p) name 0 false)
                      (Some (mkCont [] [] [] (dedupN bs) params))).
  assert (contk (kind_of st p) = true) as Hkp.
  { apply orb_true_iff in Ekp as [E|E]; apply is_kind_true in E; rewrite E; reflexivity. }
  assert (Str st1) as H1 by (apply (str_add_fresh st _ _ p H); [reflexivity|exact Hp|intros _; exact Hkp]).
  assert (get_obj st1 u = Some (mkObj KSpace (p :: chain_of st p) name 0 false)) as Hgu.
  { apply get_obj_add_obj_same. left. exact (fresh_not_in_objs _ (proj1 H)). }
  assert (live_space st1 u) as Hu.
  { split; [unfold st1; rewrite alive_add_obj, N.eqb_refl; reflexivity|].
    unfold is_kind, kind_of. rewrite Hgu. reflexivity. }
  set (st2 := upd_cont st1 p (add_space_entry name u)).
  assert (Str st2) as H2 by exact H1.
  assert (live_space st2 u) as Hu2 by exact Hu.
  refine (proj1 (str_derive_space _ u _ _)).
  - destruct (is_kind st KSpace p); [apply str_ns_change|]; exact H2.
  - destruct (is_kind st KSpace p); [|exact Hu2]. destruct Hu2 as [Ha Hk]. split; [|exact Hk].
    rewrite alive_ns_change; [exact Ha|exact H2|exact (live_space_contk _ _ Hk)].
Qed.

Lemma str_step_new_cells : forall st s name st' o,
  Str st -> alive st s = true -> step_new_cells st s name = (st', o) -> Str st'.
Proof.
  intros st s name st' o H Hs. unfold step_new_cells.
  destruct (is_kind st KSpace s) eqn:Ek; cbn [negb]; [|intros E; inversion E; subst; exact H].
  destruct (has_name st s name); [intros E; inversion E; subst; exact H|].
  intros E; inversion E; subst; clear E.
  apply str_push_handle, str_ns_change, str_fold_new_cells_spaces.
  - apply str_new_cells_obj; assumption.
  - intros T HT. apply filter_In in HT as [HT _]. apply live_space_new_cells_obj; [exact H|].
    exact (subs_of_live _ _ _ HT).
Qed.

Lemma str_step_take : forall st u name st' o, Str st -> step_take st u name = (st', o) -> Str st'.
Proof.
  intros st u name st' o H. unfold step_take.
  destruct (lookupS name (c_cells (get_cont st u))); [intros E; inversion E; subst; exact H|].
  destruct (lookupS name (c_spaces (get_cont st u))); intros E; inversion E; subst; exact H.
Qed.

(** copying a subtree: every copy made so far is alive *)
Definition map_live (st : state) (m : list (uid * (uid * list string))) : Prop :=
  forall p dp path, In (p, (dp, path)) m -> alive st dp = true.

Lemma lookup3_In : forall x m v, lookup3 x m = Some v -> In (x, v) m.
Proof.
  intros x m v; induction m as [|[k w] t IH]; simpl; [discriminate|].
  destruct (N.eqb k x) eqn:E.
  - intros H; inversion H; subst. apply N.eqb_eq in E; subst. left; reflexivity.
  - intros H; right; apply IH; exact H.
Qed.

Lemma alloc_dyn_alive : forall st k o u st1, alloc_dyn st k o = (u, st1) -> st_alive st1 = st_alive st.
Proof.
  intros st k o u st1. unfold alloc_dyn.
  destruct (lookupD k (st_cache st)); [destruct (get_obj st u0); [destruct (obj_eqb o0 o && negb (alive st u0))|]|];
    intros H; inversion H; subst; reflexivity.
Qed.

Lemma str_copy_one : forall S k acc u,
  Str (fst acc) /\ map_live (fst acc) (snd acc) ->
  Str (fst (copy_one S k acc u)) /\ map_live (fst (copy_one S k acc u)) (snd (copy_one S k acc u)).
Proof.
  intros S k [st m] u [H Hm]. cbn [fst snd] in *. unfold copy_one.
  destruct (parent_of st u) as [p|]; [|split; assumption].
  destruct (lookup3 p m) as [[dp path]|] eqn:El; [|split; assumption].
  pose proof (Hm _ _ _ (lookup3_In _ _ _ El)) as Hdp.
  destruct (is_kind st KCells u).
  - cbn [fst snd]. split.
    + apply str_upd_cont. apply (str_add_fresh st _ None dp H); [reflexivity|exact Hdp|intros Hs; discriminate].
    + intros q dq pq Hin. rewrite alive_upd_cont, alive_add_obj.
      change (alive (bump st) dq) with (alive st dq). rewrite (Hm _ _ _ Hin). apply orb_true_r.
  - destruct (alloc_dyn st (S, k, (path ++ [name_of st u])%list)
                        (mkObj KDSpace (dp :: chain_of st dp) (name_of st u) 0 false)) as [du st1] eqn:Ea.
    cbn [fst snd]. split.
    + apply str_upd_cont. apply (str_add_alloc st _ _ du st1 u _ dp H Ea); [reflexivity|exact Hdp|intros Hs; discriminate].
    + intros q dq pq Hin. rewrite alive_upd_cont, alive_add_obj.
      destruct Hin as [Hin|Hin].
      * inversion Hin; subst. rewrite N.eqb_refl. reflexivity.
      * assert (alive (add_src st1 du u) dq = alive st dq) as Hal.
        { unfold alive. cbn [add_src st_alive]. rewrite (alloc_dyn_alive _ _ _ _ _ Ea). reflexivity. }
        rewrite Hal, (Hm _ _ _ Hin). apply orb_true_r.
Qed.

Lemma str_fold_copy : forall S k l acc,
  Str (fst acc) /\ map_live (fst acc) (snd acc) ->
  Str (fst (fold_left (copy_one S k) l acc)).
Proof.
  intros S k l; induction l as [|u t IH]; simpl; intros acc H; [exact (proj1 H)|].
  apply IH, str_copy_one, H.
Qed.

Lemma str_new_item : forall st S k, Str st -> alive st S = true -> Str (fst (new_item st S k)).
Proof.
  intros st S k H HS. unfold new_item.
  destruct (alloc_dyn st (S, k, []) (mkObj KItem (S :: chain_of st S) EmptyString k false)) as [r st1] eqn:Ea.
  cbn [fst]. apply str_fold_copy. cbn [fst snd]. split.
  - apply str_upd_cont. apply (str_add_alloc st _ _ r st1 S _ S H Ea); [reflexivity|exact HS|intros Hs; discriminate].
  - intros q dq pq [Hin|[]]. inversion Hin; subst. rewrite alive_upd_cont, alive_add_obj, N.eqb_refl. reflexivity.
Qed.

Lemma str_step_get_item : forall st s k st' o, Str st -> alive st s = true -> step_get_item st s k = (st', o) -> Str st'.
Proof.
  intros st s k st' o H Hs. unfold step_get_item.
  destruct (negb (is_kind st KSpace s && c_params (get_cont st s))); [intros E; inversion E; subst; exact H|].
  destruct (lookupZ k (c_items (get_cont st s))); [intros E; inversion E; subst; exact H|].
  pose proof (str_new_item st s k H Hs) as H2. destruct (new_item st s k) as [st1 r].
  intros E; inversion E; subst. exact H2.
Qed.

Lemma is_defined_kind : forall st c, is_defined st c = true -> contk (kind_of st c) = false.
Proof.
  intros st c H. unfold is_defined in H. unfold kind_of. destruct (get_obj st c) as [o|]; [|discriminate].
  apply andb_true_iff in H as [H _]. apply kind_eqb_eq in H. rewrite H. reflexivity.
Qed.

Lemma str_step_del_cells : forall st s c st' o,
  Str st -> alive st s = true -> is_kind st KSpace s = true -> step_del_cells st s c = (st', o) -> Str st'.
Proof.
  intros st s c st' o H Hs Hk. unfold step_del_cells.
  destruct (is_defined st c) eqn:Ed; cbn [negb]; intros E; inversion E; subst; [|exact H].
  set (st1 := purge (under_set st [c]) st).
  assert (Str st1) as H1 by (apply str_purge_under; exact H).
  assert (forall T, live_space st T -> live_space st1 T) as Hl1.
  { intros T [Ha HkT]. split; [|exact HkT]. unfold st1. rewrite alive_purge, Ha. simpl.
    apply negb_true_iff, memN_false. apply static_not_under; [exact H|exact (live_space_contk _ _ HkT)|].
    intros a [Ha2|[]]. subst a. exact (is_defined_kind _ _ Ed). }
  apply str_create_derived.
  - apply str_settle, str_clear_vals. exact H1.
  - intros T HT.
    assert (live_space st T) as HT0.
    { destruct HT as [HT|HT]; [subst T; split; assumption|exact (subs_of_live _ _ _ HT)]. }
    destruct (Hl1 _ HT0) as [Ha HkT]. split; [|exact HkT].
    rewrite alive_settle; [exact Ha|apply str_clear_vals; exact H1|exact (live_space_contk _ _ HkT)].
Qed.

Lemma str_step_del_space : forall st p x st' o, Str st -> step_del_space st p x = (st', o) -> Str st'.
Proof.
  intros st p x st' o H. unfold step_del_space. intros E; inversion E; subst.
  apply str_settle, str_clear_vals, str_purge_under, H.
Qed.

Lemma str_step_del_attr : forall st u name st' o, Str st -> alive st u = true -> step_del_attr st u name = (st', o) -> Str st'.
Proof.
  intros st u name st' o H Hu. unfold step_del_attr.
  destruct (kind_of st u) eqn:Ek; try (intros E; inversion E; subst; exact H).
  - destruct (lookupS name (c_spaces (get_cont st u))); [apply str_step_del_space; exact H|].
    destruct (lookupS name (st_globals st)); intros E; inversion E; subst; [|exact H].
    apply str_wipe, str_set_globals, H.
  - destruct (lookupS name (c_cells (get_cont st u))).
    + apply str_step_del_cells; [exact H|exact Hu|]. unfold is_kind. rewrite Ek. reflexivity.
    + destruct (lookupS name (c_spaces (get_cont st u))); [apply str_step_del_space; exact H|].
      intros E; inversion E; subst; exact H.
Qed.

Lemma str_step_add_bases : forall st s bs st' o,
  Str st -> alive st s = true -> step_add_bases st s bs = (st', o) -> Str st'.
Proof.
  intros st s bs st' o H Hs. unfold step_add_bases.
  destruct (is_kind st KSpace s && forallb (is_kind st KSpace) bs) eqn:Ek; cbn [negb]; [|intros E; inversion E; subst; exact H].
  destruct (existsb (fun b => N.eqb b s || memN s (ancs_of st b)) bs); intros E; inversion E; subst; [exact H|].
  apply andb_true_iff in Ek as [Ek _].
  apply str_create_derived; [apply str_discard_items; exact H|].
  intros T HT.
  assert (live_space st T) as [Ha Hk].
  { destruct HT as [HT|HT]; [subst T; split; assumption|]. exact (subs_of_live _ _ _ HT). }
  split; [|exact Hk]. rewrite alive_discard_items; [exact Ha|exact H|exact (live_space_contk _ _ Hk)].
Qed.

Lemma str_step_remove_bases : forall st s bs st' o, Str st -> step_remove_bases st s bs = (st', o) -> Str st'.
Proof.
  intros st s bs st' o H. unfold step_remove_bases.
  destruct (negb (is_kind st KSpace s)); [intros E; inversion E; subst; exact H|].
  destruct (negb (forallb (fun b => memN b (c_bases (get_cont st s))) bs)); intros E; inversion E; subst; [exact H|].
  apply str_settle. exact H.
Qed.

Lemma str_step_set_params : forall st s b st' o, Str st -> step_set_params st s b = (st', o) -> Str st'.
Proof.
  intros st s b st' o H. unfold step_set_params.
  destruct (negb (is_kind st KSpace s)); intros E; inversion E; subst; [exact H|].
  apply str_upd_cont. apply str_discard_items. exact H.
Qed.

Lemma eval_fields : forall fuel st c x st1 z deps, eval fuel st c x = EOk st1 z deps ->
  st_objs st1 = st_objs st /\ st_alive st1 = st_alive st /\ st_next st1 = st_next st /\ st_conts st1 = st_conts st.
Proof.
  induction fuel as [|f IH]; intros st c x st1 z deps; simpl; [discriminate|].
  destruct (find_val st c x); [intros E; inversion E; subst; repeat split; reflexivity|].
  destruct (callee st c) as [[d|]|]; [| |discriminate].
  - destruct (eval f st d x) as [st2 z2 deps2| |] eqn:Ee; [|discriminate|discriminate].
    intros E; inversion E; subst. exact (IH _ _ _ _ _ _ Ee).
  - intros E; inversion E; subst. repeat split; reflexivity.
Qed.

Lemma str_step_eval : forall st c x st' o, Str st -> step_eval st c x = (st', o) -> Str st'.
Proof.
  intros st c x st' o H. unfold step_eval.
  destruct (negb (is_kind st KCells c || is_kind st KDCells c)); [intros E; inversion E; subst; exact H|].
  destruct (eval (eval_fuel st) st c x) as [st1 z deps| |] eqn:Ee; intros E; inversion E; subst; try exact H.
  destruct (eval_fields _ _ _ _ _ _ _ Ee) as [Ho [Ha [Hn _]]].
  apply (str_ext st); [exact Ho|exact Ha|rewrite Hn; lia|exact H].
Qed.

Lemma str_step_bind_global : forall st name s st' o, Str st -> step_bind_global st name s = (st', o) -> Str st'.
Proof.
  intros st name s st' o H. unfold step_bind_global.
  destruct (negb (is_kind st KSpace s)); [intros E; inversion E; subst; exact H|].
  destruct (has_name st 0%N name); intros E; inversion E; subst; [exact H|].
  apply str_wipe, str_set_globals, H.
Qed.

Theorem str_step : forall st o, Str st -> Str (fst (step st o)).
Proof.
  intros st o H. unfold step.
  destruct (op_handles o) as [h hb].
  destruct (handle st h) as [u|]; [|exact H].
  destruct (handles st hb) as [bs|]; [|exact H].
  destruct (alive st u && forallb (alive st) bs) eqn:Eal; cbn [negb]; [|exact H].
  apply andb_true_iff in Eal as [Hu Hb].
  destruct o.
  - destruct (step_new_space st u name bs params) as [st' o'] eqn:E. exact (str_step_new_space _ _ _ _ _ _ _ H Hu E).
  - destruct (step_new_cells st u name) as [st' o'] eqn:E. exact (str_step_new_cells _ _ _ _ _ H Hu E).
  - destruct (step_take st u name) as [st' o'] eqn:E. exact (str_step_take _ _ _ _ _ H E).
  - destruct (step_get_item st u k) as [st' o'] eqn:E. exact (str_step_get_item _ _ _ _ _ H Hu E).
  - destruct (step_del_attr st u name) as [st' o'] eqn:E. exact (str_step_del_attr _ _ _ _ _ H Hu E).
  - destruct (step_add_bases st u bs) as [st' o'] eqn:E. exact (str_step_add_bases _ _ _ _ _ H Hu E).
  - destruct (step_remove_bases st u bs) as [st' o'] eqn:E. exact (str_step_remove_bases _ _ _ _ _ H E).
  - destruct (step_set_params st u b) as [st' o'] eqn:E. exact (str_step_set_params _ _ _ _ _ H E).
  - destruct (is_kind st KSpace u); cbn [fst]; [apply str_discard_items|]; exact H.
  - destruct (is_kind st KSpace u); cbn [fst]; [|exact H].
    destruct (lookupZ k (c_items (get_cont st u))); cbn [fst]; [apply str_discard_items|]; exact H.
  - destruct (step_eval st u x) as [st' o'] eqn:E. exact (str_step_eval _ _ _ _ _ H E).
  - destruct bs as [|s t]; [exact H|].
    destruct (step_bind_global st name s) as [st' o'] eqn:E. exact (str_step_bind_global _ _ _ _ _ H E).
Qed.

Lemma chain_init : forall ft u, chain_of (init ft) u = [].
Proof.
  intros ft u. unfold chain_of, get_obj, init; cbn [st_objs lookupN].
  destruct (N.eqb 0 u); reflexivity.
Qed.

Lemma str_init : forall ft, Str (init ft).
Proof.
  intros ft. split; [|split; [|split; [|split]]].
  - intros u o [Hin|[]]. inversion Hin; subst. split; [cbn; lia|intros p []].
  - intros u Hu. unfold alive in Hu. cbn in Hu. rewrite orb_false_r in Hu. apply N.eqb_eq in Hu; subst u.
    cbn. discriminate.
  - intros u p Hp. rewrite chain_init in Hp. destruct Hp.
  - intros u p _ Hp. rewrite chain_init in Hp. destruct Hp.
  - intros u p _ Hp. rewrite chain_init in Hp. destruct Hp.
Qed.

Lemma str_run_from : forall ops st, Str st -> Str (run_from st ops).
Proof. induction ops as [|o t IH]; intros st H; [exact H|]. cbn. apply IH, str_step, H. Qed.

Theorem str_run : forall ft ops, Str (run ft ops).
Proof. intros. apply str_run_from, str_init. Qed.

(** ---- containment, inductively ---- *)
(** [inside st x u]: u is x or is contained in x, at any depth (parent links) *)
Inductive inside (st : state) (x : uid) : uid -> Prop :=
| inside_self : inside st x x
| inside_step : forall u p, parent_of st u = Some p -> inside st x p -> inside st x u.

Lemma inside_chain : forall st x u, Str st -> inside st x u -> u = x \/ In x (chain_of st u).
Proof.
  intros st x u [_ [_ [H3 _]]] Hi. induction Hi as [|u p Hp Hi IH]; [left; reflexivity|right].
  unfold parent_of in Hp. destruct (chain_of st u) as [|q t] eqn:Ec; [discriminate|].
  cbn in Hp. inversion Hp; subst q.
  destruct IH as [IH|IH]; [subst p; left; reflexivity|].
  assert (In p (chain_of st u)) as Hpin by (rewrite Ec; left; reflexivity).
  rewrite <- Ec. exact (H3 _ _ Hpin _ IH).
Qed.

(** C13_dead (containment part): in every reachable state, everything inside a dead object is dead *)
Theorem dead_inside : forall ft ops x u,
  inside (run ft ops) x u -> alive (run ft ops) x = false -> alive (run ft ops) u = false.
Proof.
  intros ft ops x u Hi Hx. pose proof (str_run ft ops) as H.
  destruct (inside_chain _ _ _ H Hi) as [He|Hin]; [subst u; exact Hx|].
  destruct (alive (run ft ops) u) eqn:Eu; [|reflexivity].
  destruct H as [_ [_ [_ [H4 _]]]]. rewrite (H4 _ _ Eu Hin) in Hx. discriminate.
Qed.
