(** Alive layer - lemmas (first part: operations through dead handles). *)
From Coq Require Import List String Bool Arith ZArith NArith Lia.
From MX Require Import Alive.Model.
Import ListNotations.

(** an operation through a dead handle answers the deleted-object error and
    changes nothing *)
Lemma dead_handle_rejected : forall st o u,
  handle st (fst (op_handles o)) = Some u -> alive st u = false ->
  (exists bs, handles st (snd (op_handles o)) = Some bs) ->
  step st o = (st, ODeleted).
Proof.
  intros st o u Hh Ha [bs Hb]. unfold step.
  destruct (op_handles o) as [h hb] eqn:E. cbn [fst snd] in *.
  rewrite Hh, Hb, Ha. reflexivity.
Qed.
