(** Alive layer - every operation preserves the whole invariant [Inv]
    (no residue, containment, base lists, derived cells have definers);
    the theorems over all histories. *)
From Coq Require Import List String Bool Arith ZArith NArith Lia.
From MX Require Import Alive.Model Alive.ProofsBase Alive.ProofsRes Alive.ProofsStr Alive.ProofsDer.
Import ListNotations.

(** ---- small growth steps ---- *)
Lemma inv_push_handle : forall st u, Inv st -> Inv (push_handle st u).
Proof. intros st u H. apply (inv_ext st); [reflexivity|reflexivity|reflexivity|reflexivity|cbn; lia|exact H]. Qed.

Lemma inv_set_globals : forall st g, Inv st -> Inv (set_globals st g).
Proof. intros st g H. apply (inv_ext st); [reflexivity|reflexivity|reflexivity|reflexivity|cbn; lia|exact H]. Qed.

Lemma inv_set_vals_nil : forall st, Inv st -> Inv (set_vals st []).
Proof.
  intros st [HR [HS [HB HD]]]. split; [apply res_set_vals_nil; exact HR|split; [exact HS|split; [exact HB|]]].
  apply (der_ext st); try reflexivity. exact HD.
Qed.

Lemma inv_wipe : forall st, Inv st -> Inv (wipe st).
Proof. intros st H. unfold wipe. apply inv_discard_items, inv_set_vals_nil, H. Qed.

(** an entry for a live object is appended to a name map of the container of u *)
Definition entry_fun (f : cont -> cont) (x : uid) : Prop :=
  (forall c y, In y (cont_uids (f c)) -> In y (cont_uids c) \/ y = x)
  /\ (forall c, c_bases (f c) = c_bases c)
  /\ (forall c n y, lookupS n (c_cells c) = Some y -> lookupS n (c_cells (f c)) = Some y).

Lemma entry_cell : forall n x, entry_fun (add_cell_entry n x) x.
Proof.
  intros n x. split; [|split].
  - intros c y H. apply cont_uids_add_cell in H. exact H.
  - reflexivity.
  - intros c m y H. cbn. rewrite lookupS_app, H. reflexivity.
Qed.
Lemma entry_space : forall n x, entry_fun (add_space_entry n x) x.
Proof.
  intros n x. split; [|split].
  - intros c y H. apply cont_uids_add_space in H. exact H.
  - reflexivity.
  - intros c m y H. exact H.
Qed.
Lemma entry_item : forall n x, entry_fun (add_item_entry n x) x.
Proof.
  intros n x. split; [|split].
  - intros c y H. apply cont_uids_add_item in H. exact H.
  - reflexivity.
  - intros c m y H. exact H.
Qed.

Lemma inv_upd_entry : forall st u f x, Inv st -> alive st x = true -> entry_fun f x -> Inv (upd_cont st u f).
Proof.
  intros st u f x [HR [HS [HB HD]]] Hx [F1 [F2 F3]]. split; [|split; [|split]].
  - apply res_upd_cont; [exact HR|]. intros c y Hy. destruct (F1 _ _ Hy) as [H|H]; [left; exact H|right; subst y; exact Hx].
  - exact HS.
  - apply ibases_upd_cont; [exact HB|]. intros c b Hb. left. rewrite F2 in Hb. exact Hb.
  - apply (der_grow_nonderived st); try assumption.
    + apply grows_upd_cont; [intros b Hb; rewrite F2; exact Hb|intros n y Hy; exact (F3 _ _ _ Hy)].
    + intros d Hd. left. exact Hd.
Qed.

(** a new live object that is no user cells *)
Lemma inv_add_plain : forall st u o k,
  Inv st -> Str (add_obj st u o k) -> alive st u = false ->
  (get_obj st u = None \/ get_obj st u = Some o) -> o_kind o <> KCells ->
  (forall c, k = Some c -> (forall x, In x (cont_uids c) -> alive st x = true)
                           /\ forall b, In b (c_bases c) -> is_kind st KSpace b = true) ->
  Inv (add_obj st u o k).
Proof.
  intros st u o k [HR [HS [HB HD]]] HS' Hu Hg Hk Hc. split; [|split; [|split]].
  - apply res_add_obj; [exact HR|]. intros c Hkc x Hx. left. exact (proj1 (Hc _ Hkc) _ Hx).
  - exact HS'.
  - apply ibases_add_obj; [exact HB|]. intros c Hkc b Hb. exact (proj2 (Hc _ Hkc) _ Hb).
  - apply (der_grow_nonderived st); try assumption; [apply grows_add_obj; exact Hu|].
    intros d Hd. rewrite alive_add_obj in Hd. destruct (N.eqb d u) eqn:E; [|left; exact Hd].
    apply N.eqb_eq in E; subst d. right.
    exact (is_derived_kind _ _ _ (get_obj_add_obj_same _ _ _ _ Hg) Hk).
Qed.

Lemma inv_bump : forall st, Inv st -> Inv (bump st).
Proof. intros st H. apply (inv_ext st); [reflexivity|reflexivity|reflexivity|reflexivity|cbn; lia|exact H]. Qed.

Lemma inv_add_src : forall st d s, Inv st -> Inv (add_src st d s).
Proof. intros st d s H. apply (inv_ext st); [reflexivity|reflexivity|reflexivity|reflexivity|cbn; lia|exact H]. Qed.

Lemma inv_alloc : forall st k o u st1, alloc_dyn st k o = (u, st1) -> Inv st -> Inv st1.
Proof.
  intros st k o u st1 Ha H. pose proof (alloc_dyn_fields _ _ _ _ _ Ha) as [Ho [Hal [Hc [Hv _]]]].
  apply (inv_ext st); try assumption. exact (alloc_dyn_next _ _ _ _ _ Ha).
Qed.

Lemma alloc_dyn_facts : forall st k o u st1, Str st -> alloc_dyn st k o = (u, st1) ->
  alive st u = false /\ (get_obj st u = None \/ get_obj st u = Some o).
Proof.
  intros st k o u st1 HS. unfold alloc_dyn.
  assert (alive st (st_next st) = false /\ (get_obj st (st_next st) = None \/ get_obj st (st_next st) = Some o)) as Hf.
  { split; [exact (next_not_alive _ HS)|left; exact (fresh_not_in_objs _ (proj1 HS))]. }
  destruct (lookupD k (st_cache st)) as [v|]; [|intros E; inversion E; subst; exact Hf].
  destruct (get_obj st v) as [o'|] eqn:Eg; [|intros E; inversion E; subst; exact Hf].
  destruct (obj_eqb o' o && negb (alive st v)) eqn:Eo; [|intros E; inversion E; subst; exact Hf].
  intros E; inversion E; subst. apply andb_true_iff in Eo as [Eo Ea]. apply obj_eqb_eq in Eo; subst o'.
  apply negb_true_iff in Ea. split; [exact Ea|right; exact Eg].
Qed.

(** a dynamic space (ItemSpace or dynamic child space) below the live object P *)
Lemma inv_add_dyn : forall st key o du st1 src b P,
  Inv st -> alloc_dyn st key o = (du, st1) ->
  o_chain o = P :: chain_of st P -> alive st P = true -> statick (o_kind o) = false ->
  Inv (add_obj (add_src st1 du src) du o (Some (with_params b empty_cont))).
Proof.
  intros st key o du st1 src b P HI Ha Hc HP Hk. pose proof HI as [HR [HS [HB HD]]].
  pose proof (alloc_dyn_fields _ _ _ _ _ Ha) as [Ho [Hal [Hco _]]].
  destruct (alloc_dyn_facts _ _ _ _ _ HS Ha) as [Hdead Hg].
  apply inv_add_plain.
  - apply inv_add_src. exact (inv_alloc _ _ _ _ _ Ha HI).
  - apply (str_add_alloc st key o du st1 src _ P HS Ha Hc HP). intros Hs; congruence.
  - unfold alive. cbn [add_src st_alive]. rewrite Hal. exact Hdead.
  - unfold get_obj. cbn [add_src st_objs]. rewrite Ho. exact Hg.
  - intros He. rewrite He in Hk. discriminate.
  - intros c Hc0. inversion Hc0; subst c. split; intros x Hx; cbn in Hx; destruct Hx.
Qed.

Lemma inv_add_dcells : forall st n dp,
  Inv st -> alive st dp = true ->
  Inv (add_obj (bump st) (st_next st) (mkObj KDCells (dp :: chain_of st dp) n 0 true) None).
Proof.
  intros st n dp HI Hdp. pose proof HI as [HR [HS [HB HD]]].
  apply inv_add_plain.
  - apply inv_bump; exact HI.
  - apply (str_add_fresh st _ None dp HS); [reflexivity|exact Hdp|intros Hs; discriminate].
  - exact (next_not_alive _ HS).
  - left. exact (fresh_not_in_objs _ (proj1 HS)).
  - discriminate.
  - intros c Hc; discriminate.
Qed.

(** ---- ItemSpaces ---- *)
Lemma inv_copy_one : forall S k acc u,
  Inv (fst acc) /\ map_live (fst acc) (snd acc) ->
  Inv (fst (copy_one S k acc u)) /\ map_live (fst (copy_one S k acc u)) (snd (copy_one S k acc u)).
Proof.
  intros S k [st m] u [H Hm]. cbn [fst snd] in *.
  split; [|exact (proj2 (str_copy_one S k (st, m) u (conj (proj1 (proj2 H)) Hm)))].
  unfold copy_one.
  destruct (parent_of st u) as [p|]; [|exact H].
  destruct (lookup3 p m) as [[dp path]|] eqn:El; [|exact H].
  pose proof (Hm _ _ _ (lookup3_In _ _ _ El)) as Hdp.
  destruct (is_kind st KCells u).
  - cbn [fst]. apply (inv_upd_entry _ _ _ (st_next st)); [apply inv_add_dcells; assumption| |apply entry_cell].
    rewrite alive_add_obj, N.eqb_refl. reflexivity.
  - destruct (alloc_dyn st (S, k, (path ++ [name_of st u])%list)
                        (mkObj KDSpace (dp :: chain_of st dp) (name_of st u) 0 false)) as [du st1] eqn:Ea.
    cbn [fst]. apply (inv_upd_entry _ _ _ du); [|rewrite alive_add_obj, N.eqb_refl; reflexivity|apply entry_space].
    apply (inv_add_dyn st _ _ du st1 u _ dp H Ea); [reflexivity|exact Hdp|reflexivity].
Qed.

Lemma inv_fold_copy : forall S k l acc,
  Inv (fst acc) /\ map_live (fst acc) (snd acc) -> Inv (fst (fold_left (copy_one S k) l acc)).
Proof.
  intros S k l; induction l as [|u t IH]; simpl; intros acc H; [exact (proj1 H)|].
  apply IH, inv_copy_one, H.
Qed.

Lemma inv_new_item : forall st S k, Inv st -> alive st S = true -> Inv (fst (new_item st S k)).
Proof.
  intros st S k H HS. unfold new_item.
  destruct (alloc_dyn st (S, k, []) (mkObj KItem (S :: chain_of st S) EmptyString k false)) as [r st1] eqn:Ea.
  cbn [fst]. apply inv_fold_copy. cbn [fst snd].
  assert (Inv (add_obj (add_src st1 r S) r (mkObj KItem (S :: chain_of st S) EmptyString k false)
                       (Some (with_params (c_params (get_cont st S)) empty_cont)))) as H1.
  { apply (inv_add_dyn st _ _ r st1 S _ S H Ea); [reflexivity|exact HS|reflexivity]. }
  split.
  - apply (inv_upd_entry _ _ _ r); [exact H1|rewrite alive_add_obj, N.eqb_refl; reflexivity|apply entry_item].
  - intros q dq pq [Hin|[]]. inversion Hin; subst. rewrite alive_upd_cont, alive_add_obj, N.eqb_refl. reflexivity.
Qed.

(** ---- the operations ---- *)
Lemma inv_step_new_space : forall st p name bs params st' o,
  Inv st -> alive st p = true -> forallb (alive st) bs = true ->
  step_new_space st p name bs params = (st', o) -> Inv st'.
Proof.
  intros st p name bs params st' o H Hp Hb. unfold step_new_space.
  destruct (is_kind st KModel p || is_kind st KSpace p) eqn:Ekp; cbn [negb]; [|intros E; inversion E; subst; exact H].
  destruct (forallb (is_kind st KSpace) bs) eqn:Ekb; cbn [negb]; [|intros E; inversion E; subst; exact H].
  destruct (has_name st p name); [intros E; inversion E; subst; exact H|].
  intros E; inversion E; subst; clear E. apply inv_push_handle.
  pose proof H as [HR [HS [HB HD]]].
  set (u := st_next st).
  set (ob := mkObj KSpace (p :: chain_of st p) name 0 false).
  set (st1 := add_obj (bump st) u ob (Some (mkCont [] [] [] (dedupN bs) params))).
  assert (contk (kind_of st p) = true) as Hkp.
  { apply orb_true_iff in Ekp as [E|E]; apply is_kind_true in E; rewrite E; reflexivity. }
  assert (Inv st1) as H1.
  { apply inv_add_plain.
    - apply inv_bump; exact H.
    - apply (str_add_fresh st _ _ p HS); [reflexivity|exact Hp|intros _; exact Hkp].
    - exact (next_not_alive _ HS).
    - left. exact (fresh_not_in_objs _ (proj1 HS)).
    - discriminate.
    - intros c Hc. inversion Hc; subst c. split.
      + intros x Hx. unfold cont_uids in Hx; cbn in Hx. exact (forallb_alive_dedup _ _ _ Hb Hx).
      + intros b Hbb. cbn in Hbb. apply dedupN_incl in Hbb. rewrite forallb_forall in Ekb. exact (Ekb _ Hbb). }
  assert (get_obj st1 u = Some ob) as Hgu.
  { apply get_obj_add_obj_same. left. exact (fresh_not_in_objs _ (proj1 HS)). }
  assert (live_space st1 u) as Hu.
  { split; [unfold st1; rewrite alive_add_obj, N.eqb_refl; reflexivity|].
    unfold is_kind, kind_of. rewrite Hgu. reflexivity. }
  set (st2 := upd_cont st1 p (add_space_entry name u)).
  assert (Inv st2) as H2 by (apply (inv_upd_entry _ _ _ u); [exact H1|exact (proj1 Hu)|apply entry_space]).
  assert (live_space st2 u) as Hu2 by exact Hu.
  refine (proj1 (inv_derive_space _ u _ _)).
  - destruct (is_kind st KSpace p); [apply inv_ns_change|]; exact H2.
  - destruct (is_kind st KSpace p); [|exact Hu2]. destruct Hu2 as [Ha Hk]. split; [|exact Hk].
    rewrite alive_ns_change; [exact Ha|exact (proj1 (proj2 H2))|exact (live_space_contk _ _ Hk)].
Qed.

Lemma inv_fold_targets : forall name l a,
  Inv a -> (forall T, In T l -> live_space a T /\ exists c, definer a T name c) ->
  Inv (fold_left (fun s T => new_cells_obj s T name true) l a).
Proof.
  intros name l; induction l as [|T t IH]; simpl; intros a H Hl; [exact H|].
  destruct (Hl T (or_introl eq_refl)) as [HT Hw]. pose proof H as [HR [HS _]].
  apply IH; [apply inv_new_cells_obj; [exact H|exact HT|intros _; exact Hw]|].
  intros T' HT'. destruct (Hl T' (or_intror HT')) as [HL' Hw']. split.
  - apply live_space_new_cells_obj; assumption.
  - apply (live_space_grow_definer a); [apply grows_new_cells_obj; exact HS|exact HR|exact (proj1 HL')|exact Hw'].
Qed.

Lemma inv_step_new_cells : forall st s name st' o,
  Inv st -> alive st s = true -> step_new_cells st s name = (st', o) -> Inv st'.
Proof.
  intros st s name st' o H Hs. unfold step_new_cells.
  destruct (is_kind st KSpace s) eqn:Ek; cbn [negb]; [|intros E; inversion E; subst; exact H].
  destruct (has_name st s name); [intros E; inversion E; subst; exact H|].
  intros E; inversion E; subst; clear E. pose proof H as [HR [HS _]].
  apply inv_push_handle, inv_ns_change, inv_fold_targets.
  - apply inv_new_cells_obj; [exact H|split; assumption|intros Hf; discriminate].
  - intros T HT. apply filter_In in HT as [HT Hp]. apply andb_true_iff in Hp as [_ Hd]. split.
    + apply live_space_new_cells_obj; [exact HS|exact (subs_of_live _ _ _ HT)].
    + exact (has_definer_sound _ _ _ Hd).
Qed.

Lemma inv_step_take : forall st u name st' o, Inv st -> step_take st u name = (st', o) -> Inv st'.
Proof.
  intros st u name st' o H. unfold step_take.
  destruct (lookupS name (c_cells (get_cont st u))); [intros E; inversion E; subst; apply inv_push_handle; exact H|].
  destruct (lookupS name (c_spaces (get_cont st u))); intros E; inversion E; subst; [apply inv_push_handle|]; exact H.
Qed.

Lemma inv_step_get_item : forall st s k st' o, Inv st -> alive st s = true -> step_get_item st s k = (st', o) -> Inv st'.
Proof.
  intros st s k st' o H Hs. unfold step_get_item.
  destruct (negb (is_kind st KSpace s && c_params (get_cont st s))); [intros E; inversion E; subst; exact H|].
  destruct (lookupZ k (c_items (get_cont st s))); [intros E; inversion E; subst; apply inv_push_handle; exact H|].
  pose proof (inv_new_item st s k H Hs) as H2. destruct (new_item st s k) as [st1 r].
  intros E; inversion E; subst. apply inv_push_handle. exact H2.
Qed.

Lemma inv_step_del_cells : forall st s c st' o,
  Inv st -> alive st s = true -> is_kind st KSpace s = true -> step_del_cells st s c = (st', o) -> Inv st'.
Proof.
  intros st s c st' o H Hs Hk. unfold step_del_cells.
  destruct (is_defined st c) eqn:Ed; cbn [negb]; intros E; inversion E; subst; [|exact H].
  pose proof H as [_ [HS _]].
  set (st1 := purge (under_set st [c]) st).
  assert (Pre st1) as H1 by (apply pre_purge_under, pre_of_inv; exact H).
  assert (forall T, live_space st T -> live_space st1 T) as Hl1.
  { intros T [Ha HkT]. split; [|exact HkT]. unfold st1. rewrite alive_purge, Ha. simpl.
    apply negb_true_iff, memN_false. apply static_not_under; [exact HS|exact (live_space_contk _ _ HkT)|].
    intros a [Ha2|[]]. subst a. exact (is_defined_kind _ _ Ed). }
  apply inv_create_derived.
  - apply inv_settle, pre_clear_vals. exact H1.
  - intros T HT.
    assert (live_space st T) as HT0.
    { destruct HT as [HT|HT]; [subst T; split; assumption|exact (subs_of_live _ _ _ HT)]. }
    destruct (Hl1 _ HT0) as [Ha HkT]. split; [|exact HkT].
    rewrite alive_settle; [exact Ha|exact (proj1 (proj2 (pre_clear_vals _ _ H1)))|exact (live_space_contk _ _ HkT)].
Qed.

Lemma inv_step_del_space : forall st p x st' o, Inv st -> step_del_space st p x = (st', o) -> Inv st'.
Proof.
  intros st p x st' o H. unfold step_del_space. intros E; inversion E; subst.
  apply inv_settle, pre_clear_vals, pre_purge_under, pre_of_inv, H.
Qed.

Lemma inv_step_del_attr : forall st u name st' o, Inv st -> alive st u = true -> step_del_attr st u name = (st', o) -> Inv st'.
Proof.
  intros st u name st' o H Hu. unfold step_del_attr.
  destruct (kind_of st u) eqn:Ek; try (intros E; inversion E; subst; exact H).
  - destruct (lookupS name (c_spaces (get_cont st u))); [apply inv_step_del_space; exact H|].
    destruct (lookupS name (st_globals st)); intros E; inversion E; subst; [|exact H].
    apply inv_wipe, inv_set_globals, H.
  - destruct (lookupS name (c_cells (get_cont st u))).
    + apply inv_step_del_cells; [exact H|exact Hu|]. unfold is_kind. rewrite Ek. reflexivity.
    + destruct (lookupS name (c_spaces (get_cont st u))); [apply inv_step_del_space; exact H|].
      intros E; inversion E; subst; exact H.
Qed.

Lemma inv_step_add_bases : forall st s bs st' o,
  Inv st -> alive st s = true -> forallb (alive st) bs = true -> step_add_bases st s bs = (st', o) -> Inv st'.
Proof.
  intros st s bs st' o H Hs Hb. unfold step_add_bases.
  destruct (is_kind st KSpace s && forallb (is_kind st KSpace) bs) eqn:Ek; cbn [negb]; [|intros E; inversion E; subst; exact H].
  destruct (existsb (fun b => N.eqb b s || memN s (ancs_of st b)) bs); intros E; inversion E; subst; [exact H|].
  apply andb_true_iff in Ek as [Ek Ekb]. pose proof H as [HR [HS [HB HD]]].
  set (nb := dedupN (c_bases (get_cont st s) ++ bs)).
  assert (Inv (upd_cont st s (with_bases nb))) as H1.
  { split; [|split; [|split]].
    - apply res_upd_cont; [exact HR|]. intros c x Hx. apply cont_uids_with_bases in Hx as [Hx|Hx]; [left; exact Hx|].
      right. apply dedupN_incl in Hx. apply in_app_iff in Hx as [Hx|Hx].
      + exact (res_bases_alive _ _ _ HR Hx).
      + rewrite forallb_forall in Hb. exact (Hb _ Hx).
    - exact HS.
    - apply ibases_upd_cont; [exact HB|]. intros c b Hbb. right. cbn in Hbb. apply dedupN_incl in Hbb.
      apply in_app_iff in Hbb as [Hbb|Hbb]; [exact (bases_kind _ _ _ HB Hbb)|].
      rewrite forallb_forall in Ekb. exact (Ekb _ Hbb).
    - apply (der_grow_nonderived st); try assumption.
      + apply grows_upd_cont; [|intros n x Hx; exact Hx].
        intros b Hbb. cbn. apply dedupN_complete, in_app_iff. left; exact Hbb.
      + intros d Hd. left. exact Hd. }
  apply inv_create_derived; [apply inv_discard_items, inv_clear_vals; exact H1|].
  intros T HT.
  assert (live_space st T) as [Ha HkT].
  { destruct HT as [HT|HT]; [subst T; split; assumption|]. exact (subs_of_live _ _ _ HT). }
  split; [|exact HkT]. rewrite alive_discard_items; [exact Ha|exact HS|exact (live_space_contk _ _ HkT)].
Qed.

Lemma inv_step_remove_bases : forall st s bs st' o, Inv st -> step_remove_bases st s bs = (st', o) -> Inv st'.
Proof.
  intros st s bs st' o H. unfold step_remove_bases.
  destruct (negb (is_kind st KSpace s)); [intros E; inversion E; subst; exact H|].
  destruct (negb (forallb (fun b => memN b (c_bases (get_cont st s))) bs)); intros E; inversion E; subst; [exact H|].
  pose proof H as [HR [HS [HB HD]]].
  apply inv_settle, pre_clear_vals. split; [|split].
  - apply res_upd_cont; [exact HR|]. intros c x Hx. apply cont_uids_with_bases in Hx as [Hx|Hx]; [left; exact Hx|].
    apply filter_In in Hx as [Hx _]. right. exact (res_bases_alive _ _ _ HR Hx).
  - exact HS.
  - apply ibases_upd_cont; [exact HB|]. intros c b Hbb. right. cbn in Hbb. apply filter_In in Hbb as [Hbb _].
    exact (bases_kind _ _ _ HB Hbb).
Qed.

Lemma inv_step_set_params : forall st s b st' o, Inv st -> step_set_params st s b = (st', o) -> Inv st'.
Proof.
  intros st s b st' o H. unfold step_set_params.
  destruct (negb (is_kind st KSpace s)); intros E; inversion E; subst; [exact H|].
  set (st1 := discard_items st ((if c_params (get_cont st s) then items_of st s else []) ++ dyn_roots st s)).
  assert (Inv st1) as H1 by (unfold st1; apply inv_discard_items; exact H).
  destruct H1 as [HR [HS [HB HD]]]. split; [|split; [|split]].
  - apply res_upd_cont; [exact HR|]. intros c x Hx. left. exact Hx.
  - exact HS.
  - apply ibases_upd_cont; [exact HB|]. intros c x Hx. left. exact Hx.
  - apply (der_grow_nonderived st1); try assumption.
    + apply grows_upd_cont; [intros x Hx; exact Hx|intros n x Hx; exact Hx].
    + intros d Hd. left. exact Hd.
Qed.

Lemma inv_step_eval : forall st c x st' o, Inv st -> alive st c = true -> step_eval st c x = (st', o) -> Inv st'.
Proof.
  intros st c x st' o H Hc E. pose proof H as [HR [HS [HB HD]]].
  split; [exact (res_step_eval _ _ _ _ _ HR Hc E)|]. split; [exact (str_step_eval _ _ _ _ _ HS E)|].
  unfold step_eval in E.
  destruct (negb (is_kind st KCells c || is_kind st KDCells c)); [inversion E; subst; split; assumption|].
  destruct (eval (eval_fuel st) st c x) as [st1 z deps| |] eqn:Ee; inversion E; subst; try (split; assumption).
  destruct (eval_fields _ _ _ _ _ _ _ Ee) as [Ho [Ha [_ Hco]]].
  split; [exact (ibases_ext _ _ Ho Hco HB)|exact (der_ext _ _ Ho Ha Hco HD)].
Qed.

Lemma inv_step_bind_global : forall st name s st' o, Inv st -> step_bind_global st name s = (st', o) -> Inv st'.
Proof.
  intros st name s st' o H. unfold step_bind_global.
  destruct (negb (is_kind st KSpace s)); [intros E; inversion E; subst; exact H|].
  destruct (has_name st 0%N name); intros E; inversion E; subst; [exact H|].
  apply inv_wipe, inv_set_globals, H.
Qed.

Theorem inv_step : forall st o, Inv st -> Inv (fst (step st o)).
Proof.
  intros st o H. unfold step.
  destruct (op_handles o) as [h hb].
  destruct (handle st h) as [u|]; [|exact H].
  destruct (handles st hb) as [bs|]; [|exact H].
  destruct (alive st u && forallb (alive st) bs) eqn:Eal; cbn [negb]; [|exact H].
  apply andb_true_iff in Eal as [Hu Hb].
  destruct o.
  - destruct (step_new_space st u name bs params) as [st' o'] eqn:E. exact (inv_step_new_space _ _ _ _ _ _ _ H Hu Hb E).
  - destruct (step_new_cells st u name) as [st' o'] eqn:E. exact (inv_step_new_cells _ _ _ _ _ H Hu E).
  - destruct (step_take st u name) as [st' o'] eqn:E. exact (inv_step_take _ _ _ _ _ H E).
  - destruct (step_get_item st u k) as [st' o'] eqn:E. exact (inv_step_get_item _ _ _ _ _ H Hu E).
  - destruct (step_del_attr st u name) as [st' o'] eqn:E. exact (inv_step_del_attr _ _ _ _ _ H Hu E).
  - destruct (step_add_bases st u bs) as [st' o'] eqn:E. exact (inv_step_add_bases _ _ _ _ _ H Hu Hb E).
  - destruct (step_remove_bases st u bs) as [st' o'] eqn:E. exact (inv_step_remove_bases _ _ _ _ _ H E).
  - destruct (step_set_params st u b) as [st' o'] eqn:E. exact (inv_step_set_params _ _ _ _ _ H E).
  - destruct (is_kind st KSpace u); cbn [fst]; [apply inv_discard_items|]; exact H.
  - destruct (is_kind st KSpace u); cbn [fst]; [|exact H].
    destruct (lookupZ k (c_items (get_cont st u))); cbn [fst]; [apply inv_discard_items|]; exact H.
  - destruct (step_eval st u x) as [st' o'] eqn:E. exact (inv_step_eval _ _ _ _ _ H Hu E).
  - destruct bs as [|s t]; [exact H|].
    destruct (step_bind_global st name s) as [st' o'] eqn:E. exact (inv_step_bind_global _ _ _ _ _ H E).
Qed.

Lemma inv_init : forall ft, Inv (init ft).
Proof.
  intros ft. split; [apply res_init|]. split; [apply str_init|]. split.
  - intros u c b [Hin|[]] Hb. inversion Hin; subst. destruct Hb.
  - intros d Hd Hdd. unfold alive in Hd. cbn in Hd. rewrite orb_false_r in Hd. apply N.eqb_eq in Hd; subst d.
    discriminate.
Qed.

Lemma inv_run_from : forall ops st, Inv st -> Inv (run_from st ops).
Proof. induction ops as [|o t IH]; intros st H; [exact H|]. cbn. apply IH, inv_step, H. Qed.

Theorem inv_run : forall ft ops, Inv (run ft ops).
Proof. intros. apply inv_run_from, inv_init. Qed.

(** ---- the theorems, for every history ---- *)

(** a live derived cells has a live definer in an ancestor of its space *)
Theorem derived_has_definer : forall ft ops d,
  alive (run ft ops) d = true -> is_derived (run ft ops) d = true ->
  exists T c, parent_of (run ft ops) d = Some T /\ definer (run ft ops) T (name_of (run ft ops) d) c.
Proof. intros ft ops d. exact (proj2 (proj2 (proj2 (inv_run ft ops))) d). Qed.

(** hence: a derived cells none of whose definers is left is dead *)
Theorem derived_without_definer_dead : forall ft ops d T,
  is_derived (run ft ops) d = true -> parent_of (run ft ops) d = Some T ->
  (forall c, ~ definer (run ft ops) T (name_of (run ft ops) d) c) ->
  alive (run ft ops) d = false.
Proof.
  intros ft ops d T Hd HT Hno. destruct (alive (run ft ops) d) eqn:E; [|reflexivity].
  destruct (derived_has_definer ft ops d E Hd) as [T' [c [HT' Hc]]].
  rewrite HT in HT'. inversion HT'; subst T'. exfalso. exact (Hno c Hc).
Qed.
