(** Alive layer - nothing is ever inside a cells: no containment chain passes
    through a (defined or derived) cells.  A further invariant of [step], kept
    apart from [Str]; used to sharpen the closure statements of ProofsClos.v
    ("is a derived cells without definer" instead of "is, or is inside, one"). *)
From Coq Require Import List String Bool Arith ZArith NArith Lia.
From MX Require Import Alive.Model Alive.ProofsBase Alive.ProofsRes Alive.ProofsStr Alive.ProofsDer Alive.ProofsStep Alive.ProofsTop.
Import ListNotations.

Definition Ncc (st : state) : Prop := forall u p, In p (chain_of st u) -> kind_of st p <> KCells.

Lemma ncc_ext : forall st st', st_objs st' = st_objs st -> Ncc st -> Ncc st'.
Proof. intros st st' Ho H. unfold Ncc, chain_of, kind_of, get_obj in *. rewrite Ho. exact H. Qed.

Lemma add_obj_objs_ext : forall st st2 u o k k2,
  st_objs st2 = st_objs st -> st_objs (add_obj st2 u o k2) = st_objs (add_obj st u o k).
Proof. intros st st2 u o k k2 Ho. unfold add_obj; cbn [st_objs]. rewrite Ho. reflexivity. Qed.

Lemma ncc_add_obj : forall st u o k P,
  Ncc st ->
  (get_obj st u = Some o \/ (get_obj st u = None /\ forall v, ~ In u (chain_of st v))) ->
  o_chain o = P :: chain_of st P -> P <> u -> kind_of st P <> KCells ->
  Ncc (add_obj st u o k).
Proof.
  intros st u o k P HN Hu Hc HPu HPk v p Hp. destruct Hu as [Hu|[Hu Hnot]].
  - assert (forall X, get_obj (add_obj st u o k) X = get_obj st X) as Hall.
    { intros X. unfold get_obj in *. unfold add_obj; cbn [st_objs]. rewrite Hu. reflexivity. }
    unfold chain_of, kind_of in *. rewrite !Hall in *. exact (HN v p Hp).
  - assert (forall X, X <> u -> get_obj (add_obj st u o k) X = get_obj st X) as Hgo
      by (intros X HX; apply get_obj_add_obj_other; exact HX).
    assert (get_obj (add_obj st u o k) u = Some o) as Hgu by (apply get_obj_add_obj_same; left; exact Hu).
    assert (forall X, X <> u -> kind_of (add_obj st u o k) X = kind_of st X) as Hk
      by (intros X HX; unfold kind_of; rewrite (Hgo _ HX); reflexivity).
    destruct (N.eq_dec v u) as [Hv|Hv].
    + subst v. unfold chain_of in Hp. rewrite Hgu, Hc in Hp. destruct Hp as [Hp|Hp].
      * subst p. rewrite (Hk _ HPu). exact HPk.
      * assert (p <> u) as Hpu by (intros He; subst p; exact (Hnot _ Hp)).
        rewrite (Hk _ Hpu). exact (HN P p Hp).
    + unfold chain_of in Hp. rewrite (Hgo _ Hv) in Hp. fold (chain_of st v) in Hp.
      assert (p <> u) as Hpu by (intros He; subst p; exact (Hnot _ Hp)).
      rewrite (Hk _ Hpu). exact (HN v p Hp).
Qed.

(** a fresh uid below the live object P *)
Lemma ncc_add_fresh : forall st st2 o k P,
  Str st -> Ncc st -> st_objs st2 = st_objs st ->
  o_chain o = P :: chain_of st P -> alive st P = true -> kind_of st P <> KCells ->
  Ncc (add_obj st2 (st_next st) o k).
Proof.
  intros st st2 o k P HS HN Ho Hc HP Hk.
  apply (ncc_ext (add_obj st (st_next st) o k)); [apply add_obj_objs_ext; exact Ho|].
  apply (ncc_add_obj st (st_next st) o k P HN); [|exact Hc| |exact Hk].
  - right. split; [exact (fresh_not_in_objs _ (proj1 HS))|exact (fresh_not_in_chains _ (proj1 HS))].
  - pose proof (alive_lt_next _ _ HS HP). lia.
Qed.

Lemma alloc_dyn_which : forall st k o u st1,
  alloc_dyn st k o = (u, st1) -> get_obj st u = Some o \/ u = st_next st.
Proof.
  intros st k o u st1. unfold alloc_dyn.
  destruct (lookupD k (st_cache st)) as [v|]; [|intros E; inversion E; right; reflexivity].
  destruct (get_obj st v) as [o'|] eqn:Eg; [|intros E; inversion E; right; reflexivity].
  destruct (obj_eqb o' o && negb (alive st v)) eqn:Eo; [|intros E; inversion E; right; reflexivity].
  intros E; inversion E; subst. apply andb_true_iff in Eo as [Eo _]. apply obj_eqb_eq in Eo; subst o'.
  left. exact Eg.
Qed.

Lemma ncc_add_alloc : forall st key o du st1 src k P,
  Str st -> Ncc st -> alloc_dyn st key o = (du, st1) ->
  o_chain o = P :: chain_of st P -> alive st P = true -> kind_of st P <> KCells ->
  Ncc (add_obj (add_src st1 du src) du o k).
Proof.
  intros st key o du st1 src k P HS HN Ha Hc HP Hk.
  pose proof (alloc_dyn_fields _ _ _ _ _ Ha) as [Ho _].
  destruct (alloc_dyn_which _ _ _ _ _ Ha) as [Hg|He].
  - apply (ncc_ext (add_obj st du o k)); [apply add_obj_objs_ext; exact Ho|].
    apply (ncc_add_obj st du o k P HN); [left; exact Hg|exact Hc| |exact Hk].
    intros Heq; subst P. destruct (alloc_dyn_facts _ _ _ _ _ HS Ha) as [Hdead _]. congruence.
  - subst du. apply (ncc_add_fresh st _ o k P HS HN); [exact Ho|exact Hc|exact HP|exact Hk].
Qed.

Definition StrN (st : state) : Prop := Str st /\ Ncc st.

Lemma space_not_cells : forall st T, is_kind st KSpace T = true -> kind_of st T <> KCells.
Proof. intros st T H. apply is_kind_true in H. rewrite H. discriminate. Qed.

Lemma strn_new_cells_obj : forall st T n d,
  StrN st -> alive st T = true -> is_kind st KSpace T = true -> StrN (new_cells_obj st T n d).
Proof.
  intros st T n d [HS HN] HT HK. split; [apply str_new_cells_obj; assumption|].
  unfold new_cells_obj. apply (ncc_ext (add_obj (bump st) (st_next st) (mkObj KCells (T :: chain_of st T) n 0 d) None));
    [reflexivity|].
  apply (ncc_add_fresh st (bump st) _ None T HS HN); [reflexivity|reflexivity|exact HT|exact (space_not_cells _ _ HK)].
Qed.

Lemma strn_fold_names : forall T d l st,
  StrN st -> live_space st T -> StrN (fold_left (fun s n => new_cells_obj s T n d) l st).
Proof.
  intros T d l; induction l as [|n t IH]; simpl; intros st H HT; [exact H|].
  apply IH; [apply strn_new_cells_obj; [exact H|exact (proj1 HT)|exact (proj2 HT)]|].
  apply live_space_new_cells_obj; [exact (proj1 H)|exact HT].
Qed.

Lemma strn_derive_space : forall st T, StrN st -> live_space st T -> StrN (derive_space st T).
Proof. intros st T H HT. unfold derive_space. apply strn_fold_names; assumption. Qed.

Lemma strn_fold_derive : forall l st, StrN st -> (forall T, In T l -> live_space st T) ->
  StrN (fold_left derive_space l st).
Proof.
  induction l as [|T t IH]; simpl; intros st H Hl; [exact H|].
  destruct (str_derive_space st T (proj1 H) (Hl _ (or_introl eq_refl))) as [_ HM].
  apply IH; [apply strn_derive_space; [exact H|apply Hl; left; reflexivity]|].
  intros T' HT'. apply HM, Hl. right; exact HT'.
Qed.

Lemma strn_fold_spaces : forall n d l st, StrN st -> (forall T, In T l -> live_space st T) ->
  StrN (fold_left (fun a T => new_cells_obj a T n d) l st).
Proof.
  intros n d l; induction l as [|T t IH]; simpl; intros st H Hl; [exact H|].
  destruct (Hl T (or_introl eq_refl)) as [Ha Hk].
  apply IH; [apply strn_new_cells_obj; assumption|].
  intros T' HT'. apply live_space_new_cells_obj; [exact (proj1 H)|]. apply Hl. right; exact HT'.
Qed.

(** transformers that leave the object table alone *)
Lemma strn_same : forall st st', Str st' -> st_objs st' = st_objs st -> StrN st -> StrN st'.
Proof. intros st st' HS Ho [_ HN]. split; [exact HS|exact (ncc_ext _ _ Ho HN)]. Qed.

Lemma strn_ns_change : forall st Ts l, StrN st -> StrN (ns_change st Ts l).
Proof. intros st Ts l H. apply (strn_same st); [apply str_ns_change, H|reflexivity|exact H]. Qed.

Lemma strn_discard_items : forall st l, StrN st -> StrN (discard_items st l).
Proof. intros st l H. apply (strn_same st); [apply str_discard_items, H|reflexivity|exact H]. Qed.

Lemma strn_settle : forall st Ts l, StrN st -> StrN (settle st Ts l).
Proof. intros st Ts l H. apply (strn_same st); [apply str_settle, H|reflexivity|exact H]. Qed.

Lemma strn_wipe : forall st, StrN st -> StrN (wipe st).
Proof. intros st H. apply (strn_same st); [apply str_wipe, H|reflexivity|exact H]. Qed.

Lemma strn_create_derived : forall st l, StrN st -> (forall T, In T l -> live_space st T) -> StrN (create_derived st l).
Proof. intros st l H Hl. unfold create_derived. apply strn_ns_change, strn_fold_derive; assumption. Qed.

(** ---- ItemSpaces: the copies made so far are live dynamic spaces ---- *)
Definition map_nc (st : state) (m : list (uid * (uid * list string))) : Prop :=
  forall p dp path, In (p, (dp, path)) m -> alive st dp = true /\ kind_of st dp <> KCells.

Lemma kind_stable_add_obj : forall st u o k v,
  Str st -> alive st v = true -> kind_of (add_obj st u o k) v = kind_of st v.
Proof. intros st u o k v [_ [H2 _]] Hv. apply kind_add_obj_stable. exact (H2 _ Hv). Qed.

Lemma strn_copy_one : forall S k acc u,
  StrN (fst acc) /\ map_nc (fst acc) (snd acc) ->
  StrN (fst (copy_one S k acc u)) /\ map_nc (fst (copy_one S k acc u)) (snd (copy_one S k acc u)).
Proof.
  intros S k [st m] u [[HS HN] Hm]. cbn [fst snd] in *.
  assert (map_live st m) as Hml by (intros q dq pq Hin; exact (proj1 (Hm _ _ _ Hin))).
  pose proof (str_copy_one S k (st, m) u (conj HS Hml)) as [HS' _]. cbn [fst snd] in HS'.
  revert HS'. unfold copy_one.
  destruct (parent_of st u) as [p|]; [|intros _; split; [split|]; assumption].
  destruct (lookup3 p m) as [[dp path]|] eqn:El; [|intros _; split; [split|]; assumption].
  destruct (Hm _ _ _ (lookup3_In _ _ _ El)) as [Hdp Hkdp].
  destruct (is_kind st KCells u).
  - cbn [fst snd]. intros HS'. split; [split; [exact HS'|]|].
    + apply (ncc_ext (add_obj (bump st) (st_next st) (mkObj KDCells (dp :: chain_of st dp) (name_of st u) 0 true) None));
        [reflexivity|].
      apply (ncc_add_fresh st (bump st) _ None dp HS HN); [reflexivity|reflexivity|exact Hdp|exact Hkdp].
    + intros q dq pq Hin. destruct (Hm _ _ _ Hin) as [Ha Hk]. split.
      * rewrite alive_upd_cont, alive_add_obj. change (alive (bump st) dq) with (alive st dq). rewrite Ha. apply orb_true_r.
      * change (kind_of (upd_cont ?s dp ?f) dq) with (kind_of s dq).
        rewrite (kind_stable_add_obj (bump st)); [exact Hk|apply str_bump; exact HS|exact Ha].
  - destruct (alloc_dyn st (S, k, (path ++ [name_of st u])%list)
                        (mkObj KDSpace (dp :: chain_of st dp) (name_of st u) 0 false)) as [du st1] eqn:Ea.
    cbn [fst snd]. intros HS'.
    pose proof (alloc_dyn_fields _ _ _ _ _ Ea) as [Ho [Hal _]].
    assert (Str (add_src st1 du u)) as HS1.
    { apply (str_ext st); [exact Ho|exact Hal|exact (alloc_dyn_next _ _ _ _ _ Ea)|exact HS]. }
    assert (forall y, alive (add_src st1 du u) y = alive st y) as Hal1
      by (intros y; unfold alive; cbn [add_src st_alive]; rewrite Hal; reflexivity).
    assert (forall y, kind_of (add_src st1 du u) y = kind_of st y) as Hk1
      by (intros y; unfold kind_of, get_obj; cbn [add_src st_objs]; rewrite Ho; reflexivity).
    split; [split; [exact HS'|]|].
    + apply (ncc_ext (add_obj (add_src st1 du u) du (mkObj KDSpace (dp :: chain_of st dp) (name_of st u) 0 false)
                              (Some (with_params (c_params (get_cont st u)) empty_cont)))); [reflexivity|].
      apply (ncc_add_alloc st _ _ du st1 u _ dp HS HN Ea); [reflexivity|exact Hdp|exact Hkdp].
    + intros q dq pq Hin. change (kind_of (upd_cont ?s dp ?f) dq) with (kind_of s dq).
      rewrite alive_upd_cont, alive_add_obj. destruct Hin as [Hin|Hin].
      * injection Hin as Hq Hdq Hpq. subst dq. rewrite N.eqb_refl. split; [reflexivity|].
        assert (get_obj (add_obj (add_src st1 du u) du (mkObj KDSpace (dp :: chain_of st dp) (name_of st u) 0 false)
                                 (Some (with_params (c_params (get_cont st u)) empty_cont))) du
                = Some (mkObj KDSpace (dp :: chain_of st dp) (name_of st u) 0 false)) as Hg.
        { apply get_obj_add_obj_same. unfold get_obj. cbn [add_src st_objs]. rewrite Ho.
          destruct (alloc_dyn_facts _ _ _ _ _ HS Ea) as [_ Hg]. exact Hg. }
        unfold kind_of. rewrite Hg. discriminate.
      * destruct (Hm _ _ _ Hin) as [Ha Hk]. split; [rewrite Hal1, Ha; apply orb_true_r|].
        rewrite (kind_stable_add_obj (add_src st1 du u)); [rewrite Hk1; exact Hk|exact HS1|rewrite Hal1; exact Ha].
Qed.

Lemma strn_fold_copy : forall S k l acc,
  StrN (fst acc) /\ map_nc (fst acc) (snd acc) -> StrN (fst (fold_left (copy_one S k) l acc)).
Proof.
  intros S k l; induction l as [|u t IH]; simpl; intros acc H; [exact (proj1 H)|].
  apply IH, strn_copy_one, H.
Qed.

Lemma strn_new_item : forall st S k,
  StrN st -> alive st S = true -> is_kind st KSpace S = true -> StrN (fst (new_item st S k)).
Proof.
  intros st S k [HS HN] HSa HSk. pose proof (str_new_item st S k HS HSa) as HS'. revert HS'. unfold new_item.
  destruct (alloc_dyn st (S, k, []) (mkObj KItem (S :: chain_of st S) EmptyString k false)) as [r st1] eqn:Ea.
  cbn [fst]. intros _. apply strn_fold_copy. cbn [fst snd].
  pose proof (alloc_dyn_fields _ _ _ _ _ Ea) as [Ho [Hal _]].
  split; [split|].
  - apply str_upd_cont. apply (str_add_alloc st _ _ r st1 S _ S HS Ea); [reflexivity|exact HSa|intros Hs; discriminate].
  - apply (ncc_ext (add_obj (add_src st1 r S) r (mkObj KItem (S :: chain_of st S) EmptyString k false)
                            (Some (with_params (c_params (get_cont st S)) empty_cont)))); [reflexivity|].
    apply (ncc_add_alloc st _ _ r st1 S _ S HS HN Ea); [reflexivity|exact HSa|exact (space_not_cells _ _ HSk)].
  - intros q dq pq [Hin|[]]. injection Hin as Hq Hdq Hpq. subst dq.
    change (kind_of (upd_cont ?s0 S ?f) r) with (kind_of s0 r).
    rewrite alive_upd_cont, alive_add_obj, N.eqb_refl. split; [reflexivity|].
    assert (get_obj (add_obj (add_src st1 r S) r (mkObj KItem (S :: chain_of st S) EmptyString k false)
                             (Some (with_params (c_params (get_cont st S)) empty_cont))) r
            = Some (mkObj KItem (S :: chain_of st S) EmptyString k false)) as Hg.
    { apply get_obj_add_obj_same. unfold get_obj. cbn [add_src st_objs]. rewrite Ho.
      destruct (alloc_dyn_facts _ _ _ _ _ HS Ea) as [_ Hg]. exact Hg. }
    unfold kind_of. rewrite Hg. discriminate.
Qed.

(** ---- the operations ---- *)
Lemma strn_step_new_space : forall st p name bs params st' o,
  StrN st -> alive st p = true -> step_new_space st p name bs params = (st', o) -> StrN st'.
Proof.
  intros st p name bs params st' o [HS HN] Hp. unfold step_new_space.
  destruct (is_kind st KModel p || is_kind st KSpace p) eqn:Ekp; cbn [negb]; [|intros E; inversion E; subst; split; assumption].
  destruct (negb (forallb (is_kind st KSpace) bs)); [intros E; inversion E; subst; split; assumption|].
  destruct (has_name st p name); [intros E; inversion E; subst; split; assumption|].
  intros E; inversion E; subst; clear E.
  set (u := st_next st).
  set (st1 := add_obj (bump st) u (mkObj KSpace (p :: chain_of st p) name 0 false)
                      (Some (mkCont [] [] [] (dedupN bs) params))).
  assert (contk (kind_of st p) = true) as Hkp.
  { apply orb_true_iff in Ekp as [E|E]; apply is_kind_true in E; rewrite E; reflexivity. }
  assert (StrN st1) as H1.
  { split; [apply (str_add_fresh st _ _ p HS); [reflexivity|exact Hp|intros _; exact Hkp]|].
    apply (ncc_add_fresh st (bump st) _ _ p HS HN); [reflexivity|reflexivity|exact Hp|].
    intros He. rewrite He in Hkp. discriminate. }
  assert (get_obj st1 u = Some (mkObj KSpace (p :: chain_of st p) name 0 false)) as Hgu.
  { apply get_obj_add_obj_same. left. exact (fresh_not_in_objs _ (proj1 HS)). }
  assert (live_space st1 u) as Hu.
  { split; [unfold st1; rewrite alive_add_obj, N.eqb_refl; reflexivity|].
    unfold is_kind, kind_of. rewrite Hgu. reflexivity. }
  set (st2 := upd_cont st1 p (add_space_entry name u)).
  assert (StrN st2) as H2 by exact H1.
  assert (live_space st2 u) as Hu2 by exact Hu.
  apply (strn_same (derive_space (if is_kind st KSpace p then ns_change st2 [p] (dyn_roots st2 p) else st2) u));
    [apply str_push_handle| reflexivity|].
  - refine (proj1 (str_derive_space _ u _ _)).
    + destruct (is_kind st KSpace p); [apply str_ns_change|]; exact (proj1 H2).
    + destruct (is_kind st KSpace p); [|exact Hu2]. destruct Hu2 as [Ha Hk]. split; [|exact Hk].
      rewrite alive_ns_change; [exact Ha|exact (proj1 H2)|exact (live_space_contk _ _ Hk)].
  - apply strn_derive_space.
    + destruct (is_kind st KSpace p); [apply strn_ns_change|]; exact H2.
    + destruct (is_kind st KSpace p); [|exact Hu2]. destruct Hu2 as [Ha Hk]. split; [|exact Hk].
      rewrite alive_ns_change; [exact Ha|exact (proj1 H2)|exact (live_space_contk _ _ Hk)].
Qed.

Lemma strn_step_new_cells : forall st s name st' o,
  StrN st -> alive st s = true -> step_new_cells st s name = (st', o) -> StrN st'.
Proof.
  intros st s name st' o H Hs. unfold step_new_cells.
  destruct (is_kind st KSpace s) eqn:Ek; cbn [negb]; [|intros E; inversion E; subst; exact H].
  destruct (has_name st s name); [intros E; inversion E; subst; exact H|].
  intros E; inversion E; subst; clear E.
  match goal with |- StrN (push_handle ?s0 ?c) => apply (strn_same s0); [apply str_push_handle| reflexivity|] end.
  - apply str_ns_change, str_fold_new_cells_spaces.
    + apply str_new_cells_obj; [exact (proj1 H)|exact Hs|exact Ek].
    + intros T HT. apply filter_In in HT as [HT _]. apply live_space_new_cells_obj; [exact (proj1 H)|].
      exact (subs_of_live _ _ _ HT).
  - apply strn_ns_change, strn_fold_spaces.
    + apply strn_new_cells_obj; assumption.
    + intros T HT. apply filter_In in HT as [HT _]. apply live_space_new_cells_obj; [exact (proj1 H)|].
      exact (subs_of_live _ _ _ HT).
Qed.

Lemma strn_step_get_item : forall st s k st' o,
  StrN st -> alive st s = true -> step_get_item st s k = (st', o) -> StrN st'.
Proof.
  intros st s k st' o H Hs. unfold step_get_item.
  destruct (is_kind st KSpace s && c_params (get_cont st s)) eqn:Ek; cbn [negb]; [|intros E; inversion E; subst; exact H].
  destruct (lookupZ k (c_items (get_cont st s))); [intros E; inversion E; subst; exact H|].
  apply andb_true_iff in Ek as [Ek _].
  pose proof (strn_new_item st s k H Hs Ek) as H2. destruct (new_item st s k) as [st1 r].
  intros E; inversion E; subst. exact H2.
Qed.

Lemma strn_step_del_cells : forall st s c st' o,
  StrN st -> alive st s = true -> is_kind st KSpace s = true -> step_del_cells st s c = (st', o) -> StrN st'.
Proof.
  intros st s c st' o [H HN] Hs Hk. unfold step_del_cells.
  destruct (is_defined st c) eqn:Ed; cbn [negb]; intros E; inversion E; subst; [|split; assumption].
  set (st1 := purge (under_set st [c]) st).
  assert (Str st1) as H1 by (apply str_purge_under; exact H).
  assert (forall T, live_space st T -> live_space st1 T) as Hl1.
  { intros T [Ha HkT]. split; [|exact HkT]. unfold st1. rewrite alive_purge, Ha. simpl.
    apply negb_true_iff, memN_false. apply static_not_under; [exact H|exact (live_space_contk _ _ HkT)|].
    intros a [Ha2|[]]. subst a. exact (is_defined_kind _ _ Ed). }
  apply strn_create_derived.
  - apply strn_settle. apply (strn_same st); [apply str_clear_vals; exact H1|reflexivity|split; assumption].
  - intros T HT.
    assert (live_space st T) as HT0.
    { destruct HT as [HT|HT]; [subst T; split; assumption|exact (subs_of_live _ _ _ HT)]. }
    destruct (Hl1 _ HT0) as [Ha HkT]. split; [|exact HkT].
    rewrite alive_settle; [exact Ha|apply str_clear_vals; exact H1|exact (live_space_contk _ _ HkT)].
Qed.

Lemma strn_step_add_bases : forall st s bs st' o,
  StrN st -> alive st s = true -> step_add_bases st s bs = (st', o) -> StrN st'.
Proof.
  intros st s bs st' o [H HN] Hs. unfold step_add_bases.
  destruct (is_kind st KSpace s && forallb (is_kind st KSpace) bs) eqn:Ek; cbn [negb]; [|intros E; inversion E; subst; split; assumption].
  destruct (existsb (fun b => N.eqb b s || memN s (ancs_of st b)) bs); intros E; inversion E; subst; [split; assumption|].
  apply andb_true_iff in Ek as [Ek _].
  apply strn_create_derived; [apply strn_discard_items; split; assumption|].
  intros T HT.
  assert (live_space st T) as [Ha Hk].
  { destruct HT as [HT|HT]; [subst T; split; assumption|]. exact (subs_of_live _ _ _ HT). }
  split; [|exact Hk]. rewrite alive_discard_items; [exact Ha|exact H|exact (live_space_contk _ _ Hk)].
Qed.

Theorem strn_step : forall st o, StrN st -> StrN (fst (step st o)).
Proof.
  intros st o H. pose proof (str_step st o (proj1 H)) as HS'. revert HS'. unfold step.
  destruct (op_handles o) as [h hb].
  destruct (handle st h) as [u|]; [|intros _; exact H].
  destruct (handles st hb) as [bs|]; [|intros _; exact H].
  destruct (alive st u && forallb (alive st) bs) eqn:Eal; cbn [negb]; [|intros _; exact H].
  apply andb_true_iff in Eal as [Hu Hb].
  destruct o.
  - intros _. destruct (step_new_space st u name bs params) as [st' o'] eqn:E. exact (strn_step_new_space _ _ _ _ _ _ _ H Hu E).
  - intros _. destruct (step_new_cells st u name) as [st' o'] eqn:E. exact (strn_step_new_cells _ _ _ _ _ H Hu E).
  - intros HS'. apply (strn_same st); [exact HS'| |exact H]. unfold step_take.
    destruct (lookupS name (c_cells (get_cont st u))); [reflexivity|].
    destruct (lookupS name (c_spaces (get_cont st u))); reflexivity.
  - intros _. destruct (step_get_item st u k) as [st' o'] eqn:E. exact (strn_step_get_item _ _ _ _ _ H Hu E).
  - intros HS'. unfold step_del_attr in *. destruct (kind_of st u) eqn:Ek; try exact H.
    + apply (strn_same st); [exact HS'| |exact H].
      destruct (lookupS name (c_spaces (get_cont st u))); [reflexivity|].
      destruct (lookupS name (st_globals st)); reflexivity.
    + destruct (lookupS name (c_cells (get_cont st u))) as [c|].
      * destruct (step_del_cells st u c) as [st' o'] eqn:E.
        apply (strn_step_del_cells _ _ _ _ _ H Hu) in E; [exact E|]. unfold is_kind. rewrite Ek. reflexivity.
      * apply (strn_same st); [exact HS'| |exact H].
        destruct (lookupS name (c_spaces (get_cont st u))); reflexivity.
  - intros _. destruct (step_add_bases st u bs) as [st' o'] eqn:E. exact (strn_step_add_bases _ _ _ _ _ H Hu E).
  - intros HS'. apply (strn_same st); [exact HS'| |exact H]. unfold step_remove_bases.
    destruct (negb (is_kind st KSpace u)); [reflexivity|].
    destruct (negb (forallb (fun b0 => memN b0 (c_bases (get_cont st u))) bs)); reflexivity.
  - intros HS'. apply (strn_same st); [exact HS'| |exact H]. unfold step_set_params.
    destruct (negb (is_kind st KSpace u)); reflexivity.
  - intros HS'. apply (strn_same st); [exact HS'| |exact H]. destruct (is_kind st KSpace u); reflexivity.
  - intros HS'. apply (strn_same st); [exact HS'| |exact H]. destruct (is_kind st KSpace u); [|reflexivity].
    destruct (lookupZ k (c_items (get_cont st u))); reflexivity.
  - intros HS'. apply (strn_same st); [exact HS'| |exact H]. unfold step_eval.
    destruct (negb (is_kind st KCells u || is_kind st KDCells u)); [reflexivity|].
    destruct (eval (eval_fuel st) st u x) as [st1 z deps| |] eqn:Ee; try reflexivity.
    exact (proj1 (eval_fields _ _ _ _ _ _ _ Ee)).
  - intros HS'. apply (strn_same st); [exact HS'| |exact H]. destruct bs as [|s t]; [reflexivity|].
    unfold step_bind_global. destruct (negb (is_kind st KSpace s)); [reflexivity|].
    destruct (has_name st 0%N name); reflexivity.
Qed.

Lemma ncc_init : forall ft, Ncc (init ft).
Proof. intros ft u p Hp. rewrite chain_init in Hp. destruct Hp. Qed.

Lemma strn_run_from : forall ops st, StrN st -> StrN (run_from st ops).
Proof. induction ops as [|o t IH]; intros st H; [exact H|]. cbn. apply IH, strn_step, H. Qed.

Theorem ncc_run : forall ft ops, Ncc (run ft ops).
Proof. intros ft ops. apply (strn_run_from ops (init ft)). split; [apply str_init|apply ncc_init]. Qed.
