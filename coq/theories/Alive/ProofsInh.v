(** Alive layer - re-inheritance discards ItemSpaces (repair a66156d of the
    library): every space a re-inheritance pass visits - after remove_bases,
    add_bases, the deletion of a cells, the deletion of a base space - loses
    its own ItemSpaces and every ItemSpace that holds a dynamic copy of it,
    whether or not its members changed; the discarded ItemSpace and everything
    inside it (dynamic spaces, dynamic cells, nested ItemSpaces) is dead.
    [dyn_roots st T] = the ItemSpaces that are, or hold, a live ItemSpace of T
    or a live dynamic copy of T, in the state before the operation. *)
From Coq Require Import List String Bool Arith ZArith NArith Lia.
From MX Require Import Alive.Model Alive.ProofsBase Alive.ProofsRes Alive.ProofsStr Alive.ProofsDer Alive.ProofsStep Alive.ProofsTop.
Import ListNotations.

(** ---- the roots are ItemSpaces, with a uid handed out earlier ---- *)
Lemma dyn_roots_kind : forall st T r, In r (dyn_roots st T) -> is_kind st KItem r = true.
Proof.
  intros st T r H. unfold dyn_roots in H. apply in_flat_map in H as [d [_ H]].
  destruct ((is_kind st KItem d || is_kind st KDSpace d)
            && match lookupN d (st_src st) with Some s => N.eqb s T | None => false end); [|destruct H].
  unfold root_of in H. destruct (find (is_kind st KItem) (d :: chain_of st d)) as [r'|] eqn:E; [|destruct H].
  destruct H as [H|[]]. subst r'. exact (proj2 (find_some _ _ E)).
Qed.

Lemma inherit_roots_kind : forall st l r, In r (inherit_roots st l) -> is_kind st KItem r = true.
Proof.
  intros st l r H. unfold inherit_roots in H. apply in_flat_map in H as [T [_ H]]. exact (dyn_roots_kind _ _ _ H).
Qed.

Lemma inherit_roots_in : forall st l T r, In T l -> In r (dyn_roots st T) -> In r (inherit_roots st l).
Proof. intros st l T r HT Hr. unfold inherit_roots. apply in_flat_map. exists T. split; assumption. Qed.

Lemma item_lt_next : forall st r, Str st -> is_kind st KItem r = true -> (r < st_next st)%N.
Proof.
  intros st r [H1 _] Hk. unfold is_kind, kind_of in Hk. destruct (get_obj st r) as [o|] eqn:E; [|discriminate].
  apply lookupN_In in E. exact (proj1 (H1 _ _ E)).
Qed.

(** ---- a discarded ItemSpace is dead ---- *)
Lemma purge_kills_seed : forall st seeds r, In r seeds -> alive (purge (under_set st seeds) st) r = false.
Proof.
  intros st seeds r Hr. rewrite alive_purge. destruct (alive st r) eqn:Ea; [|reflexivity]. simpl.
  apply negb_false_iff, memN_In, under_set_spec. split; [exact Ea|]. exists r. split; [left; reflexivity|exact Hr].
Qed.

Lemma settle_kills_item : forall st Ts l r,
  In r l -> is_kind st KItem r = true -> alive (settle st Ts l) r = false.
Proof.
  intros st Ts l r Hr Hk. unfold settle. apply purge_kills_seed.
  apply in_app_iff. right. apply filter_In. split; [|exact Hk].
  apply in_app_iff. left. exact Hr.
Qed.

Lemma discard_kills_item : forall st l r,
  In r l -> is_kind st KItem r = true -> alive (discard_items st l) r = false.
Proof.
  intros st l r Hr Hk. unfold discard_items, item_set. apply purge_kills_seed.
  apply filter_In. split; assumption.
Qed.

(** ---- the sub spaces only grow when bases are added ---- *)
Lemma ancs_mono : forall f st st' T A,
  (forall u, incl (c_bases (get_cont st u)) (c_bases (get_cont st' u))) ->
  In A (ancs f st T) -> In A (ancs f st' T).
Proof.
  induction f as [|f IH]; intros st st' T A Hb H; [destruct H|].
  cbn [ancs] in *. apply in_flat_map in H as [b [Hbin HA]]. apply in_flat_map.
  exists b. split; [exact (Hb _ _ Hbin)|].
  destruct HA as [HA|HA]; [left; exact HA|right; exact (IH _ _ _ _ Hb HA)].
Qed.

Lemma subs_of_add_bases : forall st s bs T,
  In T (subs_of st s) ->
  In T (subs_of (upd_cont st s (with_bases (dedupN (c_bases (get_cont st s) ++ bs)))) s).
Proof.
  intros st s bs T H. unfold subs_of in *. apply filter_In in H as [Hl Hm]. apply filter_In.
  split; [exact Hl|]. apply memN_In. apply memN_In in Hm. unfold ancs_of in *.
  change (st_next (upd_cont st s ?f)) with (st_next st).
  refine (ancs_mono _ st _ _ _ _ Hm).
  intros u b Hb. destruct (N.eq_dec u s) as [He|Hne]; [subst u|rewrite get_cont_upd_cont_other; assumption].
  rewrite get_cont_upd_cont_same. unfold get_cont in *.
  destruct (lookupN s (st_conts st)) as [c|]; [|exact Hb].
  cbn. apply dedupN_complete, in_app_iff. left. exact Hb.
Qed.

(** ---- containment: everything inside a dead object is dead, in any well-formed state ---- *)
Lemma dead_inside_str : forall st x u, Str st -> inside st x u -> alive st x = false -> alive st u = false.
Proof.
  intros st x u H Hi Hx.
  destruct (inside_chain _ _ _ H Hi) as [He|Hin]; [subst u; exact Hx|].
  destruct (alive st u) eqn:Eu; [|reflexivity].
  destruct H as [_ [_ [_ [H4 _]]]]. rewrite (H4 _ _ Eu Hin) in Hx. discriminate.
Qed.

(** ---- the four re-inheritance passes ---- *)
Lemma remove_bases_kills_roots : forall st s bs st' T r,
  step_remove_bases st s bs = (st', ODone) ->
  In T (s :: subs_of st s) -> In r (dyn_roots st T) -> alive st' r = false.
Proof.
  intros st s bs st' T r E HT Hr. unfold step_remove_bases in E.
  destruct (negb (is_kind st KSpace s)); [discriminate|].
  destruct (negb (forallb (fun b => memN b (c_bases (get_cont st s))) bs)); [discriminate|].
  inversion E; subst; clear E.
  apply settle_kills_item; [exact (inherit_roots_in _ _ _ _ HT Hr)|exact (dyn_roots_kind _ _ _ Hr)].
Qed.

Lemma add_bases_kills_roots_visited : forall st s bs st' T r,
  Str st -> step_add_bases st s bs = (st', ODone) ->
  In T (s :: subs_of (upd_cont st s (with_bases (dedupN (c_bases (get_cont st s) ++ bs)))) s) ->
  In r (dyn_roots st T) -> alive st' r = false.
Proof.
  intros st s bs st' T r HS E HT Hr. unfold step_add_bases in E.
  destruct (negb (is_kind st KSpace s && forallb (is_kind st KSpace) bs)); [discriminate|].
  destruct (existsb (fun b => N.eqb b s || memN s (ancs_of st b)) bs); [discriminate|].
  inversion E; subst; clear E.
  pose proof (dyn_roots_kind _ _ _ Hr) as Hk.
  apply create_derived_false.
  - exact (item_lt_next _ _ HS Hk).
  - apply discard_kills_item; [exact (inherit_roots_in _ _ _ _ HT Hr)|exact Hk].
Qed.

Lemma add_bases_kills_roots : forall st s bs st' T r,
  Str st -> step_add_bases st s bs = (st', ODone) ->
  In T (s :: subs_of st s) -> In r (dyn_roots st T) -> alive st' r = false.
Proof.
  intros st s bs st' T r HS E HT Hr. apply (add_bases_kills_roots_visited st s bs st' T r HS E); [|exact Hr].
  destruct HT as [HT|HT]; [left; exact HT|right; exact (subs_of_add_bases _ _ _ _ HT)].
Qed.

Lemma del_cells_kills_roots : forall st s c st' T r,
  Str st -> step_del_cells st s c = (st', ODone) ->
  In T (s :: subs_of st s) -> In r (dyn_roots st T) -> alive st' r = false.
Proof.
  intros st s c st' T r HS E HT Hr. unfold step_del_cells in E.
  destruct (negb (is_defined st c)); [discriminate|]. inversion E; subst; clear E.
  pose proof (dyn_roots_kind _ _ _ Hr) as Hk.
  apply create_derived_false.
  - exact (item_lt_next _ _ HS Hk).
  - apply settle_kills_item; [exact (inherit_roots_in _ _ _ _ HT Hr)|exact Hk].
Qed.

(** [del p.x], x a space: the copies of x itself, and the copies of every sub
    space T of a space y of the deleted tree *)
Lemma del_space_kills_roots_self : forall st p x st' o r,
  step_del_space st p x = (st', o) -> In r (dyn_roots st x) -> alive st' r = false.
Proof.
  intros st p x st' o r E Hr. unfold step_del_space in E. inversion E; subst; clear E.
  apply settle_kills_item; [apply in_app_iff; left; exact Hr|exact (dyn_roots_kind _ _ _ Hr)].
Qed.

Lemma del_space_kills_roots_subs : forall st p x st' o y T r,
  step_del_space st p x = (st', o) ->
  In y (under_set st [x]) -> is_kind st KSpace y = true -> In T (subs_of st y) ->
  In r (dyn_roots st T) -> alive st' r = false.
Proof.
  intros st p x st' o y T r E Hy Hk HT Hr. unfold step_del_space in E. inversion E; subst; clear E.
  apply settle_kills_item; [|exact (dyn_roots_kind _ _ _ Hr)].
  apply in_app_iff. right. apply (inherit_roots_in _ _ T); [|exact Hr].
  apply in_flat_map. exists y. split; [|exact HT]. apply filter_In. split; assumption.
Qed.

(** ---- with everything inside: the statements of Props/C13.v ---- *)
Theorem remove_bases_discards : forall st s bs st' T r v,
  Inv st -> step_remove_bases st s bs = (st', ODone) ->
  In T (s :: subs_of st s) -> In r (dyn_roots st T) -> inside st' r v -> alive st' v = false.
Proof.
  intros st s bs st' T r v [_ [HS _]] E HT Hr Hi.
  apply (dead_inside_str st' r v); [exact (str_step_remove_bases _ _ _ _ _ HS E)|exact Hi|].
  exact (remove_bases_kills_roots _ _ _ _ _ _ E HT Hr).
Qed.

Theorem add_bases_discards : forall st s bs st' T r v,
  Inv st -> alive st s = true -> step_add_bases st s bs = (st', ODone) ->
  In T (s :: subs_of st s) -> In r (dyn_roots st T) -> inside st' r v -> alive st' v = false.
Proof.
  intros st s bs st' T r v [_ [HS _]] Hs E HT Hr Hi.
  apply (dead_inside_str st' r v); [exact (str_step_add_bases _ _ _ _ _ HS Hs E)|exact Hi|].
  exact (add_bases_kills_roots _ _ _ _ _ _ HS E HT Hr).
Qed.

Theorem del_cells_discards : forall st s c st' T r v,
  Inv st -> alive st s = true -> is_kind st KSpace s = true -> step_del_cells st s c = (st', ODone) ->
  In T (s :: subs_of st s) -> In r (dyn_roots st T) -> inside st' r v -> alive st' v = false.
Proof.
  intros st s c st' T r v [_ [HS _]] Hs Hk E HT Hr Hi.
  apply (dead_inside_str st' r v); [exact (str_step_del_cells _ _ _ _ _ HS Hs Hk E)|exact Hi|].
  exact (del_cells_kills_roots _ _ _ _ _ _ HS E HT Hr).
Qed.

Theorem del_space_discards : forall st p x st' o T r v,
  Inv st -> step_del_space st p x = (st', o) ->
  (T = x \/ exists y, In y (under_set st [x]) /\ is_kind st KSpace y = true /\ In T (subs_of st y)) ->
  In r (dyn_roots st T) -> inside st' r v -> alive st' v = false.
Proof.
  intros st p x st' o T r v [_ [HS _]] E HT Hr Hi.
  apply (dead_inside_str st' r v); [exact (str_step_del_space _ _ _ _ _ HS E)|exact Hi|].
  destruct HT as [HT|[y [Hy [Hk HT]]]].
  - subst T. exact (del_space_kills_roots_self _ _ _ _ _ _ E Hr).
  - exact (del_space_kills_roots_subs _ _ _ _ _ _ _ _ E Hy Hk HT Hr).
Qed.

(** ---- examples: the hypotheses are satisfiable; the scenario of the repair ---- *)
Open Scope string_scope.

(** S0 and S1 have no cells (their lazy namespaces are never evaluated); S1
    (parameters) inherits from S0 and has a child S2; S3 inherits from S1;
    handles: 1 = S0, 2 = S1, 3 = S2, 4 = S3 (parameters), 5 = S1[1], 6 = S1[1].S2, 7 = S3[2] *)
Definition inh_ops : list op :=
  [ NewSpace 0 "S0" [] false; NewSpace 0 "S1" [1] true; NewSpace 2 "S2" [] false; NewSpace 0 "S3" [2] true;
    GetItem 2 1; Take 5 "S2"; GetItem 4 2 ].

Example inh_before :
  let st := run [] inh_ops in
  map (alive st) (st_handles st) = repeat true 8
  /\ handle st 2 = Some 2%N /\ subs_of st 2%N = [4%N]
  /\ dyn_roots st 2%N = [5%N] /\ dyn_roots st 4%N = [7%N] /\ inside st 5%N 6%N.
Proof.
  vm_compute. repeat split; try reflexivity.
  apply (inside_step _ _ 6%N 5%N); [reflexivity|apply inside_self].
Qed.

(** remove_bases(S1, S0): no member of S1 or S3 changes, yet S1[1], S1[1].S2 and S3[2] are dead *)
Example inh_remove_bases :
  let st := run [] (inh_ops ++ [RemoveBases 2 [1]]) in
  map (alive st) (st_handles st) = [true; true; true; true; true; false; false; false].
Proof. vm_compute. reflexivity. Qed.

Example inh_remove_bases_hyp :
  step_remove_bases (run [] inh_ops) 2%N [1%N] = (run [] (inh_ops ++ [RemoveBases 2 [1]]), ODone).
Proof. vm_compute. reflexivity. Qed.

(** add_bases(S1, S4) with a fresh empty space S4 (handle 8) *)
Example inh_add_bases :
  let st := run [] (inh_ops ++ [NewSpace 0 "S4" [] false; AddBases 2 [8]]) in
  map (alive st) (st_handles st) = [true; true; true; true; true; false; false; false; true].
Proof. vm_compute. reflexivity. Qed.

(** del S0.c0 after S0 got a cells (handle 8; S1, S3 get derived copies, their ItemSpaces are discarded
    and re-created: handles 9, 10 - the same objects as 5, 7, the interface is re-attached): the pass
    visits S0, S1, S3 *)
Example inh_del_cells :
  let ops := (inh_ops ++ [NewCells 1 "c0"; GetItem 2 1; GetItem 4 2])%list in
  let st := run [] ops in
  let st' := run [] (ops ++ [DelAttr 1 "c0"]) in
  map (alive st) (st_handles st) = repeat true 11
  /\ map (alive st') (st_handles st') = [true; true; true; true; true; false; false; false; false; false; false].
Proof. vm_compute. split; reflexivity. Qed.

(** del M.S0: the sub spaces S1 and S3 of the deleted space are re-inherited *)
Example inh_del_space :
  let st := run [] (inh_ops ++ [DelAttr 0 "S0"]) in
  map (alive st) (st_handles st) = [true; false; true; true; true; false; false; false].
Proof. vm_compute. reflexivity. Qed.
