(** Alive layer - the inheritance graph is acyclic in every reachable state,
    hence the fuelled ancestor computation [ancs_of] (fuel = number of uids
    handed out) is COMPLETE: [In A (ancs_of st T) <-> anc st T A], and
    [has_definer st T n = true <-> exists c, definer st T n c].
    [Acyc] is a further invariant of [step] ([add_bases] rejects cycles, a new
    space is a fresh node without incoming edges, everything else only removes
    edges); [Inv2 = Inv /\ Acyc] holds after every history. *)
From Coq Require Import List String Bool Arith ZArith NArith Lia.
From MX Require Import Alive.Model Alive.ProofsBase Alive.ProofsRes Alive.ProofsStr Alive.ProofsDer Alive.ProofsStep Alive.ProofsTop.
Import ListNotations.

Definition Acyc (st : state) : Prop := forall T, ~ anc st T T.

Lemma anc_trans : forall st T A B, anc st T A -> anc st A B -> anc st T B.
Proof.
  intros st T A B H1 H2. induction H1 as [T b Hb|T b A Hb H1 IH].
  - exact (anc_step st T b B Hb H2).
  - exact (anc_step st T b B Hb (IH H2)).
Qed.

(** ---- paths through the base lists ---- *)
Fixpoint is_path (st : state) (T : uid) (l : list uid) : Prop :=
  match l with
  | [] => True
  | b :: t => In b (c_bases (get_cont st T)) /\ is_path st b t
  end.

Lemma anc_path : forall st T A, anc st T A -> exists l, is_path st T (l ++ [A]).
Proof.
  intros st T A H. induction H as [T b Hb|T b A Hb H [l IH]].
  - exists []. simpl. split; [exact Hb|exact I].
  - exists (b :: l). simpl. split; [exact Hb|exact IH].
Qed.

Lemma path_anc : forall st l T x, is_path st T l -> In x l -> anc st T x.
Proof.
  intros st l; induction l as [|b t IH]; intros T x Hp Hx; [destruct Hx|].
  destruct Hp as [Hb Hp]. destruct Hx as [Hx|Hx].
  - subst x. apply anc_base. exact Hb.
  - apply (anc_step st T b x Hb). exact (IH _ _ Hp Hx).
Qed.

Lemma path_nodup : forall st, Acyc st -> forall l T, is_path st T l -> NoDup l.
Proof.
  intros st HA l; induction l as [|b t IH]; intros T Hp; [constructor|].
  destruct Hp as [Hb Hp]. constructor; [|exact (IH _ Hp)].
  intros Hin. exact (HA b (path_anc _ _ _ _ Hp Hin)).
Qed.

Lemma ancs_complete_path : forall f st l T A,
  is_path st T (l ++ [A]) -> (List.length l < f)%nat -> In A (ancs f st T).
Proof.
  induction f as [|f IH]; intros st l T A Hp Hl; [lia|].
  cbn [ancs]. apply in_flat_map. destruct l as [|b t]; simpl in Hp; destruct Hp as [Hb Hp].
  - exists A. split; [exact Hb|left; reflexivity].
  - exists b. split; [exact Hb|right]. apply (IH st t b A Hp). simpl in Hl. lia.
Qed.

(** pigeon-hole: a duplicate-free list of numbers below n has at most n elements *)
Lemma below_length : forall (l : list N) n,
  NoDup l -> (forall x, In x l -> (x < n)%N) -> (List.length l <= N.to_nat n)%nat.
Proof.
  intros l n Hnd Hlt.
  assert (incl l (map N.of_nat (seq 0 (N.to_nat n)))) as Hincl.
  { intros x Hx. apply in_map_iff. exists (N.to_nat x). split; [apply N2Nat.id|].
    apply in_seq. specialize (Hlt _ Hx). lia. }
  pose proof (NoDup_incl_length Hnd Hincl) as H. rewrite map_length, seq_length in H. exact H.
Qed.

(** completeness of the fuelled computation on an acyclic graph of live nodes *)
Theorem ancs_of_complete : forall st T A,
  Res st -> Str st -> Acyc st -> anc st T A -> In A (ancs_of st T).
Proof.
  intros st T A HR HS HA H. destruct (anc_path _ _ _ H) as [l Hl]. unfold ancs_of.
  apply (ancs_complete_path _ st l T A Hl).
  pose proof (path_nodup st HA _ _ Hl) as Hnd.
  assert (forall x, In x (l ++ [A]) -> (x < st_next st)%N) as Hlt.
  { intros x Hx. apply (alive_lt_next st x HS). apply (anc_alive st T x HR). exact (path_anc _ _ _ _ Hl Hx). }
  pose proof (below_length _ _ Hnd Hlt) as Hb. rewrite app_length in Hb. simpl in Hb. lia.
Qed.

Theorem ancs_of_iff : forall st T A,
  Res st -> Str st -> Acyc st -> (In A (ancs_of st T) <-> anc st T A).
Proof.
  intros st T A HR HS HA. split; [apply ancs_sound|apply ancs_of_complete; assumption].
Qed.

Theorem has_definer_iff : forall st T n,
  Res st -> Str st -> Acyc st -> (has_definer st T n = true <-> exists c, definer st T n c).
Proof.
  intros st T n HR HS HA. split; [apply has_definer_sound|].
  intros [c [A [Han [Hl [Hal Hd]]]]]. unfold has_definer. apply existsb_exists. exists A.
  split; [exact (ancs_of_complete _ _ _ HR HS HA Han)|]. unfold defines. rewrite Hl, Hal, Hd. reflexivity.
Qed.

Corollary has_definer_false_iff : forall st T n,
  Res st -> Str st -> Acyc st -> (has_definer st T n = false <-> forall c, ~ definer st T n c).
Proof.
  intros st T n HR HS HA. pose proof (has_definer_iff st T n HR HS HA) as [H1 H2]. split.
  - intros Hf c Hc. rewrite (H2 (ex_intro _ c Hc)) in Hf. discriminate.
  - intros Hno. destruct (has_definer st T n) eqn:E; [|reflexivity].
    destruct (H1 eq_refl) as [c Hc]. exfalso. exact (Hno c Hc).
Qed.

(** ---- operations that only remove edges ---- *)
Definition bases_sub (st' st : state) : Prop :=
  forall T b, In b (c_bases (get_cont st' T)) -> In b (c_bases (get_cont st T)).

Lemma anc_sub : forall st' st T A, bases_sub st' st -> anc st' T A -> anc st T A.
Proof.
  intros st' st T A Hs H. induction H as [T b Hb|T b A Hb H IH].
  - apply anc_base. exact (Hs _ _ Hb).
  - exact (anc_step st T b A (Hs _ _ Hb) IH).
Qed.

Lemma acyc_sub : forall st' st, bases_sub st' st -> Acyc st -> Acyc st'.
Proof. intros st' st Hs HA T H. exact (HA T (anc_sub _ _ _ _ Hs H)). Qed.

Lemma bases_sub_refl : forall st, bases_sub st st.
Proof. intros st T b H. exact H. Qed.

Lemma bs_conts : forall st2 st1 st, st_conts st2 = st_conts st1 -> bases_sub st1 st -> bases_sub st2 st.
Proof. intros st2 st1 st Hc H T b Hb. apply H. unfold get_cont in *. rewrite <- Hc. exact Hb. Qed.

Lemma lookupN_purged : forall K X (l : list (uid * cont)), memN X K = true ->
  lookupN X (map (fun e => (fst e, purge_cont K (snd e))) (filter (fun e => negb (memN (fst e) K)) l)) = None.
Proof.
  intros K X l HX; induction l as [|[k c] t IH]; simpl; [reflexivity|].
  destruct (memN k K) eqn:Ek; simpl; [exact IH|].
  destruct (N.eqb k X) eqn:E; [apply N.eqb_eq in E; subst k; congruence|exact IH].
Qed.

Lemma bases_purge_in : forall K st X b,
  In b (c_bases (get_cont (purge K st) X)) -> In b (c_bases (get_cont st X)) /\ memN b K = false.
Proof.
  intros K st X b H. destruct (memN X K) eqn:EX.
  - unfold get_cont in H. cbn [purge st_conts] in H. rewrite (lookupN_purged K X _ EX) in H. destruct H.
  - rewrite (get_cont_purge _ _ _ EX) in H. cbn [purge_cont c_bases] in H. apply filter_In in H as [H1 H2].
    split; [exact H1|]. apply negb_true_iff in H2. exact H2.
Qed.

Lemma bs_purge : forall K st1 st, bases_sub st1 st -> bases_sub (purge K st1) st.
Proof. intros K st1 st H T b Hb. apply H. exact (proj1 (bases_purge_in _ _ _ _ Hb)). Qed.

Lemma bs_upd_cont : forall st1 st u f,
  (forall c b, In b (c_bases (f c)) -> In b (c_bases c)) -> bases_sub st1 st -> bases_sub (upd_cont st1 u f) st.
Proof.
  intros st1 st u f Hf H T b Hb. apply H.
  destruct (N.eq_dec T u) as [He|Hne]; [subst T|rewrite get_cont_upd_cont_other in Hb; assumption].
  rewrite get_cont_upd_cont_same in Hb. unfold get_cont.
  destruct (lookupN u (st_conts st1)) as [c|]; [exact (Hf _ _ Hb)|destruct Hb].
Qed.

Lemma get_cont_add_obj : forall st u o c T,
  get_cont (add_obj st u o (Some c)) T = if N.eqb u T then c else get_cont st T.
Proof. intros st u o c T. unfold get_cont, add_obj; cbn [st_conts lookupN]. destruct (N.eqb u T); reflexivity. Qed.

Lemma bs_add_obj : forall st1 st u o k,
  (forall c, k = Some c -> c_bases c = []) -> bases_sub st1 st -> bases_sub (add_obj st1 u o k) st.
Proof.
  intros st1 st u o k Hk H T b Hb. apply H. destruct k as [c|]; [|exact Hb].
  rewrite get_cont_add_obj in Hb. destruct (N.eqb u T); [|exact Hb].
  rewrite (Hk c eq_refl) in Hb. destruct Hb.
Qed.

Lemma bs_clear_vals : forall C st1 st, bases_sub st1 st -> bases_sub (clear_vals C st1) st.
Proof. intros C st1 st H. exact (bs_conts _ st1 st eq_refl H). Qed.
Lemma bs_set_vals : forall v st1 st, bases_sub st1 st -> bases_sub (set_vals st1 v) st.
Proof. intros v st1 st H. exact (bs_conts _ st1 st eq_refl H). Qed.
Lemma bs_set_globals : forall g st1 st, bases_sub st1 st -> bases_sub (set_globals st1 g) st.
Proof. intros g st1 st H. exact (bs_conts _ st1 st eq_refl H). Qed.
Lemma bs_push_handle : forall u st1 st, bases_sub st1 st -> bases_sub (push_handle st1 u) st.
Proof. intros u st1 st H. exact (bs_conts _ st1 st eq_refl H). Qed.
Lemma bs_bump : forall st1 st, bases_sub st1 st -> bases_sub (bump st1) st.
Proof. intros st1 st H. exact (bs_conts _ st1 st eq_refl H). Qed.
Lemma bs_add_src : forall d s st1 st, bases_sub st1 st -> bases_sub (add_src st1 d s) st.
Proof. intros d s st1 st H. exact (bs_conts _ st1 st eq_refl H). Qed.

Lemma bs_new_cells_obj : forall T n d st1 st, bases_sub st1 st -> bases_sub (new_cells_obj st1 T n d) st.
Proof.
  intros T n d st1 st H. unfold new_cells_obj. apply bs_upd_cont; [intros c b Hb; exact Hb|].
  apply bs_add_obj; [intros c Hc; discriminate|]. apply bs_bump. exact H.
Qed.

Lemma bs_fold : forall {A} (f : state -> A -> state) st,
  (forall s a, bases_sub s st -> bases_sub (f s a) st) ->
  forall l st1, bases_sub st1 st -> bases_sub (fold_left f l st1) st.
Proof. intros A f st Hf l; induction l as [|a t IH]; simpl; intros st1 H; [exact H|]. apply IH, Hf, H. Qed.

Lemma bs_derive_space : forall T st1 st, bases_sub st1 st -> bases_sub (derive_space st1 T) st.
Proof. intros T st1 st H. unfold derive_space. apply bs_fold; [|exact H]. intros s a Hs. apply bs_new_cells_obj, Hs. Qed.

Lemma bs_fold_derive : forall l st1 st, bases_sub st1 st -> bases_sub (fold_left derive_space l st1) st.
Proof. intros l st1 st H. apply bs_fold; [|exact H]. intros s a Hs. apply bs_derive_space, Hs. Qed.

Lemma bs_discard_items : forall l st1 st, bases_sub st1 st -> bases_sub (discard_items st1 l) st.
Proof. intros l st1 st H. unfold discard_items. apply bs_purge, H. Qed.

Lemma bs_ns_change : forall Ts l st1 st, bases_sub st1 st -> bases_sub (ns_change st1 Ts l) st.
Proof. intros Ts l st1 st H. unfold ns_change. apply bs_discard_items, bs_clear_vals, H. Qed.

Lemma bs_settle : forall Ts l st1 st, bases_sub st1 st -> bases_sub (settle st1 Ts l) st.
Proof. intros Ts l st1 st H. unfold settle. apply bs_purge, bs_clear_vals, H. Qed.

Lemma bs_clear_derived : forall Ts st1 st, bases_sub st1 st -> bases_sub (clear_derived st1 Ts) st.
Proof. intros Ts st1 st H. unfold clear_derived. apply bs_clear_vals, H. Qed.

Lemma bs_create_derived : forall l st1 st, bases_sub st1 st -> bases_sub (create_derived st1 l) st.
Proof. intros l st1 st H. unfold create_derived. apply bs_ns_change, bs_fold_derive, H. Qed.

Lemma bs_wipe : forall st1 st, bases_sub st1 st -> bases_sub (wipe st1) st.
Proof. intros st1 st H. unfold wipe. apply bs_discard_items, bs_set_vals, H. Qed.

Lemma bs_copy_one : forall S k acc u st, bases_sub (fst acc) st -> bases_sub (fst (copy_one S k acc u)) st.
Proof.
  intros S k [st1 m] u st H. cbn [fst] in H. unfold copy_one.
  destruct (parent_of st1 u) as [p|]; [|exact H].
  destruct (lookup3 p m) as [[dp path]|]; [|exact H].
  destruct (is_kind st1 KCells u).
  - cbn [fst]. apply bs_upd_cont; [intros c b Hb; exact Hb|].
    apply bs_add_obj; [intros c Hc; discriminate|]. apply bs_bump, H.
  - destruct (alloc_dyn st1 (S, k, (path ++ [name_of st1 u])%list)
                        (mkObj KDSpace (dp :: chain_of st1 dp) (name_of st1 u) 0 false)) as [du st2] eqn:Ea.
    cbn [fst]. apply bs_upd_cont; [intros c b Hb; exact Hb|].
    apply bs_add_obj; [intros c Hc; inversion Hc; reflexivity|]. apply bs_add_src.
    pose proof (alloc_dyn_fields _ _ _ _ _ Ea) as [_ [_ [Hc _]]]. exact (bs_conts _ _ _ Hc H).
Qed.

Lemma bs_fold_copy : forall S k l acc st, bases_sub (fst acc) st -> bases_sub (fst (fold_left (copy_one S k) l acc)) st.
Proof. intros S k l; induction l as [|u t IH]; simpl; intros acc st H; [exact H|]. apply IH, bs_copy_one, H. Qed.

Lemma bs_new_item : forall S k st1 st, bases_sub st1 st -> bases_sub (fst (new_item st1 S k)) st.
Proof.
  intros S k st1 st H. unfold new_item.
  destruct (alloc_dyn st1 (S, k, []) (mkObj KItem (S :: chain_of st1 S) EmptyString k false)) as [r st2] eqn:Ea.
  cbn [fst]. apply bs_fold_copy. cbn [fst]. apply bs_upd_cont; [intros c b Hb; exact Hb|].
  apply bs_add_obj; [intros c Hc; inversion Hc; reflexivity|]. apply bs_add_src.
  pose proof (alloc_dyn_fields _ _ _ _ _ Ea) as [_ [_ [Hc _]]]. exact (bs_conts _ _ _ Hc H).
Qed.

(** ---- the two operations that add edges ---- *)
(** a new node whose base list holds live objects: no edge leads to it *)
Lemma acyc_add_node : forall st u o c,
  Res st -> Acyc st -> alive st u = false -> (forall b, In b (c_bases c) -> alive st b = true) ->
  Acyc (add_obj st u o (Some c)).
Proof.
  intros st u o c HR HA Hu Hc. set (st' := add_obj st u o (Some c)).
  assert (forall T b, In b (c_bases (get_cont st' T)) -> b <> u) as H1.
  { intros T b Hb He. subst b. unfold st' in Hb. rewrite get_cont_add_obj in Hb. destruct (N.eqb u T).
    - rewrite (Hc _ Hb) in Hu. discriminate.
    - rewrite (res_bases_alive _ _ _ HR Hb) in Hu. discriminate. }
  assert (forall T A, anc st' T A -> A <> u) as H2.
  { intros T A H. induction H as [T b Hb|T b A Hb H IH]; [exact (H1 _ _ Hb)|exact IH]. }
  assert (forall T A, anc st' T A -> T <> u -> anc st T A) as H3.
  { intros T A H. induction H as [T b Hb|T b A Hb H IH]; intros HT.
    - apply anc_base. unfold st' in Hb. rewrite get_cont_add_obj in Hb.
      destruct (N.eqb u T) eqn:E; [apply N.eqb_eq in E; congruence|exact Hb].
    - pose proof (H1 _ _ Hb) as Hbu. apply (anc_step st T b A); [|exact (IH Hbu)].
      unfold st' in Hb. rewrite get_cont_add_obj in Hb.
      destruct (N.eqb u T) eqn:E; [apply N.eqb_eq in E; congruence|exact Hb]. }
  intros T H. exact (HA T (H3 _ _ H (H2 _ _ H))).
Qed.

(** [add_bases]: the new edges s -> b, b in bs; rejected when some b is s or has s among its ancestors *)
Lemma acyc_add_edges : forall st s bs,
  Res st -> Str st -> Acyc st ->
  existsb (fun b => N.eqb b s || memN s (ancs_of st b)) bs = false ->
  Acyc (upd_cont st s (with_bases (dedupN (c_bases (get_cont st s) ++ bs)))).
Proof.
  intros st s bs HR HS HA Hchk. set (st' := upd_cont st s (with_bases (dedupN (c_bases (get_cont st s) ++ bs)))).
  assert (forall T b, In b (c_bases (get_cont st' T)) -> In b (c_bases (get_cont st T)) \/ (T = s /\ In b bs)) as Hedge.
  { intros T b Hb. unfold st' in Hb.
    destruct (N.eq_dec T s) as [He|Hne]; [subst T|rewrite get_cont_upd_cont_other in Hb; [left; exact Hb|exact Hne]].
    rewrite get_cont_upd_cont_same in Hb. destruct (lookupN s (st_conts st)) as [c|]; [|destruct Hb].
    cbn [with_bases c_bases] in Hb. apply dedupN_incl in Hb. apply in_app_iff in Hb as [Hb|Hb]; [left; exact Hb|right; auto]. }
  (* a path in the new graph is old, or goes from its start to s and from some new base to its end *)
  assert (forall X Y, anc st' X Y ->
            anc st X Y \/ ((X = s \/ anc st X s) /\ exists b, In b bs /\ (b = Y \/ anc st b Y))) as Hsplit.
  { intros X Y H. induction H as [X Y Hb|X b Y Hb H IH].
    - destruct (Hedge _ _ Hb) as [Ho|[Hx Hn]]; [left; apply anc_base; exact Ho|].
      right. split; [left; exact Hx|]. exists Y. split; [exact Hn|left; reflexivity].
    - destruct (Hedge _ _ Hb) as [Ho|[Hx Hn]].
      + destruct IH as [IH|[[Hbs|Hbs] Hex]].
        * left. exact (anc_step st X b Y Ho IH).
        * right. split; [right; subst b; apply anc_base; exact Ho|exact Hex].
        * right. split; [right; exact (anc_step st X b s Ho Hbs)|exact Hex].
      + destruct IH as [IH|[_ Hex]].
        * right. split; [left; exact Hx|]. exists b. split; [exact Hn|right; exact IH].
        * right. split; [left; exact Hx|exact Hex]. }
  intros T H. destruct (Hsplit _ _ H) as [Ho|[Hts [b [Hb Hbt]]]]; [exact (HA T Ho)|].
  assert (b = s \/ anc st b s) as Hbs.
  { destruct Hbt as [Hbt|Hbt]; [subst b; exact Hts|].
    destruct Hts as [Hts|Hts]; [subst T; right; exact Hbt|right; exact (anc_trans _ _ _ _ Hbt Hts)]. }
  assert (existsb (fun b => N.eqb b s || memN s (ancs_of st b)) bs = true) as Hc.
  { apply existsb_exists. exists b. split; [exact Hb|]. apply orb_true_iff.
    destruct Hbs as [Hbs|Hbs]; [left; apply N.eqb_eq; exact Hbs|right].
    apply memN_In. exact (ancs_of_complete _ _ _ HR HS HA Hbs). }
  rewrite Hc in Hchk. discriminate.
Qed.

(** ---- every operation keeps the graph acyclic ---- *)
Lemma acyc_step_new_space : forall st p name bs params st' o,
  Inv st -> Acyc st -> forallb (alive st) bs = true ->
  step_new_space st p name bs params = (st', o) -> Acyc st'.
Proof.
  intros st p name bs params st' o [HR [HS _]] HA Hb. unfold step_new_space.
  destruct (negb (is_kind st KModel p || is_kind st KSpace p)); [intros E; inversion E; subst; exact HA|].
  destruct (negb (forallb (is_kind st KSpace) bs)); [intros E; inversion E; subst; exact HA|].
  destruct (has_name st p name); [intros E; inversion E; subst; exact HA|].
  intros E; inversion E; subst; clear E.
  set (st1 := add_obj (bump st) (st_next st) (mkObj KSpace (p :: chain_of st p) name 0 false)
                      (Some (mkCont [] [] [] (dedupN bs) params))).
  assert (Acyc st1) as H1.
  { apply acyc_add_node.
    - apply res_bump; exact HR.
    - apply (acyc_sub _ st); [apply bs_bump, bases_sub_refl|exact HA].
    - exact (next_not_alive _ HS).
    - intros b Hbb. cbn in Hbb. exact (forallb_alive_dedup _ _ _ Hb Hbb). }
  refine (acyc_sub _ st1 _ H1).
  apply bs_push_handle, bs_derive_space.
  destruct (is_kind st KSpace p); [apply bs_ns_change|];
    (apply bs_upd_cont; [intros c b Hbb; exact Hbb|apply bases_sub_refl]).
Qed.

Lemma bs_step_new_cells : forall st s name, bases_sub (fst (step_new_cells st s name)) st.
Proof.
  intros st s name. unfold step_new_cells.
  destruct (negb (is_kind st KSpace s)); [apply bases_sub_refl|].
  destruct (has_name st s name); [apply bases_sub_refl|]. cbn [fst].
  apply bs_push_handle, bs_ns_change, bs_fold; [|apply bs_new_cells_obj, bases_sub_refl].
  intros s0 a H. apply bs_new_cells_obj, H.
Qed.

Lemma bs_step_take : forall st u name, bases_sub (fst (step_take st u name)) st.
Proof.
  intros st u name. unfold step_take.
  destruct (lookupS name (c_cells (get_cont st u))); [apply bs_push_handle, bases_sub_refl|].
  destruct (lookupS name (c_spaces (get_cont st u))); [apply bs_push_handle|]; apply bases_sub_refl.
Qed.

Lemma bs_step_get_item : forall st s k, bases_sub (fst (step_get_item st s k)) st.
Proof.
  intros st s k. unfold step_get_item.
  destruct (negb (is_kind st KSpace s && c_params (get_cont st s))); [apply bases_sub_refl|].
  destruct (lookupZ k (c_items (get_cont st s))); [apply bs_push_handle, bases_sub_refl|].
  pose proof (bs_new_item s k st st (bases_sub_refl st)) as H. destruct (new_item st s k) as [st1 r].
  cbn [fst] in *. apply bs_push_handle, H.
Qed.

Lemma bs_step_del_cells : forall st s c, bases_sub (fst (step_del_cells st s c)) st.
Proof.
  intros st s c. unfold step_del_cells. destruct (negb (is_defined st c)); [apply bases_sub_refl|]. cbn [fst].
  apply bs_create_derived, bs_settle, bs_clear_derived, bs_purge, bases_sub_refl.
Qed.

Lemma bs_step_del_space : forall st p x, bases_sub (fst (step_del_space st p x)) st.
Proof.
  intros st p x. unfold step_del_space. cbn [fst].
  apply bs_settle, bs_clear_derived, bs_purge, bases_sub_refl.
Qed.

Lemma bs_step_del_attr : forall st u name, bases_sub (fst (step_del_attr st u name)) st.
Proof.
  intros st u name. unfold step_del_attr. destruct (kind_of st u); try apply bases_sub_refl.
  - destruct (lookupS name (c_spaces (get_cont st u))); [apply bs_step_del_space|].
    destruct (lookupS name (st_globals st)); [|apply bases_sub_refl].
    cbn [fst]. apply bs_wipe, bs_set_globals, bases_sub_refl.
  - destruct (lookupS name (c_cells (get_cont st u))); [apply bs_step_del_cells|].
    destruct (lookupS name (c_spaces (get_cont st u))); [apply bs_step_del_space|apply bases_sub_refl].
Qed.

Lemma acyc_step_add_bases : forall st s bs st' o,
  Inv st -> Acyc st -> step_add_bases st s bs = (st', o) -> Acyc st'.
Proof.
  intros st s bs st' o [HR [HS _]] HA. unfold step_add_bases.
  destruct (negb (is_kind st KSpace s && forallb (is_kind st KSpace) bs)); [intros E; inversion E; subst; exact HA|].
  destruct (existsb (fun b => N.eqb b s || memN s (ancs_of st b)) bs) eqn:Ec; intros E; inversion E; subst; [exact HA|].
  refine (acyc_sub _ _ _ (acyc_add_edges st s bs HR HS HA Ec)).
  apply bs_create_derived, bs_discard_items, bs_clear_derived, bases_sub_refl.
Qed.

Lemma bs_step_remove_bases : forall st s bs, bases_sub (fst (step_remove_bases st s bs)) st.
Proof.
  intros st s bs. unfold step_remove_bases.
  destruct (negb (is_kind st KSpace s)); [apply bases_sub_refl|].
  destruct (negb (forallb (fun b => memN b (c_bases (get_cont st s))) bs)); [apply bases_sub_refl|]. cbn [fst].
  apply bs_settle, bs_clear_derived. intros T b Hb.
  destruct (N.eq_dec T s) as [He|Hne]; [subst T|rewrite get_cont_upd_cont_other in Hb; assumption].
  rewrite get_cont_upd_cont_same in Hb. destruct (lookupN s (st_conts st)) as [c|]; [|destruct Hb].
  cbn [with_bases c_bases] in Hb. apply filter_In in Hb as [Hb _]. exact Hb.
Qed.

Lemma bs_step_set_params : forall st s b, bases_sub (fst (step_set_params st s b)) st.
Proof.
  intros st s b. unfold step_set_params. destruct (negb (is_kind st KSpace s)); [apply bases_sub_refl|]. cbn [fst].
  apply bs_upd_cont; [intros c x Hx; exact Hx|].
  apply bs_discard_items, bases_sub_refl.
Qed.

Lemma bs_step_eval : forall st c x, bases_sub (fst (step_eval st c x)) st.
Proof.
  intros st c x. unfold step_eval.
  destruct (negb (is_kind st KCells c || is_kind st KDCells c)); [apply bases_sub_refl|].
  destruct (eval (eval_fuel st) st c x) as [st1 z deps| |] eqn:Ee; try apply bases_sub_refl. cbn [fst].
  destruct (eval_fields _ _ _ _ _ _ _ Ee) as [_ [_ [_ Hc]]]. exact (bs_conts _ _ _ Hc (bases_sub_refl st)).
Qed.

Lemma bs_step_bind_global : forall st name s, bases_sub (fst (step_bind_global st name s)) st.
Proof.
  intros st name s. unfold step_bind_global. destruct (negb (is_kind st KSpace s)); [apply bases_sub_refl|].
  destruct (has_name st 0%N name); [apply bases_sub_refl|]. cbn [fst].
  apply bs_wipe, bs_set_globals, bases_sub_refl.
Qed.

Theorem acyc_step : forall st o, Inv st -> Acyc st -> Acyc (fst (step st o)).
Proof.
  intros st o H HA. unfold step.
  destruct (op_handles o) as [h hb].
  destruct (handle st h) as [u|]; [|exact HA].
  destruct (handles st hb) as [bs|]; [|exact HA].
  destruct (alive st u && forallb (alive st) bs) eqn:Eal; cbn [negb]; [|exact HA].
  apply andb_true_iff in Eal as [Hu Hb].
  destruct o.
  - destruct (step_new_space st u name bs params) as [st' o'] eqn:E. exact (acyc_step_new_space _ _ _ _ _ _ _ H HA Hb E).
  - exact (acyc_sub _ _ (bs_step_new_cells st u name) HA).
  - exact (acyc_sub _ _ (bs_step_take st u name) HA).
  - exact (acyc_sub _ _ (bs_step_get_item st u k) HA).
  - exact (acyc_sub _ _ (bs_step_del_attr st u name) HA).
  - destruct (step_add_bases st u bs) as [st' o'] eqn:E. exact (acyc_step_add_bases _ _ _ _ _ H HA E).
  - exact (acyc_sub _ _ (bs_step_remove_bases st u bs) HA).
  - exact (acyc_sub _ _ (bs_step_set_params st u b) HA).
  - destruct (is_kind st KSpace u); cbn [fst]; [|exact HA].
    exact (acyc_sub _ _ (bs_discard_items _ _ _ (bases_sub_refl st)) HA).
  - destruct (is_kind st KSpace u); cbn [fst]; [|exact HA].
    destruct (lookupZ k (c_items (get_cont st u))); cbn [fst]; [|exact HA].
    exact (acyc_sub _ _ (bs_discard_items _ _ _ (bases_sub_refl st)) HA).
  - exact (acyc_sub _ _ (bs_step_eval st u x) HA).
  - destruct bs as [|s t]; [exact HA|]. exact (acyc_sub _ _ (bs_step_bind_global st name s) HA).
Qed.

Lemma acyc_init : forall ft, Acyc (init ft).
Proof.
  intros ft T H.
  assert (forall X b, ~ In b (c_bases (get_cont (init ft) X))) as Hno.
  { intros X b. unfold get_cont, init; cbn [st_conts lookupN]. destruct (N.eqb 0 X); intros []. }
  destruct H as [X b Hb|X b A Hb _]; exact (Hno _ _ Hb).
Qed.

(** the invariant with acyclicity *)
Definition Inv2 (st : state) : Prop := Inv st /\ Acyc st.

Theorem inv2_step : forall st o, Inv2 st -> Inv2 (fst (step st o)).
Proof. intros st o [H HA]. split; [apply inv_step; exact H|apply acyc_step; assumption]. Qed.

Lemma inv2_run_from : forall ops st, Inv2 st -> Inv2 (run_from st ops).
Proof. induction ops as [|o t IH]; intros st H; [exact H|]. cbn. apply IH, inv2_step, H. Qed.

Theorem inv2_run : forall ft ops, Inv2 (run ft ops).
Proof. intros. apply inv2_run_from. split; [apply inv_init|apply acyc_init]. Qed.

(** in every reachable state the ancestor computation is exact *)
Theorem ancs_of_exact : forall ft ops T A, In A (ancs_of (run ft ops) T) <-> anc (run ft ops) T A.
Proof.
  intros ft ops T A. destruct (inv2_run ft ops) as [[HR [HS _]] HA]. exact (ancs_of_iff _ _ _ HR HS HA).
Qed.

Theorem has_definer_exact : forall ft ops T n,
  has_definer (run ft ops) T n = true <-> exists c, definer (run ft ops) T n c.
Proof.
  intros ft ops T n. destruct (inv2_run ft ops) as [[HR [HS _]] HA]. exact (has_definer_iff _ _ _ HR HS HA).
Qed.
