(** Alive layer - "no residue": nothing the live structures mention is dead.
    Invariant of every operation, for every history. *)
From Coq Require Import List String Bool Arith ZArith NArith Lia.
From MX Require Import Alive.Model Alive.ProofsBase.
Import ListNotations.

(** every uid a container mentions *)
Definition cont_uids (c : cont) : list uid :=
  (map snd (c_cells c) ++ map snd (c_spaces c) ++ map snd (c_items c) ++ c_bases c)%list.

(** No residue.  (1) a container belongs to a live object and its name maps
    (cells, spaces, ItemSpaces) and base list hold live objects only; (2) a
    stored value belongs to a live cells, was computed from live cells only
    (transitively: [v_deps]), and its precedents listing ([v_reads]) is part of that. *)
Definition Res (st : state) : Prop :=
  (forall u c, In (u, c) (st_conts st) ->
     alive st u = true /\ forall x, In x (cont_uids c) -> alive st x = true)
  /\ (forall v, In v (st_vals st) ->
        (forall d, In d (v_deps v) -> alive st d = true)
        /\ In (v_cells v) (v_deps v)
        /\ forall r, In r (v_reads v) -> In (fst r) (v_deps v)).

Lemma res_ext : forall st st',
  st_alive st' = st_alive st -> st_conts st' = st_conts st -> st_vals st' = st_vals st ->
  Res st -> Res st'.
Proof.
  intros st st' Ha Hc Hv [H1 H2]. unfold Res, alive. rewrite Ha, Hc, Hv. split; assumption.
Qed.

Lemma in_cont_uids_purge : forall K c x, In x (cont_uids (purge_cont K c)) -> In x (cont_uids c) /\ memN x K = false.
Proof.
  intros K c x. unfold cont_uids, purge_cont; cbn [c_cells c_spaces c_items c_bases].
  rewrite !in_app_iff, !in_map_iff.
  intros [H|[H|[H|H]]].
  - destruct H as [e [He Hin]]. apply filter_In in Hin as [Hin Hk]. subst x.
    split; [left; exists e; tauto|]. apply negb_true_iff in Hk; exact Hk.
  - destruct H as [e [He Hin]]. apply filter_In in Hin as [Hin Hk]. subst x.
    split; [right; left; exists e; tauto|]. apply negb_true_iff in Hk; exact Hk.
  - destruct H as [e [He Hin]]. apply filter_In in Hin as [Hin Hk]. subst x.
    split; [right; right; left; exists e; tauto|]. apply negb_true_iff in Hk; exact Hk.
  - apply filter_In in H as [Hin Hk]. split; [tauto|]. apply negb_true_iff in Hk; exact Hk.
Qed.

(** whatever K is: purging keeps the structures free of dead uids *)
Lemma res_purge : forall K st, Res st -> Res (purge K st).
Proof.
  intros K st [H1 H2]. split.
  - intros u c Hin. cbn [purge st_conts] in Hin. apply in_map_iff in Hin as [[u0 c0] [He Hin]].
    cbn [fst snd] in He. inversion He; subst u c; clear He.
    apply filter_In in Hin as [Hin Hk]. cbn [fst] in Hk. apply negb_true_iff in Hk.
    destruct (H1 _ _ Hin) as [Ha Hx]. split.
    + rewrite alive_purge, Ha, Hk. reflexivity.
    + intros x Hxin. apply in_cont_uids_purge in Hxin as [Hxin Hxk].
      rewrite alive_purge, (Hx _ Hxin), Hxk. reflexivity.
  - intros v Hin. cbn [purge st_vals] in Hin. apply filter_In in Hin as [Hin Hk].
    apply negb_true_iff in Hk. destruct (H2 _ Hin) as [Hd [Hc Hr]]. split; [|split; assumption].
    intros d Hdin. rewrite alive_purge, (Hd _ Hdin). simpl.
    apply negb_true_iff. destruct (memN d K) eqn:E; [|reflexivity].
    unfold val_touches in Hk. assert (existsb (fun d0 => memN d0 K) (v_deps v) = true) as HH.
    { apply existsb_exists. exists d. split; assumption. }
    rewrite HH in Hk; discriminate.
Qed.

Lemma res_clear_vals : forall C st, Res st -> Res (clear_vals C st).
Proof.
  intros C st [H1 H2]. split; [exact H1|].
  intros v Hin. cbn in Hin. apply filter_In in Hin as [Hin _]. exact (H2 _ Hin).
Qed.

Lemma res_set_vals_nil : forall st, Res st -> Res (set_vals st []).
Proof. intros st [H1 H2]. split; [exact H1|]. intros v []. Qed.

Lemma res_set_globals : forall st g, Res st -> Res (set_globals st g).
Proof. intros st g H. exact H. Qed.

Lemma res_push_handle : forall st u, Res st -> Res (push_handle st u).
Proof. intros st u H. exact H. Qed.

Lemma res_bump : forall st, Res st -> Res (bump st).
Proof. intros st H. exact H. Qed.

Lemma res_add_src : forall st d s, Res st -> Res (add_src st d s).
Proof. intros st d s H. exact H. Qed.

Lemma alloc_dyn_fields : forall st k o u st1, alloc_dyn st k o = (u, st1) ->
  st_objs st1 = st_objs st /\ st_alive st1 = st_alive st /\ st_conts st1 = st_conts st /\
  st_vals st1 = st_vals st /\ st_globals st1 = st_globals st /\ st_src st1 = st_src st /\
  st_handles st1 = st_handles st /\ st_ftab st1 = st_ftab st.
Proof.
  intros st k o u st1. unfold alloc_dyn.
  destruct (lookupD k (st_cache st)); [destruct (get_obj st u0); [destruct (obj_eqb o0 o && negb (alive st u0))|]|];
    intros H; inversion H; subst; cbn; repeat split; reflexivity.
Qed.

Lemma res_alloc_dyn : forall st k o u st1, alloc_dyn st k o = (u, st1) -> Res st -> Res st1.
Proof.
  intros st k o u st1 H HR. apply alloc_dyn_fields in H. apply (res_ext st); tauto.
Qed.

Lemma alive_mono_add_obj : forall st u o k x, alive st x = true -> alive (add_obj st u o k) x = true.
Proof. intros. rewrite alive_add_obj, H. apply orb_true_r. Qed.

Lemma res_add_obj : forall st u o k,
  Res st ->
  (forall c, k = Some c -> forall x, In x (cont_uids c) -> alive st x = true \/ x = u) ->
  Res (add_obj st u o k).
Proof.
  intros st u o k [H1 H2] Hk. split.
  - intros v c Hin. cbn [add_obj st_conts] in Hin.
    assert (In (v, c) (st_conts st) \/ (k = Some c /\ v = u)) as Hcase.
    { destruct k as [c0|]; [destruct Hin as [Hin|Hin]; [inversion Hin; subst; right; auto|left; exact Hin]|left; exact Hin]. }
    destruct Hcase as [Hold|[Hnew Hv]].
    + destruct (H1 _ _ Hold) as [Ha Hx]. split; [apply alive_mono_add_obj; exact Ha|].
      intros x Hxin. apply alive_mono_add_obj. exact (Hx _ Hxin).
    + subst v. split; [rewrite alive_add_obj, N.eqb_refl; reflexivity|].
      intros x Hxin. destruct (Hk _ Hnew _ Hxin) as [Hal|Heq].
      * apply alive_mono_add_obj; exact Hal.
      * subst x. rewrite alive_add_obj, N.eqb_refl; reflexivity.
  - intros v Hin. cbn [add_obj st_vals] in Hin. destruct (H2 _ Hin) as [Hd [Hc Hr]].
    split; [|split; assumption]. intros d Hdin. apply alive_mono_add_obj. exact (Hd _ Hdin).
Qed.

Lemma res_upd_cont : forall st u f,
  Res st ->
  (forall c x, In x (cont_uids (f c)) -> In x (cont_uids c) \/ alive st x = true) ->
  Res (upd_cont st u f).
Proof.
  intros st u f [H1 H2] Hf. split; [|exact H2].
  intros v c Hin. cbn [upd_cont set_conts st_conts] in Hin.
  apply in_map_iff in Hin as [[v0 c0] [He Hin]]. cbn [fst snd] in He.
  destruct (H1 _ _ Hin) as [Ha Hx].
  destruct (N.eqb v0 u); inversion He; subst; clear He.
  - split; [exact Ha|]. intros x Hxin. destruct (Hf _ _ Hxin) as [Hold|Hal]; [exact (Hx _ Hold)|exact Hal].
  - split; assumption.
Qed.

Lemma cont_uids_add_cell : forall n c k x, In x (cont_uids (add_cell_entry n c k)) -> In x (cont_uids k) \/ x = c.
Proof.
  intros n c k x. unfold cont_uids, add_cell_entry; cbn [c_cells c_spaces c_items c_bases].
  rewrite map_app, !in_app_iff. simpl. intuition (subst; auto).
Qed.
Lemma cont_uids_add_space : forall n c k x, In x (cont_uids (add_space_entry n c k)) -> In x (cont_uids k) \/ x = c.
Proof.
  intros n c k x. unfold cont_uids, add_space_entry; cbn [c_cells c_spaces c_items c_bases].
  rewrite map_app, !in_app_iff. simpl. intuition (subst; auto).
Qed.
Lemma cont_uids_add_item : forall n c k x, In x (cont_uids (add_item_entry n c k)) -> In x (cont_uids k) \/ x = c.
Proof.
  intros n c k x. unfold cont_uids, add_item_entry; cbn [c_cells c_spaces c_items c_bases].
  rewrite map_app, !in_app_iff. simpl. intuition (subst; auto).
Qed.
Lemma cont_uids_with_params : forall b k, cont_uids (with_params b k) = cont_uids k.
Proof. reflexivity. Qed.
Lemma cont_uids_with_bases : forall bs k x, In x (cont_uids (with_bases bs k)) -> In x (cont_uids k) \/ In x bs.
Proof.
  intros bs k x. unfold cont_uids, with_bases; cbn [c_cells c_spaces c_items c_bases].
  rewrite !in_app_iff. tauto.
Qed.

Lemma res_new_cells_obj : forall st T n d, Res st -> Res (new_cells_obj st T n d).
Proof.
  intros st T n d H. unfold new_cells_obj. apply res_upd_cont.
  - apply res_add_obj; [apply res_bump; exact H|]. intros c Hc; discriminate.
  - intros c x Hx. apply cont_uids_add_cell in Hx as [Hx|Hx]; [left; exact Hx|right].
    subst x. rewrite alive_add_obj, N.eqb_refl. reflexivity.
Qed.

Lemma res_fold_new_cells : forall T d l st, Res st -> Res (fold_left (fun s n => new_cells_obj s T n d) l st).
Proof. intros T d l; induction l as [|n t IH]; simpl; intros st H; [exact H|]. apply IH, res_new_cells_obj, H. Qed.

Lemma res_fold : forall {A} (f : state -> A -> state),
  (forall st a, Res st -> Res (f st a)) -> forall l st, Res st -> Res (fold_left f l st).
Proof. intros A f Hf l; induction l as [|a t IH]; simpl; intros st H; [exact H|]. apply IH, Hf, H. Qed.

Lemma res_derive_space : forall st T, Res st -> Res (derive_space st T).
Proof. intros st T H. unfold derive_space. apply res_fold_new_cells, H. Qed.

Lemma res_fold_derive : forall l st, Res st -> Res (fold_left derive_space l st).
Proof. induction l as [|T t IH]; simpl; intros st H; [exact H|]. apply IH, res_derive_space, H. Qed.

Lemma res_discard_items : forall st l, Res st -> Res (discard_items st l).
Proof. intros; apply res_purge; assumption. Qed.

Lemma res_ns_change : forall st Ts l, Res st -> Res (ns_change st Ts l).
Proof. intros; unfold ns_change. apply res_discard_items, res_clear_vals; assumption. Qed.

Lemma res_settle : forall st Ts l, Res st -> Res (settle st Ts l).
Proof. intros; unfold settle. apply res_purge, res_clear_vals; assumption. Qed.

Lemma res_clear_derived : forall st Ts, Res st -> Res (clear_derived st Ts).
Proof. intros; apply res_clear_vals; assumption. Qed.

Lemma res_create_derived : forall st l, Res st -> Res (create_derived st l).
Proof. intros; unfold create_derived. apply res_ns_change, res_fold_derive; assumption. Qed.

Lemma res_wipe : forall st, Res st -> Res (wipe st).
Proof. intros; unfold wipe. apply res_discard_items, res_set_vals_nil; assumption. Qed.

(** ---- the operations ---- *)
Lemma get_cont_in : forall st u, get_cont st u = empty_cont \/ In (u, get_cont st u) (st_conts st).
Proof.
  intros st u. unfold get_cont. destruct (lookupN u (st_conts st)) eqn:E; [right|left; reflexivity].
  apply lookupN_In; exact E.
Qed.

Lemma res_bases_alive : forall st s x, Res st -> In x (c_bases (get_cont st s)) -> alive st x = true.
Proof.
  intros st s x [H1 _] Hx. destruct (get_cont_in st s) as [He|Hin].
  - rewrite He in Hx; destruct Hx.
  - destruct (H1 _ _ Hin) as [_ Hy]. apply Hy. unfold cont_uids. rewrite !in_app_iff. tauto.
Qed.

Lemma forallb_alive_dedup : forall st bs x, forallb (alive st) bs = true -> In x (dedupN bs) -> alive st x = true.
Proof. intros st bs x H Hin. apply dedupN_incl in Hin. rewrite forallb_forall in H. exact (H _ Hin). Qed.

Lemma res_step_new_space : forall st p name bs params st' o,
  Res st -> forallb (alive st) bs = true ->
  step_new_space st p name bs params = (st', o) -> Res st'.
Proof.
  intros st p name bs params st' o H Hb. unfold step_new_space.
  destruct (negb (is_kind st KModel p || is_kind st KSpace p)); [intros E; inversion E; subst; exact H|].
  destruct (negb (forallb (is_kind st KSpace) bs)); [intros E; inversion E; subst; exact H|].
  destruct (has_name st p name); [intros E; inversion E; subst; exact H|].
  intros E; inversion E; subst; clear E.
  apply res_push_handle, res_derive_space.
  assert (Res (upd_cont (add_obj (bump st) (st_next st) (mkObj KSpace (p :: chain_of st p) name 0 false)
                                 (Some (mkCont [] [] [] (dedupN bs) params))) p (add_space_entry name (st_next st)))) as H2.
  { apply res_upd_cont.
    - apply res_add_obj; [apply res_bump; exact H|].
      intros c Hc x Hx. inversion Hc; subst c. unfold cont_uids in Hx; cbn in Hx.
      left. exact (forallb_alive_dedup _ _ _ Hb Hx).
    - intros c x Hx. apply cont_uids_add_space in Hx as [Hx|Hx]; [left; exact Hx|right].
      subst x. rewrite alive_add_obj, N.eqb_refl. reflexivity. }
  destruct (is_kind st KSpace p); [apply res_ns_change; exact H2|exact H2].
Qed.

Lemma res_step_new_cells : forall st s name st' o,
  Res st -> step_new_cells st s name = (st', o) -> Res st'.
Proof.
  intros st s name st' o H. unfold step_new_cells.
  destruct (negb (is_kind st KSpace s)); [intros E; inversion E; subst; exact H|].
  destruct (has_name st s name); [intros E; inversion E; subst; exact H|].
  intros E; inversion E; subst; clear E.
  apply res_push_handle, res_ns_change, res_fold; [|apply res_new_cells_obj, H].
  intros st0 a H0. apply res_new_cells_obj, H0.
Qed.

Lemma res_step_take : forall st u name st' o, Res st -> step_take st u name = (st', o) -> Res st'.
Proof.
  intros st u name st' o H. unfold step_take.
  destruct (lookupS name (c_cells (get_cont st u))); [intros E; inversion E; subst; exact H|].
  destruct (lookupS name (c_spaces (get_cont st u))); intros E; inversion E; subst; exact H.
Qed.

Lemma res_copy_one : forall S k acc u, Res (fst acc) -> Res (fst (copy_one S k acc u)).
Proof.
  intros S k [st m] u H. cbn [fst] in H. unfold copy_one.
  destruct (parent_of st u) as [p|]; [|exact H].
  destruct (lookup3 p m) as [[dp path]|]; [|exact H].
  destruct (is_kind st KCells u).
  - cbn [fst]. apply res_upd_cont.
    + apply res_add_obj; [apply res_bump; exact H|]. intros c Hc; discriminate.
    + intros c x Hx. apply cont_uids_add_cell in Hx as [Hx|Hx]; [left; exact Hx|right].
      subst x. rewrite alive_add_obj, N.eqb_refl. reflexivity.
  - destruct (alloc_dyn st (S, k, (path ++ [name_of st u])%list)
                        (mkObj KDSpace (dp :: chain_of st dp) (name_of st u) 0 false)) as [du st1] eqn:Ea.
    cbn [fst]. apply res_upd_cont.
    + apply res_add_obj; [apply res_add_src; exact (res_alloc_dyn _ _ _ _ _ Ea H)|].
      intros c Hc x Hx. inversion Hc; subst c. cbn in Hx. destruct Hx.
    + intros c x Hx. apply cont_uids_add_space in Hx as [Hx|Hx]; [left; exact Hx|right].
      subst x. rewrite alive_add_obj, N.eqb_refl. reflexivity.
Qed.

Lemma res_fold_copy : forall S k l acc, Res (fst acc) -> Res (fst (fold_left (copy_one S k) l acc)).
Proof. intros S k l; induction l as [|u t IH]; simpl; intros acc H; [exact H|]. apply IH, res_copy_one, H. Qed.

Lemma res_new_item : forall st S k, Res st -> Res (fst (new_item st S k)).
Proof.
  intros st S k H. unfold new_item.
  destruct (alloc_dyn st (S, k, []) (mkObj KItem (S :: chain_of st S) EmptyString k false)) as [r st1] eqn:Ea.
  cbn [fst]. apply res_fold_copy. cbn [fst]. apply res_upd_cont.
  - apply res_add_obj; [apply res_add_src; exact (res_alloc_dyn _ _ _ _ _ Ea H)|].
    intros c Hc x Hx. inversion Hc; subst c. cbn in Hx. destruct Hx.
  - intros c x Hx. apply cont_uids_add_item in Hx as [Hx|Hx]; [left; exact Hx|right].
    subst x. rewrite alive_add_obj, N.eqb_refl. reflexivity.
Qed.

Lemma res_step_get_item : forall st s k st' o, Res st -> step_get_item st s k = (st', o) -> Res st'.
Proof.
  intros st s k st' o H. unfold step_get_item.
  destruct (negb (is_kind st KSpace s && c_params (get_cont st s))); [intros E; inversion E; subst; exact H|].
  destruct (lookupZ k (c_items (get_cont st s))); [intros E; inversion E; subst; exact H|].
  pose proof (res_new_item st s k H) as H2. destruct (new_item st s k) as [st1 r].
  intros E; inversion E; subst. exact H2.
Qed.

Lemma res_step_del_cells : forall st s c st' o, Res st -> step_del_cells st s c = (st', o) -> Res st'.
Proof.
  intros st s c st' o H. unfold step_del_cells.
  destruct (negb (is_defined st c)); intros E; inversion E; subst; [exact H|].
  apply res_create_derived, res_settle, res_clear_derived, res_purge, H.
Qed.

Lemma res_step_del_space : forall st p x st' o, Res st -> step_del_space st p x = (st', o) -> Res st'.
Proof.
  intros st p x st' o H. unfold step_del_space. intros E; inversion E; subst.
  apply res_settle, res_clear_derived, res_purge, H.
Qed.

Lemma res_step_del_attr : forall st u name st' o, Res st -> step_del_attr st u name = (st', o) -> Res st'.
Proof.
  intros st u name st' o H. unfold step_del_attr.
  destruct (kind_of st u); try (intros E; inversion E; subst; exact H).
  - destruct (lookupS name (c_spaces (get_cont st u))); [apply res_step_del_space; exact H|].
    destruct (lookupS name (st_globals st)); intros E; inversion E; subst; [|exact H].
    apply res_wipe, res_set_globals, H.
  - destruct (lookupS name (c_cells (get_cont st u))); [apply res_step_del_cells; exact H|].
    destruct (lookupS name (c_spaces (get_cont st u))); [apply res_step_del_space; exact H|].
    intros E; inversion E; subst; exact H.
Qed.

Lemma res_step_add_bases : forall st s bs st' o,
  Res st -> forallb (alive st) bs = true -> step_add_bases st s bs = (st', o) -> Res st'.
Proof.
  intros st s bs st' o H Hb. unfold step_add_bases.
  destruct (negb (is_kind st KSpace s && forallb (is_kind st KSpace) bs)); [intros E; inversion E; subst; exact H|].
  destruct (existsb (fun b => N.eqb b s || memN s (ancs_of st b)) bs); intros E; inversion E; subst; [exact H|].
  apply res_create_derived, res_discard_items, res_clear_derived, res_upd_cont; [exact H|].
  intros c x Hx. apply cont_uids_with_bases in Hx as [Hx|Hx]; [left; exact Hx|].
  apply dedupN_incl in Hx. apply in_app_iff in Hx as [Hx|Hx].
  - right. exact (res_bases_alive _ _ _ H Hx).
  - right. rewrite forallb_forall in Hb. exact (Hb _ Hx).
Qed.

Lemma res_step_remove_bases : forall st s bs st' o, Res st -> step_remove_bases st s bs = (st', o) -> Res st'.
Proof.
  intros st s bs st' o H. unfold step_remove_bases.
  destruct (negb (is_kind st KSpace s)); [intros E; inversion E; subst; exact H|].
  destruct (negb (forallb (fun b => memN b (c_bases (get_cont st s))) bs)); intros E; inversion E; subst; [exact H|].
  apply res_settle, res_clear_derived, res_upd_cont; [exact H|].
  intros c x Hx. apply cont_uids_with_bases in Hx as [Hx|Hx]; [left; exact Hx|].
  apply filter_In in Hx as [Hx _]. right. exact (res_bases_alive _ _ _ H Hx).
Qed.

Lemma res_step_set_params : forall st s b st' o, Res st -> step_set_params st s b = (st', o) -> Res st'.
Proof.
  intros st s b st' o H. unfold step_set_params.
  destruct (negb (is_kind st KSpace s)); intros E; inversion E; subst; [exact H|].
  apply res_upd_cont.
  - apply res_discard_items. exact H.
  - intros c x Hx. left. exact Hx.
Qed.

(** ---- evaluation ---- *)
Lemma res_cells_entry_alive : forall st P n d,
  Res st -> lookupS n (c_cells (get_cont st P)) = Some d -> alive st d = true.
Proof.
  intros st P n d [H1 _] Hl. destruct (get_cont_in st P) as [He|Hin].
  - rewrite He in Hl; discriminate.
  - destruct (H1 _ _ Hin) as [_ Hx]. apply Hx. unfold cont_uids. rewrite in_app_iff. left.
    apply lookupS_In in Hl. exact (In_map_snd _ _ _ Hl).
Qed.

Lemma res_space_entry_alive : forall st P n d,
  Res st -> lookupS n (c_spaces (get_cont st P)) = Some d -> alive st d = true.
Proof.
  intros st P n d [H1 _] Hl. destruct (get_cont_in st P) as [He|Hin].
  - rewrite He in Hl; discriminate.
  - destruct (H1 _ _ Hin) as [_ Hx]. apply Hx. unfold cont_uids. rewrite !in_app_iff. right; left.
    apply lookupS_In in Hl. exact (In_map_snd _ _ _ Hl).
Qed.

Lemma callee_alive : forall st c d, Res st -> callee st c = Some (Some d) -> alive st d = true.
Proof.
  intros st c d H. unfold callee.
  destruct (formula_of st (name_of st c)); [discriminate| |].
  - destruct (parent_of st c) as [P|]; [|discriminate].
    destruct (lookupS n (c_cells (get_cont st P))) eqn:E; [|discriminate].
    intros HH; inversion HH; subst. exact (res_cells_entry_alive _ _ _ _ H E).
  - destruct (lookupS g (st_globals st)) as [s|]; [|discriminate].
    destruct (alive st s); [|discriminate].
    destruct (lookupS n (c_cells (get_cont st s))) eqn:E; [|discriminate].
    intros HH; inversion HH; subst. exact (res_cells_entry_alive _ _ _ _ H E).
Qed.

Lemma res_store : forall st v,
  Res st -> (forall d, In d (v_deps v) -> alive st d = true) -> In (v_cells v) (v_deps v) ->
  (forall r, In r (v_reads v) -> In (fst r) (v_deps v)) -> Res (store st v).
Proof.
  intros st v [H1 H2] Hd Hc Hr. split; [exact H1|].
  intros w Hin. cbn in Hin. apply in_app_iff in Hin as [Hin|[Hin|[]]]; [exact (H2 _ Hin)|subst w].
  split; [exact Hd|split; assumption].
Qed.

Lemma find_val_spec : forall st c x v, find_val st c x = Some v -> In v (st_vals st) /\ v_cells v = c.
Proof.
  intros st c x v H. unfold find_val in H. apply find_some in H as [Hin Hb].
  apply andb_true_iff in Hb as [Hb _]. apply N.eqb_eq in Hb. split; assumption.
Qed.

Lemma res_eval : forall fuel st c x st1 z deps,
  Res st -> alive st c = true -> eval fuel st c x = EOk st1 z deps ->
  Res st1 /\ st_alive st1 = st_alive st /\ st_conts st1 = st_conts st /\ st_objs st1 = st_objs st
  /\ (forall d, In d deps -> alive st d = true) /\ In c deps.
Proof.
  induction fuel as [|f IH]; intros st c x st1 z deps HR Hc; simpl; [discriminate|].
  destruct (find_val st c x) as [v|] eqn:Ef.
  - intros E; inversion E; subst st1 z deps; clear E. apply find_val_spec in Ef as [Hin Hvc].
    destruct (proj2 HR _ Hin) as [Hd [Hcd _]].
    split; [exact HR|]. split; [reflexivity|]. split; [reflexivity|]. split; [reflexivity|].
    split; [exact Hd|]. rewrite <- Hvc. exact Hcd.
  - destruct (callee st c) as [[d|]|] eqn:Ec; [| |discriminate].
    + destruct (eval f st d x) as [st2 z2 deps2| |] eqn:Ee; [|discriminate|discriminate].
      intros E; inversion E; subst; clear E.
      pose proof (callee_alive _ _ _ HR Ec) as Hd.
      destruct (IH _ _ _ _ _ _ HR Hd Ee) as [HR2 [Ha [Hco [Hob [Hdeps Hdin]]]]].
      assert (forall y, alive st2 y = alive st y) as Hal by (intros y; unfold alive; rewrite Ha; reflexivity).
      split; [|repeat split; try assumption].
      * apply res_store; [exact HR2| | |].
        -- cbn. intros y [Hy|Hy]; [subst y; rewrite Hal; exact Hc|rewrite Hal; exact (Hdeps _ Hy)].
        -- cbn. left; reflexivity.
        -- cbn. intros r [Hr|[]]. subst r. cbn. right; exact Hdin.
      * intros y [Hy|Hy]; [subst y; exact Hc|exact (Hdeps _ Hy)].
      * left; reflexivity.
    + intros E; inversion E; subst; clear E.
      split; [|repeat split; try reflexivity].
      * apply res_store; [exact HR| | |]; cbn.
        -- intros y [Hy|[]]; subst y; exact Hc.
        -- left; reflexivity.
        -- intros r [].
      * intros y [Hy|[]]; subst y; exact Hc.
      * left; reflexivity.
Qed.

Lemma res_step_eval : forall st c x st' o, Res st -> alive st c = true -> step_eval st c x = (st', o) -> Res st'.
Proof.
  intros st c x st' o H Hc. unfold step_eval.
  destruct (negb (is_kind st KCells c || is_kind st KDCells c)); [intros E; inversion E; subst; exact H|].
  destruct (eval (eval_fuel st) st c x) as [st1 z deps| |] eqn:Ee; intros E; inversion E; subst; try exact H.
  exact (proj1 (res_eval _ _ _ _ _ _ _ H Hc Ee)).
Qed.

Lemma res_step_bind_global : forall st name s st' o, Res st -> step_bind_global st name s = (st', o) -> Res st'.
Proof.
  intros st name s st' o H. unfold step_bind_global.
  destruct (negb (is_kind st KSpace s)); [intros E; inversion E; subst; exact H|].
  destruct (has_name st 0%N name); intros E; inversion E; subst; [exact H|].
  apply res_wipe, res_set_globals, H.
Qed.

Theorem res_step : forall st o, Res st -> Res (fst (step st o)).
Proof.
  intros st o H. unfold step.
  destruct (op_handles o) as [h hb].
  destruct (handle st h) as [u|]; [|exact H].
  destruct (handles st hb) as [bs|]; [|exact H].
  destruct (alive st u && forallb (alive st) bs) eqn:Eal; cbn [negb]; [|exact H].
  apply andb_true_iff in Eal as [Hu Hb].
  destruct o.
  - destruct (step_new_space st u name bs params) as [st' o'] eqn:E. exact (res_step_new_space _ _ _ _ _ _ _ H Hb E).
  - destruct (step_new_cells st u name) as [st' o'] eqn:E. exact (res_step_new_cells _ _ _ _ _ H E).
  - destruct (step_take st u name) as [st' o'] eqn:E. exact (res_step_take _ _ _ _ _ H E).
  - destruct (step_get_item st u k) as [st' o'] eqn:E. exact (res_step_get_item _ _ _ _ _ H E).
  - destruct (step_del_attr st u name) as [st' o'] eqn:E. exact (res_step_del_attr _ _ _ _ _ H E).
  - destruct (step_add_bases st u bs) as [st' o'] eqn:E. exact (res_step_add_bases _ _ _ _ _ H Hb E).
  - destruct (step_remove_bases st u bs) as [st' o'] eqn:E. exact (res_step_remove_bases _ _ _ _ _ H E).
  - destruct (step_set_params st u b) as [st' o'] eqn:E. exact (res_step_set_params _ _ _ _ _ H E).
  - destruct (is_kind st KSpace u); cbn [fst]; [apply res_discard_items|]; exact H.
  - destruct (is_kind st KSpace u); cbn [fst]; [|exact H].
    destruct (lookupZ k (c_items (get_cont st u))); cbn [fst]; [apply res_discard_items|]; exact H.
  - destruct (step_eval st u x) as [st' o'] eqn:E. exact (res_step_eval _ _ _ _ _ H Hu E).
  - destruct bs as [|s t]; [exact H|].
    destruct (step_bind_global st name s) as [st' o'] eqn:E. exact (res_step_bind_global _ _ _ _ _ H E).
Qed.

Lemma res_init : forall ft, Res (init ft).
Proof.
  intros ft. split.
  - intros u c [Hin|[]]. inversion Hin; subst. split; [reflexivity|]. intros x [].
  - intros v [].
Qed.

Lemma res_run_from : forall ops st, Res st -> Res (run_from st ops).
Proof.
  induction ops as [|o t IH]; intros st H; [exact H|]. cbn. apply IH, res_step, H.
Qed.

(** C13_no_residue, for every history *)
Theorem no_residue : forall ft ops, Res (run ft ops).
Proof. intros. apply res_run_from, res_init. Qed.
