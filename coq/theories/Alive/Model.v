(** Alive layer - object life time: which interface handles are alive, what
    the containers, base lists, value store and dependency listings mention.
    Code modelled (read line by line):
      core/base.py:192-193,296-311,599-600  Impl.on_delete / NullImpl / set_null_impl / _is_valid
      core/space.py:1244-1260    del_all_itemspaces / clear_itemspace_at / _del_itemspace
      core/space.py:1262-1330    get_itemspace / on_eval_formula (dynamic_cache: a surviving
                                 interface is re-attached to a re-created instance of the same key)
      core/space.py:1547-1553    BaseSpaceImpl.on_delete        (its ItemSpaces, its cells with their values)
      core/space.py:1556-1583    DynamicBase.on_namespace_change / clear_subs_rootitems / on_delete
      core/space.py:1775-1791    UserSpaceImpl.del_attr
      core/space.py:1846-1902    on_inherit (ends with DynamicBase.on_namespace_change) / on_del_cells
      core/space.py:1980-2081,2129-2163  DynamicSpaceImpl / ItemSpaceImpl construction and on_delete
      core/parent.py:953-956     EditableParentImpl.on_del_space
      core/model.py:57-140,761-781   TraceGraph / clear_with_descs / clear_obj
      core/model.py:989-996      ModelImpl.del_attr
      core/model.py:1351-1399    SpaceManager.del_cells / new_cells
      core/model.py:1559-1801    SpaceUpdater.new_space / add_bases / remove_bases / del_defined_space
      core/cells.py:682-688,715-720,831-844  on_namespace_change / on_inherit / clearing
    (line numbers: /repo at 4f69f1f)

    IDEAL model (harness/README.md).  Every object ever created has a unique
    [uid]; a handle is a uid.  A deletion computes the set K of objects that
    have to die - the deleted object, everything contained in it, every derived
    cells left without a definer, every ItemSpace (with its contents) built
    from a space whose members changed or that was re-inherited - and [purge]s K: K leaves the set of
    live objects, every container, every base list and the value store (a value
    records the cells it was computed from, transitively: [v_deps]).
    Where the pinned tree deviates (C13a, C13e, D3 in findings.d/C13.txt) the model
    does what the code does in all the non-defective cases (D14, C13b, C13c were
    repaired in /repo: 9ebab50, 76f1b96 - a namespace change of a space discards
    every ItemSpace that holds a dynamic copy of it; 2a94503 - so does the
    deletion of the space; a66156d - and so does EVERY re-inheritance pass
    [on_inherit] over a space, whether or not its members change and whether or
    not its lazy namespace had been evaluated: [inherit_roots]).

    Vocabulary kept out on purpose: references other than model-level
    references to spaces, renaming, input values, uncached cells,
    ItemSpaces of dynamic spaces, the [base]/[refs] results of parameter
    formulas, several formulas for one cells name (the formula of a cells is
    a function of its name: [st_ftab]), C3 order (the existence of a derived
    member depends on the set of ancestors only).  Definitions only. *)
From Coq Require Import List String Bool Arith ZArith NArith.
Import ListNotations.

Definition uid := N.

Inductive kind : Type := KModel | KSpace | KCells | KItem | KDSpace | KDCells.

Definition kind_eqb (a b : kind) : bool :=
  match a, b with
  | KModel, KModel | KSpace, KSpace | KCells, KCells
  | KItem, KItem | KDSpace, KDSpace | KDCells, KDCells => true
  | _, _ => false
  end.

(** [o_chain]: the containing objects, nearest first, the model (uid 0) last;
    an object never moves.  [o_key]: the argument of an ItemSpace. *)
Record obj : Type := mkObj {
  o_kind : kind; o_chain : list uid; o_name : string; o_key : Z; o_derived : bool }.

(** the containers of a space-like object (model, space, ItemSpace, dynamic space) *)
Record cont : Type := mkCont {
  c_cells : list (string * uid);
  c_spaces : list (string * uid);
  c_items : list (Z * uid);
  c_bases : list uid;          (* direct bases *)
  c_params : bool }.           (* has a parameter formula *)

(** formulas ([lambda x: ...]); the callee gets the same argument *)
Inductive formula : Type :=
| FConst (z : Z)               (* z *)
| FSib (n : string)            (* n(x) + 1 : a cells of the same space *)
| FDot (g n : string).         (* g.n(x) + 1 : g a model-level reference to a space *)

(** a stored value: [v_reads] = the direct precedents ([cells.preds]),
    [v_deps] = every cells it was computed from, itself included *)
Record vrec : Type := mkV {
  v_cells : uid; v_arg : Z; v_val : Z; v_reads : list (uid * Z); v_deps : list uid }.

Definition dkey : Type := (uid * Z * list string)%type.

Record state : Type := mkState {
  st_objs : list (uid * obj);        (* every object ever created, creation order *)
  st_alive : list uid;
  st_conts : list (uid * cont);
  st_vals : list vrec;
  st_globals : list (string * uid);
  st_cache : list (dkey * uid);      (* dynamic_cache: interface reuse *)
  st_src : list (uid * uid);         (* dynamic space -> the static space it copies (latest first) *)
  st_next : N;
  st_handles : list uid;             (* the handles the harness holds, by index *)
  st_ftab : list (string * formula) }.

(** ---- association lists ---- *)
Fixpoint memN (x : N) (l : list N) : bool :=
  match l with [] => false | y :: t => N.eqb x y || memN x t end.

Fixpoint lookupN {A} (x : N) (l : list (N * A)) : option A :=
  match l with [] => None | (k, v) :: t => if N.eqb k x then Some v else lookupN x t end.

Fixpoint lookupS {A} (x : string) (l : list (string * A)) : option A :=
  match l with [] => None | (k, v) :: t => if String.eqb k x then Some v else lookupS x t end.

Fixpoint lookupZ {A} (x : Z) (l : list (Z * A)) : option A :=
  match l with [] => None | (k, v) :: t => if Z.eqb k x then Some v else lookupZ x t end.

Fixpoint memS (x : string) (l : list string) : bool :=
  match l with [] => false | y :: t => String.eqb x y || memS x t end.

Fixpoint strs_eqb (a b : list string) : bool :=
  match a, b with
  | [], [] => true
  | x :: a', y :: b' => String.eqb x y && strs_eqb a' b'
  | _, _ => false
  end.

Fixpoint uids_eqb (a b : list N) : bool :=
  match a, b with
  | [], [] => true
  | x :: a', y :: b' => N.eqb x y && uids_eqb a' b'
  | _, _ => false
  end.

Definition dkey_eqb (a b : dkey) : bool :=
  match a, b with
  | (s1, k1, p1), (s2, k2, p2) => N.eqb s1 s2 && Z.eqb k1 k2 && strs_eqb p1 p2
  end.

Fixpoint lookupD (x : dkey) (l : list (dkey * uid)) : option uid :=
  match l with [] => None | (k, v) :: t => if dkey_eqb k x then Some v else lookupD x t end.

Fixpoint dedupS (l : list string) : list string :=
  match l with [] => [] | x :: t => if memS x t then dedupS t else x :: dedupS t end.

Fixpoint dedupN (l : list N) : list N :=
  match l with [] => [] | x :: t => if memN x t then dedupN t else x :: dedupN t end.

(** ---- reading the state ---- *)
Definition empty_cont : cont := mkCont [] [] [] [] false.

Definition init (ft : list (string * formula)) : state :=
  mkState [(0%N, mkObj KModel [] "" 0 false)] [0%N] [(0%N, empty_cont)] [] [] [] [] 1%N [0%N] ft.

Definition alive (st : state) (u : uid) : bool := memN u (st_alive st).
Definition get_obj (st : state) (u : uid) : option obj := lookupN u (st_objs st).
Definition get_cont (st : state) (u : uid) : cont :=
  match lookupN u (st_conts st) with Some c => c | None => empty_cont end.
Definition kind_of (st : state) (u : uid) : kind :=
  match get_obj st u with Some o => o_kind o | None => KModel end.
Definition chain_of (st : state) (u : uid) : list uid :=
  match get_obj st u with Some o => o_chain o | None => [] end.
Definition name_of (st : state) (u : uid) : string :=
  match get_obj st u with Some o => o_name o | None => EmptyString end.
Definition parent_of (st : state) (u : uid) : option uid := hd_error (chain_of st u).
Definition is_kind (st : state) (k : kind) (u : uid) : bool := kind_eqb (kind_of st u) k.
Definition is_derived (st : state) (u : uid) : bool :=
  match get_obj st u with Some o => kind_eqb (o_kind o) KCells && o_derived o | None => false end.
Definition is_defined (st : state) (u : uid) : bool :=
  match get_obj st u with Some o => kind_eqb (o_kind o) KCells && negb (o_derived o) | None => false end.
Definition handle (st : state) (h : nat) : option uid := nth_error (st_handles st) h.
Definition cells_of (st : state) (T : uid) : list uid := map snd (c_cells (get_cont st T)).
Definition items_of (st : state) (T : uid) : list uid := map snd (c_items (get_cont st T)).
Definition formula_of (st : state) (n : string) : formula :=
  match lookupS n (st_ftab st) with Some f => f | None => FConst 0 end.

(** ---- setters ---- *)
Definition set_alive (st : state) (a : list uid) : state :=
  mkState (st_objs st) a (st_conts st) (st_vals st) (st_globals st) (st_cache st) (st_src st) (st_next st) (st_handles st) (st_ftab st).
Definition set_conts (st : state) (c : list (uid * cont)) : state :=
  mkState (st_objs st) (st_alive st) c (st_vals st) (st_globals st) (st_cache st) (st_src st) (st_next st) (st_handles st) (st_ftab st).
Definition set_vals (st : state) (v : list vrec) : state :=
  mkState (st_objs st) (st_alive st) (st_conts st) v (st_globals st) (st_cache st) (st_src st) (st_next st) (st_handles st) (st_ftab st).
Definition set_globals (st : state) (g : list (string * uid)) : state :=
  mkState (st_objs st) (st_alive st) (st_conts st) (st_vals st) g (st_cache st) (st_src st) (st_next st) (st_handles st) (st_ftab st).
Definition push_handle (st : state) (u : uid) : state :=
  mkState (st_objs st) (st_alive st) (st_conts st) (st_vals st) (st_globals st) (st_cache st) (st_src st) (st_next st)
          (st_handles st ++ [u]) (st_ftab st).

Definition upd_cont (st : state) (u : uid) (f : cont -> cont) : state :=
  set_conts st (map (fun e => if N.eqb (fst e) u then (fst e, f (snd e)) else e) (st_conts st)).

Definition add_cell_entry (n : string) (c : uid) (k : cont) : cont :=
  mkCont (c_cells k ++ [(n, c)]) (c_spaces k) (c_items k) (c_bases k) (c_params k).
Definition add_space_entry (n : string) (s : uid) (k : cont) : cont :=
  mkCont (c_cells k) (c_spaces k ++ [(n, s)]) (c_items k) (c_bases k) (c_params k).
Definition add_item_entry (z : Z) (s : uid) (k : cont) : cont :=
  mkCont (c_cells k) (c_spaces k) (c_items k ++ [(z, s)]) (c_bases k) (c_params k).
Definition with_bases (bs : list uid) (k : cont) : cont :=
  mkCont (c_cells k) (c_spaces k) (c_items k) bs (c_params k).
Definition with_params (b : bool) (k : cont) : cont :=
  mkCont (c_cells k) (c_spaces k) (c_items k) (c_bases k) b.

(** a new live object [u]; when the uid is re-used (a dynamic space whose
    interface survived) the stored entry is kept - [alloc_dyn] re-uses a uid
    only for the very same object; space-like objects get a container *)
Definition add_obj (st : state) (u : uid) (o : obj) (k : option cont) : state :=
  mkState (match lookupN u (st_objs st) with Some _ => st_objs st | None => st_objs st ++ [(u, o)] end)
          (u :: st_alive st)
          (match k with Some c => (u, c) :: st_conts st | None => st_conts st end)
          (st_vals st) (st_globals st) (st_cache st) (st_src st) (st_next st) (st_handles st) (st_ftab st).

Definition bump (st : state) : state :=
  mkState (st_objs st) (st_alive st) (st_conts st) (st_vals st) (st_globals st) (st_cache st) (st_src st)
          (N.succ (st_next st)) (st_handles st) (st_ftab st).

Definition add_src (st : state) (d s : uid) : state :=
  mkState (st_objs st) (st_alive st) (st_conts st) (st_vals st) (st_globals st) (st_cache st)
          ((d, s) :: st_src st) (st_next st) (st_handles st) (st_ftab st).

Definition obj_eqb (a b : obj) : bool :=
  kind_eqb (o_kind a) (o_kind b) && uids_eqb (o_chain a) (o_chain b) && String.eqb (o_name a) (o_name b)
  && Z.eqb (o_key a) (o_key b) && Bool.eqb (o_derived a) (o_derived b).

(** uid of the dynamic space [o] with dynamic key [k]: the cached one (the
    interface object is re-attached, [dynamic_cache]) or a fresh one *)
Definition alloc_dyn (st : state) (k : dkey) (o : obj) : uid * state :=
  let fresh :=
    (st_next st,
     mkState (st_objs st) (st_alive st) (st_conts st) (st_vals st) (st_globals st)
             ((k, st_next st) :: st_cache st) (st_src st) (N.succ (st_next st)) (st_handles st) (st_ftab st)) in
  match lookupD k (st_cache st) with
  | Some u => match get_obj st u with
              | Some o' => if obj_eqb o' o && negb (alive st u) then (u, st) else fresh
              | None => fresh
              end
  | None => fresh
  end.

(** ---- removal ---- *)
Definition purge_cont (K : list uid) (c : cont) : cont :=
  mkCont (filter (fun e => negb (memN (snd e) K)) (c_cells c))
         (filter (fun e => negb (memN (snd e) K)) (c_spaces c))
         (filter (fun e => negb (memN (snd e) K)) (c_items c))
         (filter (fun b => negb (memN b K)) (c_bases c))
         (c_params c).

Definition val_touches (K : list uid) (v : vrec) : bool := existsb (fun d => memN d K) (v_deps v).

(** the objects of K die and disappear from every container, base list and
    from the value store, together with every value computed from one of them *)
Definition purge (K : list uid) (st : state) : state :=
  mkState (st_objs st)
          (filter (fun u => negb (memN u K)) (st_alive st))
          (map (fun e => (fst e, purge_cont K (snd e)))
               (filter (fun e => negb (memN (fst e) K)) (st_conts st)))
          (filter (fun v => negb (val_touches K v)) (st_vals st))
          (st_globals st) (st_cache st) (st_src st) (st_next st) (st_handles st) (st_ftab st).

(** [clear_obj] / [clear_all_values]: the values of the cells in C and
    everything computed from them; nothing dies *)
Definition clear_vals (C : list uid) (st : state) : state :=
  set_vals st (filter (fun v => negb (val_touches C v)) (st_vals st)).

(** the live objects that are in [seeds] or contained in one of them *)
Definition under_set (st : state) (seeds : list uid) : list uid :=
  filter (fun u => existsb (fun a => memN a seeds) (u :: chain_of st u)) (st_alive st).

(** ---- inheritance ---- *)
Fixpoint ancs (fuel : nat) (st : state) (T : uid) : list uid :=
  match fuel with
  | O => []
  | S f => flat_map (fun b => b :: ancs f st b) (c_bases (get_cont st T))
  end.

(** proper ancestors (with repetitions); fuel = number of uids handed out so
    far (more than the number of spaces: enough on an acyclic graph) *)
Definition ancs_of (st : state) (T : uid) : list uid := ancs (N.to_nat (st_next st)) st T.

Definition live_spaces (st : state) : list uid := filter (is_kind st KSpace) (st_alive st).

(** [_get_subs]: the spaces that have S among their ancestors *)
Definition subs_of (st : state) (S : uid) : list uid :=
  filter (fun T => memN S (ancs_of st T)) (live_spaces st).

Definition defines (st : state) (A : uid) (n : string) : bool :=
  match lookupS n (c_cells (get_cont st A)) with
  | Some c => alive st c && is_defined st c
  | None => false
  end.

Definition has_definer (st : state) (T : uid) (n : string) : bool :=
  existsb (fun A => defines st A n) (ancs_of st T).

(** derived cells whose space has no ancestor that defines the name *)
Definition orphans (st : state) : list uid :=
  filter (fun d => is_derived st d &&
                   match parent_of st d with
                   | Some T => negb (has_definer st T (name_of st d))
                   | None => true
                   end) (st_alive st).

Definition parents_of (st : state) (l : list uid) : list uid :=
  flat_map (fun d => match parent_of st d with Some T => [T] | None => [] end) l.

(** names defined along the ancestors of T *)
Definition avail (st : state) (T : uid) : list string :=
  dedupS (flat_map (fun A => filter (defines st A) (map fst (c_cells (get_cont st A)))) (ancs_of st T)).

Definition missing (st : state) (T : uid) : list string :=
  filter (fun n => match lookupS n (c_cells (get_cont st T)) with Some _ => false | None => true end)
         (avail st T).

Definition new_cells_obj (st : state) (T : uid) (n : string) (derived : bool) : state :=
  let u := st_next st in
  upd_cont (add_obj (bump st) u (mkObj KCells (T :: chain_of st T) n 0 derived) None)
           T (add_cell_entry n u).

(** [on_inherit] (creation part): one derived cells per missing name *)
Definition derive_space (st : state) (T : uid) : state :=
  fold_left (fun s n => new_cells_obj s T n true) (missing st T) st.

(** the given ItemSpaces with their contents *)
Definition item_set (st : state) (items : list uid) : list uid :=
  under_set st (filter (is_kind st KItem) items).

Definition discard_items (st : state) (items : list uid) : state := purge (item_set st items) st.

(** [_dynamic_subs] of T, as roots: the ItemSpaces that hold a live dynamic
    copy of T (the ItemSpaces of T itself are among them) *)
Definition root_of (st : state) (d : uid) : list uid :=
  match find (is_kind st KItem) (d :: chain_of st d) with Some r => [r] | None => [] end.

Definition dyn_roots (st : state) (T : uid) : list uid :=
  flat_map (fun d => if (is_kind st KItem d || is_kind st KDSpace d)
                        && match lookupN d (st_src st) with Some s => N.eqb s T | None => false end
                     then root_of st d else []) (st_alive st).

(** [UserSpaceImpl.on_inherit] ends with [DynamicBase.on_namespace_change]
    (a66156d): every space a re-inheritance pass visits - the edited space and
    its sub spaces, after add_bases / remove_bases / del of a cells / del of a
    base space - loses its own ItemSpaces and every ItemSpace that holds a copy
    of it, unconditionally.  Computed on the state before the pass. *)
Definition inherit_roots (st : state) (visited : list uid) : list uid :=
  flat_map (dyn_roots st) visited.

(** the namespace of the spaces in Ts changed because members were created:
    their cells lose their values; the given ItemSpaces are discarded *)
Definition ns_change (st : state) (Ts items : list uid) : state :=
  discard_items (clear_vals (flat_map (cells_of st) Ts) st) items.

(** after a structural deletion: derived cells without definer die.  The
    spaces in [Ts] (they lost a member) and the parents of those derived cells
    lose their values; discarded are: the ItemSpaces in [items] and every
    ItemSpace that holds a copy of a space whose members changed
    ([DynamicBase.on_namespace_change]: [clear_subs_rootitems]) *)
Definition settle (st : state) (Ts items : list uid) : state :=
  let Kd := orphans st in
  let Tp := parents_of st Kd in
  let st1 := clear_vals (flat_map (cells_of st) (Ts ++ Tp)) st in
  purge (under_set st1 (Kd ++ filter (is_kind st1 KItem)
                                    (items ++ flat_map (dyn_roots st1) Ts ++ flat_map (dyn_roots st1) Tp)))%list st1.

(** [cells.on_inherit] of the derived cells of the visited spaces: [clear_obj] *)
Definition clear_derived (st : state) (Ts : list uid) : state :=
  clear_vals (flat_map (fun T => filter (is_derived st) (cells_of st T)) Ts) st.

(** ---- ItemSpaces ---- *)
Definition static_under (st : state) (S : uid) : list uid :=
  filter (fun u => alive st u && memN S (chain_of st u) &&
                   (is_kind st KSpace u || is_kind st KCells u)) (map fst (st_objs st)).

Fixpoint lookup3 (x : uid) (m : list (uid * (uid * list string))) : option (uid * list string) :=
  match m with [] => None | (k, v) :: t => if N.eqb k x then Some v else lookup3 x t end.

(** copy one static object under S into the instance ([_init_cells],
    [_init_child_spaces]); [m] maps copied static spaces to their copies *)
Definition copy_one (S : uid) (k : Z) (acc : state * list (uid * (uid * list string))) (u : uid)
  : state * list (uid * (uid * list string)) :=
  let '(st, m) := acc in
  match parent_of st u with
  | None => acc
  | Some p =>
      match lookup3 p m with
      | None => acc
      | Some (dp, path) =>
          if is_kind st KCells u then
            let du := st_next st in
            (upd_cont (add_obj (bump st) du (mkObj KDCells (dp :: chain_of st dp) (name_of st u) 0 true) None)
                      dp (add_cell_entry (name_of st u) du), m)
          else
            let path' := (path ++ [name_of st u])%list in
            let o := mkObj KDSpace (dp :: chain_of st dp) (name_of st u) 0 false in
            let '(du, st1) := alloc_dyn st (S, k, path') o in
            (upd_cont (add_obj (add_src st1 du u) du o
                               (Some (with_params (c_params (get_cont st u)) empty_cont)))
                      dp (add_space_entry (name_of st u) du),
             ((u, (du, path')) :: m)%list)
      end
  end.

Definition new_item (st : state) (S : uid) (k : Z) : state * uid :=
  let o := mkObj KItem (S :: chain_of st S) EmptyString k false in
  let '(r, st1) := alloc_dyn st (S, k, []) o in
  let st2 := upd_cont (add_obj (add_src st1 r S) r o
                               (Some (with_params (c_params (get_cont st S)) empty_cont)))
                      S (add_item_entry k r) in
  (fst (fold_left (copy_one S k) (static_under st S) (st2, [(S, (r, []))])), r).

(** ---- evaluation ---- *)
Inductive eres : Type :=
| EOk (st : state) (z : Z) (deps : list uid)
| EFail                      (* the formula raises: nothing is stored *)
| EFuel.

Definition find_val (st : state) (c : uid) (x : Z) : option vrec :=
  find (fun v => N.eqb (v_cells v) c && Z.eqb (v_arg v) x) (st_vals st).

Definition store (st : state) (v : vrec) : state := set_vals st (st_vals st ++ [v]).

(** the callee named by the formula of cells c, resolved in c's own space *)
Definition callee (st : state) (c : uid) : option (option uid) :=
  match formula_of st (name_of st c) with
  | FConst _ => Some None
  | FSib n =>
      match parent_of st c with
      | Some P => match lookupS n (c_cells (get_cont st P)) with Some d => Some (Some d) | None => None end
      | None => None
      end
  | FDot g n =>
      match lookupS g (st_globals st) with
      | Some s => if alive st s
                  then match lookupS n (c_cells (get_cont st s)) with Some d => Some (Some d) | None => None end
                  else None
      | None => None
      end
  end.

Fixpoint eval (fuel : nat) (st : state) (c : uid) (x : Z) : eres :=
  match fuel with
  | O => EFuel
  | S f =>
      match find_val st c x with
      | Some v => EOk st (v_val v) (v_deps v)
      | None =>
          match callee st c with
          | None => EFail
          | Some None =>
              let z := match formula_of st (name_of st c) with FConst z => z | _ => 0%Z end in
              EOk (store st (mkV c x z [] [c])) z [c]
          | Some (Some d) =>
              match eval f st d x with
              | EOk st1 z deps =>
                  EOk (store st1 (mkV c x (z + 1) [(d, x)] (c :: deps))) (z + 1)%Z (c :: deps)
              | EFail => EFail
              | EFuel => EFuel
              end
          end
      end
  end.

(** ---- operations (objects are named by handle index) ---- *)
Inductive op : Type :=
| NewSpace (hp : nat) (name : string) (hbases : list nat) (params : bool)
| NewCells (hs : nat) (name : string)
| Take (h : nat) (name : string)          (* h.cells[name] / h.spaces[name] *)
| GetItem (h : nat) (k : Z)               (* h[k] *)
| DelAttr (h : nat) (name : string)       (* del h.name *)
| AddBases (h : nat) (hb : list nat)
| RemoveBases (h : nat) (hb : list nat)
| SetParams (h : nat) (b : bool)          (* h.formula = lambda i: None / del h.formula *)
| ClearItems (h : nat)                    (* h.clear_items() *)
| DelItem (h : nat) (k : Z)               (* del h[k] *)
| Eval (h : nat) (x : Z)                  (* h(x) *)
| BindGlobal (name : string) (h : nat).   (* model.name = h *)

Inductive out : Type :=
| ODone
| OVal (z : Z)
| ODeleted        (* DeletedObjectError: the state is unchanged *)
| OFormulaErr     (* the formula raised *)
| ORejected       (* any other refusal: the state is unchanged *)
| OFuel.

Fixpoint handles (st : state) (hs : list nat) : option (list uid) :=
  match hs with
  | [] => Some []
  | h :: t => match handle st h, handles st t with
              | Some u, Some l => Some (u :: l)
              | _, _ => None
              end
  end.

Definition has_name (st : state) (p : uid) (n : string) : bool :=
  match lookupS n (c_cells (get_cont st p)), lookupS n (c_spaces (get_cont st p)) with
  | None, None => match kind_of st p with
                  | KModel => match lookupS n (st_globals st) with Some _ => true | None => false end
                  | _ => false
                  end
  | _, _ => true
  end.

Definition all_items (st : state) : list uid := flat_map (items_of st) (st_alive st).

(** a model-level reference changes: every namespace changes *)
Definition wipe (st : state) : state :=
  discard_items (set_vals st []) (all_items st).

Definition step_new_space (st : state) (p : uid) (name : string) (bs : list uid) (params : bool)
  : state * out :=
  if negb (is_kind st KModel p || is_kind st KSpace p) then (st, ORejected)
  else if negb (forallb (is_kind st KSpace) bs) then (st, ORejected)
  else if has_name st p name then (st, ORejected)
  else
    let u := st_next st in
    let st1 := add_obj (bump st) u (mkObj KSpace (p :: chain_of st p) name 0 false)
                       (Some (mkCont [] [] [] (dedupN bs) params)) in
    let st2 := upd_cont st1 p (add_space_entry name u) in
    let st3 := if is_kind st KSpace p then ns_change st2 [p] (dyn_roots st2 p) else st2 in
    (push_handle (derive_space st3 u) u, ODone).

Definition step_new_cells (st : state) (s : uid) (name : string) : state * out :=
  if negb (is_kind st KSpace s) then (st, ORejected)
  else if has_name st s name then (st, ORejected)
  else
    let c := st_next st in
    let st1 := new_cells_obj st s name false in
    (* the sub spaces that do not have the name yet get a derived copy *)
    let targets := filter (fun T => match lookupS name (c_cells (get_cont st T)) with
                                    | Some _ => false | None => true end
                                    && has_definer st1 T name) (subs_of st s) in
    let st2 := fold_left (fun a T => new_cells_obj a T name true) targets st1 in
    let Ts := s :: targets in
    (push_handle (ns_change st2 Ts (flat_map (dyn_roots st2) Ts)) c, ODone).

Definition step_take (st : state) (o : uid) (name : string) : state * out :=
  match lookupS name (c_cells (get_cont st o)) with
  | Some c => (push_handle st c, ODone)
  | None => match lookupS name (c_spaces (get_cont st o)) with
            | Some s => (push_handle st s, ODone)
            | None => (st, ORejected)
            end
  end.

Definition step_get_item (st : state) (s : uid) (k : Z) : state * out :=
  if negb (is_kind st KSpace s && c_params (get_cont st s)) then (st, ORejected)
  else match lookupZ k (c_items (get_cont st s)) with
       | Some r => (push_handle st r, ODone)
       | None => let '(st1, r) := new_item st s k in (push_handle st1 r, ODone)
       end.

(** [on_inherit] (creation part) over the visited spaces; the spaces that get
    new members have their namespace changed (their cells lose their values;
    the ItemSpaces that held copies of the visited spaces were discarded by
    the caller: [inherit_roots]) *)
Definition create_derived (st : state) (visited : list uid) : state :=
  let changed := filter (fun T => match missing st T with [] => false | _ => true end) visited in
  let st1 := fold_left derive_space visited st in
  ns_change st1 changed [].

Definition step_del_cells (st : state) (s c : uid) : state * out :=
  if negb (is_defined st c) then (st, ORejected)     (* "cannot delete derived" *)
  else
    let visited := s :: subs_of st s in
    let st1 := clear_derived (purge (under_set st [c]) st) visited in
    (create_derived (settle st1 [s] (inherit_roots st visited)) visited, ODone).

Definition step_del_space (st : state) (p x : uid) : state * out :=
  let K0 := under_set st [x] in
  let visited := flat_map (subs_of st) (filter (is_kind st KSpace) K0) in
  let st1 := clear_derived (purge K0 st) visited in
  (settle st1 (if is_kind st KSpace p then [p] else []) (dyn_roots st x ++ inherit_roots st visited)%list, ODone).

Definition step_del_attr (st : state) (o : uid) (name : string) : state * out :=
  match kind_of st o with
  | KModel =>
      match lookupS name (c_spaces (get_cont st o)) with
      | Some x => step_del_space st o x
      | None =>
          match lookupS name (st_globals st) with
          | Some _ => (wipe (set_globals st (filter (fun e => negb (String.eqb (fst e) name)) (st_globals st))), ODone)
          | None => (st, ORejected)
          end
      end
  | KSpace =>
      match lookupS name (c_cells (get_cont st o)) with
      | Some c => step_del_cells st o c
      | None =>
          match lookupS name (c_spaces (get_cont st o)) with
          | Some x => step_del_space st o x
          | None => (st, ORejected)
          end
      end
  | _ => (st, ORejected)
  end.

Definition step_add_bases (st : state) (s : uid) (bs : list uid) : state * out :=
  if negb (is_kind st KSpace s && forallb (is_kind st KSpace) bs) then (st, ORejected)
  else if existsb (fun b => N.eqb b s || memN s (ancs_of st b)) bs then (st, ORejected)
  else
    let st1 := upd_cont st s (with_bases (dedupN (c_bases (get_cont st s) ++ bs))) in
    let visited := s :: subs_of st1 s in
    (create_derived (discard_items (clear_derived st1 visited) (inherit_roots st visited)) visited, ODone).

Definition step_remove_bases (st : state) (s : uid) (bs : list uid) : state * out :=
  if negb (is_kind st KSpace s) then (st, ORejected)
  else if negb (forallb (fun b => memN b (c_bases (get_cont st s))) bs) then (st, ORejected)
  else
    let visited := s :: subs_of st s in
    let st1 := upd_cont st s (with_bases (filter (fun b => negb (memN b bs)) (c_bases (get_cont st s)))) in
    (settle (clear_derived st1 visited) [] (inherit_roots st visited), ODone).

Definition step_set_params (st : state) (s : uid) (b : bool) : state * out :=
  if negb (is_kind st KSpace s) then (st, ORejected)
  else
    (* [set_formula] / [del_formula]: the space's own ItemSpaces go, and (since /repo 302c314, D38) every
       ItemSpace that holds a dynamic copy of the space: the copies hold the old parameter formula *)
    let st1 := discard_items st ((if c_params (get_cont st s) then items_of st s else []) ++ dyn_roots st s) in
    (upd_cont st1 s (with_params b), ODone).

Definition eval_fuel (st : state) : nat := S (List.length (st_ftab st)).

Definition step_eval (st : state) (c : uid) (x : Z) : state * out :=
  if negb (is_kind st KCells c || is_kind st KDCells c) then (st, ORejected)
  else match eval (eval_fuel st) st c x with
       | EOk st1 z _ => (st1, OVal z)
       | EFail => (st, OFormulaErr)
       | EFuel => (st, OFuel)
       end.

Definition step_bind_global (st : state) (name : string) (s : uid) : state * out :=
  if negb (is_kind st KSpace s) then (st, ORejected)
  else if has_name st 0%N name then (st, ORejected)
  else (wipe (set_globals st (st_globals st ++ [(name, s)])), ODone).

(** the handle the operation acts through, and the other handles it uses *)
Definition op_handles (o : op) : nat * list nat :=
  match o with
  | NewSpace hp _ hb _ => (hp, hb)
  | NewCells h _ | Take h _ | GetItem h _ | DelAttr h _ | SetParams h _
  | ClearItems h | DelItem h _ | Eval h _ => (h, [])
  | AddBases h hb | RemoveBases h hb => (h, hb)
  | BindGlobal _ h => (0, [h])
  end.

Definition step (st : state) (o : op) : state * out :=
  let '(h, hb) := op_handles o in
  match handle st h, handles st hb with
  | Some u, Some bs =>
      if negb (alive st u && forallb (alive st) bs) then (st, ODeleted)
      else
        match o with
        | NewSpace _ name _ params => step_new_space st u name bs params
        | NewCells _ name => step_new_cells st u name
        | Take _ name => step_take st u name
        | GetItem _ k => step_get_item st u k
        | DelAttr _ name => step_del_attr st u name
        | AddBases _ _ => step_add_bases st u bs
        | RemoveBases _ _ => step_remove_bases st u bs
        | SetParams _ b => step_set_params st u b
        | ClearItems _ => if is_kind st KSpace u then (discard_items st (items_of st u), ODone) else (st, ORejected)
        | DelItem _ k =>
            if is_kind st KSpace u then
              match lookupZ k (c_items (get_cont st u)) with
              | Some r => (discard_items st [r], ODone)
              | None => (st, ORejected)
              end
            else (st, ORejected)
        | Eval _ x => step_eval st u x
        | BindGlobal name _ =>
            match bs with s :: _ => step_bind_global st name s | [] => (st, ORejected) end
        end
  | _, _ => (st, ORejected)
  end.

Definition run_from (st : state) (ops : list op) : state :=
  fold_left (fun s o => fst (step s o)) ops st.

Definition run (ft : list (string * formula)) (ops : list op) : state := run_from (init ft) ops.

(** what an old handle answers: the deleted-object error iff the object is dead *)
Definition probe (st : state) (u : uid) : bool := alive st u.
