(** Alive layer - a deletion kills nothing outside its closure.
    Closure of [del p.x] / [del s.c] / [remove_bases s bs]:
      - the deleted object and what is inside it;
      - the derived cells left without definer: a live derived cells d of a
        space T survives IF AND ONLY IF some proper ancestor of T still defines
        the name of d, in the inheritance graph after the removal ([without st x]:
        the tree of x is cut out of every container and base list;
        [cut_bases st s bs]: the edges s -> b, b in bs, are removed).
        Spec level: [definer] / [anc] (transitive closure of the base lists),
        not the fuelled function - by completeness of [ancs_of] (ProofsAcyc.v);
      - the ItemSpaces (with everything inside) that hold a dynamic copy of a
        space W that was deleted, re-inherited (the edited space and its sub
        spaces), lost a member, or lost a derived cells ([dyn_roots st W], taken
        in the state before the operation).
    The converse for the third part is ProofsInh.v ([*_discards]). *)
From Coq Require Import List String Bool Arith ZArith NArith Lia.
From MX Require Import Alive.Model Alive.ProofsBase Alive.ProofsRes Alive.ProofsStr Alive.ProofsDer
  Alive.ProofsStep Alive.ProofsTop Alive.ProofsInh Alive.ProofsAcyc Alive.ProofsNcc.
Import ListNotations.

(** ---- specification-level notions ---- *)
(** the state in which x and everything inside x has just been removed *)
Definition without (st : state) (x : uid) : state := purge (under_set st [x]) st.

(** the state in which the bases bs of s have just been removed / added *)
Definition cut_bases (st : state) (s : uid) (bs : list uid) : state :=
  upd_cont st s (with_bases (filter (fun b => negb (memN b bs)) (c_bases (get_cont st s)))).
Definition paste_bases (st : state) (s : uid) (bs : list uid) : state :=
  upd_cont st s (with_bases (dedupN (c_bases (get_cont st s) ++ bs))).

(** d is a live derived cells of the space T, and in the graph of G no proper
    ancestor of T defines its name *)
Definition undefined_in (G : state) (d T : uid) : Prop :=
  alive G d = true /\ is_derived G d = true /\ parent_of G d = Some T
  /\ forall c, ~ definer G T (name_of G d) c.

(** ---- small facts ---- *)
Lemma existsb_memN_nil : forall (l : list uid), existsb (fun a => memN a []) l = false.
Proof. induction l as [|a t IH]; simpl; [reflexivity|exact IH]. Qed.

Lemma under_set_nil : forall st, under_set st [] = [].
Proof.
  intros st. unfold under_set. induction (st_alive st) as [|u t IH]; [reflexivity|].
  cbn [filter]. rewrite existsb_memN_nil. exact IH.
Qed.

Lemma alive_discard_nil : forall st v, alive (discard_items st []) v = alive st v.
Proof.
  intros st v. unfold discard_items, item_set. cbn [filter]. rewrite under_set_nil, alive_purge. cbn [memN negb].
  apply andb_true_r.
Qed.

Lemma alive_create_derived_old : forall st l v,
  (v < st_next st)%N -> alive (create_derived st l) v = alive st v.
Proof.
  intros st l v Hv. unfold create_derived, ns_change. rewrite alive_discard_nil.
  change (alive (clear_vals ?C ?s) v) with (alive s v). exact (proj1 (fold_derive_old l st v Hv)).
Qed.

Lemma is_derived_kindof : forall st d, is_derived st d = true -> kind_of st d = KCells.
Proof.
  intros st d H. unfold is_derived in H. unfold kind_of. destruct (get_obj st d) as [o|]; [|discriminate].
  apply andb_true_iff in H as [H _]. apply kind_eqb_eq in H. exact H.
Qed.

Lemma derived_not_defined : forall st d, is_derived st d = true -> is_defined st d = false.
Proof.
  intros st d H. unfold is_derived in H. unfold is_defined. destruct (get_obj st d) as [o|]; [|reflexivity].
  apply andb_true_iff in H as [H1 H2]. rewrite H1, H2. reflexivity.
Qed.

Lemma orphans_spec : forall st d,
  In d (orphans st) <->
  alive st d = true /\ is_derived st d = true
  /\ match parent_of st d with Some T => has_definer st T (name_of st d) = false | None => True end.
Proof.
  intros st d. unfold orphans. rewrite filter_In. split.
  - intros [H1 H2]. apply andb_true_iff in H2 as [H2 H3].
    split; [unfold alive; apply memN_In; exact H1|]. split; [exact H2|].
    destruct (parent_of st d); [apply negb_true_iff in H3; exact H3|exact I].
  - intros [H1 [H2 H3]]. split; [unfold alive in H1; apply memN_In; exact H1|]. rewrite H2. cbn [andb].
    destruct (parent_of st d); [rewrite H3; reflexivity|reflexivity].
Qed.

(** a static object is under a set of soft seeds (derived cells, ItemSpaces) only as a seed *)
Lemma static_under_soft : forall st seeds d,
  Str st -> soft_seeds st seeds -> statick (kind_of st d) = true -> In d (under_set st seeds) -> In d seeds.
Proof.
  intros st seeds d [_ [_ [_ [_ H5]]]] Hs Hst Hin. apply under_set_spec in Hin as [_ [a [Ha Hsa]]].
  destruct Ha as [Ha|Ha]; [subst a; exact Hsa|]. exfalso.
  pose proof (H5 _ _ Hst Ha) as Hc. rewrite (proj1 (Hs _ Hsa)) in Hc. discriminate.
Qed.

Lemma dyn_roots_sub : forall st' st W r,
  st_objs st' = st_objs st -> st_src st' = st_src st -> incl (st_alive st') (st_alive st) ->
  In r (dyn_roots st' W) -> In r (dyn_roots st W).
Proof.
  intros st' st W r Ho Hs Ha H. unfold dyn_roots, root_of, is_kind, kind_of, chain_of, get_obj in *.
  rewrite Ho, Hs in H. apply in_flat_map in H as [d [Hd H]]. apply in_flat_map. exists d.
  split; [exact (Ha _ Hd)|exact H].
Qed.

Lemma dyn_roots_purge : forall K st W r, In r (dyn_roots (purge K st) W) -> In r (dyn_roots st W).
Proof.
  intros K st W r. apply dyn_roots_sub; try reflexivity.
  intros u Hu. cbn [purge st_alive] in Hu. apply filter_In in Hu as [Hu _]. exact Hu.
Qed.

Lemma inherit_roots_inv : forall st l r, In r (inherit_roots st l) -> exists W, In W l /\ In r (dyn_roots st W).
Proof. intros st l r H. unfold inherit_roots in H. apply in_flat_map in H. exact H. Qed.

(** ---- [settle]: which derived cells survive, what dies ---- *)
Lemma settle_derived_iff : forall st Ts l d T,
  Pre st -> Acyc st -> alive st d = true -> is_derived st d = true -> parent_of st d = Some T ->
  (alive (settle st Ts l) d = true <-> exists c, definer st T (name_of st d) c).
Proof.
  intros st Ts l d T [HR [HS HB]] HA Hd Hdd HT.
  apply (iff_trans (B := has_definer st T (name_of st d) = true)); [|exact (has_definer_iff st T _ HR HS HA)].
  unfold settle. rewrite alive_purge.
  set (st1 := clear_vals (flat_map (cells_of st) (Ts ++ parents_of st (orphans st))) st).
  set (seeds := (orphans st ++ filter (is_kind st1 KItem)
                   (l ++ flat_map (dyn_roots st1) Ts ++ flat_map (dyn_roots st1) (parents_of st (orphans st))))%list).
  assert (soft_seeds st1 seeds) as Hs.
  { apply soft_app; [exact (orphans_soft st)|apply item_seeds_soft]. }
  change (alive st1 d) with (alive st d). rewrite Hd. cbn [andb]. split.
  - intros Hn. apply negb_true_iff, memN_false in Hn.
    destruct (has_definer st T (name_of st d)) eqn:E; [reflexivity|]. exfalso. apply Hn.
    apply under_set_spec. split; [exact Hd|]. exists d. split; [left; reflexivity|]. apply in_app_iff. left.
    apply orphans_spec. split; [exact Hd|split; [exact Hdd|]]. rewrite HT. exact E.
  - intros Hh. apply negb_true_iff, memN_false. intros Hin.
    assert (statick (kind_of st1 d) = true) as Hst.
    { change (kind_of st1 d) with (kind_of st d). rewrite (is_derived_kindof _ _ Hdd). reflexivity. }
    apply (static_under_soft st1 seeds d HS Hs Hst) in Hin. apply in_app_iff in Hin as [Hin|Hin].
    + apply orphans_spec in Hin as [_ [_ Hin]]. rewrite HT in Hin. congruence.
    + apply filter_In in Hin as [_ Hk]. apply is_kind_true in Hk.
      change (kind_of st1 d) with (kind_of st d) in Hk. rewrite (is_derived_kindof _ _ Hdd) in Hk. discriminate.
Qed.

Lemma settle_closure : forall st Ts l v,
  Pre st -> Acyc st ->
  (forall d, alive st d = true -> is_derived st d = true -> exists T, parent_of st d = Some T) ->
  alive st v = true -> alive (settle st Ts l) v = false ->
  (exists d T, (d = v \/ In d (chain_of st v)) /\ undefined_in st d T)
  \/ (exists r, (r = v \/ In r (chain_of st v)) /\ is_kind st KItem r = true /\
        (In r l \/ exists W, In r (dyn_roots st W) /\ (In W Ts \/ exists d, undefined_in st d W))).
Proof.
  intros st Ts l v [HR [HS HB]] HA Hpar Hv Hdead. unfold settle in Hdead. rewrite alive_purge in Hdead.
  set (st1 := clear_vals (flat_map (cells_of st) (Ts ++ parents_of st (orphans st))) st) in *.
  change (alive st1 v) with (alive st v) in Hdead. rewrite Hv in Hdead. cbn [andb] in Hdead.
  apply negb_false_iff, memN_In, under_set_spec in Hdead as [_ [a [Ha Hsa]]].
  change (chain_of st1 v) with (chain_of st v) in Ha.
  assert (forall d, In d (orphans st) -> exists T, undefined_in st d T) as Horph.
  { intros d Hd. apply orphans_spec in Hd as [H1 [H2 H3]]. destruct (Hpar d H1 H2) as [T HT]. exists T.
    rewrite HT in H3. split; [exact H1|split; [exact H2|split; [exact HT|]]].
    apply (has_definer_false_iff st T _ HR HS HA). exact H3. }
  apply in_app_iff in Hsa as [Hsa|Hsa].
  - left. destruct (Horph _ Hsa) as [T HT]. exists a, T. split; [exact Ha|exact HT].
  - right. apply filter_In in Hsa as [Hsa Hk]. exists a. split; [exact Ha|]. split; [exact Hk|].
    apply in_app_iff in Hsa as [Hsa|Hsa]; [left; exact Hsa|right].
    apply in_app_iff in Hsa as [Hsa|Hsa]; apply in_flat_map in Hsa as [W [HW Hr]]; exists W; (split; [exact Hr|]).
    + left; exact HW.
    + right. unfold parents_of in HW. apply in_flat_map in HW as [d [Hd HW]].
      destruct (Horph _ Hd) as [T HT]. pose proof HT as [_ [_ [H3 _]]]. rewrite H3 in HW.
      destruct HW as [HW|[]]. subst W. exists d. exact HT.
Qed.

(** ---- transport between the settled state and the specification state ---- *)
Lemma undefined_ext : forall st st' d T,
  st_objs st' = st_objs st -> st_alive st' = st_alive st -> st_conts st' = st_conts st ->
  undefined_in st d T -> undefined_in st' d T.
Proof.
  intros st st' d T Ho Ha Hc [H1 [H2 [H3 H4]]].
  assert (forall X, get_obj st' X = get_obj st X) as Hgo by (intros X; unfold get_obj; rewrite Ho; reflexivity).
  split; [unfold alive; rewrite Ha; exact H1|]. split; [unfold is_derived; rewrite Hgo; exact H2|].
  split; [unfold parent_of, chain_of; rewrite Hgo; exact H3|].
  intros c Hdef. apply (H4 c). unfold name_of in *. rewrite Hgo in Hdef.
  apply (definer_ext st' st); [symmetry; exact Ho|symmetry; exact Ha|symmetry; exact Hc|exact Hdef].
Qed.

Lemma der_parent : forall st d, Inv st -> alive st d = true -> is_derived st d = true -> exists T, parent_of st d = Some T.
Proof. intros st d [_ [_ [_ HD]]] Hd Hdd. destruct (HD d Hd Hdd) as [T [c [HT _]]]. exists T. exact HT. Qed.

Lemma not_under_alive : forall st x v,
  alive st v = true -> ~ (v = x \/ In x (chain_of st v)) -> alive (without st x) v = true.
Proof.
  intros st x v Hv Hout. unfold without. rewrite alive_purge, Hv. cbn [andb].
  apply negb_true_iff, memN_false. intros Hin. apply under_set_spec in Hin as [_ [a [Ha [Hs|[]]]]].
  subst a. apply Hout. destruct Ha as [Ha|Ha]; [left; symmetry; exact Ha|right; exact Ha].
Qed.

Lemma under_dead : forall st x v,
  alive st v = true -> alive (without st x) v = false -> v = x \/ In x (chain_of st v).
Proof.
  intros st x v Hv Hd. unfold without in Hd. rewrite alive_purge, Hv in Hd. cbn [andb] in Hd.
  apply negb_false_iff, memN_In, under_set_spec in Hd as [_ [a [Ha [Hs|[]]]]]. subst a.
  destruct Ha as [Ha|Ha]; [left; symmetry; exact Ha|right; exact Ha].
Qed.

(** a derived cells is never inside a defined cells, nor is it one *)
Lemma derived_outside_cells : forall st c d,
  Str st -> is_defined st c = true -> is_derived st d = true -> ~ (d = c \/ In c (chain_of st d)).
Proof.
  intros st c d [_ [_ [_ [_ H5]]]] Hc Hd [He|Hin].
  - subst d. rewrite (derived_not_defined _ _ Hd) in Hc. discriminate.
  - assert (statick (kind_of st d) = true) as Hst by (rewrite (is_derived_kindof _ _ Hd); reflexivity).
    pose proof (H5 _ _ Hst Hin) as Hk. rewrite (is_defined_kind _ _ Hc) in Hk. discriminate.
Qed.

Lemma pre_cut_bases : forall st s bs, Inv st -> Pre (cut_bases st s bs).
Proof.
  intros st s bs [HR [HS [HB _]]]. unfold cut_bases. split; [|split].
  - apply res_upd_cont; [exact HR|]. intros c x Hx. apply cont_uids_with_bases in Hx as [Hx|Hx]; [left; exact Hx|].
    apply filter_In in Hx as [Hx _]. right. exact (res_bases_alive _ _ _ HR Hx).
  - exact HS.
  - apply ibases_upd_cont; [exact HB|]. intros c b Hbb. right. cbn in Hbb. apply filter_In in Hbb as [Hbb _].
    exact (bases_kind _ _ _ HB Hbb).
Qed.

Lemma bs_cut_bases : forall st s bs, bases_sub (cut_bases st s bs) st.
Proof.
  intros st s bs T b Hb. unfold cut_bases in Hb.
  destruct (N.eq_dec T s) as [He|Hne]; [subst T|rewrite get_cont_upd_cont_other in Hb; assumption].
  rewrite get_cont_upd_cont_same in Hb. destruct (lookupN s (st_conts st)) as [c|]; [|destruct Hb].
  cbn [with_bases c_bases] in Hb. apply filter_In in Hb as [Hb _]. exact Hb.
Qed.

(** ---- the settled state [clear_derived G vis] and the specification state G ---- *)
Lemma mid_derived_iff : forall G vis Ts l d T,
  Pre G -> Acyc G -> alive G d = true -> is_derived G d = true -> parent_of G d = Some T ->
  (alive (settle (clear_derived G vis) Ts l) d = true <-> exists c, definer G T (name_of G d) c).
Proof.
  intros G vis Ts l d T HP HA Hd Hdd HT.
  assert (Pre (clear_derived G vis)) as HP1 by (unfold clear_derived; apply pre_clear_vals, HP).
  assert (Acyc (clear_derived G vis)) as HA1.
  { apply (acyc_sub _ G); [apply bs_clear_derived, bases_sub_refl|exact HA]. }
  pose proof (settle_derived_iff (clear_derived G vis) Ts l d T HP1 HA1 Hd Hdd HT) as Hiff.
  split.
  - intros H. apply Hiff in H as [c Hc]. exists c.
    apply (definer_ext (clear_derived G vis) G); try reflexivity. exact Hc.
  - intros [c Hc]. apply Hiff. exists c. apply (definer_ext G (clear_derived G vis)); try reflexivity. exact Hc.
Qed.

Lemma mid_closure : forall G vis Ts l v,
  Pre G -> Acyc G ->
  (forall d, alive G d = true -> is_derived G d = true -> exists T, parent_of G d = Some T) ->
  alive G v = true -> alive (settle (clear_derived G vis) Ts l) v = false ->
  (exists d T, (d = v \/ In d (chain_of G v)) /\ undefined_in G d T)
  \/ (exists r, (r = v \/ In r (chain_of G v)) /\ is_kind G KItem r = true /\
        (In r l \/ exists W, In r (dyn_roots G W) /\ (In W Ts \/ exists d, undefined_in G d W))).
Proof.
  intros G vis Ts l v HP HA Hpar Hv Hdead.
  assert (Pre (clear_derived G vis)) as HP1 by (unfold clear_derived; apply pre_clear_vals, HP).
  assert (Acyc (clear_derived G vis)) as HA1.
  { apply (acyc_sub _ G); [apply bs_clear_derived, bases_sub_refl|exact HA]. }
  destruct (settle_closure (clear_derived G vis) Ts l v HP1 HA1 Hpar Hv Hdead)
    as [[d [T [Hin Hu]]]|[r [Hin [Hk Hr]]]].
  - left. exists d, T. split; [exact Hin|]. apply (undefined_ext (clear_derived G vis) G); try reflexivity. exact Hu.
  - right. exists r. split; [exact Hin|]. split; [exact Hk|].
    destruct Hr as [Hr|[W [Hr HW]]]; [left; exact Hr|right]. exists W. split; [exact Hr|].
    destruct HW as [HW|[d Hu]]; [left; exact HW|right]. exists d.
    apply (undefined_ext (clear_derived G vis) G); try reflexivity. exact Hu.
Qed.

Lemma pre_without : forall st x, Inv st -> Pre (without st x).
Proof. intros st x HI. unfold without. apply pre_purge_under, pre_of_inv, HI. Qed.

Lemma acyc_without : forall st x, Acyc st -> Acyc (without st x).
Proof. intros st x HA. apply (acyc_sub _ st); [unfold without; apply bs_purge, bases_sub_refl|exact HA]. Qed.

Lemma par_without : forall st x, Inv st ->
  forall d, alive (without st x) d = true -> is_derived (without st x) d = true ->
            exists T, parent_of (without st x) d = Some T.
Proof.
  intros st x HI d Hd Hdd. apply (der_parent st d HI); [|exact Hdd].
  unfold without in Hd. rewrite alive_purge in Hd. apply andb_true_iff in Hd as [Hd _]. exact Hd.
Qed.

(** ---- [del p.x], x a space ---- *)
(** a live derived cells outside the deleted tree survives iff its space still has a definer *)
Theorem del_space_derived_iff : forall st p x st' o d T,
  Inv2 st -> step_del_space st p x = (st', o) ->
  alive st d = true -> is_derived st d = true -> parent_of st d = Some T ->
  ~ (d = x \/ In x (chain_of st d)) ->
  (alive st' d = true <-> exists c, definer (without st x) T (name_of st d) c).
Proof.
  intros st p x st' o d T [HI HA] E Hd Hdd HT Hout. unfold step_del_space in E. inversion E; subst; clear E.
  apply (mid_derived_iff (without st x)); [exact (pre_without _ _ HI)|exact (acyc_without _ _ HA)| |exact Hdd|exact HT].
  exact (not_under_alive _ _ _ Hd Hout).
Qed.

(** whatever dies is in the closure *)
Theorem del_space_closure : forall st p x st' o v,
  Inv2 st -> step_del_space st p x = (st', o) -> alive st v = true -> alive st' v = false ->
  (v = x \/ In x (chain_of st v))
  \/ (exists d T, (d = v \/ In d (chain_of st v)) /\ undefined_in (without st x) d T)
  \/ (exists r W, (r = v \/ In r (chain_of st v)) /\ In r (dyn_roots st W) /\
        (W = x
         \/ (exists y, In y (under_set st [x]) /\ is_kind st KSpace y = true /\ In W (subs_of st y))
         \/ (W = p /\ is_kind st KSpace p = true)
         \/ exists d, undefined_in (without st x) d W)).
Proof.
  intros st p x st' o v [HI HA] E Hv Hdead. unfold step_del_space in E. inversion E; subst; clear E.
  destruct (alive (without st x) v) eqn:Ev.
  2:{ left. exact (under_dead _ _ _ Hv Ev). }
  right.
  destruct (mid_closure (without st x) _ _ _ v (pre_without _ _ HI) (acyc_without _ _ HA) (par_without _ _ HI) Ev Hdead)
    as [[d [T [Hin Hu]]]|[r [Hin [Hk Hr]]]].
  - left. exists d, T. split; [exact Hin|exact Hu].
  - right. exists r. destruct Hr as [Hr|[W [Hr HW]]].
    + apply in_app_iff in Hr as [Hr|Hr].
      * exists x. split; [exact Hin|]. split; [exact Hr|left; reflexivity].
      * apply inherit_roots_inv in Hr as [W [HW Hr]]. exists W.
        split; [exact Hin|]. split; [exact Hr|right; left].
        apply in_flat_map in HW as [y [Hy HW]]. apply filter_In in Hy as [Hy Hky].
        exists y. split; [exact Hy|split; [exact Hky|exact HW]].
    + exists W. split; [exact Hin|]. split; [exact (dyn_roots_purge _ _ _ _ Hr)|].
      destruct HW as [HW|[d Hu]].
      * right; right; left. destruct (is_kind st KSpace p); [|destruct HW].
        destruct HW as [HW|[]]. split; [symmetry; exact HW|reflexivity].
      * right; right; right. exists d. exact Hu.
Qed.

(** ---- [del s.c], c a defined cells ---- *)
Lemma del_cells_shape : forall st s c st',
  step_del_cells st s c = (st', ODone) ->
  is_defined st c = true /\
  st' = create_derived (settle (clear_derived (without st c) (s :: subs_of st s)) [s]
                               (inherit_roots st (s :: subs_of st s))) (s :: subs_of st s).
Proof.
  intros st s c st' E. unfold step_del_cells in E. destruct (is_defined st c); [|discriminate].
  cbn [negb] in E. inversion E. split; reflexivity.
Qed.

(** every live derived cells survives iff its space still has a definer once c is gone *)
Theorem del_cells_derived_iff : forall st s c st' d T,
  Inv2 st -> step_del_cells st s c = (st', ODone) ->
  alive st d = true -> is_derived st d = true -> parent_of st d = Some T ->
  (alive st' d = true <-> exists c', definer (without st c) T (name_of st d) c').
Proof.
  intros st s c st' d T [HI HA] E Hd Hdd HT. destruct (del_cells_shape _ _ _ _ E) as [Hc Est]. subst st'.
  pose proof HI as [_ [HS _]].
  rewrite alive_create_derived_old by exact (alive_lt_next _ _ HS Hd).
  apply (mid_derived_iff (without st c)); [exact (pre_without _ _ HI)|exact (acyc_without _ _ HA)| |exact Hdd|exact HT].
  apply (not_under_alive st c d Hd). exact (derived_outside_cells _ _ _ HS Hc Hdd).
Qed.

Theorem del_cells_closure : forall st s c st' v,
  Inv2 st -> step_del_cells st s c = (st', ODone) -> alive st v = true -> alive st' v = false ->
  (v = c \/ In c (chain_of st v))
  \/ (exists d T, (d = v \/ In d (chain_of st v)) /\ undefined_in (without st c) d T)
  \/ (exists r W, (r = v \/ In r (chain_of st v)) /\ In r (dyn_roots st W) /\
        (In W (s :: subs_of st s) \/ exists d, undefined_in (without st c) d W)).
Proof.
  intros st s c st' v [HI HA] E Hv Hdead. destruct (del_cells_shape _ _ _ _ E) as [Hc Est]. subst st'.
  pose proof HI as [_ [HS _]].
  rewrite alive_create_derived_old in Hdead by exact (alive_lt_next _ _ HS Hv).
  destruct (alive (without st c) v) eqn:Ev.
  2:{ left. exact (under_dead _ _ _ Hv Ev). }
  right.
  destruct (mid_closure (without st c) _ _ _ v (pre_without _ _ HI) (acyc_without _ _ HA) (par_without _ _ HI) Ev Hdead)
    as [[d [T [Hin Hu]]]|[r [Hin [Hk Hr]]]].
  - left. exists d, T. split; [exact Hin|exact Hu].
  - right. exists r. destruct Hr as [Hr|[W [Hr HW]]].
    + apply inherit_roots_inv in Hr as [W [HW Hr]]. exists W.
      split; [exact Hin|]. split; [exact Hr|left; exact HW].
    + exists W. split; [exact Hin|]. split; [exact (dyn_roots_purge _ _ _ _ Hr)|].
      destruct HW as [HW|[d Hu]].
      * left. destruct HW as [HW|[]]. left. exact HW.
      * right. exists d. exact Hu.
Qed.

(** ---- [remove_bases s bs] ---- *)
Lemma remove_bases_shape : forall st s bs st',
  step_remove_bases st s bs = (st', ODone) ->
  st' = settle (clear_derived (cut_bases st s bs) (s :: subs_of st s)) [] (inherit_roots st (s :: subs_of st s)).
Proof.
  intros st s bs st' E. unfold step_remove_bases in E. destruct (negb (is_kind st KSpace s)); [discriminate|].
  destruct (negb (forallb (fun b => memN b (c_bases (get_cont st s))) bs)); [discriminate|].
  inversion E. reflexivity.
Qed.

Lemma acyc_cut_bases : forall st s bs, Acyc st -> Acyc (cut_bases st s bs).
Proof. intros st s bs HA. exact (acyc_sub _ st (bs_cut_bases st s bs) HA). Qed.

(** every live derived cells survives iff its space still has a definer without the removed edges *)
Theorem remove_bases_derived_iff : forall st s bs st' d T,
  Inv2 st -> step_remove_bases st s bs = (st', ODone) ->
  alive st d = true -> is_derived st d = true -> parent_of st d = Some T ->
  (alive st' d = true <-> exists c, definer (cut_bases st s bs) T (name_of st d) c).
Proof.
  intros st s bs st' d T [HI HA] E Hd Hdd HT. rewrite (remove_bases_shape _ _ _ _ E).
  apply (mid_derived_iff (cut_bases st s bs)); [exact (pre_cut_bases _ _ _ HI)|exact (acyc_cut_bases _ _ _ HA)
                                                |exact Hd|exact Hdd|exact HT].
Qed.

Theorem remove_bases_closure : forall st s bs st' v,
  Inv2 st -> step_remove_bases st s bs = (st', ODone) -> alive st v = true -> alive st' v = false ->
  (exists d T, (d = v \/ In d (chain_of st v)) /\ undefined_in (cut_bases st s bs) d T)
  \/ (exists r W, (r = v \/ In r (chain_of st v)) /\ In r (dyn_roots st W) /\
        (In W (s :: subs_of st s) \/ exists d, undefined_in (cut_bases st s bs) d W)).
Proof.
  intros st s bs st' v [HI HA] E Hv Hdead. rewrite (remove_bases_shape _ _ _ _ E) in Hdead.
  assert (forall d, alive (cut_bases st s bs) d = true -> is_derived (cut_bases st s bs) d = true ->
                    exists T, parent_of (cut_bases st s bs) d = Some T) as Hpar.
  { intros d Hd Hdd. exact (der_parent st d HI Hd Hdd). }
  destruct (mid_closure (cut_bases st s bs) _ _ _ v (pre_cut_bases _ _ _ HI) (acyc_cut_bases _ _ _ HA) Hpar Hv Hdead)
    as [[d [T [Hin Hu]]]|[r [Hin [Hk Hr]]]].
  - left. exists d, T. split; [exact Hin|exact Hu].
  - right. exists r. destruct Hr as [Hr|[W [Hr HW]]].
    + apply inherit_roots_inv in Hr as [W [HW Hr]]. exists W.
      split; [exact Hin|]. split; [exact Hr|left; exact HW].
    + exists W. split; [exact Hin|]. split; [exact Hr|].
      destruct HW as [[]|[d Hu]]. right. exists d. exact Hu.
Qed.

(** in particular: models, spaces and defined cells all survive *)
Theorem remove_bases_untouched : forall st s bs st' v,
  Inv st -> step_remove_bases st s bs = (st', ODone) -> hard st v -> alive st' v = true.
Proof.
  intros st s bs st' v [_ [HS _]] E Hv. rewrite (remove_bases_shape _ _ _ _ E).
  refine (proj1 (hard_settle (clear_derived (cut_bases st s bs) (s :: subs_of st s)) _ _ v _ _)); [exact HS|exact Hv].
Qed.

(** ---- [add_bases s bs]: only ItemSpaces of the re-inherited spaces die ---- *)
Theorem add_bases_closure : forall st s bs st' v,
  Inv st -> step_add_bases st s bs = (st', ODone) -> alive st v = true -> alive st' v = false ->
  exists r W, (r = v \/ In r (chain_of st v)) /\ In r (dyn_roots st W)
              /\ In W (s :: subs_of (paste_bases st s bs) s).
Proof.
  intros st s bs st' v [_ [HS _]] E Hv Hdead. unfold step_add_bases in E.
  destruct (negb (is_kind st KSpace s && forallb (is_kind st KSpace) bs)); [discriminate|].
  destruct (existsb (fun b => N.eqb b s || memN s (ancs_of st b)) bs); [discriminate|].
  inversion E; subst; clear E. fold (paste_bases st s bs) in Hdead.
  set (vis := s :: subs_of (paste_bases st s bs) s) in *.
  rewrite alive_create_derived_old in Hdead by exact (alive_lt_next _ _ HS Hv).
  unfold discard_items in Hdead. rewrite alive_purge in Hdead.
  change (alive (clear_derived ?s0 ?l) v) with (alive s0 v) in Hdead.
  change (alive (paste_bases st s bs) v) with (alive st v) in Hdead. rewrite Hv in Hdead. cbn [andb] in Hdead.
  apply negb_false_iff, memN_In in Hdead. unfold item_set in Hdead.
  apply under_set_spec in Hdead as [_ [r [Hin Hr]]]. apply filter_In in Hr as [Hr _].
  change (In r (inherit_roots st (s :: subs_of (paste_bases st s bs) s))) in Hr.
  apply inherit_roots_inv in Hr as [W [HW Hr]].
  exists r, W. split; [exact Hin|]. split; [exact Hr|exact HW].
Qed.

(** in particular every static object (model, space, defined or derived cells) survives *)
Theorem add_bases_untouched : forall st s bs st' v,
  Inv st -> step_add_bases st s bs = (st', ODone) -> alive st v = true ->
  statick (kind_of st v) = true -> alive st' v = true.
Proof.
  intros st s bs st' v HI E Hv Hst. destruct (alive st' v) eqn:Ed; [reflexivity|]. exfalso.
  destruct (add_bases_closure _ _ _ _ _ HI E Hv Ed) as [r [W [Hin [Hr _]]]].
  pose proof (dyn_roots_kind _ _ _ Hr) as Hk. apply is_kind_true in Hk.
  destruct HI as [_ [[_ [_ [_ [_ H5]]]] _]]. destruct Hin as [Hin|Hin].
  - subst r. rewrite Hk in Hst. discriminate.
  - pose proof (H5 _ _ Hst Hin) as Hc. rewrite Hk in Hc. discriminate.
Qed.

(** ---- the closure, sharp: nothing is inside a cells ([Ncc], ProofsNcc.v) ---- *)
Definition Inv3 (st : state) : Prop := Inv st /\ Acyc st /\ Ncc st.

Theorem inv3_run : forall ft ops, Inv3 (run ft ops).
Proof.
  intros ft ops. destruct (inv2_run ft ops) as [HI HA]. split; [exact HI|split; [exact HA|apply ncc_run]].
Qed.

Lemma undefined_self : forall st G v d T,
  Ncc st -> st_objs G = st_objs st -> (d = v \/ In d (chain_of st v)) -> undefined_in G d T -> undefined_in G v T.
Proof.
  intros st G v d T HN Ho [He|Hin] Hu; [subst d; exact Hu|]. exfalso.
  destruct Hu as [_ [Hd _]]. apply is_derived_kindof in Hd. apply (HN v d Hin).
  unfold kind_of, get_obj in *. rewrite <- Ho. exact Hd.
Qed.

Theorem del_space_closure_sharp : forall st p x st' o v,
  Inv3 st -> step_del_space st p x = (st', o) -> alive st v = true -> alive st' v = false ->
  (v = x \/ In x (chain_of st v))
  \/ (exists T, undefined_in (without st x) v T)
  \/ (exists r W, (r = v \/ In r (chain_of st v)) /\ In r (dyn_roots st W) /\
        (W = x
         \/ (exists y, In y (under_set st [x]) /\ is_kind st KSpace y = true /\ In W (subs_of st y))
         \/ (W = p /\ is_kind st KSpace p = true)
         \/ exists d, undefined_in (without st x) d W)).
Proof.
  intros st p x st' o v [HI [HA HN]] E Hv Hdead.
  destruct (del_space_closure st p x st' o v (conj HI HA) E Hv Hdead) as [H|[[d [T [Hin Hu]]]|H]];
    [left; exact H| |right; right; exact H].
  right; left. exists T. exact (undefined_self st (without st x) v d T HN eq_refl Hin Hu).
Qed.

Theorem del_cells_closure_sharp : forall st s c st' v,
  Inv3 st -> step_del_cells st s c = (st', ODone) -> alive st v = true -> alive st' v = false ->
  v = c
  \/ (exists T, undefined_in (without st c) v T)
  \/ (exists r W, (r = v \/ In r (chain_of st v)) /\ In r (dyn_roots st W) /\
        (In W (s :: subs_of st s) \/ exists d, undefined_in (without st c) d W)).
Proof.
  intros st s c st' v [HI [HA HN]] E Hv Hdead.
  destruct (del_cells_closure st s c st' v (conj HI HA) E Hv Hdead) as [[H|H]|[[d [T [Hin Hu]]]|H]];
    [left; exact H| | |right; right; exact H].
  - exfalso. destruct (del_cells_shape _ _ _ _ E) as [Hc _]. apply (HN v c H).
    unfold is_defined in Hc. unfold kind_of. destruct (get_obj st c) as [oc|]; [|discriminate].
    apply andb_true_iff in Hc as [Hc _]. apply kind_eqb_eq in Hc. exact Hc.
  - right; left. exists T. exact (undefined_self st (without st c) v d T HN eq_refl Hin Hu).
Qed.

Theorem remove_bases_closure_sharp : forall st s bs st' v,
  Inv3 st -> step_remove_bases st s bs = (st', ODone) -> alive st v = true -> alive st' v = false ->
  (exists T, undefined_in (cut_bases st s bs) v T)
  \/ (exists r W, (r = v \/ In r (chain_of st v)) /\ In r (dyn_roots st W) /\
        (In W (s :: subs_of st s) \/ exists d, undefined_in (cut_bases st s bs) d W)).
Proof.
  intros st s bs st' v [HI [HA HN]] E Hv Hdead.
  destruct (remove_bases_closure st s bs st' v (conj HI HA) E Hv Hdead) as [[d [T [Hin Hu]]]|H]; [|right; exact H].
  left. exists T. exact (undefined_self st (cut_bases st s bs) v d T HN eq_refl Hin Hu).
Qed.

(** ---- the sets used above, in words ---- *)
(** [dyn_roots st W]: r is the nearest ItemSpace around (or is) a live ItemSpace
    or dynamic space e that was built as a copy of W *)
Definition holds_copy (st : state) (r W : uid) : Prop :=
  exists e, alive st e = true /\ (is_kind st KItem e = true \/ is_kind st KDSpace e = true)
            /\ lookupN e (st_src st) = Some W
            /\ find (is_kind st KItem) (e :: chain_of st e) = Some r.

Theorem dyn_roots_spec : forall st W r, In r (dyn_roots st W) <-> holds_copy st r W.
Proof.
  intros st W r. unfold dyn_roots, holds_copy. rewrite in_flat_map. split.
  - intros [e [He Hr]]. exists e. split; [unfold alive; apply memN_In; exact He|].
    destruct (is_kind st KItem e || is_kind st KDSpace e) eqn:Ek; cbn [andb] in Hr; [|destruct Hr].
    destruct (lookupN e (st_src st)) as [s0|] eqn:Es; [|destruct Hr].
    destruct (N.eqb s0 W) eqn:E0; [|destruct Hr]. apply N.eqb_eq in E0; subst s0.
    split; [apply orb_true_iff in Ek; exact Ek|]. split; [reflexivity|].
    unfold root_of in Hr. destruct (find (is_kind st KItem) (e :: chain_of st e)) as [r'|]; [|destruct Hr].
    destruct Hr as [Hr|[]]. subst r'. reflexivity.
  - intros [e [He [Hk [Hs Hf]]]]. exists e. split; [unfold alive in He; apply memN_In; exact He|].
    apply orb_true_iff in Hk. rewrite Hk, Hs, N.eqb_refl. cbn [andb]. unfold root_of. rewrite Hf. left; reflexivity.
Qed.

(** a definer in the state before the deletion, reached through ancestors that
    are not deleted, is a definer afterwards (the converse needs that a
    container never holds two cells of one name, which is not among the
    invariants proved here) *)
Inductive anc_out (st : state) (K : list uid) : uid -> uid -> Prop :=
| anc_out_base : forall T b, In b (c_bases (get_cont st T)) -> memN b K = false -> anc_out st K T b
| anc_out_step : forall T b A, In b (c_bases (get_cont st T)) -> memN b K = false ->
                               anc_out st K b A -> anc_out st K T A.

Lemma anc_out_purge : forall K st T A,
  memN T K = false -> anc_out st K T A -> anc (purge K st) T A /\ memN A K = false.
Proof.
  intros K st T A HT H. induction H as [T b Hb HbK|T b A Hb HbK H IH].
  - split; [|exact HbK]. apply anc_base. rewrite (get_cont_purge _ _ _ HT). cbn [purge_cont c_bases].
    apply filter_In. split; [exact Hb|rewrite HbK; reflexivity].
  - destruct (IH HbK) as [IH1 IH2]. split; [|exact IH2]. apply (anc_step _ T b A); [|exact IH1].
    rewrite (get_cont_purge _ _ _ HT). cbn [purge_cont c_bases].
    apply filter_In. split; [exact Hb|rewrite HbK; reflexivity].
Qed.

Theorem definer_left : forall K st T n c A,
  memN T K = false -> anc_out st K T A -> lookupS n (c_cells (get_cont st A)) = Some c ->
  alive st c = true -> is_defined st c = true -> memN c K = false ->
  definer (purge K st) T n c.
Proof.
  intros K st T n c A HT Ha Hl Hal Hd Hc. destruct (anc_out_purge K st T A HT Ha) as [Ha' HA].
  exists A. split; [exact Ha'|]. split; [|split].
  - rewrite (get_cont_purge _ _ _ HA). cbn [purge_cont c_cells].
    apply lookupS_filter; [exact Hl|]. cbn [snd]. rewrite Hc. reflexivity.
  - rewrite alive_purge, Hal, Hc. reflexivity.
  - exact Hd.
Qed.

(** ---- examples: the statements are not vacuous ---- *)
Open Scope string_scope.

(** A.f and B.f are defined; C inherits from A and B and has the derived copy
    C.f.  uids = handles: 1 = A, 2 = A.f, 3 = B, 4 = B.f, 5 = C, 6 = C.f *)
Definition clos_ops : list op :=
  [ NewSpace 0 "A" [] false; NewCells 1 "f"; NewSpace 0 "B" [] false; NewCells 3 "f";
    NewSpace 0 "C" [1; 3] false; Take 5 "f" ].

Example clos_before :
  let st := run [] clos_ops in
  map (alive st) (st_handles st) = repeat true 7 /\ st_handles st = [0; 1; 2; 3; 4; 5; 6]%N
  /\ is_derived st 6%N = true /\ parent_of st 6%N = Some 5%N /\ name_of st 6%N = "f".
Proof. vm_compute. repeat split; reflexivity. Qed.

(** [del A.f]: the derived C.f survives, because B.f is left as a definer ... *)
Example clos_del_cells_survives :
  let st := run [] clos_ops in
  let st' := run [] (clos_ops ++ [DelAttr 1 "f"]) in
  step_del_cells st 1%N 2%N = (st', ODone)
  /\ definer (without st 2%N) 5%N "f" 4%N
  /\ alive st' 6%N = true /\ alive st' 2%N = false.
Proof.
  split; [vm_compute; reflexivity|]. split; [|split; vm_compute; reflexivity].
  exists 3%N. split; [apply anc_base; vm_compute; right; left; reflexivity|].
  split; [vm_compute; reflexivity|]. split; vm_compute; reflexivity.
Qed.

(** ... as [del_cells_derived_iff] says *)
Example clos_del_cells_survives_by_theorem :
  alive (run [] (clos_ops ++ [DelAttr 1 "f"])) 6%N = true.
Proof.
  destruct clos_del_cells_survives as [E [Hdef _]]. destruct clos_before as [_ [_ [Hd [Hp Hn]]]].
  apply (proj2 (del_cells_derived_iff _ 1%N 2%N _ 6%N 5%N (inv2_run [] clos_ops) E
                  ltac:(vm_compute; reflexivity) Hd Hp)).
  exists 4%N. rewrite Hn. exact Hdef.
Qed.

(** ... then [del B.f]: no definer is left and C.f dies *)
Example clos_del_cells_dies :
  let st := run [] (clos_ops ++ [DelAttr 1 "f"]) in
  let st' := run [] (clos_ops ++ [DelAttr 1 "f"; DelAttr 3 "f"]) in
  step_del_cells st 3%N 4%N = (st', ODone)
  /\ alive st 6%N = true /\ alive st' 6%N = false
  /\ forall c, ~ definer (without st 4%N) 5%N "f" c.
Proof.
  cbv zeta.
  assert (step_del_cells (run [] (clos_ops ++ [DelAttr 1 "f"])) 3%N 4%N
          = (run [] (clos_ops ++ [DelAttr 1 "f"; DelAttr 3 "f"]), ODone)) as E by (vm_compute; reflexivity).
  assert (alive (run [] (clos_ops ++ [DelAttr 1 "f"; DelAttr 3 "f"])) 6%N = false) as Hdead by (vm_compute; reflexivity).
  split; [exact E|]. split; [vm_compute; reflexivity|]. split; [exact Hdead|].
  intros c Hc.
  pose proof (proj2 (del_cells_derived_iff _ 3%N 4%N _ 6%N 5%N (inv2_run [] (clos_ops ++ [DelAttr 1 "f"])) E
                       ltac:(vm_compute; reflexivity) ltac:(vm_compute; reflexivity) ltac:(vm_compute; reflexivity))) as H.
  assert (name_of (run [] (clos_ops ++ [DelAttr 1 "f"])) 6%N = "f") as Hn by (vm_compute; reflexivity).
  assert (alive (run [] (clos_ops ++ [DelAttr 1 "f"; DelAttr 3 "f"])) 6%N = true) as Ht.
  { apply H. exists c. exact (eq_ind_r (fun n => definer _ 5%N n c) Hc Hn). }
  discriminate (eq_trans (eq_sym Hdead) Ht).
Qed.

(** [del M.A] (a base space): C.f survives; then [del M.B]: C.f dies.
    [remove_bases C [A]]: survives; [remove_bases C [A; B]]: dies *)
Example clos_del_space :
  let st := run [] clos_ops in
  step_del_space st 0%N 1%N = (run [] (clos_ops ++ [DelAttr 0 "A"]), ODone)
  /\ definer (without st 1%N) 5%N "f" 4%N
  /\ map (alive (run [] (clos_ops ++ [DelAttr 0 "A"]))) (st_handles st) = [true; false; false; true; true; true; true]
  /\ map (alive (run [] (clos_ops ++ [DelAttr 0 "A"; DelAttr 0 "B"]))) (st_handles st)
     = [true; false; false; false; false; true; false].
Proof.
  split; [vm_compute; reflexivity|]. split; [|split; vm_compute; reflexivity].
  exists 3%N. split; [apply anc_base; vm_compute; left; reflexivity|].
  split; [vm_compute; reflexivity|]. split; vm_compute; reflexivity.
Qed.

Example clos_remove_bases :
  let st := run [] clos_ops in
  step_remove_bases st 5%N [1%N] = (run [] (clos_ops ++ [RemoveBases 5 [1]]), ODone)
  /\ definer (cut_bases st 5%N [1%N]) 5%N "f" 4%N
  /\ map (alive (run [] (clos_ops ++ [RemoveBases 5 [1]]))) (st_handles st) = repeat true 7
  /\ step_remove_bases st 5%N [1%N; 3%N] = (run [] (clos_ops ++ [RemoveBases 5 [1; 3]]), ODone)
  /\ map (alive (run [] (clos_ops ++ [RemoveBases 5 [1; 3]]))) (st_handles st)
     = [true; true; true; true; true; true; false].
Proof.
  split; [vm_compute; reflexivity|]. split; [|split; [|split]; vm_compute; reflexivity].
  exists 3%N. split; [apply anc_base; vm_compute; left; reflexivity|].
  split; [vm_compute; reflexivity|]. split; vm_compute; reflexivity.
Qed.
