(** K4, part 10: a reference change keeps the quiescent invariant. *)
From Coq Require Import List ZArith Bool Arith Lia.
From MX Require Import Exec.Model Exec.Spec Exec.Basics Exec.SpecMono Exec.Sim Exec.Reads Exec.Graph
  Exec.Cover Exec.Cover2 Exec.Sim2 Exec.Quiet Exec.Local Exec.Edits Exec.Edits2 Exec.Edits3 Exec.Edits4 Exec.Top.
Import ListNotations.

(** * Notifying the cells of a namespace *)
Definition ns_cleared (st' : state) (c : cid) (cl : cell) : Prop :=
  (cl_cached cl = true -> forall i, fst i = c -> has st' i -> mem_item i (s_inputs st') = true) /\
  (cl_cached cl = false -> ~ In (NObj c) (s_nodes st')).

Lemma ns_cleared_shrinks st st' c cl : Shrinks st st' -> ns_cleared st c cl -> ns_cleared st' c cl.
Proof.
  intros S (A & B). split.
  - intros Hc i Hi Hh. rewrite (sh_inp _ _ S i Hh). apply A; auto. now apply (sh_has _ _ S).
  - intros Hc Hn. apply (B Hc). now apply (sh_nodes _ _ S).
Qed.

Lemma on_namespace_change_cleared st c cl :
  Quiet st -> lookup_cell (s_cells st) c = Some cl -> ns_cleared (on_namespace_change st c) c cl.
Proof.
  intros Q El. unfold on_namespace_change. rewrite El. split; intros Hc; rewrite Hc.
  - intros i Hi Hh. now apply clear_all_false_inputs_only.
  - intros Hn. apply clear_obj_nodes in Hn. now apply Hn.
Qed.

Lemma fold_ns_cleared L : forall st,
  Quiet st ->
  let st' := fold_left on_namespace_change L st in
  Quiet st' /\ Shrinks st st' /\
  forall c cl, In c L -> lookup_cell (s_cells st) c = Some cl -> ns_cleared st' c cl.
Proof.
  induction L as [|c L IH]; intros st Q; simpl.
  - split; [exact Q|]. split; [apply Shrinks_refl|]. intros c cl [].
  - set (st1 := on_namespace_change st c).
    assert (Q1 : Quiet st1) by (now apply Quiet_on_namespace_change).
    pose proof (on_namespace_change_Shrinks st c) as S1. fold st1 in S1.
    destruct (IH st1 Q1) as (Q' & S' & H'). split; [exact Q'|]. split; [eapply Shrinks_trans; eauto|].
    intros c' cl' [<-|Hin] El.
    + eapply ns_cleared_shrinks; [exact S'|]. now apply on_namespace_change_cleared.
    + apply H'; [exact Hin|]. now rewrite (sh_cells _ _ S1).
Qed.

(** * Clearing the readers of a reference *)
Lemma fold_clear_reader_gone l : forall st,
  Quiet st ->
  let st' := fold_left clear_reader l st in
  Quiet st' /\ Shrinks st st' /\ forall j, In j l -> ~ has st' j.
Proof.
  induction l as [|i l IH]; intros st Q; simpl.
  - split; [exact Q|]. split; [apply Shrinks_refl|]. intros j [].
  - set (st1 := clear_reader st i).
    assert (Q1 : Quiet st1) by (now apply Quiet_clear_reader).
    pose proof (clear_reader_Shrinks st i) as S1. fold st1 in S1.
    destruct (IH st1 Q1) as (Q' & S' & H'). split; [exact Q'|]. split; [eapply Shrinks_trans; eauto|].
    intros j [<-|Hin]; [|now apply H'].
    intros Hh. apply (sh_has _ _ S') in Hh.
    destruct (mem_node (node_of i) (s_nodes st)) eqn:Hm.
    + assert (Hc := clear_reader_Cleared st i Hm). fold st1 in Hc.
      unfold has in Hh. rewrite (cl_data _ _ _ Hc) in Hh.
      assert (mem_node (node_of i) (descs_with st (node_of i)) = true) as E
          by (apply mem_node_In, descs_with_self).
      rewrite E in Hh. now apply Hh.
    + unfold st1, clear_reader, clear_with_descs in Hh. rewrite Hm in Hh.
      destruct Q as ((_ & C & _) & _). apply mem_node_false in Hm. apply Hm. now apply (cv_node _ C).
Qed.

Lemma in_rg_readers st r j : In j (rg_readers st r) <-> In (r, j) (s_redges st).
Proof.
  unfold rg_readers. rewrite in_map_iff. split.
  - intros ([r' j'] & <- & H). apply filter_In in H as (H & E). simpl in *.
    apply Nat.eqb_eq in E. now subst.
  - intros H. exists (r, j). split; [reflexivity|]. apply filter_In. split; [exact H|]. simpl. apply Nat.eqb_refl.
Qed.

Lemma Quiet_clear_attr_referrers st r :
  Quiet st ->
  let st' := clear_attr_referrers st r in
  Quiet st' /\ Shrinks st st' /\ forall j, ~ In (r, j) (s_redges st').
Proof.
  intros Q. unfold clear_attr_referrers.
  set (readers := rg_readers st r).
  destruct (fold_clear_reader_gone readers st Q) as (Q1 & S1 & Hgone).
  set (st1 := fold_left clear_reader readers st) in *.
  set (st' := upd_rgraph st1 (filter (fun i => negb (mem_item i readers)) (s_rnodes st1))
                (filter (fun e => negb (Nat.eqb (fst e) r) && negb (mem_item (snd e) readers)) (s_redges st1))).
  assert (Hre : forall e, In e (s_redges st') <->
                  In e (s_redges st1) /\ fst e <> r /\ ~ In (snd e) readers).
  { intros e. unfold st'. cbn [s_redges upd_rgraph]. rewrite filter_In, andb_true_iff, !negb_true_iff, Nat.eqb_neq.
    split; intros (A & B & C); (split; [exact A|split; [exact B|]]).
    - intros Hin. pose proof (proj2 (mem_item_In (snd e) readers) Hin) as X. exact (eq_true_false_abs _ X C).
    - apply Bool.not_true_is_false. intros E. apply C. exact (proj1 (mem_item_In (snd e) readers) E). }
  destruct Q1 as ((HI & C & SO) & Hs & Hrs).
  split; [|split].
  - split; [|split; [exact Hs|exact Hrs]].
    split; [exact HI|split; [|exact SO]].
    constructor; try (apply C).
    intros j v Hl Hm. change (lookup_data (s_data st1) j = Some v) in Hl.
    change (mem_item j (s_inputs st1) = false) in Hm.
    destruct (cv_reads _ C j v Hl Hm) as (f & ds & A & B).
    exists f, ds. split; [exact A|]. eapply Forall_impl; [|exact B]. intros x Hx.
    destruct x as [m|c|r'|c r'|]; simpl in *; try exact Hx.
    apply Hre. split; [exact Hx|]. simpl.
    assert (Hj : has st1 j) by (unfold has; congruence).
    assert (Hnr : ~ In j readers) by (intros Hin; exact (Hgone j Hin Hj)).
    split; [|exact Hnr]. intros ->. apply Hnr. apply in_rg_readers. now apply (sh_redges _ _ S1).
  - constructor; try (apply S1). intros e He. apply Hre in He as (He & _). now apply (sh_redges _ _ S1).
  - intros j Hin. apply Hre in Hin as (_ & Hn & _). now apply Hn.
Qed.

(** * The whole reference change *)
Definition in_space (st : state) (sp : option nat) (c : cid) : Prop := In c (cells_in_space st sp).

Lemma in_cells_in_space st sp c cl :
  lookup_cell (s_cells st) c = Some cl ->
  match sp with None => True | Some s => cl_space cl = s end ->
  (forall c1 c2 x1 x2, In (c1, x1) (s_cells st) -> In (c2, x2) (s_cells st) -> c1 = c2 -> x1 = x2) ->
  In c (cells_in_space st sp).
Proof.
  intros El Hsp Huniq. unfold cells_in_space. apply in_map_iff. exists (c, cl). split; [reflexivity|].
  apply filter_In. split.
  - clear - El. induction (s_cells st) as [|[d y] l IH]; simpl in *; [discriminate|].
    destruct (Nat.eqb c d) eqn:E; [apply Nat.eqb_eq in E; subst; inversion El; now left|right; now apply IH].
  - simpl. destruct sp as [s|]; [now apply Nat.eqb_eq|reflexivity].
Qed.

(** the first binding of a key is the one [lookup_cell] finds; [cells_in_space]
    may list later duplicates too, which only clears more *)
Lemma lookup_in_space st sp c cl :
  lookup_cell (s_cells st) c = Some cl ->
  match sp with None => True | Some s => cl_space cl = s end ->
  In c (cells_in_space st sp).
Proof.
  intros El Hsp. unfold cells_in_space. apply in_map_iff. exists (c, cl). split; [reflexivity|].
  apply filter_In. split.
  - clear - El. induction (s_cells st) as [|[d y] l IH]; simpl in *; [discriminate|].
    destruct (Nat.eqb c d) eqn:E; [apply Nat.eqb_eq in E; subst; inversion El; now left|right; now apply IH].
  - simpl. destruct sp as [s|]; [now apply Nat.eqb_eq|reflexivity].
Qed.

Theorem Quiet_set_ref st r v x st' :
  Quiet st -> refn_ok st -> set_ref_value st r v = (x, st') -> Quiet st' /\ refn_ok st'.
Proof.
  intros Q Hrn H. unfold set_ref_value in H.
  destruct (lookup_ref (s_refs st) r) as [[sp w]|] eqn:Er; [|inversion H; subst; auto].
  set (st2 := clear_attr_referrers st r) in *.
  destruct (Quiet_clear_attr_referrers st r Q) as (Q2 & S2 & Hno2). fold st2 in Q2, S2, Hno2.
  set (L := cells_in_space st2 sp) in *.
  destruct (fold_ns_cleared L st2 Q2) as (Q3 & S3 & Hcl).
  set (st3 := fold_left on_namespace_change L st2) in *.
  inversion H; subst x st'. clear H.
  set (st4 := upd_refs st3 (set_ref (s_refs st3) r (sp, v))).
  assert (S03 : Shrinks st st3) by (eapply Shrinks_trans; eauto).
  assert (Hcells : s_cells st3 = s_cells st) by (apply (sh_cells _ _ S03)).
  assert (Hrefs : s_refs st3 = s_refs st) by (apply (sh_refs _ _ S03)).
  assert (Hno3 : forall j, ~ In (r, j) (s_redges st3)).
  { intros j Hin. apply (Hno2 j). now apply (sh_redges _ _ S3). }
  assert (Er3 : lookup_ref (s_refs st3) r = Some (sp, w)) by (now rewrite Hrefs).
  destruct Q3 as ((HI & C & SO) & Hs & Hrs).
  assert (Hlk : forall r', r' <> r -> lookup_ref (s_refs st4) r' = lookup_ref (s_refs st3) r').
  { intros r' Hr'. simpl. rewrite lookup_set_ref by congruence.
    destruct (Nat.eqb r' r) eqn:E; [apply Nat.eqb_eq in E; contradiction|reflexivity]. }
  (* no held computed element read the reference *)
  assert (Hnoread : forall j wv f ds, lookup_data (s_data st3) j = Some wv -> mem_item j (s_inputs st3) = false ->
              dr_own f (defs_of st3) (input_data st3) j = (Val wv, ds) -> Forall (cov_rd st3 j) ds ->
              forall y, In y ds -> match y with RAttr r' | RName _ r' => r' <> r | _ => True end).
  { intros j wv f ds Hl Hm Hown Hcov y Hy.
    pose proof (proj1 (Forall_forall _ _) Hcov y Hy) as Hc.
    destruct y as [m|c|r'|c r'|]; try exact I.
    - simpl in Hc. intros ->. exact (Hno3 j Hc).
    - intros ->. destruct (rname_own _ _ _ _ _ _ _ _ Hown Hy) as (cl & Elc & Hb).
      unfold defs_of in Elc; simpl in Elc.
      assert (Hvis : match sp with None => True | Some s => cl_space cl = s end).
      { destruct sp as [s|]; [|exact I]. rewrite Hcells in Elc.
        eapply (Hrn c cl r s w); eauto. }
      assert (Hin : In c L).
      { unfold L. apply (lookup_in_space st2 sp c cl); [|exact Hvis].
        now rewrite (sh_cells _ _ S2), <- Hcells. }
      assert (El2 : lookup_cell (s_cells st2) c = Some cl) by (now rewrite (sh_cells _ _ S2), <- Hcells).
      destruct (Hcl c cl Hin El2) as (A & B).
      assert (Hj : has st3 j) by (unfold has; congruence).
      simpl in Hc. destruct Hc as [Hc|Hc].
      + subst c. pose proof (cv_cached _ C j Hj) as Hca. unfold is_cached in Hca. rewrite Elc in Hca.
        rewrite (A Hca j eq_refl Hj) in Hm. discriminate.
      + destruct (cv_edge _ C _ _ Hc) as (Hn & _). pose proof (cv_obj _ C c Hn) as Hun.
        unfold is_cached in Hun. rewrite Elc in Hun. exact (B Hun Hn). }
  set (PC := fun _ : cid => True). set (PR := fun r' : rid => r' <> r). set (PI := fun _ : item => True).
  assert (Hsafe : forall j wv f ds, lookup_data (s_data st3) j = Some wv -> mem_item j (s_inputs st3) = false ->
              dr_own f (defs_of st3) (input_data st3) j = (Val wv, ds) -> Forall (cov_rd st3 j) ds ->
              Forall (safe_rd st3 PC PR PI) ds).
  { intros j wv f ds Hl Hm Hown Hcov. apply Forall_forall. intros y Hy.
    pose proof (Hnoread j wv f ds Hl Hm Hown Hcov y Hy) as Hn.
    pose proof (proj1 (Forall_forall _ _) Hcov y Hy) as Hc.
    destruct y as [m|c|r'|c r'|]; simpl in *; auto. destruct Hc as (_ & Hh). repeat split; auto. }
  assert (AG : Agree st3 (defs_of st4) (input_data st4) PC PR PI).
  { constructor.
    - intros c _. reflexivity.
    - intros r' Hr'. now apply Hlk.
    - intros r' Hn. simpl. rewrite lookup_set_ref by congruence.
      destruct (Nat.eqb r' r) eqn:E; [apply Nat.eqb_eq in E; subst; congruence|exact Hn].
    - intros i _. reflexivity.
    - intros m Hm Hni _ _. destruct (lookup_data (s_data st3) m) as [wv|] eqn:Elm; [|now elim Hm].
      destruct (cv_reads _ C m wv Elm Hni) as (f & ds & A & B).
      exists f, wv, ds. split; [exact A|]. eapply Hsafe; eauto. }
  assert (C' : Cov st4).
  { constructor; try (apply C).
    intros j wv Hl Hm. change (s_data st4) with (s_data st3) in Hl. change (s_inputs st4) with (s_inputs st3) in Hm.
    destruct (cv_reads _ C j wv Hl Hm) as (f & ds & A & B).
    exists f, ds. split; [|exact B].
    destruct (lookup_cell (s_cells st3) (fst j)) as [clj|] eqn:Ecj.
    - eapply locality_own; eauto. exact I.
    - unfold dr_own, defs_of in A; simpl in A. rewrite Ecj in A. discriminate. }
  split.
  - split; [|split; [exact Hs|exact Hrs]].
    split; [|split; [exact C'|exact SO]]. apply Inv_of_Cov; [exact (proj1 HI)|exact C'].
  - intros c cl r' sp' v' Elc Hb Hr'. simpl in Elc. rewrite Hcells in Elc. simpl in Hr'.
    rewrite lookup_set_ref in Hr' by congruence. rewrite Hrefs in Hr'.
    destruct (Nat.eqb r' r) eqn:E.
    + apply Nat.eqb_eq in E; subst r'. inversion Hr'; subst. eapply Hrn; eauto.
    + eapply Hrn; eauto.
Qed.
