(** Elementary facts about the data structures of [Exec.Model]:
    boolean equalities, association lists, frame lemmas for the stack
    operations. *)
From Coq Require Import List ZArith Bool Arith Lia.
From MX Require Import Exec.Model Exec.Spec.
Import ListNotations.

(** * Boolean equalities decide Leibniz equality *)
Lemma val_eqb_eq a b : val_eqb a b = true <-> a = b.
Proof.
  destruct a as [x|], b as [y|]; simpl; split; intros H; try congruence; try discriminate.
  - apply Z.eqb_eq in H; congruence.
  - inversion H; apply Z.eqb_refl.
Qed.

Lemma key_eqb_eq a b : key_eqb a b = true <-> a = b.
Proof.
  revert b; induction a as [|x a IH]; intros [|y b]; simpl; split; intros H;
    try congruence; try discriminate.
  - apply andb_true_iff in H as [H1 H2]. apply val_eqb_eq in H1. apply IH in H2. congruence.
  - inversion H; subst. apply andb_true_iff; split; [now apply val_eqb_eq|now apply IH].
Qed.

Lemma item_eqb_eq a b : item_eqb a b = true <-> a = b.
Proof.
  destruct a as [c k], b as [c' k']; unfold item_eqb; simpl; split; intros H.
  - apply andb_true_iff in H as [H1 H2]. apply Nat.eqb_eq in H1. apply key_eqb_eq in H2. congruence.
  - inversion H; subst. apply andb_true_iff; split; [apply Nat.eqb_refl|now apply key_eqb_eq].
Qed.

Lemma item_eqb_refl a : item_eqb a a = true.
Proof. now apply item_eqb_eq. Qed.

Lemma item_eqb_neq a b : item_eqb a b = false <-> a <> b.
Proof.
  split; intros H.
  - intros E. apply item_eqb_eq in E. congruence.
  - destruct (item_eqb a b) eqn:E; [apply item_eqb_eq in E; contradiction|reflexivity].
Qed.

Lemma node_eqb_eq a b : node_eqb a b = true <-> a = b.
Proof.
  destruct a as [c k|c], b as [c' k'|c']; simpl; split; intros H; try congruence; try discriminate.
  - apply andb_true_iff in H as [H1 H2]. apply Nat.eqb_eq in H1. apply key_eqb_eq in H2. congruence.
  - inversion H; subst. apply andb_true_iff; split; [apply Nat.eqb_refl|now apply key_eqb_eq].
  - apply Nat.eqb_eq in H; congruence.
  - inversion H; apply Nat.eqb_refl.
Qed.

Lemma node_eqb_refl a : node_eqb a a = true.
Proof. now apply node_eqb_eq. Qed.

Lemma mem_item_In i l : mem_item i l = true <-> In i l.
Proof.
  unfold mem_item. rewrite existsb_exists. split.
  - intros (x & Hx & E). apply item_eqb_eq in E. now subst.
  - intros H. exists i. split; [assumption|apply item_eqb_refl].
Qed.

Lemma mem_node_In n l : mem_node n l = true <-> In n l.
Proof.
  unfold mem_node. rewrite existsb_exists. split.
  - intros (x & Hx & E). apply node_eqb_eq in E. now subst.
  - intros H. exists n. split; [assumption|apply node_eqb_refl].
Qed.

(** * Data association list *)
Lemma lookup_set_same d i v : lookup_data (set_data d i v) i = Some v.
Proof.
  unfold set_data. destruct (lookup_data d i) eqn:E.
  - induction d as [|[j w] d IH]; simpl in *; [discriminate|].
    destruct (item_eqb i j) eqn:Ej; simpl.
    + now rewrite Ej.
    + rewrite Ej. now apply IH.
  - induction d as [|[j w] d IH]; simpl in *.
    + now rewrite item_eqb_refl.
    + destruct (item_eqb i j); [discriminate|now apply IH].
Qed.

Lemma lookup_set_other d i v j : j <> i -> lookup_data (set_data d i v) j = lookup_data d j.
Proof.
  intros Hn. unfold set_data. destruct (lookup_data d i) eqn:E.
  - clear E. induction d as [|[x w] d IH]; simpl; [reflexivity|].
    destruct (item_eqb i x) eqn:Ex; simpl.
    + apply item_eqb_eq in Ex; subst x.
      assert (item_eqb j i = false) as -> by (now apply item_eqb_neq). exact IH.
    + destruct (item_eqb j x); [reflexivity|exact IH].
  - clear E. induction d as [|[x w] d IH]; simpl.
    + assert (item_eqb j i = false) as -> by (now apply item_eqb_neq). reflexivity.
    + destruct (item_eqb j x); [reflexivity|exact IH].
Qed.

Lemma filter_set_data (q : item -> bool) d i v :
  q i = false ->
  filter (fun p => q (fst p)) (set_data d i v) = filter (fun p => q (fst p)) d.
Proof.
  intros Hq. unfold set_data. destruct (lookup_data d i).
  - induction d as [|[x w] d IH]; simpl; [reflexivity|].
    destruct (item_eqb i x) eqn:Ex; simpl.
    + apply item_eqb_eq in Ex; subst x. rewrite Hq. exact IH.
    + destruct (q x); [now rewrite IH|exact IH].
  - rewrite filter_app. simpl. rewrite Hq. apply app_nil_r.
Qed.

Lemma lookup_filter (q : item -> bool) d i :
  lookup_data (filter (fun p => q (fst p)) d) i = if q i then lookup_data d i else None.
Proof.
  induction d as [|[x w] d IH]; simpl; [now destruct (q i)|].
  destruct (q x) eqn:Qx; simpl.
  - destruct (item_eqb i x) eqn:Ex.
    + apply item_eqb_eq in Ex; subst x. now rewrite Qx.
    + exact IH.
  - destruct (item_eqb i x) eqn:Ex.
    + apply item_eqb_eq in Ex; subst x. rewrite Qx in *. exact IH.
    + exact IH.
Qed.

Lemma lookup_input_data st i :
  lookup_data (input_data st) i =
  if mem_item i (s_inputs st) then lookup_data (s_data st) i else None.
Proof. unfold input_data. apply (lookup_filter (fun x => mem_item x (s_inputs st))). Qed.

(** * The part of the state that evaluation never changes except by adding values *)
Definition static (st : state) :=
  (s_cells st, s_refs st, s_inputs st, s_maxdepth st, s_recalc st).

Lemma static_g_add_edge st a b : static (g_add_edge st a b) = static st.
Proof. reflexivity. Qed.
Lemma static_g_add_node st a : static (g_add_node st a) = static st.
Proof. reflexivity. Qed.
Lemma data_g_add_edge st a b : s_data (g_add_edge st a b) = s_data st.
Proof. reflexivity. Qed.

Lemma pop_refs_fields st d i rs :
  let r := pop_refs st d i rs in
  static (fst r) = static st /\ s_data (fst r) = s_data st /\ s_stack (fst r) = s_stack st
  /\ s_rolled (fst r) = s_rolled st /\ s_err (fst r) = s_err st /\ s_log (fst r) = s_log st.
Proof.
  revert st; induction rs as [|[d' r'] rs IH]; intros st; simpl.
  - repeat split.
  - destruct (Nat.eqb d' d); [|repeat split].
    specialize (IH (rg_add_edge st r' i)). simpl in IH. exact IH.
Qed.

Lemma pop_frame_fields st :
  static (pop_frame st) = static st /\ s_data (pop_frame st) = s_data st
  /\ s_stack (pop_frame st) = tl (s_stack st) /\ s_rolled (pop_frame st) = s_rolled st
  /\ s_err (pop_frame st) = s_err st /\ s_log (pop_frame st) = s_log st.
Proof.
  unfold pop_frame. destruct (s_stack st) as [|i rest] eqn:Es.
  - rewrite Es. repeat split.
  - set (st1 := upd_stack st rest).
    set (st2 := match nearest_cached st1 rest with
                | Some caller => if is_cached st (fst i) then g_add_edge st1 (node_of i) (node_of caller)
                                 else g_add_edge st1 (NObj (fst i)) (node_of caller)
                | None => if is_cached st (fst i) then g_add_node st1 (node_of i) else st1
                end).
    assert (H2 : static st2 = static st /\ s_data st2 = s_data st /\ s_stack st2 = rest
                 /\ s_rolled st2 = s_rolled st /\ s_err st2 = s_err st /\ s_log st2 = s_log st).
    { unfold st2. destruct (nearest_cached st1 rest); destruct (is_cached st (fst i)); repeat split. }
    destruct H2 as (A & B & C & D & E & F).
    destruct (is_cached st (fst i)).
    + pose proof (pop_refs_fields st2 (List.length rest) i (s_refstack st2)) as P.
      destruct (pop_refs st2 (List.length rest) i (s_refstack st2)) as [st3 rs]. simpl in P.
      destruct P as (A' & B' & C' & D' & E' & F').
      simpl. unfold static in *. simpl. repeat split; congruence.
    + destruct rest; simpl; unfold static in *; simpl; repeat split; congruence.
Qed.

Lemma rollback_frame_fields st ln :
  static (rollback_frame st ln) = static st /\ s_data (rollback_frame st ln) = s_data st
  /\ s_stack (rollback_frame st ln) = tl (s_stack st) /\ s_log (rollback_frame st ln) = s_log st.
Proof.
  unfold rollback_frame. destruct (s_stack st) as [|i rest] eqn:Es.
  - rewrite Es. repeat split.
  - simpl. destruct (mem_node (node_of i) (s_nodes st)); repeat split.
Qed.
