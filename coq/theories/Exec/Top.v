(** Top-level consequences of the simulation: C01 (transparency, computed
    once, canonical binding) and C05 (failed evaluations). *)
From Coq Require Import List ZArith Bool Arith Lia.
From MX Require Import Exec.Model Exec.Spec Exec.Basics Exec.SpecMono Exec.Masks Exec.Sim.
Import ListNotations.

(** * eval_top *)
Lemma eval_top_sim fuel st i r st' :
  eval_top fuel st i = (r, st') -> r <> OutOfFuel -> Inv st ->
  Inv st' /\ frame st st' /\ (s_masks st' = s_masks st -> agrees r (fun g => spec_eval g st i)).
Proof.
  intros H Hr HI. unfold eval_top in H.
  destruct (lookup_cell (s_cells st) (fst i)) as [cl|] eqn:El.
  - destruct (if cl_cached cl then lookup_data (s_data st) i else None) as [v|] eqn:Eh.
    + inversion H; subst. split; [assumption|]. split; [apply frame_refl|]. intros _.
      destruct (cl_cached cl) eqn:Ec; [|discriminate].
      destruct HI as (I1 & I2). destruct (I2 i v Eh) as [Hm|(g & Hg)].
      * exists 1. unfold spec_eval. simpl. unfold defs_of; simpl. rewrite El, Ec.
        now rewrite lookup_input_data, Hm, Eh.
      * exists g. exact Hg.
    + set (st0 := upd_taint (upd_rolled (upd_err st None) []) 0) in *.
      assert (I0 : Inv st0) by exact HI.
      destruct (eval_formula fuel st0 cl i) as [[v|k|] st1] eqn:Ef.
      * destruct (proj1 (proj2 (proj2 (proj2 (sim_all fuel)))) _ _ _ _ _ Ef ltac:(discriminate) I0 El Eh)
          as (I1 & F1 & A1).
        inversion H; subst. split; [assumption|]. split; [exact F1|exact A1].
      * destruct (proj1 (proj2 (proj2 (proj2 (sim_all fuel)))) _ _ _ _ _ Ef ltac:(discriminate) I0 El Eh)
          as (I1 & F1 & A1).
        inversion H; subst. split; [exact I1|]. split; [|exact A1].
        destruct F1 as (a & b & c & d). repeat split; assumption.
      * inversion H; subst. congruence.
  - inversion H; subst. split; [assumption|]. split; [apply frame_refl|]. intros _.
    right. exists 1. unfold spec_eval; simpl. unfold defs_of; simpl. now rewrite El.
Qed.

(** * Histories of evaluations *)
Definition is_eval (o : op) : bool := match o with OpEval _ => true | _ => false end.

Lemma Inv_init cells refs maxd : Inv (init cells refs maxd).
Proof. split; intros i; simpl; intros; discriminate. Qed.

Lemma step_eval_Inv fuel st i x st' :
  step fuel st (OpEval i) = (x, st') -> x <> OFuel -> Inv st ->
  Inv st' /\ frame st st' /\
  (s_masks st' = s_masks st ->
   match x with
   | OVal v => exists g, spec_eval g st i = Val v
   | OErr k => k = KDeep \/ exists g, spec_eval g st i = Err k
   | _ => False
   end).
Proof.
  simpl. destruct (eval_top fuel st i) as [[v|k|] st1] eqn:E; intros H Hx HI; inversion H; subst.
  - destruct (eval_top_sim _ _ _ _ _ E ltac:(discriminate) HI) as (A & B & C). auto.
  - destruct (eval_top_sim _ _ _ _ _ E ltac:(discriminate) HI) as (A & B & C). auto.
  - congruence.
Qed.

(** the specification value of an element does not change along a frame *)
Lemma spec_eval_frame st st' g i : frame st st' -> spec_eval g st' i = spec_eval g st i.
Proof. intros F. destruct (frame_defs _ _ F) as (A & B). unfold spec_eval. now rewrite A, B. Qed.

(** C01, transparency: in a state reached from [init] by any sequence of
    evaluations (in any order, whatever they returned), a further evaluation
    returns the specification value *)
Fixpoint no_fuel_out (xs : list out) : Prop :=
  match xs with [] => True | OFuel :: _ => False | _ :: t => no_fuel_out t end.

Lemma run_evals_Inv fuel ops : forall st xs st',
  forallb is_eval ops = true -> run fuel st ops = (xs, st') -> no_fuel_out xs -> Inv st ->
  Inv st' /\ frame st st'.
Proof.
  induction ops as [|o ops IH]; intros st xs st' Hall H Hnf HI; simpl in *.
  - inversion H; subst. split; [assumption|apply frame_refl].
  - apply andb_true_iff in Hall as (Ho & Hall). destruct o; try discriminate.
    destruct (eval_top fuel st i) as [r st1] eqn:E.
    assert (Hcases : exists x, (match r with Val v => OVal v | Err k => OErr k | OutOfFuel => OFuel end) = x /\
                     (let (xs0, st2) := run fuel st1 ops in (x :: xs0, st2)) = (xs, st')).
    { destruct r; eexists; (split; [reflexivity|]); unfold step in H; rewrite E in H; exact H. }
    destruct Hcases as (x & Hx & H').
    destruct (run fuel st1 ops) as [xs1 st2] eqn:Er. inversion H'; subst xs st2; clear H'.
    assert (Hr : r <> OutOfFuel /\ no_fuel_out xs1).
    { destruct r; subst x; simpl in Hnf; split; try discriminate; try assumption; contradiction. }
    destruct Hr as (Hr & Hnf1).
    destruct (eval_top_sim _ _ _ _ _ E Hr HI) as (I1 & F1 & _).
    destruct (IH _ _ _ Hall Er Hnf1 I1) as (I2 & F2).
    split; [assumption|eapply frame_trans; eauto].
Qed.

Theorem transparent fuel cells refs maxd ops xs st i x st' :
  forallb is_eval ops = true ->
  run fuel (init cells refs maxd) ops = (xs, st) -> no_fuel_out xs ->
  step fuel st (OpEval i) = (x, st') -> x <> OFuel -> s_masks st' = s_masks st ->
  match x with
  | OVal v => exists g, sp_node g (cells, refs) [] i = Val v
  | OErr k => k = KDeep \/ exists g, sp_node g (cells, refs) [] i = Err k
  | _ => False
  end.
Proof.
  intros Hall Hrun Hnf Hstep Hx Hmk.
  destruct (run_evals_Inv _ _ _ _ _ Hall Hrun Hnf (Inv_init cells refs maxd)) as (I1 & F1).
  destruct (step_eval_Inv _ _ _ _ _ Hstep Hx I1) as (_ & _ & A). specialize (A Hmk).
  destruct (frame_defs _ _ F1) as (D1 & P1).
  unfold spec_eval in A. rewrite D1, P1 in A. exact A.
Qed.

(** * Computed once: an element holding a value is never executed again *)
Definition held (st : state) (i : item) : Prop :=
  is_cached st (fst i) = true /\ lookup_data (s_data st) i <> None.

Definition log_ext (st st' : state) : Prop := exists l, s_log st' = l ++ s_log st.

Definition once_expr (f : nat) : Prop :=
  forall st args locs line e r st' j, eval_expr f st args locs line e = (r, st') -> r <> OutOfFuel ->
    Inv st -> held st j -> exists l, s_log st' = l ++ s_log st /\ ~ In j l.
Definition once_args (f : nat) : Prop :=
  forall st args locs line es r st' j, eval_args f st args locs line es = (r, st') -> r <> OutOfFuel ->
    Inv st -> held st j -> exists l, s_log st' = l ++ s_log st /\ ~ In j l.
Definition once_node (f : nat) : Prop :=
  forall st line i r st' j, eval_node f st line i = (r, st') -> r <> OutOfFuel ->
    Inv st -> held st j -> exists l, s_log st' = l ++ s_log st /\ ~ In j l.
Definition once_formula (f : nat) : Prop :=
  forall st cl i r st' j, eval_formula f st cl i = (r, st') -> r <> OutOfFuel ->
    Inv st -> lookup_cell (s_cells st) (fst i) = Some cl ->
    (if cl_cached cl then lookup_data (s_data st) i else None) = None ->
    held st j -> exists l, s_log st' = l ++ s_log st /\ ~ In j l.
Definition once_body (f : nat) : Prop :=
  forall st args locs whole rest idx r st' ln j,
    exec_body f st args locs whole rest idx = (r, st', ln) -> r <> OutOfFuel ->
    Inv st -> held st j -> exists l, s_log st' = l ++ s_log st /\ ~ In j l.

Lemma held_frame st st' j : frame st st' -> held st j -> held st' j.
Proof.
  intros (S1 & _ & M & _) (Hc & Hd). split.
  - unfold is_cached in *. now rewrite (static_cells _ _ S1).
  - destruct (lookup_data (s_data st) j) as [v|] eqn:E; [|contradiction].
    rewrite (M j v E). discriminate.
Qed.

Ltac seq_log L1 L2 :=
  destruct L1 as (l1 & L1a & L1b); destruct L2 as (l2 & L2a & L2b);
  exists (l2 ++ l1); split;
  [rewrite L2a, L1a; now rewrite app_assoc
  |intros Hin; apply in_app_or in Hin; tauto].

Lemma once_all : forall f, once_expr f /\ once_args f /\ once_node f /\ once_formula f /\ once_body f.
Proof.
  induction f as [|f (IHe & IHa & IHn & IHf & IHb)].
  { split; [|split; [|split; [|split]]];
      unfold once_expr, once_args, once_node, once_formula, once_body; intros;
      match goal with H : _ = (_, _) |- _ => simpl in H; inversion H; subst; congruence end. }
  assert (SE := proj1 (sim_all f)).
  assert (SA := proj1 (proj2 (sim_all f))).
  assert (SB := proj2 (proj2 (proj2 (proj2 (sim_all f))))).
  split; [|split; [|split; [|split]]].
  - intros st args locs line e r st' j H Hr HI Hj.
    destruct e; simpl in H;
      try (inversion H; subst; exists []; split; [reflexivity|intros []]; fail).
    + destruct (eval_expr f st args locs line e1) as [[va|k|] st1] eqn:E1.
      * destruct (SE _ _ _ _ _ _ _ E1 ltac:(discriminate) HI) as (I1 & F1 & _).
        pose proof (IHe _ _ _ _ _ _ _ j E1 ltac:(discriminate) HI Hj) as L1.
        destruct (eval_expr f st1 args locs line e2) as [[vb|k|] st2] eqn:E2.
        -- pose proof (IHe _ _ _ _ _ _ _ j E2 ltac:(discriminate) I1 (held_frame _ _ _ F1 Hj)) as L2.
           inversion H; subst. seq_log L1 L2.
        -- pose proof (IHe _ _ _ _ _ _ _ j E2 ltac:(discriminate) I1 (held_frame _ _ _ F1 Hj)) as L2.
           inversion H; subst. seq_log L1 L2.
        -- inversion H; subst; congruence.
      * inversion H; subst. eapply IHe; eauto; discriminate.
      * inversion H; subst; congruence.
    + destruct (eval_expr f st args locs line e1) as [[vc|k|] st1] eqn:E1.
      * destruct (SE _ _ _ _ _ _ _ E1 ltac:(discriminate) HI) as (I1 & F1 & _).
        pose proof (IHe _ _ _ _ _ _ _ j E1 ltac:(discriminate) HI Hj) as L1.
        destruct vc as [z|].
        -- destruct (Z.ltb 0 z).
           ++ pose proof (IHe _ _ _ _ _ _ _ j H Hr I1 (held_frame _ _ _ F1 Hj)) as L2. seq_log L1 L2.
           ++ pose proof (IHe _ _ _ _ _ _ _ j H Hr I1 (held_frame _ _ _ F1 Hj)) as L2. seq_log L1 L2.
        -- inversion H; subst. exact L1.
      * inversion H; subst. eapply IHe; eauto; discriminate.
      * inversion H; subst; congruence.
    + destruct (eval_args f st args locs line args0) as [[vs|k|] st1] eqn:E1.
      * destruct (SA _ _ _ _ _ _ _ E1 ltac:(discriminate) HI) as (I1 & F1 & _).
        pose proof (IHa _ _ _ _ _ _ _ j E1 ltac:(discriminate) HI Hj) as L1.
        destruct (lookup_cell (s_cells st1) c) as [cl|].
        -- destruct (bind_pos cl vs) as [k|].
           ++ pose proof (IHn _ _ _ _ _ j H Hr I1 (held_frame _ _ _ F1 Hj)) as L2. seq_log L1 L2.
           ++ inversion H; subst. exact L1.
        -- inversion H; subst. exact L1.
      * inversion H; subst. eapply IHa; eauto; discriminate.
      * inversion H; subst; congruence.
    + destruct (lookup_ref (s_refs st) r0) as [[sp v]|]; inversion H; subst;
        exists []; (split; [reflexivity|intros []]).
  - intros st args locs line es r st' j H Hr HI Hj.
    destruct es as [|e rest]; simpl in H.
    + inversion H; subst. exists []. split; [reflexivity|intros []].
    + destruct (eval_expr f st args locs line e) as [[v|k|] st1] eqn:E1.
      * destruct (SE _ _ _ _ _ _ _ E1 ltac:(discriminate) HI) as (I1 & F1 & _).
        pose proof (IHe _ _ _ _ _ _ _ j E1 ltac:(discriminate) HI Hj) as L1.
        destruct (eval_args f st1 args locs line rest) as [[vs|k|] st2] eqn:E2.
        -- pose proof (IHa _ _ _ _ _ _ _ j E2 ltac:(discriminate) I1 (held_frame _ _ _ F1 Hj)) as L2.
           inversion H; subst. seq_log L1 L2.
        -- pose proof (IHa _ _ _ _ _ _ _ j E2 ltac:(discriminate) I1 (held_frame _ _ _ F1 Hj)) as L2.
           inversion H; subst. seq_log L1 L2.
        -- inversion H; subst; congruence.
      * inversion H; subst. eapply IHe; eauto; discriminate.
      * inversion H; subst; congruence.
  - intros st line i r st' j H Hr HI Hj. simpl in H.
    destruct (lookup_cell (s_cells st) (fst i)) as [cl|] eqn:El.
    + destruct (if cl_cached cl then lookup_data (s_data st) i else None) as [v|] eqn:Eh.
      * destruct (nearest_cached st (s_stack st)); inversion H; subst;
          exists []; (split; [reflexivity|intros []]).
      * eapply IHf; eauto.
    + inversion H; subst. exists []. split; [reflexivity|intros []].
  - intros st cl i r st' j H Hr HI El Em Hj. simpl in H.
    destruct (Nat.ltb (s_maxdepth st) (List.length (s_stack st))).
    { inversion H; subst. exists []. split; [reflexivity|intros []]. }
    assert (Hij : i <> j).
    { intros ->. destruct Hj as (Hc & Hd). unfold is_cached in Hc. rewrite El in Hc.
      rewrite Hc in Em. contradiction. }
    set (st1 := upd_reent (upd_log (upd_stack st (i :: s_stack st)) (i :: s_log st))
                         (s_reent st || mem_item i (s_stack st))) in *.
    assert (I1 : Inv st1) by exact HI.
    assert (Hj1 : held st1 j) by exact Hj.
    destruct (exec_body f st1 (snd i) [] (cl_body cl) (cl_body cl) 0) as [[rb st2] ln] eqn:Eb.
    assert (Hrb : rb <> OutOfFuel).
    { intros ->. inversion H; subst. congruence. }
    destruct (IHb _ _ _ _ _ _ _ _ _ j Eb Hrb I1 Hj1) as (l & La & Lb).
    change (s_log st1) with (i :: s_log st) in La.
    assert (Hlog : s_log st' = s_log st2).
    { destruct rb as [v|k|]; [|inversion H; subst; apply rollback_frame_fields|congruence].
      destruct (tainted st2).
      { destruct v as [z|]; [|destruct (cl_allow_none cl)]; inversion H; subst;
          try apply rollback_frame_fields; exact (proj2 (proj2 (proj2 (rollback_frame_fields st2 0)))). }
      destruct (cl_cached cl).
      - unfold store_value in H.
        destruct v as [z|]; [|destruct (cl_allow_none cl)]; inversion H; subst;
          try (etransitivity; [apply pop_frame_fields|reflexivity]);
          apply rollback_frame_fields.
      - destruct v as [z|]; [|destruct (cl_allow_none cl)]; inversion H; subst;
          try apply pop_frame_fields; apply rollback_frame_fields. }
    exists (l ++ [i]). split.
    + rewrite Hlog, La. now rewrite <- app_assoc.
    + intros Hin. apply in_app_or in Hin as [Hin|[Hin|[]]]; [tauto|congruence].
  - intros st args locs whole rest idx r st' ln j H Hr HI Hj.
    destruct rest as [|s more]; simpl in H.
    + inversion H; subst. exists []. split; [reflexivity|intros []].
    + destruct s as [e|e h|e fc].
      * destruct (eval_expr f st args locs (stmt_line whole idx) e) as [[v|k|] st1] eqn:E1.
        -- destruct (SE _ _ _ _ _ _ _ E1 ltac:(discriminate) HI) as (I1 & F1 & _).
           pose proof (IHe _ _ _ _ _ _ _ j E1 ltac:(discriminate) HI Hj) as L1.
           pose proof (IHb _ _ _ _ _ _ _ _ _ j H Hr I1 (held_frame _ _ _ F1 Hj)) as L2. seq_log L1 L2.
        -- inversion H; subst. eapply IHe; eauto; discriminate.
        -- inversion H; subst; congruence.
      * destruct (eval_expr f st args locs (stmt_line whole idx + 1) e) as [[v|k|] st1] eqn:E1.
        -- destruct (SE _ _ _ _ _ _ _ E1 ltac:(discriminate) HI) as (I1 & F1 & _).
           pose proof (IHe _ _ _ _ _ _ _ j E1 ltac:(discriminate) HI Hj) as L1.
           pose proof (IHb _ _ _ _ _ _ _ _ _ j H Hr I1 (held_frame _ _ _ F1 Hj)) as L2. seq_log L1 L2.
        -- destruct (SE _ _ _ _ _ _ _ E1 ltac:(discriminate) HI) as (I1 & F1 & _).
           pose proof (IHe _ _ _ _ _ _ _ j E1 ltac:(discriminate) HI Hj) as L1.
           destruct (catchable k).
           ++ set (st1' := upd_rolled st1 []) in *.
              assert (I1' : Inv st1') by exact I1.
              assert (Hj1' : held st1' j) by exact (held_frame _ _ _ F1 Hj).
              destruct (eval_expr f st1' args locs (stmt_line whole idx + 3) h) as [[v|k2|] st2] eqn:E2.
              ** destruct (SE _ _ _ _ _ _ _ E2 ltac:(discriminate) I1') as (I2 & F2 & _).
                 pose proof (IHe _ _ _ _ _ _ _ j E2 ltac:(discriminate) I1' Hj1') as L2.
                 change (s_log st1') with (s_log st1) in L2.
                 pose proof (IHb _ _ _ _ _ _ _ _ _ j H Hr I2 (held_frame _ _ _ F2 Hj1')) as L3.
                 destruct L1 as (l1 & L1a & L1b); destruct L2 as (l2 & L2a & L2b);
                   destruct L3 as (l3 & L3a & L3b).
                 exists (l3 ++ l2 ++ l1). split.
                 --- rewrite L3a, L2a, L1a. now rewrite !app_assoc.
                 --- intros Hin. apply in_app_or in Hin as [Hin|Hin]; [tauto|].
                     apply in_app_or in Hin; tauto.
              ** pose proof (IHe _ _ _ _ _ _ _ j E2 ltac:(discriminate) I1' Hj1') as L2.
                 change (s_log st1') with (s_log st1) in L2.
                 inversion H; subst. seq_log L1 L2.
              ** inversion H; subst; congruence.
           ++ inversion H; subst. exact L1.
        -- inversion H; subst; congruence.
      * destruct (eval_expr f st args locs (stmt_line whole idx + 1) e) as [[v|k|] st1] eqn:E1.
        -- destruct (SE _ _ _ _ _ _ _ E1 ltac:(discriminate) HI) as (I1 & F1 & _).
           pose proof (IHe _ _ _ _ _ _ _ j E1 ltac:(discriminate) HI Hj) as L1.
           pose proof (held_frame _ _ _ F1 Hj) as Hj1.
           destruct (eval_expr f st1 args locs (stmt_line whole idx + 3) fc) as [[w|k2|] st2] eqn:E2.
           ++ destruct (SE _ _ _ _ _ _ _ E2 ltac:(discriminate) I1) as (I2 & F2 & _).
              pose proof (IHe _ _ _ _ _ _ _ j E2 ltac:(discriminate) I1 Hj1) as L2.
              pose proof (IHb _ _ _ _ _ _ _ _ _ j H Hr I2 (held_frame _ _ _ F2 Hj1)) as L3.
              destruct L1 as (l1 & L1a & L1b); destruct L2 as (l2 & L2a & L2b);
                destruct L3 as (l3 & L3a & L3b).
              exists (l3 ++ l2 ++ l1). split.
              ** rewrite L3a, L2a, L1a. now rewrite !app_assoc.
              ** intros Hin. apply in_app_or in Hin as [Hin|Hin]; [tauto|].
                 apply in_app_or in Hin; tauto.
           ++ pose proof (IHe _ _ _ _ _ _ _ j E2 ltac:(discriminate) I1 Hj1) as L2.
              inversion H; subst. seq_log L1 L2.
           ++ inversion H; subst; congruence.
        -- destruct (SE _ _ _ _ _ _ _ E1 ltac:(discriminate) HI) as (I1 & F1 & _).
           pose proof (IHe _ _ _ _ _ _ _ j E1 ltac:(discriminate) HI Hj) as L1.
           set (st1' := upd_rolled st1 []) in *.
           assert (I1' : Inv st1') by exact I1.
           assert (Hj1' : held st1' j) by exact (held_frame _ _ _ F1 Hj).
           destruct (eval_expr f st1' args locs (stmt_line whole idx + 3) fc) as [[w|k2|] st2] eqn:E2.
           ++ pose proof (IHe _ _ _ _ _ _ _ j E2 ltac:(discriminate) I1' Hj1') as L2.
              change (s_log st1') with (s_log st1) in L2.
              inversion H; subst.
              change (s_log (upd_rolled st2 (s_rolled st1))) with (s_log st2). seq_log L1 L2.
           ++ pose proof (IHe _ _ _ _ _ _ _ j E2 ltac:(discriminate) I1' Hj1') as L2.
              change (s_log st1') with (s_log st1) in L2.
              inversion H; subst.
              assert (Hl : s_log (if ekind_eqb k KDeep then upd_masks st2 (S (s_masks st2)) else st2) = s_log st2)
                by (destruct (ekind_eqb k KDeep); reflexivity).
              rewrite Hl. seq_log L1 L2.
           ++ inversion H; subst; congruence.
        -- inversion H; subst; congruence.
Qed.

Theorem computed_once fuel st i r st' j :
  eval_top fuel st i = (r, st') -> r <> OutOfFuel -> Inv st -> held st j ->
  exists l, s_log st' = l ++ s_log st /\ ~ In j l.
Proof.
  intros H Hr HI Hj. unfold eval_top in H.
  destruct (lookup_cell (s_cells st) (fst i)) as [cl|] eqn:El.
  - destruct (if cl_cached cl then lookup_data (s_data st) i else None) as [v|] eqn:Eh.
    + inversion H; subst. exists []. split; [reflexivity|intros []].
    + set (st0 := upd_taint (upd_rolled (upd_err st None) []) 0) in *.
      destruct (eval_formula fuel st0 cl i) as [[v|k|] st1] eqn:Ef.
      * inversion H; subst.
        destruct (proj1 (proj2 (proj2 (proj2 (once_all fuel)))) st0 _ _ _ _ j Ef ltac:(discriminate) HI El Eh Hj)
          as (l & La & Lb).
        exists l. split; assumption.
      * inversion H; subst.
        destruct (proj1 (proj2 (proj2 (proj2 (once_all fuel)))) st0 _ _ _ _ j Ef ltac:(discriminate) HI El Eh Hj)
          as (l & La & Lb).
        exists l. split; assumption.
      * inversion H; subst; congruence.
  - inversion H; subst. exists []. split; [reflexivity|intros []].
Qed.

(** * Canonical binding *)
Lemma bind_pos_canonical cl args k :
  bind_pos cl args = Some k -> List.length (cl_defaults cl) <= cl_nparams cl ->
  List.length k = cl_nparams cl /\ bind_pos cl k = Some k.
Proof.
  unfold bind_pos. intros H Hd.
  destruct (Nat.leb (List.length args) (cl_nparams cl) &&
            Nat.leb (cl_nparams cl - List.length (cl_defaults cl)) (List.length args)) eqn:E; [|discriminate].
  apply andb_true_iff in E as (E1 & E2). apply Nat.leb_le in E1, E2.
  inversion H; subst k; clear H.
  assert (L : List.length (args ++ skipn (List.length args - (cl_nparams cl - List.length (cl_defaults cl)))
                             (cl_defaults cl)) = cl_nparams cl).
  { rewrite app_length, skipn_length. lia. }
  split; [exact L|]. rewrite L.
  assert (Nat.leb (cl_nparams cl) (cl_nparams cl) = true) as -> by (apply Nat.leb_le; lia).
  assert (Nat.leb (cl_nparams cl - List.length (cl_defaults cl)) (cl_nparams cl) = true) as ->
      by (apply Nat.leb_le; lia).
  simpl. f_equal.
  replace (cl_nparams cl - (cl_nparams cl - List.length (cl_defaults cl))) with (List.length (cl_defaults cl)) by lia.
  rewrite skipn_all. apply app_nil_r.
Qed.

(** * Failed evaluations (C05) *)
Theorem failed_eval_consistent fuel st i k st' :
  eval_top fuel st i = (Err k, st') -> Inv st -> lookup_cell (s_cells st) (fst i) <> None ->
  Inv st' /\
  s_stack st' = s_stack st /\
  (forall j v, lookup_data (s_data st) j = Some v -> lookup_data (s_data st') j = Some v) /\
  s_cells st' = s_cells st /\ s_refs st' = s_refs st /\ s_inputs st' = s_inputs st /\
  (exists chain, s_err st' = Some (k, chain)) /\ s_rolled st' = [] /\
  (s_masks st' = s_masks st -> k = KDeep \/ exists g, spec_eval g st i = Err k).
Proof.
  intros H HI Hc.
  destruct (eval_top_sim _ _ _ _ _ H ltac:(discriminate) HI) as (I1 & (S1 & K1 & M1 & _) & A1).
  split; [assumption|]. split; [assumption|]. split; [assumption|].
  split; [now apply static_cells|]. split; [now apply static_refs|]. split; [now apply static_inputs|].
  unfold eval_top in H.
  destruct (lookup_cell (s_cells st) (fst i)) as [cl|]; [|congruence].
  destruct (if cl_cached cl then lookup_data (s_data st) i else None); [inversion H|].
  destruct (eval_formula fuel (upd_taint (upd_rolled (upd_err st None) []) 0) cl i) as [[v|k'|] st1]; inversion H; subst.
  split; [eexists; reflexivity|]. split; [reflexivity|exact A1].
Qed.

(** every later evaluation returns what the specification says, as if the
    failure had not happened: [Inv] holds again, so [eval_top_sim] applies *)
Corollary retry_after_failure fuel st i k st1 j r st2 :
  eval_top fuel st i = (Err k, st1) -> Inv st -> lookup_cell (s_cells st) (fst i) <> None ->
  eval_top fuel st1 j = (r, st2) -> r <> OutOfFuel -> s_masks st2 = s_masks st1 ->
  agrees r (fun g => spec_eval g st j).
Proof.
  intros H HI Hc H2 Hr Hmk.
  destruct (eval_top_sim _ _ _ _ _ H ltac:(discriminate) HI) as (I1 & F1 & _).
  destruct (eval_top_sim _ _ _ _ _ H2 Hr I1) as (_ & _ & A). specialize (A Hmk).
  destruct r; simpl in *.
  - destruct A as (g & A). exists g. now rewrite <- (spec_eval_frame _ _ g j F1).
  - destruct A as [->|(g & A)]; [now left|right]. exists g. now rewrite <- (spec_eval_frame _ _ g j F1).
  - exact I.
Qed.
