(** K4, part 4: quiescent states (between top-level operations) and
    evaluation from them. *)
From Coq Require Import List ZArith Bool Arith Lia.
From MX Require Import Exec.Model Exec.Spec Exec.Basics Exec.SpecMono Exec.Sim Exec.Reads Exec.Cover Exec.Cover2 Exec.Sim2 Exec.Top.
Import ListNotations.

(** value-correctness follows from the recorded reads *)
Lemma dr_own_spec f st j v ds :
  dr_own f (defs_of st) (input_data st) j = (Val v, ds) ->
  is_cached st (fst j) = true -> mem_item j (s_inputs st) = false ->
  spec_eval (S f) st j = Val v.
Proof.
  unfold dr_own, spec_eval, is_cached. simpl. unfold defs_of; simpl.
  destruct (lookup_cell (s_cells st) (fst j)) as [cl|] eqn:El; [|discriminate].
  intros H Hc Hm. rewrite Hc, lookup_input_data, Hm.
  destruct (dr_body f (s_cells st, s_refs st) (input_data st) (fst j) (snd j) [] (cl_body cl)) as [rb d] eqn:Db.
  pose proof (dr_body_fst _ _ _ _ _ _ _ _ _ Db) as Hs. rewrite Hs.
  destruct rb; inversion H; reflexivity.
Qed.

Lemma Inv_of_Cov st :
  (forall i, mem_item i (s_inputs st) = true -> lookup_data (s_data st) i <> None) ->
  Cov st -> Inv st.
Proof.
  intros I1 C. split; [exact I1|].
  intros i v Hl. destruct (mem_item i (s_inputs st)) eqn:Hm; [now left|right].
  destruct (cv_reads _ C i v Hl Hm) as (f & ds & A & _).
  exists (S f). eapply dr_own_spec; eauto. apply (cv_cached _ C). unfold has. congruence.
Qed.

(** between top-level operations nothing is executing *)
Definition Quiet (st : state) : Prop :=
  Good st /\ s_stack st = [] /\ s_refstack st = [].

Lemma rs_ok_zero rs : rs_ok 0 rs -> rs = [].
Proof. destruct rs as [|[d r] t]; [reflexivity|]. simpl. intros (A & _). lia. Qed.

Lemma Quiet_init cells refs maxd : Quiet (init cells refs maxd).
Proof.
  split; [|repeat split; auto].
  split; [apply Inv_init|]. split.
  - constructor; simpl.
    + intros i H. exfalso. now apply H.
    + intros i H. exfalso. now apply H.
    + intros j v H. discriminate.
    + intros a i [].
    + intros a b [].
    + intros i [].
    + exact I.
    + intros c [].
    + apply le_n.
  - intros x [].
Qed.

(** at the start of a top-level evaluation nothing runs over a failure *)
Lemma Good_top_start st x y : Good st -> Good (upd_taint (upd_rolled (upd_err st x) y) 0).
Proof.
  intros (HI & C & SO). split; [exact HI|]. split; [|exact SO].
  constructor; try (apply C). simpl. apply Nat.le_0_l.
Qed.

Theorem eval_top_quiet fuel st i r st' :
  eval_top fuel st i = (r, st') -> r <> OutOfFuel -> Quiet st -> s_reent st = false ->
  s_reent st' = true \/ Quiet st'.
Proof.
  intros H Hr (HG & Hs & Hrs) Hre. pose proof H as H0. unfold eval_top in H.
  destruct (lookup_cell (s_cells st) (fst i)) as [cl|] eqn:El.
  2:{ inversion H; subst. right. split; [exact HG|]. split; [exact Hs|exact Hrs]. }
  destruct (if cl_cached cl then lookup_data (s_data st) i else None) as [v|] eqn:Eh.
  { inversion H; subst. right. split; [exact HG|]. split; [exact Hs|exact Hrs]. }
  set (st0 := upd_taint (upd_rolled (upd_err st None) []) 0) in *.
  assert (G0 : Good st0) by (apply Good_top_start; exact HG).
  destruct (eval_formula fuel st0 cl i) as [rf st1] eqn:Ef.
  assert (Hrf : rf <> OutOfFuel) by (intros ->; inversion H; subst; congruence).
  destruct (proj1 (proj2 (proj2 (proj2 (sim_all fuel)))) _ _ _ _ _ Ef Hrf (proj1 G0) El Eh) as (I1 & F1 & _).
  pose proof (proj1 (proj2 (proj2 (proj2 (sim2_all fuel)))) _ _ _ _ _ 0 0 Ef Hrf G0 Hre ltac:(change (s_stack st0) with (s_stack st); now rewrite Hs) El Eh) as P.
  assert (Hst' : s_reent st' = s_reent st1 /\ (Good st1 -> Good st') /\ s_stack st' = s_stack st1 /\
                 s_refstack st' = s_refstack st1).
  { assert (Hg : forall x y, Good st1 -> Good (upd_rolled (upd_err st1 x) y)).
    { intros x y (HI & C & SO). split; [exact HI|]. split; [|exact SO]. constructor; apply C. }
    destruct rf; inversion H; subst; (split; [reflexivity|split; [auto|split; reflexivity]]). }
  destruct Hst' as (E1 & E2 & E3 & E4).
  destruct P as [P|(G1 & _)]; [left; congruence|right].
  destruct F1 as (S1 & K1 & _).
  assert (Hk : s_stack st1 = []) by (rewrite K1; exact Hs).
  split; [now apply E2|]. split; [congruence|].
  rewrite E4. apply rs_ok_zero. pose proof (cv_refs _ (proj1 (proj2 G1))) as R. now rewrite Hk in R.
Qed.
