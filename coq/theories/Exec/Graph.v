(** K1: the worklist [reach] of the model computes exactly the nodes
    reachable along the edges ([nx.descendants] plus the source), with the
    fuel the model gives it. *)
From Coq Require Import List ZArith Bool Arith Lia.
From MX Require Import Exec.Model Exec.Basics.
Import ListNotations.

Inductive path (es : list (node * node)) : node -> node -> Prop :=
| path_refl a : path es a a
| path_step a b c : In (a, b) es -> path es b c -> path es a c.

Lemma path_trans es a b c : path es a b -> path es b c -> path es a c.
Proof. induction 1; intros; [assumption|]. econstructor; eauto. Qed.

Lemma path_snoc es a b c : path es a b -> In (b, c) es -> path es a c.
Proof. intros P E. eapply path_trans; [exact P|]. econstructor; [exact E|constructor]. Qed.

Lemma in_g_succs es a b : In b (g_succs es a) <-> In (a, b) es.
Proof.
  unfold g_succs. rewrite in_map_iff. split.
  - intros ([x y] & <- & H). apply filter_In in H as (H & E). simpl in *.
    apply node_eqb_eq in E. now subst.
  - intros H. exists (a, b). split; [reflexivity|]. apply filter_In. split; [assumption|].
    simpl. apply node_eqb_refl.
Qed.

Lemma in_g_preds es a b : In a (g_preds es b) <-> In (a, b) es.
Proof.
  unfold g_preds. rewrite in_map_iff. split.
  - intros ([x y] & <- & H). apply filter_In in H as (H & E). simpl in *.
    apply node_eqb_eq in E. now subst.
  - intros H. exists (a, b). split; [reflexivity|]. apply filter_In. split; [assumption|].
    simpl. apply node_eqb_refl.
Qed.

(** edges whose source is not visited yet *)
Definition unv (es : list (node * node)) (visited : list node) : nat :=
  List.length (filter (fun e => negb (mem_node (fst e) visited)) es).

Lemma mem_node_app n a b : mem_node n (a ++ b) = mem_node n a || mem_node n b.
Proof. unfold mem_node. apply existsb_app. Qed.

Lemma mem_node_single a n : mem_node a [n] = node_eqb a n.
Proof. unfold mem_node; simpl. apply orb_false_r. Qed.

Lemma unv_visit es visited n :
  mem_node n visited = false ->
  unv es (visited ++ [n]) + List.length (g_succs es n) = unv es visited.
Proof.
  intros Hn. unfold unv, g_succs. rewrite map_length.
  induction es as [|[a b] es IH]; [reflexivity|].
  cbn [filter fst]. rewrite mem_node_app, mem_node_single.
  destruct (node_eqb a n) eqn:E.
  - apply node_eqb_eq in E; subst a. rewrite Hn. cbn [orb negb List.length]. lia.
  - rewrite orb_false_r. destruct (mem_node a visited); cbn [negb List.length]; lia.
Qed.

(** the result contains the visited set *)
Lemma reach_visited es fuel : forall frontier visited x,
  In x visited -> In x (reach es fuel frontier visited).
Proof.
  induction fuel as [|f IH]; intros frontier visited x Hx; simpl; [assumption|].
  destruct frontier as [|n rest]; [assumption|].
  destruct (mem_node n visited); apply IH; [assumption|].
  apply in_or_app; now left.
Qed.

(** with enough fuel the frontier is absorbed and the result is closed *)
Lemma reach_closed es fuel : forall frontier visited,
  List.length frontier + unv es visited <= fuel ->
  (forall a b, In a visited -> In (a, b) es -> In b visited \/ In b frontier) ->
  let R := reach es fuel frontier visited in
  (forall x, In x frontier -> In x R) /\
  (forall a b, In a R -> In (a, b) es -> In b R).
Proof.
  induction fuel as [|f IH]; intros frontier visited Hf Hinv; simpl.
  - destruct frontier; [|simpl in Hf; lia]. split; [intros x []|].
    intros a b Ha Hab. destruct (Hinv a b Ha Hab) as [H|[]]; assumption.
  - destruct frontier as [|n rest].
    + split; [intros x []|]. intros a b Ha Hab. destruct (Hinv a b Ha Hab) as [H|[]]; assumption.
    + destruct (mem_node n visited) eqn:En.
      * assert (Hn : In n visited) by (now apply mem_node_In).
        destruct (IH rest visited) as (A & B).
        { simpl in Hf; lia. }
        { intros a b Ha Hab. destruct (Hinv a b Ha Hab) as [H|[H|H]]; [now left|subst; now left|now right]. }
        split; [|exact B].
        intros x [<-|Hx]; [now apply reach_visited|now apply A].
      * destruct (IH (g_succs es n ++ rest) (visited ++ [n])) as (A & B).
        { rewrite app_length. pose proof (unv_visit es visited n En). simpl in Hf. lia. }
        { intros a b Ha Hab. apply in_app_or in Ha as [Ha|[<-|[]]].
          - destruct (Hinv a b Ha Hab) as [H|[H|H]].
            + left. apply in_or_app; now left.
            + subst. left. apply in_or_app; right; now left.
            + right. apply in_or_app; now right.
          - right. apply in_or_app; left. now apply in_g_succs. }
        split; [|exact B].
        intros x [<-|Hx].
        -- apply reach_visited. apply in_or_app; right; now left.
        -- apply A. apply in_or_app; now right.
Qed.

(** everything in the result is in the visited set or reachable from the frontier *)
Lemma reach_sound es fuel : forall frontier visited x,
  In x (reach es fuel frontier visited) ->
  In x visited \/ exists s, In s frontier /\ path es s x.
Proof.
  induction fuel as [|f IH]; intros frontier visited x Hx; simpl in Hx; [now left|].
  destruct frontier as [|n rest]; [now left|].
  destruct (mem_node n visited) eqn:En.
  - destruct (IH _ _ _ Hx) as [H|(s & Hs & P)]; [now left|].
    right. exists s. split; [now right|assumption].
  - destruct (IH _ _ _ Hx) as [H|(s & Hs & P)].
    + apply in_app_or in H as [H|[<-|[]]]; [now left|].
      right. exists n. split; [now left|constructor].
    + apply in_app_or in Hs as [Hs|Hs].
      * right. exists n. split; [now left|]. econstructor; [apply in_g_succs; exact Hs|exact P].
      * right. exists s. split; [now right|assumption].
Qed.

Lemma unv_le es visited : unv es visited <= List.length es.
Proof.
  unfold unv. induction es as [|e es IH]; simpl; [lia|].
  destruct (negb (mem_node (fst e) visited)); simpl; lia.
Qed.

(** [descs_with st n] = the nodes reachable from [n] (including [n]) *)
Theorem descs_with_spec st n x : In x (descs_with st n) <-> path (s_edges st) n x.
Proof.
  unfold descs_with, reach_fuel. split.
  - intros H. destruct (reach_sound _ _ _ _ _ H) as [[]|(s & [<-|[]] & P)]. exact P.
  - intros P.
    destruct (reach_closed (s_edges st)
                (S (List.length (s_nodes st) + List.length (s_edges st) + List.length (s_edges st)))
                [n] []) as (A & B).
    { pose proof (unv_le (s_edges st) []). simpl. lia. }
    { intros a b []. }
    induction P as [a|a b c E P IH].
    + apply A. now left.
    + assert (Ha : In a (reach (s_edges st)
                (S (List.length (s_nodes st) + List.length (s_edges st) + List.length (s_edges st))) [a] []))
        by (apply A; now left).
      clear IH.
      (* closure carries membership along the path *)
      assert (Hgen : forall y z, path (s_edges st) y z ->
                In y (reach (s_edges st)
                  (S (List.length (s_nodes st) + List.length (s_edges st) + List.length (s_edges st))) [a] []) ->
                In z (reach (s_edges st)
                  (S (List.length (s_nodes st) + List.length (s_edges st) + List.length (s_edges st))) [a] [])).
      { intros y z Pyz. induction Pyz as [y|y y' z E' P' IH']; intros Hy; [assumption|].
        apply IH'. eapply B; eauto. }
      apply (Hgen b c P). eapply B; eauto.
Qed.

Corollary descs_with_self st n : In n (descs_with st n).
Proof. apply descs_with_spec. constructor. Qed.

Corollary descs_with_closed st n a b :
  In a (descs_with st n) -> In (a, b) (s_edges st) -> In b (descs_with st n).
Proof. rewrite !descs_with_spec. intros P E. eapply path_snoc; eauto. Qed.
