(** C08, exactness of the dependency edges through every edit, and over histories. *)
From Coq Require Import List ZArith Bool Arith Lia.
From MX Require Import Exec.Model Exec.Spec Exec.Basics Exec.SpecMono Exec.Sim Exec.Reads Exec.Graph
  Exec.Cover Exec.Cover2 Exec.Sim2 Exec.Quiet Exec.Local Exec.Edits Exec.Edits2 Exec.Edits3 Exec.Edits4
  Exec.Edits5 Exec.Edits6 Exec.Top.
From MX Require Import Exec.Exact.
Import ListNotations.

(** * Clearing *)
Lemma SameReads_cleared st st' removed :
  Quiet st -> Cleared st st' removed ->
  (forall a b, In a removed -> In (a, b) (s_edges st) -> In b removed) ->
  SameReads st st'.
Proof.
  intros ((HI & C & SO) & Hs & Hrs) CL Hclosed.
  assert (Hdefs : defs_of st' = defs_of st).
  { unfold defs_of. now rewrite (cl_cells _ _ _ CL), (cl_refs _ _ _ CL). }
  assert (Hinp : forall i, mem_node (node_of i) removed = false ->
                           lookup_data (input_data st') i = lookup_data (input_data st) i).
  { intros i Hi. rewrite !lookup_input_data, (cl_inputs _ _ _ CL), (cl_data _ _ _ CL), Hi. simpl.
    now rewrite andb_true_r. }
  set (PC := fun _ : cid => True). set (PR := fun _ : rid => True).
  set (PI := fun i : item => mem_node (node_of i) removed = false).
  assert (Hsafe : forall j ds, has st j -> PI j -> Forall (cov_rd st j) ds ->
                               Forall (safe_rd st PC PR PI) ds).
  { intros j ds Hj Hpj Hc. eapply Forall_impl; [|exact Hc]. intros x Hx.
    destruct x as [m|c|r|c r|]; [| | | |simpl in *; contradiction]; simpl in *; try exact I.
    destruct Hx as (He & Hm). split; [|split; [exact I|exact Hm]].
    unfold PI. apply mem_node_false. intros Hin.
    apply (proj1 (mem_node_false _ _) Hpj). eapply Hclosed; eauto. }
  assert (AG : Agree st (defs_of st') (input_data st') PC PR PI).
  { constructor.
    - intros c _. now rewrite Hdefs.
    - intros r _. now rewrite Hdefs.
    - intros r Hr. now rewrite Hdefs.
    - intros i Hi. now apply Hinp.
    - intros m Hm Hni Hpi _. destruct (lookup_data (s_data st) m) as [v|] eqn:El; [|now elim Hm].
      destruct (cv_reads _ C m v El Hni) as (f & ds & A & B).
      exists f, v, ds. split; [exact A|]. eapply Hsafe; eauto. }
  intros j v Hl Hm.
  rewrite (cl_data _ _ _ CL) in Hl.
  destruct (mem_node (node_of j) removed) eqn:Hr; [discriminate|].
  rewrite (cl_inputs _ _ _ CL), Hr in Hm. simpl in Hm. rewrite andb_true_r in Hm.
  split; [exact Hl|]. split; [exact Hm|].
  intros f ds A B.
  assert (Hj : has st j) by (unfold has; congruence).
  destruct (lookup_cell (s_cells st) (fst j)) as [cl|] eqn:Ec.
  - eapply locality_own; eauto. exact I.
  - unfold dr_own, defs_of in A; simpl in A. rewrite Ec in A. discriminate.
Qed.

Definition QE (st : state) : Prop := Quiet st /\ Exa st.

Lemma QE_clear_with_descs st n : QE st -> QE (clear_with_descs st n).
Proof.
  intros (Q & X). split; [now apply Quiet_clear_with_descs|].
  destruct (mem_node n (s_nodes st)) eqn:Hm.
  - pose proof (clear_with_descs_Cleared st n Hm) as CL.
    eapply Exa_shrink; [exact Q|now apply Quiet_clear_with_descs|exact X| |].
    + eapply SameReads_cleared; [exact Q|exact CL|apply descs_closed].
    + intros e He. now apply (cl_edges _ _ _ CL) in He as (He & _).
  - unfold clear_with_descs. now rewrite Hm.
Qed.

Lemma QE_fold {A} (f : state -> A -> state) l :
  (forall s a, QE s -> QE (f s a)) -> forall st, QE st -> QE (fold_left f l st).
Proof. intros Hf. induction l as [|a l IH]; intros st Q; simpl; [exact Q|]. apply IH. now apply Hf. Qed.

Lemma QE_clear_value_at st i b : QE st -> QE (clear_value_at st i b).
Proof.
  intros Q. unfold clear_value_at. destruct (has_data st i); [|exact Q].
  destruct (b || negb (mem_item i (s_inputs st))); [now apply QE_clear_with_descs|exact Q].
Qed.
Lemma QE_clear_all_values st c b : QE st -> QE (clear_all_values st c b).
Proof. intros Q. unfold clear_all_values. apply QE_fold; [|exact Q]. intros s a. apply QE_clear_value_at. Qed.
Lemma QE_clear_obj st c : QE st -> QE (clear_obj st c).
Proof. intros Q. unfold clear_obj. apply QE_fold; [|exact Q]. intros s a. apply QE_clear_with_descs. Qed.
Lemma QE_on_namespace_change st c : QE st -> QE (on_namespace_change st c).
Proof.
  intros Q. unfold on_namespace_change. destruct (lookup_cell (s_cells st) c) as [cl|]; [|exact Q].
  destruct (cl_cached cl); [now apply QE_clear_all_values|now apply QE_clear_obj].
Qed.

Lemma Exa_clear_attr_referrers st r : QE st -> Exa (clear_attr_referrers st r).
Proof.
  intros Q. unfold clear_attr_referrers.
  set (readers := rg_readers st r).
  assert (Q1 : QE (fold_left clear_reader readers st)).
  { apply QE_fold; [|exact Q]. intros s a. apply QE_clear_with_descs. }
  destruct Q1 as (_ & X1). intros a b Hin. destruct (X1 a b Hin) as (j & -> & E).
  exists j. split; [reflexivity|]. exact E.
Qed.

(** * Assigning an input *)
Lemma SameReads_store_input st i v cl :
  Quiet st -> lookup_data (s_data st) i = None ->
  lookup_cell (s_cells st) (fst i) = Some cl -> cl_cached cl = true ->
  SameReads st (upd_inputs (g_add_node (upd_data st (set_data (s_data st) i v)) (node_of i))
                           (add_item i (s_inputs st))).
Proof.
  intros ((HI & C & SO) & Hs & Hrs) Hnone El Ec.
  set (st' := upd_inputs (g_add_node (upd_data st (set_data (s_data st) i v)) (node_of i))
                         (add_item i (s_inputs st))).
  assert (Hnh : ~ has st i) by (unfold has; congruence).
  assert (Hdata : forall m, m <> i -> lookup_data (s_data st') m = lookup_data (s_data st) m).
  { intros m Hm. simpl. now apply lookup_set_other. }
  assert (Hinp : forall m, m <> i -> lookup_data (input_data st') m = lookup_data (input_data st) m).
  { intros m Hm. rewrite !lookup_input_data. simpl. rewrite mem_item_add.
    assert (item_eqb m i = false) as -> by (now apply item_eqb_neq). rewrite orb_false_r.
    now rewrite lookup_set_other. }
  set (PC := fun _ : cid => True). set (PR := fun _ : rid => True). set (PI := fun m : item => m <> i).
  assert (Hsafe : forall j ds, Forall (cov_rd st j) ds -> Forall (safe_rd st PC PR PI) ds).
  { intros j ds Hc. eapply Forall_impl; [|exact Hc]. intros x Hx.
    destruct x as [m|c|r|c r|]; [| | | |simpl in *; contradiction]; simpl in *; try exact I.
    destruct Hx as (He & Hm). split; [|split; [exact I|exact Hm]]. intros ->. contradiction. }
  assert (AG : Agree st (defs_of st') (input_data st') PC PR PI).
  { constructor.
    - intros c _. reflexivity.
    - intros r _. reflexivity.
    - intros r Hr. exact Hr.
    - intros m Hm. now apply Hinp.
    - intros m Hm Hni Hpi _. destruct (lookup_data (s_data st) m) as [w|] eqn:Elm; [|now elim Hm].
      destruct (cv_reads _ C m w Elm Hni) as (f & ds & A & B).
      exists f, w, ds. split; [exact A|]. eapply Hsafe; eauto. }
  intros j w Hl Hm. simpl in Hm. rewrite mem_item_add in Hm. apply orb_false_iff in Hm as (Hm & Hji).
  apply item_eqb_neq in Hji. rewrite Hdata in Hl by assumption.
  split; [exact Hl|]. split; [exact Hm|].
  intros f ds A B.
  destruct (lookup_cell (s_cells st) (fst j)) as [clj|] eqn:Ecj.
  - eapply locality_own; eauto. exact I.
  - unfold dr_own, defs_of in A; simpl in A. rewrite Ecj in A. discriminate.
Qed.

(** * Redefining a cells nothing refers to *)
Lemma SameReads_redefine_cell st c newcl :
  Quiet st -> (forall n, In n (s_nodes st) -> node_obj n <> c) ->
  SameReads st (upd_cells st (set_cell (s_cells st) c newcl)).
Proof.
  intros ((HI & C & SO) & Hs & Hrs) Hno.
  set (st' := upd_cells st (set_cell (s_cells st) c newcl)).
  assert (Hlk : forall c', c' <> c -> lookup_cell (s_cells st') c' = lookup_cell (s_cells st) c').
  { intros c' Hc'. simpl. rewrite lookup_set_cell.
    destruct (Nat.eqb c' c) eqn:E; [apply Nat.eqb_eq in E; contradiction|reflexivity]. }
  assert (Hheld : forall m, has st m -> fst m <> c).
  { intros m Hm. apply (Hno (node_of m)). now apply (cv_node _ C). }
  set (PC := fun c' : cid => c' <> c). set (PR := fun _ : rid => True). set (PI := fun _ : item => True).
  assert (Hsafe : forall j ds, Forall (cov_rd st j) ds -> Forall (safe_rd st PC PR PI) ds).
  { intros j ds Hc. eapply Forall_impl; [|exact Hc]. intros x Hx.
    destruct x as [m|c'|r|c' r|]; [| | | |simpl in *; contradiction]; simpl in *; try exact I.
    - destruct Hx as (He & Hm). split; [exact I|]. split; [now apply Hheld|exact Hm].
    - destruct (cv_edge _ C _ _ Hx) as (Hn & _). exact (Hno _ Hn). }
  assert (AG : Agree st (defs_of st') (input_data st') PC PR PI).
  { constructor.
    - intros c' Hc'. now apply Hlk.
    - intros r _. reflexivity.
    - intros r Hr. exact Hr.
    - intros i _. reflexivity.
    - intros m Hm Hni _ _. destruct (lookup_data (s_data st) m) as [w|] eqn:Elm; [|now elim Hm].
      destruct (cv_reads _ C m w Elm Hni) as (f & ds & A & B).
      exists f, w, ds. split; [exact A|]. eapply Hsafe; eauto. }
  intros j w Hl Hm. change (s_data st') with (s_data st) in Hl. change (s_inputs st') with (s_inputs st) in Hm.
  split; [exact Hl|]. split; [exact Hm|].
  intros f ds A B.
  assert (Hj : has st j) by (unfold has; congruence).
  destruct (lookup_cell (s_cells st) (fst j)) as [clj|] eqn:Ecj.
  - eapply locality_own; eauto. now apply Hheld.
  - unfold dr_own, defs_of in A; simpl in A. rewrite Ecj in A. discriminate.
Qed.

(** * Changing a reference *)
Lemma Exa_set_ref st r v x st' :
  QE st -> refn_ok st -> set_ref_value st r v = (x, st') -> Exa st'.
Proof.
  intros (Q & X) Hrn H. unfold set_ref_value in H.
  destruct (lookup_ref (s_refs st) r) as [[sp w]|] eqn:Er; [|inversion H; subst; exact X].
  set (st2 := clear_attr_referrers st r) in *.
  destruct (Quiet_clear_attr_referrers st r Q) as (Q2 & S2 & Hno2). fold st2 in Q2, S2, Hno2.
  assert (X2 : Exa st2) by (apply Exa_clear_attr_referrers; split; assumption).
  set (L := cells_in_space st2 sp) in *.
  destruct (fold_ns_cleared L st2 Q2) as (Q3 & S3 & Hcl).
  assert (QE3 : QE (fold_left on_namespace_change L st2)).
  { apply QE_fold; [intros s a; apply QE_on_namespace_change|split; assumption]. }
  set (st3 := fold_left on_namespace_change L st2) in *.
  destruct QE3 as (_ & X3).
  inversion H; subst x st'. clear H.
  set (st4 := upd_refs st3 (set_ref (s_refs st3) r (sp, v))).
  assert (Q4 : Quiet st4).
  { assert (E : set_ref_value st r v = (OOk, st4)) by (unfold set_ref_value; rewrite Er; reflexivity).
    exact (proj1 (Quiet_set_ref st r v OOk st4 Q Hrn E)). }
  assert (S03 : Shrinks st st3) by (eapply Shrinks_trans; eauto).
  assert (Hcells : s_cells st3 = s_cells st) by (apply (sh_cells _ _ S03)).
  assert (Hrefs : s_refs st3 = s_refs st) by (apply (sh_refs _ _ S03)).
  assert (Hno3 : forall j, ~ In (r, j) (s_redges st3)).
  { intros j Hin. apply (Hno2 j). now apply (sh_redges _ _ S3). }
  assert (Er3 : lookup_ref (s_refs st3) r = Some (sp, w)) by (now rewrite Hrefs).
  pose proof Q3 as ((HI & C & SO) & Hs & Hrs).
  assert (Hlk : forall r', r' <> r -> lookup_ref (s_refs st4) r' = lookup_ref (s_refs st3) r').
  { intros r' Hr'. simpl. rewrite lookup_set_ref by congruence.
    destruct (Nat.eqb r' r) eqn:E; [apply Nat.eqb_eq in E; contradiction|reflexivity]. }
  assert (Hnoread : forall j wv f ds, lookup_data (s_data st3) j = Some wv -> mem_item j (s_inputs st3) = false ->
              dr_own f (defs_of st3) (input_data st3) j = (Val wv, ds) -> Forall (cov_rd st3 j) ds ->
              forall y, In y ds -> match y with RAttr r' | RName _ r' => r' <> r | _ => True end).
  { intros j wv f ds Hl Hm Hown Hcov y Hy.
    pose proof (proj1 (Forall_forall _ _) Hcov y Hy) as Hc.
    destruct y as [m|c|r'|c r'|]; try exact I.
    - simpl in Hc. intros ->. exact (Hno3 j Hc).
    - intros ->. destruct (rname_own _ _ _ _ _ _ _ _ Hown Hy) as (cl & Elc & Hb).
      unfold defs_of in Elc; simpl in Elc.
      assert (Hvis : match sp with None => True | Some s => cl_space cl = s end).
      { destruct sp as [s|]; [|exact I]. rewrite Hcells in Elc.
        eapply (Hrn c cl r s w); eauto. }
      assert (Hin : In c L).
      { unfold L. apply (lookup_in_space st2 sp c cl); [|exact Hvis].
        now rewrite (sh_cells _ _ S2), <- Hcells. }
      assert (El2 : lookup_cell (s_cells st2) c = Some cl) by (now rewrite (sh_cells _ _ S2), <- Hcells).
      destruct (Hcl c cl Hin El2) as (A & B).
      assert (Hj : has st3 j) by (unfold has; congruence).
      simpl in Hc. destruct Hc as [Hc|Hc].
      + subst c. pose proof (cv_cached _ C j Hj) as Hca. unfold is_cached in Hca. rewrite Elc in Hca.
        rewrite (A Hca j eq_refl Hj) in Hm. discriminate.
      + destruct (cv_edge _ C _ _ Hc) as (Hn & _). pose proof (cv_obj _ C c Hn) as Hun.
        unfold is_cached in Hun. rewrite Elc in Hun. exact (B Hun Hn). }
  set (PC := fun _ : cid => True). set (PR := fun r' : rid => r' <> r). set (PI := fun _ : item => True).
  assert (Hsafe : forall j wv f ds, lookup_data (s_data st3) j = Some wv -> mem_item j (s_inputs st3) = false ->
              dr_own f (defs_of st3) (input_data st3) j = (Val wv, ds) -> Forall (cov_rd st3 j) ds ->
              Forall (safe_rd st3 PC PR PI) ds).
  { intros j wv f ds Hl Hm Hown Hcov. apply Forall_forall. intros y Hy.
    pose proof (Hnoread j wv f ds Hl Hm Hown Hcov y Hy) as Hn.
    pose proof (proj1 (Forall_forall _ _) Hcov y Hy) as Hc.
    destruct y as [m|c|r'|c r'|]; simpl in *; auto. destruct Hc as (_ & Hh). repeat split; auto. }
  assert (AG : Agree st3 (defs_of st4) (input_data st4) PC PR PI).
  { constructor.
    - intros c _. reflexivity.
    - intros r' Hr'. now apply Hlk.
    - intros r' Hn. simpl. rewrite lookup_set_ref by congruence.
      destruct (Nat.eqb r' r) eqn:E; [apply Nat.eqb_eq in E; subst; congruence|exact Hn].
    - intros i _. reflexivity.
    - intros m Hm Hni _ _. destruct (lookup_data (s_data st3) m) as [wv|] eqn:Elm; [|now elim Hm].
      destruct (cv_reads _ C m wv Elm Hni) as (f & ds & A & B).
      exists f, wv, ds. split; [exact A|]. eapply Hsafe; eauto. }
  assert (SR : SameReads st3 st4).
  { intros j wv Hl Hm. change (s_data st4) with (s_data st3) in Hl. change (s_inputs st4) with (s_inputs st3) in Hm.
    split; [exact Hl|]. split; [exact Hm|]. intros f ds A B.
    destruct (lookup_cell (s_cells st3) (fst j)) as [clj|] eqn:Ecj.
    - eapply locality_own; [exact AG|exact Ecj|exact I|exact A|eapply Hsafe; eauto].
    - unfold dr_own, defs_of in A; simpl in A. rewrite Ecj in A. discriminate. }
  eapply Exa_shrink; [exact Q3|exact Q4|exact X3|exact SR|].
  intros e He. exact He.
Qed.

(** * Every operation *)
Theorem step_Exa fuel st o x st' :
  step fuel st o = (x, st') -> x <> OFuel -> Quiet st -> refn_ok st -> s_reent st = false -> s_reent st' = false ->
  op_ok2 st o -> Exa st -> Exa st'.
Proof.
  intros H Hx Q Hrn Hre Hre' Hop X. destruct o; simpl in H.
  - destruct (eval_top fuel st i) as [[v|k|] st1] eqn:E; inversion H; subst; try congruence;
      eapply eval_top_Exa; eauto; discriminate.
  - unfold set_value in H.
    destruct (lookup_cell (s_cells st) (fst i)) as [cl|] eqn:El; [|inversion H; subst; exact X].
    destruct (negb (cl_cached cl)) eqn:Ec; [inversion H; subst; exact X|].
    destruct (negb (Nat.eqb (List.length (snd i)) (cl_nparams cl))); [inversion H; subst; exact X|].
    destruct (match v with VNone => negb (cl_allow_none cl) | _ => false end); [inversion H; subst; exact X|].
    apply negb_false_iff in Ec.
    set (st1 := clear_value_at st i true) in *.
    destruct (QE_clear_value_at st i true (conj Q X)) as (Q1 & X1). fold st1 in Q1, X1.
    assert (Hn1 : lookup_data (s_data st1) i = None) by (now apply clear_value_at_gone).
    assert (El1 : lookup_cell (s_cells st1) (fst i) = Some cl) by (unfold st1; now rewrite clear_value_at_cells).
    pose proof (Quiet_store_input st1 i v cl Q1 Hn1 El1 Ec) as Q3.
    pose proof (SameReads_store_input st1 i v cl Q1 Hn1 El1 Ec) as SR3.
    set (st3 := upd_inputs (g_add_node (upd_data st1 (set_data (s_data st1) i v)) (node_of i))
                           (add_item i (s_inputs st1))) in *.
    assert (X3 : Exa st3).
    { eapply Exa_shrink; [exact Q1|exact Q3|exact X1|exact SR3|]. intros e He. exact He. }
    assert (R3 : s_reent st3 = false).
    { change (s_reent st3) with (s_reent st1). unfold st1. now rewrite clear_value_at_reent. }
    change (out_of_recalc (recalc_all fuel st3 (if s_recalc st then leaf_descs st (node_of i) else [])) = (x, st')) in H.
    destruct (recalc_all fuel st3 (if s_recalc st then leaf_descs st (node_of i) else [])) as [rr st4] eqn:Er.
    assert (Hrr : rr <> OutOfFuel).
    { intros ->. unfold out_of_recalc in H. inversion H; subst. congruence. }
    assert (st' = st4) by (unfold out_of_recalc in H; destruct rr; inversion H; reflexivity). subst st4.
    eapply recalc_all_Exa; eauto.
  - inversion H; subst. exact (proj2 (QE_clear_value_at st i true (conj Q X))).
  - inversion H; subst. exact (proj2 (QE_clear_all_values st c false (conj Q X))).
  - inversion H; subst. exact (proj2 (QE_clear_all_values st c true (conj Q X))).
  - (* set formula *)
    unfold set_formula in H.
    destruct (lookup_cell (s_cells st) c) as [cl|] eqn:El; inversion H; subst; [|exact X].
    destruct (QE_clear_obj st c (conj Q X)) as (Q1 & X1).
    assert (Hno : forall n, In n (s_nodes (clear_obj st c)) -> node_obj n <> c)
      by (intros n Hn; now apply clear_obj_nodes in Hn).
    eapply Exa_shrink; [exact Q1|apply Quiet_redefine_cell; [exact Q1|exact Hno]|exact X1| |].
    + apply SameReads_redefine_cell; assumption.
    + intros e He. exact He.
  - (* set cached *)
    unfold set_cached in H.
    destruct (lookup_cell (s_cells st) c) as [cl|] eqn:El; [|inversion H; subst; exact X].
    destruct (Bool.eqb (cl_cached cl) b); inversion H; subst; [exact X|].
    destruct (QE_clear_obj st c (conj Q X)) as (Q1 & X1).
    assert (Hno : forall n, In n (s_nodes (clear_obj st c)) -> node_obj n <> c)
      by (intros n Hn; now apply clear_obj_nodes in Hn).
    eapply Exa_shrink; [exact Q1|apply Quiet_redefine_cell; [exact Q1|exact Hno]|exact X1| |].
    + apply SameReads_redefine_cell; assumption.
    + intros e He. exact He.
  - eapply Exa_set_ref; eauto. split; assumption.
  - inversion H; subst. intros a b0 Hin. destruct (X a b0 Hin) as (j & -> & E). exists j. split; [reflexivity|exact E].
Qed.

Theorem run_Exa fuel ops : forall st xs st',
  run fuel st ops = (xs, st') -> no_fuel_out xs -> Quiet st -> refn_ok st -> s_reent st = false ->
  ops_ok2 fuel st ops -> Exa st -> s_reent st' = true \/ (Quiet st' /\ refn_ok st' /\ Exa st').
Proof.
  induction ops as [|o ops IH]; intros st xs st' H Hnf Q Hrn Hre Hok X; simpl in H.
  - inversion H; subst. right. auto.
  - destruct (step fuel st o) as [x st1] eqn:E. destruct (run fuel st1 ops) as [xs1 st2] eqn:Er.
    inversion H; subst. simpl in Hok. rewrite E in Hok. simpl in Hok. destruct Hok as (Ho & Hok).
    assert (Hx : x <> OFuel /\ no_fuel_out xs1).
    { destruct x; simpl in Hnf; try contradiction; (split; [discriminate|assumption]). }
    destruct Hx as (Hx & Hnf1).
    destruct (s_reent st1) eqn:R1.
    + left. clear - Er R1. revert st1 xs1 st' Er R1.
      induction ops as [|o' ops IHo]; intros st1 xs1 st' Er R1; simpl in Er; [inversion Er; subst; exact R1|].
      destruct (step fuel st1 o') as [x' st2] eqn:E'. destruct (run fuel st2 ops) as [xs2 st3] eqn:Er'.
      inversion Er; subst. eapply IHo; [exact Er'|]. eapply step_reent_static; eauto.
    + destruct (step_quiet2 _ _ _ _ _ E Hx Q Hrn Hre Ho) as [R|(Q1 & Hrn1)]; [congruence|].
      pose proof (step_Exa _ _ _ _ _ E Hx Q Hrn Hre R1 Ho X) as X1.
      eapply IH; eauto.
Qed.

(** * C08: in every state a history reaches, the predecessors of an element
    holding a computed value are exactly the reads of its formula *)
Theorem preds_are_exactly_the_reads fuel cells refs maxd ops xs st :
  refn_ok (init cells refs maxd) -> ops_ok2 fuel (init cells refs maxd) ops ->
  run fuel (init cells refs maxd) ops = (xs, st) -> no_fuel_out xs -> s_reent st = false ->
  forall j v, lookup_data (s_data st) j = Some v -> mem_item j (s_inputs st) = false ->
  exists f ds, dr_own f (defs_of st) (input_data st) j = (Val v, ds) /\
    (* every read is recorded *)
    Forall (cov_rd st j) ds /\
    (* and every recorded predecessor is a read *)
    (forall a, In (a, node_of j) (s_edges st) -> In (rd_of_node a) ds).
Proof.
  intros Hrn Hops Hrun Hnf Hre j v Hl Hm.
  destruct (run_Exa _ _ _ _ _ Hrun Hnf (Quiet_init cells refs maxd) Hrn eq_refl Hops (Exa_init cells refs maxd))
    as [R|(Q & _ & X)]; [congruence|].
  destruct Q as ((_ & C & _) & _).
  destruct (cv_reads _ C j v Hl Hm) as (f & ds & A & B).
  exists f, ds. split; [exact A|]. split; [exact B|].
  intros a Hin. destruct (X _ _ Hin) as (j' & Ej & E). apply node_of_inj in Ej. subst j'.
  exact (E f v ds A).
Qed.

(** an item edge is exactly a call (direct or through uncached cells) *)
Theorem edge_iff_read st m j v :
  Quiet st -> Exa st -> lookup_data (s_data st) j = Some v -> mem_item j (s_inputs st) = false ->
  (In (node_of m, node_of j) (s_edges st) <->
   exists f ds, dr_own f (defs_of st) (input_data st) j = (Val v, ds) /\ In (RItem m) ds).
Proof.
  intros Q X Hl Hm. destruct Q as ((_ & C & _) & _).
  destruct (cv_reads _ C j v Hl Hm) as (f & ds & A & B). split.
  - intros Hin. exists f, ds. split; [exact A|].
    destruct (X _ _ Hin) as (j' & Ej & E). apply node_of_inj in Ej. subst j'.
    rewrite <- rd_of_node_item. exact (E f v ds A).
  - intros (f' & ds' & A' & Hin).
    destruct (dr_own_det _ _ _ _ _ _ _ _ _ A ltac:(discriminate) A' ltac:(discriminate)) as (_ & <-).
    pose proof (proj1 (Forall_forall _ _) B _ Hin) as Hc. simpl in Hc. exact (proj1 Hc).
Qed.
