(** Fuel monotonicity of the specification evaluator. *)
From Coq Require Import List ZArith Bool Arith Lia.
From MX Require Import Exec.Model Exec.Spec.
Import ListNotations.

Definition mono_expr (f : nat) : Prop :=
  forall D inp args locs e r, sp_expr f D inp args locs e = r -> r <> OutOfFuel ->
  forall f', f <= f' -> sp_expr f' D inp args locs e = r.
Definition mono_args (f : nat) : Prop :=
  forall D inp args locs es r, sp_args f D inp args locs es = r -> r <> OutOfFuel ->
  forall f', f <= f' -> sp_args f' D inp args locs es = r.
Definition mono_node (f : nat) : Prop :=
  forall D inp i r, sp_node f D inp i = r -> r <> OutOfFuel ->
  forall f', f <= f' -> sp_node f' D inp i = r.
Definition mono_body (f : nat) : Prop :=
  forall D inp args locs rest r, sp_body f D inp args locs rest = r -> r <> OutOfFuel ->
  forall f', f <= f' -> sp_body f' D inp args locs rest = r.

Ltac fuel_step f' :=
  match goal with
  | H : S _ <= f' |- _ => destruct f' as [|f']; [lia|]; apply le_S_n in H
  end.

Lemma sp_mono_all : forall f, mono_expr f /\ mono_args f /\ mono_node f /\ mono_body f.
Proof.
  induction f as [|f (IHe & IHa & IHn & IHb)].
  - repeat split; intros until r; simpl; intros <- Hr; congruence.
  - repeat split.
    + (* expr *)
      intros D inp args locs e r H Hr f' Hle. fuel_step f'.
      destruct e; simpl in *; try assumption.
      * (* EBin *)
        destruct (sp_expr f D inp args locs e1) as [va| |] eqn:E1.
        -- rewrite (IHe _ _ _ _ _ _ E1 ltac:(discriminate) f' Hle).
           destruct (sp_expr f D inp args locs e2) as [vb| |] eqn:E2.
           ++ now rewrite (IHe _ _ _ _ _ _ E2 ltac:(discriminate) f' Hle).
           ++ now rewrite (IHe _ _ _ _ _ _ E2 ltac:(discriminate) f' Hle).
           ++ congruence.
        -- now rewrite (IHe _ _ _ _ _ _ E1 ltac:(discriminate) f' Hle).
        -- congruence.
      * (* EIfPos *)
        destruct (sp_expr f D inp args locs e1) as [vc| |] eqn:E1.
        -- rewrite (IHe _ _ _ _ _ _ E1 ltac:(discriminate) f' Hle).
           destruct vc as [z|]; [|assumption].
           destruct (Z.ltb 0 z); eapply IHe; eauto.
        -- now rewrite (IHe _ _ _ _ _ _ E1 ltac:(discriminate) f' Hle).
        -- congruence.
      * (* ECall *)
        destruct (sp_args f D inp args locs args0) as [vs| |] eqn:E1.
        -- rewrite (IHa _ _ _ _ _ _ E1 ltac:(discriminate) f' Hle).
           destruct (lookup_cell (fst D) c); [|assumption].
           destruct (bind_pos c0 vs); [|assumption].
           eapply IHn; eauto.
        -- now rewrite (IHa _ _ _ _ _ _ E1 ltac:(discriminate) f' Hle).
        -- congruence.
    + (* args *)
      intros D inp args locs es r H Hr f' Hle. fuel_step f'.
      destruct es as [|e rest]; simpl in *; [assumption|].
      destruct (sp_expr f D inp args locs e) as [v| |] eqn:E1.
      * rewrite (IHe _ _ _ _ _ _ E1 ltac:(discriminate) f' Hle).
        destruct (sp_args f D inp args locs rest) as [vs| |] eqn:E2.
        -- now rewrite (IHa _ _ _ _ _ _ E2 ltac:(discriminate) f' Hle).
        -- now rewrite (IHa _ _ _ _ _ _ E2 ltac:(discriminate) f' Hle).
        -- congruence.
      * now rewrite (IHe _ _ _ _ _ _ E1 ltac:(discriminate) f' Hle).
      * congruence.
    + (* node *)
      intros D inp i r H Hr f' Hle. fuel_step f'. simpl in *.
      destruct (lookup_cell (fst D) (fst i)) as [cl|]; [|assumption].
      destruct (if cl_cached cl then lookup_data inp i else None); [assumption|].
      destruct (sp_body f D inp (snd i) [] (cl_body cl)) as [v| |] eqn:E1.
      * now rewrite (IHb _ _ _ _ _ _ E1 ltac:(discriminate) f' Hle).
      * now rewrite (IHb _ _ _ _ _ _ E1 ltac:(discriminate) f' Hle).
      * congruence.
    + (* body *)
      intros D inp args locs rest r H Hr f' Hle. fuel_step f'.
      destruct rest as [|s more]; simpl in *; [assumption|].
      destruct s as [e|e h|e c].
      * destruct (sp_expr f D inp args locs e) as [v| |] eqn:E1.
        -- rewrite (IHe _ _ _ _ _ _ E1 ltac:(discriminate) f' Hle). eapply IHb; eauto.
        -- now rewrite (IHe _ _ _ _ _ _ E1 ltac:(discriminate) f' Hle).
        -- congruence.
      * destruct (sp_expr f D inp args locs e) as [v|k|] eqn:E1.
        -- rewrite (IHe _ _ _ _ _ _ E1 ltac:(discriminate) f' Hle). eapply IHb; eauto.
        -- rewrite (IHe _ _ _ _ _ _ E1 ltac:(discriminate) f' Hle).
           destruct (catchable k); [|assumption].
           destruct (sp_expr f D inp args locs h) as [v| |] eqn:E2.
           ++ rewrite (IHe _ _ _ _ _ _ E2 ltac:(discriminate) f' Hle). eapply IHb; eauto.
           ++ now rewrite (IHe _ _ _ _ _ _ E2 ltac:(discriminate) f' Hle).
           ++ congruence.
        -- congruence.
      * destruct (sp_expr f D inp args locs e) as [v|k|] eqn:E1.
        -- rewrite (IHe _ _ _ _ _ _ E1 ltac:(discriminate) f' Hle).
           destruct (sp_expr f D inp args locs c) as [w|k2|] eqn:E2.
           ++ rewrite (IHe _ _ _ _ _ _ E2 ltac:(discriminate) f' Hle). eapply IHb; eauto.
           ++ now rewrite (IHe _ _ _ _ _ _ E2 ltac:(discriminate) f' Hle).
           ++ congruence.
        -- rewrite (IHe _ _ _ _ _ _ E1 ltac:(discriminate) f' Hle).
           destruct (sp_expr f D inp args locs c) as [w|k2|] eqn:E2.
           ++ now rewrite (IHe _ _ _ _ _ _ E2 ltac:(discriminate) f' Hle).
           ++ now rewrite (IHe _ _ _ _ _ _ E2 ltac:(discriminate) f' Hle).
           ++ congruence.
        -- congruence.
Qed.

Lemma sp_expr_mono f f' D inp args locs e r :
  sp_expr f D inp args locs e = r -> r <> OutOfFuel -> f <= f' -> sp_expr f' D inp args locs e = r.
Proof. intros; eapply (proj1 (sp_mono_all f)); eauto. Qed.
Lemma sp_args_mono f f' D inp args locs es r :
  sp_args f D inp args locs es = r -> r <> OutOfFuel -> f <= f' -> sp_args f' D inp args locs es = r.
Proof. intros; eapply (proj1 (proj2 (sp_mono_all f))); eauto. Qed.
Lemma sp_node_mono f f' D inp i r :
  sp_node f D inp i = r -> r <> OutOfFuel -> f <= f' -> sp_node f' D inp i = r.
Proof. intros; eapply (proj1 (proj2 (proj2 (sp_mono_all f)))); eauto. Qed.
Lemma sp_body_mono f f' D inp args locs rest r :
  sp_body f D inp args locs rest = r -> r <> OutOfFuel -> f <= f' -> sp_body f' D inp args locs rest = r.
Proof. intros; eapply (proj2 (proj2 (proj2 (sp_mono_all f)))); eauto. Qed.
