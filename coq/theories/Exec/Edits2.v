(** K4, part 7: assigning inputs and redefining cells; every operation of
    the model (reference changes are in Edits3) keeps the quiescent invariant. *)
From Coq Require Import List ZArith Bool Arith Lia.
From MX Require Import Exec.Model Exec.Spec Exec.Basics Exec.SpecMono Exec.Sim Exec.Reads Exec.Graph
  Exec.Cover Exec.Cover2 Exec.Sim2 Exec.Quiet Exec.Local Exec.Edits.
Import ListNotations.

Lemma mem_item_add i x l : mem_item i (add_item x l) = mem_item i l || item_eqb i x.
Proof.
  unfold add_item. destruct (mem_item x l) eqn:E.
  - destruct (item_eqb i x) eqn:Eix; [|now rewrite orb_false_r].
    apply item_eqb_eq in Eix; subst. now rewrite E.
  - unfold mem_item. rewrite existsb_app. simpl. now rewrite orb_false_r.
Qed.

(** * Assigning an input to an element that holds nothing *)
Lemma Quiet_store_input st i v cl :
  Quiet st -> lookup_data (s_data st) i = None ->
  lookup_cell (s_cells st) (fst i) = Some cl -> cl_cached cl = true ->
  Quiet (upd_inputs (g_add_node (upd_data st (set_data (s_data st) i v)) (node_of i))
                    (add_item i (s_inputs st))).
Proof.
  intros ((HI & C & SO) & Hs & Hrs) Hnone El Ec.
  set (st' := upd_inputs (g_add_node (upd_data st (set_data (s_data st) i v)) (node_of i))
                         (add_item i (s_inputs st))).
  assert (Hnh : ~ has st i) by (unfold has; congruence).
  assert (Hdata : forall m, m <> i -> lookup_data (s_data st') m = lookup_data (s_data st) m).
  { intros m Hm. simpl. now apply lookup_set_other. }
  assert (Hhas : forall m, has st m -> has st' m).
  { intros m Hm. unfold has. rewrite Hdata; [exact Hm|]. intros ->. contradiction. }
  assert (Hnoedge : forall a, ~ In (a, node_of i) (s_edges st)).
  { intros a Ha. destruct (cv_edge _ C _ _ Ha) as (_ & Hn).
    destruct (cv_items _ C i Hn) as (_ & [B|B]); [contradiction|]. rewrite Hs in B. destruct B. }
  assert (Hinp : forall m, m <> i -> lookup_data (input_data st') m = lookup_data (input_data st) m).
  { intros m Hm. rewrite !lookup_input_data. simpl. rewrite mem_item_add.
    assert (item_eqb m i = false) as -> by (now apply item_eqb_neq). rewrite orb_false_r.
    now rewrite lookup_set_other. }
  set (PC := fun _ : cid => True). set (PR := fun _ : rid => True). set (PI := fun m : item => m <> i).
  assert (Hsafe : forall j ds, Forall (cov_rd st j) ds -> Forall (safe_rd st PC PR PI) ds).
  { intros j ds Hc. eapply Forall_impl; [|exact Hc]. intros x Hx.
    destruct x as [m|c|r|c r|]; [| | | |simpl in *; contradiction]; simpl in *; try exact I.
    destruct Hx as (He & Hm). split; [|split; [exact I|exact Hm]]. intros ->. contradiction. }
  assert (AG : Agree st (defs_of st') (input_data st') PC PR PI).
  { constructor.
    - intros c _. reflexivity.
    - intros r _. reflexivity.
    - intros r Hr. exact Hr.
    - intros m Hm. now apply Hinp.
    - intros m Hm Hni Hpi _. destruct (lookup_data (s_data st) m) as [w|] eqn:Elm; [|now elim Hm].
      destruct (cv_reads _ C m w Elm Hni) as (f & ds & A & B).
      exists f, w, ds. split; [exact A|]. eapply Hsafe; eauto. }
  assert (C' : Cov st').
  { constructor.
    - intros m Hm. simpl. apply in_add_node. destruct (item_eqb m i) eqn:E.
      + apply item_eqb_eq in E; subst. now left.
      + apply item_eqb_neq in E. right. apply (cv_node _ C). unfold has in *. now rewrite <- Hdata.
    - intros m Hm. change (is_cached st' (fst m)) with (is_cached st (fst m)).
      destruct (item_eqb m i) eqn:E.
      + apply item_eqb_eq in E; subst. unfold is_cached. now rewrite El.
      + apply item_eqb_neq in E. apply (cv_cached _ C). unfold has in *. now rewrite <- Hdata.
    - intros j w Hl Hm. simpl in Hm. rewrite mem_item_add in Hm. apply orb_false_iff in Hm as (Hm & Hji).
      apply item_eqb_neq in Hji. rewrite Hdata in Hl by assumption.
      destruct (cv_reads _ C j w Hl Hm) as (f & ds & A & B).
      exists f, ds. split.
      + destruct (lookup_cell (s_cells st) (fst j)) as [clj|] eqn:Ecj.
        * eapply locality_own; eauto. exact I.
        * unfold dr_own, defs_of in A; simpl in A. rewrite Ecj in A. discriminate.
      + eapply Forall_impl; [|exact B]. intros x Hx.
        destruct x as [m|c|r|c r|]; [| | | |simpl in *; contradiction]; simpl in *; try exact Hx.
        destruct Hx as (He & Hm'). split; [exact He|now apply Hhas].
    - intros a m He. simpl. rewrite mem_item_add. change (s_edges st') with (s_edges st) in He.
      rewrite (cv_input _ C a m He). simpl. apply item_eqb_neq. intros ->. now apply (Hnoedge a).
    - intros a b He. change (s_edges st') with (s_edges st) in He.
      destruct (cv_edge _ C a b He). split; simpl; apply in_add_node; auto.
    - intros m Hm. simpl in Hm. apply in_add_node in Hm as [Hm|Hm].
      + apply node_of_inj in Hm; subst m. change (is_cached st' (fst i)) with (is_cached st (fst i)).
        split; [unfold is_cached; now rewrite El|].
        left. unfold has. simpl. rewrite lookup_set_same. discriminate.
      + destruct (cv_items _ C m Hm) as (A & B). split; [exact A|].
        destruct B as [B|B]; [left; now apply Hhas|now right].
    - exact (cv_refs _ C).
    - intros c Hc. simpl in Hc. apply in_add_node in Hc as [Hc|Hc]; [destruct i; discriminate|].
      exact (cv_obj _ C c Hc).
    - exact (cv_taint _ C). }
  split; [|split; [exact Hs|exact Hrs]].
  split; [|split; [exact C'|intros x Hx; simpl in Hx; rewrite Hs in Hx; destruct Hx]].
  apply Inv_of_Cov; [|exact C'].
  intros m Hm. simpl in Hm. rewrite mem_item_add in Hm. simpl.
  destruct (item_eqb m i) eqn:E.
  - apply item_eqb_eq in E; subst. rewrite lookup_set_same. discriminate.
  - apply item_eqb_neq in E. rewrite lookup_set_other by assumption.
    rewrite orb_false_r in Hm. now apply (proj1 HI).
Qed.

(** after [clear_value_at _ i true] the element holds nothing *)
Lemma clear_value_at_gone st i : Quiet st -> lookup_data (s_data (clear_value_at st i true)) i = None.
Proof.
  intros ((HI & C & SO) & _). unfold clear_value_at, has_data.
  destruct (lookup_data (s_data st) i) as [v|] eqn:E; [|exact E]. simpl.
  assert (Hn : mem_node (node_of i) (s_nodes st) = true).
  { apply mem_node_In. apply (cv_node _ C). unfold has. congruence. }
  rewrite (cl_data _ _ _ (clear_with_descs_Cleared st (node_of i) Hn)).
  assert (mem_node (node_of i) (descs_with st (node_of i)) = true) as ->
      by (apply mem_node_In, descs_with_self). reflexivity.
Qed.

Lemma clear_value_at_cells st i b : s_cells (clear_value_at st i b) = s_cells st.
Proof.
  unfold clear_value_at. destruct (has_data st i); [|reflexivity].
  destruct (b || negb (mem_item i (s_inputs st))); [|reflexivity].
  unfold clear_with_descs. destruct (mem_node (node_of i) (s_nodes st)) eqn:Hn; [|reflexivity].
  pose proof (clear_with_descs_Cleared st (node_of i) Hn) as CL. unfold clear_with_descs in CL.
  rewrite Hn in CL. exact (cl_cells _ _ _ CL).
Qed.

(** * Recalculation *)
Lemma eval_top_reent_mono fuel st i r st' :
  eval_top fuel st i = (r, st') -> s_reent st = true -> s_reent st' = true.
Proof.
  intros H R. unfold eval_top in H.
  destruct (lookup_cell (s_cells st) (fst i)) as [cl|]; [|inversion H; subst; exact R].
  destruct (if cl_cached cl then lookup_data (s_data st) i else None); [inversion H; subst; exact R|].
  destruct (eval_formula fuel (upd_taint (upd_rolled (upd_err st None) []) 0) cl i) as [rf stf] eqn:Ef.
  pose proof (proj1 (proj2 (proj2 (proj2 (reent_mono_all fuel)))) _ _ _ _ _ Ef R) as Rf.
  destruct rf; inversion H; subst; exact Rf.
Qed.

Lemma recalc_reent_mono fuel ns : forall st r st',
  recalc_all fuel st ns = (r, st') -> s_reent st = true -> s_reent st' = true.
Proof.
  induction ns as [|n ns IH]; intros st r st' H R; simpl in H; [inversion H; subst; exact R|].
  destruct n as [c k|c]; [|eapply IH; eauto].
  destruct (eval_top fuel st (c, k)) as [[v|e|] st1] eqn:E;
    pose proof (eval_top_reent_mono _ _ _ _ _ E R) as R1.
  - eapply IH; eauto.
  - inversion H; subst; exact R1.
  - inversion H; subst; exact R1.
Qed.

Lemma recalc_all_quiet fuel ns : forall st r st',
  recalc_all fuel st ns = (r, st') -> r <> OutOfFuel -> Quiet st -> s_reent st = false ->
  s_reent st' = true \/ Quiet st'.
Proof.
  induction ns as [|n ns IH]; intros st r st' H Hr Q Hre; simpl in H.
  - inversion H; subst. now right.
  - destruct n as [c k|c]; [|eapply IH; eauto].
    destruct (eval_top fuel st (c, k)) as [[v|e|] st1] eqn:E.
    + destruct (eval_top_quiet _ _ _ _ _ E ltac:(discriminate) Q Hre) as [R|Q1].
      * left. eapply recalc_reent_mono; eauto.
      * destruct (s_reent st1) eqn:R1; [left; eapply recalc_reent_mono; eauto|].
        eapply IH; eauto.
    + inversion H; subst. eapply eval_top_quiet; eauto. discriminate.
    + inversion H; subst. congruence.
Qed.
