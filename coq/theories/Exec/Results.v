(** Consequences of the invariants, in the form the property files quote. *)
From Coq Require Import List ZArith Bool Arith Lia.
From MX Require Import Exec.Model Exec.Spec Exec.Basics Exec.SpecMono Exec.Sim Exec.Reads Exec.Graph
  Exec.Cover Exec.Cover2 Exec.Sim2 Exec.Quiet Exec.Local Exec.Edits Exec.Edits2 Exec.Edits3 Exec.Top.
Import ListNotations.

(** * Histories: every value held, and every answer, is the specification's
      value under the current definitions and inputs *)
Theorem history_correct fuel cells refs maxd ops xs st :
  ops_ok ops ->
  run fuel (init cells refs maxd) ops = (xs, st) -> no_fuel_out xs -> s_reent st = false ->
  Quiet st /\
  (forall i v, lookup_data (s_data st) i = Some v ->
     mem_item i (s_inputs st) = true \/ exists f, spec_eval f st i = Val v) /\
  (forall i r st', eval_top fuel st i = (r, st') -> r <> OutOfFuel -> s_masks st' = s_masks st ->
     agrees r (fun g => spec_eval g st i)).
Proof.
  intros Hops Hrun Hnf Hre.
  destruct (run_quiet _ _ _ _ _ Hrun Hnf (Quiet_init cells refs maxd) eq_refl Hops) as [R|Q]; [congruence|].
  split; [exact Q|]. destruct Q as ((HI & _) & _). split.
  - exact (proj2 HI).
  - intros i r st' H Hr Hmk. destruct (eval_top_sim _ _ _ _ _ H Hr HI) as (_ & _ & A). exact (A Hmk).
Qed.

(** * C06: what a value edit discards *)
Lemma path_last es a b : path es a b -> a = b \/ exists c, In (c, b) es.
Proof.
  induction 1 as [a|a b c E P IH]; [now left|]. right.
  destruct IH as [->|IH]; [exists a; exact E|exact IH].
Qed.

Lemma input_not_descendant st j m :
  Quiet st -> path (s_edges st) (node_of j) (node_of m) -> mem_item m (s_inputs st) = true -> m = j.
Proof.
  intros ((_ & C & _) & _) P Hm. destruct (path_last _ _ _ P) as [E|(c & E)].
  - symmetry. now apply node_of_inj.
  - rewrite (cv_input _ C c m E) in Hm. discriminate.
Qed.

(** clearing (or overwriting) the value of [i]: exactly the held elements
    reachable from [i] in the dependency graph lose their value; every other
    held value, and every other input, stays as it was *)
Theorem clear_exact st i :
  Quiet st -> has st i ->
  let st' := clear_value_at st i true in
  Quiet st' /\
  (forall m, lookup_data (s_data st') m =
             if mem_node (node_of m) (descs_with st (node_of i)) then None else lookup_data (s_data st) m) /\
  (forall m, In (node_of m) (descs_with st (node_of i)) <-> path (s_edges st) (node_of i) (node_of m)) /\
  (forall m, m <> i -> mem_item m (s_inputs st') = mem_item m (s_inputs st)).
Proof.
  intros Q Hh st'. split; [now apply Quiet_clear_value_at|].
  assert (Hd : has_data st i = true).
  { unfold has_data. unfold has in Hh. destruct (lookup_data (s_data st) i); [reflexivity|congruence]. }
  assert (Hn : mem_node (node_of i) (s_nodes st) = true).
  { apply mem_node_In. destruct Q as ((_ & C & _) & _). now apply (cv_node _ C). }
  pose proof (clear_with_descs_Cleared st (node_of i) Hn) as CL.
  assert (Est : st' = clear_with_descs st (node_of i)).
  { unfold st', clear_value_at. now rewrite Hd. }
  rewrite Est. split; [exact (cl_data _ _ _ CL)|]. split.
  - intros m. apply descs_with_spec.
  - intros m Hm. rewrite (cl_inputs _ _ _ CL).
    destruct (mem_item m (s_inputs st)) eqn:Ei; [|reflexivity]. simpl.
    apply negb_true_iff. apply mem_node_false. intros Hin. apply descs_with_spec in Hin.
    apply Hm. eapply input_not_descendant; eauto.
Qed.

(** an assigned value is what the cells returns, whatever its formula, and
    no formula runs *)
Theorem input_returned fuel st i v cl :
  lookup_cell (s_cells st) (fst i) = Some cl -> cl_cached cl = true ->
  lookup_data (s_data st) i = Some v ->
  eval_top fuel st i = (Val v, st).
Proof. intros El Ec Hl. unfold eval_top. now rewrite El, Ec, Hl. Qed.

(** [cells.clear()] (computed values only) never loses an input *)
Theorem clear_keeps_inputs st c m :
  Quiet st -> mem_item m (s_inputs st) = true ->
  let st' := clear_all_values st c false in
  mem_item m (s_inputs st') = true /\ lookup_data (s_data st') m = lookup_data (s_data st) m.
Proof.
  intros Q Hm. unfold clear_all_values.
  generalize (keys_of st c). intros l. revert st Q Hm.
  induction l as [|k l IH]; intros st Q Hm; simpl; [auto|].
  set (st1 := clear_value_at st k false).
  assert (H1 : mem_item m (s_inputs st1) = true /\ lookup_data (s_data st1) m = lookup_data (s_data st) m).
  { unfold st1, clear_value_at. destruct (has_data st k) eqn:Hd; [|auto].
    destruct (mem_item k (s_inputs st)) eqn:Hk; simpl; [auto|].
    assert (Hn : mem_node (node_of k) (s_nodes st) = true).
    { apply mem_node_In. destruct Q as ((_ & C & _) & _). apply (cv_node _ C).
      unfold has, has_data in *. destruct (lookup_data (s_data st) k); [discriminate|discriminate Hd]. }
    pose proof (clear_with_descs_Cleared st (node_of k) Hn) as CL.
    assert (Hnot : mem_node (node_of m) (descs_with st (node_of k)) = false).
    { apply mem_node_false. intros Hin. apply descs_with_spec in Hin.
      pose proof (input_not_descendant _ _ _ Q Hin Hm). subst. congruence. }
    rewrite (cl_inputs _ _ _ CL), (cl_data _ _ _ CL), Hnot, Hm. auto. }
  destruct H1 as (A & B).
  destruct (IH st1 (Quiet_clear_value_at _ _ _ Q) A) as (A' & B'). split; [exact A'|congruence].
Qed.

(** * C08: graph and cache agree; every read is recorded *)
Theorem graph_matches_cache st :
  Quiet st ->
  (forall i, In (node_of i) (s_nodes st) <-> has st i) /\
  (forall a b, In (a, b) (s_edges st) -> In a (s_nodes st) /\ In b (s_nodes st)) /\
  (forall a i, In (a, node_of i) (s_edges st) -> mem_item i (s_inputs st) = false) /\
  (forall j v, lookup_data (s_data st) j = Some v -> mem_item j (s_inputs st) = false ->
     exists f ds, dr_own f (defs_of st) (input_data st) j = (Val v, ds) /\ Forall (cov_rd st j) ds) /\
  (forall i, has st i -> is_cached st (fst i) = true).
Proof.
  intros ((_ & C & _) & Hs & _). split; [|split; [exact (cv_edge _ C)|split; [exact (cv_input _ C)|
    split; [exact (cv_reads _ C)|exact (cv_cached _ C)]]]].
  intros i. split; [|apply (cv_node _ C)].
  intros H. destruct (cv_items _ C i H) as (_ & [B|B]); [exact B|]. rewrite Hs in B. destruct B.
Qed.

(** * C17: the recorded traceback starts at the requested element *)
Theorem traceback_outermost fuel st i k st' cl :
  eval_top fuel st i = (Err k, st') -> Inv st -> s_stack st = [] ->
  lookup_cell (s_cells st) (fst i) = Some cl ->
  exists ln rest, s_err st' = Some (k, (i, ln) :: rest) /\ s_rolled st' = [].
Proof.
  intros H HI Hs El. unfold eval_top in H. rewrite El in H.
  destruct (if cl_cached cl then lookup_data (s_data st) i else None) eqn:Eh; [inversion H|].
  set (st0 := upd_taint (upd_rolled (upd_err st None) []) 0) in *.
  destruct (eval_formula fuel st0 cl i) as [[v|k'|] st1] eqn:Ef; inversion H; subst k' st'. clear H.
  destruct fuel as [|f]; [simpl in Ef; inversion Ef|]. simpl in Ef.
  change (s_maxdepth st0) with (s_maxdepth st) in Ef. change (s_stack st0) with (s_stack st) in Ef.
  rewrite Hs in Ef. simpl in Ef.
  match type of Ef with context [exec_body f ?s1 _ _ _ _ _] => set (stp := s1) in * end.
  destruct (exec_body f stp (snd i) [] (cl_body cl) (cl_body cl) 0) as [[rb st2] ln] eqn:Eb.
  assert (Hrb : rb <> OutOfFuel) by (intros ->; inversion Ef).
  destruct (proj2 (proj2 (proj2 (proj2 (sim_all f)))) _ _ _ _ _ _ _ _ _ Eb Hrb HI) as (_ & (_ & K2 & _) & _).
  change (s_stack stp) with [i] in K2.
  assert (Hroll : forall ln0, exists rest, s_rolled (rollback_frame st2 ln0) = (i, ln0) :: rest).
  { intros ln0. unfold rollback_frame. rewrite K2. simpl.
    destruct (mem_node (node_of i) (s_nodes st2)); simpl; eexists; reflexivity. }
  destruct rb as [v|kb|]; [|inversion Ef; subst; destruct (Hroll ln) as (rest & E);
                             exists ln, rest; simpl; rewrite E; auto|congruence].
  assert (Ef' : (@Err val KNone, rollback_frame st2 0) = (@Err val k, st1) /\ v = VNone).
  { destruct (tainted st2); [destruct v as [z|]; [inversion Ef|]; destruct (cl_allow_none cl); [inversion Ef|]; auto|].
    destruct (cl_cached cl).
    - unfold store_value in Ef.
      destruct v as [z|]; [inversion Ef|]. destruct (cl_allow_none cl); [inversion Ef|]. auto.
    - destruct v as [z|]; [inversion Ef|]. destruct (cl_allow_none cl); [inversion Ef|]. auto. }
  destruct Ef' as (Ef' & _).
  inversion Ef'; subst. destruct (Hroll 0) as (rest & E). exists 0, rest. simpl. rewrite E. auto.
Qed.
