(** K4, part 2: the coverage invariant through push / hit / pop / rollback. *)
From Coq Require Import List ZArith Bool Arith Lia.
From MX Require Import Exec.Model Exec.Spec Exec.Basics Exec.SpecMono Exec.Sim Exec.Reads Exec.Cover.
Import ListNotations.

Lemma not_input_of_stack st x :
  Inv st -> StackOK st -> In x (s_stack st) -> is_cached st (fst x) = true ->
  mem_item x (s_inputs st) = false.
Proof.
  intros (I1 & _) SO Hx Hc. destruct (mem_item x (s_inputs st)) eqn:E; [|reflexivity].
  exfalso. apply (I1 x E). now apply SO.
Qed.

Lemma node_of_inj a b : node_of a = node_of b -> a = b.
Proof. destruct a, b; unfold node_of; simpl. intros H; inversion H; reflexivity. Qed.

Lemma pop_frame_taint st : s_taint (pop_frame st) = s_taint st.
Proof.
  unfold pop_frame. destruct (s_stack st) as [|i rest]; [reflexivity|].
  set (st1 := upd_stack st rest).
  set (st2 := match nearest_cached st1 rest with
              | Some caller => if is_cached st (fst i) then g_add_edge st1 (node_of i) (node_of caller)
                               else g_add_edge st1 (NObj (fst i)) (node_of caller)
              | None => if is_cached st (fst i) then g_add_node st1 (node_of i) else st1
              end).
  assert (H2 : s_taint st2 = s_taint st).
  { unfold st2. destruct (nearest_cached st1 rest); destruct (is_cached st (fst i)); reflexivity. }
  destruct (is_cached st (fst i)).
  - pose proof (pop_refs_taint st2 (List.length rest) i (s_refstack st2)) as K.
    destruct (pop_refs st2 (List.length rest) i (s_refstack st2)) as [st3 rs]. simpl in *. congruence.
  - destruct rest; simpl; exact H2.
Qed.

Lemma rollback_frame_taint st i rest ln :
  s_stack st = i :: rest -> s_taint (rollback_frame st ln) = List.length rest.
Proof.
  intros Es. unfold rollback_frame. rewrite Es. simpl.
  destruct (mem_node (node_of i) (s_nodes st)); reflexivity.
Qed.

(** * Cache hit inside a formula *)
Lemma Cov_hit st i jc :
  Inv st -> Cov st -> StackOK st -> has st i ->
  nearest_cached st (s_stack st) = Some jc ->
  Cov (g_add_edge st (node_of i) (node_of jc)).
Proof.
  intros HI C SO Hh Hn. destruct (nearest_cached_in _ _ _ Hn) as (Hin & Hc).
  pose proof (not_input_of_stack _ _ HI SO Hin Hc) as Hni.
  set (st' := g_add_edge st (node_of i) (node_of jc)).
  assert (G : Grow st st').
  { repeat split; try apply incl_refl; try (intros x Hx; exact Hx).
    - intros e He. apply g_add_edge_edges. now right.
    - intros n Hn'. apply g_add_edge_nodes. auto. }
  constructor.
  - intros x Hx. apply g_add_edge_nodes. right; right. now apply (cv_node _ C).
  - intros x Hx. exact (cv_cached _ C x Hx).
  - intros j v Hl Hm. destruct (cv_reads _ C j v Hl Hm) as (f & ds & A & B).
    exists f, ds. split; [exact A|]. eapply Forall_impl; [|exact B]. intros x. now apply cov_rd_grow.
  - intros a x He. apply g_add_edge_edges in He as [He|He].
    + assert (H1 : node_of x = node_of jc) by congruence. apply node_of_inj in H1. now subst.
    + exact (cv_input _ C a x He).
  - intros a b He. apply g_add_edge_edges in He as [He|He].
    + assert (a = node_of i /\ b = node_of jc) as (-> & ->) by (split; congruence).
      split; apply g_add_edge_nodes; auto.
    + destruct (cv_edge _ C a b He). split; apply g_add_edge_nodes; auto.
  - intros x Hx. apply g_add_edge_nodes in Hx as [Hx|[Hx|Hx]].
    + apply node_of_inj in Hx; subst x. split; [exact (cv_cached _ C i Hh)|now left].
    + apply node_of_inj in Hx; subst x. split; [exact Hc|now right].
    + exact (cv_items _ C x Hx).
  - exact (cv_refs _ C).
  - intros c Hc'. apply g_add_edge_nodes in Hc' as [Hc'|[Hc'|Hc']]; try (destruct i; discriminate);
      try (destruct jc; discriminate). exact (cv_obj _ C c Hc').
  - exact (cv_taint _ C).
Qed.

(** * Entering a formula *)
Lemma Good_push st i cl :
  Good st -> lookup_cell (s_cells st) (fst i) = Some cl ->
  (if cl_cached cl then lookup_data (s_data st) i else None) = None ->
  Good (upd_reent (upd_log (upd_stack st (i :: s_stack st)) (i :: s_log st))
                  (s_reent st || mem_item i (s_stack st))).
Proof.
  intros (HI & C & SO) El Em. split; [exact HI|]. split.
  - constructor; simpl.
    + exact (cv_node _ C).
    + exact (cv_cached _ C).
    + exact (cv_reads _ C).
    + exact (cv_input _ C).
    + exact (cv_edge _ C).
    + intros x Hx. destruct (cv_items _ C x Hx) as (A & [B|B]); split; auto.
    + eapply rs_ok_weaken; [|exact (cv_refs _ C)]. lia.
    + exact (cv_obj _ C).
    + pose proof (cv_taint _ C). lia.
  - intros x [<-|Hx] Hc; simpl.
    + unfold is_cached in Hc. simpl in Hc. rewrite El in Hc. now rewrite Hc in Em.
    + now apply SO.
Qed.

(** entries of other depths survive popping *)
Lemma pop_refs_keep_other st d t rs p :
  In p rs -> fst p <> d -> In p (snd (pop_refs st d t rs)).
Proof.
  revert st; induction rs as [|[d' r'] tl IH]; intros st Hin Hne; simpl; [destruct Hin|].
  destruct (Nat.eqb d' d) eqn:E.
  - apply Nat.eqb_eq in E; subst d'. destruct Hin as [<-|Hin]; [simpl in Hne; congruence|].
    now apply IH.
  - exact Hin.
Qed.
Lemma drop_refs_keep_other d rs p : In p rs -> fst p <> d -> In p (drop_refs d rs).
Proof.
  induction rs as [|[d' r'] tl IH]; intros Hin Hne; simpl; [destruct Hin|].
  destruct (Nat.eqb d' d) eqn:E.
  - apply Nat.eqb_eq in E; subst d'. destruct Hin as [<-|Hin]; [simpl in Hne; congruence|].
    now apply IH.
  - exact Hin.
Qed.

Lemma rs_ok_bound n rs p : rs_ok n rs -> In p rs -> fst p < n.
Proof.
  revert n; induction rs as [|[d r] tl IH]; intros n Hok Hin; [destruct Hin|].
  simpl in Hok. destruct Hok as (A & B). destruct Hin as [<-|Hin]; [exact A|].
  specialize (IH _ B Hin). lia.
Qed.

Lemma pop_frame_refstack_keep st i rest p :
  s_stack st = i :: rest -> In p (s_refstack st) -> fst p <> List.length rest ->
  In p (s_refstack (pop_frame st)).
Proof.
  intros Es Hin Hne. unfold pop_frame. rewrite Es.
  set (st1 := upd_stack st rest).
  set (st2 := match nearest_cached st1 rest with
              | Some caller => if is_cached st (fst i) then g_add_edge st1 (node_of i) (node_of caller)
                               else g_add_edge st1 (NObj (fst i)) (node_of caller)
              | None => if is_cached st (fst i) then g_add_node st1 (node_of i) else st1
              end).
  assert (H2 : s_refstack st2 = s_refstack st).
  { unfold st2. destruct (nearest_cached st1 rest); destruct (is_cached st (fst i)); reflexivity. }
  destruct (is_cached st (fst i)).
  - pose proof (pop_refs_keep_other st2 (List.length rest) i (s_refstack st2) p) as K.
    destruct (pop_refs st2 (List.length rest) i (s_refstack st2)) as [st3 rs]. simpl in *.
    apply K; [now rewrite H2|assumption].
  - destruct rest as [|x rest']; cbn [upd_refstack s_refstack]; rewrite H2.
    + now apply drop_refs_keep_other.
    + now apply move_refs_keep_other.
Qed.

Lemma rollback_frame_refstack_keep st i rest ln p :
  s_stack st = i :: rest -> In p (s_refstack st) -> fst p <> List.length rest ->
  In p (s_refstack (rollback_frame st ln)).
Proof.
  intros Es Hin Hne. unfold rollback_frame. rewrite Es. simpl.
  destruct (mem_node (node_of i) (s_nodes st)); simpl; now apply drop_refs_keep_other.
Qed.

(** * Leaving a formula with an error *)
Lemma Good_rollback st i rest ln :
  Good st -> s_stack st = i :: rest -> Inv (rollback_frame st ln) ->
  Good (rollback_frame st ln).
Proof.
  intros (HI & C & SO) Es HI'.
  destruct (rollback_frame_graph st i rest ln Es (cv_edge _ C)) as (RE & RN & RR & RS & _).
  destruct (rollback_frame_fields st ln) as (FS & FD & FK & _).
  rewrite Es in FK. simpl in FK.
  assert (Hcells : s_cells (rollback_frame st ln) = s_cells st) by (now apply static_cells).
  assert (Hinp : s_inputs (rollback_frame st ln) = s_inputs st) by (now apply static_inputs).
  (* the failing element holds nothing *)
  assert (Hnot : forall x, has st x -> x <> i).
  { intros x Hx ->. pose proof (cv_cached _ C i Hx) as Hc.
    apply Hx. apply SO; [rewrite Es; now left|exact Hc]. }
  split; [exact HI'|]. split.
  - constructor.
    + intros x Hx. unfold has in Hx. rewrite FD in Hx. apply RN. split; [now apply (cv_node _ C)|].
      intros E. apply node_of_inj in E. now apply (Hnot x Hx).
    + intros x Hx. unfold has in Hx. rewrite FD in Hx.
      rewrite (is_cached_cells st _ _ Hcells). now apply (cv_cached _ C).
    + intros j v Hl Hm. rewrite FD in Hl. rewrite Hinp in Hm.
      destruct (cv_reads _ C j v Hl Hm) as (f & ds & A & B).
      exists f, ds. split.
      * now rewrite (static_defs _ _ FS), (input_data_core _ _ FS FD).
      * eapply Forall_impl; [|exact B]. intros x Hx.
        assert (Hj : j <> i) by (apply Hnot; unfold has; congruence).
        assert (Hnj : node_of j <> node_of i) by (intros E; apply node_of_inj in E; contradiction).
        destruct x as [m|c|r|c r|]; simpl in *; [| | | |exact Hx].
        -- destruct Hx as (He & Hm'). split.
           ++ apply RE. simpl. repeat split; [exact He| |exact Hnj].
              intros E. apply node_of_inj in E. now apply (Hnot m Hm').
           ++ unfold has. now rewrite FD.
        -- apply RE. simpl. repeat split; [exact Hx|destruct i; discriminate|exact Hnj].
        -- now rewrite RR.
        -- destruct Hx as [Hx|Hx]; [now left|right].
           apply RE. simpl. repeat split; [exact Hx|destruct i; discriminate|exact Hnj].
    + intros a x He. apply RE in He as (He & _). rewrite Hinp. exact (cv_input _ C a x He).
    + intros a b He. apply RE in He as (He & A & B). simpl in A, B.
      destruct (cv_edge _ C a b He). split; apply RN; auto.
    + intros x Hx. apply RN in Hx as (Hx & Hne).
      destruct (cv_items _ C x Hx) as (A & B). split.
      * now rewrite (is_cached_cells st _ _ Hcells).
      * destruct B as [B|B]; [left; unfold has; now rewrite FD|].
        rewrite Es in B. destruct B as [<-|B]; [contradiction|]. right. now rewrite FK.
    + rewrite FK. apply RS. pose proof (cv_refs _ C) as R. now rewrite Es in R.
    + intros c Hc'. apply RN in Hc' as (Hc' & _). rewrite (is_cached_cells st _ _ Hcells).
      exact (cv_obj _ C c Hc').
    + rewrite FK, (rollback_frame_taint st i rest ln Es). apply le_n.
  - intros x Hx Hc. rewrite FK in Hx. rewrite FD.
    apply SO; [rewrite Es; now right|].
    now rewrite <- (is_cached_cells st _ _ Hcells).
Qed.

(** * Leaving a formula with a value *)
Lemma cov_pending_to_rd_cached st2 st' i rest x :
  s_stack st2 = i :: rest ->
  (forall e, In e (s_edges st2) -> In e (s_edges st')) ->
  (forall e, In e (s_redges st2) -> In e (s_redges st')) ->
  (forall m, has st2 m -> has st' m) ->
  (forall r, In (List.length rest, r) (s_refstack st2) -> In (r, i) (s_redges st')) ->
  cov_pending st2 (Some i) (fst i) (List.length rest) x -> cov_rd st' i x.
Proof.
  intros Es HE HR HH HP. destruct x as [m|c|r|c r|]; simpl.
  - intros (A & B). split; [now apply HE|now apply HH].
  - intros A. now apply HE.
  - intros [A|A]; [now apply HR|now apply HP].
  - intros [A|A]; [now left|right; now apply HE].
  - intros [].
Qed.

Lemma Good_pop_cached st2 i rest v f ds :
  Good st2 -> s_stack st2 = i :: rest -> ~ In i rest ->
  is_cached st2 (fst i) = true -> s_taint st2 <= List.length rest ->
  lookup_data (s_data st2) i = None -> mem_item i (s_inputs st2) = false ->
  dr_own f (defs_of st2) (input_data st2) i = (Val v, ds) ->
  Forall (cov_pending st2 (Some i) (fst i) (List.length rest)) ds ->
  let st3 := upd_data st2 (set_data (s_data st2) i v) in
  Inv (pop_frame st3) ->
  Good (pop_frame st3) /\ Grow st2 (pop_frame st3) /\
  has (pop_frame st3) i /\
  (forall jc, nearest_cached st2 rest = Some jc ->
              In (node_of i, node_of jc) (s_edges (pop_frame st3))).
Proof.
  intros (HI & C & SO) Es Hni Hc Htn Hnone Hninp Hdr Hcov st3 HI'.
  assert (Es3 : s_stack st3 = i :: rest) by exact Es.
  assert (Hc3 : is_cached st3 (fst i) = true) by exact Hc.
  assert (Hnc3 : nearest_cached st3 rest = nearest_cached st2 rest) by (apply nearest_cached_cells; reflexivity).
  destruct (pop_frame_graph st3 i rest Es3) as (PE & PN & PR1 & PR2 & PR3 & PS & _ & _).
  unfold pop_src, pop_target in *. rewrite Hc3 in *. rewrite Hnc3 in *.
  destruct (pop_frame_fields st3) as (FS & FD & FK & _).
  rewrite Es3 in FK. simpl in FK.
  set (st' := pop_frame st3) in *.
  assert (Hcells : s_cells st' = s_cells st2) by (apply static_cells in FS; exact FS).
  assert (Hinp : s_inputs st' = s_inputs st2) by (apply static_inputs in FS; exact FS).
  assert (Hdata : s_data st' = set_data (s_data st2) i v) by exact FD.
  assert (Hhas : forall m, has st2 m -> has st' m).
  { intros m Hm. unfold has in *. rewrite Hdata. destruct (item_eqb m i) eqn:E.
    - apply item_eqb_eq in E; subst. rewrite lookup_set_same. discriminate.
    - apply item_eqb_neq in E. now rewrite lookup_set_other. }
  assert (Hhasi : has st' i) by (unfold has; rewrite Hdata, lookup_set_same; discriminate).
  assert (HE : forall e, In e (s_edges st2) -> In e (s_edges st')) by (intros e He; apply PE; now left).
  assert (HN : forall n, In n (s_nodes st2) -> In n (s_nodes st')) by (intros n Hn; apply PN; now left).
  assert (G : Grow st2 st') by (repeat split; assumption).
  assert (Hrs : rs_ok (S (List.length rest)) (s_refstack st2)).
  { pose proof (cv_refs _ C) as R. now rewrite Es in R. }
  assert (Hdefs : defs_of st' = defs_of st2) by (apply static_defs; exact FS).
  assert (Hid : input_data st' = input_data st2).
  { unfold input_data. rewrite Hinp, Hdata.
    apply (filter_set_data (fun x => mem_item x (s_inputs st2))). exact Hninp. }
  split; [|split; [exact G|split; [exact Hhasi|]]].
  - split; [exact HI'|]. split.
    + constructor.
      * intros x Hx. unfold has in Hx. rewrite Hdata in Hx. destruct (item_eqb x i) eqn:E.
        -- apply item_eqb_eq in E; subst x. apply PN.
           destruct (nearest_cached st2 rest) as [jc|]; [right; left; eexists; split; [reflexivity|now left]|].
           right; right. auto.
        -- apply item_eqb_neq in E. rewrite lookup_set_other in Hx by assumption.
           apply HN. now apply (cv_node _ C).
      * intros x Hx. rewrite (is_cached_cells st2 _ _ Hcells).
        unfold has in Hx. rewrite Hdata in Hx. destruct (item_eqb x i) eqn:E.
        -- apply item_eqb_eq in E; subst x. exact Hc.
        -- apply item_eqb_neq in E. rewrite lookup_set_other in Hx by assumption.
           now apply (cv_cached _ C).
      * intros j w Hl Hm. rewrite Hdata in Hl. rewrite Hinp in Hm. rewrite Hdefs, Hid.
        destruct (item_eqb j i) eqn:E.
        -- apply item_eqb_eq in E; subst j. rewrite lookup_set_same in Hl. inversion Hl; subst w.
           exists f, ds. split; [exact Hdr|].
           eapply Forall_impl; [|exact Hcov]. intros x.
           apply (cov_pending_to_rd_cached st2 st' i rest x Es HE PR2 Hhas).
           intros r Hr. apply PR3; [reflexivity|exact Hrs|exact Hr].
        -- apply item_eqb_neq in E. rewrite lookup_set_other in Hl by assumption.
           destruct (cv_reads _ C j w Hl Hm) as (f' & ds' & A & B).
           exists f', ds'. split; [exact A|]. eapply Forall_impl; [|exact B].
           intros x. now apply cov_rd_grow.
      * intros a x He. rewrite Hinp. apply PE in He as [He|(jc & En & He)].
        -- exact (cv_input _ C a x He).
        -- assert (H1 : node_of x = node_of jc) by congruence. apply node_of_inj in H1; subst x.
           destruct (nearest_cached_in _ _ _ En) as (Hin & Hcj).
           apply (not_input_of_stack st2); [exact HI|exact SO|rewrite Es; now right|exact Hcj].
      * intros a b He. apply PE in He as [He|(jc & En & He)].
        -- destruct (cv_edge _ C a b He). split; apply HN; assumption.
        -- assert (a = node_of i /\ b = node_of jc) as (-> & ->) by (split; congruence).
           split; apply PN; right; left; exists jc; auto.
      * intros x Hx. rewrite (is_cached_cells st2 _ _ Hcells). rewrite FK.
        apply PN in Hx as [Hx|[(jc & En & [Hx|Hx])|(En & _ & Hx)]].
        -- destruct (cv_items _ C x Hx) as (A & B). split; [exact A|].
           destruct B as [B|B]; [left; now apply Hhas|].
           rewrite Es in B. destruct B as [<-|B]; [now left|now right].
        -- apply node_of_inj in Hx; subst x. split; [exact Hc|now left].
        -- apply node_of_inj in Hx; subst x. destruct (nearest_cached_in _ _ _ En) as (Hin & Hcj).
           split; [exact Hcj|now right].
        -- apply node_of_inj in Hx; subst x. split; [exact Hc|now left].
      * rewrite FK. now apply PS.
      * intros c Hc'. rewrite (is_cached_cells st2 _ _ Hcells).
        apply PN in Hc' as [Hc'|[(jc & En & [Hc'|Hc'])|(En & _ & Hc')]];
          try (destruct i; discriminate); try (destruct jc; discriminate).
        exact (cv_obj _ C c Hc').
      * rewrite FK. unfold st'. rewrite pop_frame_taint. exact Htn.
    + intros x Hx Hcx. rewrite FK in Hx. rewrite Hdata.
      assert (x <> i) by (intros ->; contradiction).
      rewrite lookup_set_other by assumption.
      apply SO; [rewrite Es; now right|]. now rewrite <- (is_cached_cells st2 _ _ Hcells).
  - intros jc En. apply PE. right. exists jc. split; [exact En|reflexivity].
Qed.

Lemma cov_pending_after_uncached st2 st' nc i rest me d x :
  s_stack st2 = i :: rest -> d = List.length rest - 1 ->
  (forall e, In e (s_edges st2) -> In e (s_edges st')) ->
  (forall e, In e (s_redges st2) -> In e (s_redges st')) ->
  (forall m, has st2 m -> has st' m) ->
  (forall jc r, nc = Some jc -> In (List.length rest, r) (s_refstack st2) ->
                In (List.length rest - 1, r) (s_refstack st')) ->
  (forall jc, nc = Some jc -> In (NObj (fst i), node_of jc) (s_edges st')) ->
  cov_pending st2 nc (fst i) (List.length rest) x -> cov_pending st' nc me d x.
Proof.
  intros Es Hd HE HR HH HP HO. unfold cov_pending. destruct nc as [jc|]; [|auto].
  destruct x as [m|c|r|c r|]; simpl.
  - intros (A & B). split; [now apply HE|now apply HH].
  - intros A. now apply HE.
  - intros [A|A]; [left; now apply HR|right; subst d; now apply (HP jc)].
  - intros [A|A]; right; [subst c; now apply HO|now apply HE].
  - intros [].
Qed.

Lemma Good_pop_uncached st2 i rest :
  Good st2 -> s_stack st2 = i :: rest ->
  is_cached st2 (fst i) = false -> s_taint st2 <= List.length rest ->
  Inv (pop_frame st2) ->
  Good (pop_frame st2) /\ Grow st2 (pop_frame st2) /\
  (forall jc, nearest_cached st2 rest = Some jc ->
              In (NObj (fst i), node_of jc) (s_edges (pop_frame st2)) /\
              forall r, In (List.length rest, r) (s_refstack st2) ->
                        In (List.length rest - 1, r) (s_refstack (pop_frame st2))).
Proof.
  intros (HI & C & SO) Es Hc Htn HI'.
  destruct (pop_frame_graph st2 i rest Es) as (PE & PN & PR1 & PR2 & PR3 & PS & _ & PM).
  unfold pop_src, pop_target in *. rewrite Hc in *.
  destruct (pop_frame_fields st2) as (FS & FD & FK & _).
  rewrite Es in FK. simpl in FK.
  set (st' := pop_frame st2) in *.
  assert (Hcells : s_cells st' = s_cells st2) by (apply static_cells in FS; exact FS).
  assert (Hinp : s_inputs st' = s_inputs st2) by (apply static_inputs in FS; exact FS).
  assert (Hhas : forall m, has st2 m -> has st' m) by (intros m Hm; unfold has in *; now rewrite FD).
  assert (HE : forall e, In e (s_edges st2) -> In e (s_edges st')) by (intros e He; apply PE; now left).
  assert (HN : forall n, In n (s_nodes st2) -> In n (s_nodes st')) by (intros n Hn; apply PN; now left).
  assert (G : Grow st2 st') by (repeat split; assumption).
  assert (Hrs : rs_ok (S (List.length rest)) (s_refstack st2)).
  { pose proof (cv_refs _ C) as R. now rewrite Es in R. }
  split; [|split; [exact G|]].
  - split; [exact HI'|]. split.
    + constructor.
      * intros x Hx. unfold has in Hx. rewrite FD in Hx. apply HN. now apply (cv_node _ C).
      * intros x Hx. rewrite (is_cached_cells st2 _ _ Hcells). unfold has in Hx. rewrite FD in Hx.
        now apply (cv_cached _ C).
      * intros j w Hl Hm. rewrite FD in Hl. rewrite Hinp in Hm.
        rewrite (static_defs _ _ FS), (input_data_core _ _ FS FD).
        destruct (cv_reads _ C j w Hl Hm) as (f' & ds' & A & B).
        exists f', ds'. split; [exact A|]. eapply Forall_impl; [|exact B].
        intros x. now apply cov_rd_grow.
      * intros a x He. rewrite Hinp. apply PE in He as [He|(jc & En & He)].
        -- exact (cv_input _ C a x He).
        -- assert (H1 : node_of x = node_of jc) by congruence. apply node_of_inj in H1; subst x.
           destruct (nearest_cached_in _ _ _ En) as (Hin & Hcj).
           apply (not_input_of_stack st2); [exact HI|exact SO|rewrite Es; now right|exact Hcj].
      * intros a b He. apply PE in He as [He|(jc & En & He)].
        -- destruct (cv_edge _ C a b He). split; apply HN; assumption.
        -- assert (a = NObj (fst i) /\ b = node_of jc) as (-> & ->) by (split; congruence).
           split; apply PN; right; left; exists jc; auto.
      * intros x Hx. rewrite (is_cached_cells st2 _ _ Hcells). rewrite FK.
        apply PN in Hx as [Hx|[(jc & En & [Hx|Hx])|(En & Hf & _)]].
        -- destruct (cv_items _ C x Hx) as (A & B). split; [exact A|].
           destruct B as [B|B]; [left; now apply Hhas|].
           rewrite Es in B. destruct B as [<-|B]; [congruence|now right].
        -- destruct x; discriminate.
        -- apply node_of_inj in Hx; subst x. destruct (nearest_cached_in _ _ _ En) as (Hin & Hcj).
           split; [exact Hcj|now right].
        -- discriminate.
      * rewrite FK. now apply PS.
      * intros c Hc'. rewrite (is_cached_cells st2 _ _ Hcells).
        apply PN in Hc' as [Hc'|[(jc & En & [Hc'|Hc'])|(En & Hf & _)]].
        -- exact (cv_obj _ C c Hc').
        -- inversion Hc'; subst. exact Hc.
        -- destruct jc; discriminate.
        -- discriminate.
      * rewrite FK. unfold st'. rewrite pop_frame_taint. exact Htn.
    + intros x Hx Hcx. rewrite FK in Hx. rewrite FD.
      apply SO; [rewrite Es; now right|]. now rewrite <- (is_cached_cells st2 _ _ Hcells).
  - intros jc En. split.
    + apply PE. right. exists jc. split; [exact En|reflexivity].
    + intros r Hr. apply PM; [reflexivity| |exact Hrs|exact Hr].
      intros ->. simpl in En. discriminate.
Qed.
