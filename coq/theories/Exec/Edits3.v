(** K4, part 8: redefining cells, and the invariant over whole histories. *)
From Coq Require Import List ZArith Bool Arith Lia.
From MX Require Import Exec.Model Exec.Spec Exec.Basics Exec.SpecMono Exec.Sim Exec.Reads Exec.Graph
  Exec.Cover Exec.Cover2 Exec.Sim2 Exec.Quiet Exec.Local Exec.Edits Exec.Edits2 Exec.Top.
Import ListNotations.

(** * clear_obj leaves no node of the object *)
Lemma clear_with_descs_shrinks st n x :
  In x (s_nodes (clear_with_descs st n)) -> In x (s_nodes st).
Proof.
  destruct (mem_node n (s_nodes st)) eqn:Hm.
  - intros H. apply (cl_nodes _ _ _ (clear_with_descs_Cleared st n Hm)) in H. tauto.
  - unfold clear_with_descs. now rewrite Hm.
Qed.

Lemma clear_with_descs_removes st n : ~ In n (s_nodes (clear_with_descs st n)).
Proof.
  destruct (mem_node n (s_nodes st)) eqn:Hm.
  - intros H. apply (cl_nodes _ _ _ (clear_with_descs_Cleared st n Hm)) in H as (_ & H).
    assert (mem_node n (descs_with st n) = true) by (apply mem_node_In, descs_with_self). congruence.
  - unfold clear_with_descs. rewrite Hm. intros H. apply mem_node_In in H. congruence.
Qed.

Lemma fold_clear_shrinks l : forall st x,
  In x (s_nodes (fold_left clear_with_descs l st)) -> In x (s_nodes st).
Proof.
  induction l as [|n l IH]; intros st x H; simpl in H; [exact H|].
  apply IH in H. now apply clear_with_descs_shrinks in H.
Qed.

Lemma fold_clear_removes l : forall st n,
  In n l -> ~ In n (s_nodes (fold_left clear_with_descs l st)).
Proof.
  induction l as [|m l IH]; intros st n Hin; [destruct Hin|]. simpl.
  destruct Hin as [<-|Hin]; [|now apply IH].
  intros H. apply fold_clear_shrinks in H. now apply clear_with_descs_removes in H.
Qed.

Lemma clear_obj_nodes st c n : In n (s_nodes (clear_obj st c)) -> node_obj n <> c.
Proof.
  intros H Hc. unfold clear_obj in H.
  assert (Hin : In n (nodes_of_obj st c)).
  { unfold nodes_of_obj. apply filter_In. split; [now apply fold_clear_shrinks in H|].
    now apply Nat.eqb_eq. }
  exact (fold_clear_removes _ st n Hin H).
Qed.

(** * Replacing the definition of a cells no node refers to *)
Lemma lookup_map_cell l c x c' :
  lookup_cell (map (fun p : cid * cell => if Nat.eqb c (fst p) then (c, x) else p) l) c' =
  if Nat.eqb c' c then match lookup_cell l c with Some _ => Some x | None => None end
  else lookup_cell l c'.
Proof.
  induction l as [|[d y] l IH]; simpl; [now destruct (Nat.eqb c' c)|].
  destruct (Nat.eqb c d) eqn:Ecd; simpl.
  - apply Nat.eqb_eq in Ecd; subst d. destruct (Nat.eqb c' c) eqn:Ec'; [reflexivity|exact IH].
  - destruct (Nat.eqb c' d) eqn:Ec'd.
    + apply Nat.eqb_eq in Ec'd; subst d. rewrite Nat.eqb_sym in Ecd. now rewrite Ecd.
    + exact IH.
Qed.

Lemma lookup_set_cell l c x c' :
  lookup_cell (set_cell l c x) c' = if Nat.eqb c' c then Some x else lookup_cell l c'.
Proof.
  unfold set_cell. destruct (lookup_cell l c) eqn:E.
  - rewrite lookup_map_cell, E. reflexivity.
  - induction l as [|[d y] l IH]; simpl in *.
    + reflexivity.
    + destruct (Nat.eqb c d) eqn:Ecd; [discriminate|].
      destruct (Nat.eqb c' d) eqn:Ec'd.
      * apply Nat.eqb_eq in Ec'd; subst d. rewrite Nat.eqb_sym in Ecd. now rewrite Ecd.
      * now apply IH.
Qed.

Lemma Quiet_redefine_cell st c newcl :
  Quiet st -> (forall n, In n (s_nodes st) -> node_obj n <> c) ->
  Quiet (upd_cells st (set_cell (s_cells st) c newcl)).
Proof.
  intros ((HI & C & SO) & Hs & Hrs) Hno.
  set (st' := upd_cells st (set_cell (s_cells st) c newcl)).
  assert (Hlk : forall c', c' <> c -> lookup_cell (s_cells st') c' = lookup_cell (s_cells st) c').
  { intros c' Hc'. simpl. rewrite lookup_set_cell.
    destruct (Nat.eqb c' c) eqn:E; [apply Nat.eqb_eq in E; contradiction|reflexivity]. }
  assert (Hcached : forall c', c' <> c -> is_cached st' c' = is_cached st c').
  { intros c' Hc'. unfold is_cached. now rewrite Hlk. }
  assert (Hheld : forall m, has st m -> fst m <> c).
  { intros m Hm. apply (Hno (node_of m)). now apply (cv_node _ C). }
  set (PC := fun c' : cid => c' <> c). set (PR := fun _ : rid => True). set (PI := fun _ : item => True).
  assert (Hsafe : forall j ds, Forall (cov_rd st j) ds -> Forall (safe_rd st PC PR PI) ds).
  { intros j ds Hc. eapply Forall_impl; [|exact Hc]. intros x Hx.
    destruct x as [m|c'|r|c' r|]; [| | | |simpl in *; contradiction]; simpl in *; try exact I.
    - destruct Hx as (He & Hm). split; [exact I|]. split; [now apply Hheld|exact Hm].
    - destruct (cv_edge _ C _ _ Hx) as (Hn & _). exact (Hno _ Hn). }
  assert (AG : Agree st (defs_of st') (input_data st') PC PR PI).
  { constructor.
    - intros c' Hc'. now apply Hlk.
    - intros r _. reflexivity.
    - intros r Hr. exact Hr.
    - intros i _. reflexivity.
    - intros m Hm Hni _ _. destruct (lookup_data (s_data st) m) as [w|] eqn:Elm; [|now elim Hm].
      destruct (cv_reads _ C m w Elm Hni) as (f & ds & A & B).
      exists f, w, ds. split; [exact A|]. eapply Hsafe; eauto. }
  assert (C' : Cov st').
  { constructor.
    - exact (cv_node _ C).
    - intros m Hm. rewrite Hcached; [now apply (cv_cached _ C)|now apply Hheld].
    - intros j w Hl Hm. change (s_data st') with (s_data st) in Hl.
      change (s_inputs st') with (s_inputs st) in Hm.
      destruct (cv_reads _ C j w Hl Hm) as (f & ds & A & B).
      assert (Hj : has st j) by (unfold has; congruence).
      exists f, ds. split; [|exact B].
      destruct (lookup_cell (s_cells st) (fst j)) as [clj|] eqn:Ecj.
      + eapply locality_own; eauto. now apply Hheld.
      + unfold dr_own, defs_of in A; simpl in A. rewrite Ecj in A. discriminate.
    - exact (cv_input _ C).
    - exact (cv_edge _ C).
    - intros m Hm. destruct (cv_items _ C m Hm) as (A & B). split; [|exact B].
      rewrite Hcached; [exact A|]. exact (Hno _ Hm).
    - exact (cv_refs _ C).
    - intros c' Hc'. rewrite Hcached; [now apply (cv_obj _ C)|]. exact (Hno _ Hc').
    - exact (cv_taint _ C). }
  split; [|split; [exact Hs|exact Hrs]].
  split; [|split; [exact C'|intros x Hx; simpl in Hx; rewrite Hs in Hx; destruct Hx]].
  apply Inv_of_Cov; [exact (proj1 HI)|exact C'].
Qed.

Lemma clear_obj_cells st c : s_cells (clear_obj st c) = s_cells st.
Proof.
  unfold clear_obj. generalize (nodes_of_obj st c). intros l. revert st.
  induction l as [|n l IH]; intros st; simpl; [reflexivity|]. rewrite IH.
  destruct (mem_node n (s_nodes st)) eqn:Hm.
  - exact (cl_cells _ _ _ (clear_with_descs_Cleared st n Hm)).
  - unfold clear_with_descs. now rewrite Hm.
Qed.

(** * Every operation keeps the invariant *)
Definition op_ok (o : op) : Prop :=
  match o with
  | OpSetRef _ _ => False          (* reference changes: see the notes in Props/C02.v *)
  | _ => True
  end.

Definition reent_static (st st' : state) : Prop := s_reent st' = s_reent st.

Lemma fold_clear_trace_reent ns : forall st, s_reent (fold_left on_clear_trace ns st) = s_reent st.
Proof.
  induction ns as [|n ns IH]; intros st; simpl; [reflexivity|]. rewrite IH. destruct n; reflexivity.
Qed.
Lemma clear_with_descs_reent st n : s_reent (clear_with_descs st n) = s_reent st.
Proof.
  unfold clear_with_descs. destruct (mem_node n (s_nodes st)); [|reflexivity].
  now rewrite fold_clear_trace_reent.
Qed.
Lemma fold_reent {A} (f : state -> A -> state) l :
  (forall s a, s_reent (f s a) = s_reent s) -> forall st, s_reent (fold_left f l st) = s_reent st.
Proof. intros Hf. induction l as [|a l IH]; intros st; simpl; [reflexivity|]. now rewrite IH, Hf. Qed.
Lemma clear_value_at_reent st i b : s_reent (clear_value_at st i b) = s_reent st.
Proof.
  unfold clear_value_at. destruct (has_data st i); [|reflexivity].
  destruct (b || negb (mem_item i (s_inputs st))); [apply clear_with_descs_reent|reflexivity].
Qed.
Lemma clear_all_values_reent st c b : s_reent (clear_all_values st c b) = s_reent st.
Proof. unfold clear_all_values. apply fold_reent. intros; apply clear_value_at_reent. Qed.
Lemma clear_obj_reent st c : s_reent (clear_obj st c) = s_reent st.
Proof. unfold clear_obj. apply fold_reent. intros; apply clear_with_descs_reent. Qed.

Theorem step_quiet fuel st o x st' :
  step fuel st o = (x, st') -> x <> OFuel -> Quiet st -> s_reent st = false -> op_ok o ->
  s_reent st' = true \/ Quiet st'.
Proof.
  intros H Hx Q Hre Hop. destruct o; simpl in H.
  - (* eval *)
    destruct (eval_top fuel st i) as [[v|k|] st1] eqn:E; inversion H; subst.
    + eapply eval_top_quiet; eauto. discriminate.
    + eapply eval_top_quiet; eauto. discriminate.
    + congruence.
  - (* set value *)
    unfold set_value in H.
    destruct (lookup_cell (s_cells st) (fst i)) as [cl|] eqn:El; [|inversion H; subst; now right].
    destruct (negb (cl_cached cl)) eqn:Ec; [inversion H; subst; now right|].
    destruct (negb (Nat.eqb (List.length (snd i)) (cl_nparams cl))); [inversion H; subst; now right|].
    destruct (match v with VNone => negb (cl_allow_none cl) | _ => false end); [inversion H; subst; now right|].
    apply negb_false_iff in Ec.
    set (st1 := clear_value_at st i true) in *.
    assert (Q1 : Quiet st1) by (now apply Quiet_clear_value_at).
    assert (Hn1 : lookup_data (s_data st1) i = None) by (now apply clear_value_at_gone).
    assert (El1 : lookup_cell (s_cells st1) (fst i) = Some cl).
    { unfold st1. now rewrite clear_value_at_cells. }
    pose proof (Quiet_store_input st1 i v cl Q1 Hn1 El1 Ec) as Q3.
    set (st3 := upd_inputs (g_add_node (upd_data st1 (set_data (s_data st1) i v)) (node_of i))
                           (add_item i (s_inputs st1))) in *.
    assert (R3 : s_reent st3 = false).
    { change (s_reent st3) with (s_reent st1). unfold st1. now rewrite clear_value_at_reent. }
    change (out_of_recalc (recalc_all fuel st3 (if s_recalc st then leaf_descs st (node_of i) else [])) = (x, st')) in H.
    destruct (recalc_all fuel st3 (if s_recalc st then leaf_descs st (node_of i) else [])) as [rr st4] eqn:Er.
    assert (Hrr : rr <> OutOfFuel).
    { intros ->. unfold out_of_recalc in H. inversion H; subst. congruence. }
    assert (st' = st4) by (unfold out_of_recalc in H; destruct rr; inversion H; reflexivity). subst st4.
    eapply recalc_all_quiet; eauto.
  - inversion H; subst. right. now apply Quiet_clear_value_at.
  - inversion H; subst. right. now apply Quiet_clear_all_values.
  - inversion H; subst. right. now apply Quiet_clear_all_values.
  - (* set formula *)
    unfold set_formula in H.
    destruct (lookup_cell (s_cells st) c) as [cl|] eqn:El; inversion H; subst; [|now right].
    right. pose proof (Quiet_clear_obj st c Q) as Q1.
    apply Quiet_redefine_cell; [exact Q1|intros n Hn; now apply clear_obj_nodes in Hn].
  - (* set cached *)
    unfold set_cached in H.
    destruct (lookup_cell (s_cells st) c) as [cl|] eqn:El; [|inversion H; subst; now right].
    destruct (Bool.eqb (cl_cached cl) b); inversion H; subst; [now right|].
    right. pose proof (Quiet_clear_obj st c Q) as Q1.
    apply Quiet_redefine_cell; [exact Q1|intros n Hn; now apply clear_obj_nodes in Hn].
  - destruct Hop.
  - inversion H; subst. right.
    destruct Q as ((HI & C & SO) & Hs & Hrs).
    split; [|split; [exact Hs|exact Hrs]].
    split; [exact HI|split; [|exact SO]]. constructor; apply C.
Qed.

(** the flag is preserved by the edits *)
Lemma step_reent_static fuel st o x st' :
  step fuel st o = (x, st') -> s_reent st = true -> s_reent st' = true.
Proof.
  intros H R. destruct o; simpl in H.
  - destruct (eval_top fuel st i) as [[v|k|] st1] eqn:E; inversion H; subst;
      eapply eval_top_reent_mono; eauto.
  - unfold set_value in H.
    destruct (lookup_cell (s_cells st) (fst i)) as [cl|]; [|inversion H; subst; exact R].
    destruct (negb (cl_cached cl)); [inversion H; subst; exact R|].
    destruct (negb (Nat.eqb (List.length (snd i)) (cl_nparams cl))); [inversion H; subst; exact R|].
    destruct (match v with VNone => negb (cl_allow_none cl) | _ => false end); [inversion H; subst; exact R|].
    match type of H with context [recalc_all fuel ?s ?l] => destruct (recalc_all fuel s l) as [rr st4] eqn:Er;
      assert (R3 : s_reent s = true) by (simpl; now rewrite clear_value_at_reent) end.
    pose proof (recalc_reent_mono _ _ _ _ _ Er R3) as R4.
    unfold out_of_recalc in H. destruct rr; inversion H; subst; exact R4.
  - inversion H; subst. now rewrite clear_value_at_reent.
  - inversion H; subst. now rewrite clear_all_values_reent.
  - inversion H; subst. now rewrite clear_all_values_reent.
  - unfold set_formula in H. destruct (lookup_cell (s_cells st) c); inversion H; subst; [|exact R].
    simpl. now rewrite clear_obj_reent.
  - unfold set_cached in H. destruct (lookup_cell (s_cells st) c) as [cl|]; [|inversion H; subst; exact R].
    destruct (Bool.eqb (cl_cached cl) b); inversion H; subst; [exact R|]. simpl. now rewrite clear_obj_reent.
  - unfold set_ref_value in H. destruct (lookup_ref (s_refs st) r) as [[sp w]|]; inversion H; subst; [|exact R].
    simpl. rewrite (fold_reent on_namespace_change).
    + unfold clear_attr_referrers. simpl. rewrite (fold_reent clear_reader); [exact R|].
      intros s a. apply clear_with_descs_reent.
    + intros s a. unfold on_namespace_change. destruct (lookup_cell (s_cells s) a) as [cl|]; [|reflexivity].
      destruct (cl_cached cl); [apply clear_all_values_reent|apply clear_obj_reent].
  - inversion H; subst. exact R.
Qed.

Fixpoint ops_ok (ops : list op) : Prop :=
  match ops with [] => True | o :: t => op_ok o /\ ops_ok t end.

Theorem run_quiet fuel ops : forall st xs st',
  run fuel st ops = (xs, st') -> no_fuel_out xs -> Quiet st -> s_reent st = false -> ops_ok ops ->
  s_reent st' = true \/ Quiet st'.
Proof.
  induction ops as [|o ops IH]; intros st xs st' H Hnf Q Hre Hok; simpl in H.
  - inversion H; subst. now right.
  - destruct (step fuel st o) as [x st1] eqn:E. destruct (run fuel st1 ops) as [xs1 st2] eqn:Er.
    inversion H; subst. destruct Hok as (Ho & Hok).
    assert (Hx : x <> OFuel /\ no_fuel_out xs1).
    { destruct x; simpl in Hnf; try contradiction; (split; [discriminate|assumption]). }
    destruct Hx as (Hx & Hnf1).
    destruct (s_reent st1) eqn:R1.
    + left. clear - Er R1. revert st1 xs1 st' Er R1.
      induction ops as [|o' ops IHo]; intros st1 xs1 st' Er R1; simpl in Er; [inversion Er; subst; exact R1|].
      destruct (step fuel st1 o') as [x' st2] eqn:E'. destruct (run fuel st2 ops) as [xs2 st3] eqn:Er'.
      inversion Er; subst. eapply IHo; [exact Er'|]. eapply step_reent_static; eauto.
    + destruct (step_quiet _ _ _ _ _ E Hx Q Hre Ho) as [R|Q1]; [congruence|].
      eapply IH; eauto.
Qed.
