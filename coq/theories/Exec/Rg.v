(** The reference graph mentions only elements that hold a computed value.
    (Found false of the pinned code while proving the edits-only form of
    C02: a reference change left cleared dependents behind — finding D40,
    fixed in /repo; this file is the invariant that the repaired code keeps.) *)
From Coq Require Import List ZArith Bool Arith Lia.
From MX Require Import Exec.Model Exec.Spec Exec.Basics Exec.SpecMono Exec.Sim Exec.Top Exec.Graph
  Exec.Reads Exec.Cover Exec.Quiet Exec.Edits Exec.Edits2 Exec.Edits3 Exec.Edits4 Exec.Edits5 Exec.Edits6.
Import ListNotations.

Definition RgOK (st : state) : Prop :=
  forall r j, In (r, j) (s_redges st) -> has st j /\ mem_item j (s_inputs st) = false.

(** * Through evaluation *)
Definition RgE (st st' : state) : Prop :=
  forall e, In e (s_redges st') ->
    In e (s_redges st) \/ (has st' (snd e) /\ mem_item (snd e) (s_inputs st') = false).

Lemma RgE_refl st : RgE st st.
Proof. intros e H. now left. Qed.

Lemma RgE_same st st' : s_redges st' = s_redges st -> RgE st st'.
Proof. intros E e H. left. now rewrite <- E. Qed.

Lemma has_frame st st' j : frame st st' -> has st j -> has st' j.
Proof.
  intros (_ & _ & M & _) H. unfold has in *. destruct (lookup_data (s_data st) j) as [v|] eqn:E; [|now elim H].
  rewrite (M _ _ E). discriminate.
Qed.

Lemma RgE_trans a b c : RgE a b -> RgE b c -> frame b c -> RgE a c.
Proof.
  intros AB BC F e H. destruct (BC e H) as [H1|H1]; [|now right].
  destruct (AB e H1) as [H2|(H2 & H3)]; [now left|right].
  split; [eapply has_frame; eauto|]. rewrite (static_inputs _ _ (proj1 F)). exact H3.
Qed.

Definition rg_expr (f : nat) : Prop :=
  forall st args locs line e r st',
    eval_expr f st args locs line e = (r, st') -> r <> OutOfFuel -> Inv st -> RgE st st'.
Definition rg_args (f : nat) : Prop :=
  forall st args locs line es r st',
    eval_args f st args locs line es = (r, st') -> r <> OutOfFuel -> Inv st -> RgE st st'.
Definition rg_node (f : nat) : Prop :=
  forall st line i r st',
    eval_node f st line i = (r, st') -> r <> OutOfFuel -> Inv st -> RgE st st'.
Definition rg_formula (f : nat) : Prop :=
  forall st cl i r st',
    eval_formula f st cl i = (r, st') -> r <> OutOfFuel -> Inv st ->
    lookup_cell (s_cells st) (fst i) = Some cl ->
    (if cl_cached cl then lookup_data (s_data st) i else None) = None -> RgE st st'.
Definition rg_body (f : nat) : Prop :=
  forall st args locs whole rest idx r st' ln,
    exec_body f st args locs whole rest idx = (r, st', ln) -> r <> OutOfFuel -> Inv st -> RgE st st'.

Lemma rg_all : forall f, rg_expr f /\ rg_args f /\ rg_node f /\ rg_formula f /\ rg_body f.
Proof.
  induction f as [|f (IHe & IHa & IHn & IHf & IHb)].
  { split; [|split; [|split; [|split]]];
      unfold rg_expr, rg_args, rg_node, rg_formula, rg_body; intros;
      match goal with H : _ = (_, _) |- _ => simpl in H; inversion H; subst; congruence end. }
  assert (SE := proj1 (sim_all f)).
  assert (SA := proj1 (proj2 (sim_all f))).
  assert (SB := proj2 (proj2 (proj2 (proj2 (sim_all f))))).
  split; [|split; [|split; [|split]]].
  - (* expressions *)
    intros st args locs line e r st' H Hr HI.
    destruct e; simpl in H; try (inversion H; subst; apply RgE_refl; fail).
    + destruct (eval_expr f st args locs line e1) as [r1 st1] eqn:E1.
      assert (Hr1 : r1 <> OutOfFuel) by (intros ->; inversion H; subst; congruence).
      destruct (SE _ _ _ _ _ _ _ E1 Hr1 HI) as (I1 & F1 & _).
      pose proof (IHe _ _ _ _ _ _ _ E1 Hr1 HI) as R1.
      destruct r1 as [va|k1|]; [|inversion H; subst; exact R1|congruence].
      destruct (eval_expr f st1 args locs line e2) as [r2 st2] eqn:E2.
      assert (Hr2 : r2 <> OutOfFuel) by (intros ->; inversion H; subst; congruence).
      assert (Hst : st' = st2) by (destruct r2; inversion H; reflexivity). subst st2.
      destruct (SE _ _ _ _ _ _ _ E2 Hr2 I1) as (_ & F2 & _).
      eapply RgE_trans; [exact R1|eapply IHe; eauto|exact F2].
    + destruct (eval_expr f st args locs line e1) as [r1 st1] eqn:E1.
      assert (Hr1 : r1 <> OutOfFuel) by (intros ->; inversion H; subst; congruence).
      destruct (SE _ _ _ _ _ _ _ E1 Hr1 HI) as (I1 & F1 & _).
      pose proof (IHe _ _ _ _ _ _ _ E1 Hr1 HI) as R1.
      destruct r1 as [[z|]|k1|]; [|inversion H; subst; exact R1|inversion H; subst; exact R1|congruence].
      assert (Hb : exists eb, eval_expr f st1 args locs line eb = (r, st')).
      { destruct (Z.ltb 0 z); eexists; eauto. }
      destruct Hb as (eb & E2).
      destruct (SE _ _ _ _ _ _ _ E2 Hr I1) as (_ & F2 & _).
      eapply RgE_trans; [exact R1|eapply IHe; eauto|exact F2].
    + destruct (eval_args f st args locs line args0) as [r1 st1] eqn:E1.
      assert (Hr1 : r1 <> OutOfFuel) by (intros ->; inversion H; subst; congruence).
      destruct (SA _ _ _ _ _ _ _ E1 Hr1 HI) as (I1 & F1 & _).
      pose proof (IHa _ _ _ _ _ _ _ E1 Hr1 HI) as R1.
      destruct r1 as [vs|k1|]; [|inversion H; subst; exact R1|congruence].
      destruct (lookup_cell (s_cells st1) c) as [cl|] eqn:El; [|inversion H; subst; exact R1].
      destruct (bind_pos cl vs) as [kk|] eqn:Eb; [|inversion H; subst; exact R1].
      destruct (proj1 (proj2 (proj2 (sim_all f))) _ _ _ _ _ H Hr I1) as (_ & F2 & _).
      eapply RgE_trans; [exact R1|eapply IHn; eauto|exact F2].
    + destruct (lookup_ref (s_refs st) r0) as [[sp v]|]; inversion H; subst; [|apply RgE_refl].
      apply RgE_same. reflexivity.
  - (* argument lists *)
    intros st args locs line es r st' H Hr HI.
    destruct es as [|e rest]; simpl in H; [inversion H; subst; apply RgE_refl|].
    destruct (eval_expr f st args locs line e) as [r1 st1] eqn:E1.
    assert (Hr1 : r1 <> OutOfFuel) by (intros ->; inversion H; subst; congruence).
    destruct (SE _ _ _ _ _ _ _ E1 Hr1 HI) as (I1 & F1 & _).
    pose proof (IHe _ _ _ _ _ _ _ E1 Hr1 HI) as R1.
    destruct r1 as [v1|k1|]; [|inversion H; subst; exact R1|congruence].
    destruct (eval_args f st1 args locs line rest) as [r2 st2] eqn:E2.
    assert (Hr2 : r2 <> OutOfFuel) by (intros ->; inversion H; subst; congruence).
    assert (Hst : st' = st2) by (destruct r2; inversion H; reflexivity). subst st2.
    destruct (SA _ _ _ _ _ _ _ E2 Hr2 I1) as (_ & F2 & _).
    eapply RgE_trans; [exact R1|eapply IHa; eauto|exact F2].
  - (* node *)
    intros st line i r st' H Hr HI. simpl in H.
    destruct (lookup_cell (s_cells st) (fst i)) as [cl|] eqn:El; [|inversion H; subst; apply RgE_refl].
    destruct (if cl_cached cl then lookup_data (s_data st) i else None) as [v|] eqn:Eh.
    + apply RgE_same. destruct (nearest_cached st (s_stack st)); inversion H; subst; reflexivity.
    + eapply IHf; eauto.
  - (* formula *)
    intros st cl i r st' H Hr HI El Em. simpl in H.
    destruct (Nat.ltb (s_maxdepth st) (List.length (s_stack st))); [inversion H; subst; apply RgE_refl|].
    set (st1 := upd_reent (upd_log (upd_stack st (i :: s_stack st)) (i :: s_log st))
                          (s_reent st || mem_item i (s_stack st))) in *.
    assert (I1 : Inv st1) by exact HI.
    destruct (exec_body f st1 (snd i) [] (cl_body cl) (cl_body cl) 0) as [[rb st2] ln] eqn:Eb.
    assert (Hrb : rb <> OutOfFuel) by (intros ->; inversion H; subst; congruence).
    destruct (SB _ _ _ _ _ _ _ _ _ Eb Hrb I1) as (I2 & F12 & _).
    pose proof F12 as (S2 & K2 & M2 & P2).
    change (s_stack st1) with (i :: s_stack st) in K2.
    pose proof (IHb _ _ _ _ _ _ _ _ _ Eb Hrb I1) as R12.
    assert (R02 : RgE st st2) by exact R12.
    assert (Hin2 : s_inputs st2 = s_inputs st) by (apply (static_inputs _ _ S2)).
    (* rolling back never touches the reference graph or the data *)
    assert (Hroll : forall s l, s_redges s = s_redges st2 -> s_data s = s_data st2 -> s_inputs s = s_inputs st2 ->
              s_stack s = i :: s_stack st -> (forall a b, In (a, b) (s_edges s) -> True) ->
              RgE st (rollback_frame s l)).
    { intros s l A B C D _ e He.
      assert (Hre : s_redges (rollback_frame s l) = s_redges s).
      { unfold rollback_frame. rewrite D. simpl. destruct (mem_node (node_of i) (s_nodes s)); reflexivity. }
      rewrite Hre, A in He. destruct (R02 e He) as [X|(X & Y)]; [now left|right].
      destruct (rollback_frame_fields s l) as (Sx & Dx & _).
      split; [unfold has in *; rewrite Dx, B; exact X|].
      rewrite (static_inputs _ _ Sx), C. exact Y. }
    destruct rb as [v|kb|]; [| |congruence].
    + destruct (tainted st2).
      { assert (Hcase : (r, st') = (Err KNone, rollback_frame st2 0) \/ (r, st') = (Val v, pop_tainted st2)).
        { destruct v; [right; now rewrite <- H|]. destruct (cl_allow_none cl); [right|left]; now rewrite <- H. }
        destruct Hcase as [H'|H']; inversion H'; subst r st'; clear H' H; [apply Hroll; auto|].
        exact (Hroll st2 0 eq_refl eq_refl eq_refl K2 (fun _ _ _ => I)). }
      destruct (cl_cached cl) eqn:Ec.
      * destruct (store_value st2 cl i v) as [rs st3] eqn:Es.
        assert (Hs3 : (rs = Val v /\ st3 = upd_data st2 (set_data (s_data st2) i v)) \/ (rs = Err KNone /\ st3 = st2)).
        { unfold store_value in Es. destruct v as [z|]; [left; inversion Es; auto|].
          destruct (cl_allow_none cl); inversion Es; auto. }
        destruct Hs3 as [(-> & ->)|(-> & ->)].
        -- inversion H; subst r st'. clear H.
           set (st3 := upd_data st2 (set_data (s_data st2) i v)) in *.
           assert (K3 : s_stack st3 = i :: s_stack st) by exact K2.
           destruct (pop_frame_graph st3 i (s_stack st) K3) as (_ & _ & G3 & _).
           destruct (pop_frame_fields st3) as (Sp & Dp & _).
           destruct (miss_not_input st cl i HI Ec ltac:(now rewrite Ec)) as (Hni & _).
           intros e He. destruct (G3 e He) as [X|(t & r' & Ht & -> & _)].
           ++ change (s_redges st3) with (s_redges st2) in X.
              destruct (R02 e X) as [Y|(Y & Z)]; [now left|right]. split.
              ** unfold has in *. rewrite Dp. change (s_data st3) with (set_data (s_data st2) i v).
                 destruct (item_eqb (snd e) i) eqn:Ei.
                 --- apply item_eqb_eq in Ei. rewrite Ei, lookup_set_same. discriminate.
                 --- apply item_eqb_neq in Ei. rewrite lookup_set_other; [exact Y|exact Ei].
              ** rewrite (static_inputs _ _ Sp). exact Z.
           ++ right. unfold pop_target in Ht.
              destruct (is_cached st3 (fst i)); inversion Ht; subst t. simpl. split.
              ** unfold has. rewrite Dp. change (s_data st3) with (set_data (s_data st2) i v).
                 rewrite lookup_set_same. discriminate.
              ** rewrite (static_inputs _ _ Sp). change (s_inputs st3) with (s_inputs st2). now rewrite Hin2.
        -- inversion H; subst r st'. apply Hroll; auto.
      * assert (Hcase : (r, st') = (Err KNone, rollback_frame st2 0) \/ (r, st') = (Val v, pop_frame st2)).
        { destruct v; [right; now rewrite <- H|]. destruct (cl_allow_none cl); [right|left]; now rewrite <- H. }
        destruct Hcase as [H'|H']; inversion H'; subst r st'; clear H' H; [apply Hroll; auto|].
        destruct (pop_frame_graph st2 i (s_stack st) K2) as (_ & _ & G3 & _).
        destruct (pop_frame_fields st2) as (Sp & Dp & _).
        intros e He. destruct (G3 e He) as [X|(t & r' & Ht & -> & _)].
        -- destruct (R02 e X) as [Y|(Y & Z)]; [now left|right]. split.
           ++ unfold has in *. now rewrite Dp.
           ++ now rewrite (static_inputs _ _ Sp).
        -- exfalso. unfold pop_target in Ht.
           assert (Hc : is_cached st2 (fst i) = false).
           { unfold is_cached. rewrite (static_cells _ _ S2). change (s_cells st1) with (s_cells st). now rewrite El. }
           rewrite Hc in Ht. discriminate.
    + inversion H; subst r st'. apply Hroll; auto.
  - (* statements *)
    intros st args locs whole rest idx r st' ln H Hr HI.
    destruct rest as [|s more]; simpl in H; [inversion H; subst; apply RgE_refl|].
    destruct s as [e|e h|e fc].
    + destruct (eval_expr f st args locs (stmt_line whole idx) e) as [r1 st1] eqn:E1.
      assert (Hr1 : r1 <> OutOfFuel) by (intros ->; inversion H; subst; congruence).
      destruct (SE _ _ _ _ _ _ _ E1 Hr1 HI) as (I1 & F1 & _).
      pose proof (IHe _ _ _ _ _ _ _ E1 Hr1 HI) as R1.
      destruct r1 as [v1|k1|]; [|inversion H; subst; exact R1|congruence].
      destruct (SB _ _ _ _ _ _ _ _ _ H Hr I1) as (_ & F2 & _).
      eapply RgE_trans; [exact R1|eapply IHb; eauto|exact F2].
    + destruct (eval_expr f st args locs (stmt_line whole idx + 1) e) as [r1 st1] eqn:E1.
      assert (Hr1 : r1 <> OutOfFuel) by (intros ->; inversion H; subst; congruence).
      destruct (SE _ _ _ _ _ _ _ E1 Hr1 HI) as (I1 & F1 & _).
      pose proof (IHe _ _ _ _ _ _ _ E1 Hr1 HI) as R1.
      destruct r1 as [v1|k1|]; [| |congruence].
      * destruct (SB _ _ _ _ _ _ _ _ _ H Hr I1) as (_ & F2 & _).
        eapply RgE_trans; [exact R1|eapply IHb; eauto|exact F2].
      * destruct (catchable k1); [|inversion H; subst; exact R1].
        set (st1' := upd_rolled st1 []) in *.
        assert (I1' : Inv st1') by exact I1.
        assert (R1' : RgE st st1') by exact R1.
        destruct (eval_expr f st1' args locs (stmt_line whole idx + 3) h) as [r2 st2] eqn:E2.
        assert (Hr2 : r2 <> OutOfFuel) by (intros ->; inversion H; subst; congruence).
        destruct (SE _ _ _ _ _ _ _ E2 Hr2 I1') as (I2 & F2 & _).
        pose proof (IHe _ _ _ _ _ _ _ E2 Hr2 I1') as R2.
        assert (R02 : RgE st st2) by (eapply RgE_trans; eauto).
        destruct r2 as [v2|k2|]; [|inversion H; subst; exact R02|congruence].
        destruct (SB _ _ _ _ _ _ _ _ _ H Hr I2) as (_ & F3 & _).
        eapply RgE_trans; [exact R02|eapply IHb; eauto|exact F3].
    + destruct (eval_expr f st args locs (stmt_line whole idx + 1) e) as [r1 st1] eqn:E1.
      assert (Hr1 : r1 <> OutOfFuel) by (intros ->; inversion H; subst; congruence).
      destruct (SE _ _ _ _ _ _ _ E1 Hr1 HI) as (I1 & F1 & _).
      pose proof (IHe _ _ _ _ _ _ _ E1 Hr1 HI) as R1.
      destruct r1 as [v1|k1|]; [| |congruence].
      * destruct (eval_expr f st1 args locs (stmt_line whole idx + 3) fc) as [r2 st2] eqn:E2.
        assert (Hr2 : r2 <> OutOfFuel) by (intros ->; inversion H; subst; congruence).
        destruct (SE _ _ _ _ _ _ _ E2 Hr2 I1) as (I2 & F2 & _).
        pose proof (IHe _ _ _ _ _ _ _ E2 Hr2 I1) as R2.
        assert (R02 : RgE st st2) by (eapply RgE_trans; eauto).
        destruct r2 as [v2|k2|]; [|inversion H; subst; exact R02|congruence].
        destruct (SB _ _ _ _ _ _ _ _ _ H Hr I2) as (_ & F3 & _).
        eapply RgE_trans; [exact R02|eapply IHb; eauto|exact F3].
      * set (st1' := upd_rolled st1 []) in *.
        assert (I1' : Inv st1') by exact I1.
        assert (R1' : RgE st st1') by exact R1.
        destruct (eval_expr f st1' args locs (stmt_line whole idx + 3) fc) as [r2 st2] eqn:E2.
        assert (Hr2 : r2 <> OutOfFuel) by (intros ->; inversion H; subst; congruence).
        destruct (SE _ _ _ _ _ _ _ E2 Hr2 I1') as (I2 & F2 & _).
        pose proof (IHe _ _ _ _ _ _ _ E2 Hr2 I1') as R2.
        assert (R02 : RgE st st2) by (eapply RgE_trans; eauto).
        destruct r2 as [v2|k2|]; [| |congruence]; inversion H; subst; [exact R02|].
        destruct (ekind_eqb k1 KDeep); exact R02.
Qed.

Lemma RgOK_RgE st st' : RgOK st -> RgE st st' -> frame st st' -> RgOK st'.
Proof.
  intros R E F r j H. destruct (E _ H) as [X|X]; [|exact X].
  destruct (R r j X) as (A & B). split; [eapply has_frame; eauto|].
  rewrite (static_inputs _ _ (proj1 F)). exact B.
Qed.

Lemma eval_top_RgOK fuel st i r st' :
  eval_top fuel st i = (r, st') -> r <> OutOfFuel -> Inv st -> RgOK st -> RgOK st'.
Proof.
  intros H Hr HI R.
  destruct (eval_top_sim _ _ _ _ _ H Hr HI) as (_ & F & _).
  eapply RgOK_RgE; [exact R| |exact F].
  unfold eval_top in H.
  destruct (lookup_cell (s_cells st) (fst i)) as [cl|] eqn:El; [|inversion H; subst; apply RgE_refl].
  destruct (if cl_cached cl then lookup_data (s_data st) i else None) eqn:Eh; [inversion H; subst; apply RgE_refl|].
  set (st0 := upd_taint (upd_rolled (upd_err st None) []) 0) in *.
  destruct (eval_formula fuel st0 cl i) as [rf st1] eqn:Ef.
  assert (Hrf : rf <> OutOfFuel) by (intros ->; inversion H; subst; congruence).
  assert (I0 : Inv st0) by exact HI.
  pose proof (proj1 (proj2 (proj2 (proj2 (rg_all fuel)))) st0 cl i _ _ Ef Hrf I0 El Eh) as R1.
  destruct rf; inversion H; subst; exact R1.
Qed.

(** * Through clearing and edits *)
Lemma clear_with_descs_redges st n r j :
  mem_node n (s_nodes st) = true ->
  In (r, j) (s_redges (clear_with_descs st n)) ->
  In (r, j) (s_redges st) /\ mem_node (node_of j) (descs_with st n) = false.
Proof.
  intros Hm H. unfold clear_with_descs in H. rewrite Hm in H.
  set (removed := descs_with st n) in *.
  set (st1 := g_remove_nodes st removed) in *.
  set (st2 := rg_remove_with_referred st1 removed) in *.
  destruct (fold_clear_trace_fields removed st2) as (_ & _ & _ & _ & _ & _ & A7 & _).
  rewrite A7 in H. unfold st2, rg_remove_with_referred, rg_remove_items in H. simpl in H.
  apply filter_In in H as (H & E). simpl in E. apply negb_true_iff in E. split; [exact H|].
  destruct (mem_node (node_of j) removed) eqn:Hr; [|reflexivity]. exfalso.
  apply mem_node_In in Hr.
  assert (X : In j (flat_map (fun n0 => match n0 with NItem c k => [(c, k)] | NObj _ => [] end) removed)).
  { apply in_flat_map. exists (node_of j). split; [exact Hr|]. destruct j as [c k]. simpl. now left. }
  apply mem_item_In in X. congruence.
Qed.

Lemma RgOK_clear_with_descs st n : RgOK st -> RgOK (clear_with_descs st n).
Proof.
  intros R. destruct (mem_node n (s_nodes st)) eqn:Hm.
  - pose proof (clear_with_descs_Cleared st n Hm) as CL.
    intros r j H. destruct (clear_with_descs_redges st n r j Hm H) as (H1 & H2).
    destruct (R r j H1) as (A & B). split.
    + unfold has in *. now rewrite (cl_data _ _ _ CL), H2.
    + rewrite (cl_inputs _ _ _ CL), B. reflexivity.
  - unfold clear_with_descs. now rewrite Hm.
Qed.

Lemma RgOK_fold {A} (f : state -> A -> state) l :
  (forall s a, RgOK s -> RgOK (f s a)) -> forall st, RgOK st -> RgOK (fold_left f l st).
Proof. intros Hf. induction l as [|a l IH]; intros st R; simpl; [exact R|]. apply IH. now apply Hf. Qed.

Lemma RgOK_clear_value_at st i b : RgOK st -> RgOK (clear_value_at st i b).
Proof.
  intros R. unfold clear_value_at. destruct (has_data st i); [|exact R].
  destruct (b || negb (mem_item i (s_inputs st))); [now apply RgOK_clear_with_descs|exact R].
Qed.
Lemma RgOK_clear_all_values st c b : RgOK st -> RgOK (clear_all_values st c b).
Proof. intros R. unfold clear_all_values. apply RgOK_fold; [|exact R]. intros s a. apply RgOK_clear_value_at. Qed.
Lemma RgOK_clear_obj st c : RgOK st -> RgOK (clear_obj st c).
Proof. intros R. unfold clear_obj. apply RgOK_fold; [|exact R]. intros s a. apply RgOK_clear_with_descs. Qed.
Lemma RgOK_on_namespace_change st c : RgOK st -> RgOK (on_namespace_change st c).
Proof.
  intros R. unfold on_namespace_change. destruct (lookup_cell (s_cells st) c) as [cl|]; [|exact R].
  destruct (cl_cached cl); [now apply RgOK_clear_all_values|now apply RgOK_clear_obj].
Qed.

Lemma RgOK_clear_attr_referrers st r : RgOK st -> RgOK (clear_attr_referrers st r).
Proof.
  intros R. unfold clear_attr_referrers.
  set (readers := rg_readers st r).
  assert (R1 : RgOK (fold_left clear_reader readers st)).
  { apply RgOK_fold; [|exact R]. intros s a. apply RgOK_clear_with_descs. }
  intros r' j H. cbn [s_redges upd_rgraph] in H. apply filter_In in H as (H & _).
  exact (R1 r' j H).
Qed.

Lemma recalc_all_RgOK fuel ns : forall st r st',
  recalc_all fuel st ns = (r, st') -> r <> OutOfFuel -> Inv st -> RgOK st -> RgOK st'.
Proof.
  induction ns as [|n ns IH]; intros st r st' H Hr HI R; simpl in H; [inversion H; subst; exact R|].
  destruct n as [c k|c]; [|eapply IH; eauto].
  destruct (eval_top fuel st (c, k)) as [[v|e|] st1] eqn:E.
  - destruct (eval_top_sim _ _ _ _ _ E ltac:(discriminate) HI) as (I1 & _).
    eapply IH; eauto. eapply eval_top_RgOK; eauto. discriminate.
  - inversion H; subst. eapply eval_top_RgOK; eauto. discriminate.
  - inversion H; subst. congruence.
Qed.

(** assigning an input: the element leaves the reference graph first *)
Lemma no_redge_after_clear st i r :
  Quiet st -> RgOK st -> ~ In (r, i) (s_redges (clear_value_at st i true)).
Proof.
  intros Q R H. unfold clear_value_at in H. destruct (has_data st i) eqn:Hd.
  - simpl in H.
    assert (Hn : mem_node (node_of i) (s_nodes st) = true).
    { destruct Q as ((_ & C & _) & _). apply mem_node_In, (cv_node _ C). unfold has, has_data in *.
      destruct (lookup_data (s_data st) i); [discriminate|discriminate Hd]. }
    destruct (clear_with_descs_redges st (node_of i) r i Hn H) as (_ & X).
    assert (mem_node (node_of i) (descs_with st (node_of i)) = true) as E
        by (apply mem_node_In, descs_with_self). congruence.
  - destruct (R r i H) as (A & _). unfold has, has_data in *.
    destruct (lookup_data (s_data st) i); [discriminate Hd|now apply A].
Qed.

Theorem step_RgOK fuel st o x st' :
  step fuel st o = (x, st') -> x <> OFuel -> Quiet st -> RgOK st -> RgOK st'.
Proof.
  intros H Hx Q R. pose proof Q as ((HI & _) & _).
  destruct o; simpl in H.
  - destruct (eval_top fuel st i) as [[v|k|] st1] eqn:E; inversion H; subst; try congruence;
      eapply eval_top_RgOK; eauto; discriminate.
  - unfold set_value in H.
    destruct (lookup_cell (s_cells st) (fst i)) as [cl|] eqn:El; [|inversion H; subst; exact R].
    destruct (negb (cl_cached cl)) eqn:Ec; [inversion H; subst; exact R|].
    destruct (negb (Nat.eqb (List.length (snd i)) (cl_nparams cl))); [inversion H; subst; exact R|].
    destruct (match v with VNone => negb (cl_allow_none cl) | _ => false end); [inversion H; subst; exact R|].
    apply negb_false_iff in Ec.
    set (st1 := clear_value_at st i true) in *.
    assert (Q1 : Quiet st1) by (now apply Quiet_clear_value_at).
    assert (Hn1 : lookup_data (s_data st1) i = None) by (now apply clear_value_at_gone).
    assert (El1 : lookup_cell (s_cells st1) (fst i) = Some cl) by (unfold st1; now rewrite clear_value_at_cells).
    pose proof (Quiet_store_input st1 i v cl Q1 Hn1 El1 Ec) as Q3.
    set (st3 := upd_inputs (g_add_node (upd_data st1 (set_data (s_data st1) i v)) (node_of i))
                           (add_item i (s_inputs st1))) in *.
    assert (R1 : RgOK st1) by (now apply RgOK_clear_value_at).
    assert (R3 : RgOK st3).
    { intros r j Hin. change (s_redges st3) with (s_redges st1) in Hin.
      destruct (R1 r j Hin) as (A & B).
      assert (Hne : j <> i) by (intros ->; exact (no_redge_after_clear st i r Q R Hin)).
      split.
      - unfold has. change (s_data st3) with (set_data (s_data st1) i v). rewrite lookup_set_other; assumption.
      - change (s_inputs st3) with (add_item i (s_inputs st1)). rewrite mem_item_add, B. simpl.
        now apply item_eqb_neq. }
    change (out_of_recalc (recalc_all fuel st3 (if s_recalc st then leaf_descs st (node_of i) else [])) = (x, st')) in H.
    destruct (recalc_all fuel st3 (if s_recalc st then leaf_descs st (node_of i) else [])) as [rr st4] eqn:Er.
    assert (Hrr : rr <> OutOfFuel).
    { intros ->. unfold out_of_recalc in H. inversion H; subst. congruence. }
    assert (st' = st4) by (unfold out_of_recalc in H; destruct rr; inversion H; reflexivity). subst st4.
    destruct Q3 as ((I3 & _) & _).
    eapply recalc_all_RgOK; eauto.
  - inversion H; subst. now apply RgOK_clear_value_at.
  - inversion H; subst. now apply RgOK_clear_all_values.
  - inversion H; subst. now apply RgOK_clear_all_values.
  - unfold set_formula in H. destruct (lookup_cell (s_cells st) c); inversion H; subst; [|exact R].
    pose proof (RgOK_clear_obj st c R) as R1. exact R1.
  - unfold set_cached in H. destruct (lookup_cell (s_cells st) c) as [cl|]; [|inversion H; subst; exact R].
    destruct (Bool.eqb (cl_cached cl) b); inversion H; subst; [exact R|].
    pose proof (RgOK_clear_obj st c R) as R1. exact R1.
  - unfold set_ref_value in H. destruct (lookup_ref (s_refs st) r) as [[sp w]|]; inversion H; subst; [|exact R].
    pose proof (RgOK_clear_attr_referrers st r R) as R2.
    set (st2 := clear_attr_referrers st r) in *.
    pose proof (RgOK_fold on_namespace_change (cells_in_space st2 sp) RgOK_on_namespace_change st2 R2) as R3.
    exact R3.
  - inversion H; subst. exact R.
Qed.

Lemma RgOK_init cells refs maxd : RgOK (init cells refs maxd).
Proof. intros r j []. Qed.
