(** try/finally and the depth limit: why the theorems about the RESULT of a
    request carry the hypothesis [s_masks st' = s_masks st].

    The failure of a clean-up replaces any pending failure - also the
    depth-limit error [KDeep], which [STry] never catches and which every
    theorem about returned results excludes ([k = KDeep \/ ...]).  The cells

        def c0():
            try:
                t0 = c0()
            finally:
                1 // 0

    recurses until the executor's stack limit; the depth-limit error is then
    replaced by ZeroDivisionError in every frame on the way out, and the
    request answers ZeroDivisionError (so does modelx).  The specification
    evaluator has no stack limit: it diverges.  So the statement of
    [C01_transparent] WITHOUT the hypothesis on [s_masks] is false; the
    ghost counter [s_masks] counts exactly these replacements. *)
From Coq Require Import List ZArith Bool Arith Lia Wf_nat.
From MX Require Import Exec.Model Exec.Spec Exec.Top.
Import ListNotations.

Definition fm_cells : list (cid * cell) :=
  [ (0, mkCell [SFin (ECall 0 []) (ERaise KZero)] 0 [] true false 0) ].

(** the executor (and the library) answer ZeroDivisionError; the replacement (in the innermost frame) is counted *)
Example fm_executor_answers_zero :
  let '(xs, st') := run 300 (init fm_cells [] 5) [OpEval (0, [])] in
  xs = [OErr KZero] /\ s_masks st' = 1 /\ s_data st' = [] /\ s_stack st' = [].
Proof. vm_compute. repeat split; reflexivity. Qed.

(** the specification diverges *)
Definition fm_cl : cell := mkCell [SFin (ECall 0 []) (ERaise KZero)] 0 [] true false 0.
Definition fm_D : defs := (fm_cells, []).

Lemma fm_node_S f : sp_node (S f) fm_D [] (0, []) =
  match sp_body f fm_D [] [] [] [SFin (ECall 0 []) (ERaise KZero)] with Val v => none_check fm_cl v | r => r end.
Proof. reflexivity. Qed.
Lemma fm_body_S f : sp_body (S f) fm_D [] [] [] [SFin (ECall 0 []) (ERaise KZero)] =
  match sp_expr f fm_D [] [] [] (ECall 0 []) with
  | Val v => match sp_expr f fm_D [] [] [] (ERaise KZero) with
             | Val _ => sp_body f fm_D [] [] ([] ++ [v]) []
             | Err k2 => Err k2
             | OutOfFuel => OutOfFuel
             end
  | Err k => match sp_expr f fm_D [] [] [] (ERaise KZero) with
             | Val _ => Err k
             | Err k2 => Err k2
             | OutOfFuel => OutOfFuel
             end
  | OutOfFuel => OutOfFuel
  end.
Proof. reflexivity. Qed.
Lemma fm_call_S f : sp_expr (S (S f)) fm_D [] [] [] (ECall 0 []) = sp_node (S f) fm_D [] (0, []).
Proof. reflexivity. Qed.

Lemma fm_spec_diverges : forall g, sp_node g (fm_cells, []) [] (0, []) = OutOfFuel.
Proof.
  change (fm_cells, []) with fm_D.
  induction g as [g IH] using lt_wf_ind.
  destruct g as [|[|[|[|g]]]]; try reflexivity.
  rewrite fm_node_S, fm_body_S, fm_call_S, (IH (S g) ltac:(lia)). reflexivity.
Qed.

(** the statement of [C01_transparent] as it was before try/finally *)
Definition old_C01_transparent : Prop :=
  forall fuel cells refs maxd ops xs st i x st',
  forallb is_eval ops = true ->
  run fuel (init cells refs maxd) ops = (xs, st) -> no_fuel_out xs ->
  step fuel st (OpEval i) = (x, st') -> x <> OFuel ->
  match x with
  | OVal v => exists g, sp_node g (cells, refs) [] i = Val v
  | OErr k => k = KDeep \/ exists g, sp_node g (cells, refs) [] i = Err k
  | _ => False
  end.

Theorem old_C01_transparent_refuted : ~ old_C01_transparent.
Proof.
  intros H.
  specialize (H 300 fm_cells [] 5 [] [] (init fm_cells [] 5) (0, [])).
  destruct (step 300 (init fm_cells [] 5) (OpEval (0, []))) as [x st'] eqn:E.
  assert (Hx : x = OErr KZero) by (vm_compute in E; inversion E; reflexivity).
  specialize (H x st' eq_refl eq_refl I eq_refl). subst x.
  destruct (H ltac:(discriminate)) as [D|(g & D)]; [discriminate|].
  rewrite fm_spec_diverges in D. discriminate.
Qed.
Print Assumptions old_C01_transparent_refuted.

(** the new hypothesis excludes exactly this request *)
Example fm_counted :
  s_masks (snd (step 300 (init fm_cells [] 5) (OpEval (0, [])))) <> s_masks (init fm_cells [] 5).
Proof. vm_compute. discriminate. Qed.
