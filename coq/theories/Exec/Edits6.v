(** K4, part 11: all operations of the model, reference changes included. *)
From Coq Require Import List ZArith Bool Arith Lia.
From MX Require Import Exec.Model Exec.Spec Exec.Basics Exec.SpecMono Exec.Sim Exec.Reads Exec.Graph
  Exec.Cover Exec.Cover2 Exec.Sim2 Exec.Quiet Exec.Local Exec.Edits Exec.Edits2 Exec.Edits3 Exec.Edits4
  Exec.Edits5 Exec.Top.
Import ListNotations.

(** definitions (cells, references) are untouched by evaluations and value edits *)
Definition same_defs (st st' : state) : Prop := s_cells st' = s_cells st /\ s_refs st' = s_refs st.

Lemma eval_top_same_defs fuel st i r st' :
  eval_top fuel st i = (r, st') -> r <> OutOfFuel -> Inv st -> same_defs st st'.
Proof.
  intros H Hr HI. destruct (eval_top_sim _ _ _ _ _ H Hr HI) as (_ & (S & _) & _).
  split; [now apply static_cells|now apply static_refs].
Qed.

Lemma recalc_same_defs fuel ns : forall st r st',
  recalc_all fuel st ns = (r, st') -> r <> OutOfFuel -> Quiet st -> s_reent st = false ->
  s_reent st' = true \/ same_defs st st'.
Proof.
  induction ns as [|n ns IH]; intros st r st' H Hr Q Hre; simpl in H.
  - inversion H; subst. right. split; reflexivity.
  - destruct n as [c k|c]; [|eapply IH; eauto].
    destruct (eval_top fuel st (c, k)) as [[v|e|] st1] eqn:E.
    + pose proof (eval_top_same_defs _ _ _ _ _ E ltac:(discriminate) (proj1 (proj1 Q))) as (A & B).
      destruct (eval_top_quiet _ _ _ _ _ E ltac:(discriminate) Q Hre) as [R|Q1].
      * left. eapply recalc_reent_mono; eauto.
      * destruct (s_reent st1) eqn:R1; [left; eapply recalc_reent_mono; eauto|].
        destruct (IH _ _ _ H Hr Q1 R1) as [R|(A' & B')]; [now left|right]. split; congruence.
    + inversion H; subst. right. exact (eval_top_same_defs _ _ _ _ _ E ltac:(discriminate) (proj1 (proj1 Q))).
    + inversion H; subst. congruence.
Qed.

Lemma refn_ok_same st st' : same_defs st st' -> refn_ok st -> refn_ok st'.
Proof. intros (A & B) H. unfold refn_ok in *. rewrite A, B. exact H. Qed.

Definition op_ok2 (st : state) (o : op) : Prop :=
  match o with
  | OpSetFormula c b _ _ =>
      forall cl r sp v, lookup_cell (s_cells st) c = Some cl -> refn_body b r = true ->
                        lookup_ref (s_refs st) r = Some (Some sp, v) -> cl_space cl = sp
  | _ => True
  end.

Lemma Shrinks_same_defs st st' : Shrinks st st' -> same_defs st st'.
Proof. intros S. split; [apply (sh_cells _ _ S)|apply (sh_refs _ _ S)]. Qed.

Lemma set_value_same_defs fuel st i v x st' :
  set_value fuel st i v = (x, st') -> x <> OFuel -> Quiet st -> s_reent st = false ->
  s_reent st' = true \/ same_defs st st'.
Proof.
  intros H Hx Q Hre. unfold set_value in H.
  destruct (lookup_cell (s_cells st) (fst i)) as [cl|] eqn:El; [|inversion H; subst; right; split; reflexivity].
  destruct (negb (cl_cached cl)) eqn:Ec; [inversion H; subst; right; split; reflexivity|].
  destruct (negb (Nat.eqb (List.length (snd i)) (cl_nparams cl))); [inversion H; subst; right; split; reflexivity|].
  destruct (match v with VNone => negb (cl_allow_none cl) | _ => false end); [inversion H; subst; right; split; reflexivity|].
  apply negb_false_iff in Ec.
  set (st1 := clear_value_at st i true) in *.
  assert (Q1 : Quiet st1) by (now apply Quiet_clear_value_at).
  assert (Hn1 : lookup_data (s_data st1) i = None) by (now apply clear_value_at_gone).
  assert (El1 : lookup_cell (s_cells st1) (fst i) = Some cl) by (unfold st1; now rewrite clear_value_at_cells).
  pose proof (Quiet_store_input st1 i v cl Q1 Hn1 El1 Ec) as Q3.
  set (st3 := upd_inputs (g_add_node (upd_data st1 (set_data (s_data st1) i v)) (node_of i))
                         (add_item i (s_inputs st1))) in *.
  assert (R3 : s_reent st3 = false).
  { change (s_reent st3) with (s_reent st1). unfold st1. now rewrite clear_value_at_reent. }
  change (out_of_recalc (recalc_all fuel st3 (if s_recalc st then leaf_descs st (node_of i) else [])) = (x, st')) in H.
  destruct (recalc_all fuel st3 (if s_recalc st then leaf_descs st (node_of i) else [])) as [rr st4] eqn:Er.
  assert (Hrr : rr <> OutOfFuel).
  { intros ->. unfold out_of_recalc in H. inversion H; subst. congruence. }
  assert (st' = st4) by (unfold out_of_recalc in H; destruct rr; inversion H; reflexivity). subst st4.
  destruct (recalc_same_defs _ _ _ _ _ Er Hrr Q3 R3) as [R|(A & B)]; [now left|right].
  pose proof (Shrinks_same_defs _ _ (clear_value_at_Shrinks st i true)) as (A1 & B1). fold st1 in A1, B1.
  split; [rewrite A|rewrite B]; simpl; assumption.
Qed.

Theorem step_quiet2 fuel st o x st' :
  step fuel st o = (x, st') -> x <> OFuel -> Quiet st -> refn_ok st -> s_reent st = false -> op_ok2 st o ->
  s_reent st' = true \/ (Quiet st' /\ refn_ok st').
Proof.
  intros H Hx Q Hrn Hre Hop. destruct o.
  - (* eval *)
    destruct (step_quiet _ _ _ _ _ H Hx Q Hre I) as [R|Q']; [now left|right]. split; [exact Q'|].
    simpl in H. destruct (eval_top fuel st i) as [[v|k|] st1] eqn:E; inversion H; subst.
    + eapply refn_ok_same; [eapply eval_top_same_defs; [exact E|discriminate|exact (proj1 (proj1 Q))]|exact Hrn].
    + eapply refn_ok_same; [eapply eval_top_same_defs; [exact E|discriminate|exact (proj1 (proj1 Q))]|exact Hrn].
    + congruence.
  - (* set value *)
    destruct (step_quiet _ _ _ _ _ H Hx Q Hre I) as [R|Q']; [now left|].
    simpl in H. destruct (set_value_same_defs _ _ _ _ _ _ H Hx Q Hre) as [R|SD]; [now left|right].
    split; [exact Q'|]. eapply refn_ok_same; eauto.
  - destruct (step_quiet _ _ _ _ _ H Hx Q Hre I) as [R|Q']; [now left|right]. split; [exact Q'|].
    simpl in H. inversion H; subst. eapply refn_ok_same; [|exact Hrn].
    apply Shrinks_same_defs, clear_value_at_Shrinks.
  - destruct (step_quiet _ _ _ _ _ H Hx Q Hre I) as [R|Q']; [now left|right]. split; [exact Q'|].
    simpl in H. inversion H; subst. eapply refn_ok_same; [|exact Hrn].
    apply Shrinks_same_defs, clear_all_values_Shrinks.
  - destruct (step_quiet _ _ _ _ _ H Hx Q Hre I) as [R|Q']; [now left|right]. split; [exact Q'|].
    simpl in H. inversion H; subst. eapply refn_ok_same; [|exact Hrn].
    apply Shrinks_same_defs, clear_all_values_Shrinks.
  - (* set formula *)
    pose proof Hop as Hvis.
    destruct (step_quiet _ _ _ _ _ H Hx Q Hre I) as [R|Q']; [now left|right]. split; [exact Q'|].
    simpl in H. unfold set_formula in H.
    destruct (lookup_cell (s_cells st) c) as [cl|] eqn:El; inversion H; subst; [|exact Hrn].
    pose proof (clear_obj_Shrinks st c) as S.
    intros c' cl' r sp v Elc Hbody Hr. simpl in Elc, Hr. rewrite (sh_refs _ _ S) in Hr.
    rewrite lookup_set_cell in Elc. rewrite (sh_cells _ _ S) in Elc.
    destruct (Nat.eqb c' c) eqn:E.
    + apply Nat.eqb_eq in E; subst c'. inversion Elc; subst cl'. simpl in *. eapply Hvis; eauto.
    + eapply Hrn; eauto.
  - (* set cached *)
    destruct (step_quiet _ _ _ _ _ H Hx Q Hre I) as [R|Q']; [now left|right]. split; [exact Q'|].
    simpl in H. unfold set_cached in H.
    destruct (lookup_cell (s_cells st) c) as [cl|] eqn:El; [|inversion H; subst; exact Hrn].
    destruct (Bool.eqb (cl_cached cl) b); inversion H; subst; [exact Hrn|].
    pose proof (clear_obj_Shrinks st c) as S.
    intros c' cl' r sp v Elc Hbody Hr. simpl in Elc, Hr. rewrite (sh_refs _ _ S) in Hr.
    rewrite lookup_set_cell in Elc. rewrite (sh_cells _ _ S) in Elc.
    destruct (Nat.eqb c' c) eqn:E.
    + apply Nat.eqb_eq in E; subst c'. inversion Elc; subst cl'. simpl in *. eapply Hrn; eauto.
    + eapply Hrn; eauto.
  - (* set ref *)
    right. simpl in H. eapply Quiet_set_ref; eauto.
  - (* recalc option *)
    destruct (step_quiet _ _ _ _ _ H Hx Q Hre I) as [R|Q']; [now left|right]. split; [exact Q'|].
    simpl in H. inversion H; subst. exact Hrn.
Qed.

(** * Whole histories *)
Fixpoint ops_ok2 (fuel : nat) (st : state) (ops : list op) : Prop :=
  match ops with
  | [] => True
  | o :: t => op_ok2 st o /\ ops_ok2 fuel (snd (step fuel st o)) t
  end.

Theorem run_quiet2 fuel ops : forall st xs st',
  run fuel st ops = (xs, st') -> no_fuel_out xs -> Quiet st -> refn_ok st -> s_reent st = false ->
  ops_ok2 fuel st ops -> s_reent st' = true \/ (Quiet st' /\ refn_ok st').
Proof.
  induction ops as [|o ops IH]; intros st xs st' H Hnf Q Hrn Hre Hok; simpl in H.
  - inversion H; subst. right. auto.
  - destruct (step fuel st o) as [x st1] eqn:E. destruct (run fuel st1 ops) as [xs1 st2] eqn:Er.
    inversion H; subst. simpl in Hok. rewrite E in Hok. simpl in Hok. destruct Hok as (Ho & Hok).
    assert (Hx : x <> OFuel /\ no_fuel_out xs1).
    { destruct x; simpl in Hnf; try contradiction; (split; [discriminate|assumption]). }
    destruct Hx as (Hx & Hnf1).
    destruct (s_reent st1) eqn:R1.
    + left. clear - Er R1. revert st1 xs1 st' Er R1.
      induction ops as [|o' ops IHo]; intros st1 xs1 st' Er R1; simpl in Er; [inversion Er; subst; exact R1|].
      destruct (step fuel st1 o') as [x' st2] eqn:E'. destruct (run fuel st2 ops) as [xs2 st3] eqn:Er'.
      inversion Er; subst. eapply IHo; [exact Er'|]. eapply step_reent_static; eauto.
    + destruct (step_quiet2 _ _ _ _ _ E Hx Q Hrn Hre Ho) as [R|(Q1 & Hrn1)]; [congruence|].
      eapply IH; eauto.
Qed.

Theorem history_correct2 fuel cells refs maxd ops xs st :
  refn_ok (init cells refs maxd) -> ops_ok2 fuel (init cells refs maxd) ops ->
  run fuel (init cells refs maxd) ops = (xs, st) -> no_fuel_out xs -> s_reent st = false ->
  Quiet st /\
  (forall i v, lookup_data (s_data st) i = Some v ->
     mem_item i (s_inputs st) = true \/ exists f, spec_eval f st i = Val v) /\
  (forall i r st', eval_top fuel st i = (r, st') -> r <> OutOfFuel -> s_masks st' = s_masks st ->
     agrees r (fun g => spec_eval g st i)).
Proof.
  intros Hrn Hops Hrun Hnf Hre.
  destruct (run_quiet2 _ _ _ _ _ Hrun Hnf (Quiet_init cells refs maxd) Hrn eq_refl Hops) as [R|(Q & _)]; [congruence|].
  split; [exact Q|]. destruct Q as ((HI & _) & _). split.
  - exact (proj2 HI).
  - intros i r st' H Hr Hmk. destruct (eval_top_sim _ _ _ _ _ H Hr HI) as (_ & _ & A). exact (A Hmk).
Qed.
