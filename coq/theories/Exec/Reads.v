(** The specification evaluator instrumented with the *direct reads* of a
    formula execution: cached elements called (directly or through uncached
    cells), the uncached cells passed through, references read by attribute
    path and references read by name (with the cells whose formula read it). *)
From Coq Require Import List ZArith Bool Arith Lia.
From MX Require Import Exec.Model Exec.Spec Exec.SpecMono.
Import ListNotations.

Inductive rd :=
| RItem (i : item)            (* a cached element was called *)
| RObj (c : cid)              (* an uncached cells was called *)
| RAttr (r : rid)             (* a reference was read through an attribute path *)
| RName (c : cid) (r : rid)   (* the formula of cells [c] read reference [r] by name *)
| RMask.                      (* a failure passed (or arose in) the clean-up of an [SFin] statement: the formula
                                 fails; marks evaluations that no held element can have (the frames below are
                                 tainted), never covered and never safe *)

Fixpoint dr_expr (fuel : nat) (D : defs) (inp : list (item * val)) (me : cid) (args : key) (locs : list val)
  (e : expr) {struct fuel} : res val * list rd :=
  match fuel with
  | O => (OutOfFuel, [])
  | S f =>
      match e with
      | EConst v => (Val v, [])
      | EPar i => (match nth_error args i with Some v => Val v | None => Err KName end, [])
      | ELoc i => (match nth_error locs i with Some v => Val v | None => Err KName end, [])
      | EBin o a b =>
          match dr_expr f D inp me args locs a with
          | (Val va, d1) =>
              match dr_expr f D inp me args locs b with
              | (Val vb, d2) => (arith o va vb, d1 ++ d2)
              | (r, d2) => (r, d1 ++ d2)
              end
          | r => r
          end
      | EIfPos c t e' =>
          match dr_expr f D inp me args locs c with
          | (Val (VInt z), d1) =>
              let (r, d2) := if Z.ltb 0 z then dr_expr f D inp me args locs t
                             else dr_expr f D inp me args locs e' in
              (r, d1 ++ d2)
          | (Val VNone, d1) => (Err KType, d1)
          | r => r
          end
      | ECall c es =>
          match dr_args f D inp me args locs es with
          | (Val vs, d1) =>
              match lookup_cell (fst D) c with
              | None => (Err KName, d1)
              | Some cl => match bind_pos cl vs with
                           | None => (Err KType, d1)
                           | Some k => let (r, d2) := dr_node f D inp (c, k) in (r, d1 ++ d2)
                           end
              end
          | (Err k, d1) => (Err k, d1)
          | (OutOfFuel, d1) => (OutOfFuel, d1)
          end
      | ERefN r =>
          (match lookup_ref (snd D) r with Some (_, v) => Val v | None => Err KName end, [RName me r])
      | ERefA r =>
          match lookup_ref (snd D) r with Some (_, v) => (Val v, [RAttr r]) | None => (Err KName, []) end
      | ERaise k => (Err k, [])
      end
  end
with dr_args (fuel : nat) (D : defs) (inp : list (item * val)) (me : cid) (args : key) (locs : list val)
  (es : list expr) {struct fuel} : res (list val) * list rd :=
  match fuel with
  | O => (OutOfFuel, [])
  | S f =>
      match es with
      | [] => (Val [], [])
      | e :: rest =>
          match dr_expr f D inp me args locs e with
          | (Val v, d1) =>
              match dr_args f D inp me args locs rest with
              | (Val vs, d2) => (Val (v :: vs), d1 ++ d2)
              | (r, d2) => (r, d1 ++ d2)
              end
          | (Err k, d1) => (Err k, d1)
          | (OutOfFuel, d1) => (OutOfFuel, d1)
          end
      end
  end
(** reads as seen by the caller of element [i] *)
with dr_node (fuel : nat) (D : defs) (inp : list (item * val)) (i : item) {struct fuel}
  : res val * list rd :=
  match fuel with
  | O => (OutOfFuel, [])
  | S f =>
      match lookup_cell (fst D) (fst i) with
      | None => (Err KName, [])
      | Some cl =>
          if cl_cached cl then
            match lookup_data inp i with
            | Some v => (Val v, [RItem i])
            | None =>
                match dr_body f D inp (fst i) (snd i) [] (cl_body cl) with
                | (Val v, _) => (none_check cl v, [RItem i])
                | (r, _) => (r, [RItem i])
                end
            end
          else
            match dr_body f D inp (fst i) (snd i) [] (cl_body cl) with
            | (Val v, d) => (none_check cl v, RObj (fst i) :: d)
            | (r, d) => (r, RObj (fst i) :: d)
            end
      end
  end
with dr_body (fuel : nat) (D : defs) (inp : list (item * val)) (me : cid) (args : key) (locs : list val)
  (rest : list stmt) {struct fuel} : res val * list rd :=
  match fuel with
  | O => (OutOfFuel, [])
  | S f =>
      match rest with
      | [] => (Val (last locs VNone), [])
      | SAssign e :: more =>
          match dr_expr f D inp me args locs e with
          | (Val v, d1) => let (r, d2) := dr_body f D inp me args (locs ++ [v]) more in (r, d1 ++ d2)
          | r => r
          end
      | STry e h :: more =>
          match dr_expr f D inp me args locs e with
          | (Val v, d1) => let (r, d2) := dr_body f D inp me args (locs ++ [v]) more in (r, d1 ++ d2)
          | (Err k, d1) =>
              if catchable k then
                match dr_expr f D inp me args locs h with
                | (Val v, d2) =>
                    let (r, d3) := dr_body f D inp me args (locs ++ [v]) more in (r, d1 ++ d2 ++ d3)
                | (r, d2) => (r, d1 ++ d2)
                end
              else (Err k, d1)
          | (OutOfFuel, d1) => (OutOfFuel, d1)
          end
      | SFin e c :: more =>
          match dr_expr f D inp me args locs e with
          | (Val v, d1) =>
              match dr_expr f D inp me args locs c with
              | (Val _, d2) =>
                  let (r, d3) := dr_body f D inp me args (locs ++ [v]) more in (r, d1 ++ d2 ++ d3)
              | (r, d2) => (r, RMask :: d1 ++ d2)
              end
          | (Err k, d1) =>
              match dr_expr f D inp me args locs c with
              | (Val _, d2) => (Err k, RMask :: d1 ++ d2)
              | (r, d2) => (r, RMask :: d1 ++ d2)
              end
          | (OutOfFuel, d1) => (OutOfFuel, d1)
          end
      end
  end.

(** the reads of element [i]'s own formula *)
Definition dr_own (fuel : nat) (D : defs) (inp : list (item * val)) (i : item) : res val * list rd :=
  match lookup_cell (fst D) (fst i) with
  | None => (Err KName, [])
  | Some cl =>
      match dr_body fuel D inp (fst i) (snd i) [] (cl_body cl) with
      | (Val v, d) => (none_check cl v, d)
      | r => r
      end
  end.

(** * The result component is the specification evaluator *)
Lemma dr_fst_all : forall f,
  (forall D inp me args locs e, fst (dr_expr f D inp me args locs e) = sp_expr f D inp args locs e) /\
  (forall D inp me args locs es, fst (dr_args f D inp me args locs es) = sp_args f D inp args locs es) /\
  (forall D inp i, fst (dr_node f D inp i) = sp_node f D inp i) /\
  (forall D inp me args locs rest, fst (dr_body f D inp me args locs rest) = sp_body f D inp args locs rest).
Proof.
  induction f as [|f (IHe & IHa & IHn & IHb)]; [repeat split; reflexivity|].
  repeat split.
  - intros D inp me args locs e. destruct e; simpl; try reflexivity.
    + rewrite <- (IHe D inp me args locs e1). destruct (dr_expr f D inp me args locs e1) as [[va|k|] d1]; simpl; try reflexivity.
      rewrite <- (IHe D inp me args locs e2). destruct (dr_expr f D inp me args locs e2) as [[vb|k|] d2]; reflexivity.
    + rewrite <- (IHe D inp me args locs e1). destruct (dr_expr f D inp me args locs e1) as [[[z|]|k|] d1]; simpl; try reflexivity.
      destruct (Z.ltb 0 z).
      * rewrite <- (IHe D inp me args locs e2). now destruct (dr_expr f D inp me args locs e2).
      * rewrite <- (IHe D inp me args locs e3). now destruct (dr_expr f D inp me args locs e3).
    + rewrite <- (IHa D inp me args locs args0). destruct (dr_args f D inp me args locs args0) as [[vs|k|] d1]; simpl; try reflexivity.
      destruct (lookup_cell (fst D) c) as [cl|]; [|reflexivity].
      destruct (bind_pos cl vs) as [k|]; [|reflexivity].
      rewrite <- (IHn D inp (c, k)). now destruct (dr_node f D inp (c, k)).
    + destruct (lookup_ref (snd D) r) as [[sp v]|]; reflexivity.
  - intros D inp me args locs es. destruct es as [|e rest]; simpl; [reflexivity|].
    rewrite <- (IHe D inp me args locs e). destruct (dr_expr f D inp me args locs e) as [[v|k|] d1]; simpl; try reflexivity.
    rewrite <- (IHa D inp me args locs rest). destruct (dr_args f D inp me args locs rest) as [[vs|k|] d2]; reflexivity.
  - intros D inp i. simpl. destruct (lookup_cell (fst D) (fst i)) as [cl|]; [|reflexivity].
    destruct (cl_cached cl) eqn:Ec.
    + destruct (lookup_data inp i); [reflexivity|].
      rewrite <- (IHb D inp (fst i) (snd i) [] (cl_body cl)).
      destruct (dr_body f D inp (fst i) (snd i) [] (cl_body cl)) as [[v|k|] d]; reflexivity.
    + rewrite <- (IHb D inp (fst i) (snd i) [] (cl_body cl)).
      destruct (dr_body f D inp (fst i) (snd i) [] (cl_body cl)) as [[v|k|] d]; simpl; reflexivity.
  - intros D inp me args locs rest. destruct rest as [|s more]; simpl; [reflexivity|].
    destruct s as [e|e h|e c].
    + rewrite <- (IHe D inp me args locs e). destruct (dr_expr f D inp me args locs e) as [[v|k|] d1]; simpl; try reflexivity.
      rewrite <- (IHb D inp me args (locs ++ [v]) more). now destruct (dr_body f D inp me args (locs ++ [v]) more).
    + rewrite <- (IHe D inp me args locs e). destruct (dr_expr f D inp me args locs e) as [[v|k|] d1]; simpl; try reflexivity.
      * rewrite <- (IHb D inp me args (locs ++ [v]) more). now destruct (dr_body f D inp me args (locs ++ [v]) more).
      * destruct (catchable k); [|reflexivity].
        rewrite <- (IHe D inp me args locs h). destruct (dr_expr f D inp me args locs h) as [[v|k2|] d2]; simpl; try reflexivity.
        rewrite <- (IHb D inp me args (locs ++ [v]) more). now destruct (dr_body f D inp me args (locs ++ [v]) more).
    + rewrite <- (IHe D inp me args locs e). rewrite <- (IHe D inp me args locs c).
      destruct (dr_expr f D inp me args locs e) as [[v|k|] d1]; simpl; try reflexivity;
        destruct (dr_expr f D inp me args locs c) as [[w|k2|] d2]; simpl; try reflexivity.
      rewrite <- (IHb D inp me args (locs ++ [v]) more). now destruct (dr_body f D inp me args (locs ++ [v]) more).
Qed.

(** * Fuel monotonicity (result and reads) *)
Definition dmono_expr (f : nat) : Prop :=
  forall D inp me args locs e r d, dr_expr f D inp me args locs e = (r, d) -> r <> OutOfFuel ->
  forall f', f <= f' -> dr_expr f' D inp me args locs e = (r, d).
Definition dmono_args (f : nat) : Prop :=
  forall D inp me args locs es r d, dr_args f D inp me args locs es = (r, d) -> r <> OutOfFuel ->
  forall f', f <= f' -> dr_args f' D inp me args locs es = (r, d).
Definition dmono_node (f : nat) : Prop :=
  forall D inp i r d, dr_node f D inp i = (r, d) -> r <> OutOfFuel ->
  forall f', f <= f' -> dr_node f' D inp i = (r, d).
Definition dmono_body (f : nat) : Prop :=
  forall D inp me args locs rest r d, dr_body f D inp me args locs rest = (r, d) -> r <> OutOfFuel ->
  forall f', f <= f' -> dr_body f' D inp me args locs rest = (r, d).

Ltac dfuel f' :=
  match goal with
  | H : S _ <= f' |- _ => destruct f' as [|f']; [lia|]; apply le_S_n in H
  end.
Ltac pinv :=
  match goal with
  | H : (_, _) = (_, _) |- _ => inversion H; subst; clear H
  end.

Lemma dr_mono_all : forall f, dmono_expr f /\ dmono_args f /\ dmono_node f /\ dmono_body f.
Proof.
  induction f as [|f (IHe & IHa & IHn & IHb)].
  - repeat split; intros until d; simpl; intros H Hr; inversion H; subst; congruence.
  - repeat split.
    + intros D inp me args locs e r d H Hr f' Hle. dfuel f'.
      destruct e; simpl in *; try assumption.
      * destruct (dr_expr f D inp me args locs e1) as [[va|k|] d1] eqn:E1.
        -- rewrite (IHe _ _ _ _ _ _ _ _ E1 ltac:(discriminate) f' Hle).
           destruct (dr_expr f D inp me args locs e2) as [[vb|k|] d2] eqn:E2.
           ++ now rewrite (IHe _ _ _ _ _ _ _ _ E2 ltac:(discriminate) f' Hle).
           ++ now rewrite (IHe _ _ _ _ _ _ _ _ E2 ltac:(discriminate) f' Hle).
           ++ pinv. congruence.
        -- now rewrite (IHe _ _ _ _ _ _ _ _ E1 ltac:(discriminate) f' Hle).
        -- pinv. congruence.
      * destruct (dr_expr f D inp me args locs e1) as [[[z|]|k|] d1] eqn:E1.
        -- rewrite (IHe _ _ _ _ _ _ _ _ E1 ltac:(discriminate) f' Hle).
           destruct (Z.ltb 0 z).
           ++ destruct (dr_expr f D inp me args locs e2) as [r2 d2] eqn:E2. pinv.
              now rewrite (IHe _ _ _ _ _ _ _ _ E2 Hr f' Hle).
           ++ destruct (dr_expr f D inp me args locs e3) as [r2 d2] eqn:E2. pinv.
              now rewrite (IHe _ _ _ _ _ _ _ _ E2 Hr f' Hle).
        -- now rewrite (IHe _ _ _ _ _ _ _ _ E1 ltac:(discriminate) f' Hle).
        -- now rewrite (IHe _ _ _ _ _ _ _ _ E1 ltac:(discriminate) f' Hle).
        -- pinv. congruence.
      * destruct (dr_args f D inp me args locs args0) as [[vs|k|] d1] eqn:E1.
        -- rewrite (IHa _ _ _ _ _ _ _ _ E1 ltac:(discriminate) f' Hle).
           destruct (lookup_cell (fst D) c) as [cl|]; [|assumption].
           destruct (bind_pos cl vs) as [k|]; [|assumption].
           destruct (dr_node f D inp (c, k)) as [r2 d2] eqn:E2. pinv.
           now rewrite (IHn _ _ _ _ _ E2 Hr f' Hle).
        -- now rewrite (IHa _ _ _ _ _ _ _ _ E1 ltac:(discriminate) f' Hle).
        -- pinv. congruence.
    + intros D inp me args locs es r d H Hr f' Hle. dfuel f'.
      destruct es as [|e rest]; simpl in *; [assumption|].
      destruct (dr_expr f D inp me args locs e) as [[v|k|] d1] eqn:E1.
      * rewrite (IHe _ _ _ _ _ _ _ _ E1 ltac:(discriminate) f' Hle).
        destruct (dr_args f D inp me args locs rest) as [[vs|k|] d2] eqn:E2.
        -- now rewrite (IHa _ _ _ _ _ _ _ _ E2 ltac:(discriminate) f' Hle).
        -- now rewrite (IHa _ _ _ _ _ _ _ _ E2 ltac:(discriminate) f' Hle).
        -- pinv. congruence.
      * now rewrite (IHe _ _ _ _ _ _ _ _ E1 ltac:(discriminate) f' Hle).
      * pinv. congruence.
    + intros D inp i r d H Hr f' Hle. dfuel f'. simpl in *.
      destruct (lookup_cell (fst D) (fst i)) as [cl|]; [|assumption].
      destruct (cl_cached cl).
      * destruct (lookup_data inp i); [assumption|].
        destruct (dr_body f D inp (fst i) (snd i) [] (cl_body cl)) as [[v|k|] d1] eqn:E1.
        -- now rewrite (IHb _ _ _ _ _ _ _ _ E1 ltac:(discriminate) f' Hle).
        -- now rewrite (IHb _ _ _ _ _ _ _ _ E1 ltac:(discriminate) f' Hle).
        -- pinv. congruence.
      * destruct (dr_body f D inp (fst i) (snd i) [] (cl_body cl)) as [[v|k|] d1] eqn:E1.
        -- now rewrite (IHb _ _ _ _ _ _ _ _ E1 ltac:(discriminate) f' Hle).
        -- now rewrite (IHb _ _ _ _ _ _ _ _ E1 ltac:(discriminate) f' Hle).
        -- pinv. congruence.
    + intros D inp me args locs rest r d H Hr f' Hle. dfuel f'.
      destruct rest as [|s more]; simpl in *; [assumption|].
      destruct s as [e|e h|e c].
      * destruct (dr_expr f D inp me args locs e) as [[v|k|] d1] eqn:E1.
        -- rewrite (IHe _ _ _ _ _ _ _ _ E1 ltac:(discriminate) f' Hle).
           destruct (dr_body f D inp me args (locs ++ [v]) more) as [r2 d2] eqn:E2. pinv.
           now rewrite (IHb _ _ _ _ _ _ _ _ E2 Hr f' Hle).
        -- now rewrite (IHe _ _ _ _ _ _ _ _ E1 ltac:(discriminate) f' Hle).
        -- pinv. congruence.
      * destruct (dr_expr f D inp me args locs e) as [[v|k|] d1] eqn:E1.
        -- rewrite (IHe _ _ _ _ _ _ _ _ E1 ltac:(discriminate) f' Hle).
           destruct (dr_body f D inp me args (locs ++ [v]) more) as [r2 d2] eqn:E2. pinv.
           now rewrite (IHb _ _ _ _ _ _ _ _ E2 Hr f' Hle).
        -- rewrite (IHe _ _ _ _ _ _ _ _ E1 ltac:(discriminate) f' Hle).
           destruct (catchable k); [|assumption].
           destruct (dr_expr f D inp me args locs h) as [[v|k2|] d2] eqn:E2.
           ++ rewrite (IHe _ _ _ _ _ _ _ _ E2 ltac:(discriminate) f' Hle).
              destruct (dr_body f D inp me args (locs ++ [v]) more) as [r3 d3] eqn:E3. pinv.
              now rewrite (IHb _ _ _ _ _ _ _ _ E3 Hr f' Hle).
           ++ now rewrite (IHe _ _ _ _ _ _ _ _ E2 ltac:(discriminate) f' Hle).
           ++ pinv. congruence.
        -- pinv. congruence.
      * destruct (dr_expr f D inp me args locs e) as [[v|k|] d1] eqn:E1.
        -- rewrite (IHe _ _ _ _ _ _ _ _ E1 ltac:(discriminate) f' Hle).
           destruct (dr_expr f D inp me args locs c) as [[w|k2|] d2] eqn:E2.
           ++ rewrite (IHe _ _ _ _ _ _ _ _ E2 ltac:(discriminate) f' Hle).
              destruct (dr_body f D inp me args (locs ++ [v]) more) as [r3 d3] eqn:E3. pinv.
              now rewrite (IHb _ _ _ _ _ _ _ _ E3 Hr f' Hle).
           ++ now rewrite (IHe _ _ _ _ _ _ _ _ E2 ltac:(discriminate) f' Hle).
           ++ pinv. congruence.
        -- rewrite (IHe _ _ _ _ _ _ _ _ E1 ltac:(discriminate) f' Hle).
           destruct (dr_expr f D inp me args locs c) as [[w|k2|] d2] eqn:E2.
           ++ now rewrite (IHe _ _ _ _ _ _ _ _ E2 ltac:(discriminate) f' Hle).
           ++ now rewrite (IHe _ _ _ _ _ _ _ _ E2 ltac:(discriminate) f' Hle).
           ++ pinv. congruence.
        -- pinv. congruence.
Qed.

Lemma dr_body_mono f f' D inp me args locs rest r d :
  dr_body f D inp me args locs rest = (r, d) -> r <> OutOfFuel -> f <= f' ->
  dr_body f' D inp me args locs rest = (r, d).
Proof. intros; eapply (proj2 (proj2 (proj2 (dr_mono_all f)))); eauto. Qed.
Lemma dr_expr_mono f f' D inp me args locs e r d :
  dr_expr f D inp me args locs e = (r, d) -> r <> OutOfFuel -> f <= f' ->
  dr_expr f' D inp me args locs e = (r, d).
Proof. intros; eapply (proj1 (dr_mono_all f)); eauto. Qed.
Lemma dr_args_mono f f' D inp me args locs es r d :
  dr_args f D inp me args locs es = (r, d) -> r <> OutOfFuel -> f <= f' ->
  dr_args f' D inp me args locs es = (r, d).
Proof. intros; eapply (proj1 (proj2 (dr_mono_all f))); eauto. Qed.
Lemma dr_node_mono f f' D inp i r d :
  dr_node f D inp i = (r, d) -> r <> OutOfFuel -> f <= f' -> dr_node f' D inp i = (r, d).
Proof. intros; eapply (proj1 (proj2 (proj2 (dr_mono_all f)))); eauto. Qed.

(** two terminating evaluations of the same thing agree *)
Lemma dr_body_det f g D inp me args locs rest r d r' d' :
  dr_body f D inp me args locs rest = (r, d) -> r <> OutOfFuel ->
  dr_body g D inp me args locs rest = (r', d') -> r' <> OutOfFuel -> r = r' /\ d = d'.
Proof.
  intros H Hr H' Hr'.
  pose proof (dr_body_mono _ (Nat.max f g) _ _ _ _ _ _ _ _ H Hr ltac:(lia)) as A.
  pose proof (dr_body_mono _ (Nat.max f g) _ _ _ _ _ _ _ _ H' Hr' ltac:(lia)) as B.
  rewrite A in B. inversion B; auto.
Qed.
Lemma dr_expr_det f g D inp me args locs e r d r' d' :
  dr_expr f D inp me args locs e = (r, d) -> r <> OutOfFuel ->
  dr_expr g D inp me args locs e = (r', d') -> r' <> OutOfFuel -> r = r' /\ d = d'.
Proof.
  intros H Hr H' Hr'.
  pose proof (dr_expr_mono _ (Nat.max f g) _ _ _ _ _ _ _ _ H Hr ltac:(lia)) as A.
  pose proof (dr_expr_mono _ (Nat.max f g) _ _ _ _ _ _ _ _ H' Hr' ltac:(lia)) as B.
  rewrite A in B. inversion B; auto.
Qed.
Lemma dr_args_det f g D inp me args locs es r d r' d' :
  dr_args f D inp me args locs es = (r, d) -> r <> OutOfFuel ->
  dr_args g D inp me args locs es = (r', d') -> r' <> OutOfFuel -> r = r' /\ d = d'.
Proof.
  intros H Hr H' Hr'.
  pose proof (dr_args_mono _ (Nat.max f g) _ _ _ _ _ _ _ _ H Hr ltac:(lia)) as A.
  pose proof (dr_args_mono _ (Nat.max f g) _ _ _ _ _ _ _ _ H' Hr' ltac:(lia)) as B.
  rewrite A in B. inversion B; auto.
Qed.
Lemma dr_node_det f g D inp i r d r' d' :
  dr_node f D inp i = (r, d) -> r <> OutOfFuel ->
  dr_node g D inp i = (r', d') -> r' <> OutOfFuel -> r = r' /\ d = d'.
Proof.
  intros H Hr H' Hr'.
  pose proof (dr_node_mono _ (Nat.max f g) _ _ _ _ _ H Hr ltac:(lia)) as A.
  pose proof (dr_node_mono _ (Nat.max f g) _ _ _ _ _ H' Hr' ltac:(lia)) as B.
  rewrite A in B. inversion B; auto.
Qed.
