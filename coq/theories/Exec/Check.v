(** Comparison of the executable model with observations of the real
    library (used by the generated cases of the correspondence check). *)
From Coq Require Import List ZArith Bool Arith.
From MX Require Import Exec.Model.
Import ListNotations.

Definition subset {A} (eqb : A -> A -> bool) (a b : list A) : bool :=
  forallb (fun x => existsb (eqb x) b) a.
Definition seteq {A} (eqb : A -> A -> bool) (a b : list A) : bool :=
  subset eqb a b && subset eqb b a.

Definition out_eqb (a b : out) : bool :=
  match a, b with
  | OVal x, OVal y => val_eqb x y
  | OErr x, OErr y => ekind_eqb x y
  | OOk, OOk | ORejected, ORejected => true
  | _, _ => false
  end.

Definition dv_eqb (a b : item * val) : bool := item_eqb (fst a) (fst b) && val_eqb (snd a) (snd b).
Definition tb_eqb (a b : item * nat) : bool := item_eqb (fst a) (fst b) && Nat.eqb (snd a) (snd b).
Fixpoint list_eqb {A} (eqb : A -> A -> bool) (a b : list A) : bool :=
  match a, b with
  | [], [] => true
  | x :: a', y :: b' => eqb x y && list_eqb eqb a' b'
  | _, _ => false
  end.

(** what the harness observes after an operation *)
Record obs := mkObs {
  o_out : out;
  o_data : list (item * val);       (* dict(cells) of every cells *)
  o_inputs : list item;             (* keys with is_input *)
  o_nodes : list node;              (* model.tracegraph nodes *)
  o_edges : list (node * node);     (* model.tracegraph edges *)
  o_redges : list (rid * item);     (* attribute-reference precedents of held elements *)
  o_tb : option (list (item * nat));(* get_traceback() after a failing evaluation *)
  o_log : list item;                (* formulas executed by this operation, in order *)
  o_log_ordered : bool }.           (* false: recalculation targets come from a set, compare as multiset *)

Definition new_log (before after : state) : list item :=
  rev (firstn (List.length (s_log after) - List.length (s_log before)) (s_log after)).

Definition held_redges (st : state) : list (rid * item) :=
  filter (fun e => has_data st (snd e)) (s_redges st).

Definition obs_ok (before after : state) (x : out) (ob : obs) : bool :=
  out_eqb x (o_out ob)
  && seteq dv_eqb (s_data after) (o_data ob)
  && seteq item_eqb (s_inputs after) (o_inputs ob)
  && seteq node_eqb (s_nodes after) (o_nodes ob)
  && seteq edge_eqb (s_edges after) (o_edges ob)
  && seteq redge_eqb (held_redges after) (o_redges ob)
  && match o_tb ob with
     | Some tb => match s_err after with
                  | Some (_, es) => list_eqb tb_eqb es tb
                  | None => false
                  end
     | None => true
     end
  && (if o_log_ordered ob then list_eqb item_eqb (new_log before after) (o_log ob)
      else seteq item_eqb (new_log before after) (o_log ob)
           && Nat.eqb (List.length (new_log before after)) (List.length (o_log ob))).

Fixpoint check_ops (fuel : nat) (st : state) (ops : list op) (obss : list obs) : bool :=
  match ops, obss with
  | [], [] => true
  | o :: ops', ob :: obss' =>
      let (x, st') := step fuel st o in
      obs_ok st st' x ob && check_ops fuel st' ops' obss'
  | _, _ => false
  end.

(** index of the first operation whose observation differs (diagnostics) *)
Fixpoint first_bad (fuel : nat) (st : state) (ops : list op) (obss : list obs) (n : nat) : option nat :=
  match ops, obss with
  | o :: ops', ob :: obss' =>
      let (x, st') := step fuel st o in
      if obs_ok st st' x ob then first_bad fuel st' ops' obss' (S n) else Some n
  | _, _ => None
  end.

Definition case := (list (cid * cell) * list (rid * (option nat * val)) * nat * list op * list obs)%type.
Definition check_case (fuel : nat) (c : case) : bool :=
  match c with (cells, refs, maxd, ops, obss) => check_ops fuel (init cells refs maxd) ops obss end.

(** model-side observation, for diagnostics *)
Definition model_obs (before after : state) (x : out) :=
  (x, s_data after, s_inputs after, s_nodes after, s_edges after, held_redges after, s_err after, new_log before after).
Fixpoint model_trace (fuel : nat) (st : state) (ops : list op) :=
  match ops with
  | [] => []
  | o :: ops' => let (x, st') := step fuel st o in model_obs st st' x :: model_trace fuel st' ops'
  end.

(** * Do the hypotheses of the theorems hold on a generated case?
      (evidence of non-vacuity; evaluated by the correspondence run) *)
From MX Require Import Exec.Cover Exec.Edits4.

Definition refs_visible (refs : list (rid * (option nat * val))) (sp : nat) (b : list stmt) : bool :=
  forallb (fun p => match fst (snd p) with
                    | None => true
                    | Some s => negb (refn_body b (fst p)) || Nat.eqb sp s
                    end) refs.
Definition cell_hyp (refs : list (rid * (option nat * val))) (cl : cell) : bool :=
  refs_visible refs (cl_space cl) (cl_body cl).
Definition op_hyp (cells : list (cid * cell)) (refs : list (rid * (option nat * val))) (o : op) : bool :=
  match o with
  | OpSetFormula c b _ _ =>
      match lookup_cell cells c with Some cl => refs_visible refs (cl_space cl) b | None => true end
  | _ => true
  end.
Definition hyp_case (fuel : nat) (c : case) : bool :=
  match c with
  | (cells, refs, maxd, ops, _) =>
      forallb (fun p => cell_hyp refs (snd p)) cells && forallb (op_hyp cells refs) ops
      && negb (s_reent (snd (run fuel (init cells refs maxd) ops)))
      (* no request of the history had the depth-limit error replaced by a failing clean-up ([SFin]) *)
      && Nat.eqb (s_masks (snd (run fuel (init cells refs maxd) ops))) 0
  end.
