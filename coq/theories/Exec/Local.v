(** K4, part 5: locality — the value (and the reads) of a held element do
    not change when definitions and inputs change only where no recorded
    read points. *)
From Coq Require Import List ZArith Bool Arith Lia.
From MX Require Import Exec.Model Exec.Spec Exec.Basics Exec.SpecMono Exec.Sim Exec.Reads Exec.Cover.
Import ListNotations.

Definition safe_rd (st : state) (PC : cid -> Prop) (PR : rid -> Prop) (PI : item -> Prop) (x : rd) : Prop :=
  match x with
  | RItem m => PI m /\ PC (fst m) /\ has st m
  | RObj c => PC c
  | RAttr r => PR r
  | RName _ r => PR r
  | RMask => False
  end.

Record Agree (st : state) (D' : defs) (inp' : list (item * val))
       (PC : cid -> Prop) (PR : rid -> Prop) (PI : item -> Prop) : Prop := mkAgree {
  ag_cell : forall c, PC c -> lookup_cell (fst D') c = lookup_cell (s_cells st) c;
  ag_ref : forall r, PR r -> lookup_ref (snd D') r = lookup_ref (s_refs st) r;
  ag_refdom : forall r, lookup_ref (s_refs st) r = None -> lookup_ref (snd D') r = None;
  ag_inp : forall i, PI i -> lookup_data inp' i = lookup_data (input_data st) i;
  (** the reads of a safe held element are safe again *)
  ag_inh : forall m, has st m -> mem_item m (s_inputs st) = false -> PI m -> PC (fst m) ->
           exists f v ds, dr_own f (defs_of st) (input_data st) m = (Val v, ds) /\
                          Forall (safe_rd st PC PR PI) ds }.

(** the results that can occur inside the evaluation of a held element: a
    value, or a failure that a formula can handle (every other failure would
    have escaped, and the element would hold nothing) *)
Definition okres {A} (r : res A) : Prop :=
  match r with Val _ => True | Err k => catchable k = true | OutOfFuel => False end.

Lemma okres_fuel {A} (r : res A) : okres r -> r <> OutOfFuel.
Proof. destruct r; simpl; intros H; [discriminate|discriminate|contradiction]. Qed.

Definition L_expr st D' inp' PC PR PI (g : nat) : Prop :=
  forall me args locs e r ds,
    dr_expr g (defs_of st) (input_data st) me args locs e = (r, ds) -> okres r ->
    Forall (safe_rd st PC PR PI) ds ->
    dr_expr g D' inp' me args locs e = (r, ds).
Definition L_args st D' inp' PC PR PI (g : nat) : Prop :=
  forall me args locs es r ds,
    dr_args g (defs_of st) (input_data st) me args locs es = (r, ds) -> okres r ->
    Forall (safe_rd st PC PR PI) ds ->
    dr_args g D' inp' me args locs es = (r, ds).
Definition L_node st D' inp' PC PR PI (g : nat) : Prop :=
  forall i r ds,
    dr_node g (defs_of st) (input_data st) i = (r, ds) -> okres r ->
    Forall (safe_rd st PC PR PI) ds ->
    dr_node g D' inp' i = (r, ds).
Definition L_body st D' inp' PC PR PI (g : nat) : Prop :=
  forall me args locs rest r ds,
    dr_body g (defs_of st) (input_data st) me args locs rest = (r, ds) -> okres r ->
    Forall (safe_rd st PC PR PI) ds ->
    dr_body g D' inp' me args locs rest = (r, ds).

Lemma Forall_app_l {A} (P : A -> Prop) a b : Forall P (a ++ b) -> Forall P a.
Proof. intros H. apply Forall_app in H. tauto. Qed.
Lemma Forall_app_r {A} (P : A -> Prop) a b : Forall P (a ++ b) -> Forall P b.
Proof. intros H. apply Forall_app in H. tauto. Qed.

Lemma locality st D' inp' PC PR PI :
  Agree st D' inp' PC PR PI ->
  forall g, L_expr st D' inp' PC PR PI g /\ L_args st D' inp' PC PR PI g /\
            L_node st D' inp' PC PR PI g /\ L_body st D' inp' PC PR PI g.
Proof.
  intros AG. induction g as [|g (IHe & IHa & IHn & IHb)].
  { split; [|split; [|split]]; unfold L_expr, L_args, L_node, L_body; intros; simpl in *;
      match goal with H : (_, _) = (_, _) |- _ => inversion H; subst; try contradiction end. }
  split; [|split; [|split]].
  - (* expr *)
    intros me args locs e r ds H Hk Hs. destruct e; simpl in H |- *; try exact H.
    + (* EBin *)
      destruct (dr_expr g (defs_of st) (input_data st) me args locs e1) as [ra d1] eqn:Da.
      destruct ra as [va|k|]; [| |inversion H; subst; contradiction].
      * destruct (dr_expr g (defs_of st) (input_data st) me args locs e2) as [rb d2] eqn:Db.
        assert (Hds : ds = d1 ++ d2) by (destruct rb; inversion H; reflexivity). subst ds.
        assert (Kb : okres rb).
        { destruct rb; [exact I|inversion H; subst; exact Hk|inversion H; subst; contradiction]. }
        rewrite (IHe _ _ _ _ _ _ Da I (Forall_app_l _ _ _ Hs)).
        rewrite (IHe _ _ _ _ _ _ Db Kb (Forall_app_r _ _ _ Hs)). exact H.
      * inversion H; subst. now rewrite (IHe _ _ _ _ _ _ Da Hk Hs).
    + (* EIfPos *)
      destruct (dr_expr g (defs_of st) (input_data st) me args locs e1) as [ra d1] eqn:Da.
      destruct ra as [[z|]|k|]; [| | |inversion H; subst; contradiction].
      * destruct (if Z.ltb 0 z then dr_expr g (defs_of st) (input_data st) me args locs e2
                  else dr_expr g (defs_of st) (input_data st) me args locs e3) as [rb d2] eqn:Db.
        inversion H; subst r ds. clear H.
        rewrite (IHe _ _ _ _ _ _ Da I (Forall_app_l _ _ _ Hs)).
        destruct (Z.ltb 0 z).
        -- now rewrite (IHe _ _ _ _ _ _ Db Hk (Forall_app_r _ _ _ Hs)).
        -- now rewrite (IHe _ _ _ _ _ _ Db Hk (Forall_app_r _ _ _ Hs)).
      * inversion H; subst. simpl in Hk. discriminate Hk.
      * inversion H; subst. now rewrite (IHe _ _ _ _ _ _ Da Hk Hs).
    + (* ECall *)
      destruct (dr_args g (defs_of st) (input_data st) me args locs args0) as [ra d1] eqn:Da.
      destruct ra as [vs|k|]; [| |inversion H; subst; contradiction].
      2:{ inversion H; subst. now rewrite (IHa _ _ _ _ _ _ Da Hk Hs). }
      unfold defs_of in H; simpl in H.
      destruct (lookup_cell (s_cells st) c) as [cl|] eqn:El; [|inversion H; subst; simpl in Hk; discriminate Hk].
      destruct (bind_pos cl vs) as [k|] eqn:Eb; [|inversion H; subst; simpl in Hk; discriminate Hk].
      destruct (dr_node g (s_cells st, s_refs st) (input_data st) (c, k)) as [rb d2] eqn:Db.
      inversion H; subst r ds. clear H.
      rewrite (IHa _ _ _ _ _ _ Da I (Forall_app_l _ _ _ Hs)).
      (* the callee's definition is among the safe reads *)
      assert (Hpc : PC c).
      { pose proof (Forall_app_r _ _ _ Hs) as Hs2. destruct g; [simpl in Db; inversion Db; subst; contradiction|].
        simpl in Db. rewrite El in Db.
        destruct (cl_cached cl).
        - assert (d2 = [RItem (c, k)]).
          { destruct (lookup_data (input_data st) (c, k)); [inversion Db; reflexivity|].
            destruct (dr_body g (s_cells st, s_refs st) (input_data st) c k [] (cl_body cl)) as [[w|e'|] dd];
              inversion Db; reflexivity. }
          subst d2. inversion Hs2 as [|? ? Hx _]; subst. simpl in Hx. tauto.
        - destruct (dr_body g (s_cells st, s_refs st) (input_data st) c k [] (cl_body cl)) as [[w|e'|] dd];
            inversion Db; subst; inversion Hs2 as [|? ? Hx _]; subst; exact Hx. }
      rewrite (ag_cell _ _ _ _ _ _ AG c Hpc), El, Eb.
      now rewrite (IHn _ _ _ Db Hk (Forall_app_r _ _ _ Hs)).
    + (* ERefN *)
      unfold defs_of in H; simpl in H. inversion H; subst ds.
      inversion Hs as [|? ? Hx _]; subst. simpl in Hx.
      now rewrite (ag_ref _ _ _ _ _ _ AG r0 Hx).
    + (* ERefA *)
      unfold defs_of in H; simpl in H.
      destruct (lookup_ref (s_refs st) r0) as [[sp v]|] eqn:El.
      * inversion H; subst. inversion Hs as [|? ? Hx _]; subst. simpl in Hx.
        now rewrite (ag_ref _ _ _ _ _ _ AG r0 Hx), El.
      * now rewrite (ag_refdom _ _ _ _ _ _ AG r0 El).
  - (* args *)
    intros me args locs es r ds H Hk Hs. destruct es as [|e rest]; simpl in H |- *; [exact H|].
    destruct (dr_expr g (defs_of st) (input_data st) me args locs e) as [ra d1] eqn:Da.
    destruct ra as [v|k|]; [| |inversion H; subst; contradiction].
    2:{ inversion H; subst. now rewrite (IHe _ _ _ _ _ _ Da Hk Hs). }
    destruct (dr_args g (defs_of st) (input_data st) me args locs rest) as [rb d2] eqn:Db.
    assert (Hds : ds = d1 ++ d2) by (destruct rb; inversion H; reflexivity). subst ds.
    assert (Kb : okres rb).
    { destruct rb; [exact I|inversion H; subst; exact Hk|inversion H; subst; contradiction]. }
    rewrite (IHe _ _ _ _ _ _ Da I (Forall_app_l _ _ _ Hs)).
    rewrite (IHa _ _ _ _ _ _ Db Kb (Forall_app_r _ _ _ Hs)). exact H.
  - (* node *)
    intros i r ds H Hk Hs. simpl in H |- *. unfold defs_of in H; simpl in H.
    destruct (lookup_cell (s_cells st) (fst i)) as [cl|] eqn:El; [|inversion H; subst; simpl in Hk; discriminate Hk].
    destruct (cl_cached cl) eqn:Ec.
    + assert (Hds : ds = [RItem i]).
      { destruct (lookup_data (input_data st) i); [inversion H; reflexivity|].
        destruct (dr_body g (s_cells st, s_refs st) (input_data st) (fst i) (snd i) [] (cl_body cl)) as [[w|e'|] dd];
          inversion H; reflexivity. }
      subst ds. inversion Hs as [|? ? Hx _]; subst. simpl in Hx. destruct Hx as (Hpi & Hpc & Hhas).
      rewrite (ag_cell _ _ _ _ _ _ AG _ Hpc), El, Ec, (ag_inp _ _ _ _ _ _ AG i Hpi).
      destruct (lookup_data (input_data st) i) as [w|] eqn:Ei; [exact H|].
      destruct (dr_body g (s_cells st, s_refs st) (input_data st) (fst i) (snd i) [] (cl_body cl)) as [rb dsb] eqn:Db.
      assert (Hrb : rb <> OutOfFuel) by (intros ->; inversion H; subst; contradiction).
      (* the element is held: its own evaluation has a value, and its reads are safe by inheritance *)
      assert (Hni : mem_item i (s_inputs st) = false).
      { rewrite lookup_input_data in Ei. destruct (mem_item i (s_inputs st)); [|reflexivity].
        exfalso. now apply Hhas. }
      destruct (ag_inh _ _ _ _ _ _ AG i Hhas Hni Hpi Hpc) as (f0 & v0 & ds0 & Hown & Hsafe).
      unfold dr_own, defs_of in Hown; simpl in Hown. rewrite El in Hown.
      destruct (dr_body f0 (s_cells st, s_refs st) (input_data st) (fst i) (snd i) [] (cl_body cl)) as [r0 d0] eqn:D0.
      assert (Hr0 : r0 <> OutOfFuel) by (intros ->; inversion Hown).
      destruct (dr_body_det _ _ _ _ _ _ _ _ _ _ _ _ Db Hrb D0 Hr0) as (<- & <-).
      destruct rb as [vb|k|]; [|inversion Hown|inversion Hown].
      inversion Hown; subst ds0.
      rewrite (IHb _ _ _ _ _ _ Db I Hsafe). exact H.
    + destruct (dr_body g (s_cells st, s_refs st) (input_data st) (fst i) (snd i) [] (cl_body cl)) as [rb dsb] eqn:Db.
      assert (Hd : ds = RObj (fst i) :: dsb) by (destruct rb; inversion H; reflexivity). subst ds.
      assert (Kb : okres rb).
      { destruct rb; [exact I|inversion H; subst; exact Hk|inversion H; subst; contradiction]. }
      inversion Hs as [|? ? Hx Hrest]; subst. simpl in Hx.
      rewrite (ag_cell _ _ _ _ _ _ AG _ Hx), El, Ec.
      rewrite (IHb _ _ _ _ _ _ Db Kb Hrest). exact H.
  - (* body *)
    intros me args locs rest r ds H Hk Hs. destruct rest as [|s more]; simpl in H |- *; [exact H|].
    destruct s as [e|e h|e fc].
    + destruct (dr_expr g (defs_of st) (input_data st) me args locs e) as [ra d1] eqn:Da.
      destruct ra as [v1|k|]; [| |inversion H; subst; contradiction].
      2:{ inversion H; subst. now rewrite (IHe _ _ _ _ _ _ Da Hk Hs). }
      destruct (dr_body g (defs_of st) (input_data st) me args (locs ++ [v1]) more) as [rb d2] eqn:Db.
      inversion H; subst rb ds.
      rewrite (IHe _ _ _ _ _ _ Da I (Forall_app_l _ _ _ Hs)).
      now rewrite (IHb _ _ _ _ _ _ Db Hk (Forall_app_r _ _ _ Hs)).
    + destruct (dr_expr g (defs_of st) (input_data st) me args locs e) as [ra d1] eqn:Da.
      destruct ra as [v1|k|]; [| |inversion H; subst; contradiction].
      * destruct (dr_body g (defs_of st) (input_data st) me args (locs ++ [v1]) more) as [rb d2] eqn:Db.
        inversion H; subst rb ds.
        rewrite (IHe _ _ _ _ _ _ Da I (Forall_app_l _ _ _ Hs)).
        now rewrite (IHb _ _ _ _ _ _ Db Hk (Forall_app_r _ _ _ Hs)).
      * destruct (catchable k) eqn:Ek.
        2:{ inversion H; subst. simpl in Hk. congruence. }
        destruct (dr_expr g (defs_of st) (input_data st) me args locs h) as [rh d2] eqn:Dh.
        destruct rh as [v2|k2|]; [| |inversion H; subst; contradiction].
        -- destruct (dr_body g (defs_of st) (input_data st) me args (locs ++ [v2]) more) as [rb d3] eqn:Db.
           inversion H; subst rb ds.
           pose proof (Forall_app_l _ _ _ Hs) as S1. pose proof (Forall_app_r _ _ _ Hs) as S23.
           rewrite (IHe _ _ _ _ _ _ Da Ek S1), Ek.
           rewrite (IHe _ _ _ _ _ _ Dh I (Forall_app_l _ _ _ S23)).
           now rewrite (IHb _ _ _ _ _ _ Db Hk (Forall_app_r _ _ _ S23)).
        -- inversion H; subst.
           rewrite (IHe _ _ _ _ _ _ Da Ek (Forall_app_l _ _ _ Hs)), Ek.
           now rewrite (IHe _ _ _ _ _ _ Dh Hk (Forall_app_r _ _ _ Hs)).
    + (* SFin: a failure in it marks the reads, which are then not safe *)
      destruct (dr_expr g (defs_of st) (input_data st) me args locs e) as [ra d1] eqn:Da.
      destruct ra as [v1|k|]; [| |inversion H; subst; contradiction].
      * destruct (dr_expr g (defs_of st) (input_data st) me args locs fc) as [rc d2] eqn:Dc.
        destruct rc as [v2|k2|]; [|inversion H; subst; inversion Hs as [|? ? Hx _]; contradiction
                                  |inversion H; subst; contradiction].
        destruct (dr_body g (defs_of st) (input_data st) me args (locs ++ [v1]) more) as [rb d3] eqn:Db.
        inversion H; subst rb ds.
        pose proof (Forall_app_l _ _ _ Hs) as S1. pose proof (Forall_app_r _ _ _ Hs) as S23.
        rewrite (IHe _ _ _ _ _ _ Da I S1).
        rewrite (IHe _ _ _ _ _ _ Dc I (Forall_app_l _ _ _ S23)).
        now rewrite (IHb _ _ _ _ _ _ Db Hk (Forall_app_r _ _ _ S23)).
      * destruct (dr_expr g (defs_of st) (input_data st) me args locs fc) as [rc d2] eqn:Dc.
        destruct rc as [v2|k2|]; inversion H; subst; try contradiction;
          inversion Hs as [|? ? Hx _]; contradiction.
Qed.

(** the form used below: the own reads of a safe held element *)
Corollary locality_own st D' inp' PC PR PI f j v ds cl :
  Agree st D' inp' PC PR PI ->
  lookup_cell (s_cells st) (fst j) = Some cl -> PC (fst j) ->
  dr_own f (defs_of st) (input_data st) j = (Val v, ds) ->
  Forall (safe_rd st PC PR PI) ds ->
  dr_own f D' inp' j = (Val v, ds).
Proof.
  intros AG El Hpc H Hs. unfold dr_own in *. unfold defs_of in H; simpl in H.
  rewrite (ag_cell _ _ _ _ _ _ AG _ Hpc), El. rewrite El in H.
  destruct (dr_body f (s_cells st, s_refs st) (input_data st) (fst j) (snd j) [] (cl_body cl)) as [rb d] eqn:Db.
  destruct rb as [vb|k|]; [|inversion H|inversion H].
  assert (d = ds) by (inversion H; reflexivity). subst d.
  destruct (locality st D' inp' PC PR PI AG f) as (_ & _ & _ & LB).
  rewrite (LB _ _ _ _ _ _ Db I Hs). exact H.
Qed.
