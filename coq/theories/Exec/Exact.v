(** C08, the converse of coverage: every dependency edge into an element that
    holds a computed value is one of the reads of that element's formula
    (no spurious predecessor).  Carried through evaluation with the help of
    the coverage simulation ([sim2_all] supplies [Good] at every intermediate
    state), then through every edit. *)
From Coq Require Import List ZArith Bool Arith Lia.
From MX Require Import Exec.Model Exec.Spec Exec.Basics Exec.SpecMono Exec.Masks Exec.Sim Exec.Reads Exec.Cover
  Exec.Cover2 Exec.Sim2 Exec.Quiet Exec.Edits2.
Import ListNotations.

Definition rd_of_node (a : node) : rd :=
  match a with NItem c k => RItem (c, k) | NObj c => RObj c end.

Lemma rd_of_node_item i : rd_of_node (node_of i) = RItem i.
Proof. destruct i; reflexivity. Qed.

(** edge [a -> k] is justified: [a] is among the reads of [k]'s formula *)
Definition ExAt (st : state) (k : item) (a : node) : Prop :=
  forall f v ds, dr_own f (defs_of st) (input_data st) k = (Val v, ds) -> In (rd_of_node a) ds.

Lemma ExAt_same st st' k a :
  defs_of st' = defs_of st -> input_data st' = input_data st -> ExAt st k a -> ExAt st' k a.
Proof. intros D P H f v ds. rewrite D, P. apply H. Qed.

Definition NC (st : state) : option item := nearest_cached st (s_stack st).

(** new edges go into the nearest cached frame or into elements computed meanwhile *)
Definition exA (st st' : state) (nc : option item) : Prop :=
  forall a b, In (a, b) (s_edges st') ->
    In (a, b) (s_edges st) \/ (exists j, nc = Some j /\ b = node_of j) \/
    (exists k, b = node_of k /\ ~ has st k /\ has st' k /\ ExAt st' k a).
(** the new edges into the nearest cached frame are reads in [ds] *)
Definition exB (st st' : state) (nc : option item) (ds : list rd) : Prop :=
  forall j a, nc = Some j -> In (a, node_of j) (s_edges st') ->
    In (a, node_of j) (s_edges st) \/ In (rd_of_node a) ds.

Lemma exA_same st st' nc : s_edges st' = s_edges st -> exA st st' nc.
Proof. intros E a b H. left. now rewrite <- E. Qed.
Lemma exB_same st st' nc ds : s_edges st' = s_edges st -> exB st st' nc ds.
Proof. intros E j a _ H. left. now rewrite <- E. Qed.

Lemma has_frame' st st' k : frame st st' -> has st k -> has st' k.
Proof.
  intros (_ & _ & M & _) H. unfold has in *. destruct (lookup_data (s_data st) k) as [v|] eqn:E; [|now elim H].
  rewrite (M _ _ E). discriminate.
Qed.

Lemma exA_trans a b c nc : exA a b nc -> exA b c nc -> frame a b -> frame b c -> exA a c nc.
Proof.
  intros AB BC Fab Fbc x y H.
  destruct (frame_defs _ _ Fbc) as (D & P).
  destruct (BC x y H) as [H1|[H1|(k & -> & N & Hk & E)]].
  - destruct (AB x y H1) as [H2|[H2|(k & -> & N & Hk & E)]]; [now left|right; now left|].
    right; right. exists k. split; [reflexivity|]. split; [exact N|]. split; [eapply has_frame'; eauto|].
    eapply ExAt_same; eauto.
  - right; now left.
  - right; right. exists k. split; [reflexivity|]. split; [|split; assumption].
    intros Hh. apply N. eapply has_frame'; eauto.
Qed.

Lemma exB_app a b c nc d1 d2 : exB a b nc d1 -> exB b c nc d2 -> exB a c nc (d1 ++ d2).
Proof.
  intros AB BC j x Hn H. destruct (BC j x Hn H) as [H1|H1].
  - destruct (AB j x Hn H1) as [H2|H2]; [now left|right; apply in_or_app; now left].
  - right. apply in_or_app. now right.
Qed.

Lemma exB_incl a b nc d d' : incl d d' -> exB a b nc d -> exB a b nc d'.
Proof. intros I H j x Hn Hx. destruct (H j x Hn Hx) as [X|X]; [now left|right; now apply I]. Qed.

Definition ex_expr (f : nat) : Prop :=
  forall st args locs line e r st' me d,
    eval_expr f st args locs line e = (r, st') -> r <> OutOfFuel ->
    Good st -> s_reent st' = false -> Ctx st me d ->
    exA st st' (NC st) /\
    (r <> Err KDeep -> s_masks st' = s_masks st -> forall g me' r' ds,
       dr_expr g (defs_of st) (input_data st) me' args locs e = (r', ds) -> r' <> OutOfFuel -> exB st st' (NC st) ds).
Definition ex_args (f : nat) : Prop :=
  forall st args locs line es r st' me d,
    eval_args f st args locs line es = (r, st') -> r <> OutOfFuel ->
    Good st -> s_reent st' = false -> Ctx st me d ->
    exA st st' (NC st) /\
    (r <> Err KDeep -> s_masks st' = s_masks st -> forall g me' r' ds,
       dr_args g (defs_of st) (input_data st) me' args locs es = (r', ds) -> r' <> OutOfFuel -> exB st st' (NC st) ds).
Definition ex_node (f : nat) : Prop :=
  forall st line i r st' d,
    eval_node f st line i = (r, st') -> r <> OutOfFuel ->
    Good st -> s_reent st' = false -> d = List.length (s_stack st) - 1 ->
    exA st st' (NC st) /\
    (r <> Err KDeep -> s_masks st' = s_masks st -> forall g r' ds,
       dr_node g (defs_of st) (input_data st) i = (r', ds) -> r' <> OutOfFuel -> exB st st' (NC st) ds).
Definition ex_formula (f : nat) : Prop :=
  forall st cl i r st' d,
    eval_formula f st cl i = (r, st') -> r <> OutOfFuel ->
    Good st -> s_reent st' = false -> d = List.length (s_stack st) - 1 ->
    lookup_cell (s_cells st) (fst i) = Some cl ->
    (if cl_cached cl then lookup_data (s_data st) i else None) = None ->
    exA st st' (NC st) /\
    (r <> Err KDeep -> s_masks st' = s_masks st -> forall g r' ds,
       dr_node g (defs_of st) (input_data st) i = (r', ds) -> r' <> OutOfFuel -> exB st st' (NC st) ds).
Definition ex_body (f : nat) : Prop :=
  forall st args locs whole rest idx r st' ln me d,
    exec_body f st args locs whole rest idx = (r, st', ln) -> r <> OutOfFuel ->
    Good st -> s_reent st' = false -> Ctx st me d ->
    exA st st' (NC st) /\
    (r <> Err KDeep -> s_masks st' = s_masks st -> forall g me' r' ds,
       dr_body g (defs_of st) (input_data st) me' args locs rest = (r', ds) -> r' <> OutOfFuel -> exB st st' (NC st) ds).

Lemma NC_frame st st' : frame st st' -> NC st' = NC st.
Proof. apply nc_frame. Qed.

Lemma reent_false_of (st st' : state) (P : s_reent st = true -> s_reent st' = true) :
  s_reent st' = false -> s_reent st = false.
Proof. intros H. destruct (s_reent st) eqn:E; [|reflexivity]. rewrite (P eq_refl) in H. discriminate. Qed.

(** * The main induction *)
Lemma ex_all : forall f, ex_expr f /\ ex_args f /\ ex_node f /\ ex_formula f /\ ex_body f.
Proof.
  induction f as [|f (IHe & IHa & IHn & IHf & IHb)].
  { split; [|split; [|split; [|split]]];
      unfold ex_expr, ex_args, ex_node, ex_formula, ex_body; intros;
      match goal with H : _ = (_, _) |- _ => simpl in H; inversion H; subst; congruence end. }
  assert (SE := proj1 (sim_all f)).
  assert (SA := proj1 (proj2 (sim_all f))).
  assert (SN := proj1 (proj2 (proj2 (sim_all f)))).
  assert (SB := proj2 (proj2 (proj2 (proj2 (sim_all f))))).
  assert (S2E := proj1 (sim2_all f)).
  assert (S2A := proj1 (proj2 (sim2_all f))).
  assert (S2B := proj2 (proj2 (proj2 (proj2 (sim2_all f))))).
  assert (ME := proj1 (reent_mono_all f)).
  assert (MA := proj1 (proj2 (reent_mono_all f))).
  assert (MN := proj1 (proj2 (proj2 (reent_mono_all f)))).
  assert (MB := proj2 (proj2 (proj2 (proj2 (reent_mono_all f))))).
  split; [|split; [|split; [|split]]].
  - (* ---------------- expressions ---------------- *)
    intros st args locs line e r st' me d H Hr HG Hre HC.
    destruct e; simpl in H;
      try (inversion H; subst; split; [apply exA_same; reflexivity|intros _ _ g me' r' ds _ _; apply exB_same; reflexivity]; fail).
    + (* EBin *)
      destruct (eval_expr f st args locs line e1) as [r1 st1] eqn:E1.
      assert (Hr1 : r1 <> OutOfFuel) by (intros ->; inversion H; subst; congruence).
      destruct (SE _ _ _ _ _ _ _ E1 Hr1 (proj1 HG)) as (I1 & F1 & A1).
      destruct r1 as [va|k1|]; [| |congruence].
      2:{ inversion H; subst. destruct (IHe _ _ _ _ _ _ _ me d E1 Hr1 HG Hre HC) as (XA & XB).
          split; [exact XA|]. intros Hk Hmk g me' r' ds Hd Hr'.
          destruct g; [simpl in Hd; inversion Hd; congruence|]. simpl in Hd.
          destruct (dr_expr g (defs_of st) (input_data st) me' args locs e1) as [ra d1] eqn:Da.
          assert (Hra : ra <> OutOfFuel) by (intros ->; inversion Hd; congruence).
          pose proof (align_dr_expr _ _ _ _ _ _ _ _ _ _ (A1 ltac:(mk)) ltac:(discriminate) Hk Da Hra) as ->.
          inversion Hd; subst. eapply XB; eauto; mk. }
      destruct (eval_expr f st1 args locs line e2) as [r2 st2] eqn:E2.
      assert (Hr2 : r2 <> OutOfFuel) by (intros ->; inversion H; subst; congruence).
      assert (Hst : st' = st2) by (destruct r2; inversion H; reflexivity). subst st2.
      assert (Hre1 : s_reent st1 = false) by exact (reent_false_of st1 st' (ME _ _ _ _ _ _ _ E2) Hre).
      assert (Hre0 : s_reent st = false) by exact (reent_false_of st st1 (ME _ _ _ _ _ _ _ E1) Hre1).
      destruct (S2E _ _ _ _ _ _ _ me d E1 Hr1 HG Hre0 HC) as [X|(G1 & _)]; [congruence|].
      destruct (SE _ _ _ _ _ _ _ E2 Hr2 I1) as (I2 & F2 & A2).
      destruct (IHe _ _ _ _ _ _ _ me d E1 Hr1 HG Hre1 HC) as (XA1 & XB1).
      destruct (IHe _ _ _ _ _ _ _ me d E2 Hr2 G1 Hre (Ctx_frame _ _ _ _ F1 HC)) as (XA2 & XB2).
      destruct (frame_defs _ _ F1) as (D1 & Q1). rewrite (NC_frame _ _ F1) in XA2, XB2. rewrite D1, Q1 in XB2.
      split; [eapply exA_trans; eauto|].
      intros Hk Hmk g me' r' ds Hd Hr'.
      assert (Hk2 : r2 <> Err KDeep).
      { intros ->. inversion H; subst. now apply Hk. }
      destruct g; [simpl in Hd; inversion Hd; congruence|]. simpl in Hd.
      destruct (dr_expr g (defs_of st) (input_data st) me' args locs e1) as [ra d1] eqn:Da.
      assert (Hra : ra <> OutOfFuel) by (intros ->; inversion Hd; congruence).
      pose proof (align_dr_expr _ _ _ _ _ _ _ _ _ _ (A1 ltac:(mk)) ltac:(discriminate) ltac:(discriminate) Da Hra) as ->.
      destruct (dr_expr g (defs_of st) (input_data st) me' args locs e2) as [rb d2] eqn:Db.
      assert (Hrb : rb <> OutOfFuel) by (intros ->; inversion Hd; congruence).
      assert (ds = d1 ++ d2) by (destruct rb; inversion Hd; reflexivity). subst ds.
      eapply exB_app; [eapply XB1; eauto; first [discriminate|mk]|eapply XB2; eauto; mk].
    + (* EIfPos *)
      destruct (eval_expr f st args locs line e1) as [r1 st1] eqn:E1.
      assert (Hr1 : r1 <> OutOfFuel) by (intros ->; inversion H; subst; congruence).
      destruct (SE _ _ _ _ _ _ _ E1 Hr1 (proj1 HG)) as (I1 & F1 & A1).
      assert (Hstop : forall rr, r1 = rr -> (r, st') = (match rr with Val (VInt _) => (r, st') | Val VNone => (Err KType, st1) | x => (x, st1) end) ->
                      (match rr with Val (VInt _) => False | _ => True end) ->
                      exA st st' (NC st) /\
                      (r <> Err KDeep -> s_masks st' = s_masks st -> forall g me' r' ds,
                         dr_expr g (defs_of st) (input_data st) me' args locs (EIfPos e1 e2 e3) = (r', ds) ->
                         r' <> OutOfFuel -> exB st st' (NC st) ds)).
      { intros rr -> Hq Hn. assert (Hs : st' = st1) by (destruct rr as [[z|]|k|]; inversion Hq; try reflexivity; contradiction).
        subst st1. destruct (IHe _ _ _ _ _ _ _ me d E1 Hr1 HG Hre HC) as (XA & XB).
        split; [exact XA|]. intros Hk Hmk g me' r' ds Hd Hr'.
        destruct g; [simpl in Hd; inversion Hd; congruence|]. simpl in Hd.
        destruct (dr_expr g (defs_of st) (input_data st) me' args locs e1) as [ra d1] eqn:Da.
        assert (Hra : ra <> OutOfFuel).
        { intros ->. inversion Hd; congruence. }
        assert (Hk1 : rr <> Err KDeep).
        { intros ->. inversion Hq; subst. now apply Hk. }
        pose proof (align_dr_expr _ _ _ _ _ _ _ _ _ _ (A1 ltac:(mk)) Hr1 Hk1 Da Hra) as ->.
        destruct rr as [[z|]|k|]; [contradiction| | |congruence]; inversion Hd; subst; eapply XB; eauto; mk. }
      destruct r1 as [[z|]|k1|]; [| | |congruence].
      2:{ apply (Hstop (Val VNone) eq_refl); [inversion H; reflexivity|exact I]. }
      2:{ apply (Hstop (Err k1) eq_refl); [inversion H; reflexivity|exact I]. }
      clear Hstop.
      assert (Hb : exists eb, eval_expr f st1 args locs line eb = (r, st') /\ eb = (if Z.ltb 0 z then e2 else e3)).
      { destruct (Z.ltb 0 z); eexists; split; eauto. }
      destruct Hb as (eb & E2 & Heb).
      assert (Hre1 : s_reent st1 = false) by exact (reent_false_of st1 st' (ME _ _ _ _ _ _ _ E2) Hre).
      assert (Hre0 : s_reent st = false) by exact (reent_false_of st st1 (ME _ _ _ _ _ _ _ E1) Hre1).
      destruct (S2E _ _ _ _ _ _ _ me d E1 Hr1 HG Hre0 HC) as [X|(G1 & _)]; [congruence|].
      destruct (SE _ _ _ _ _ _ _ E2 Hr I1) as (I2 & F2 & A2).
      destruct (IHe _ _ _ _ _ _ _ me d E1 Hr1 HG Hre1 HC) as (XA1 & XB1).
      destruct (IHe _ _ _ _ _ _ _ me d E2 Hr G1 Hre (Ctx_frame _ _ _ _ F1 HC)) as (XA2 & XB2).
      destruct (frame_defs _ _ F1) as (D1 & Q1). rewrite (NC_frame _ _ F1) in XA2, XB2. rewrite D1, Q1 in XB2.
      split; [eapply exA_trans; eauto|].
      intros Hk Hmk g me' r' ds Hd Hr'.
      destruct g; [simpl in Hd; inversion Hd; congruence|]. simpl in Hd.
      destruct (dr_expr g (defs_of st) (input_data st) me' args locs e1) as [ra d1] eqn:Da.
      assert (Hra : ra <> OutOfFuel) by (intros ->; inversion Hd; congruence).
      pose proof (align_dr_expr _ _ _ _ _ _ _ _ _ _ (A1 ltac:(mk)) ltac:(discriminate) ltac:(discriminate) Da Hra) as ->.
      destruct (dr_expr g (defs_of st) (input_data st) me' args locs eb) as [rb d2] eqn:Db.
      assert (Hd' : (rb, d1 ++ d2) = (r', ds)).
      { subst eb. destruct (Z.ltb 0 z); rewrite Db in Hd; exact Hd. }
      inversion Hd'; subst r' ds.
      eapply exB_app; [eapply XB1; eauto; first [discriminate|mk]|eapply XB2; eauto; mk].
    + (* ECall *)
      destruct (eval_args f st args locs line args0) as [r1 st1] eqn:E1.
      assert (Hr1 : r1 <> OutOfFuel) by (intros ->; inversion H; subst; congruence).
      destruct (SA _ _ _ _ _ _ _ E1 Hr1 (proj1 HG)) as (I1 & F1 & A1).
      assert (Hc : s_cells st1 = s_cells st) by (apply static_cells, F1). rewrite Hc in H.
      (* the three ways of stopping after the arguments *)
      assert (Hstop : st' = st1 ->
                (forall g me' r' ds, dr_expr (S g) (defs_of st) (input_data st) me' args locs (ECall c args0) = (r', ds) ->
                   r' <> OutOfFuel -> r <> Err KDeep -> s_masks st' = s_masks st ->
                   exists ra, dr_args g (defs_of st) (input_data st) me' args locs args0 = (ra, ds) /\ ra <> OutOfFuel) ->
                exA st st' (NC st) /\
                (r <> Err KDeep -> s_masks st' = s_masks st -> forall g me' r' ds,
                   dr_expr g (defs_of st) (input_data st) me' args locs (ECall c args0) = (r', ds) ->
                   r' <> OutOfFuel -> exB st st' (NC st) ds)).
      { intros -> Hsh. destruct (IHa _ _ _ _ _ _ _ me d E1 Hr1 HG Hre HC) as (XA & XB).
        split; [exact XA|]. intros Hk Hmk g me' r' ds Hd Hr'.
        destruct g; [simpl in Hd; inversion Hd; congruence|].
        destruct (Hsh _ _ _ _ Hd Hr' Hk Hmk) as (ra & Da & Hra).
        assert (Hk1 : r1 <> Err KDeep).
        { intros ->. inversion H; subst. now apply Hk. }
        eapply XB; eauto; mk. }
      destruct r1 as [vs|k1|]; [| |congruence].
      2:{ inversion H; subst. apply Hstop; [reflexivity|].
          intros g me' r' ds Hd Hr' Hk Hmk. simpl in Hd.
          destruct (dr_args g (defs_of st) (input_data st) me' args locs args0) as [ra d1] eqn:Da.
          assert (Hra : ra <> OutOfFuel) by (intros ->; inversion Hd; congruence).
          pose proof (align_dr_args _ _ _ _ _ _ _ _ _ _ (A1 ltac:(mk)) ltac:(discriminate) ltac:(intros E; inversion E; subst; now apply Hk) Da Hra) as ->.
          inversion Hd; subst. eexists; split; [reflexivity|discriminate]. }
      destruct (lookup_cell (s_cells st) c) as [cl|] eqn:El.
      2:{ inversion H; subst. apply Hstop; [reflexivity|].
          intros g me' r' ds Hd Hr' Hk Hmk. simpl in Hd.
          destruct (dr_args g (defs_of st) (input_data st) me' args locs args0) as [ra d1] eqn:Da.
          assert (Hra : ra <> OutOfFuel) by (intros ->; inversion Hd; congruence).
          pose proof (align_dr_args _ _ _ _ _ _ _ _ _ _ (A1 ltac:(mk)) ltac:(discriminate) ltac:(discriminate) Da Hra) as ->.
          unfold defs_of in Hd; simpl in Hd. rewrite El in Hd.
          inversion Hd; subst. eexists; split; [reflexivity|discriminate]. }
      destruct (bind_pos cl vs) as [kk|] eqn:Eb.
      2:{ inversion H; subst. apply Hstop; [reflexivity|].
          intros g me' r' ds Hd Hr' Hk Hmk. simpl in Hd.
          destruct (dr_args g (defs_of st) (input_data st) me' args locs args0) as [ra d1] eqn:Da.
          assert (Hra : ra <> OutOfFuel) by (intros ->; inversion Hd; congruence).
          pose proof (align_dr_args _ _ _ _ _ _ _ _ _ _ (A1 ltac:(mk)) ltac:(discriminate) ltac:(discriminate) Da Hra) as ->.
          unfold defs_of in Hd; simpl in Hd. rewrite El, Eb in Hd.
          inversion Hd; subst. eexists; split; [reflexivity|discriminate]. }
      clear Hstop.
      assert (Hre1 : s_reent st1 = false) by exact (reent_false_of st1 st' (MN _ _ _ _ _ H) Hre).
      assert (Hre0 : s_reent st = false) by exact (reent_false_of st st1 (MA _ _ _ _ _ _ _ E1) Hre1).
      destruct (S2A _ _ _ _ _ _ _ me d E1 Hr1 HG Hre0 HC) as [X|(G1 & _)]; [congruence|].
      destruct (SN _ _ _ _ _ H Hr I1) as (I2 & F2 & A2).
      destruct (IHa _ _ _ _ _ _ _ me d E1 Hr1 HG Hre1 HC) as (XA1 & XB1).
      destruct (IHn _ _ _ _ _ d H Hr G1 Hre (Ctx_depth _ _ _ (Ctx_frame _ _ _ _ F1 HC))) as (XA2 & XB2).
      destruct (frame_defs _ _ F1) as (D1 & Q1). rewrite (NC_frame _ _ F1) in XA2, XB2. rewrite D1, Q1 in XB2.
      split; [eapply exA_trans; eauto|].
      intros Hk Hmk g me' r' ds Hd Hr'.
      destruct g; [simpl in Hd; inversion Hd; congruence|]. simpl in Hd.
      destruct (dr_args g (defs_of st) (input_data st) me' args locs args0) as [ra d1] eqn:Da.
      assert (Hra : ra <> OutOfFuel) by (intros ->; inversion Hd; congruence).
      pose proof (align_dr_args _ _ _ _ _ _ _ _ _ _ (A1 ltac:(mk)) ltac:(discriminate) ltac:(discriminate) Da Hra) as ->.
      unfold defs_of in Hd; simpl in Hd. rewrite El, Eb in Hd.
      destruct (dr_node g (s_cells st, s_refs st) (input_data st) (c, kk)) as [rb d2] eqn:Db.
      inversion Hd; subst r' ds.
      eapply exB_app; [eapply XB1; eauto; first [discriminate|mk]|eapply XB2; eauto; mk].
    + (* ERefA *)
      destruct (lookup_ref (s_refs st) r0) as [[sp v]|]; inversion H; subst;
        (split; [apply exA_same; reflexivity|intros _ _ g me' r' ds _ _; apply exB_same; reflexivity]).
  - (* ---------------- argument lists ---------------- *)
    intros st args locs line es r st' me d H Hr HG Hre HC.
    destruct es as [|e rest]; simpl in H.
    { inversion H; subst. split; [apply exA_same; reflexivity|intros _ _ g me' r' ds _ _; apply exB_same; reflexivity]. }
    destruct (eval_expr f st args locs line e) as [r1 st1] eqn:E1.
    assert (Hr1 : r1 <> OutOfFuel) by (intros ->; inversion H; subst; congruence).
    destruct (SE _ _ _ _ _ _ _ E1 Hr1 (proj1 HG)) as (I1 & F1 & A1).
    destruct r1 as [v1|k1|]; [| |congruence].
    2:{ inversion H; subst. destruct (IHe _ _ _ _ _ _ _ me d E1 Hr1 HG Hre HC) as (XA & XB).
        split; [exact XA|]. intros Hk Hmk g me' r' ds Hd Hr'.
        destruct g; [simpl in Hd; inversion Hd; congruence|]. simpl in Hd.
        destruct (dr_expr g (defs_of st) (input_data st) me' args locs e) as [ra d1] eqn:Da.
        assert (Hra : ra <> OutOfFuel) by (intros ->; inversion Hd; congruence).
        pose proof (align_dr_expr _ _ _ _ _ _ _ _ _ _ (A1 ltac:(mk)) ltac:(discriminate) ltac:(intros E; inversion E; subst; now apply Hk) Da Hra) as ->.
        inversion Hd; subst. eapply XB; eauto; first [mk|intros E; inversion E; subst; now apply Hk]. }
    destruct (eval_args f st1 args locs line rest) as [r2 st2] eqn:E2.
    assert (Hr2 : r2 <> OutOfFuel) by (intros ->; inversion H; subst; congruence).
    assert (Hst : st' = st2) by (destruct r2; inversion H; reflexivity). subst st2.
    assert (Hre1 : s_reent st1 = false) by exact (reent_false_of st1 st' (MA _ _ _ _ _ _ _ E2) Hre).
    assert (Hre0 : s_reent st = false) by exact (reent_false_of st st1 (ME _ _ _ _ _ _ _ E1) Hre1).
    destruct (S2E _ _ _ _ _ _ _ me d E1 Hr1 HG Hre0 HC) as [X|(G1 & _)]; [congruence|].
    destruct (SA _ _ _ _ _ _ _ E2 Hr2 I1) as (I2 & F2 & A2).
    destruct (IHe _ _ _ _ _ _ _ me d E1 Hr1 HG Hre1 HC) as (XA1 & XB1).
    destruct (IHa _ _ _ _ _ _ _ me d E2 Hr2 G1 Hre (Ctx_frame _ _ _ _ F1 HC)) as (XA2 & XB2).
    destruct (frame_defs _ _ F1) as (D1 & Q1). rewrite (NC_frame _ _ F1) in XA2, XB2. rewrite D1, Q1 in XB2.
    split; [eapply exA_trans; eauto|].
    intros Hk Hmk g me' r' ds Hd Hr'.
    assert (Hk2 : r2 <> Err KDeep).
    { intros ->. inversion H; subst. now apply Hk. }
    destruct g; [simpl in Hd; inversion Hd; congruence|]. simpl in Hd.
    destruct (dr_expr g (defs_of st) (input_data st) me' args locs e) as [ra d1] eqn:Da.
    assert (Hra : ra <> OutOfFuel) by (intros ->; inversion Hd; congruence).
    pose proof (align_dr_expr _ _ _ _ _ _ _ _ _ _ (A1 ltac:(mk)) ltac:(discriminate) ltac:(discriminate) Da Hra) as ->.
    destruct (dr_args g (defs_of st) (input_data st) me' args locs rest) as [rb d2] eqn:Db.
    assert (Hrb : rb <> OutOfFuel) by (intros ->; inversion Hd; congruence).
    assert (ds = d1 ++ d2) by (destruct rb; inversion Hd; reflexivity). subst ds.
    eapply exB_app; [eapply XB1; eauto; first [discriminate|mk]|eapply XB2; eauto; mk].
  - (* ---------------- element requested from a formula ---------------- *)
    intros st line i r st' d H Hr HG Hre Hdd. simpl in H.
    destruct (lookup_cell (s_cells st) (fst i)) as [cl|] eqn:El.
    2:{ inversion H; subst. split; [apply exA_same; reflexivity|intros _ _ g r' ds _ _; apply exB_same; reflexivity]. }
    destruct (if cl_cached cl then lookup_data (s_data st) i else None) as [v|] eqn:Eh; [|eapply IHf; eauto].
    destruct (cl_cached cl) eqn:Ec; [|discriminate].
    unfold NC. destruct (nearest_cached st (s_stack st)) as [jc|] eqn:En; inversion H; subst.
    2:{ split; [apply exA_same; reflexivity|intros _ _ g r' ds _ _; apply exB_same; reflexivity]. }
    split.
    + intros a b He. apply g_add_edge_edges in He as [He|He]; [|now left].
      right; left. exists jc. split; [reflexivity|]. congruence.
    + intros _ _ g r' ds Hd Hr' j a Hj He. inversion Hj; subst j.
      apply g_add_edge_edges in He as [He|He]; [|now left]. right.
      assert (a = node_of i) by congruence. subst a. rewrite rd_of_node_item.
      destruct g; [simpl in Hd; inversion Hd; congruence|]. simpl in Hd.
      unfold defs_of in Hd; simpl in Hd. rewrite El, Ec in Hd.
      destruct (lookup_data (input_data st) i); [inversion Hd; now left|].
      destruct (dr_body g (s_cells st, s_refs st) (input_data st) (fst i) (snd i) [] (cl_body cl)) as [[w|k|] dd];
        inversion Hd; now left.
  - (* ---------------- formula execution ---------------- *)
    intros st cl i r st' d H Hr HG Hre Hdd El Em. pose proof H as H0. simpl in H.
    destruct (Nat.ltb (s_maxdepth st) (List.length (s_stack st))).
    { inversion H; subst. split; [apply exA_same; reflexivity|intros Hk; now elim Hk]. }
    set (st1 := upd_reent (upd_log (upd_stack st (i :: s_stack st)) (i :: s_log st))
                          (s_reent st || mem_item i (s_stack st))) in *.
    destruct (exec_body f st1 (snd i) [] (cl_body cl) (cl_body cl) 0) as [[rb st2] ln] eqn:Eb.
    assert (Hrb : rb <> OutOfFuel) by (intros ->; inversion H; subst; congruence).
    assert (Hflag2 : s_reent st2 = true -> s_reent st' = true).
    { intros F2. destruct rb as [v|k|]; [|inversion H; subst; now rewrite rollback_frame_reent|congruence].
      destruct (tainted st2).
      { destruct v as [z|]; [|destruct (cl_allow_none cl)]; inversion H; subst;
          rewrite ?pop_tainted_reent, ?rollback_frame_reent; exact F2. }
      destruct (cl_cached cl).
      - unfold store_value in H.
        destruct v as [z|]; [|destruct (cl_allow_none cl)]; inversion H; subst;
          rewrite ?pop_frame_reent, ?rollback_frame_reent; exact F2.
      - destruct v as [z|]; [|destruct (cl_allow_none cl)]; inversion H; subst;
          rewrite ?pop_frame_reent, ?rollback_frame_reent; exact F2. }
    assert (R2 : s_reent st2 = false) by exact (reent_false_of st2 st' Hflag2 Hre).
    assert (R1 : s_reent st1 = false) by exact (reent_false_of st1 st2 (MB _ _ _ _ _ _ _ _ _ Eb) R2).
    assert (Hre0 : s_reent st = false /\ mem_item i (s_stack st) = false).
    { unfold st1 in R1. simpl in R1. now apply orb_false_iff in R1. }
    destruct Hre0 as (Hre0 & Ein).
    assert (Hnin : ~ In i (s_stack st)) by (intros Hc; apply mem_item_In in Hc; congruence).
    pose proof (Good_push st i cl HG El Em) as G1. fold st1 in G1.
    assert (HC1 : Ctx st1 (fst i) (List.length (s_stack st))).
    { exists (snd i), (s_stack st). split; [destruct i; reflexivity|reflexivity]. }
    destruct (S2B _ _ _ _ _ _ _ _ _ (fst i) (List.length (s_stack st)) Eb Hrb G1 R1 HC1) as [X|(G2 & _)]; [congruence|].
    destruct (proj1 (proj2 (proj2 (proj2 (sim_all (S f))))) _ _ _ _ _ H0 Hr (proj1 HG) El Em) as (I' & F' & A').
    destruct (SB _ _ _ _ _ _ _ _ _ Eb Hrb (proj1 G1)) as (I2 & F12 & A2).
    pose proof F12 as (S2 & K2 & M2 & Q2).
    change (static st1) with (static st) in S2. change (s_stack st1) with (i :: s_stack st) in K2.
    change (s_data st1) with (s_data st) in M2. change (input_data st1) with (input_data st) in Q2.
    assert (Hcells2 : s_cells st2 = s_cells st) by (now apply static_cells).
    destruct (frame_defs _ _ F') as (D' & Q').
    assert (D2 : defs_of st2 = defs_of st) by (now apply static_defs).
    destruct (IHb _ _ _ _ _ _ _ _ _ (fst i) (List.length (s_stack st)) Eb Hrb G1 R2 HC1) as (XA & XB).
    change (defs_of st1) with (defs_of st) in XB. change (input_data st1) with (input_data st) in XB.
    assert (Hnc1 : NC st1 = if cl_cached cl then Some i else NC st).
    { unfold NC. change (s_stack st1) with (i :: s_stack st). simpl.
      change (is_cached st1 (fst i)) with (is_cached st (fst i)).
      unfold is_cached. rewrite El.
      destruct (cl_cached cl); [reflexivity|]. apply nearest_cached_cells. reflexivity. }
    rewrite Hnc1 in XA, XB.
    assert (Hnc2 : nearest_cached st2 (s_stack st) = NC st) by (apply nearest_cached_cells; exact Hcells2).
    (* no edge enters the node of the requested element before it runs *)
    assert (Hfresh : cl_cached cl = true -> forall a, ~ In (a, node_of i) (s_edges st)).
    { intros Ec a Ha. destruct HG as (_ & C & _).
      destruct (cv_edge _ C _ _ Ha) as (_ & Hn). destruct (cv_items _ C i Hn) as (_ & [Hh|Hs]).
      - rewrite Ec in Em. unfold has in Hh. congruence.
      - exact (Hnin Hs). }
    (* elements computed during the body stay computed, with the same reads *)
    assert (Hkeep : forall st3, s_data st3 = s_data st2 \/ (exists v, s_data st3 = set_data (s_data st2) i v) ->
              forall k, has st2 k -> has st3 k).
    { intros st3 [E|(v & E)] k Hk; unfold has in *; rewrite E; [exact Hk|].
      destruct (item_eqb k i) eqn:Ei.
      - apply item_eqb_eq in Ei. subst. rewrite lookup_set_same. discriminate.
      - apply item_eqb_neq in Ei. now rewrite lookup_set_other. }
    assert (HexAt : forall k a, ExAt st2 k a -> ExAt st' k a).
    { intros k a. apply ExAt_same; [now rewrite D', D2|now rewrite Q', Q2]. }
    (* the nearest cached caller holds no value *)
    assert (Hjc : forall jc, NC st = Some jc -> In jc (s_stack st) /\ ~ has st2 jc /\ jc <> i).
    { intros jc En. destruct (nearest_cached_in _ _ _ En) as (Hin & Hc). split; [exact Hin|]. split.
      - destruct G2 as (_ & _ & SO2). intros Hh. apply Hh. apply SO2; [rewrite K2; now right|].
        unfold is_cached. rewrite Hcells2. exact Hc.
      - intros ->. exact (Hnin Hin). }
    (* --- leaving with an error (or a refused None) --- *)
    assert (Rollback : forall ln0 s', s_edges s' = s_edges (rollback_frame st2 ln0) ->
              s_data s' = s_data (rollback_frame st2 ln0) -> st' = s' ->
              exA st st' (NC st) /\
              (forall g r' ds, dr_node g (defs_of st) (input_data st) i = (r', ds) -> r' <> OutOfFuel ->
                 (cl_cached cl = false -> forall g0 d0 rb', dr_body g0 (defs_of st) (input_data st) (fst i) (snd i) [] (cl_body cl) = (rb', d0) ->
                    rb' <> OutOfFuel -> exB st1 st2 (NC st) d0) ->
                 exB st st' (NC st) ds)).
    { intros ln0 s' Ee Ed ->.
      destruct (rollback_frame_graph st2 i (s_stack st) ln0 K2 (cv_edge _ (proj1 (proj2 G2)))) as (RE & _).
      destruct (rollback_frame_fields st2 ln0) as (_ & FD0 & _).
      assert (FD : s_data s' = s_data st2) by congruence.
      split.
      - intros a b He. rewrite Ee in He. apply RE in He as (He & _ & Hb). simpl in Hb.
        destruct (XA a b He) as [X|[(j & Ej & ->)|(k & -> & N & Hk & E)]]; [now left| |].
        + destruct (cl_cached cl); [inversion Ej; subst j; now elim Hb|]. right; left. now exists j.
        + right; right. exists k. split; [reflexivity|]. split; [exact N|].
          split; [apply (Hkeep _ (or_introl FD)); exact Hk|now apply HexAt].
      - intros g r' ds Hd Hr' Hbody j a Hj He. rewrite Ee in He. apply RE in He as (He & _ & _).
        destruct (Hjc j Hj) as (Hin & Hnh & Hne).
        destruct (XA a _ He) as [X|[(j' & Ej & Eq)|(k & Eq & N & Hk & E)]]; [now left| |].
        + destruct (cl_cached cl) eqn:Ec.
          * inversion Ej; subst j'. apply node_of_inj in Eq. contradiction.
          * destruct g; [simpl in Hd; inversion Hd; congruence|]. simpl in Hd.
            unfold defs_of in Hd; simpl in Hd. rewrite El, Ec in Hd.
            destruct (dr_body g (s_cells st, s_refs st) (input_data st) (fst i) (snd i) [] (cl_body cl)) as [rg dg] eqn:Dg.
            assert (Hdg : ds = RObj (fst i) :: dg /\ rg <> OutOfFuel).
            { destruct rg; inversion Hd; subst; split; auto; try discriminate. }
            destruct Hdg as (-> & Hrg).
            destruct (Hbody eq_refl g dg rg Dg Hrg j a Hj He) as [X|X]; [now left|right; now right].
        + apply node_of_inj in Eq. subst k. contradiction. }
    destruct rb as [v|kb|]; [| |congruence].
    2:{ assert (Hs0 : st' = rollback_frame st2 ln) by (inversion H; reflexivity).
        assert (Hr0 : r = Err kb) by (inversion H; reflexivity).
        destruct (Rollback ln _ eq_refl eq_refl Hs0) as (RA & RB).
        split; [exact RA|]. intros Hk Hmk g r' ds Hd Hr'. apply (RB g r' ds Hd Hr').
        intros Ec g0 d0 rb' Db Hrb'. rewrite Ec in XB. eapply XB; eauto; first [mk|rewrite <- Hr0; exact Hk]. }
    destruct (tainted st2) eqn:Et.
    { (* returned, not kept: the graph changes as in a rollback *)
      assert (Hcase : (r, st') = (Err KNone, rollback_frame st2 0) \/ (r, st') = (Val v, pop_tainted st2)).
      { destruct v; [right; now rewrite <- H|]. destruct (cl_allow_none cl); [right|left]; now rewrite <- H. }
      assert (RAB : exA st st' (NC st) /\
              (forall g r' ds, dr_node g (defs_of st) (input_data st) i = (r', ds) -> r' <> OutOfFuel ->
                 (cl_cached cl = false -> forall g0 d0 rb', dr_body g0 (defs_of st) (input_data st) (fst i) (snd i) [] (cl_body cl) = (rb', d0) ->
                    rb' <> OutOfFuel -> exB st1 st2 (NC st) d0) ->
                 exB st st' (NC st) ds)).
      { destruct Hcase as [H'|H'].
        - assert (Hs0 : st' = rollback_frame st2 0) by (inversion H'; reflexivity).
          exact (Rollback 0 _ eq_refl eq_refl Hs0).
        - assert (Hs0 : st' = pop_tainted st2) by (inversion H'; reflexivity).
          exact (Rollback 0 (pop_tainted st2) eq_refl eq_refl Hs0). }
      destruct RAB as (RA & RB).
      assert (Hm2 : s_masks st' = s_masks st2).
      { destruct Hcase as [H'|H']; inversion H'; subst; [apply rollback_frame_masks|].
        unfold pop_tainted; simpl; apply rollback_frame_masks. }
      split; [exact RA|]. intros Hk Hmk g r' ds Hd Hr'. apply (RB g r' ds Hd Hr').
      intros Ec g0 d0 rb' Db Hrb'. rewrite Ec in XB. eapply XB; eauto; first [discriminate|mk]. }
    destruct (cl_cached cl) eqn:Ec.
    + (* cached *)
      assert (Hcase : (v = VNone /\ cl_allow_none cl = false) \/
                      (store_value st2 cl i v = (Val v, upd_data st2 (set_data (s_data st2) i v)) /\
                       none_check cl v = Val v)).
      { unfold store_value, none_check. destruct v; [now right|].
        destruct (cl_allow_none cl); [now right|now left]. }
      destruct Hcase as [(-> & Ea)|(Hs & Hnc)].
      * unfold store_value in H. rewrite Ea in H. inversion H; subst r st'.
        destruct (Rollback 0 _ eq_refl eq_refl eq_refl) as (RA & RB).
        split; [exact RA|]. intros Hk Hmk g r' ds Hd Hr'. apply (RB g r' ds Hd Hr'). intros Ec'; discriminate.
      * rewrite Hs in H. inversion H; subst r st'. clear H.
        set (st3 := upd_data st2 (set_data (s_data st2) i v)) in *.
        assert (K3 : s_stack st3 = i :: s_stack st) by exact K2.
        destruct (pop_frame_graph st3 i (s_stack st) K3) as (PE & _).
        destruct (pop_frame_fields st3) as (_ & FD & _).
        assert (Hc3 : is_cached st3 (fst i) = true).
        { unfold is_cached. change (s_cells st3) with (s_cells st2). now rewrite Hcells2, El. }
        assert (Hnc3 : nearest_cached st3 (s_stack st) = NC st) by (unfold NC; apply nearest_cached_cells; exact Hcells2).
        unfold pop_src in PE. rewrite Hc3, Hnc3 in PE.
        assert (Hhas' : forall k, has st2 k -> has (pop_frame st3) k).
        { apply Hkeep. right. exists v. exact FD. }
        assert (Hhasi : has (pop_frame st3) i).
        { unfold has. rewrite FD. change (s_data st3) with (set_data (s_data st2) i v). rewrite lookup_set_same. discriminate. }
        assert (Hnhi : ~ has st i) by (unfold has; congruence).
        (* every edge into the new element is one of its reads *)
        assert (Hown : forall a, In (a, node_of i) (s_edges st2) -> ExAt (pop_frame st3) i a).
        { intros a Ha fo vo dso Ho. rewrite D', Q' in Ho. unfold dr_own in Ho.
          unfold defs_of in Ho; simpl in Ho. rewrite El in Ho.
          destruct (dr_body fo (s_cells st, s_refs st) (input_data st) (fst i) (snd i) [] (cl_body cl)) as [[vb|kb|] db] eqn:Db;
            [|inversion Ho|inversion Ho].
          assert (db = dso) by (inversion Ho; reflexivity). subst db.
          destruct (XB ltac:(discriminate) (body_clean_masks _ _ _ _ _ _ _ _ _ _ Eb Et) fo (fst i) (Val vb) dso Db ltac:(discriminate) i a eq_refl Ha) as [X|X]; [|exact X].
          exfalso. exact (Hfresh eq_refl a X). }
        split.
        -- intros a b He. apply PE in He as [He|(jc & En & He)].
           ++ change (s_edges st3) with (s_edges st2) in He.
              destruct (XA a b He) as [X|[(j & Ej & ->)|(k & -> & N & Hk & E)]]; [now left| |].
              ** inversion Ej; subst j. right; right. exists i. split; [reflexivity|]. split; [exact Hnhi|].
                 split; [exact Hhasi|now apply Hown].
              ** right; right. exists k. split; [reflexivity|]. split; [exact N|].
                 split; [now apply Hhas'|now apply HexAt].
           ++ right; left. exists jc. split; [exact En|]. congruence.
        -- intros _ _ g r' ds Hd Hr' j a Hj He. destruct (Hjc j Hj) as (Hin & Hnh & Hne).
           apply PE in He as [He|(jc & En & He)].
           ++ change (s_edges st3) with (s_edges st2) in He.
              destruct (XA a _ He) as [X|[(j' & Ej & Eq)|(k & Eq & N & Hk & E)]]; [now left| |].
              ** inversion Ej; subst j'. apply node_of_inj in Eq. contradiction.
              ** apply node_of_inj in Eq. subst k. contradiction.
           ++ right. assert (a = node_of i) by congruence. subst a. rewrite rd_of_node_item.
              destruct g; [simpl in Hd; inversion Hd; congruence|]. simpl in Hd.
              unfold defs_of in Hd; simpl in Hd. rewrite El, Ec in Hd.
              destruct (lookup_data (input_data st) i); [inversion Hd; now left|].
              destruct (dr_body g (s_cells st, s_refs st) (input_data st) (fst i) (snd i) [] (cl_body cl)) as [[w|k|] dd];
                inversion Hd; now left.
    + (* uncached *)
      assert (Hcase : (v = VNone /\ cl_allow_none cl = false /\ (r, st') = (Err KNone, rollback_frame st2 0)) \/
                      (r, st') = (Val v, pop_frame st2)).
      { destruct v; [right; now rewrite <- H|].
        destruct (cl_allow_none cl); [right; now rewrite <- H|left; repeat split; now rewrite <- H]. }
      destruct Hcase as [(-> & Ea & H')|H']; inversion H'; subst r st'; clear H' H.
      { destruct (Rollback 0 _ eq_refl eq_refl eq_refl) as (RA & RB).
        split; [exact RA|]. intros Hk Hmk g r' ds Hd Hr'. apply (RB g r' ds Hd Hr').
        intros _ g0 d0 rb' Db Hrb'. eapply XB; eauto; first [discriminate|mk]. }
      destruct (pop_frame_graph st2 i (s_stack st) K2) as (PE & _).
      destruct (pop_frame_fields st2) as (_ & FD & _).
      assert (Hc2 : is_cached st2 (fst i) = false).
      { unfold is_cached. now rewrite Hcells2, El. }
      unfold pop_src in PE. rewrite Hc2, Hnc2 in PE.
      assert (Hhas' : forall k, has st2 k -> has (pop_frame st2) k).
      { apply Hkeep. now left. }
      split.
      * intros a b He. apply PE in He as [He|(jc & En & He)].
        -- destruct (XA a b He) as [X|[(j & Ej & ->)|(k & -> & N & Hk & E)]]; [now left| |].
           ++ right; left. now exists j.
           ++ right; right. exists k. split; [reflexivity|]. split; [exact N|].
              split; [now apply Hhas'|now apply HexAt].
        -- right; left. exists jc. split; [exact En|]. congruence.
      * intros _ _ g r' ds Hd Hr' j a Hj He.
        destruct g; [simpl in Hd; inversion Hd; congruence|]. simpl in Hd.
        unfold defs_of in Hd; simpl in Hd. rewrite El, Ec in Hd.
        destruct (dr_body g (s_cells st, s_refs st) (input_data st) (fst i) (snd i) [] (cl_body cl)) as [rg dg] eqn:Dg.
        assert (Hdg : ds = RObj (fst i) :: dg /\ rg <> OutOfFuel).
        { destruct rg; inversion Hd; subst; split; auto; try discriminate. }
        destruct Hdg as (-> & Hrg).
        apply PE in He as [He|(jc & En & He)].
        -- destruct (XB ltac:(discriminate) (body_clean_masks _ _ _ _ _ _ _ _ _ _ Eb Et) g (fst i) rg dg Dg Hrg j a Hj He) as [X|X]; [now left|right; now right].
        -- right. left. assert (a = NObj (fst i)) by congruence. subst a. reflexivity.
  - (* ---------------- statements ---------------- *)
    intros st args locs whole rest idx r st' ln me d H Hr HG Hre HC.
    destruct rest as [|s more]; simpl in H.
    { inversion H; subst. split; [apply exA_same; reflexivity|intros _ _ g me' r' ds _ _; apply exB_same; reflexivity]. }
    destruct s as [e|e h|e fc].
    + (* SAssign *)
      destruct (eval_expr f st args locs (stmt_line whole idx) e) as [r1 st1] eqn:E1.
      assert (Hr1 : r1 <> OutOfFuel) by (intros ->; inversion H; subst; congruence).
      destruct (SE _ _ _ _ _ _ _ E1 Hr1 (proj1 HG)) as (I1 & F1 & A1).
      destruct r1 as [v1|k1|]; [| |congruence].
      2:{ inversion H; subst. destruct (IHe _ _ _ _ _ _ _ me d E1 Hr1 HG Hre HC) as (XA & XB).
          split; [exact XA|]. intros Hk Hmk g me' r' ds Hd Hr'.
          destruct g; [simpl in Hd; inversion Hd; congruence|]. simpl in Hd.
          destruct (dr_expr g (defs_of st) (input_data st) me' args locs e) as [ra d1] eqn:Da.
          assert (Hra : ra <> OutOfFuel) by (intros ->; inversion Hd; congruence).
          pose proof (align_dr_expr _ _ _ _ _ _ _ _ _ _ (A1 ltac:(mk)) ltac:(discriminate) Hk Da Hra) as ->.
          inversion Hd; subst. eapply XB; eauto; mk. }
      assert (Hre1 : s_reent st1 = false) by exact (reent_false_of st1 st' (MB _ _ _ _ _ _ _ _ _ H) Hre).
      assert (Hre0 : s_reent st = false) by exact (reent_false_of st st1 (ME _ _ _ _ _ _ _ E1) Hre1).
      destruct (S2E _ _ _ _ _ _ _ me d E1 Hr1 HG Hre0 HC) as [X|(G1 & _)]; [congruence|].
      destruct (SB _ _ _ _ _ _ _ _ _ H Hr I1) as (I2 & F2 & A2).
      destruct (IHe _ _ _ _ _ _ _ me d E1 Hr1 HG Hre1 HC) as (XA1 & XB1).
      destruct (IHb _ _ _ _ _ _ _ _ _ me d H Hr G1 Hre (Ctx_frame _ _ _ _ F1 HC)) as (XA2 & XB2).
      destruct (frame_defs _ _ F1) as (D1 & Q1). rewrite (NC_frame _ _ F1) in XA2, XB2. rewrite D1, Q1 in XB2.
      split; [eapply exA_trans; eauto|].
      intros Hk Hmk g me' r' ds Hd Hr'.
      destruct g; [simpl in Hd; inversion Hd; congruence|]. simpl in Hd.
      destruct (dr_expr g (defs_of st) (input_data st) me' args locs e) as [ra d1] eqn:Da.
      assert (Hra : ra <> OutOfFuel) by (intros ->; inversion Hd; congruence).
      pose proof (align_dr_expr _ _ _ _ _ _ _ _ _ _ (A1 ltac:(mk)) ltac:(discriminate) ltac:(discriminate) Da Hra) as ->.
      destruct (dr_body g (defs_of st) (input_data st) me' args (locs ++ [v1]) more) as [rb d2] eqn:Db.
      inversion Hd; subst r' ds.
      eapply exB_app; [eapply XB1; eauto; first [discriminate|mk]|eapply XB2; eauto; mk].
    + (* STry *)
      destruct (eval_expr f st args locs (stmt_line whole idx + 1) e) as [r1 st1] eqn:E1.
      assert (Hr1 : r1 <> OutOfFuel) by (intros ->; inversion H; subst; congruence).
      destruct (SE _ _ _ _ _ _ _ E1 Hr1 (proj1 HG)) as (I1 & F1 & A1).
      destruct (frame_defs _ _ F1) as (D1 & Q1).
      destruct r1 as [v1|k1|]; [| |congruence].
      * assert (Hre1 : s_reent st1 = false) by exact (reent_false_of st1 st' (MB _ _ _ _ _ _ _ _ _ H) Hre).
        assert (Hre0 : s_reent st = false) by exact (reent_false_of st st1 (ME _ _ _ _ _ _ _ E1) Hre1).
        destruct (S2E _ _ _ _ _ _ _ me d E1 Hr1 HG Hre0 HC) as [X|(G1 & _)]; [congruence|].
        destruct (SB _ _ _ _ _ _ _ _ _ H Hr I1) as (I2 & F2 & A2).
        destruct (IHe _ _ _ _ _ _ _ me d E1 Hr1 HG Hre1 HC) as (XA1 & XB1).
        destruct (IHb _ _ _ _ _ _ _ _ _ me d H Hr G1 Hre (Ctx_frame _ _ _ _ F1 HC)) as (XA2 & XB2).
        rewrite (NC_frame _ _ F1) in XA2, XB2. rewrite D1, Q1 in XB2.
        split; [eapply exA_trans; eauto|].
        intros Hk Hmk g me' r' ds Hd Hr'.
        destruct g; [simpl in Hd; inversion Hd; congruence|]. simpl in Hd.
        destruct (dr_expr g (defs_of st) (input_data st) me' args locs e) as [ra d1] eqn:Da.
        assert (Hra : ra <> OutOfFuel) by (intros ->; inversion Hd; congruence).
        pose proof (align_dr_expr _ _ _ _ _ _ _ _ _ _ (A1 ltac:(mk)) ltac:(discriminate) ltac:(discriminate) Da Hra) as ->.
        destruct (dr_body g (defs_of st) (input_data st) me' args (locs ++ [v1]) more) as [rb d2] eqn:Db.
        inversion Hd; subst r' ds.
        eapply exB_app; [eapply XB1; eauto; first [discriminate|mk]|eapply XB2; eauto; mk].
      * destruct (catchable k1) eqn:Ek.
        2:{ inversion H; subst. destruct (IHe _ _ _ _ _ _ _ me d E1 Hr1 HG Hre HC) as (XA & XB).
            split; [exact XA|]. intros Hk Hmk g me' r' ds Hd Hr'.
            destruct g; [simpl in Hd; inversion Hd; congruence|]. simpl in Hd.
            destruct (dr_expr g (defs_of st) (input_data st) me' args locs e) as [ra d1] eqn:Da.
            assert (Hra : ra <> OutOfFuel) by (intros ->; inversion Hd; congruence).
            pose proof (align_dr_expr _ _ _ _ _ _ _ _ _ _ (A1 ltac:(mk)) ltac:(discriminate) Hk Da Hra) as ->.
            rewrite Ek in Hd. inversion Hd; subst. eapply XB; eauto; mk. }
        assert (Hk1 : @Err val k1 <> Err KDeep) by (intros E; inversion E; subst; discriminate).
        set (st1' := upd_rolled st1 []) in *.
        destruct (eval_expr f st1' args locs (stmt_line whole idx + 3) h) as [r2 st2] eqn:E2.
        assert (Hr2 : r2 <> OutOfFuel) by (intros ->; inversion H; subst; congruence).
        assert (I1' : Inv st1') by exact I1.
        destruct (SE _ _ _ _ _ _ _ E2 Hr2 I1') as (I2 & F2 & A2).
        assert (F12 : frame st1 st2) by exact F2.
        assert (Hmono2 : s_reent st2 = true -> s_reent st' = true).
        { intros X. destruct r2 as [v2|k2|]; [eapply MB; eauto|inversion H; subst; exact X|congruence]. }
        assert (Hre2 : s_reent st2 = false) by exact (reent_false_of st2 st' Hmono2 Hre).
        assert (Hre1 : s_reent st1 = false) by exact (reent_false_of st1' st2 (ME _ _ _ _ _ _ _ E2) Hre2).
        assert (Hre0 : s_reent st = false) by exact (reent_false_of st st1 (ME _ _ _ _ _ _ _ E1) Hre1).
        destruct (S2E _ _ _ _ _ _ _ me d E1 Hr1 HG Hre0 HC) as [X|(G1 & _)]; [congruence|].
        assert (G1' : Good st1').
        { destruct G1 as (HI1 & C1' & SO1). split; [exact HI1|]. split; [|exact SO1]. constructor; apply C1'. }
        assert (HC1 : Ctx st1' me d) by exact (Ctx_frame _ _ _ _ F1 HC).
        destruct (IHe _ _ _ _ _ _ _ me d E1 Hr1 HG Hre1 HC) as (XA1 & XB1).
        destruct (IHe _ _ _ _ _ _ _ me d E2 Hr2 G1' Hre2 HC1) as (XA2 & XB2).
        assert (Hnc1 : NC st1' = NC st).
        { rewrite <- (NC_frame _ _ F1). unfold NC. change (s_stack st1') with (s_stack st1).
          apply nearest_cached_cells. reflexivity. }
        change (defs_of st1') with (defs_of st1) in XB2. change (input_data st1') with (input_data st1) in XB2.
        rewrite Hnc1 in XA2, XB2. rewrite D1, Q1 in XB2.
        assert (XA12 : exA st st2 (NC st)).
        { eapply (exA_trans st st1 st2); [exact XA1|exact XA2|exact F1|exact F12]. }
        destruct r2 as [v2|k2|]; [| |congruence].
        2:{ inversion H; subst. split; [exact XA12|].
            intros Hk Hmk g me' r' ds Hd Hr'.
            destruct g; [simpl in Hd; inversion Hd; congruence|]. simpl in Hd.
            destruct (dr_expr g (defs_of st) (input_data st) me' args locs e) as [ra d1] eqn:Da.
            assert (Hra : ra <> OutOfFuel) by (intros ->; inversion Hd; congruence).
            pose proof (align_dr_expr _ _ _ _ _ _ _ _ _ _ (A1 ltac:(mk)) ltac:(discriminate) Hk1 Da Hra) as ->.
            rewrite Ek in Hd.
            destruct (dr_expr g (defs_of st) (input_data st) me' args locs h) as [rh d2] eqn:Dh.
            assert (Hrh : rh <> OutOfFuel) by (intros ->; inversion Hd; congruence).
            change (defs_of st1') with (defs_of st1) in A2. change (input_data st1') with (input_data st1) in A2.
            rewrite D1, Q1 in A2.
            pose proof (align_dr_expr _ _ _ _ _ _ _ _ _ _ (A2 ltac:(mk)) ltac:(discriminate) Hk Dh Hrh) as ->.
            inversion Hd; subst r' ds.
            eapply exB_app; [eapply XB1; eauto; mk|eapply XB2; eauto; mk]. }
        destruct (S2E _ _ _ _ _ _ _ me d E2 Hr2 G1' Hre1 HC1) as [X|(G2 & _)]; [congruence|].
        destruct (SB _ _ _ _ _ _ _ _ _ H Hr I2) as (I3 & F3 & A3).
        assert (F02 : frame st st2) by (eapply frame_trans; eauto).
        destruct (IHb _ _ _ _ _ _ _ _ _ me d H Hr G2 Hre (Ctx_frame _ _ _ _ F02 HC)) as (XA3 & XB3).
        destruct (frame_defs _ _ F02) as (D2 & Q2). rewrite (NC_frame _ _ F02) in XA3, XB3. rewrite D2, Q2 in XB3.
        split; [eapply (exA_trans st st2 st'); eauto|].
        intros Hk Hmk g me' r' ds Hd Hr'.
        destruct g; [simpl in Hd; inversion Hd; congruence|]. simpl in Hd.
        destruct (dr_expr g (defs_of st) (input_data st) me' args locs e) as [ra d1] eqn:Da.
        assert (Hra : ra <> OutOfFuel) by (intros ->; inversion Hd; congruence).
        pose proof (align_dr_expr _ _ _ _ _ _ _ _ _ _ (A1 ltac:(mk)) ltac:(discriminate) Hk1 Da Hra) as ->.
        rewrite Ek in Hd.
        destruct (dr_expr g (defs_of st) (input_data st) me' args locs h) as [rh d2] eqn:Dh.
        assert (Hrh : rh <> OutOfFuel) by (intros ->; inversion Hd; congruence).
        change (defs_of st1') with (defs_of st1) in A2. change (input_data st1') with (input_data st1) in A2.
        rewrite D1, Q1 in A2.
        pose proof (align_dr_expr _ _ _ _ _ _ _ _ _ _ (A2 ltac:(mk)) ltac:(discriminate) ltac:(discriminate) Dh Hrh) as ->.
        destruct (dr_body g (defs_of st) (input_data st) me' args (locs ++ [v2]) more) as [rb d3] eqn:Db.
        inversion Hd; subst r' ds.
        eapply exB_app; [eapply XB1; eauto; mk|].
        eapply exB_app; [eapply XB2; eauto; first [discriminate|mk]|eapply XB3; eauto; mk].
    + (* SFin *)
      destruct (eval_expr f st args locs (stmt_line whole idx + 1) e) as [r1 st1] eqn:E1.
      assert (Hr1 : r1 <> OutOfFuel) by (intros ->; inversion H; subst; congruence).
      destruct (SE _ _ _ _ _ _ _ E1 Hr1 (proj1 HG)) as (I1 & F1 & A1).
      destruct (frame_defs _ _ F1) as (D1 & Q1).
      destruct r1 as [v1|k1|]; [| |congruence].
      * destruct (eval_expr f st1 args locs (stmt_line whole idx + 3) fc) as [r2 st2] eqn:E2.
        assert (Hr2 : r2 <> OutOfFuel) by (intros ->; inversion H; subst; congruence).
        destruct (SE _ _ _ _ _ _ _ E2 Hr2 I1) as (I2 & F2 & A2).
        assert (Hmono2 : s_reent st2 = true -> s_reent st' = true).
        { intros X. destruct r2 as [v2|k2|]; [eapply MB; eauto|inversion H; subst; exact X|congruence]. }
        assert (Hre2 : s_reent st2 = false) by exact (reent_false_of st2 st' Hmono2 Hre).
        assert (Hre1 : s_reent st1 = false) by exact (reent_false_of st1 st2 (ME _ _ _ _ _ _ _ E2) Hre2).
        assert (Hre0 : s_reent st = false) by exact (reent_false_of st st1 (ME _ _ _ _ _ _ _ E1) Hre1).
        destruct (S2E _ _ _ _ _ _ _ me d E1 Hr1 HG Hre0 HC) as [X|(G1 & _)]; [congruence|].
        assert (HC1 : Ctx st1 me d) by exact (Ctx_frame _ _ _ _ F1 HC).
        destruct (IHe _ _ _ _ _ _ _ me d E1 Hr1 HG Hre1 HC) as (XA1 & XB1).
        destruct (IHe _ _ _ _ _ _ _ me d E2 Hr2 G1 Hre2 HC1) as (XA2 & XB2).
        rewrite (NC_frame _ _ F1) in XA2, XB2. rewrite D1, Q1 in XB2. rewrite D1, Q1 in A2.
        assert (XA12 : exA st st2 (NC st)).
        { eapply (exA_trans st st1 st2); [exact XA1|exact XA2|exact F1|exact F2]. }
        destruct r2 as [v2|k2|]; [| |congruence].
        2:{ inversion H; subst. split; [exact XA12|].
            intros Hk Hmk g me' r' ds Hd Hr'.
            destruct g; [simpl in Hd; inversion Hd; congruence|]. simpl in Hd.
            destruct (dr_expr g (defs_of st) (input_data st) me' args locs e) as [ra d1] eqn:Da.
            assert (Hra : ra <> OutOfFuel) by (intros ->; inversion Hd; congruence).
            pose proof (align_dr_expr _ _ _ _ _ _ _ _ _ _ (A1 ltac:(mk)) ltac:(discriminate) ltac:(discriminate) Da Hra) as ->.
            destruct (dr_expr g (defs_of st) (input_data st) me' args locs fc) as [rh d2] eqn:Dh.
            assert (Hrh : rh <> OutOfFuel) by (intros ->; inversion Hd; congruence).
            pose proof (align_dr_expr _ _ _ _ _ _ _ _ _ _ (A2 ltac:(mk)) ltac:(discriminate) Hk Dh Hrh) as ->.
            inversion Hd; subst r' ds.
            eapply (exB_incl _ _ _ (d1 ++ d2)); [intros x Hx; now right|].
            eapply exB_app; [eapply XB1; eauto; first [discriminate|mk]|eapply XB2; eauto; mk]. }
        destruct (S2E _ _ _ _ _ _ _ me d E2 Hr2 G1 Hre1 HC1) as [X|(G2 & _)]; [congruence|].
        destruct (SB _ _ _ _ _ _ _ _ _ H Hr I2) as (I3 & F3 & A3).
        assert (F02 : frame st st2) by (eapply frame_trans; eauto).
        destruct (IHb _ _ _ _ _ _ _ _ _ me d H Hr G2 Hre (Ctx_frame _ _ _ _ F02 HC)) as (XA3 & XB3).
        destruct (frame_defs _ _ F02) as (D2 & Q2). rewrite (NC_frame _ _ F02) in XA3, XB3. rewrite D2, Q2 in XB3.
        split; [eapply (exA_trans st st2 st'); eauto|].
        intros Hk Hmk g me' r' ds Hd Hr'.
        destruct g; [simpl in Hd; inversion Hd; congruence|]. simpl in Hd.
        destruct (dr_expr g (defs_of st) (input_data st) me' args locs e) as [ra d1] eqn:Da.
        assert (Hra : ra <> OutOfFuel) by (intros ->; inversion Hd; congruence).
        pose proof (align_dr_expr _ _ _ _ _ _ _ _ _ _ (A1 ltac:(mk)) ltac:(discriminate) ltac:(discriminate) Da Hra) as ->.
        destruct (dr_expr g (defs_of st) (input_data st) me' args locs fc) as [rh d2] eqn:Dh.
        assert (Hrh : rh <> OutOfFuel) by (intros ->; inversion Hd; congruence).
        pose proof (align_dr_expr _ _ _ _ _ _ _ _ _ _ (A2 ltac:(mk)) ltac:(discriminate) ltac:(discriminate) Dh Hrh) as ->.
        destruct (dr_body g (defs_of st) (input_data st) me' args (locs ++ [v1]) more) as [rb d3] eqn:Db.
        inversion Hd; subst r' ds.
        eapply exB_app; [eapply XB1; eauto; first [discriminate|mk]|].
        eapply exB_app; [eapply XB2; eauto; first [discriminate|mk]|eapply XB3; eauto; mk].
      * set (st1' := upd_rolled st1 []) in *.
        destruct (eval_expr f st1' args locs (stmt_line whole idx + 3) fc) as [r2 st2] eqn:E2.
        assert (Hr2 : r2 <> OutOfFuel) by (intros ->; inversion H; subst; congruence).
        assert (I1' : Inv st1') by exact I1.
        destruct (SE _ _ _ _ _ _ _ E2 Hr2 I1') as (I2 & F2 & A2).
        assert (F12 : frame st1 st2) by exact F2.
        assert (Hre2 : s_reent st2 = false).
        { destruct r2 as [w|k2|]; [| |congruence]; inversion H; subst; [exact Hre|].
          destruct (ekind_eqb k1 KDeep); exact Hre. }
        assert (Hre1 : s_reent st1 = false) by exact (reent_false_of st1' st2 (ME _ _ _ _ _ _ _ E2) Hre2).
        assert (Hre0 : s_reent st = false) by exact (reent_false_of st st1 (ME _ _ _ _ _ _ _ E1) Hre1).
        destruct (S2E _ _ _ _ _ _ _ me d E1 Hr1 HG Hre0 HC) as [X|(G1 & _)]; [congruence|].
        assert (G1' : Good st1').
        { destruct G1 as (HI1 & C1' & SO1). split; [exact HI1|]. split; [|exact SO1]. constructor; apply C1'. }
        assert (HC1 : Ctx st1' me d) by exact (Ctx_frame _ _ _ _ F1 HC).
        destruct (IHe _ _ _ _ _ _ _ me d E1 Hr1 HG Hre1 HC) as (XA1 & XB1).
        destruct (IHe _ _ _ _ _ _ _ me d E2 Hr2 G1' Hre2 HC1) as (XA2 & XB2).
        assert (Hnc1 : NC st1' = NC st).
        { rewrite <- (NC_frame _ _ F1). unfold NC. change (s_stack st1') with (s_stack st1).
          apply nearest_cached_cells. reflexivity. }
        change (defs_of st1') with (defs_of st1) in XB2. change (input_data st1') with (input_data st1) in XB2.
        rewrite Hnc1 in XA2, XB2. rewrite D1, Q1 in XB2.
        assert (XA12 : exA st st2 (NC st)).
        { eapply (exA_trans st st1 st2); [exact XA1|exact XA2|exact F1|exact F12]. }
        change (defs_of st1') with (defs_of st1) in A2. change (input_data st1') with (input_data st1) in A2.
        rewrite D1, Q1 in A2.
        destruct r2 as [w|k2|]; [| |congruence]; inversion H; subst.
        -- split; [exact XA12|].
           intros Hk Hmk g me' r' ds Hd Hr'.
           assert (Hk1 : @Err val k1 <> Err KDeep) by exact Hk.
           destruct g; [simpl in Hd; inversion Hd; congruence|]. simpl in Hd.
           destruct (dr_expr g (defs_of st) (input_data st) me' args locs e) as [ra d1] eqn:Da.
           assert (Hra : ra <> OutOfFuel) by (intros ->; inversion Hd; congruence).
           pose proof (align_dr_expr _ _ _ _ _ _ _ _ _ _ (A1 ltac:(mk)) ltac:(discriminate) Hk1 Da Hra) as ->.
           destruct (dr_expr g (defs_of st) (input_data st) me' args locs fc) as [rh d2] eqn:Dh.
           assert (Hrh : rh <> OutOfFuel) by (intros ->; inversion Hd; congruence).
           pose proof (align_dr_expr _ _ _ _ _ _ _ _ _ _ (A2 ltac:(mk)) ltac:(discriminate) ltac:(discriminate) Dh Hrh) as ->.
           inversion Hd; subst r' ds.
           eapply (exB_incl _ _ _ (d1 ++ d2)); [intros x Hx; now right|].
           assert (XB' : exB st st2 (NC st) (d1 ++ d2)).
           { eapply exB_app; [eapply XB1; eauto; mk|eapply XB2; eauto; first [discriminate|mk]]. }
           exact XB'.
        -- destruct (ekind_eqb k1 KDeep) eqn:Ed.
           { split; [exact XA12|]. intros Hk Hmk. exfalso. clear A1 A2 XB1 XB2. mk. }
           assert (Hk1 : @Err val k1 <> Err KDeep) by (intros E; inversion E; subst; discriminate).
           split; [exact XA12|].
           intros Hk Hmk g me' r' ds Hd Hr'.
           destruct g; [simpl in Hd; inversion Hd; congruence|]. simpl in Hd.
           destruct (dr_expr g (defs_of st) (input_data st) me' args locs e) as [ra d1] eqn:Da.
           assert (Hra : ra <> OutOfFuel) by (intros ->; inversion Hd; congruence).
           pose proof (align_dr_expr _ _ _ _ _ _ _ _ _ _ (A1 ltac:(mk)) ltac:(discriminate) Hk1 Da Hra) as ->.
           destruct (dr_expr g (defs_of st) (input_data st) me' args locs fc) as [rh d2] eqn:Dh.
           assert (Hrh : rh <> OutOfFuel) by (intros ->; inversion Hd; congruence).
           pose proof (align_dr_expr _ _ _ _ _ _ _ _ _ _ (A2 ltac:(mk)) ltac:(discriminate) Hk Dh Hrh) as ->.
           inversion Hd; subst r' ds.
           eapply (exB_incl _ _ _ (d1 ++ d2)); [intros x Hx; now right|].
           eapply exB_app; [eapply XB1; eauto; mk|eapply XB2; eauto; mk].
Qed.

(** * The invariant on quiescent states *)
Definition Exa (st : state) : Prop :=
  forall a b, In (a, b) (s_edges st) -> exists j, b = node_of j /\ ExAt st j a.

Lemma Exa_init cells refs maxd : Exa (init cells refs maxd).
Proof. intros a b []. Qed.

Lemma dr_own_det f g D inp j r d r' d' :
  dr_own f D inp j = (r, d) -> r <> OutOfFuel ->
  dr_own g D inp j = (r', d') -> r' <> OutOfFuel -> r = r' /\ d = d'.
Proof.
  unfold dr_own. destruct (lookup_cell (fst D) (fst j)) as [cl|]; [|intros H _ H' _; inversion H; inversion H'; auto].
  destruct (dr_body f D inp (fst j) (snd j) [] (cl_body cl)) as [rb db] eqn:E1.
  destruct (dr_body g D inp (fst j) (snd j) [] (cl_body cl)) as [rb' db'] eqn:E2.
  intros H Hr H' Hr'.
  assert (N1 : rb <> OutOfFuel) by (intros ->; inversion H; subst; congruence).
  assert (N2 : rb' <> OutOfFuel) by (intros ->; inversion H'; subst; congruence).
  destruct (dr_body_det _ _ _ _ _ _ _ _ _ _ _ _ E1 N1 E2 N2) as (<- & <-).
  destruct rb; inversion H; inversion H'; subst; auto.
Qed.

(** evaluation *)
Theorem eval_top_Exa fuel st i r st' :
  eval_top fuel st i = (r, st') -> r <> OutOfFuel -> Quiet st -> s_reent st' = false -> Exa st -> Exa st'.
Proof.
  intros H Hr Q Hre X. destruct Q as (HG & Hs & Hrs).
  pose proof H as H0. unfold eval_top in H.
  destruct (lookup_cell (s_cells st) (fst i)) as [cl|] eqn:El; [|inversion H; subst; exact X].
  destruct (if cl_cached cl then lookup_data (s_data st) i else None) eqn:Eh; [inversion H; subst; exact X|].
  set (st0 := upd_taint (upd_rolled (upd_err st None) []) 0) in *.
  destruct (eval_formula fuel st0 cl i) as [rf st1] eqn:Ef.
  assert (Hrf : rf <> OutOfFuel) by (intros ->; inversion H; subst; congruence).
  assert (G0 : Good st0) by (apply Good_top_start; exact HG).
  assert (Hedges : s_edges st' = s_edges st1 /\ defs_of st' = defs_of st1 /\ input_data st' = input_data st1
                   /\ s_reent st' = s_reent st1).
  { destruct rf; inversion H; subst; repeat split; reflexivity. }
  destruct Hedges as (He & Hd & Hi & Hre').
  assert (Hre1 : s_reent st1 = false) by congruence.
  destruct (proj1 (proj2 (proj2 (proj2 (ex_all fuel)))) st0 cl i rf st1 (List.length (s_stack st0) - 1)
              Ef Hrf G0 Hre1 eq_refl El Eh) as (XA & _).
  destruct (proj1 (proj2 (proj2 (proj2 (sim_all fuel)))) st0 cl i _ _ Ef Hrf (proj1 G0) El Eh) as (_ & F & _).
  destruct (frame_defs _ _ F) as (D1 & Q1).
  intros a b Hin. rewrite He in Hin.
  destruct (XA a b Hin) as [Y|[(j & Ej & _)|(k & -> & _ & _ & E)]].
  - destruct (X a b Y) as (j & -> & E). exists j. split; [reflexivity|].
    apply (ExAt_same st); [rewrite Hd, D1; reflexivity|rewrite Hi, Q1; reflexivity|exact E].
  - exfalso. unfold NC in Ej. change (s_stack st0) with (s_stack st) in Ej. rewrite Hs in Ej. discriminate.
  - exists k. split; [reflexivity|]. apply (ExAt_same st1); [exact Hd|exact Hi|exact E].
Qed.

Lemma recalc_all_Exa fuel ns : forall st r st',
  recalc_all fuel st ns = (r, st') -> r <> OutOfFuel -> Quiet st -> s_reent st = false -> s_reent st' = false ->
  Exa st -> Exa st'.
Proof.
  induction ns as [|n ns IH]; intros st r st' H Hr Q Hre0 Hre X; simpl in H; [inversion H; subst; exact X|].
  destruct n as [c k|c]; [|eapply IH; eauto].
  destruct (eval_top fuel st (c, k)) as [[v|e|] st1] eqn:E.
  - assert (Hre1 : s_reent st1 = false).
    { destruct (s_reent st1) eqn:R1; [|reflexivity]. rewrite (recalc_reent_mono _ _ _ _ _ H R1) in Hre. discriminate. }
    destruct (eval_top_quiet _ _ _ _ _ E ltac:(discriminate) Q Hre0) as [R|Q1]; [congruence|].
    eapply IH; eauto. eapply eval_top_Exa; eauto. discriminate.
  - inversion H; subst. eapply eval_top_Exa; eauto. discriminate.
  - inversion H; subst. congruence.
Qed.

(** * Through edits: survivors keep their reads *)
Definition SameReads (st st' : state) : Prop :=
  forall j v, lookup_data (s_data st') j = Some v -> mem_item j (s_inputs st') = false ->
    lookup_data (s_data st) j = Some v /\ mem_item j (s_inputs st) = false /\
    forall f ds, dr_own f (defs_of st) (input_data st) j = (Val v, ds) -> Forall (cov_rd st j) ds ->
                 dr_own f (defs_of st') (input_data st') j = (Val v, ds).

Theorem Exa_shrink st st' :
  Quiet st -> Quiet st' -> Exa st -> SameReads st st' ->
  (forall e, In e (s_edges st') -> In e (s_edges st)) -> Exa st'.
Proof.
  intros Q Q' X SR Hincl a b Hin.
  destruct (X a b (Hincl _ Hin)) as (j & -> & E). exists j. split; [reflexivity|].
  destruct Q' as ((_ & C' & _) & Hs' & _). destruct Q as ((_ & C & _) & _).
  destruct (cv_edge _ C' _ _ Hin) as (_ & Hn).
  destruct (cv_items _ C' j Hn) as (_ & [Hh|Hh]); [|rewrite Hs' in Hh; destruct Hh].
  pose proof (cv_input _ C' a j Hin) as Hni.
  unfold has in Hh. destruct (lookup_data (s_data st') j) as [v|] eqn:Hl; [|now elim Hh].
  destruct (SR j v Hl Hni) as (Hl0 & Hni0 & T).
  destruct (cv_reads _ C j v Hl0 Hni0) as (f & ds & A & B).
  pose proof (T f ds A B) as A'.
  intros f' v' ds' Ho.
  destruct (dr_own_det _ _ _ _ _ _ _ _ _ A' ltac:(discriminate) Ho ltac:(discriminate)) as (_ & <-).
  exact (E f v ds A).
Qed.
