(** C08: the dependency graph of a quiescent state is acyclic.
    Every edge is a read (exactness), and a read element is evaluated by the
    specification with strictly less fuel than its reader — a cycle would be
    an infinite descent. *)
From Coq Require Import List ZArith Bool Arith Lia Wf_nat.
From MX Require Import Exec.Model Exec.Spec Exec.Basics Exec.SpecMono Exec.Sim Exec.Reads Exec.Graph
  Exec.Cover Exec.Cover2 Exec.Sim2 Exec.Quiet Exec.Edits3 Exec.Edits4 Exec.Edits6 Exec.Top.
From MX Require Import Exec.Exact Exec.Exact2.
Import ListNotations.

(** * A read element terminates with no more fuel than the reading evaluation *)
Definition T (D : defs) (inp : list (item * val)) (f : nat) (j : item) : Prop := sp_node f D inp j <> OutOfFuel.

Lemma T_mono D inp f g j : T D inp f j -> f <= g -> T D inp g j.
Proof.
  unfold T. intros H L. destruct (sp_node f D inp j) as [v|k|] eqn:E; [| |congruence].
  - rewrite (sp_node_mono _ g _ _ _ _ E ltac:(discriminate) L). discriminate.
  - rewrite (sp_node_mono _ g _ _ _ _ E ltac:(discriminate) L). discriminate.
Qed.

Lemma reads_fuel D inp m : forall f,
  (forall me args locs e r ds, dr_expr f D inp me args locs e = (r, ds) -> r <> OutOfFuel ->
     In (RItem m) ds -> exists g, g <= f /\ T D inp g m) /\
  (forall me args locs es r ds, dr_args f D inp me args locs es = (r, ds) -> r <> OutOfFuel ->
     In (RItem m) ds -> exists g, g <= f /\ T D inp g m) /\
  (forall i r ds, dr_node f D inp i = (r, ds) -> r <> OutOfFuel ->
     In (RItem m) ds -> exists g, g <= f /\ T D inp g m) /\
  (forall me args locs rest r ds, dr_body f D inp me args locs rest = (r, ds) -> r <> OutOfFuel ->
     In (RItem m) ds -> exists g, g <= f /\ T D inp g m).
Proof.
  induction f as [|f (IHe & IHa & IHn & IHb)].
  { repeat split; intros; simpl in *; match goal with H : (_, _) = (_, _) |- _ => inversion H; subst; congruence end. }
  assert (Up : forall g, g <= f -> g <= S f) by (intros; lia).
  assert (UpE : forall x, (exists g, g <= f /\ T D inp g x) -> exists g, g <= S f /\ T D inp g x).
  { intros x (g & L & H). exists g. split; [lia|exact H]. }
  repeat split.
  - intros me args locs e r ds H Hr Hin. destruct e; simpl in H.
    + inversion H; subst. contradiction.
    + inversion H; subst. contradiction.
    + inversion H; subst. contradiction.
    + destruct (dr_expr f D inp me args locs e1) as [[va|k|] d1] eqn:E1.
      * destruct (dr_expr f D inp me args locs e2) as [rb d2] eqn:E2.
        assert (Hrb : rb <> OutOfFuel) by (intros ->; inversion H; subst; congruence).
        assert (ds = d1 ++ d2) by (destruct rb; inversion H; reflexivity). subst ds.
        apply in_app_or in Hin as [Hin|Hin]; apply UpE; [eapply IHe; [exact E1|discriminate|exact Hin]|eapply IHe; [exact E2|exact Hrb|exact Hin]].
      * inversion H; subst. apply UpE. eapply IHe; [exact E1|discriminate|exact Hin].
      * inversion H; subst. congruence.
    + destruct (dr_expr f D inp me args locs e1) as [[[z|]|k|] d1] eqn:E1.
      * assert (Hb : exists eb rb d2, dr_expr f D inp me args locs eb = (rb, d2) /\ (rb, d1 ++ d2) = (r, ds)).
        { destruct (Z.ltb 0 z).
          - destruct (dr_expr f D inp me args locs e2) as [rb d2] eqn:E2. eauto.
          - destruct (dr_expr f D inp me args locs e3) as [rb d2] eqn:E2. eauto. }
        destruct Hb as (eb & rb & d2 & E2 & Eq). inversion Eq; subst.
        apply in_app_or in Hin as [Hin|Hin]; apply UpE; [eapply IHe; [exact E1|discriminate|exact Hin]|eapply IHe; [exact E2|exact Hr|exact Hin]].
      * inversion H; subst. apply UpE. eapply IHe; [exact E1|discriminate|exact Hin].
      * inversion H; subst. apply UpE. eapply IHe; [exact E1|discriminate|exact Hin].
      * inversion H; subst. congruence.
    + destruct (dr_args f D inp me args locs args0) as [[vs|k|] d1] eqn:E1.
      * destruct (lookup_cell (fst D) c) as [cl|].
        2:{ inversion H; subst. apply UpE. eapply IHa; [exact E1|discriminate|exact Hin]. }
        destruct (bind_pos cl vs) as [kk|].
        2:{ inversion H; subst. apply UpE. eapply IHa; [exact E1|discriminate|exact Hin]. }
        destruct (dr_node f D inp (c, kk)) as [rb d2] eqn:E2. inversion H; subst.
        apply in_app_or in Hin as [Hin|Hin]; apply UpE; [eapply IHa; [exact E1|discriminate|exact Hin]|eapply IHn; [exact E2|exact Hr|exact Hin]].
      * inversion H; subst. apply UpE. eapply IHa; [exact E1|discriminate|exact Hin].
      * inversion H; subst. congruence.
    + inversion H; subst. destruct Hin as [Hin|[]]. discriminate Hin.
    + destruct (lookup_ref (snd D) r0) as [[sp v]|]; inversion H; subst; simpl in Hin;
        [destruct Hin as [Hin|[]]; discriminate Hin|contradiction].
    + inversion H; subst. contradiction.
  - intros me args locs es r ds H Hr Hin. destruct es as [|e rest]; simpl in H.
    { inversion H; subst. contradiction. }
    destruct (dr_expr f D inp me args locs e) as [[v|k|] d1] eqn:E1.
    + destruct (dr_args f D inp me args locs rest) as [rb d2] eqn:E2.
      assert (Hrb : rb <> OutOfFuel) by (intros ->; inversion H; subst; congruence).
      assert (ds = d1 ++ d2) by (destruct rb; inversion H; reflexivity). subst ds.
      apply in_app_or in Hin as [Hin|Hin]; apply UpE; [eapply IHe; [exact E1|discriminate|exact Hin]|eapply IHa; [exact E2|exact Hrb|exact Hin]].
    + inversion H; subst. apply UpE. eapply IHe; [exact E1|discriminate|exact Hin].
    + inversion H; subst. congruence.
  - intros i r ds H Hr Hin. simpl in H.
    destruct (lookup_cell (fst D) (fst i)) as [cl|] eqn:El; [|inversion H; subst; contradiction].
    assert (Hsp : sp_node (S f) D inp i = r).
    { rewrite <- (proj1 (proj2 (proj2 (dr_fst_all (S f)))) D inp i). simpl. rewrite El, H. reflexivity. }
    destruct (cl_cached cl) eqn:Ec.
    + assert (ds = [RItem i]).
      { destruct (lookup_data inp i); [inversion H; reflexivity|].
        destruct (dr_body f D inp (fst i) (snd i) [] (cl_body cl)) as [[w|k|] dd]; inversion H; reflexivity. }
      subst ds. destruct Hin as [Hin|[]]. inversion Hin; subst m.
      exists (S f). split; [lia|]. unfold T. now rewrite Hsp.
    + destruct (dr_body f D inp (fst i) (snd i) [] (cl_body cl)) as [rb d] eqn:Eb.
      assert (Hd : ds = RObj (fst i) :: d /\ rb <> OutOfFuel).
      { destruct rb; inversion H; subst; split; auto; try discriminate. }
      destruct Hd as (-> & Hrb).
      destruct Hin as [Hin|Hin]; [discriminate|]. apply UpE. eapply IHb; [exact Eb|exact Hrb|exact Hin].
  - intros me args locs rest r ds H Hr Hin. destruct rest as [|s more]; simpl in H.
    { inversion H; subst. contradiction. }
    destruct s as [e|e h|e fc].
    + destruct (dr_expr f D inp me args locs e) as [[v|k|] d1] eqn:E1.
      * destruct (dr_body f D inp me args (locs ++ [v]) more) as [rb d2] eqn:E2. inversion H; subst.
        apply in_app_or in Hin as [Hin|Hin]; apply UpE; [eapply IHe; [exact E1|discriminate|exact Hin]|eapply IHb; [exact E2|exact Hr|exact Hin]].
      * inversion H; subst. apply UpE. eapply IHe; [exact E1|discriminate|exact Hin].
      * inversion H; subst. congruence.
    + destruct (dr_expr f D inp me args locs e) as [[v|k|] d1] eqn:E1.
      * destruct (dr_body f D inp me args (locs ++ [v]) more) as [rb d2] eqn:E2. inversion H; subst.
        apply in_app_or in Hin as [Hin|Hin]; apply UpE; [eapply IHe; [exact E1|discriminate|exact Hin]|eapply IHb; [exact E2|exact Hr|exact Hin]].
      * destruct (catchable k).
        -- destruct (dr_expr f D inp me args locs h) as [[v|k2|] d2] eqn:E2.
           ++ destruct (dr_body f D inp me args (locs ++ [v]) more) as [rb d3] eqn:E3. inversion H; subst.
              apply in_app_or in Hin as [Hin|Hin]; [apply UpE; eapply IHe; [exact E1|discriminate|exact Hin]|].
              apply in_app_or in Hin as [Hin|Hin]; apply UpE; [eapply IHe; [exact E2|discriminate|exact Hin]|eapply IHb; [exact E3|exact Hr|exact Hin]].
           ++ inversion H; subst.
              apply in_app_or in Hin as [Hin|Hin]; apply UpE; [eapply IHe; [exact E1|discriminate|exact Hin]|eapply IHe; [exact E2|discriminate|exact Hin]].
           ++ inversion H; subst. congruence.
        -- inversion H; subst. apply UpE. eapply IHe; [exact E1|discriminate|exact Hin].
      * inversion H; subst. congruence.
    + destruct (dr_expr f D inp me args locs e) as [re d1] eqn:E1.
      destruct (dr_expr f D inp me args locs fc) as [rc d2] eqn:E2.
      assert (Hm : re <> OutOfFuel -> rc <> OutOfFuel -> In (RItem m) (RMask :: d1 ++ d2) ->
                   exists g, g <= S f /\ T D inp g m).
      { intros Hre Hrc [Hi|Hi]; [discriminate|].
        apply in_app_or in Hi as [Hi|Hi]; apply UpE; [eapply IHe; [exact E1|exact Hre|exact Hi]|eapply IHe; [exact E2|exact Hrc|exact Hi]]. }
      destruct re as [v|k|]; [| |inversion H; subst; congruence].
      * destruct rc as [w|k2|]; [| |inversion H; subst; congruence].
        -- destruct (dr_body f D inp me args (locs ++ [v]) more) as [rb d3] eqn:E3. inversion H; subst.
           apply in_app_or in Hin as [Hin|Hin]; [apply UpE; eapply IHe; [exact E1|discriminate|exact Hin]|].
           apply in_app_or in Hin as [Hin|Hin]; apply UpE; [eapply IHe; [exact E2|discriminate|exact Hin]|eapply IHb; [exact E3|exact Hr|exact Hin]].
        -- inversion H; subst. apply Hm; [discriminate|discriminate|exact Hin].
      * destruct rc as [w|k2|]; inversion H; subst; try congruence; (apply Hm; [discriminate|discriminate|exact Hin]).
Qed.

(** * Descent along an edge *)
Definition desc (st : state) (j m : item) : Prop :=
  forall f, T (defs_of st) (input_data st) f j -> exists g, g < f /\ T (defs_of st) (input_data st) g m.

Lemma desc_trans st a b c : desc st a b -> desc st b c -> desc st a c.
Proof. intros AB BC f H. destruct (AB f H) as (g & L & Hg). destruct (BC g Hg) as (h & L' & Hh). exists h. split; [lia|exact Hh]. Qed.

Lemma edge_desc st m j :
  Quiet st -> Exa st -> In (node_of m, node_of j) (s_edges st) -> desc st j m.
Proof.
  intros Q X Hin. pose proof Q as ((_ & C & _) & Hs & _).
  destruct (cv_edge _ C _ _ Hin) as (_ & Hn).
  destruct (cv_items _ C j Hn) as (Hc & [Hh|Hh]); [|rewrite Hs in Hh; destruct Hh].
  pose proof (cv_input _ C _ j Hin) as Hni.
  unfold has in Hh. destruct (lookup_data (s_data st) j) as [v|] eqn:Hl; [|now elim Hh].
  destruct (cv_reads _ C j v Hl Hni) as (f0 & ds0 & A0 & _).
  destruct (X _ _ Hin) as (j' & Ej & E). apply node_of_inj in Ej. subst j'.
  pose proof (E f0 v ds0 A0) as Hrd. rewrite rd_of_node_item in Hrd.
  intros f Hf. destruct f as [|f]; [now elim Hf|].
  (* the evaluation at fuel [S f] runs the body at fuel [f] *)
  unfold T in Hf. simpl in Hf. unfold is_cached in Hc.
  unfold defs_of in Hf; simpl in Hf.
  destruct (lookup_cell (s_cells st) (fst j)) as [cl|] eqn:El; [|discriminate].
  rewrite Hc, lookup_input_data, Hni in Hf.
  destruct (dr_own f (defs_of st) (input_data st) j) as [r ds] eqn:Ho.
  assert (Hr : r <> OutOfFuel).
  { unfold dr_own in Ho. unfold defs_of in Ho; simpl in Ho. rewrite El in Ho.
    destruct (dr_body f (s_cells st, s_refs st) (input_data st) (fst j) (snd j) [] (cl_body cl)) as [rb db] eqn:Db.
    pose proof (dr_body_fst _ _ _ _ _ _ _ _ _ Db) as Fb. rewrite Fb in Hf.
    destruct rb as [vb|kb|]; inversion Ho; subst; [|discriminate|now elim Hf].
    unfold none_check. destruct vb; [discriminate|]. destruct (cl_allow_none cl); discriminate. }
  destruct (dr_own_det _ _ _ _ _ _ _ _ _ A0 ltac:(discriminate) Ho Hr) as (<- & <-).
  unfold dr_own in Ho. unfold defs_of in Ho; simpl in Ho. rewrite El in Ho.
  destruct (dr_body f (s_cells st, s_refs st) (input_data st) (fst j) (snd j) [] (cl_body cl)) as [rb db] eqn:Db.
  assert (Hdb : db = ds0 /\ rb <> OutOfFuel) by (destruct rb; inversion Ho; subst; split; auto; discriminate).
  destruct Hdb as (-> & Hrb).
  destruct (proj2 (proj2 (proj2 (reads_fuel (s_cells st, s_refs st) (input_data st) m f))) _ _ _ _ _ _ Db Hrb Hrd)
    as (g & L & Hg).
  exists g. split; [lia|exact Hg].
Qed.

Lemma path_desc st : Quiet st -> Exa st -> forall x y, path (s_edges st) x y ->
  forall jx jy, x = node_of jx -> y = node_of jy -> jx = jy \/ desc st jy jx.
Proof.
  intros Q X x y P. induction P as [a|a b c Hin P IH]; intros jx jy Ex Ey.
  - left. subst. now apply node_of_inj in Ey.
  - destruct (X _ _ Hin) as (jb & Eb & _). subst a b c.
    pose proof (edge_desc st jx jb Q X Hin) as D1.
    destruct (IH jb jy eq_refl eq_refl) as [->|D2]; [now right|right].
    eapply desc_trans; eauto.
Qed.

Lemma path_last' es a b : path es a b -> a = b \/ exists c, In (c, b) es.
Proof.
  induction 1 as [a|a b c E P IH]; [now left|right].
  destruct IH as [->|X]; [now exists a|exact X].
Qed.

(** * No cycle *)
Theorem acyclic st : Quiet st -> Exa st -> forall a b, In (a, b) (s_edges st) -> ~ path (s_edges st) b a.
Proof.
  intros Q X a b Hin P.
  destruct (X _ _ Hin) as (jb & Eb & _).
  assert (Ha : exists ja, a = node_of ja).
  { destruct (path_last' _ _ _ P) as [<-|(c & Hc)]; [now exists jb|].
    destruct (X _ _ Hc) as (ja & Ea & _). now exists ja. }
  destruct Ha as (ja & Ea). subst a b.
  pose proof (edge_desc st ja jb Q X Hin) as D1.
  assert (Dcyc : desc st ja ja).
  { destruct (path_desc st Q X _ _ P jb ja eq_refl eq_refl) as [->|D2]; [exact D1|].
    eapply desc_trans; eauto. }
  (* [ja] holds a value, so its evaluation terminates: infinite descent *)
  assert (Hnever : forall f, ~ T (defs_of st) (input_data st) f ja).
  { intros f. induction f as [f IH] using lt_wf_ind. intros Hf.
    destruct (Dcyc f Hf) as (g & L & Hg). exact (IH g L Hg). }
  pose proof Q as ((_ & C & _) & Hs & _).
  (* ja has an incoming edge: the last edge of the cycle *)
  assert (Hinc : exists c, In (c, node_of ja) (s_edges st)).
  { destruct (path_last' _ _ _ P) as [E|Hc]; [|exact Hc]. apply node_of_inj in E. subst jb. now exists (node_of ja). }
  destruct Hinc as (c & Hc).
  destruct (cv_edge _ C _ _ Hc) as (_ & Hn).
  destruct (cv_items _ C ja Hn) as (Hca & [Hh|Hh]); [|rewrite Hs in Hh; destruct Hh].
  pose proof (cv_input _ C _ ja Hc) as Hni.
  unfold has in Hh. destruct (lookup_data (s_data st) ja) as [v|] eqn:Hl; [|now elim Hh].
  destruct (cv_reads _ C ja v Hl Hni) as (f0 & ds0 & A0 & _).
  pose proof (dr_own_spec _ _ _ _ _ A0 Hca Hni) as Hsp. unfold spec_eval in Hsp.
  apply (Hnever (S f0)). unfold T. rewrite Hsp. discriminate.
Qed.

(** over histories *)
Theorem reachable_graph_acyclic fuel cells refs maxd ops xs st :
  refn_ok (init cells refs maxd) -> ops_ok2 fuel (init cells refs maxd) ops ->
  run fuel (init cells refs maxd) ops = (xs, st) -> no_fuel_out xs -> s_reent st = false ->
  forall a b, In (a, b) (s_edges st) -> ~ path (s_edges st) b a.
Proof.
  intros Hrn Hops Hrun Hnf Hre.
  destruct (run_Exa _ _ _ _ _ Hrun Hnf (Quiet_init cells refs maxd) Hrn eq_refl Hops (Exa_init cells refs maxd))
    as [R|(Q & _ & X)]; [congruence|].
  now apply acyclic.
Qed.
