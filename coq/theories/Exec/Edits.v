(** K4, part 6: value edits and clearing preserve the quiescent invariant
    (the cleared set is closed under the dependency edges, so no remaining
    value read anything that changed). *)
From Coq Require Import List ZArith Bool Arith Lia.
From MX Require Import Exec.Model Exec.Spec Exec.Basics Exec.SpecMono Exec.Sim Exec.Reads Exec.Graph
  Exec.Cover Exec.Cover2 Exec.Sim2 Exec.Quiet Exec.Local.
Import ListNotations.

(** * Removing keys *)
Lemma lookup_remove d x i :
  lookup_data (remove_data d x) i = if item_eqb x i then None else lookup_data d i.
Proof.
  unfold remove_data. induction d as [|[y w] d IH]; simpl; [now destruct (item_eqb x i)|].
  destruct (item_eqb x y) eqn:Exy; simpl.
  - apply item_eqb_eq in Exy; subst y. destruct (item_eqb i x) eqn:Eix.
    + apply item_eqb_eq in Eix; subst. now rewrite item_eqb_refl in *.
    + exact IH.
  - destruct (item_eqb i y) eqn:Eiy; [|exact IH].
    apply item_eqb_eq in Eiy; subst y. now rewrite Exy.
Qed.

Lemma mem_item_filter_neq x l i :
  mem_item i (filter (fun j => negb (item_eqb x j)) l) = mem_item i l && negb (item_eqb x i).
Proof.
  unfold mem_item. induction l as [|y l IH]; simpl; [reflexivity|].
  destruct (item_eqb x y) eqn:Exy; simpl.
  - apply item_eqb_eq in Exy; subst y. rewrite IH.
    destruct (item_eqb i x) eqn:Eix; simpl; [|reflexivity].
    apply item_eqb_eq in Eix; subst. rewrite item_eqb_refl. simpl. now rewrite andb_false_r.
  - rewrite IH. destruct (item_eqb i y) eqn:Eiy; simpl; [|reflexivity].
    apply item_eqb_eq in Eiy; subst y. now rewrite Exy.
Qed.

(** * The effect of one clearing step, abstractly *)
Record Cleared (st st' : state) (removed : list node) : Prop := mkCleared {
  cl_cells : s_cells st' = s_cells st;
  cl_refs : s_refs st' = s_refs st;
  cl_stack : s_stack st' = s_stack st;
  cl_refstack : s_refstack st' = s_refstack st;
  cl_taint : s_taint st' = s_taint st;
  cl_data : forall i, lookup_data (s_data st') i =
                      if mem_node (node_of i) removed then None else lookup_data (s_data st) i;
  cl_inputs : forall i, mem_item i (s_inputs st') =
                        mem_item i (s_inputs st) && negb (mem_node (node_of i) removed);
  cl_nodes : forall n, In n (s_nodes st') <-> In n (s_nodes st) /\ mem_node n removed = false;
  cl_edges : forall e, In e (s_edges st') <->
                       In e (s_edges st) /\ mem_node (fst e) removed = false /\ mem_node (snd e) removed = false;
  cl_redges : forall r j, In (r, j) (s_redges st) -> mem_node (node_of j) removed = false ->
                          In (r, j) (s_redges st') }.

Lemma fold_clear_trace_fields ns : forall st,
  let st' := fold_left on_clear_trace ns st in
  s_cells st' = s_cells st /\ s_refs st' = s_refs st /\ s_stack st' = s_stack st /\
  s_refstack st' = s_refstack st /\ s_nodes st' = s_nodes st /\ s_edges st' = s_edges st /\
  s_redges st' = s_redges st /\ s_rnodes st' = s_rnodes st /\
  (forall i, lookup_data (s_data st') i =
             if mem_node (node_of i) ns then None else lookup_data (s_data st) i) /\
  (forall i, mem_item i (s_inputs st') = mem_item i (s_inputs st) && negb (mem_node (node_of i) ns)).
Proof.
  induction ns as [|n ns IH]; intros st; simpl.
  - repeat split; auto. intros i. now rewrite andb_true_r.
  - specialize (IH (on_clear_trace st n)). simpl in IH.
    destruct IH as (A1 & A2 & A3 & A4 & A5 & A6 & A7 & A8 & A9 & A10).
    destruct n as [c k|c]; simpl in *.
    + repeat split; try assumption.
      * intros i. rewrite A9, lookup_remove. unfold mem_node; simpl.
        destruct i as [ci ki]. unfold node_of; simpl. unfold item_eqb; simpl.
        rewrite (Nat.eqb_sym c ci).
        assert (key_eqb k ki = key_eqb ki k) as ->.
        { destruct (key_eqb k ki) eqn:E1; destruct (key_eqb ki k) eqn:E2; try reflexivity.
          - apply key_eqb_eq in E1; subst. assert (key_eqb ki ki = true) by (now apply key_eqb_eq). congruence.
          - apply key_eqb_eq in E2; subst. assert (key_eqb k k = true) by (now apply key_eqb_eq). congruence. }
        destruct (Nat.eqb ci c && key_eqb ki k); simpl; [|reflexivity].
        now destruct (existsb (node_eqb (NItem ci ki)) ns).
      * intros i. rewrite A10, mem_item_filter_neq. unfold mem_node; simpl.
        destruct i as [ci ki]. unfold node_of; simpl. unfold item_eqb; simpl.
        rewrite (Nat.eqb_sym c ci).
        assert (key_eqb k ki = key_eqb ki k) as ->.
        { destruct (key_eqb k ki) eqn:E1; destruct (key_eqb ki k) eqn:E2; try reflexivity.
          - apply key_eqb_eq in E1; subst. assert (key_eqb ki ki = true) by (now apply key_eqb_eq). congruence.
          - apply key_eqb_eq in E2; subst. assert (key_eqb k k = true) by (now apply key_eqb_eq). congruence. }
        rewrite negb_orb. now rewrite andb_assoc.
    + repeat split; try assumption.
Qed.

Lemma g_remove_nodes_spec st ns :
  (forall n, In n (s_nodes (g_remove_nodes st ns)) <-> In n (s_nodes st) /\ mem_node n ns = false) /\
  (forall e, In e (s_edges (g_remove_nodes st ns)) <->
             In e (s_edges st) /\ mem_node (fst e) ns = false /\ mem_node (snd e) ns = false).
Proof.
  unfold g_remove_nodes; simpl. split.
  - intros n. rewrite filter_In, negb_true_iff. tauto.
  - intros e. rewrite filter_In, andb_true_iff, !negb_true_iff. tauto.
Qed.

Lemma fold_clear_trace_taint ns : forall st, s_taint (fold_left on_clear_trace ns st) = s_taint st.
Proof.
  induction ns as [|n ns IH]; intros st; simpl; [reflexivity|]. rewrite IH. destruct n; reflexivity.
Qed.

Lemma clear_with_descs_Cleared st n :
  mem_node n (s_nodes st) = true ->
  Cleared st (clear_with_descs st n) (descs_with st n).
Proof.
  intros Hm. unfold clear_with_descs. rewrite Hm.
  set (removed := descs_with st n).
  set (st1 := g_remove_nodes st removed).
  set (st2 := rg_remove_with_referred st1 removed).
  destruct (fold_clear_trace_fields removed st2) as (A1 & A2 & A3 & A4 & A5 & A6 & A7 & A8 & A9 & A10).
  destruct (g_remove_nodes_spec st removed) as (GN & GE).
  constructor; try assumption.
  - rewrite fold_clear_trace_taint. reflexivity.
  - intros i. rewrite A5. apply GN.
  - intros e. rewrite A6. apply GE.
  - intros r j Hin Hj. rewrite A7. unfold st2, rg_remove_with_referred, rg_remove_items; simpl.
    apply filter_In. split; [exact Hin|]. simpl. apply negb_true_iff.
    destruct (mem_item j (flat_map (fun n0 => match n0 with NItem c k => [(c, k)] | NObj _ => [] end) removed)) eqn:E;
      [|reflexivity].
    exfalso. apply mem_item_In in E. apply in_flat_map in E as (x & Hx & Hjx).
    destruct x as [c k|c]; [|destruct Hjx]. destruct Hjx as [<-|[]].
    assert (mem_node (node_of (c, k)) removed = true) by (apply mem_node_In; exact Hx). congruence.
Qed.

Lemma clear_reader_Cleared st i :
  mem_node (node_of i) (s_nodes st) = true ->
  Cleared st (clear_reader st i) (descs_with st (node_of i)).
Proof. intros Hm. unfold clear_reader. now apply clear_with_descs_Cleared. Qed.

(** * A clearing step whose removed set is closed under the edges keeps [Quiet] *)
Lemma mem_node_false n l : mem_node n l = false <-> ~ In n l.
Proof.
  split; intros H.
  - intros Hin. apply mem_node_In in Hin. congruence.
  - destruct (mem_node n l) eqn:E; [apply mem_node_In in E; contradiction|reflexivity].
Qed.

Theorem Quiet_cleared st st' removed :
  Quiet st -> Cleared st st' removed ->
  (forall a b, In a removed -> In (a, b) (s_edges st) -> In b removed) ->
  Quiet st'.
Proof.
  intros ((HI & C & SO) & Hs & Hrs) CL Hclosed.
  assert (Hdefs : defs_of st' = defs_of st).
  { unfold defs_of. now rewrite (cl_cells _ _ _ CL), (cl_refs _ _ _ CL). }
  assert (Hcached : forall c, is_cached st' c = is_cached st c).
  { intros c. apply is_cached_cells. exact (cl_cells _ _ _ CL). }
  assert (Hhas : forall i, has st' i <-> has st i /\ mem_node (node_of i) removed = false).
  { intros i. unfold has. rewrite (cl_data _ _ _ CL).
    destruct (mem_node (node_of i) removed); split; intros H; try tauto; try congruence.
    destruct H; discriminate. }
  assert (Hinp : forall i, mem_node (node_of i) removed = false ->
                           lookup_data (input_data st') i = lookup_data (input_data st) i).
  { intros i Hi. rewrite !lookup_input_data, (cl_inputs _ _ _ CL), (cl_data _ _ _ CL), Hi. simpl.
    now rewrite andb_true_r. }
  (* agreement for the locality lemma *)
  set (PC := fun _ : cid => True). set (PR := fun _ : rid => True).
  set (PI := fun i : item => mem_node (node_of i) removed = false).
  assert (Hsafe : forall j ds, has st j -> PI j -> Forall (cov_rd st j) ds ->
                               Forall (safe_rd st PC PR PI) ds).
  { intros j ds Hj Hpj Hc. eapply Forall_impl; [|exact Hc]. intros x Hx.
    destruct x as [m|c|r|c r|]; [| | | |simpl in *; contradiction]; simpl in *; try exact I.
    destruct Hx as (He & Hm). split; [|split; [exact I|exact Hm]].
    unfold PI. apply mem_node_false. intros Hin.
    apply (proj1 (mem_node_false _ _) Hpj). eapply Hclosed; eauto. }
  assert (AG : Agree st (defs_of st') (input_data st') PC PR PI).
  { constructor.
    - intros c _. now rewrite Hdefs.
    - intros r _. now rewrite Hdefs.
    - intros r Hr. now rewrite Hdefs.
    - intros i Hi. now apply Hinp.
    - intros m Hm Hni Hpi _. destruct (lookup_data (s_data st) m) as [v|] eqn:El; [|now elim Hm].
      destruct (cv_reads _ C m v El Hni) as (f & ds & A & B).
      exists f, v, ds. split; [exact A|]. eapply Hsafe; eauto. }
  split; [|split; [now rewrite (cl_stack _ _ _ CL)|now rewrite (cl_refstack _ _ _ CL)]].
  assert (C' : Cov st').
  { constructor.
    - intros i Hi. apply Hhas in Hi as (Hi & Hr). apply (cl_nodes _ _ _ CL). split; [|exact Hr].
      now apply (cv_node _ C).
    - intros i Hi. apply Hhas in Hi as (Hi & _). rewrite Hcached. now apply (cv_cached _ C).
    - intros j v Hl Hm.
      rewrite (cl_data _ _ _ CL) in Hl.
      destruct (mem_node (node_of j) removed) eqn:Hr; [discriminate|].
      rewrite (cl_inputs _ _ _ CL), Hr in Hm. simpl in Hm. rewrite andb_true_r in Hm.
      destruct (cv_reads _ C j v Hl Hm) as (f & ds & A & B).
      assert (Hj : has st j) by (unfold has; congruence).
      exists f, ds. split.
      + destruct (lookup_cell (s_cells st) (fst j)) as [cl|] eqn:Ec.
        * eapply locality_own; eauto. exact I.
        * unfold dr_own, defs_of in A; simpl in A. rewrite Ec in A. discriminate.
      + eapply Forall_impl; [|exact B]. intros x Hx.
        assert (Hkeep : forall a, In (a, node_of j) (s_edges st) ->
                                  In (a, node_of j) (s_edges st')).
        { intros a Ha. apply (cl_edges _ _ _ CL). split; [exact Ha|]. simpl. split; [|exact Hr].
          apply mem_node_false. intros Hin. apply (proj1 (mem_node_false _ _) Hr). eapply Hclosed; eauto. }
        destruct x as [m|c|r|c r|]; [| | | |simpl in *; contradiction]; simpl in *.
        -- destruct Hx as (He & Hm'). split; [now apply Hkeep|].
           apply Hhas. split; [exact Hm'|].
           apply mem_node_false. intros Hin. apply (proj1 (mem_node_false _ _) Hr). eapply Hclosed; eauto.
        -- now apply Hkeep.
        -- now apply (cl_redges _ _ _ CL).
        -- destruct Hx as [Hx|Hx]; [now left|right; now apply Hkeep].
    - intros a i He. apply (cl_edges _ _ _ CL) in He as (He & _).
      rewrite (cl_inputs _ _ _ CL), (cv_input _ C a i He). reflexivity.
    - intros a b He. apply (cl_edges _ _ _ CL) in He as (He & Ha & Hb). simpl in Ha, Hb.
      destruct (cv_edge _ C a b He). split; apply (cl_nodes _ _ _ CL); auto.
    - intros i Hi. apply (cl_nodes _ _ _ CL) in Hi as (Hi & Hr).
      destruct (cv_items _ C i Hi) as (A & B). rewrite Hcached. split; [exact A|].
      rewrite Hs in B. destruct B as [B|[]]. left. apply Hhas. auto.
    - rewrite (cl_stack _ _ _ CL), (cl_refstack _ _ _ CL). exact (cv_refs _ C).
    - intros c Hc. apply (cl_nodes _ _ _ CL) in Hc as (Hc & _). rewrite Hcached. now apply (cv_obj _ C).
    - rewrite (cl_taint _ _ _ CL), (cl_stack _ _ _ CL). exact (cv_taint _ C). }
  split; [|split; [exact C'|]].
  - apply Inv_of_Cov; [|exact C'].
    intros i Hm. rewrite (cl_inputs _ _ _ CL) in Hm. apply andb_true_iff in Hm as (Hm & Hr).
    apply negb_true_iff in Hr. rewrite (cl_data _ _ _ CL), Hr. now apply (proj1 HI).
  - intros x Hx. rewrite (cl_stack _ _ _ CL), Hs in Hx. destruct Hx.
Qed.

Lemma descs_closed st n a b :
  In a (descs_with st n) -> In (a, b) (s_edges st) -> In b (descs_with st n).
Proof. apply descs_with_closed. Qed.

(** * The clearing operations of the model *)
Lemma Quiet_clear_with_descs st n : Quiet st -> Quiet (clear_with_descs st n).
Proof.
  intros Q. destruct (mem_node n (s_nodes st)) eqn:Hm.
  - eapply Quiet_cleared; [exact Q|now apply clear_with_descs_Cleared|apply descs_closed].
  - unfold clear_with_descs. now rewrite Hm.
Qed.

Lemma Quiet_clear_reader st i : Quiet st -> Quiet (clear_reader st i).
Proof. intros Q. unfold clear_reader. now apply Quiet_clear_with_descs. Qed.

Lemma Quiet_fold {A} (f : state -> A -> state) l :
  (forall s a, Quiet s -> Quiet (f s a)) -> forall st, Quiet st -> Quiet (fold_left f l st).
Proof. intros Hf. induction l as [|a l IH]; intros st Q; simpl; [exact Q|]. apply IH. now apply Hf. Qed.

Lemma Quiet_clear_value_at st i b : Quiet st -> Quiet (clear_value_at st i b).
Proof.
  intros Q. unfold clear_value_at. destruct (has_data st i); [|exact Q].
  destruct (b || negb (mem_item i (s_inputs st))); [now apply Quiet_clear_with_descs|exact Q].
Qed.

Lemma Quiet_clear_all_values st c b : Quiet st -> Quiet (clear_all_values st c b).
Proof.
  intros Q. unfold clear_all_values. apply Quiet_fold; [|exact Q].
  intros s a. apply Quiet_clear_value_at.
Qed.

Lemma Quiet_clear_obj st c : Quiet st -> Quiet (clear_obj st c).
Proof.
  intros Q. unfold clear_obj. apply Quiet_fold; [|exact Q]. intros s a. apply Quiet_clear_with_descs.
Qed.

Lemma Quiet_on_namespace_change st c : Quiet st -> Quiet (on_namespace_change st c).
Proof.
  intros Q. unfold on_namespace_change. destruct (lookup_cell (s_cells st) c) as [cl|]; [|exact Q].
  destruct (cl_cached cl); [now apply Quiet_clear_all_values|now apply Quiet_clear_obj].
Qed.
