(** The caching executor refines the specification evaluator (K2/K3 of
    DESIGN.md): every result it returns is the result of the uncached
    evaluation, every value it stores is correct, and the stack discipline is
    restored whatever happens. *)
From Coq Require Import List ZArith Bool Arith Lia.
From MX Require Import Exec.Model Exec.Spec Exec.Basics Exec.SpecMono Exec.Masks.
Import ListNotations.

(** * Invariant and frame *)
Definition Inv (st : state) : Prop :=
  (forall i, mem_item i (s_inputs st) = true -> lookup_data (s_data st) i <> None) /\
  (forall i v, lookup_data (s_data st) i = Some v ->
     mem_item i (s_inputs st) = true \/ exists f, spec_eval f st i = Val v).

Definition frame (st st' : state) : Prop :=
  static st' = static st /\ s_stack st' = s_stack st /\
  (forall i v, lookup_data (s_data st) i = Some v -> lookup_data (s_data st') i = Some v) /\
  input_data st' = input_data st.

Definition agrees {A} (r : res A) (spr : nat -> res A) : Prop :=
  match r with
  | Val v => exists f, spr f = Val v
  | Err k => k = KDeep \/ exists f, spr f = Err k
  | OutOfFuel => True
  end.

Lemma frame_refl st : frame st st.
Proof. repeat split; auto. Qed.

Lemma frame_trans a b c : frame a b -> frame b c -> frame a c.
Proof.
  intros (A1 & A2 & A3 & A4) (B1 & B2 & B3 & B4).
  repeat split; try congruence. intros i v H. apply B3, A3, H.
Qed.

Lemma static_defs st st' : static st' = static st -> defs_of st' = defs_of st.
Proof. unfold static, defs_of. intros H; inversion H; congruence. Qed.

Lemma frame_defs st st' : frame st st' -> defs_of st' = defs_of st /\ input_data st' = input_data st.
Proof. intros (A & _ & _ & B). split; [now apply static_defs|assumption]. Qed.

Lemma static_inputs st st' : static st' = static st -> s_inputs st' = s_inputs st.
Proof. unfold static. intros H; inversion H; congruence. Qed.
Lemma static_cells st st' : static st' = static st -> s_cells st' = s_cells st.
Proof. unfold static. intros H; inversion H; congruence. Qed.
Lemma static_refs st st' : static st' = static st -> s_refs st' = s_refs st.
Proof. unfold static. intros H; inversion H; congruence. Qed.
Lemma static_maxdepth st st' : static st' = static st -> s_maxdepth st' = s_maxdepth st.
Proof. unfold static. intros H; inversion H; congruence. Qed.

Lemma input_data_core st st' :
  static st' = static st -> s_data st' = s_data st -> input_data st' = input_data st.
Proof. intros A B. unfold input_data. now rewrite B, (static_inputs _ _ A). Qed.

(** states that differ only outside (static, data) *)
Lemma Inv_core st st' :
  static st' = static st -> s_data st' = s_data st -> Inv st -> Inv st'.
Proof.
  intros A B (I1 & I2). pose proof (static_inputs _ _ A) as Hi.
  split.
  - intros i Hm. rewrite B. apply I1. now rewrite <- Hi.
  - intros i v Hl. rewrite B in Hl. destruct (I2 i v Hl) as [Hm|(f & Hf)].
    + left. now rewrite Hi.
    + right. exists f. unfold spec_eval in *.
      now rewrite (static_defs _ _ A), (input_data_core _ _ A B).
Qed.

Lemma frame_core st st' :
  static st' = static st -> s_data st' = s_data st -> s_stack st' = s_stack st -> frame st st'.
Proof.
  intros A B C. repeat split; auto.
  - intros i v H. now rewrite B.
  - now apply input_data_core.
Qed.

(** * Storing a computed value *)
Lemma Inv_store st i v :
  Inv st -> mem_item i (s_inputs st) = false ->
  (exists f, spec_eval f st i = Val v) ->
  Inv (upd_data st (set_data (s_data st) i v)).
Proof.
  intros (I1 & I2) Hni (f & Hf).
  set (st' := upd_data st (set_data (s_data st) i v)).
  assert (Hid : input_data st' = input_data st).
  { unfold input_data, st'; simpl.
    apply (filter_set_data (fun x => mem_item x (s_inputs st))). exact Hni. }
  split.
  - intros j Hj. simpl. destruct (item_eqb j i) eqn:E.
    + apply item_eqb_eq in E; subst j. rewrite lookup_set_same. discriminate.
    + apply item_eqb_neq in E. rewrite lookup_set_other by assumption. now apply I1.
  - intros j w Hl. simpl in Hl. destruct (item_eqb j i) eqn:E.
    + apply item_eqb_eq in E; subst j. rewrite lookup_set_same in Hl. inversion Hl; subst w.
      right. exists f. unfold spec_eval in *. now rewrite Hid.
    + apply item_eqb_neq in E. rewrite lookup_set_other in Hl by assumption.
      destruct (I2 j w Hl) as [Hm|(g & Hg)]; [now left|].
      right. exists g. unfold spec_eval in *. now rewrite Hid.
Qed.

Lemma frame_store st i v :
  lookup_data (s_data st) i = None -> mem_item i (s_inputs st) = false ->
  frame st (upd_data st (set_data (s_data st) i v)).
Proof.
  intros Hn Hni. repeat split; auto.
  - intros j w Hl. simpl. destruct (item_eqb j i) eqn:E.
    + apply item_eqb_eq in E; subst j. congruence.
    + apply item_eqb_neq in E. now rewrite lookup_set_other.
  - unfold input_data; simpl.
    apply (filter_set_data (fun x => mem_item x (s_inputs st))). exact Hni.
Qed.

(** * The simulation *)
Definition sim_expr (f : nat) : Prop :=
  forall st args locs line e r st',
    eval_expr f st args locs line e = (r, st') -> r <> OutOfFuel -> Inv st ->
    Inv st' /\ frame st st' /\
    (s_masks st' = s_masks st -> agrees r (fun g => sp_expr g (defs_of st) (input_data st) args locs e)).
Definition sim_args (f : nat) : Prop :=
  forall st args locs line es r st',
    eval_args f st args locs line es = (r, st') -> r <> OutOfFuel -> Inv st ->
    Inv st' /\ frame st st' /\
    (s_masks st' = s_masks st -> agrees r (fun g => sp_args g (defs_of st) (input_data st) args locs es)).
Definition sim_node (f : nat) : Prop :=
  forall st line i r st',
    eval_node f st line i = (r, st') -> r <> OutOfFuel -> Inv st ->
    Inv st' /\ frame st st' /\
    (s_masks st' = s_masks st -> agrees r (fun g => sp_node g (defs_of st) (input_data st) i)).
Definition sim_formula (f : nat) : Prop :=
  forall st cl i r st',
    eval_formula f st cl i = (r, st') -> r <> OutOfFuel -> Inv st ->
    lookup_cell (s_cells st) (fst i) = Some cl ->
    (if cl_cached cl then lookup_data (s_data st) i else None) = None ->
    Inv st' /\ frame st st' /\
    (s_masks st' = s_masks st -> agrees r (fun g => sp_node g (defs_of st) (input_data st) i)).
Definition sim_body (f : nat) : Prop :=
  forall st args locs whole rest idx r st' ln,
    exec_body f st args locs whole rest idx = (r, st', ln) -> r <> OutOfFuel -> Inv st ->
    Inv st' /\ frame st st' /\
    (s_masks st' = s_masks st -> agrees r (fun g => sp_body g (defs_of st) (input_data st) args locs rest)).

Ltac inv_pair :=
  match goal with
  | H : (_, _) = (_, _) |- _ => inversion H; subst; clear H
  end.

Lemma miss_not_input st cl i :
  Inv st -> cl_cached cl = true ->
  (if cl_cached cl then lookup_data (s_data st) i else None) = None ->
  mem_item i (s_inputs st) = false /\ lookup_data (input_data st) i = None.
Proof.
  intros (I1 & _) Hc Hm. rewrite Hc in Hm.
  assert (mem_item i (s_inputs st) = false) as Hni.
  { destruct (mem_item i (s_inputs st)) eqn:E; [|reflexivity]. exfalso. now apply (I1 i E). }
  split; [assumption|]. rewrite lookup_input_data, Hni. reflexivity.
Qed.

Ltac leaf := split; [assumption|split; [apply frame_refl|intros _]].

Lemma sim_all : forall f, sim_expr f /\ sim_args f /\ sim_node f /\ sim_formula f /\ sim_body f.
Proof.
  induction f as [|f (IHe & IHa & IHn & IHf & IHb)].
  { split; [|split; [|split; [|split]]];
      unfold sim_expr, sim_args, sim_node, sim_formula, sim_body; intros;
      match goal with H : _ = _ |- _ => simpl in H; inversion H; subst; congruence end. }
  split; [|split; [|split; [|split]]].
  - (* expr *)
    intros st args locs line e r st' H Hr HI.
    destruct e; simpl in H.
    + inv_pair. leaf. exists 1. reflexivity.
    + inv_pair. leaf.
      destruct (nth_error args i) eqn:E; simpl; [exists 1|right; exists 1]; simpl; now rewrite E.
    + inv_pair. leaf.
      destruct (nth_error locs i) eqn:E; simpl; [exists 1|right; exists 1]; simpl; now rewrite E.
    + (* EBin *)
      destruct (eval_expr f st args locs line e1) as [[va|k|] st1] eqn:E1.
      * destruct (IHe _ _ _ _ _ _ _ E1 ltac:(discriminate) HI) as (I1 & F1 & A1).
        destruct (frame_defs _ _ F1) as (D1 & P1).
        destruct (eval_expr f st1 args locs line e2) as [[vb|k|] st2] eqn:E2.
        -- destruct (IHe _ _ _ _ _ _ _ E2 ltac:(discriminate) I1) as (I2 & F2 & A2).
           rewrite D1, P1 in A2. inv_pair.
           split; [assumption|]. split; [eapply frame_trans; eauto|]. intros Hmk; openA. destruct A1 as (g1 & A1). destruct A2 as (g2 & A2).
           assert (B1 := sp_expr_mono _ (Nat.max g1 g2) _ _ _ _ _ _ A1 ltac:(discriminate) ltac:(lia)).
           assert (B2 := sp_expr_mono _ (Nat.max g1 g2) _ _ _ _ _ _ A2 ltac:(discriminate) ltac:(lia)).
           destruct (arith o va vb) eqn:Ar; simpl.
           ++ exists (S (Nat.max g1 g2)). simpl. now rewrite B1, B2.
           ++ right. exists (S (Nat.max g1 g2)). simpl. now rewrite B1, B2.
           ++ exact I.
        -- destruct (IHe _ _ _ _ _ _ _ E2 ltac:(discriminate) I1) as (I2 & F2 & A2).
           rewrite D1, P1 in A2. inv_pair.
           split; [assumption|]. split; [eapply frame_trans; eauto|]. intros Hmk; openA. destruct A1 as (g1 & A1).
           destruct A2 as [->|(g2 & A2)]; [now left|right].
           assert (B1 := sp_expr_mono _ (Nat.max g1 g2) _ _ _ _ _ _ A1 ltac:(discriminate) ltac:(lia)).
           assert (B2 := sp_expr_mono _ (Nat.max g1 g2) _ _ _ _ _ _ A2 ltac:(discriminate) ltac:(lia)).
           exists (S (Nat.max g1 g2)). simpl. now rewrite B1, B2.
        -- inv_pair. congruence.
      * destruct (IHe _ _ _ _ _ _ _ E1 ltac:(discriminate) HI) as (I1 & F1 & A1).
        inv_pair. split; [assumption|]. split; [assumption|]. intros Hmk; openA.
        destruct A1 as [->|(g1 & A1)]; [now left|right].
        exists (S g1). simpl. now rewrite A1.
      * inv_pair. congruence.
    + (* EIfPos *)
      destruct (eval_expr f st args locs line e1) as [[vc|k|] st1] eqn:E1.
      * destruct (IHe _ _ _ _ _ _ _ E1 ltac:(discriminate) HI) as (I1 & F1 & A1).
        destruct (frame_defs _ _ F1) as (D1 & P1).
        destruct vc as [z|].
        -- destruct (Z.ltb 0 z) eqn:Ez.
           ++ destruct (IHe _ _ _ _ _ _ _ H Hr I1) as (I2 & F2 & A2).
              rewrite D1, P1 in A2.
              split; [assumption|]. split; [eapply frame_trans; eauto|]. intros Hmk; openA. destruct A1 as (g1 & A1).
              destruct r as [v|k|]; simpl in *.
              ** destruct A2 as (g2 & A2). exists (S (Nat.max g1 g2)). simpl.
                 rewrite (sp_expr_mono _ (Nat.max g1 g2) _ _ _ _ _ _ A1 ltac:(discriminate) ltac:(lia)), Ez.
                 apply (sp_expr_mono _ _ _ _ _ _ _ _ A2); [discriminate|lia].
              ** destruct A2 as [->|(g2 & A2)]; [now left|right].
                 exists (S (Nat.max g1 g2)). simpl.
                 rewrite (sp_expr_mono _ (Nat.max g1 g2) _ _ _ _ _ _ A1 ltac:(discriminate) ltac:(lia)), Ez.
                 apply (sp_expr_mono _ _ _ _ _ _ _ _ A2); [discriminate|lia].
              ** exact I.
           ++ destruct (IHe _ _ _ _ _ _ _ H Hr I1) as (I2 & F2 & A2).
              rewrite D1, P1 in A2.
              split; [assumption|]. split; [eapply frame_trans; eauto|]. intros Hmk; openA. destruct A1 as (g1 & A1).
              destruct r as [v|k|]; simpl in *.
              ** destruct A2 as (g2 & A2). exists (S (Nat.max g1 g2)). simpl.
                 rewrite (sp_expr_mono _ (Nat.max g1 g2) _ _ _ _ _ _ A1 ltac:(discriminate) ltac:(lia)), Ez.
                 apply (sp_expr_mono _ _ _ _ _ _ _ _ A2); [discriminate|lia].
              ** destruct A2 as [->|(g2 & A2)]; [now left|right].
                 exists (S (Nat.max g1 g2)). simpl.
                 rewrite (sp_expr_mono _ (Nat.max g1 g2) _ _ _ _ _ _ A1 ltac:(discriminate) ltac:(lia)), Ez.
                 apply (sp_expr_mono _ _ _ _ _ _ _ _ A2); [discriminate|lia].
              ** exact I.
        -- inv_pair. split; [assumption|]. split; [assumption|]. intros Hmk; openA. destruct A1 as (g1 & A1).
           right. exists (S g1). simpl. now rewrite A1.
      * destruct (IHe _ _ _ _ _ _ _ E1 ltac:(discriminate) HI) as (I1 & F1 & A1).
        inv_pair. split; [assumption|]. split; [assumption|]. intros Hmk; openA.
        destruct A1 as [->|(g1 & A1)]; [now left|right].
        exists (S g1). simpl. now rewrite A1.
      * inv_pair. congruence.
    + (* ECall *)
      destruct (eval_args f st args locs line args0) as [[vs|k|] st1] eqn:E1.
      * destruct (IHa _ _ _ _ _ _ _ E1 ltac:(discriminate) HI) as (I1 & F1 & A1).
        destruct (frame_defs _ _ F1) as (D1 & P1).
        assert (Hc : s_cells st1 = s_cells st) by (apply static_cells, F1).
        rewrite Hc in H.
        destruct (lookup_cell (s_cells st) c) as [cl|] eqn:El.
        -- destruct (bind_pos cl vs) as [k|] eqn:Eb.
           ++ destruct (IHn _ _ _ _ _ H Hr I1) as (I2 & F2 & A2).
              rewrite D1, P1 in A2.
              split; [assumption|]. split; [eapply frame_trans; eauto|]. intros Hmk; openA. destruct A1 as (g1 & A1).
              destruct r as [v|kk|]; simpl in *.
              ** destruct A2 as (g2 & A2). exists (S (Nat.max g1 g2)). simpl.
                 rewrite (sp_args_mono _ (Nat.max g1 g2) _ _ _ _ _ _ A1 ltac:(discriminate) ltac:(lia)).
                 rewrite El, Eb. apply (sp_node_mono _ _ _ _ _ _ A2); [discriminate|lia].
              ** destruct A2 as [->|(g2 & A2)]; [now left|right].
                 exists (S (Nat.max g1 g2)). simpl.
                 rewrite (sp_args_mono _ (Nat.max g1 g2) _ _ _ _ _ _ A1 ltac:(discriminate) ltac:(lia)).
                 rewrite El, Eb. apply (sp_node_mono _ _ _ _ _ _ A2); [discriminate|lia].
              ** exact I.
           ++ inv_pair. split; [assumption|]. split; [assumption|]. intros Hmk; openA. destruct A1 as (g1 & A1).
              right. exists (S g1). simpl. now rewrite A1, El, Eb.
        -- inv_pair. split; [assumption|]. split; [assumption|]. intros Hmk; openA. destruct A1 as (g1 & A1).
           right. exists (S g1). simpl. now rewrite A1, El.
      * destruct (IHa _ _ _ _ _ _ _ E1 ltac:(discriminate) HI) as (I1 & F1 & A1).
        inv_pair. split; [assumption|]. split; [assumption|]. intros Hmk; openA.
        destruct A1 as [->|(g1 & A1)]; [now left|right].
        exists (S g1). simpl. now rewrite A1.
      * inv_pair. congruence.
    + (* ERefN *)
      inv_pair. leaf.
      destruct (lookup_ref (s_refs st') r0) as [[sp v]|] eqn:E; simpl;
        [exists 1|right; exists 1]; simpl; now rewrite E.
    + (* ERefA *)
      destruct (lookup_ref (s_refs st) r0) as [[sp v]|] eqn:E; inv_pair.
      * split; [exact HI|]. split; [apply frame_core; reflexivity|].
        exists 1. simpl. now rewrite E.
      * leaf.
        right. exists 1. simpl. now rewrite E.
    + (* ERaise *)
      inv_pair. leaf.
      right. exists 1. reflexivity.
  - (* args *)
    intros st args locs line es r st' H Hr HI.
    destruct es as [|e rest]; simpl in H.
    + inv_pair. leaf. exists 1. reflexivity.
    + destruct (eval_expr f st args locs line e) as [[v|k|] st1] eqn:E1.
      * destruct (IHe _ _ _ _ _ _ _ E1 ltac:(discriminate) HI) as (I1 & F1 & A1).
        destruct (frame_defs _ _ F1) as (D1 & P1).
        destruct (eval_args f st1 args locs line rest) as [[vs|k|] st2] eqn:E2.
        -- destruct (IHa _ _ _ _ _ _ _ E2 ltac:(discriminate) I1) as (I2 & F2 & A2).
           rewrite D1, P1 in A2. inv_pair.
           split; [assumption|]. split; [eapply frame_trans; eauto|]. intros Hmk; openA. destruct A1 as (g1 & A1). destruct A2 as (g2 & A2).
           exists (S (Nat.max g1 g2)). simpl.
           rewrite (sp_expr_mono _ (Nat.max g1 g2) _ _ _ _ _ _ A1 ltac:(discriminate) ltac:(lia)).
           now rewrite (sp_args_mono _ (Nat.max g1 g2) _ _ _ _ _ _ A2 ltac:(discriminate) ltac:(lia)).
        -- destruct (IHa _ _ _ _ _ _ _ E2 ltac:(discriminate) I1) as (I2 & F2 & A2).
           rewrite D1, P1 in A2. inv_pair.
           split; [assumption|]. split; [eapply frame_trans; eauto|]. intros Hmk; openA. destruct A1 as (g1 & A1).
           destruct A2 as [->|(g2 & A2)]; [now left|right].
           exists (S (Nat.max g1 g2)). simpl.
           rewrite (sp_expr_mono _ (Nat.max g1 g2) _ _ _ _ _ _ A1 ltac:(discriminate) ltac:(lia)).
           now rewrite (sp_args_mono _ (Nat.max g1 g2) _ _ _ _ _ _ A2 ltac:(discriminate) ltac:(lia)).
        -- inv_pair. congruence.
      * destruct (IHe _ _ _ _ _ _ _ E1 ltac:(discriminate) HI) as (I1 & F1 & A1).
        inv_pair. split; [assumption|]. split; [assumption|]. intros Hmk; openA.
        destruct A1 as [->|(g1 & A1)]; [now left|right].
        exists (S g1). simpl. now rewrite A1.
      * inv_pair. congruence.
  - (* node *)
    intros st line i r st' H Hr HI. simpl in H.
    destruct (lookup_cell (s_cells st) (fst i)) as [cl|] eqn:El.
    + destruct (if cl_cached cl then lookup_data (s_data st) i else None) as [v|] eqn:Eh.
      * (* hit *)
        assert (Hst : Inv st' /\ frame st st').
        { destruct (nearest_cached st (s_stack st)); inv_pair;
            (split; [exact HI|apply frame_core; reflexivity]) || (split; [exact HI|apply frame_refl]). }
        destruct Hst as (I' & F').
        assert (r = Val v) as -> by (destruct (nearest_cached st (s_stack st)); now inv_pair).
        split; [assumption|]. split; [assumption|]. intros Hmk; openA.
        destruct (cl_cached cl) eqn:Ec; [|discriminate].
        destruct HI as (I1 & I2). destruct (I2 i v Eh) as [Hm|(g & Hg)].
        -- exists 1. simpl. unfold defs_of; simpl. rewrite El, Ec.
           now rewrite lookup_input_data, Hm, Eh.
        -- exists g. exact Hg.
      * (* miss *)
        eapply IHf; eauto.
    + inv_pair. leaf.
      right. exists 1. simpl. unfold defs_of; simpl. now rewrite El.
  - (* formula *)
    intros st cl i r st' H Hr HI El Em. simpl in H.
    destruct (Nat.ltb (s_maxdepth st) (List.length (s_stack st))).
    { inv_pair. leaf. now left. }
    set (st1 := upd_reent (upd_log (upd_stack st (i :: s_stack st)) (i :: s_log st))
                         (s_reent st || mem_item i (s_stack st))) in *.
    assert (I1 : Inv st1) by exact HI.
    destruct (exec_body f st1 (snd i) [] (cl_body cl) (cl_body cl) 0) as [[rb st2] ln] eqn:Eb.
    destruct rb as [v|k|].
    + destruct (IHb _ _ _ _ _ _ _ _ _ Eb ltac:(discriminate) I1) as (I2 & F2 & A2).
      change (defs_of st1) with (defs_of st) in A2. change (input_data st1) with (input_data st) in A2.
      destruct F2 as (S2 & K2 & M2 & P2).
      change (static st1) with (static st) in S2. change (s_stack st1) with (i :: s_stack st) in K2.
      change (s_data st1) with (s_data st) in M2. change (input_data st1) with (input_data st) in P2.
      destruct (tainted st2) eqn:Et.
      { (* a failure occurred under this formula: the value is returned, not kept *)
        assert (Hmiss : (if cl_cached cl then lookup_data (input_data st) i else None) = None).
        { destruct (cl_cached cl) eqn:Ec; [|reflexivity].
          exact (proj2 (miss_not_input st cl i HI Ec ltac:(now rewrite Ec))). }
        assert (Hcase : (v = VNone /\ cl_allow_none cl = false /\ (r, st') = (Err KNone, rollback_frame st2 0)) \/
                        (none_check cl v = Val v /\ (r, st') = (Val v, pop_tainted st2))).
        { unfold none_check. destruct v; [right; split; [reflexivity|now rewrite <- H]|].
          destruct (cl_allow_none cl); [right; split; [reflexivity|now rewrite <- H]|left; repeat split; now rewrite <- H]. }
        destruct (rollback_frame_fields st2 0) as (RS & RD & RK & _).
        assert (Hfr : forall s', static s' = static (rollback_frame st2 0) -> s_data s' = s_data (rollback_frame st2 0) ->
                                 s_stack s' = s_stack (rollback_frame st2 0) -> Inv s' /\ frame st s').
        { intros s' A B C. split; [apply (Inv_core st2 s'); [congruence|congruence|exact I2]|].
          repeat split.
          - congruence.
          - rewrite C, RK, K2. reflexivity.
          - intros j w Hl. rewrite B, RD. now apply M2.
          - transitivity (input_data st2); [apply input_data_core; congruence|exact P2]. }
        destruct Hcase as [(-> & Ea & H')|(Hnone & H')]; inversion H'; subst r st'; clear H'.
        - destruct (Hfr (rollback_frame st2 0) eq_refl eq_refl eq_refl) as (A & B). split; [exact A|]. split; [exact B|].
          intros Hmk; openA. destruct A2 as (g & A2).
          right. exists (S g). simpl. unfold defs_of in *; simpl in *.
          rewrite El, Hmiss, A2. unfold none_check. now rewrite Ea.
        - destruct (Hfr (pop_tainted st2) eq_refl eq_refl eq_refl) as (A & B). split; [exact A|]. split; [exact B|].
          intros Hmk; openA. destruct A2 as (g & A2).
          exists (S g). simpl. unfold defs_of in *; simpl in *.
          now rewrite El, Hmiss, A2. }
      (* untainted: nothing was counted under this formula *)
      specialize (A2 (body_clean_masks _ _ _ _ _ _ _ _ _ _ Eb Et)). destruct A2 as (g & A2).
      destruct (cl_cached cl) eqn:Ec.
      * destruct (miss_not_input st cl i HI Ec ltac:(now rewrite Ec)) as (Hni & Hli).
        unfold store_value in H.
        assert (Hcase : (v = VNone /\ cl_allow_none cl = false) \/
                        store_value st2 cl i v = (Val v, upd_data st2 (set_data (s_data st2) i v))).
        { unfold store_value. destruct v; [now right|]. destruct (cl_allow_none cl); [now right|now left]. }
        destruct Hcase as [(-> & Ea)|Hs].
        -- rewrite Ea in H. inv_pair.
           destruct (rollback_frame_fields st2 0) as (RS & RD & RK & _).
           split; [eapply Inv_core; eauto|].
           split.
           { repeat split.
             - congruence.
             - rewrite RK, K2. reflexivity.
             - intros j w Hl. rewrite RD. now apply M2.
             - rewrite (input_data_core _ _ RS RD). exact P2. }
           intros _. right. exists (S g). simpl. unfold defs_of in *; simpl in *.
           rewrite El, Ec, Hli, A2. unfold none_check. now rewrite Ea.
        -- unfold store_value in Hs.
           assert (H' : (r, st') = (Val v, pop_frame (upd_data st2 (set_data (s_data st2) i v)))).
           { rewrite <- H. destruct v; [reflexivity|]. destruct (cl_allow_none cl) eqn:Ea; [reflexivity|].
             inversion Hs. }
           inversion H'; subst r st'; clear H'.
           set (st3 := upd_data st2 (set_data (s_data st2) i v)).
           destruct (pop_frame_fields st3) as (PS & PD & PK & _).
           assert (Hni2 : mem_item i (s_inputs st2) = false)
             by (now rewrite (static_inputs _ _ S2)).
           assert (Hnone : none_check cl v = Val v).
           { unfold none_check. destruct v; [reflexivity|].
             destruct (cl_allow_none cl) eqn:Ea; [reflexivity|]. exfalso.
             unfold store_value in Hs; try rewrite Ea in Hs; discriminate. }
           assert (Hsp : exists g', spec_eval g' st2 i = Val v).
           { exists (S g). unfold spec_eval. rewrite (static_defs _ _ S2), P2.
             simpl. unfold defs_of in *; simpl in *. now rewrite El, Ec, Hli, A2. }
           assert (I3 : Inv st3) by (apply Inv_store; assumption).
           split; [eapply Inv_core; eauto|].
           split.
           { repeat split.
             - rewrite PS. exact S2.
             - rewrite PK. simpl. now rewrite K2.
             - intros j w Hl. rewrite PD. simpl.
               destruct (item_eqb j i) eqn:E.
               + apply item_eqb_eq in E; subst j. congruence.
               + apply item_eqb_neq in E. rewrite lookup_set_other by assumption. now apply M2.
             - rewrite (input_data_core _ _ PS PD). unfold st3, input_data; simpl.
               rewrite (filter_set_data (fun x => mem_item x (s_inputs st2))) by assumption.
               exact P2. }
           intros _. exists (S g). simpl. unfold defs_of in *; simpl in *. now rewrite El, Ec, Hli, A2.
      * assert (Hcase : (v = VNone /\ cl_allow_none cl = false /\ (r, st') = (Err KNone, rollback_frame st2 0)) \/
                        (none_check cl v = Val v /\ (r, st') = (Val v, pop_frame st2))).
        { unfold none_check. destruct v; [right; split; [reflexivity|now rewrite <- H]|].
          destruct (cl_allow_none cl); [right; split; [reflexivity|now rewrite <- H]|left; repeat split; now rewrite <- H]. }
        destruct Hcase as [(-> & Ea & H')|(Hnone & H')]; inversion H'; subst r st'; clear H'.
        -- destruct (rollback_frame_fields st2 0) as (RS & RD & RK & _).
           split; [eapply Inv_core; eauto|].
           split.
           { repeat split.
             - congruence.
             - rewrite RK, K2. reflexivity.
             - intros j w Hl. rewrite RD. now apply M2.
             - rewrite (input_data_core _ _ RS RD). exact P2. }
           intros _. right. exists (S g). simpl. unfold defs_of in *; simpl in *.
           rewrite El, Ec, A2. unfold none_check. now rewrite Ea.
        -- destruct (pop_frame_fields st2) as (PS & PD & PK & _).
           split; [eapply Inv_core; eauto|].
           split.
           { repeat split.
             - congruence.
             - rewrite PK, K2. reflexivity.
             - intros j w Hl. rewrite PD. now apply M2.
             - rewrite (input_data_core _ _ PS PD). exact P2. }
           intros _. exists (S g). simpl. unfold defs_of in *; simpl in *.
           now rewrite El, Ec, A2.
    + destruct (IHb _ _ _ _ _ _ _ _ _ Eb ltac:(discriminate) I1) as (I2 & F2 & A2).
      change (defs_of st1) with (defs_of st) in A2. change (input_data st1) with (input_data st) in A2.
      destruct F2 as (S2 & K2 & M2 & P2).
      change (static st1) with (static st) in S2. change (s_stack st1) with (i :: s_stack st) in K2.
      change (s_data st1) with (s_data st) in M2. change (input_data st1) with (input_data st) in P2.
      inv_pair.
      destruct (rollback_frame_fields st2 ln) as (RS & RD & RK & _).
      split; [eapply Inv_core; eauto|].
      split.
      { repeat split.
        - congruence.
        - rewrite RK, K2. reflexivity.
        - intros j w Hl. rewrite RD. now apply M2.
        - rewrite (input_data_core _ _ RS RD). exact P2. }
      intros Hmk; openA.
      destruct A2 as [->|(g & A2)]; [now left|right].
      exists (S g). simpl. unfold defs_of in *; simpl in *.
      destruct (cl_cached cl) eqn:Ec.
      * destruct (miss_not_input st cl i HI Ec ltac:(now rewrite Ec)) as (Hni & Hli).
        now rewrite El, Ec, Hli, A2.
      * now rewrite El, Ec, A2.
    + inv_pair. congruence.
  - (* body *)
    intros st args locs whole rest idx r st' ln H Hr HI.
    destruct rest as [|s more]; simpl in H.
    + inversion H; subst. leaf. exists 1. reflexivity.
    + destruct s as [e|e h|e fc].
      * destruct (eval_expr f st args locs (stmt_line whole idx) e) as [[v|k|] st1] eqn:E1.
        -- destruct (IHe _ _ _ _ _ _ _ E1 ltac:(discriminate) HI) as (I1 & F1 & A1).
           destruct (frame_defs _ _ F1) as (D1 & P1).
           destruct (IHb _ _ _ _ _ _ _ _ _ H Hr I1) as (I2 & F2 & A2).
           rewrite D1, P1 in A2.
           split; [assumption|]. split; [eapply frame_trans; eauto|]. intros Hmk; openA. destruct A1 as (g1 & A1).
           destruct r as [w|kk|]; simpl in *.
           ++ destruct A2 as (g2 & A2). exists (S (Nat.max g1 g2)). simpl.
              rewrite (sp_expr_mono _ (Nat.max g1 g2) _ _ _ _ _ _ A1 ltac:(discriminate) ltac:(lia)).
              apply (sp_body_mono _ _ _ _ _ _ _ _ A2); [discriminate|lia].
           ++ destruct A2 as [->|(g2 & A2)]; [now left|right].
              exists (S (Nat.max g1 g2)). simpl.
              rewrite (sp_expr_mono _ (Nat.max g1 g2) _ _ _ _ _ _ A1 ltac:(discriminate) ltac:(lia)).
              apply (sp_body_mono _ _ _ _ _ _ _ _ A2); [discriminate|lia].
           ++ exact I.
        -- destruct (IHe _ _ _ _ _ _ _ E1 ltac:(discriminate) HI) as (I1 & F1 & A1).
           inversion H; subst. split; [assumption|]. split; [assumption|]. intros Hmk; openA.
           destruct A1 as [->|(g1 & A1)]; [now left|right].
           exists (S g1). simpl. now rewrite A1.
        -- inversion H; subst. congruence.
      * destruct (eval_expr f st args locs (stmt_line whole idx + 1) e) as [[v|k|] st1] eqn:E1.
        -- destruct (IHe _ _ _ _ _ _ _ E1 ltac:(discriminate) HI) as (I1 & F1 & A1).
           destruct (frame_defs _ _ F1) as (D1 & P1).
           destruct (IHb _ _ _ _ _ _ _ _ _ H Hr I1) as (I2 & F2 & A2).
           rewrite D1, P1 in A2.
           split; [assumption|]. split; [eapply frame_trans; eauto|]. intros Hmk; openA. destruct A1 as (g1 & A1).
           destruct r as [w|kk|]; simpl in *.
           ++ destruct A2 as (g2 & A2). exists (S (Nat.max g1 g2)). simpl.
              rewrite (sp_expr_mono _ (Nat.max g1 g2) _ _ _ _ _ _ A1 ltac:(discriminate) ltac:(lia)).
              apply (sp_body_mono _ _ _ _ _ _ _ _ A2); [discriminate|lia].
           ++ destruct A2 as [->|(g2 & A2)]; [now left|right].
              exists (S (Nat.max g1 g2)). simpl.
              rewrite (sp_expr_mono _ (Nat.max g1 g2) _ _ _ _ _ _ A1 ltac:(discriminate) ltac:(lia)).
              apply (sp_body_mono _ _ _ _ _ _ _ _ A2); [discriminate|lia].
           ++ exact I.
        -- destruct (IHe _ _ _ _ _ _ _ E1 ltac:(discriminate) HI) as (I1 & F1 & A1).
           destruct (frame_defs _ _ F1) as (D1 & P1).
           destruct (catchable k) eqn:Ek.
           ++ set (st1' := upd_rolled st1 []) in *.
              assert (I1' : Inv st1') by exact I1.
              destruct (eval_expr f st1' args locs (stmt_line whole idx + 3) h) as [[v|k2|] st2] eqn:E2.
              ** destruct (IHe _ _ _ _ _ _ _ E2 ltac:(discriminate) I1') as (I2 & F2 & A2).
                 change (defs_of st1') with (defs_of st1) in A2.
                 change (input_data st1') with (input_data st1) in A2.
                 rewrite D1, P1 in A2.
                 assert (F12 : frame st st2).
                 { eapply frame_trans; [exact F1|]. destruct F2 as (a & b & c & d). repeat split; assumption. }
                 destruct (frame_defs _ _ F12) as (D2 & P2).
                 destruct (IHb _ _ _ _ _ _ _ _ _ H Hr I2) as (I3 & F3 & A3).
                 rewrite D2, P2 in A3.
                 split; [assumption|]. split; [eapply frame_trans; eauto|]. intros Hmk; openA.
                 assert (A1' : exists g1, sp_expr g1 (defs_of st) (input_data st) args locs e = Err k).
                 { destruct A1 as [->|A1]; [discriminate|exact A1]. }
                 destruct A1' as (g1 & A1'). destruct A2 as (g2 & A2).
                 set (G := Nat.max g1 g2).
                 destruct r as [w|kk|]; simpl in *.
                 --- destruct A3 as (g3 & A3). exists (S (Nat.max G g3)). simpl.
                     rewrite (sp_expr_mono _ (Nat.max G g3) _ _ _ _ _ _ A1' ltac:(discriminate) ltac:(lia)), Ek.
                     rewrite (sp_expr_mono _ (Nat.max G g3) _ _ _ _ _ _ A2 ltac:(discriminate) ltac:(lia)).
                     apply (sp_body_mono _ _ _ _ _ _ _ _ A3); [discriminate|lia].
                 --- destruct A3 as [->|(g3 & A3)]; [now left|right].
                     exists (S (Nat.max G g3)). simpl.
                     rewrite (sp_expr_mono _ (Nat.max G g3) _ _ _ _ _ _ A1' ltac:(discriminate) ltac:(lia)), Ek.
                     rewrite (sp_expr_mono _ (Nat.max G g3) _ _ _ _ _ _ A2 ltac:(discriminate) ltac:(lia)).
                     apply (sp_body_mono _ _ _ _ _ _ _ _ A3); [discriminate|lia].
                 --- exact I.
              ** destruct (IHe _ _ _ _ _ _ _ E2 ltac:(discriminate) I1') as (I2 & F2 & A2).
                 change (defs_of st1') with (defs_of st1) in A2.
                 change (input_data st1') with (input_data st1) in A2.
                 rewrite D1, P1 in A2.
                 inversion H; subst.
                 split; [assumption|].
                 split. { eapply frame_trans; [exact F1|]. destruct F2 as (a & b & c & d). repeat split; assumption. }
                 intros Hmk; openA.
                 assert (A1' : exists g1, sp_expr g1 (defs_of st) (input_data st) args locs e = Err k).
                 { destruct A1 as [->|A1]; [discriminate|exact A1]. }
                 destruct A1' as (g1 & A1').
                 destruct A2 as [->|(g2 & A2)]; [now left|right].
                 exists (S (Nat.max g1 g2)). simpl.
                 rewrite (sp_expr_mono _ (Nat.max g1 g2) _ _ _ _ _ _ A1' ltac:(discriminate) ltac:(lia)), Ek.
                 now rewrite (sp_expr_mono _ (Nat.max g1 g2) _ _ _ _ _ _ A2 ltac:(discriminate) ltac:(lia)).
              ** inversion H; subst. congruence.
           ++ inversion H; subst. split; [assumption|]. split; [assumption|]. intros Hmk; openA.
              destruct A1 as [->|(g1 & A1)]; [now left|right].
              exists (S g1). simpl. now rewrite A1, Ek.
        -- inversion H; subst. congruence.
      * (* SFin *)
        destruct (eval_expr f st args locs (stmt_line whole idx + 1) e) as [[v|k|] st1] eqn:E1.
        -- destruct (IHe _ _ _ _ _ _ _ E1 ltac:(discriminate) HI) as (I1 & F1 & A1).
           destruct (frame_defs _ _ F1) as (D1 & P1).
           destruct (eval_expr f st1 args locs (stmt_line whole idx + 3) fc) as [[w|k2|] st2] eqn:E2.
           ++ destruct (IHe _ _ _ _ _ _ _ E2 ltac:(discriminate) I1) as (I2 & F2 & A2).
              rewrite D1, P1 in A2.
              assert (F12 : frame st st2) by (eapply frame_trans; eauto).
              destruct (frame_defs _ _ F12) as (D2 & P2).
              destruct (IHb _ _ _ _ _ _ _ _ _ H Hr I2) as (I3 & F3 & A3).
              rewrite D2, P2 in A3.
              split; [assumption|]. split; [eapply frame_trans; eauto|]. intros Hmk; openA.
              destruct A1 as (g1 & A1). destruct A2 as (g2 & A2).
              set (G := Nat.max g1 g2).
              destruct r as [x|kk|]; simpl in *.
              --- destruct A3 as (g3 & A3). exists (S (Nat.max G g3)). simpl.
                  rewrite (sp_expr_mono _ (Nat.max G g3) _ _ _ _ _ _ A1 ltac:(discriminate) ltac:(lia)).
                  rewrite (sp_expr_mono _ (Nat.max G g3) _ _ _ _ _ _ A2 ltac:(discriminate) ltac:(lia)).
                  apply (sp_body_mono _ _ _ _ _ _ _ _ A3); [discriminate|lia].
              --- destruct A3 as [->|(g3 & A3)]; [now left|right].
                  exists (S (Nat.max G g3)). simpl.
                  rewrite (sp_expr_mono _ (Nat.max G g3) _ _ _ _ _ _ A1 ltac:(discriminate) ltac:(lia)).
                  rewrite (sp_expr_mono _ (Nat.max G g3) _ _ _ _ _ _ A2 ltac:(discriminate) ltac:(lia)).
                  apply (sp_body_mono _ _ _ _ _ _ _ _ A3); [discriminate|lia].
              --- exact I.
           ++ destruct (IHe _ _ _ _ _ _ _ E2 ltac:(discriminate) I1) as (I2 & F2 & A2).
              rewrite D1, P1 in A2. inversion H; subst.
              split; [assumption|]. split; [eapply frame_trans; eauto|]. intros Hmk; openA.
              destruct A1 as (g1 & A1).
              destruct A2 as [->|(g2 & A2)]; [now left|right].
              exists (S (Nat.max g1 g2)). simpl.
              rewrite (sp_expr_mono _ (Nat.max g1 g2) _ _ _ _ _ _ A1 ltac:(discriminate) ltac:(lia)).
              now rewrite (sp_expr_mono _ (Nat.max g1 g2) _ _ _ _ _ _ A2 ltac:(discriminate) ltac:(lia)).
           ++ inversion H; subst. congruence.
        -- destruct (IHe _ _ _ _ _ _ _ E1 ltac:(discriminate) HI) as (I1 & F1 & A1).
           destruct (frame_defs _ _ F1) as (D1 & P1).
           set (st1' := upd_rolled st1 []) in *.
           assert (I1' : Inv st1') by exact I1.
           destruct (eval_expr f st1' args locs (stmt_line whole idx + 3) fc) as [[w|k2|] st2] eqn:E2.
           ++ destruct (IHe _ _ _ _ _ _ _ E2 ltac:(discriminate) I1') as (I2 & F2 & A2).
              change (defs_of st1') with (defs_of st1) in A2.
              change (input_data st1') with (input_data st1) in A2.
              rewrite D1, P1 in A2. inversion H; subst.
              split; [exact I2|].
              split. { eapply frame_trans; [exact F1|]. destruct F2 as (a & b & c & d). repeat split; assumption. }
              intros Hmk; openA.
              destruct A2 as (g2 & A2).
              destruct A1 as [->|(g1 & A1)]; [now left|right].
              exists (S (Nat.max g1 g2)). simpl.
              rewrite (sp_expr_mono _ (Nat.max g1 g2) _ _ _ _ _ _ A1 ltac:(discriminate) ltac:(lia)).
              now rewrite (sp_expr_mono _ (Nat.max g1 g2) _ _ _ _ _ _ A2 ltac:(discriminate) ltac:(lia)).
           ++ destruct (IHe _ _ _ _ _ _ _ E2 ltac:(discriminate) I1') as (I2 & F2 & A2).
              change (defs_of st1') with (defs_of st1) in A2.
              change (input_data st1') with (input_data st1) in A2.
              rewrite D1, P1 in A2. inversion H; subst.
              assert (F12 : frame st st2).
              { eapply frame_trans; [exact F1|]. destruct F2 as (a & b & c & d). repeat split; assumption. }
              destruct (ekind_eqb k KDeep) eqn:Ed.
              { (* the depth-limit error is replaced: counted, nothing is claimed *)
                split; [exact I2|]. split; [exact F12|].
                intros Hmk. exfalso. clear A1 A2. mk. }
              split; [exact I2|]. split; [exact F12|].
              intros Hmk; openA.
              destruct A1 as [->|(g1 & A1)]; [discriminate|].
              destruct A2 as [->|(g2 & A2)]; [now left|right].
              exists (S (Nat.max g1 g2)). simpl.
              rewrite (sp_expr_mono _ (Nat.max g1 g2) _ _ _ _ _ _ A1 ltac:(discriminate) ltac:(lia)).
              now rewrite (sp_expr_mono _ (Nat.max g1 g2) _ _ _ _ _ _ A2 ltac:(discriminate) ltac:(lia)).
           ++ inversion H; subst. congruence.
        -- inversion H; subst. congruence.
Qed.
