(** K4, part 1: the dependency-coverage invariant and how the stack
    operations act on the graphs. *)
From Coq Require Import List ZArith Bool Arith Lia.
From MX Require Import Exec.Model Exec.Spec Exec.Basics Exec.SpecMono Exec.Sim Exec.Reads.
Import ListNotations.

(** * Coverage of reads *)
Definition has (st : state) (i : item) : Prop := lookup_data (s_data st) i <> None.

Definition cov_rd (st : state) (j : item) (x : rd) : Prop :=
  match x with
  | RItem m => In (node_of m, node_of j) (s_edges st) /\ has st m
  | RObj c => In (NObj c, node_of j) (s_edges st)
  | RAttr r => In (r, j) (s_redges st)
  | RName c r => c = fst j \/ In (NObj c, node_of j) (s_edges st)
  | RMask => False
  end.

(** coverage of the reads made so far by the frame of cells [me] at depth
    [d], whose nearest cached frame (itself included) is [nc] *)
Definition cov_pending (st : state) (nc : option item) (me : cid) (d : nat) (x : rd) : Prop :=
  match nc with
  | None => True
  | Some j =>
      match x with
      | RItem _ | RObj _ | RMask => cov_rd st j x
      | RAttr r => In (r, j) (s_redges st) \/ In (d, r) (s_refstack st)
      | RName c r => c = me \/ In (NObj c, node_of j) (s_edges st)
      end
  end.

(** reference stack: depths weakly decreasing from the head, all below [n] *)
Fixpoint rs_ok (n : nat) (rs : list (nat * rid)) : Prop :=
  match rs with
  | [] => True
  | (d, _) :: t => d < n /\ rs_ok (S d) t
  end.

Record Cov (st : state) : Prop := mkCov {
  cv_node : forall i, has st i -> In (node_of i) (s_nodes st);
  cv_cached : forall i, has st i -> is_cached st (fst i) = true;
  cv_reads : forall j v, lookup_data (s_data st) j = Some v -> mem_item j (s_inputs st) = false ->
             exists f ds, dr_own f (defs_of st) (input_data st) j = (Val v, ds) /\
                          Forall (cov_rd st j) ds;
  cv_input : forall a i, In (a, node_of i) (s_edges st) -> mem_item i (s_inputs st) = false;
  cv_edge : forall a b, In (a, b) (s_edges st) -> In a (s_nodes st) /\ In b (s_nodes st);
  cv_items : forall i, In (node_of i) (s_nodes st) ->
             is_cached st (fst i) = true /\ (has st i \/ In i (s_stack st));
  cv_refs : rs_ok (List.length (s_stack st)) (s_refstack st);
  cv_obj : forall c, In (NObj c) (s_nodes st) -> is_cached st c = false;
  cv_taint : s_taint st <= List.length (s_stack st) }.

Definition StackOK (st : state) : Prop :=
  forall x, In x (s_stack st) -> is_cached st (fst x) = true -> lookup_data (s_data st) x = None.

Definition Good (st : state) : Prop := Inv st /\ Cov st /\ StackOK st.

(** growth of the graphs and the cache (successful evaluations only add) *)
Definition Grow (st st' : state) : Prop :=
  incl (s_edges st) (s_edges st') /\ incl (s_nodes st) (s_nodes st') /\
  incl (s_redges st) (s_redges st') /\
  (forall i, has st i -> has st' i).

Lemma Grow_refl st : Grow st st.
Proof. repeat split; auto using incl_refl. Qed.
Lemma Grow_trans a b c : Grow a b -> Grow b c -> Grow a c.
Proof.
  intros (A1 & A2 & A3 & A4) (B1 & B2 & B3 & B4).
  repeat split; eauto using incl_tran.
Qed.

Lemma cov_rd_grow st st' j x : Grow st st' -> cov_rd st j x -> cov_rd st' j x.
Proof.
  intros (A1 & A2 & A3 & A4). destruct x; simpl.
  - intros (E & H). split; [now apply A1|now apply A4].
  - intros E. now apply A1.
  - intros E. now apply A3.
  - intros [E|E]; [now left|right; now apply A1].
  - intros [].
Qed.

(** * nearest_cached and is_cached depend on the cells only *)
Lemma is_cached_cells st st' c : s_cells st' = s_cells st -> is_cached st' c = is_cached st c.
Proof. unfold is_cached. now intros ->. Qed.
Lemma nearest_cached_cells st st' stk :
  s_cells st' = s_cells st -> nearest_cached st' stk = nearest_cached st stk.
Proof.
  intros E. induction stk as [|i rest IH]; simpl; [reflexivity|].
  now rewrite (is_cached_cells _ _ _ E), IH.
Qed.
Lemma nearest_cached_in st stk j : nearest_cached st stk = Some j -> In j stk /\ is_cached st (fst j) = true.
Proof.
  induction stk as [|i rest IH]; simpl; [discriminate|].
  destruct (is_cached st (fst i)) eqn:E.
  - intros H; inversion H; subst. split; [now left|assumption].
  - intros H. destruct (IH H). split; [now right|assumption].
Qed.

(** * Lists as sets: adding *)
Lemma in_add_node n m l : In n (add_node_l m l) <-> n = m \/ In n l.
Proof.
  unfold add_node_l. destruct (mem_node m l) eqn:E.
  - split; [now right|]. intros [->|H]; [now apply mem_node_In|assumption].
  - rewrite in_app_iff. simpl. split; [intros [H|[H|[]]]; auto|intros [H|H]; auto].
Qed.

Lemma edge_eqb_eq a b : edge_eqb a b = true <-> a = b.
Proof.
  destruct a as [a1 a2], b as [b1 b2]. unfold edge_eqb; simpl. rewrite andb_true_iff, !node_eqb_eq.
  split; [intros (-> & ->); reflexivity|intros H; inversion H; auto].
Qed.
Lemma mem_edge_In e l : mem_edge e l = true <-> In e l.
Proof.
  unfold mem_edge. rewrite existsb_exists. split.
  - intros (x & Hx & E). apply edge_eqb_eq in E. now subst.
  - intros H. exists e. split; [assumption|now apply edge_eqb_eq].
Qed.

Lemma g_add_edge_edges st a b e :
  In e (s_edges (g_add_edge st a b)) <-> e = (a, b) \/ In e (s_edges st).
Proof.
  unfold g_add_edge; simpl. destruct (mem_edge (a, b) (s_edges st)) eqn:E.
  - split; [now right|]. intros [->|H]; [now apply mem_edge_In|assumption].
  - rewrite in_app_iff. simpl. split; [intros [H|[H|[]]]; auto|intros [H|H]; auto].
Qed.
Lemma g_add_edge_nodes st a b n :
  In n (s_nodes (g_add_edge st a b)) <-> n = a \/ n = b \/ In n (s_nodes st).
Proof. unfold g_add_edge; simpl. rewrite !in_add_node. tauto. Qed.
Lemma g_add_node_nodes st a n : In n (s_nodes (g_add_node st a)) <-> n = a \/ In n (s_nodes st).
Proof. unfold g_add_node; simpl. apply in_add_node. Qed.

Lemma redge_eqb_eq a b : redge_eqb a b = true <-> a = b.
Proof.
  destruct a as [a1 a2], b as [b1 b2]. unfold redge_eqb; simpl.
  rewrite andb_true_iff, Nat.eqb_eq, item_eqb_eq.
  split; [intros (-> & ->); reflexivity|intros H; inversion H; auto].
Qed.
Lemma rg_add_edge_redges st r i e :
  In e (s_redges (rg_add_edge st r i)) <-> e = (r, i) \/ In e (s_redges st).
Proof.
  unfold rg_add_edge; simpl. destruct (existsb (redge_eqb (r, i)) (s_redges st)) eqn:E.
  - split; [now right|]. intros [->|H]; [|assumption].
    apply existsb_exists in E as (x & Hx & Ex). apply redge_eqb_eq in Ex. now subst.
  - rewrite in_app_iff. simpl. split; [intros [H|[H|[]]]; auto|intros [H|H]; auto].
Qed.

(** * rs_ok *)
Lemma rs_ok_weaken n m rs : n <= m -> rs_ok n rs -> rs_ok m rs.
Proof. destruct rs as [|[d r] t]; simpl; [auto|]. intros L (A & B). split; [lia|assumption]. Qed.

Lemma drop_refs_ok d rs : rs_ok (S d) rs -> rs_ok d (drop_refs d rs).
Proof.
  induction rs as [|[d' r] t IH]; simpl; [auto|]. intros (A & B).
  destruct (Nat.eqb d' d) eqn:E.
  - apply Nat.eqb_eq in E; subst d'. now apply IH.
  - apply Nat.eqb_neq in E. simpl. split; [lia|assumption].
Qed.

Lemma pop_refs_ok st d t rs : rs_ok (S d) rs -> rs_ok d (snd (pop_refs st d t rs)).
Proof.
  revert st; induction rs as [|[d' r] tl IH]; intros st; simpl; [auto|]. intros (A & B).
  destruct (Nat.eqb d' d) eqn:E.
  - apply Nat.eqb_eq in E; subst d'. now apply IH.
  - apply Nat.eqb_neq in E. simpl. split; [lia|assumption].
Qed.

Lemma pop_refs_redges st d t rs e :
  In e (s_redges (fst (pop_refs st d t rs))) ->
  In e (s_redges st) \/ exists r, e = (r, t) /\ In (d, r) rs.
Proof.
  revert st; induction rs as [|[d' r] tl IH]; intros st; simpl; [now left|].
  destruct (Nat.eqb d' d) eqn:E.
  - apply Nat.eqb_eq in E; subst d'. intros H. destruct (IH _ H) as [H1|(r' & -> & H1)].
    + apply rg_add_edge_redges in H1 as [->|H1]; [right; exists r; split; [reflexivity|now left]|now left].
    + right. exists r'. split; [reflexivity|now right].
  - simpl. now left.
Qed.

Lemma pop_refs_keeps st d t rs e :
  In e (s_redges st) -> In e (s_redges (fst (pop_refs st d t rs))).
Proof.
  revert st; induction rs as [|[d' r] tl IH]; intros st H; simpl; [assumption|].
  destruct (Nat.eqb d' d); [|assumption]. apply IH. apply rg_add_edge_redges. now right.
Qed.

Lemma pop_refs_adds st d t rs r :
  rs_ok (S d) rs -> In (d, r) rs -> In (r, t) (s_redges (fst (pop_refs st d t rs))).
Proof.
  revert st; induction rs as [|[d' r'] tl IH]; intros st Hok Hin; simpl; [destruct Hin|].
  simpl in Hok. destruct Hok as (A & B).
  destruct (Nat.eqb d' d) eqn:E.
  - apply Nat.eqb_eq in E; subst d'. destruct Hin as [Hin|Hin].
    + inversion Hin; subst. apply pop_refs_keeps. apply rg_add_edge_redges. now left.
    + now apply IH.
  - apply Nat.eqb_neq in E. exfalso. destruct Hin as [Hin|Hin]; [inversion Hin; congruence|].
    (* deeper entries have depth <= d' < d *)
    assert (Hlt : d' < d) by lia.
    clear - B Hin Hlt. revert d' B Hlt. induction tl as [|[d2 r2] tl IH]; intros d' B Hlt; [destruct Hin|].
    simpl in B. destruct B as (B1 & B2). destruct Hin as [Hin|Hin].
    + inversion Hin; subst. lia.
    + apply (IH Hin d2 B2). lia.
Qed.

Lemma pop_refs_taint st d t rs : s_taint (fst (pop_refs st d t rs)) = s_taint st.
Proof.
  revert st; induction rs as [|[d' r'] tl IH]; intros st; simpl; [reflexivity|].
  destruct (Nat.eqb d' d); [|reflexivity]. now rewrite IH.
Qed.

Lemma pop_refs_other st d t rs :
  let r := pop_refs st d t rs in
  s_edges (fst r) = s_edges st /\ s_nodes (fst r) = s_nodes st /\ s_refstack (fst r) = s_refstack st
  /\ s_reent (fst r) = s_reent st.
Proof.
  revert st; induction rs as [|[d' r'] tl IH]; intros st; simpl; [repeat split|].
  destruct (Nat.eqb d' d); [|repeat split].
  specialize (IH (rg_add_edge st r' t)). simpl in IH. exact IH.
Qed.

(** * What [pop_frame] and [rollback_frame] do to the graphs *)
Definition pop_src (st : state) (i : item) : node :=
  if is_cached st (fst i) then node_of i else NObj (fst i).
Definition pop_target (st : state) (i : item) (rest : list item) : option item :=
  if is_cached st (fst i) then Some i else None.

Lemma move_refs_ok d rs : 1 <= d -> rs_ok (S d) rs -> rs_ok d (move_refs d rs).
Proof.
  intros Hd. induction rs as [|[d' r] t IH]; simpl; [auto|]. intros (A & B).
  destruct (Nat.eqb d' d) eqn:E.
  - apply Nat.eqb_eq in E; subst d'. simpl. split; [lia|].
    replace (S (d - 1)) with d by lia. now apply IH.
  - apply Nat.eqb_neq in E. simpl. split; [lia|assumption].
Qed.

Lemma move_refs_moves d rs r :
  rs_ok (S d) rs -> In (d, r) rs -> In (d - 1, r) (move_refs d rs).
Proof.
  induction rs as [|[d' r'] tl IH]; intros Hok Hin; simpl; [destruct Hin|].
  simpl in Hok. destruct Hok as (A & B).
  destruct (Nat.eqb d' d) eqn:E.
  - apply Nat.eqb_eq in E; subst d'. destruct Hin as [Hin|Hin].
    + inversion Hin; subst. now left.
    + right. now apply IH.
  - apply Nat.eqb_neq in E. exfalso. destruct Hin as [Hin|Hin]; [inversion Hin; congruence|].
    assert (Hlt : d' < d) by lia.
    clear - B Hin Hlt. revert d' B Hlt. induction tl as [|[d2 r2] tl IH]; intros d' B Hlt; [destruct Hin|].
    simpl in B. destruct B as (B1 & B2). destruct Hin as [Hin|Hin].
    + inversion Hin; subst. lia.
    + apply (IH Hin d2 B2). lia.
Qed.

Lemma move_refs_keep_other d rs p : In p rs -> fst p <> d -> In p (move_refs d rs).
Proof.
  induction rs as [|[d' r'] tl IH]; intros Hin Hne; simpl; [destruct Hin|].
  destruct (Nat.eqb d' d) eqn:E.
  - apply Nat.eqb_eq in E; subst d'. destruct Hin as [<-|Hin]; [simpl in Hne; congruence|].
    right. now apply IH.
  - exact Hin.
Qed.

Lemma pop_frame_graph st i rest :
  s_stack st = i :: rest ->
  let st' := pop_frame st in
  (forall e, In e (s_edges st') <->
             In e (s_edges st) \/ exists jc, nearest_cached st rest = Some jc /\ e = (pop_src st i, node_of jc)) /\
  (forall n, In n (s_nodes st') <->
             In n (s_nodes st) \/
             (exists jc, nearest_cached st rest = Some jc /\ (n = pop_src st i \/ n = node_of jc)) \/
             (nearest_cached st rest = None /\ is_cached st (fst i) = true /\ n = node_of i)) /\
  (forall e, In e (s_redges st') ->
             In e (s_redges st) \/
             exists t r, pop_target st i rest = Some t /\ e = (r, t) /\ In (List.length rest, r) (s_refstack st)) /\
  (forall e, In e (s_redges st) -> In e (s_redges st')) /\
  (forall t r, pop_target st i rest = Some t -> rs_ok (S (List.length rest)) (s_refstack st) ->
               In (List.length rest, r) (s_refstack st) -> In (r, t) (s_redges st')) /\
  (rs_ok (S (List.length rest)) (s_refstack st) -> rs_ok (List.length rest) (s_refstack st')) /\
  s_reent st' = s_reent st /\
  (is_cached st (fst i) = false -> rest <> [] -> rs_ok (S (List.length rest)) (s_refstack st) ->
   forall r, In (List.length rest, r) (s_refstack st) -> In (List.length rest - 1, r) (s_refstack st')).
Proof.
  intros Es. unfold pop_frame. rewrite Es.
  set (st1 := upd_stack st rest).
  assert (Enc : nearest_cached st1 rest = nearest_cached st rest) by (now apply nearest_cached_cells).
  rewrite Enc. unfold pop_src, pop_target.
  destruct (is_cached st (fst i)) eqn:Ec; destruct (nearest_cached st rest) as [jc|] eqn:En.
  - (* cached, cached caller *)
    set (st2 := g_add_edge st1 (node_of i) (node_of jc)).
    pose proof (pop_refs_other st2 (List.length rest) i (s_refstack st2)) as PO.
    pose proof (pop_refs_redges st2 (List.length rest) i (s_refstack st2)) as PR.
    pose proof (pop_refs_keeps st2 (List.length rest) i (s_refstack st2)) as PK.
    pose proof (pop_refs_adds st2 (List.length rest) i (s_refstack st2)) as PA.
    pose proof (pop_refs_ok st2 (List.length rest) i (s_refstack st2)) as PS.
    destruct (pop_refs st2 (List.length rest) i (s_refstack st2)) as [st3 rs]. cbn [fst snd] in *.
    cbn [upd_refstack s_edges s_nodes s_redges s_refstack s_reent].
    destruct PO as (P1 & P2 & P3 & P4).
    split; [|split; [|split; [|split; [|split; [|split; [|split]]]]]].
    + intros e. rewrite P1. unfold st2. rewrite g_add_edge_edges. simpl.
      split; [intros [->|H]; [right; eexists; split; reflexivity|now left]
             |intros [H|(jc' & E & ->)]; [now right|left; now inversion E]].
    + intros n. rewrite P2. unfold st2. rewrite g_add_edge_nodes. simpl.
      split.
      * intros [->|[->|H]]; [right; left; eexists; split; [reflexivity|now left]
                            |right; left; eexists; split; [reflexivity|now right]|now left].
      * intros [H|[(jc' & E & [->| ->])|(E & _)]]; [auto|auto|inversion E; auto|discriminate].
    + intros e H. destruct (PR e H) as [H1|(r & -> & H1)]; [now left|].
      right. exists i, r. repeat split; assumption.
    + intros e H. apply PK. exact H.
    + intros t r E Hok Hin. inversion E; subst t. now apply PA.
    + intros Hok. now apply PS.
    + exact P4.
    + intros Hf. discriminate.
  - (* cached, no cached caller *)
    set (st2 := g_add_node st1 (node_of i)).
    pose proof (pop_refs_other st2 (List.length rest) i (s_refstack st2)) as PO.
    pose proof (pop_refs_redges st2 (List.length rest) i (s_refstack st2)) as PR.
    pose proof (pop_refs_keeps st2 (List.length rest) i (s_refstack st2)) as PK.
    pose proof (pop_refs_adds st2 (List.length rest) i (s_refstack st2)) as PA.
    pose proof (pop_refs_ok st2 (List.length rest) i (s_refstack st2)) as PS.
    destruct (pop_refs st2 (List.length rest) i (s_refstack st2)) as [st3 rs]. cbn [fst snd] in *.
    cbn [upd_refstack s_edges s_nodes s_redges s_refstack s_reent].
    destruct PO as (P1 & P2 & P3 & P4).
    split; [|split; [|split; [|split; [|split; [|split; [|split]]]]]].
    + intros e. rewrite P1. simpl. split; [now left|intros [H|(jc' & E & _)]; [assumption|discriminate]].
    + intros n. rewrite P2. unfold st2. rewrite g_add_node_nodes. simpl.
      split; [intros [->|H]; [right; right; auto|now left]
             |intros [H|[(jc' & E & _)|(_ & _ & ->)]]; [auto|discriminate|auto]].
    + intros e H. destruct (PR e H) as [H1|(r & -> & H1)]; [now left|].
      right. exists i, r. repeat split; assumption.
    + intros e H. apply PK. exact H.
    + intros t r E Hok Hin. inversion E; subst t. now apply PA.
    + intros Hok. now apply PS.
    + exact P4.
    + intros Hf. discriminate.
  - (* uncached, cached caller *)
    set (st2 := g_add_edge st1 (NObj (fst i)) (node_of jc)).
    assert (Hrest : rest <> []) by (intros ->; simpl in En; discriminate).
    destruct rest as [|x rest']; [contradiction|].
    cbn [upd_refstack s_edges s_nodes s_redges s_refstack s_reent].
    split; [|split; [|split; [|split; [|split; [|split; [|split]]]]]].
    + intros e. unfold st2. rewrite g_add_edge_edges. simpl.
      split; [intros [->|H]; [right; eexists; split; reflexivity|now left]
             |intros [H|(jc' & E & ->)]; [now right|left; now inversion E]].
    + intros n. unfold st2. rewrite g_add_edge_nodes. simpl.
      split.
      * intros [->|[->|H]]; [right; left; eexists; split; [reflexivity|now left]
                            |right; left; eexists; split; [reflexivity|now right]|now left].
      * intros [H|[(jc' & E & [->| ->])|(E & _)]]; [auto|auto|inversion E; auto|discriminate].
    + intros e H. now left.
    + intros e H. exact H.
    + intros t r E. discriminate.
    + intros Hok. apply move_refs_ok; [simpl; lia|exact Hok].
    + reflexivity.
    + intros _ _ Hok r Hin. now apply move_refs_moves.
  - (* uncached, no cached caller *)
    destruct rest as [|x rest'].
    + cbn [upd_refstack s_edges s_nodes s_redges s_refstack s_reent].
      split; [|split; [|split; [|split; [|split; [|split; [|split]]]]]].
      * intros e. split; [now left|intros [H|(jc' & E & _)]; [assumption|discriminate]].
      * intros n. split; [now left|intros [H|[(jc' & E & _)|(_ & E & _)]]; [assumption|discriminate|discriminate]].
      * intros e H. now left.
      * intros e H. exact H.
      * intros t r E. discriminate.
      * intros Hok. now apply drop_refs_ok.
      * reflexivity.
      * intros _ Hf. contradiction.
    + cbn [upd_refstack s_edges s_nodes s_redges s_refstack s_reent].
      split; [|split; [|split; [|split; [|split; [|split; [|split]]]]]].
      * intros e. split; [now left|intros [H|(jc' & E & _)]; [assumption|discriminate]].
      * intros n. split; [now left|intros [H|[(jc' & E & _)|(_ & E & _)]]; [assumption|discriminate|discriminate]].
      * intros e H. now left.
      * intros e H. exact H.
      * intros t r E. discriminate.
      * intros Hok. apply move_refs_ok; [simpl; lia|exact Hok].
      * reflexivity.
      * intros _ _ Hok r Hin. now apply move_refs_moves.
Qed.

Lemma rollback_frame_graph st i rest ln :
  s_stack st = i :: rest ->
  (forall a b, In (a, b) (s_edges st) -> In a (s_nodes st) /\ In b (s_nodes st)) ->
  let st' := rollback_frame st ln in
  (forall e, In e (s_edges st') <-> In e (s_edges st) /\ fst e <> node_of i /\ snd e <> node_of i) /\
  (forall n, In n (s_nodes st') <-> In n (s_nodes st) /\ n <> node_of i) /\
  s_redges st' = s_redges st /\
  (rs_ok (S (List.length rest)) (s_refstack st) -> rs_ok (List.length rest) (s_refstack st')) /\
  s_reent st' = s_reent st.
Proof.
  intros Es Hwf. unfold rollback_frame. rewrite Es. simpl.
  destruct (mem_node (node_of i) (s_nodes st)) eqn:Em; simpl.
  - split; [|split; [|split; [|split]]].
    + intros e. rewrite filter_In. unfold mem_node; simpl. rewrite !orb_false_r, andb_true_iff, !negb_true_iff.
      split.
      * intros (H & A & B). split; [assumption|]. split; intros E.
        -- rewrite E, node_eqb_refl in A. discriminate.
        -- rewrite E, node_eqb_refl in B. discriminate.
      * intros (H & A & B). split; [assumption|]. split.
        -- destruct (node_eqb (fst e) (node_of i)) eqn:E; [apply node_eqb_eq in E; contradiction|reflexivity].
        -- destruct (node_eqb (snd e) (node_of i)) eqn:E; [apply node_eqb_eq in E; contradiction|reflexivity].
    + intros n. rewrite filter_In. unfold mem_node; simpl. rewrite orb_false_r, negb_true_iff.
      split.
      * intros (H & A). split; [assumption|]. intros E. rewrite E, node_eqb_refl in A. discriminate.
      * intros (H & A). split; [assumption|].
        destruct (node_eqb n (node_of i)) eqn:E; [apply node_eqb_eq in E; contradiction|reflexivity].
    + reflexivity.
    + intros Hok. now apply drop_refs_ok.
    + reflexivity.
  - assert (Hn : ~ In (node_of i) (s_nodes st)).
    { intros H. apply mem_node_In in H. congruence. }
    split; [|split; [|split; [|split]]].
    + intros [a b]. split; [|tauto]. intros H. split; [assumption|].
      destruct (Hwf a b H) as (Ha & Hb). simpl. split; intros E; subst; contradiction.
    + intros n. split; [|tauto]. intros H. split; [assumption|]. intros E; subst; contradiction.
    + reflexivity.
    + intros Hok. now apply drop_refs_ok.
    + reflexivity.
Qed.

(** * The ghost flag only goes up *)
Lemma pop_frame_reent st : s_reent (pop_frame st) = s_reent st.
Proof.
  unfold pop_frame. destruct (s_stack st) as [|i rest]; [reflexivity|].
  set (st1 := upd_stack st rest).
  set (st2 := match nearest_cached st1 rest with
              | Some caller => if is_cached st (fst i) then g_add_edge st1 (node_of i) (node_of caller)
                               else g_add_edge st1 (NObj (fst i)) (node_of caller)
              | None => if is_cached st (fst i) then g_add_node st1 (node_of i) else st1
              end).
  assert (H2 : s_reent st2 = s_reent st).
  { unfold st2. destruct (nearest_cached st1 rest); destruct (is_cached st (fst i)); reflexivity. }
  destruct (is_cached st (fst i)).
  - pose proof (pop_refs_other st2 (List.length rest) i (s_refstack st2)) as P.
    destruct (pop_refs st2 (List.length rest) i (s_refstack st2)) as [st3 rs]. simpl in *.
    destruct P as (_ & _ & _ & P). congruence.
  - destruct rest; simpl; exact H2.
Qed.

Lemma rollback_frame_reent st ln : s_reent (rollback_frame st ln) = s_reent st.
Proof.
  unfold rollback_frame. destruct (s_stack st) as [|i rest]; [reflexivity|]. simpl.
  destruct (mem_node (node_of i) (s_nodes st)); reflexivity.
Qed.

Ltac pinv2 :=
  repeat match goal with
  | H : (_, _) = (_, _) |- _ => inversion H; subst; clear H
  end.

Lemma reent_mono_all : forall f,
  (forall st args locs line e r st', eval_expr f st args locs line e = (r, st') ->
     s_reent st = true -> s_reent st' = true) /\
  (forall st args locs line es r st', eval_args f st args locs line es = (r, st') ->
     s_reent st = true -> s_reent st' = true) /\
  (forall st line i r st', eval_node f st line i = (r, st') -> s_reent st = true -> s_reent st' = true) /\
  (forall st cl i r st', eval_formula f st cl i = (r, st') -> s_reent st = true -> s_reent st' = true) /\
  (forall st args locs whole rest idx r st' ln, exec_body f st args locs whole rest idx = (r, st', ln) ->
     s_reent st = true -> s_reent st' = true).
Proof.
  induction f as [|f (IHe & IHa & IHn & IHf & IHb)].
  { repeat split; intros; simpl in *; pinv2; assumption. }
  split; [|split; [|split; [|split]]].
  - intros st args locs line e r st' H Hs. destruct e; simpl in H; try (pinv2; assumption).
    + destruct (eval_expr f st args locs line e1) as [[va|k|] st1] eqn:E1; try (pinv2; eauto; fail).
      destruct (eval_expr f st1 args locs line e2) as [[vb|k|] st2] eqn:E2; pinv2; eauto.
    + destruct (eval_expr f st args locs line e1) as [[[z|]|k|] st1] eqn:E1; try (pinv2; eauto; fail).
      destruct (Z.ltb 0 z); eauto.
    + destruct (eval_args f st args locs line args0) as [[vs|k|] st1] eqn:E1; try (pinv2; eauto; fail).
      destruct (lookup_cell (s_cells st1) c) as [cl|]; [|pinv2; eauto].
      destruct (bind_pos cl vs); [|pinv2; eauto]. eauto.
    + destruct (lookup_ref (s_refs st) r0) as [[sp v]|]; pinv2; assumption.
  - intros st args locs line es r st' H Hs. destruct es as [|e rest]; simpl in H; [pinv2; assumption|].
    destruct (eval_expr f st args locs line e) as [[v|k|] st1] eqn:E1; try (pinv2; eauto; fail).
    destruct (eval_args f st1 args locs line rest) as [[vs|k|] st2] eqn:E2; pinv2; eauto.
  - intros st line i r st' H Hs. simpl in H.
    destruct (lookup_cell (s_cells st) (fst i)) as [cl|]; [|pinv2; assumption].
    destruct (if cl_cached cl then lookup_data (s_data st) i else None).
    + destruct (nearest_cached st (s_stack st)); pinv2; assumption.
    + eauto.
  - intros st cl i r st' H Hs. simpl in H.
    destruct (Nat.ltb (s_maxdepth st) (List.length (s_stack st))); [pinv2; assumption|].
    match type of H with context [exec_body f ?s1 _ _ _ _ _] => set (st1 := s1) in * end.
    assert (H1 : s_reent st1 = true) by (unfold st1; simpl; now rewrite Hs).
    destruct (exec_body f st1 (snd i) [] (cl_body cl) (cl_body cl) 0) as [[rb st2] ln] eqn:Eb.
    pose proof (IHb _ _ _ _ _ _ _ _ _ Eb H1) as H2.
    destruct rb as [v|k|].
    + destruct (tainted st2).
      { destruct v as [z|]; [|destruct (cl_allow_none cl)]; pinv2; unfold pop_tainted;
          rewrite ?rollback_frame_reent; try exact H2;
          (change (s_reent (upd_rolled (rollback_frame st2 0) (s_rolled st2))) with (s_reent (rollback_frame st2 0));
           rewrite rollback_frame_reent; exact H2). }
      destruct (cl_cached cl).
      * unfold store_value in H.
        destruct v as [z|]; [|destruct (cl_allow_none cl)]; pinv2;
          rewrite ?pop_frame_reent, ?rollback_frame_reent; exact H2.
      * destruct v as [z|]; [|destruct (cl_allow_none cl)]; pinv2;
          rewrite ?pop_frame_reent, ?rollback_frame_reent; exact H2.
    + pinv2. now rewrite rollback_frame_reent.
    + pinv2. exact H2.
  - intros st args locs whole rest idx r st' ln H Hs.
    destruct rest as [|s more]; simpl in H; [pinv2; assumption|].
    destruct s as [e|e h|e fc].
    + destruct (eval_expr f st args locs (stmt_line whole idx) e) as [[v|k|] st1] eqn:E1; pinv2; eauto.
    + destruct (eval_expr f st args locs (stmt_line whole idx + 1) e) as [[v|k|] st1] eqn:E1.
      * eauto.
      * destruct (catchable k); [|pinv2; eauto].
        pose proof (IHe _ _ _ _ _ _ _ E1 Hs) as H1.
        destruct (eval_expr f (upd_rolled st1 []) args locs (stmt_line whole idx + 3) h) as [[v|k2|] st2] eqn:E2.
        -- pose proof (IHe _ _ _ _ _ _ _ E2 H1) as H2'. eauto.
        -- pinv2. eauto.
        -- pinv2. eauto.
      * pinv2. eauto.
    + destruct (eval_expr f st args locs (stmt_line whole idx + 1) e) as [[v|k|] st1] eqn:E1.
      * pose proof (IHe _ _ _ _ _ _ _ E1 Hs) as H1.
        destruct (eval_expr f st1 args locs (stmt_line whole idx + 3) fc) as [[w|k2|] st2] eqn:E2.
        -- pose proof (IHe _ _ _ _ _ _ _ E2 H1) as H2'. eauto.
        -- pinv2. eauto.
        -- pinv2. eauto.
      * pose proof (IHe _ _ _ _ _ _ _ E1 Hs) as H1.
        destruct (eval_expr f (upd_rolled st1 []) args locs (stmt_line whole idx + 3) fc) as [[w|k2|] st2] eqn:E2.
        -- pose proof (IHe _ _ _ _ _ _ _ E2 H1) as H2'. pinv2. exact H2'.
        -- pose proof (IHe _ _ _ _ _ _ _ E2 H1) as H2'. pinv2.
           destruct (ekind_eqb k KDeep); exact H2'.
        -- pinv2. eauto.
      * pinv2. eauto.
Qed.

(** * Call-free expressions: evaluation touches only the reference stack *)
